(* Foundations for the simulation proofs of Rust/HeapOps.v:
   - exact effect of the arena primitives (a_set / allocate / deallocate) on lookups,
     on the allocation metadata (mask + free list) and on the "freed slots hold Default"
     property;
   - the same for the heap-level wrappers put_leaf / put_branch / alloc_* / dealloc_*;
   - [repr] introduction / transfer lemmas and id-disjointness helpers;
   - [flatten_unique]: a well-formed heap that represents the tree of a state with the
     state's metadata IS [flatten] of that state. *)
From Coq Require Import List Arith ZArith NArith Lia Bool Permutation.
From BPT Require Import Common.Base Common.AMap Rust.Arena Rust.ArenaSpec Rust.ArenaProofs
  Rust.Tree Rust.Heap Rust.Readers Rust.Run Rust.InvDefs Rust.Repr Rust.Lib Rust.InsertMeta
  Rust.Bridge Rust.ReadersGet Rust.HeapOps.
Import ListNotations.
Set Implicit Arguments.

(* ------------------------------------------------------------------ *)
(* list facts *)
Section ListFacts.
Variable A : Type.

Lemma nth_error_ext : forall (l1 l2 : list A),
  (forall i, nth_error l1 i = nth_error l2 i) -> l1 = l2.
Proof.
  induction l1 as [|a l1 IH]; intros [|b l2] H.
  - reflexivity.
  - specialize (H 0). discriminate.
  - specialize (H 0). discriminate.
  - pose proof (H 0) as H0. cbn in H0. inversion H0; subst. f_equal.
    apply IH. intros i. exact (H (S i)).
Qed.

Lemma In_set_nth_inv : forall i (x y : A) l, In y (set_nth i x l) ->
  y = x \/ exists j, j <> i /\ nth_error l j = Some y.
Proof.
  induction i as [|i IH]; intros x y [|a l] H; cbn [set_nth] in H; try (destruct H; fail).
  - destruct H as [<-|H]; [left; reflexivity|].
    right. apply In_nth_error in H. destruct H as (j & Hj). exists (S j). split; [lia|exact Hj].
  - destruct H as [<-|H].
    + right. exists 0. split; [lia|reflexivity].
    + apply IH in H. destruct H as [->|(j & Hj & Hn)]; [left; reflexivity|].
      right. exists (S j). split; [lia|exact Hn].
Qed.

Lemma In_insert_at_inv : forall i (x y : A) l, In y (insert_at i x l) -> y = x \/ In y l.
Proof.
  induction i as [|i IH]; intros x y l H.
  - destruct l; cbn in H; destruct H; auto.
  - destruct l as [|a l]; cbn [insert_at] in H.
    + destruct H as [<-|[]]; auto.
    + destruct H as [<-|H]; [right; left; reflexivity|].
      apply IH in H. destruct H; auto. right; right; auto.
Qed.

Lemma In_remove_at_inv : forall i (y : A) l, In y (remove_at i l) ->
  exists j, j <> i /\ nth_error l j = Some y.
Proof.
  induction i as [|i IH]; intros y [|a l] H; cbn [remove_at] in H; try (destruct H; fail).
  - apply In_nth_error in H. destruct H as (j & Hj). exists (S j). split; [lia|exact Hj].
  - destruct H as [<-|H].
    + exists 0. split; [lia|reflexivity].
    + apply IH in H. destruct H as (j & Hj & Hn). exists (S j). split; [lia|exact Hn].
Qed.

Lemma In_removelast : forall (l : list A) x, In x (removelast l) -> In x l.
Proof.
  induction l as [|a l IH]; intros x H; [destruct H|].
  cbn [removelast] in H. destruct l as [|b l]; [destruct H|].
  destruct H as [<-|H]; [left; reflexivity|right; apply IH; exact H].
Qed.

Lemma map_set_nth : forall (B : Type) (f : A -> B) i x l,
  map f (set_nth i x l) = set_nth i (f x) (map f l).
Proof.
  induction i as [|i IH]; intros x [|a l]; cbn [set_nth map]; try reflexivity.
  f_equal. apply IH.
Qed.

Lemma map_insert_at : forall (B : Type) (f : A -> B) i x l,
  map f (insert_at i x l) = insert_at i (f x) (map f l).
Proof.
  induction i as [|i IH]; intros x [|a l]; cbn [insert_at map]; try reflexivity.
  f_equal. apply IH.
Qed.

Lemma map_remove_at : forall (B : Type) (f : A -> B) i l,
  map f (remove_at i l) = remove_at i (map f l).
Proof.
  induction i as [|i IH]; intros [|a l]; cbn [remove_at map]; try reflexivity.
  f_equal. apply IH.
Qed.

Lemma map_removelast : forall (B : Type) (f : A -> B) l,
  map f (removelast l) = removelast (map f l).
Proof.
  induction l as [|a l IH]; [reflexivity|].
  cbn [removelast map]. destruct l as [|b l]; [reflexivity|].
  cbn [map] in *. f_equal. exact IH.
Qed.

Lemma set_nth_same_id : forall i (x : A) l, nth_error l i = Some x -> set_nth i x l = l.
Proof.
  induction i as [|i IH]; intros x [|a l] H; cbn [nth_error set_nth] in *; try discriminate.
  - inversion H; reflexivity.
  - f_equal. apply IH. exact H.
Qed.

Lemma vec_pop_map : forall (B : Type) (f : A -> B) l,
  vec_pop (map f l) = option_map (fun p => (f (fst p), map f (snd p))) (vec_pop l).
Proof.
  intros B f l. unfold vec_pop. rewrite <- map_rev.
  destruct (rev l) as [|x r]; cbn [map option_map fst snd]; [reflexivity|].
  rewrite map_rev. reflexivity.
Qed.

(* disjointness out of NoDup of a flat_map *)
Lemma NoDup_flat_map_disj : forall (B : Type) (f : A -> list B) cs i j a b x,
  NoDup (flat_map f cs) -> nth_error cs i = Some a -> nth_error cs j = Some b -> i <> j ->
  In x (f a) -> In x (f b) -> False.
Proof.
  intros B f. induction cs as [|c cs IH]; intros i j a b x ND Hi Hj Hne Ha Hb.
  - destruct i; discriminate.
  - cbn [flat_map] in ND. destruct i as [|i], j as [|j]; cbn [nth_error] in *.
    + lia.
    + inversion Hi; subst. eapply NoDup_app_disj; [exact ND|exact Ha|].
      apply in_flat_map. exists b. split; [eapply nth_error_In; eauto|exact Hb].
    + inversion Hj; subst. eapply NoDup_app_disj; [exact ND|exact Hb|].
      apply in_flat_map. exists a. split; [eapply nth_error_In; eauto|exact Ha].
    + eapply IH; [eapply NoDup_app_r; eauto|exact Hi|exact Hj|lia|exact Ha|exact Hb].
Qed.

Lemma In_flat_map_nth : forall (B : Type) (f : A -> list B) cs i a x,
  nth_error cs i = Some a -> In x (f a) -> In x (flat_map f cs).
Proof.
  intros. apply in_flat_map. exists a. split; [eapply nth_error_In; eauto|auto].
Qed.

End ListFacts.

Lemma list_max_in : forall l x, In x l -> x <= list_max l.
Proof.
  induction l as [|a l IH]; intros x H; [destruct H|].
  cbn [list_max fold_right]. destruct H as [<-|H]; [lia|].
  specialize (IH _ H). unfold list_max in IH. lia.
Qed.

(* ------------------------------------------------------------------ *)
(* arenas *)
Section ArenaFacts.
Variable T : Type.
Variable d : T.
Notation arena := (arena T).

Definition ameta_of (a : arena) : ameta := mkMeta (mask a) (free a).

(* well-formed: the arena invariant, and freed slots hold the Default item *)
Definition awf (a : arena) : Prop :=
  ArenaInv a /\
  (forall i, i < length (store a) -> mask_at a i = false -> nth_error (store a) i = Some d).

Lemma m_mask_at_of : forall (a : arena) i, m_mask_at (ameta_of a) i = mask_at a i.
Proof. reflexivity. Qed.

(* ---- a_set ---- *)
Lemma a_set_cases : forall (a : arena) id y,
  (a_get a id = None /\ fst (a_set a id y) = a) \/
  (exists x, a_get a id = Some x /\ N.to_nat id < length (store a) /\
     mask_at a (N.to_nat id) = true /\
     fst (a_set a id y) = mkArena (set_nth (N.to_nat id) y (store a)) (mask a) (free a)).
Proof.
  intros a id y. unfold a_set, a_get.
  destruct (N.eqb id NULL); [left; split; reflexivity|].
  destruct (Nat.ltb_spec (idx (length (store a)) id) (length (store a))) as [Hlt|Hge];
    cbn [andb]; [|left; split; reflexivity].
  pose proof (proj1 (idx_lt_iff _ _) Hlt) as Hlt'.
  rewrite (ArenaProofs.idx_lt _ _ Hlt') in *.
  destruct (mask_at a (N.to_nat id)) eqn:Em; [|left; split; reflexivity].
  right. destruct (nth_error (store a) (N.to_nat id)) as [x|] eqn:En.
  - exists x. repeat split; auto.
  - apply nth_error_None in En. lia.
Qed.

Lemma a_set_get_same : forall (a : arena) id x y,
  a_get a id = Some x -> a_get (fst (a_set a id y)) id = Some y.
Proof.
  intros a id x y H. destruct (a_set_cases a id y) as [(Hn & _)|(x' & _ & Hlt & Hm & ->)];
    [congruence|].
  apply a_get_Some in H. destruct H as (Hne & Hmk & _).
  apply a_get_Some. cbn [store mask]. repeat split; auto.
  apply set_nth_same. exact Hlt.
Qed.

Lemma a_set_get_other : forall (a : arena) id id' y,
  id' <> id -> a_get (fst (a_set a id y)) id' = a_get a id'.
Proof.
  intros a id id' y Hne. destruct (a_set_cases a id y) as [(_ & ->)|(x' & _ & Hlt & Hm & ->)];
    [reflexivity|].
  apply a_get_ext; cbn [store mask]; [|reflexivity].
  apply set_nth_other. apply to_nat_neq in Hne. auto.
Qed.

Lemma a_set_meta : forall (a : arena) id y, ameta_of (fst (a_set a id y)) = ameta_of a.
Proof.
  intros a id y. destruct (a_set_cases a id y) as [(_ & ->)|(x' & _ & Hlt & Hm & ->)]; reflexivity.
Qed.

Lemma a_set_length : forall (a : arena) id y,
  length (store (fst (a_set a id y))) = length (store a).
Proof.
  intros a id y. destruct (a_set_cases a id y) as [(_ & ->)|(x' & _ & Hlt & Hm & ->)];
    [reflexivity|]. cbn [store]. apply ArenaProofs.length_set_nth.
Qed.

Lemma a_set_awf : forall (a : arena) id y, awf a -> awf (fst (a_set a id y)).
Proof.
  intros a id y ((Hlen & Hnd & Hfree) & Hd).
  destruct (a_set_cases a id y) as [(_ & ->)|(x' & _ & Hlt & Hm & ->)].
  - split; [split; auto|auto].
  - split.
    + split; [|split]; cbn [store mask free]; auto.
      rewrite ArenaProofs.length_set_nth. exact Hlen.
    + cbn [store]. intros i Hi Hmi. rewrite ArenaProofs.length_set_nth in Hi.
      change (mask_at a i = false) in Hmi.
      assert (i <> N.to_nat id) by (intros ->; congruence).
      rewrite set_nth_other by auto. apply Hd; auto.
Qed.

(* ---- allocate ---- *)
Lemma allocate_sim : forall (a : arena) x m' id,
  length (store a) = length (mask a) ->
  m_alloc (ameta_of a) = Ok (m', id) ->
  exists a', allocate a x = Ok (a', id) /\ ameta_of a' = m'.
Proof.
  intros a x m' id Hlen H. unfold m_alloc in H. unfold allocate.
  cbn [ameta_of m_free m_mask] in H.
  destruct (free a) as [|i f'] eqn:Ef.
  - rewrite Hlen. unfold id_of_index in *. unfold Arena.id_of_index.
    destruct (N.leb (N.of_nat (length (mask a))) NULL); cbn [bind] in *; [|discriminate].
    inversion H; subst. eexists. split; [reflexivity|]. unfold ameta_of. cbn [mask free].
    reflexivity.
  - unfold vec_set in *. rewrite Hlen.
    destruct (Nat.ltb i (length (mask a))); cbn [bind] in *; [|discriminate].
    unfold id_of_index in *. unfold Arena.id_of_index.
    destruct (N.leb (N.of_nat i) NULL); cbn [bind] in *; [|discriminate].
    inversion H; subst. eexists. split; [reflexivity|]. reflexivity.
Qed.

Lemma small_room : forall (a : arena),
  length (store a) = length (mask a) -> room (ameta_of a) 0 -> small a.
Proof.
  intros a Hlen R. unfold small, room in *. cbn [ameta_of m_mask] in R.
  rewrite Hlen. rewrite Nat.add_0_r in R. exact R.
Qed.

Lemma allocate_awf : forall (a a' : arena) x id,
  awf a -> allocate a x = Ok (a', id) ->
  forall i, i < length (store a') -> mask_at a' i = false -> nth_error (store a') i = Some d.
Proof.
  intros a a' x id ((Hlen & Hnd & Hfree) & Hd) H. unfold allocate in H.
  destruct (free a) as [|j f'] eqn:Ef.
  - destruct (Arena.id_of_index (length (store a))); cbn [bind] in H; try discriminate.
    inversion H; subst. cbn [store]. intros i Hi Hm. unfold mask_at in Hm. cbn [mask] in Hm.
    rewrite app_length in Hi. cbn [length] in Hi.
    destruct (Nat.lt_ge_cases i (length (store a))) as [Hlt|Hge].
    + rewrite nth_error_app1 by auto. rewrite nth_error_app1 in Hm by lia. apply Hd; auto.
    + assert (i = length (mask a)) by lia. subst i.
      rewrite nth_error_app2, Nat.sub_diag in Hm by lia. discriminate.
  - unfold vec_set in H.
    destruct (Nat.ltb_spec j (length (store a))) as [Hj|]; cbn [bind] in H; [|discriminate].
    destruct (Nat.ltb j (length (mask a))); cbn [bind] in H; [|discriminate].
    destruct (Arena.id_of_index j); cbn [bind] in H; try discriminate.
    inversion H; subst. cbn [store]. intros i Hi Hm. unfold mask_at in Hm. cbn [mask] in Hm.
    rewrite ArenaProofs.length_set_nth in Hi.
    destruct (Nat.eq_dec j i) as [->|Hne].
    + rewrite set_nth_same in Hm by lia. discriminate.
    + rewrite set_nth_other in * by auto. apply Hd; auto.
Qed.

Lemma allocate_full : forall (a : arena) x m' id,
  awf a -> room (ameta_of a) 0 -> m_alloc (ameta_of a) = Ok (m', id) ->
  exists a', allocate a x = Ok (a', id) /\ ameta_of a' = m' /\ awf a' /\
    id <> NULL /\ a_get a id = None /\ a_get a' id = Some x /\
    (forall id', id' <> id -> a_get a' id' = a_get a id') /\
    length (m_mask m') <= S (length (mask a)).
Proof.
  intros a x m' id W R H. pose proof W as (AI & Hd). pose proof AI as (Hlen & _).
  destruct (allocate_sim a x Hlen H) as (a' & Ha & Hm).
  destruct (allocate_spec _ a x AI (small_room Hlen R))
    as (a2 & h2 & Ha2 & Hnn & Hfresh & Hnew & Hoth & AI' & _ & _ & Hl).
  rewrite Ha in Ha2. inversion Ha2; subst a2 h2.
  exists a'. split; [exact Ha|]. split; [exact Hm|]. split.
  { split; [exact AI'|]. eapply allocate_awf; eauto. }
  repeat (split; [assumption|]).
  rewrite <- Hm. cbn [ameta_of m_mask]. destruct AI' as (Hlen' & _). rewrite <- Hlen', Hl, <- Hlen.
  destruct (free a); lia.
Qed.

(* ---- deallocate ---- *)
Lemma deallocate_full : forall (a : arena) id,
  awf a ->
  exists a', deallocate d a id = Ok (a', a_get a id) /\
    ameta_of a' = m_dealloc (ameta_of a) id /\ awf a' /\
    a_get a' id = None /\ (forall id', id' <> id -> a_get a' id' = a_get a id') /\
    length (store a') = length (store a).
Proof.
  intros a id ((Hlen & Hnd & Hfree) & Hd).
  assert (AI : ArenaInv a) by (split; [|split]; auto).
  destruct (deallocate_spec _ d a id AI) as (a' & Hde & Hnone & Hoth & AI' & Hl' & _ & _).
  exists a'. split; [exact Hde|].
  (* recompute to get the exact shape *)
  assert (Same : a' = a -> ameta_of a = m_dealloc (ameta_of a) id ->
     ameta_of a' = m_dealloc (ameta_of a) id /\ awf a' /\ a_get a' id = None /\
     (forall id', id' <> id -> a_get a' id' = a_get a id') /\
     length (store a') = length (store a)).
  { intros -> E. split; [exact E|]. split; [split; [exact AI|exact Hd]|]. split; [exact Hnone|].
    split; [exact Hoth|reflexivity]. }
  unfold deallocate in Hde.
  destruct (N.eqb id NULL) eqn:En.
  { injection Hde as Ea _. apply Same; auto. unfold m_dealloc. rewrite En. reflexivity. }
  destruct (Nat.lt_ge_cases (N.to_nat id) (length (mask a))) as [Hin|Hout].
  2:{ rewrite idx_ge in Hde by assumption. rewrite mask_at_ge in Hde by lia. cbn [negb] in Hde.
      injection Hde as Ea _. apply Same; auto. unfold m_dealloc. rewrite En.
      rewrite m_mask_at_of, (mask_at_ge _ a (N.to_nat id)) by lia. reflexivity. }
  rewrite ArenaProofs.idx_lt in Hde by assumption.
  destruct (mask_at a (N.to_nat id)) eqn:Em; cbn [negb] in Hde.
  2:{ injection Hde as Ea _. apply Same; auto. unfold m_dealloc. rewrite En.
      rewrite m_mask_at_of, Em. reflexivity. }
  unfold vec_set, vec_get in Hde.
  destruct (Nat.ltb (N.to_nat id) (length (mask a))); cbn [bind] in Hde; [|discriminate].
  destruct (nth_error (store a) (N.to_nat id)); cbn [bind] in Hde; [|discriminate].
  destruct (Nat.ltb_spec (N.to_nat id) (length (store a))) as [Hs|]; cbn [bind] in Hde; [|discriminate].
  injection Hde as Ea _. clear Same.
  split.
  { subst a'. unfold m_dealloc. rewrite En, m_mask_at_of, Em. reflexivity. }
  split.
  { split; [exact AI'|]. subst a'. cbn [store]. intros i Hi Hm.
    rewrite ArenaProofs.length_set_nth in Hi.
    unfold mask_at in Hm. cbn [mask] in Hm.
    destruct (Nat.eq_dec (N.to_nat id) i) as [<-|Hne].
    - apply set_nth_same. exact Hs.
    - rewrite set_nth_other in * by auto. apply Hd; auto. }
  split; [exact Hnone|]. split; [exact Hoth|exact Hl'].
Qed.

End ArenaFacts.

(* ------------------------------------------------------------------ *)
(* heaps *)
Section HeapFacts.
Variable V : Type.
Notation heap := (heap V).
Notation leaf := (leaf V).
Notation ptree := (ptree V).

Definition lmeta_of (h : heap) : ameta := ameta_of (hleaves h).
Definition bmeta_of (h : heap) : ameta := ameta_of (hbranches h).

Record hwf (h : heap) : Prop := mkHwf {
  hwf_l : awf (@dflt_leaf V) (hleaves h);
  hwf_b : awf dflt_branch (hbranches h) }.

(* ---- put_leaf / put_branch ---- *)
Lemma get_leaf_put_leaf_same : forall (h : heap) id x y,
  get_leaf h id = Some x -> get_leaf (put_leaf h id y) id = Some y.
Proof. intros. unfold get_leaf, put_leaf. cbn [hleaves set_leaves]. eapply a_set_get_same; eauto. Qed.

Lemma get_leaf_put_leaf_other : forall (h : heap) id id' y,
  id' <> id -> get_leaf (put_leaf h id y) id' = get_leaf h id'.
Proof. intros. unfold get_leaf, put_leaf. cbn [hleaves set_leaves]. apply a_set_get_other; auto. Qed.

Lemma get_branch_put_leaf : forall (h : heap) id y id',
  get_branch (put_leaf h id y) id' = get_branch h id'.
Proof. reflexivity. Qed.

Lemma get_branch_put_branch_same : forall (h : heap) id x y,
  get_branch h id = Some x -> get_branch (put_branch h id y) id = Some y.
Proof. intros. unfold get_branch, put_branch. cbn [hbranches set_branches]. eapply a_set_get_same; eauto. Qed.

Lemma get_branch_put_branch_other : forall (h : heap) id id' y,
  id' <> id -> get_branch (put_branch h id y) id' = get_branch h id'.
Proof. intros. unfold get_branch, put_branch. cbn [hbranches set_branches]. apply a_set_get_other; auto. Qed.

Lemma get_leaf_put_branch : forall (h : heap) id y id',
  get_leaf (put_branch h id y) id' = get_leaf h id'.
Proof. reflexivity. Qed.

Lemma lmeta_put_leaf : forall (h : heap) id y, lmeta_of (put_leaf h id y) = lmeta_of h.
Proof. intros. unfold lmeta_of, put_leaf. cbn [hleaves set_leaves]. apply a_set_meta. Qed.
Lemma bmeta_put_leaf : forall (h : heap) id y, bmeta_of (put_leaf h id y) = bmeta_of h.
Proof. reflexivity. Qed.
Lemma lmeta_put_branch : forall (h : heap) id y, lmeta_of (put_branch h id y) = lmeta_of h.
Proof. reflexivity. Qed.
Lemma bmeta_put_branch : forall (h : heap) id y, bmeta_of (put_branch h id y) = bmeta_of h.
Proof. intros. unfold bmeta_of, put_branch. cbn [hbranches set_branches]. apply a_set_meta. Qed.

Lemma hwf_put_leaf : forall (h : heap) id y, hwf h -> hwf (put_leaf h id y).
Proof.
  intros h id y [Wl Wb]. constructor; unfold put_leaf; cbn [hleaves hbranches set_leaves]; auto.
  apply a_set_awf; auto.
Qed.
Lemma hwf_put_branch : forall (h : heap) id y, hwf h -> hwf (put_branch h id y).
Proof.
  intros h id y [Wl Wb]. constructor; unfold put_branch; cbn [hleaves hbranches set_branches]; auto.
  apply a_set_awf; auto.
Qed.

Lemma hroot_put_leaf : forall (h : heap) id y, hroot (put_leaf h id y) = hroot h.
Proof. reflexivity. Qed.
Lemma hroot_put_branch : forall (h : heap) id y, hroot (put_branch h id y) = hroot h.
Proof. reflexivity. Qed.
Lemma hcap_put_leaf : forall (h : heap) id y, hcap (put_leaf h id y) = hcap h.
Proof. reflexivity. Qed.
Lemma hcap_put_branch : forall (h : heap) id y, hcap (put_branch h id y) = hcap h.
Proof. reflexivity. Qed.

(* ---- allocation ---- *)
Lemma alloc_leaf_sim : forall (h : heap) x lm' rid,
  hwf h -> room (lmeta_of h) 0 -> m_alloc (lmeta_of h) = Ok (lm', rid) ->
  exists h', alloc_leaf h x = Ok (h', rid) /\
    lmeta_of h' = lm' /\ bmeta_of h' = bmeta_of h /\ hwf h' /\
    rid <> NULL /\ get_leaf h rid = None /\ get_leaf h' rid = Some x /\
    (forall id', id' <> rid -> get_leaf h' id' = get_leaf h id') /\
    (forall id', get_branch h' id' = get_branch h id') /\
    hroot h' = hroot h /\ hcap h' = hcap h /\
    length (m_mask lm') <= S (length (m_mask (lmeta_of h))).
Proof.
  intros h x lm' rid [Wl Wb] R H.
  destruct (allocate_full x Wl R H) as (a' & Ha & Hm & W' & Hnn & Hf & Hn & Ho & Hl).
  exists (set_leaves h a'). unfold alloc_leaf. rewrite Ha. cbn [bind fst snd].
  split; [reflexivity|]. split; [exact Hm|]. split; [reflexivity|].
  split; [constructor; auto|].
  repeat (split; [assumption || reflexivity|]). exact Hl.
Qed.

Lemma alloc_branch_sim : forall (h : heap) x bm' rid,
  hwf h -> room (bmeta_of h) 0 -> m_alloc (bmeta_of h) = Ok (bm', rid) ->
  exists h', alloc_branch h x = Ok (h', rid) /\
    bmeta_of h' = bm' /\ lmeta_of h' = lmeta_of h /\ hwf h' /\
    rid <> NULL /\ get_branch h rid = None /\ get_branch h' rid = Some x /\
    (forall id', id' <> rid -> get_branch h' id' = get_branch h id') /\
    (forall id', get_leaf h' id' = get_leaf h id') /\
    hroot h' = hroot h /\ hcap h' = hcap h /\
    length (m_mask bm') <= S (length (m_mask (bmeta_of h))).
Proof.
  intros h x bm' rid [Wl Wb] R H.
  destruct (allocate_full x Wb R H) as (a' & Ha & Hm & W' & Hnn & Hf & Hn & Ho & Hl).
  exists (set_branches h a'). unfold alloc_branch. rewrite Ha. cbn [bind fst snd].
  split; [reflexivity|]. split; [exact Hm|]. split; [reflexivity|].
  split; [constructor; auto|].
  repeat (split; [assumption || reflexivity|]). exact Hl.
Qed.

(* ---- deallocation ---- *)
Lemma dealloc_leaf_sim : forall (h : heap) id,
  hwf h ->
  exists h', dealloc_leaf h id = Ok h' /\
    lmeta_of h' = m_dealloc (lmeta_of h) id /\ bmeta_of h' = bmeta_of h /\ hwf h' /\
    get_leaf h' id = None /\
    (forall id', id' <> id -> get_leaf h' id' = get_leaf h id') /\
    (forall id', get_branch h' id' = get_branch h id') /\
    hroot h' = hroot h /\ hcap h' = hcap h.
Proof.
  intros h id [Wl Wb].
  destruct (deallocate_full id Wl) as (a' & Ha & Hm & W' & Hn & Ho & _).
  exists (set_leaves h a'). unfold dealloc_leaf. rewrite Ha. cbn [bind fst].
  split; [reflexivity|]. split; [exact Hm|]. split; [reflexivity|].
  split; [constructor; auto|].
  repeat (split; [assumption || reflexivity|]). reflexivity.
Qed.

Lemma dealloc_branch_sim : forall (h : heap) id,
  hwf h ->
  exists h', dealloc_branch h id = Ok h' /\
    bmeta_of h' = m_dealloc (bmeta_of h) id /\ lmeta_of h' = lmeta_of h /\ hwf h' /\
    get_branch h' id = None /\
    (forall id', id' <> id -> get_branch h' id' = get_branch h id') /\
    (forall id', get_leaf h' id' = get_leaf h id') /\
    hroot h' = hroot h /\ hcap h' = hcap h.
Proof.
  intros h id [Wl Wb].
  destruct (deallocate_full id Wb) as (a' & Ha & Hm & W' & Hn & Ho & _).
  exists (set_branches h a'). unfold dealloc_branch. rewrite Ha. cbn [bind fst].
  split; [reflexivity|]. split; [exact Hm|]. split; [reflexivity|].
  split; [constructor; auto|].
  repeat (split; [assumption || reflexivity|]). reflexivity.
Qed.

(* ---- repr ---- *)
Lemma repr_leaf_intro : forall (h : heap) id c ks vs nx,
  get_leaf h id = Some (mkLeaf c ks vs nx) -> repr h (PLeaf id c ks vs nx).
Proof.
  intros h id c ks vs nx H. split.
  - intros id' c' ks' vs' nx' Hs. inversion Hs; subst. exact H.
  - intros id' c' ks' cs' Hs. inversion Hs.
Qed.

Lemma repr_branch_intro : forall (h : heap) id c ks (cs : list ptree),
  get_branch h id = Some (mkBranch c ks (map (@ref_of V) cs)) ->
  (forall ch, In ch cs -> repr h ch) -> repr h (PBranch id c ks cs).
Proof.
  intros h id c ks cs H Hc. split.
  - intros id' c' ks' vs' nx' Hs. inversion Hs as [|? ? ? ? ? ch Hin Hs']; subst.
    destruct (Hc _ Hin) as [R1 _]. apply R1. exact Hs'.
  - intros id' c' ks' cs' Hs. inversion Hs as [|? ? ? ? ? ch Hin Hs']; subst.
    + exact H.
    + destruct (Hc _ Hin) as [_ R2]. apply R2. exact Hs'.
Qed.

Lemma repr_transfer : forall (h h' : heap) (t : ptree),
  repr h t ->
  (forall x, In x (leaf_ids t) -> get_leaf h' x = get_leaf h x) ->
  (forall x, In x (branch_ids t) -> get_branch h' x = get_branch h x) ->
  repr h' t.
Proof.
  intros h h' t [R1 R2] HL HB. split.
  - intros id c ks vs nx Hs. rewrite HL; [apply R1; exact Hs|].
    apply leaf_ids_subtree. eauto.
  - intros id c ks cs Hs. rewrite HB; [apply R2; exact Hs|].
    apply branch_ids_subtree. eauto.
Qed.

(* nodes of a represented tree are live *)
Lemma repr_leaf_live : forall (h : heap) (t : ptree) x,
  repr h t -> In x (leaf_ids t) -> get_leaf h x <> None.
Proof.
  intros h t x [R1 _] Hin. apply leaf_ids_subtree in Hin.
  destruct Hin as (c & ks & vs & nx & Hs). rewrite (R1 _ _ _ _ _ Hs). discriminate.
Qed.

Lemma repr_branch_live : forall (h : heap) (t : ptree) x,
  repr h t -> In x (branch_ids t) -> get_branch h x <> None.
Proof.
  intros h t x [_ R2] Hin. apply branch_ids_subtree in Hin.
  destruct Hin as (c & ks & cs & Hs). rewrite (R2 _ _ _ _ Hs). discriminate.
Qed.

(* what an operation leaves alone *)
Definition frame (L B : list N) (h h' : heap) : Prop :=
  (forall id x, get_leaf h id = Some x -> ~ In id L -> get_leaf h' id = Some x) /\
  (forall id x, get_branch h id = Some x -> ~ In id B -> get_branch h' id = Some x).

Lemma frame_refl : forall L B h, frame L B h h.
Proof. intros. split; auto. Qed.

Lemma frame_trans : forall L B h1 h2 h3, frame L B h1 h2 -> frame L B h2 h3 -> frame L B h1 h3.
Proof. intros L B h1 h2 h3 [A1 A2] [B1 B2]. split; intros; eauto. Qed.

Lemma frame_weaken : forall L B L' B' h h',
  frame L B h h' -> incl L L' -> incl B B' -> frame L' B' h h'.
Proof.
  intros L B L' B' h h' [A1 A2] IL IB. split; intros id x H Hn.
  - apply A1; auto.
  - apply A2; auto.
Qed.

Lemma repr_frame : forall L B (h h' : heap) (t : ptree),
  repr h t -> frame L B h h' ->
  (forall x, In x (leaf_ids t) -> ~ In x L) ->
  (forall x, In x (branch_ids t) -> ~ In x B) ->
  repr h' t.
Proof.
  intros L B h h' t R [F1 F2] DL DB. pose proof R as [R1 R2]. split.
  - intros id c ks vs nx Hs. apply F1; [apply R1; exact Hs|].
    apply DL. apply leaf_ids_subtree. eauto.
  - intros id c ks cs Hs. apply F2; [apply R2; exact Hs|].
    apply DB. apply branch_ids_subtree. eauto.
Qed.

(* ---- ids of children ---- *)
Lemma leaf_ids_child : forall id c ks (cs : list ptree) ch x,
  In ch cs -> In x (leaf_ids ch) -> In x (leaf_ids (PBranch id c ks cs)).
Proof.
  intros. rewrite Bridge.leaf_ids_branch. apply in_flat_map. eauto.
Qed.

Lemma branch_ids_child : forall id c ks (cs : list ptree) ch x,
  In ch cs -> In x (branch_ids ch) -> In x (branch_ids (PBranch id c ks cs)).
Proof.
  intros. cbn [branch_ids]. right. apply in_flat_map. eauto.
Qed.

Lemma NoDup_leaf_ids_child : forall id c ks (cs : list ptree) ch,
  NoDup (leaf_ids (PBranch id c ks cs)) -> In ch cs -> NoDup (leaf_ids ch).
Proof.
  intros id c ks cs ch ND Hin. rewrite Bridge.leaf_ids_branch in ND.
  eapply NoDup_flat_map_in; eauto.
Qed.

Lemma NoDup_branch_ids_child : forall id c ks (cs : list ptree) ch,
  NoDup (branch_ids (PBranch id c ks cs)) -> In ch cs -> NoDup (branch_ids ch).
Proof.
  intros id c ks cs ch ND Hin. cbn [branch_ids] in ND. inversion ND; subst.
  eapply NoDup_flat_map_in; eauto.
Qed.

Lemma branch_id_not_in_child : forall id c ks (cs : list ptree) ch,
  NoDup (branch_ids (PBranch id c ks cs)) -> In ch cs -> ~ In id (branch_ids ch).
Proof.
  intros id c ks cs ch ND Hin Hx. cbn [branch_ids] in ND. inversion ND as [|? ? Hn _]; subst.
  apply Hn. apply in_flat_map. eauto.
Qed.

Lemma height_child : forall id c ks (cs : list ptree) ch,
  In ch cs -> S (height ch) <= height (PBranch id c ks cs).
Proof.
  intros. cbn [height]. apply le_n_S. apply list_max_in. apply in_map. auto.
Qed.

(* ---- flatten ---- *)
Lemma lmeta_of_flatten : forall b : bstate V, lmeta_of (flatten b) = lmeta b.
Proof. intros b. unfold lmeta_of, ameta_of, flatten. cbn [hleaves mask free]. destruct (lmeta b); reflexivity. Qed.

Lemma bmeta_of_flatten : forall b : bstate V, bmeta_of (flatten b) = bmeta b.
Proof. intros b. unfold bmeta_of, ameta_of, flatten. cbn [hbranches mask free]. destruct (bmeta b); reflexivity. Qed.

Lemma hwf_flatten : forall b : bstate V, Inv b -> rooms b -> hwf (flatten b).
Proof.
  intros b I R. pose proof (flatten_heap_of I R) as HO. constructor.
  - split.
    + destruct (inv_leaves I) as (_ & _ & NDf & Hfree).
      split; [|split].
      * rewrite (ho_llen HO), (ho_lmask HO). reflexivity.
      * rewrite (ho_lfree HO). exact NDf.
      * rewrite (ho_lfree HO), (ho_lmask HO). exact Hfree.
    + intros i Hi Hm. apply (ho_freed_leaf HO); auto.
  - split.
    + destruct (inv_branches I) as (_ & _ & NDf & Hfree).
      split; [|split].
      * rewrite (ho_blen HO), (ho_bmask HO). reflexivity.
      * rewrite (ho_bfree HO). exact NDf.
      * rewrite (ho_bfree HO), (ho_bmask HO). exact Hfree.
    + intros i Hi Hm. apply (ho_freed_branch HO); auto.
Qed.

(* the layout is determined by what it represents *)
Lemma store_unique : forall (T : Type) (dd : T) (a : arena T) (m : ameta) (f : nat -> T),
  awf dd a -> ameta_of a = m ->
  (forall i, mask_at a i = true -> nth_error (store a) i = Some (f i)) ->
  (forall i, mask_at a i = false -> f i = dd) ->
  a = mkArena (map f (seq 0 (length (m_mask m)))) (m_mask m) (m_free m).
Proof.
  intros T dd [st mk fr] m f ((Hlen & _) & Hd) <- Hlive Hdead.
  cbn [store mask free ameta_of m_mask m_free] in *. f_equal.
  apply nth_error_ext. intros i.
  destruct (Nat.lt_ge_cases i (length mk)) as [Hlt|Hge].
  - rewrite nth_error_map_seq by auto.
    destruct (mask_at (mkArena st mk fr) i) eqn:Em.
    + apply Hlive. exact Em.
    + rewrite (Hdead _ Em). apply Hd; [lia|exact Em].
  - rewrite (proj2 (nth_error_None _ _)) by lia.
    symmetry. apply nth_error_None. rewrite map_length, seq_length. lia.
Qed.

Theorem flatten_unique : forall (b : bstate V) (h : heap),
  NoDup (leaf_ids (root b)) -> NoDup (branch_ids (root b)) ->
  (forall id, In id (leaf_ids (root b)) <-> m_mask_at (lmeta b) (N.to_nat id) = true) ->
  (forall id, In id (branch_ids (root b)) <-> m_mask_at (bmeta b) (N.to_nat id) = true) ->
  hwf h -> repr h (root b) ->
  lmeta_of h = lmeta b -> bmeta_of h = bmeta b ->
  hroot h = ref_of (root b) -> hcap h = cap b ->
  h = flatten b.
Proof.
  intros b h NDl NDb Ml Mb [Wl Wb] [R1 R2] El Eb Er Ec.
  destruct h as [hc hr hl hb]. cbn [hroot hcap hleaves hbranches] in *.
  unfold flatten. subst hc hr. f_equal.
  - apply (store_unique (lslot b) Wl El).
    + intros i Hm.
      assert (Hin : In (N.of_nat i) (leaf_ids (root b))).
      { apply Ml. rewrite Nat2N.id. rewrite <- El. exact Hm. }
      apply leaf_ids_subtree in Hin. destruct Hin as (c & ks & vs & nx & Hs).
      pose proof (R1 _ _ _ _ _ Hs) as Hg. unfold get_leaf in Hg. cbn [hleaves] in Hg.
      apply a_get_Some in Hg. destruct Hg as (_ & _ & Hg). rewrite Nat2N.id in Hg.
      rewrite Hg. f_equal. unfold lslot. rewrite (find_leaf_complete NDl Hs).
      rewrite <- El. change (m_mask_at (lmeta_of _) i) with (mask_at hl i). rewrite Hm. reflexivity.
    + intros i Hm. unfold lslot. rewrite <- El.
      change (m_mask_at (lmeta_of _) i) with (mask_at hl i). rewrite Hm.
      destruct (find_leaf (root b) (N.of_nat i)); reflexivity.
  - apply (store_unique (bslot b) Wb Eb).
    + intros i Hm.
      assert (Hin : In (N.of_nat i) (branch_ids (root b))).
      { apply Mb. rewrite Nat2N.id. rewrite <- Eb. exact Hm. }
      apply branch_ids_subtree in Hin. destruct Hin as (c & ks & cs & Hs).
      pose proof (R2 _ _ _ _ Hs) as Hg. unfold get_branch in Hg. cbn [hbranches] in Hg.
      apply a_get_Some in Hg. destruct Hg as (_ & _ & Hg). rewrite Nat2N.id in Hg.
      rewrite Hg. f_equal. unfold bslot. rewrite (find_branch_complete NDb Hs).
      rewrite <- Eb. change (m_mask_at (bmeta_of _) i) with (mask_at hb i). rewrite Hm. reflexivity.
    + intros i Hm. unfold bslot. rewrite <- Eb.
      change (m_mask_at (bmeta_of _) i) with (mask_at hb i). rewrite Hm.
      destruct (find_branch (root b) (N.of_nat i)); reflexivity.
Qed.

Corollary flatten_unique_inv : forall (b : bstate V) (h : heap),
  Inv b -> hwf h -> repr h (root b) ->
  lmeta_of h = lmeta b -> bmeta_of h = bmeta b ->
  hroot h = ref_of (root b) -> hcap h = cap b ->
  h = flatten b.
Proof.
  intros b h I W R El Eb Er Ec.
  destruct (inv_leaves I) as (NDl & Ml & _). destruct (inv_branches I) as (NDb & Mb & _).
  apply flatten_unique; auto.
Qed.

End HeapFacts.
