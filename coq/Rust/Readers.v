(* Model A readers: every read-only function of the crate, transcribed once on [heap],
   following ids through the arenas exactly as the Rust code does.  Loops carry fuel;
   [OutOfFuel] stands for a Rust loop that does not terminate (cyclic damage).
   The single unchecked access reachable from safe code (iteration.rs
   get_key_value_unchecked in try_get_next_item) yields [UB 170] when its documented
   precondition (index < keys.len() and index < values.len()) is false. *)
From BPT Require Import Common.Base Rust.Arena Rust.Tree Rust.Heap.
Set Implicit Arguments.

Section Readers.
Variable V : Type.
Notation heap := (heap V).
Notation leaf := (leaf V).

Definition nslots (h : heap) : nat :=
  length (store (hleaves h)) + length (store (hbranches h)).
Definition dfuel (h : heap) : nat := S (S (nslots h)).

(* ---------- descents ---------- *)
(* find_leaf_for_key_with_match / find_leaf_for_key (same walk) *)
Fixpoint h_find (fuel : nat) (h : heap) (r : nref) (z : Z) : res (option (N * nat * bool)) :=
  match fuel with
  | O => OutOfFuel
  | S f =>
    match r with
    | RLeaf id =>
        match get_leaf h id with
        | Some l => Ok (Some (id, lb (lkeys l) z, bfound (lkeys l) z))
        | None => Ok None
        end
    | RBranch id =>
        match get_branch h id with
        | Some b =>
            match nth_error (bkids b) (child_index (bkeys b) z) with
            | Some c => h_find f h c z
            | None => Ok None
            end
        | None => Ok None
        end
    end
  end.

Definition find_leaf_for_key_with_match (h : heap) (z : Z) := h_find (dfuel h) h (hroot h) z.

Definition h_get (h : heap) (z : Z) : res (option V) :=
  do r <- find_leaf_for_key_with_match h z;
  match r with
  | Some (id, i, true) =>
      Ok (match get_leaf h id with Some l => nth_error (lvals l) i | None => None end)
  | _ => Ok None
  end.

Definition h_contains (h : heap) (z : Z) : res bool :=
  do r <- h_get h z; Ok (match r with Some _ => true | None => false end).

Definition h_get_or_default (h : heap) (z : Z) (d : V) : res V :=
  do r <- h_get h z; Ok (match r with Some v => v | None => d end).

(* get_first_leaf_id *)
Fixpoint h_first (fuel : nat) (h : heap) (r : nref) : res (option N) :=
  match fuel with
  | O => OutOfFuel
  | S f =>
    match r with
    | RLeaf id => Ok (Some id)
    | RBranch id =>
        match get_branch h id with
        | Some b => match bkids b with c :: _ => h_first f h c | [] => Ok None end
        | None => Ok None
        end
    end
  end.
Definition get_first_leaf_id (h : heap) := h_first (dfuel h) h (hroot h).

(* ---------- recursive counters ---------- *)
Definition sum_res (l : list (res nat)) : res nat :=
  fold_left (fun acc r => do a <- acc; do n <- r; Ok (a + n)) l (Ok 0).

Fixpoint h_len (fuel : nat) (h : heap) (r : nref) : res nat :=
  match fuel with
  | O => OutOfFuel
  | S f =>
    match r with
    | RLeaf id => Ok (match get_leaf h id with Some l => length (lkeys l) | None => 0 end)
    | RBranch id =>
        match get_branch h id with
        | Some b => sum_res (map (h_len f h) (bkids b))
        | None => Ok 0
        end
    end
  end.
Definition len (h : heap) := h_len (dfuel h) h (hroot h).
Definition is_empty (h : heap) : res bool := do n <- len h; Ok (Nat.eqb n 0).

Fixpoint h_leaf_count (fuel : nat) (h : heap) (r : nref) : res nat :=
  match fuel with
  | O => OutOfFuel
  | S f =>
    match r with
    | RLeaf _ => Ok 1
    | RBranch id =>
        match get_branch h id with
        | Some b => sum_res (map (h_leaf_count f h) (bkids b))
        | None => Ok 0
        end
    end
  end.
Definition leaf_count (h : heap) := h_leaf_count (dfuel h) h (hroot h).

Definition is_leaf_root (h : heap) : bool :=
  match hroot h with RLeaf _ => true | RBranch _ => false end.

Definition pair_sum (l : list (res (nat * nat))) (init : nat * nat) : res (nat * nat) :=
  fold_left (fun acc r => do a <- acc; do n <- r; Ok (fst a + fst n, snd a + snd n)) l (Ok init).

Fixpoint h_count_nodes (fuel : nat) (h : heap) (r : nref) : res (nat * nat) :=
  match fuel with
  | O => OutOfFuel
  | S f =>
    match r with
    | RLeaf _ => Ok (1, 0)
    | RBranch id =>
        match get_branch h id with
        | Some b => pair_sum (map (h_count_nodes f h) (bkids b)) (0, 1)
        | None => Ok (0, 0)
        end
    end
  end.
Definition count_nodes_in_tree (h : heap) : res (nat * nat) :=
  match hroot h with
  | RLeaf _ => Ok (1, 0)
  | r => h_count_nodes (dfuel h) h r
  end.

Definition concat_res {A} (l : list (res (list A))) : res (list A) :=
  fold_left (fun acc r => do a <- acc; do x <- r; Ok (a ++ x)) l (Ok []).

Fixpoint h_leaf_sizes (fuel : nat) (h : heap) (r : nref) : res (list nat) :=
  match fuel with
  | O => OutOfFuel
  | S f =>
    match r with
    | RLeaf id => Ok (match get_leaf h id with Some l => [length (lkeys l)] | None => [] end)
    | RBranch id =>
        match get_branch h id with
        | Some b => concat_res (map (h_leaf_sizes f h) (bkids b))
        | None => Ok []
        end
    end
  end.
Definition leaf_sizes (h : heap) := h_leaf_sizes (dfuel h) h (hroot h).

Fixpoint h_leaf_ids (fuel : nat) (h : heap) (r : nref) : res (list N) :=
  match fuel with
  | O => OutOfFuel
  | S f =>
    match r with
    | RLeaf id => Ok [id]
    | RBranch id =>
        match get_branch h id with
        | Some b => concat_res (map (h_leaf_ids f h) (bkids b))
        | None => Ok []
        end
    end
  end.
Definition collect_leaf_ids (h : heap) := h_leaf_ids (dfuel h) h (hroot h).

Definition allocated_leaf_count (h : heap) : nat := a_len (hleaves h).
Definition allocated_branch_count (h : heap) : nat := a_len (hbranches h).
Definition free_leaf_count (h : heap) : nat := a_free_count (hleaves h).
Definition free_branch_count (h : heap) : nat := a_free_count (hbranches h).

(* ---------- ItemIterator ---------- *)
Record iter := mkIter {
  it_id : option N;
  it_leaf : option leaf;          (* current_leaf_ref: the cached leaf *)
  it_idx : nat;
  it_end_key : option Z;          (* borrowed end key *)
  it_end_bound : option Z;        (* owned end key *)
  it_incl : bool }.

Definition it_terminal (s : iter) : iter :=
  mkIter None None (it_idx s) (it_end_key s) (it_end_bound s) (it_incl s).

Definition item_new (h : heap) : res iter :=
  do fid <- get_first_leaf_id h;
  Ok (mkIter fid (match fid with Some i => get_leaf h i | None => None end) 0 None None false).

Definition from_position (h : heap) (id : N) (idx : nat) (e : option (Z * bool)) : iter :=
  mkIter (Some id) (get_leaf h id) idx
         (match e with Some (z, _) => Some z | None => None end) None
         (match e with Some (_, b) => b | None => false end).

(* try_get_next_item *)
Definition try_get (s : iter) (l : leaf) : res (iter * option (key * V)) :=
  if orb (Nat.leb (length (lkeys l)) (it_idx s)) (Nat.leb (length (lvals l)) (it_idx s))
  then Ok (s, None)
  else
    match nth_error (lkeys l) (it_idx s), nth_error (lvals l) (it_idx s) with
    | Some k, Some v =>
        let beyond :=
          match it_end_key s with
          | Some e => if it_incl s then Z.ltb e (kz k) else Z.leb e (kz k)
          | None =>
              match it_end_bound s with
              | Some e => if it_incl s then Z.ltb e (kz k) else Z.leb e (kz k)
              | None => false
              end
          end in
        if beyond then Ok (it_terminal s, None)
        else Ok (mkIter (it_id s) (it_leaf s) (S (it_idx s)) (it_end_key s)
                        (it_end_bound s) (it_incl s), Some (k, v))
    | _, _ => UB 170
    end.

(* advance_to_next_leaf_direct *)
Definition advance (h : heap) (s : iter) : iter * bool :=
  match it_leaf s with
  | None => (s, false)
  | Some l =>
      if N.eqb (lnext l) NULL then (it_terminal s, false)
      else
        let nl := get_leaf h (lnext l) in
        (mkIter (Some (lnext l)) nl 0 (it_end_key s) (it_end_bound s) (it_incl s),
         match nl with Some _ => true | None => false end)
  end.

Fixpoint item_next_f (fuel : nat) (h : heap) (s : iter) : res (iter * option (key * V)) :=
  match fuel with
  | O => OutOfFuel
  | S f =>
    match it_leaf s with
    | None => Ok (s, None)
    | Some l =>
        do r <- try_get s l;
        let '(s1, item) := r in
        match item with
        | Some _ => Ok (s1, item)
        | None =>
            let '(s2, ok) := advance h s1 in
            if ok then item_next_f f h s2 else Ok (s2, None)
        end
    end
  end.
Definition item_next (h : heap) (s : iter) := item_next_f (dfuel h) h s.

(* ---------- FastItemIterator (after the repair: checked lookups) ---------- *)
Record fiter := mkFiter { f_id : option N; f_leaf : option leaf; f_idx : nat; f_fin : bool }.

Definition fast_new (h : heap) : res fiter :=
  do fid <- get_first_leaf_id h;
  Ok (mkFiter fid (match fid with Some i => get_leaf h i | None => None end) 0 false).

Fixpoint fast_next_f (fuel : nat) (h : heap) (s : fiter) : res (fiter * option (key * V)) :=
  match fuel with
  | O => OutOfFuel
  | S f =>
    if f_fin s then Ok (s, None) else
    match f_leaf s with
    | None => Ok (mkFiter (f_id s) None (f_idx s) true, None)
    | Some l =>
        if Nat.ltb (f_idx s) (length (lkeys l)) then
          match nth_error (lkeys l) (f_idx s), nth_error (lvals l) (f_idx s) with
          | Some k, Some v => Ok (mkFiter (f_id s) (f_leaf s) (S (f_idx s)) false, Some (k, v))
          | _, _ => Ok (s, None)          (* the `?` on get_key / get_value *)
          end
        else if negb (N.eqb (lnext l) NULL) then
          fast_next_f f h (mkFiter (Some (lnext l)) (get_leaf h (lnext l)) 0 false)
        else Ok (mkFiter (f_id s) (f_leaf s) (f_idx s) true, None)
    end
  end.
Definition fast_next (h : heap) (s : fiter) := fast_next_f (dfuel h) h s.

(* ---------- RangeIterator ---------- *)
Inductive bound := Included (z : Z) | Excluded (z : Z) | Unbounded.

Record riter := mkRiter { r_it : option iter; r_skip : bool; r_first : option key }.

Definition resolve_range_bounds (h : heap) (lo hi : bound)
  : res (option (N * nat) * bool * option (Z * bool)) :=
  do st <-
    match lo with
    | Included z =>
        do r <- find_leaf_for_key_with_match h z;
        Ok (match r with Some (id, i, _) => Some (id, i) | None => None end, false)
    | Excluded z =>
        do r <- find_leaf_for_key_with_match h z;
        Ok (match r with Some (id, i, m) => (Some (id, i), m) | None => (None, false) end)
    | Unbounded =>
        do f <- get_first_leaf_id h;
        Ok (match f with Some id => Some (id, 0) | None => None end, false)
    end;
  let e := match hi with
           | Included z => Some (z, true) | Excluded z => Some (z, false) | Unbounded => None
           end in
  Ok (fst st, snd st, e).

Definition range_new (h : heap) (start : option (N * nat)) (skip : bool)
           (e : option (Z * bool)) : riter :=
  match start with
  | None => mkRiter None skip None
  | Some (id, idx) =>
      let it := mkIter (Some id) (get_leaf h id) idx None
                       (match e with Some (z, _) => Some z | None => None end)
                       (match e with Some (_, b) => b | None => false end) in
      let fk := if skip then
                  match get_leaf h id with Some l => nth_error (lkeys l) idx | None => None end
                else None in
      mkRiter (Some it) skip fk
  end.

Definition range_next (h : heap) (s : riter) : res (riter * option (key * V)) :=
  match r_it s with
  | None => Ok (s, None)
  | Some it =>
      do r <- item_next h it;
      let '(it1, item) := r in
      match item with
      | None => Ok (mkRiter (Some it1) (r_skip s) (r_first s), None)
      | Some (k, v) =>
          if r_skip s then
            match r_first s with
            | Some fk =>
                if Z.eqb (kz k) (kz fk) then
                  (* skip this item and take the next one *)
                  do r2 <- item_next h it1;
                  Ok (mkRiter (Some (fst r2)) false (r_first s), snd r2)
                else Ok (mkRiter (Some it1) false (r_first s), item)
            | None => Ok (mkRiter (Some it1) false (r_first s), item)
            end
          else Ok (mkRiter (Some it1) (r_skip s) (r_first s), item)
      end
  end.

Definition range (h : heap) (lo hi : bound) : res riter :=
  do r <- resolve_range_bounds h lo hi;
  let '(st, skip, e) := r in Ok (range_new h st skip e).

Definition items_range (h : heap) (s e : option Z) : res riter :=
  range h (match s with Some z => Included z | None => Unbounded end)
          (match e with Some z => Excluded z | None => Unbounded end).

(* ---------- draining (Iterator::collect / last / a bounded number of next calls) ---------- *)
Section Drain.
  Variable S' : Type.
  Variable next : S' -> res (S' * option (key * V)).
  (* call next up to n times, stop after the first None (but report it) *)
  Fixpoint take_n (n : nat) (s : S') : res (S' * list (option (key * V))) :=
    match n with
    | O => Ok (s, [])
    | S n' =>
        do r <- next s;
        let '(s1, item) := r in
        do rest <- take_n n' s1;
        Ok (fst rest, item :: snd rest)
    end.
  (* collect: all items until the first None; fuel bounds the number of items *)
  Fixpoint collect_f (fuel : nat) (s : S') : res (list (key * V)) :=
    match fuel with
    | O => OutOfFuel
    | S f =>
        do r <- next s;
        match snd r with
        | None => Ok []
        | Some kv => do rest <- collect_f f (fst r); Ok (kv :: rest)
        end
    end.
End Drain.

Definition total_items_bound (h : heap) : nat :=
  S (fold_left (fun a l => a + length (lkeys l)) (store (hleaves h)) 0).

Definition items (h : heap) : res (list (key * V)) :=
  do it <- item_new h; collect_f (item_next h) (total_items_bound h) it.
Definition items_fast (h : heap) : res (list (key * V)) :=
  do it <- fast_new h; collect_f (fast_next h) (total_items_bound h) it.
Definition keys (h : heap) : res (list key) := do l <- items h; Ok (map fst l).
Definition values (h : heap) : res (list V) := do l <- items h; Ok (map snd l).
Definition slice := items.
Definition first (h : heap) : res (option (key * V)) :=
  do it <- item_new h; do r <- item_next h it; Ok (snd r).
Definition last (h : heap) : res (option (key * V)) :=
  do l <- items h; Ok (last_opt l).
Definition range_collect (h : heap) (lo hi : bound) : res (list (key * V)) :=
  do it <- range h lo hi; collect_f (range_next h) (total_items_bound h) it.
Definition items_range_collect (h : heap) (s e : option Z) : res (list (key * V)) :=
  do it <- items_range h s e; collect_f (range_next h) (total_items_bound h) it.
Definition from_position_collect (h : heap) (id : N) (idx : nat) (e : option (Z * bool))
  : res (list (key * V)) :=
  collect_f (item_next h) (total_items_bound h) (from_position h id idx e).

(* ---------- validators (after the repair of the occupancy exemption) ---------- *)
Fixpoint strictly_asc (l : list key) : bool :=
  match l with
  | a :: ((b :: _) as t) => andb (Z.ltb (kz a) (kz b)) (strictly_asc t)
  | _ => true
  end.

Definition all_res (l : list (res bool)) : res bool :=
  fold_left (fun (acc r : res bool) => do a <- acc; if (a : bool) then r else Ok false) l (Ok true).

Definition child_bounds (ks : list key) (lo hi : option Z) (i : nat) : option Z * option Z :=
  ((if Nat.eqb i 0 then lo else match nth_error ks (i - 1) with Some k => Some (kz k) | None => None end),
   (if Nat.eqb i (length ks) then hi else match nth_error ks i with Some k => Some (kz k) | None => None end)).

Fixpoint check_node (fuel : nat) (h : heap) (r : nref) (lo hi : option Z) (is_root : bool)
  : res bool :=
  match fuel with
  | O => OutOfFuel
  | S f =>
    match r with
    | RLeaf id =>
        match get_leaf h id with
        | None => Ok false
        | Some l =>
            let n := length (lkeys l) in
            Ok (andb (Nat.eqb n (length (lvals l)))
               (andb (strictly_asc (lkeys l))
               (andb (Nat.leb n (hcap h))
               (andb (orb (negb (Nat.ltb n (lcap l / 2))) is_root)
               (andb (match lo, lkeys l with
                      | Some m, k :: _ => negb (Z.ltb (kz k) m)
                      | _, _ => true end)
                     (match hi, last_opt (lkeys l) with
                      | Some m, Some k => negb (Z.leb m (kz k))
                      | _, _ => true end))))))
        end
    | RBranch id =>
        match get_branch h id with
        | None => Ok false
        | Some b =>
            let n := length (bkeys b) in
            if negb (Nat.eqb (S n) (length (bkids b))) then Ok false else
            if negb (strictly_asc (bkeys b)) then Ok false else
            if Nat.ltb (hcap h) n then Ok false else
            if andb (Nat.ltb n (bcap b / 2)) (negb is_root) then Ok false else
            match bkids b with
            | [] => Ok false
            | _ =>
              all_res (map (fun ic =>
                              let '(lo', hi') := child_bounds (bkeys b) lo hi (fst ic) in
                              check_node f h (snd ic) lo' hi' false)
                           (combine (seq 0 (length (bkids b))) (bkids b)))
            end
        end
    end
  end.

Definition check_invariants (h : heap) : res bool :=
  check_node (dfuel h) h (hroot h) None None true.

Fixpoint insert_sorted (x : N) (l : list N) : list N :=
  match l with
  | [] => [x]
  | y :: l' => if N.leb x y then x :: l else y :: insert_sorted x l'
  end.
Definition sort_ids (l : list N) : list N := fold_right insert_sorted [] l.

Fixpoint list_eqb (a b : list N) : bool :=
  match a, b with
  | [], [] => true
  | x :: a', y :: b' => andb (N.eqb x y) (list_eqb a' b')
  | _, _ => false
  end.

(* the while-let walk of check_leaf_linked_list_completeness *)
Fixpoint chain_ids (fuel : nat) (h : heap) (cur : option N) : res (list N) :=
  match fuel with
  | O => OutOfFuel
  | S f =>
    match cur with
    | None => Ok []
    | Some id =>
        match get_leaf h id with
        | Some l =>
            do rest <- chain_ids f h (if N.eqb (lnext l) NULL then None else Some (lnext l));
            Ok (id :: rest)
        | None => Ok [id]
        end
    end
  end.

(* error classes of check_invariants_detailed: None = Ok(()) *)
Definition E_TREE := 1.      (* "Tree invariants violated" *)
Definition E_UNSORTED := 2.  (* "Iterator returned unsorted keys" *)
Definition E_COUNT := 3.     (* "Iterator returned n keys but tree has m items" *)
Definition E_LEAF_ARENA := 4.
Definition E_BRANCH_ARENA := 5.
Definition E_CHAIN := 6.     (* corrupted_tree("Linked list") *)

Definition check_invariants_detailed (h : heap) : res (option nat) :=
  do ok <- check_invariants h;
  if negb ok then Ok (Some E_TREE) else
  do ks <- keys h;
  if negb (strictly_asc ks) then Ok (Some E_UNSORTED) else
  do n <- len h;
  if negb (Nat.eqb (length ks) n) then Ok (Some E_COUNT) else
  do cnt <- count_nodes_in_tree h;
  if negb (Nat.eqb (fst cnt) (a_len (hleaves h))) then Ok (Some E_LEAF_ARENA) else
  if negb (Nat.eqb (snd cnt) (a_len (hbranches h))) then Ok (Some E_BRANCH_ARENA) else
  do tids <- collect_leaf_ids h;
  do fid <- get_first_leaf_id h;
  do cids <- chain_ids (S (S (length (store (hleaves h))))) h fid;
  if negb (list_eqb (sort_ids tids) (sort_ids cids)) then Ok (Some E_CHAIN) else
  Ok None.

Definition validate := check_invariants_detailed.
Definition validate_for_operation := check_invariants_detailed.

End Readers.
