(* Read-only functions of model A (Rust/Readers.v) on a heap that represents a model-B
   state satisfying the invariant: the descent (find_leaf_for_key_with_match), get,
   contains_key, get_or_default, len, is_empty, get_first_leaf_id and the recursive
   counters agree with the tree's contents / structure, and the default fuel suffices. *)
From Coq Require Import List Arith ZArith NArith Lia Bool Permutation.
From BPT Require Import Common.Base Common.AMap Rust.Arena Rust.Tree Rust.Heap Rust.Readers
  Rust.InvDefs Rust.Repr Rust.Lib Rust.TreeFactsI Rust.InsertMeta.
Import ListNotations.
Set Implicit Arguments.

(* ------------------------------------------------------------------ *)
(* generic list facts *)

Lemma RG_length_flat_map : forall (A B : Type) (f : A -> list B) l,
  length (flat_map f l) = list_sum (map (fun x => length (f x)) l).
Proof.
  induction l as [|x l IH]; [reflexivity|].
  cbn [flat_map map]. rewrite app_length, IH. reflexivity.
Qed.

Lemma RG_map_flat_map : forall (A B C : Type) (f : B -> C) (g : A -> list B) l,
  map f (flat_map g l) = flat_map (fun x => map f (g x)) l.
Proof.
  induction l as [|x l IH]; [reflexivity|].
  cbn [flat_map]. rewrite map_app, IH. reflexivity.
Qed.

Lemma RG_flat_map_flat_map : forall (A B C : Type) (f : B -> list C) (g : A -> list B) l,
  flat_map f (flat_map g l) = flat_map (fun x => flat_map f (g x)) l.
Proof.
  induction l as [|x l IH]; [reflexivity|].
  cbn [flat_map]. rewrite flat_map_app, IH. reflexivity.
Qed.

Lemma RG_flat_map_ext_in : forall (A B : Type) (f g : A -> list B) l,
  (forall x, In x l -> f x = g x) -> flat_map f l = flat_map g l.
Proof.
  induction l as [|x l IH]; intros H; [reflexivity|].
  cbn [flat_map]. rewrite (H x) by (left; reflexivity). rewrite IH; [reflexivity|].
  intros y Hy. apply H. right. exact Hy.
Qed.

Lemma RG_filter_all : forall (A : Type) (f : A -> bool) l,
  (forall x, In x l -> f x = true) -> filter f l = l.
Proof.
  induction l as [|x l IH]; intros H; [reflexivity|].
  cbn [filter]. rewrite (H x) by (left; reflexivity). f_equal. apply IH.
  intros y Hy. apply H. right. exact Hy.
Qed.

Lemma RG_filter_none : forall (A : Type) (f : A -> bool) l,
  (forall x, In x l -> f x = false) -> filter f l = [].
Proof.
  induction l as [|x l IH]; intros H; [reflexivity|].
  cbn [filter]. rewrite (H x) by (left; reflexivity). apply IH.
  intros y Hy. apply H. right. exact Hy.
Qed.

Lemma RG_NoDup_map_inj : forall (A B : Type) (f : A -> B) l,
  (forall x y, f x = f y -> x = y) -> NoDup l -> NoDup (map f l).
Proof.
  intros A B f l Hinj ND. induction ND as [|x l Hx ND IH]; cbn [map]; constructor; auto.
  intros Hin. apply in_map_iff in Hin. destruct Hin as (y & Hy & Hyl).
  apply Hinj in Hy. subst y. auto.
Qed.

(* ------------------------------------------------------------------ *)
(* the accumulating folds of the recursive counters *)

Lemma sum_res_ok : forall (A : Type) (f : A -> res nat) (g : A -> nat) l,
  (forall x, In x l -> f x = Ok (g x)) -> sum_res (map f l) = Ok (list_sum (map g l)).
Proof.
  intros A f g l H. unfold sum_res.
  assert (G : forall a,
    fold_left (fun acc r => do a <- acc; do n <- r; Ok (a + n)) (map f l) (Ok a)
    = Ok (a + list_sum (map g l))).
  { induction l as [|x l IH]; intros a.
    - cbn [map fold_left list_sum fold_right]. f_equal. lia.
    - cbn [map fold_left]. rewrite (H x) by (left; reflexivity). cbn [bind].
      rewrite IH by (intros y Hy; apply H; right; exact Hy).
      change (list_sum (g x :: map g l)) with (g x + list_sum (map g l)).
      f_equal. lia. }
  apply (G 0).
Qed.

Lemma pair_sum_ok : forall (A : Type) (f : A -> res (nat * nat)) (g1 g2 : A -> nat) l init,
  (forall x, In x l -> f x = Ok (g1 x, g2 x)) ->
  pair_sum (map f l) init
  = Ok (fst init + list_sum (map g1 l), snd init + list_sum (map g2 l)).
Proof.
  intros A f g1 g2 l. unfold pair_sum.
  induction l as [|x l IH]; intros init H.
  - cbn [map fold_left list_sum fold_right]. destruct init as [a b]. cbn [fst snd].
    f_equal. f_equal; lia.
  - cbn [map fold_left]. rewrite (H x) by (left; reflexivity). cbn [bind fst snd].
    rewrite IH by (intros y Hy; apply H; right; exact Hy). cbn [fst snd].
    change (list_sum (g1 x :: map g1 l)) with (g1 x + list_sum (map g1 l)).
    change (list_sum (g2 x :: map g2 l)) with (g2 x + list_sum (map g2 l)).
    f_equal. f_equal; lia.
Qed.

Lemma concat_res_ok : forall (A B : Type) (f : A -> res (list B)) (g : A -> list B) l,
  (forall x, In x l -> f x = Ok (g x)) -> concat_res (map f l) = Ok (flat_map g l).
Proof.
  intros A B f g l H. unfold concat_res.
  assert (G : forall a,
    fold_left (fun acc r => do a <- acc; do x <- r; Ok (a ++ x)) (map f l) (Ok a)
    = Ok (a ++ flat_map g l)).
  { induction l as [|x l IH]; intros a.
    - cbn [map fold_left flat_map]. rewrite app_nil_r. reflexivity.
    - cbn [map fold_left flat_map]. rewrite (H x) by (left; reflexivity). cbn [bind].
      rewrite IH by (intros y Hy; apply H; right; exact Hy).
      rewrite app_assoc. reflexivity. }
  apply (G []).
Qed.

(* ------------------------------------------------------------------ *)
(* induction over trees with the hypothesis for every child *)
Section PtreeInd.
Variable V : Type.
Variable P : ptree V -> Prop.
Hypothesis Hl : forall id c ks vs nx, P (PLeaf id c ks vs nx).
Hypothesis Hb : forall id c ks cs, (forall ch, In ch cs -> P ch) -> P (PBranch id c ks cs).

Fixpoint ptree_ind_in (t : ptree V) : P t :=
  match t with
  | PLeaf id c ks vs nx => Hl id c ks vs nx
  | PBranch id c ks cs =>
      @Hb id c ks cs
        ((fix go (l : list (ptree V)) : forall ch, In ch l -> P ch :=
            match l with
            | [] => fun ch H => match H with end
            | x :: l' => fun ch H =>
                match H with
                | or_introl e => eq_ind x P (ptree_ind_in x) ch e
                | or_intror H' => go l' ch H'
                end
            end) cs)
  end.
End PtreeInd.

(* ------------------------------------------------------------------ *)
Section ReadersGet.
Variable V : Type.
Notation ptree := (ptree V).
Notation lc := (fun p : N * leaf V => combine (lkeys (snd p)) (lvals (snd p))).
Notation ltz z := (fun e : key * V => Z.ltb (kz (fst e)) z).

Lemma contents_leaves_of : forall (t : ptree),
  contents t = flat_map (fun p => combine (lkeys (snd p)) (lvals (snd p))) (leaves_of t).
Proof.
  induction t as [id c ks vs nx | id c ks cs IH] using ptree_ind_in.
  - cbn [contents leaves_of flat_map snd lkeys lvals]. rewrite app_nil_r. reflexivity.
  - cbn [contents leaves_of]. rewrite RG_flat_map_flat_map.
    apply RG_flat_map_ext_in. exact IH.
Qed.

Lemma contents_leaves_of_list : forall (l : list ptree),
  flat_map lc (flat_map (@leaves_of V) l) = flat_map (@contents V) l.
Proof.
  intros l. rewrite RG_flat_map_flat_map. apply RG_flat_map_ext_in.
  intros x _. symmetry. apply contents_leaves_of.
Qed.

(* ---------------- repr restricted to subtrees ---------------- *)
Lemma repr_child : forall (h : heap V) id c ks cs ch,
  repr h (PBranch id c ks cs) -> In ch cs -> repr h ch.
Proof.
  intros h id c ks cs ch [R1 R2] Hin. split.
  - intros id' c' ks' vs' nx' Hs. apply R1. eapply sub_child; eauto.
  - intros id' c' ks' cs' Hs. apply R2. eapply sub_child; eauto.
Qed.

Lemma repr_leaf : forall (h : heap V) id c ks vs nx,
  repr h (PLeaf id c ks vs nx) -> get_leaf h id = Some (mkLeaf c ks vs nx).
Proof. intros h id c ks vs nx [R1 _]. apply R1. apply sub_refl. Qed.

Lemma repr_branch : forall (h : heap V) id c ks cs,
  repr h (PBranch id c ks cs) -> get_branch h id = Some (mkBranch c ks (map (@ref_of V) cs)).
Proof. intros h id c ks cs [_ R2]. apply R2. apply sub_refl. Qed.

(* ---------------- fuel ---------------- *)
Lemma shape_le_branches : forall c r hh (t : ptree), shape c r hh t -> hh <= n_branches t.
Proof.
  induction 1 as [r id ks vs nx | r h' id ks cs L1 L2 L3 L4 Hc IH]; [lia|].
  unfold n_branches. cbn [branch_ids length].
  destruct cs as [|c0 cs]; [cbn [length] in L1; lia|].
  cbn [flat_map]. rewrite app_length.
  specialize (IH c0 (or_introl eq_refl)). unfold n_branches in IH. lia.
Qed.

Lemma ids_le_mask : forall m ids, meta_ok m ids -> length ids <= length (m_mask m).
Proof.
  intros m ids (ND & Hin & _).
  rewrite <- (map_length N.to_nat ids).
  rewrite <- (seq_length (length (m_mask m)) 0).
  apply NoDup_incl_length.
  - apply RG_NoDup_map_inj; auto. intros x y. apply N2Nat.inj.
  - intros i Hi. apply in_map_iff in Hi. destruct Hi as (id & <- & Hid).
    apply in_seq. apply Hin in Hid. apply m_mask_at_lt in Hid. lia.
Qed.

Lemma fuel_ok : forall (b : bstate V) (h : heap V), Inv b -> heap_of b h ->
  exists hh, shape (cap b) true hh (root b) /\ hh < dfuel h.
Proof.
  intros b h I HO. destruct (inv_shape I) as (hh & Sh). exists hh. split; auto.
  pose proof (shape_le_branches Sh) as H1.
  pose proof (ids_le_mask (inv_branches I)) as H2. fold (n_branches (root b)) in H2.
  pose proof (ho_blen HO) as H3.
  unfold dfuel, nslots. lia.
Qed.

(* ---------------- the descent ---------------- *)
Lemma lb_filter : forall ks (vs : list V) z, sorted_keys ks -> length vs = length ks ->
  length (filter (ltz z) (combine ks vs)) = lb ks z.
Proof.
  induction ks as [|k ks IH]; intros vs z Hs Hl; [reflexivity|].
  destruct vs as [|v vs]; [discriminate|]. cbn [combine filter lb fst].
  apply sorted_keys_cons in Hs. destruct Hs as [Hs Hlt].
  cbn [length] in Hl.
  destruct (Z.ltb_spec (kz k) z) as [Hk|Hk].
  - cbn [length]. f_equal. apply IH; auto.
  - rewrite RG_filter_none; [reflexivity|].
    intros [k' v'] Hin. apply in_combine_l in Hin. apply Hlt in Hin. cbn [fst].
    apply Z.ltb_ge. lia.
Qed.

Lemma h_find_spec : forall (h : heap V) c z fuel (t : ptree) lo hi r hh,
  ord lo hi t -> shape c r hh t -> hh < fuel -> repr h t ->
  exists j id l,
    h_find fuel h (ref_of t) z = Ok (Some (id, lb (lkeys l) z, bfound (lkeys l) z)) /\
    nth_error (leaves_of t) j = Some (id, l) /\
    get_leaf h id = Some l /\
    length (lvals l) = length (lkeys l) /\
    length (flat_map lc (firstn j (leaves_of t))) + lb (lkeys l) z
      = length (filter (ltz z) (contents t)) /\
    m_get (contents t) z
      = (if bfound (lkeys l) z then nth_error (lvals l) (lb (lkeys l) z) else None).
Proof.
  intros h c z. induction fuel as [|f IH]; intros t lo hi r hh O Sh Hf R; [lia|].
  destruct t as [id c0 ks vs nx | id c0 ks cs].
  - destruct (ord_leaf_inv O) as (Hs & _).
    destruct (shape_leaf_inv Sh) as (_ & _ & Lv & _).
    exists 0, id, (mkLeaf c0 ks vs nx). cbn [h_find ref_of]. rewrite (repr_leaf R).
    cbn [lkeys lvals leaves_of nth_error firstn flat_map length contents Nat.add].
    split; [reflexivity|]. split; [reflexivity|]. split; [reflexivity|].
    split; [exact Lv|]. split.
    + rewrite lb_filter; auto.
    + apply leaf_get; auto.
  - destruct (ord_branch_inv O) as (Hs & F & Hc).
    destruct (@branch_contents_split V lo hi id c0 ks cs c r hh z O Sh) as [BL BR].
    destruct (shape_branch_inv Sh) as (h' & -> & -> & Lc & _ & _ & _ & Hsh).
    pose proof (child_index_le_length ks z) as Hci.
    set (ci := child_index ks z) in *.
    destruct (nth_error cs ci) as [ch|] eqn:Ech; [|apply nth_error_None in Ech; lia].
    pose proof (nth_error_In _ _ Ech) as Hin.
    destruct (IH ch _ _ false h' (Hc _ _ Ech) (Hsh _ Hin))
      as (j & lid & l & E1 & E2 & E3 & E4 & E5 & E6);
      [lia | eapply repr_child; eauto |].
    set (A := flat_map (@leaves_of V) (firstn ci cs)).
    set (B := flat_map (@leaves_of V) (skipn (S ci) cs)).
    assert (EL : flat_map (@leaves_of V) cs = A ++ leaves_of ch ++ B)
      by (apply flat_map_nth_split; exact Ech).
    assert (Hj : j < length (leaves_of ch)) by (apply nth_error_Some; congruence).
    exists (length A + j), lid, l.
    split.
    { cbn [h_find ref_of]. rewrite (repr_branch R). cbn [bkids bkeys]. fold ci.
      rewrite nth_error_map, Ech. cbn [option_map]. exact E1. }
    cbn [leaves_of contents]. rewrite EL.
    split.
    { rewrite nth_error_app2 by lia. replace (length A + j - length A) with j by lia.
      rewrite nth_error_app1 by exact Hj. exact E2. }
    split; [exact E3|]. split; [exact E4|]. split.
    { rewrite firstn_app_2. rewrite firstn_app.
      replace (j - length (leaves_of ch)) with 0 by lia. cbn [firstn]. rewrite app_nil_r.
      rewrite flat_map_app, app_length.
      unfold A. rewrite contents_leaves_of_list.
      rewrite (flat_map_nth_split (@contents V) _ _ Ech).
      rewrite !filter_app, !app_length.
      rewrite (@RG_filter_all _ (ltz z) (flat_map (@contents V) (firstn ci cs))).
      2:{ intros e He. apply BL in He. apply Z.ltb_lt. exact He. }
      rewrite (@RG_filter_none _ (ltz z) (flat_map (@contents V) (skipn (S ci) cs))).
      2:{ intros e He. apply BR in He. apply Z.ltb_ge. lia. }
      cbn [length]. lia. }
    rewrite (flat_map_nth_split (@contents V) _ _ Ech).
    rewrite m_get_app_r by exact BL. rewrite m_get_app_l by exact BR. exact E6.
Qed.

Lemma find_spec : forall (b : bstate V) (h : heap V) z, Inv b -> heap_of b h ->
  exists j id l i,
    find_leaf_for_key_with_match h z = Ok (Some (id, i, bfound (lkeys l) z)) /\
    nth_error (leaves_of (root b)) j = Some (id, l) /\
    i = lb (lkeys l) z /\ i <= length (lkeys l) /\
    length (flat_map (fun p => combine (lkeys (snd p)) (lvals (snd p)))
              (firstn j (leaves_of (root b)))) + i
      = length (filter (fun e => Z.ltb (kz (fst e)) z) (contents (root b))) /\
    (bfound (lkeys l) z = true <-> m_get (contents (root b)) z <> None).
Proof.
  intros b h z I HO. destruct (fuel_ok I HO) as (hh & Sh & Hf).
  destruct (h_find_spec z (inv_ord I) Sh Hf (ho_repr HO))
    as (j & id & l & E1 & E2 & E3 & E4 & E5 & E6).
  exists j, id, l, (lb (lkeys l) z).
  unfold find_leaf_for_key_with_match. rewrite (ho_root HO).
  split; [exact E1|]. split; [exact E2|]. split; [reflexivity|].
  split; [apply lb_le_length|]. split; [exact E5|].
  rewrite E6. split.
  - intros Hb. rewrite Hb. apply bfound_true in Hb. destruct Hb as (k & Hk & _).
    assert (lb (lkeys l) z < length (lvals l)).
    { rewrite E4. apply nth_error_Some. congruence. }
    apply nth_error_Some. exact H.
  - destruct (bfound (lkeys l) z); [reflexivity|congruence].
Qed.

Theorem h_get_spec : forall (b : bstate V) (h : heap V) z, Inv b -> heap_of b h ->
  h_get h z = Ok (m_get (contents (root b)) z).
Proof.
  intros b h z I HO. destruct (fuel_ok I HO) as (hh & Sh & Hf).
  destruct (h_find_spec z (inv_ord I) Sh Hf (ho_repr HO))
    as (j & id & l & E1 & E2 & E3 & E4 & E5 & E6).
  unfold h_get, find_leaf_for_key_with_match. rewrite (ho_root HO), E1. cbn [bind].
  rewrite E6. destruct (bfound (lkeys l) z); [|reflexivity].
  rewrite E3. reflexivity.
Qed.

Theorem h_contains_spec : forall (b : bstate V) (h : heap V) z, Inv b -> heap_of b h ->
  h_contains h z = Ok (match m_get (contents (root b)) z with Some _ => true | None => false end).
Proof.
  intros b h z I HO. unfold h_contains. rewrite (h_get_spec z I HO). reflexivity.
Qed.

Theorem h_get_or_default_spec : forall (b : bstate V) (h : heap V) z d, Inv b -> heap_of b h ->
  h_get_or_default h z d = Ok (match m_get (contents (root b)) z with Some v => v | None => d end).
Proof.
  intros b h z d I HO. unfold h_get_or_default. rewrite (h_get_spec z I HO). reflexivity.
Qed.

(* ---------------- len ---------------- *)
Lemma h_len_spec : forall (h : heap V) c fuel (t : ptree) r hh,
  shape c r hh t -> hh < fuel -> repr h t ->
  h_len fuel h (ref_of t) = Ok (length (contents t)).
Proof.
  intros h c. induction fuel as [|f IH]; intros t r hh Sh Hf R; [lia|].
  destruct t as [id c0 ks vs nx | id c0 ks cs].
  - cbn [h_len ref_of]. rewrite (repr_leaf R). cbn [lkeys contents].
    destruct (shape_leaf_inv Sh) as (_ & _ & Lv & _).
    rewrite combine_length, Lv, Nat.min_id. reflexivity.
  - destruct (shape_branch_inv Sh) as (h' & -> & -> & Lc & _ & _ & _ & Hsh).
    cbn [h_len ref_of]. rewrite (repr_branch R). cbn [bkids contents]. rewrite map_map.
    rewrite (@sum_res_ok _ _ (fun ch : ptree => length (contents ch))).
    + rewrite RG_length_flat_map. reflexivity.
    + intros ch Hin. apply (IH ch false h'); auto; [lia|]. eapply repr_child; eauto.
Qed.

Theorem len_spec : forall (b : bstate V) (h : heap V), Inv b -> heap_of b h ->
  len h = Ok (length (contents (root b))).
Proof.
  intros b h I HO. destruct (fuel_ok I HO) as (hh & Sh & Hf).
  unfold len. rewrite (ho_root HO). exact (h_len_spec Sh Hf (ho_repr HO)).
Qed.

Theorem is_empty_spec : forall (b : bstate V) (h : heap V), Inv b -> heap_of b h ->
  is_empty h = Ok (Nat.eqb (length (contents (root b))) 0).
Proof.
  intros b h I HO. unfold is_empty. rewrite (len_spec I HO). reflexivity.
Qed.

(* ---------------- first leaf ---------------- *)
Lemma h_first_spec : forall (h : heap V) c fuel (t : ptree) r hh,
  shape c r hh t -> hh < fuel -> repr h t ->
  exists id l rest, leaves_of t = (id, l) :: rest /\
    h_first fuel h (ref_of t) = Ok (Some id) /\ get_leaf h id = Some l.
Proof.
  intros h c. induction fuel as [|f IH]; intros t r hh Sh Hf R; [lia|].
  destruct t as [id c0 ks vs nx | id c0 ks cs].
  - exists id, (mkLeaf c0 ks vs nx), []. cbn [h_first ref_of leaves_of].
    split; [reflexivity|]. split; [reflexivity|]. apply (repr_leaf R).
  - destruct (shape_branch_inv Sh) as (h' & -> & -> & Lc & _ & _ & _ & Hsh).
    destruct cs as [|c1 cs]; [cbn [length] in Lc; lia|].
    destruct (IH c1 false h') as (lid & l & rest & E1 & E2 & E3);
      [apply Hsh; left; reflexivity | lia | eapply repr_child; [exact R | left; reflexivity] |].
    exists lid, l, (rest ++ flat_map (@leaves_of V) cs).
    cbn [h_first ref_of leaves_of flat_map]. rewrite (repr_branch R). cbn [bkids map].
    rewrite E1. split; [reflexivity|]. split; [exact E2|exact E3].
Qed.

Theorem first_leaf_spec : forall (b : bstate V) (h : heap V), Inv b -> heap_of b h ->
  exists id l rest, leaves_of (root b) = (id, l) :: rest /\
    get_first_leaf_id h = Ok (Some id) /\ get_leaf h id = Some l.
Proof.
  intros b h I HO. destruct (fuel_ok I HO) as (hh & Sh & Hf).
  unfold get_first_leaf_id. rewrite (ho_root HO). exact (h_first_spec Sh Hf (ho_repr HO)).
Qed.

(* ---------------- node counters ---------------- *)
Lemma n_leaves_branch : forall id c ks (cs : list ptree),
  n_leaves (PBranch id c ks cs) = list_sum (map (@n_leaves V) cs).
Proof. intros. unfold n_leaves. cbn [leaf_links]. apply RG_length_flat_map. Qed.

Lemma n_branches_branch : forall id c ks (cs : list ptree),
  n_branches (PBranch id c ks cs) = S (list_sum (map (@n_branches V) cs)).
Proof.
  intros. unfold n_branches. cbn [branch_ids length]. f_equal. apply RG_length_flat_map.
Qed.

Lemma h_leaf_count_spec : forall (h : heap V) c fuel (t : ptree) r hh,
  shape c r hh t -> hh < fuel -> repr h t ->
  h_leaf_count fuel h (ref_of t) = Ok (n_leaves t).
Proof.
  intros h c. induction fuel as [|f IH]; intros t r hh Sh Hf R; [lia|].
  destruct t as [id c0 ks vs nx | id c0 ks cs].
  - reflexivity.
  - destruct (shape_branch_inv Sh) as (h' & -> & -> & Lc & _ & _ & _ & Hsh).
    cbn [h_leaf_count ref_of]. rewrite (repr_branch R). cbn [bkids]. rewrite map_map.
    rewrite n_leaves_branch. apply sum_res_ok.
    intros ch Hin. apply (IH ch false h'); auto; [lia|]. eapply repr_child; eauto.
Qed.

Theorem leaf_count_spec : forall (b : bstate V) (h : heap V), Inv b -> heap_of b h ->
  leaf_count h = Ok (n_leaves (root b)).
Proof.
  intros b h I HO. destruct (fuel_ok I HO) as (hh & Sh & Hf).
  unfold leaf_count. rewrite (ho_root HO). exact (h_leaf_count_spec Sh Hf (ho_repr HO)).
Qed.

Lemma h_count_nodes_spec : forall (h : heap V) c fuel (t : ptree) r hh,
  shape c r hh t -> hh < fuel -> repr h t ->
  h_count_nodes fuel h (ref_of t) = Ok (n_leaves t, n_branches t).
Proof.
  intros h c. induction fuel as [|f IH]; intros t r hh Sh Hf R; [lia|].
  destruct t as [id c0 ks vs nx | id c0 ks cs].
  - reflexivity.
  - destruct (shape_branch_inv Sh) as (h' & -> & -> & Lc & _ & _ & _ & Hsh).
    cbn [h_count_nodes ref_of]. rewrite (repr_branch R). cbn [bkids]. rewrite map_map.
    rewrite n_leaves_branch, n_branches_branch.
    rewrite (@pair_sum_ok _ _ (@n_leaves V) (@n_branches V)).
    + cbn [fst snd]. reflexivity.
    + intros ch Hin. apply (IH ch false h'); auto; [lia|]. eapply repr_child; eauto.
Qed.

Theorem count_nodes_spec : forall (b : bstate V) (h : heap V), Inv b -> heap_of b h ->
  count_nodes_in_tree h = Ok (n_leaves (root b), n_branches (root b)).
Proof.
  intros b h I HO. destruct (fuel_ok I HO) as (hh & Sh & Hf).
  pose proof (h_count_nodes_spec Sh Hf (ho_repr HO)) as H.
  unfold count_nodes_in_tree. rewrite (ho_root HO).
  destruct (root b) as [id c0 ks vs nx | id c0 ks cs]; [reflexivity|].
  cbn [ref_of] in *. exact H.
Qed.

(* ---------------- leaf sizes / ids ---------------- *)
Lemma h_leaf_sizes_spec : forall (h : heap V) c fuel (t : ptree) r hh,
  shape c r hh t -> hh < fuel -> repr h t ->
  h_leaf_sizes fuel h (ref_of t)
  = Ok (map (fun p : N * leaf V => length (lkeys (snd p))) (leaves_of t)).
Proof.
  intros h c. induction fuel as [|f IH]; intros t r hh Sh Hf R; [lia|].
  destruct t as [id c0 ks vs nx | id c0 ks cs].
  - cbn [h_leaf_sizes ref_of]. rewrite (repr_leaf R). reflexivity.
  - destruct (shape_branch_inv Sh) as (h' & -> & -> & Lc & _ & _ & _ & Hsh).
    cbn [h_leaf_sizes ref_of leaves_of]. rewrite (repr_branch R). cbn [bkids].
    rewrite map_map. rewrite RG_map_flat_map. apply concat_res_ok.
    intros ch Hin. apply (IH ch false h'); auto; [lia|]. eapply repr_child; eauto.
Qed.

Theorem leaf_sizes_spec : forall (b : bstate V) (h : heap V), Inv b -> heap_of b h ->
  leaf_sizes h = Ok (map (fun p => length (lkeys (snd p))) (leaves_of (root b))).
Proof.
  intros b h I HO. destruct (fuel_ok I HO) as (hh & Sh & Hf).
  unfold leaf_sizes. rewrite (ho_root HO). exact (h_leaf_sizes_spec Sh Hf (ho_repr HO)).
Qed.

Lemma leaf_ids_branch : forall id c ks (cs : list ptree),
  leaf_ids (PBranch id c ks cs) = flat_map (@leaf_ids V) cs.
Proof. intros. unfold leaf_ids. cbn [leaf_links]. apply RG_map_flat_map. Qed.

Lemma h_leaf_ids_spec : forall (h : heap V) c fuel (t : ptree) r hh,
  shape c r hh t -> hh < fuel -> repr h t ->
  h_leaf_ids fuel h (ref_of t) = Ok (leaf_ids t).
Proof.
  intros h c. induction fuel as [|f IH]; intros t r hh Sh Hf R; [lia|].
  destruct t as [id c0 ks vs nx | id c0 ks cs].
  - reflexivity.
  - destruct (shape_branch_inv Sh) as (h' & -> & -> & Lc & _ & _ & _ & Hsh).
    cbn [h_leaf_ids ref_of]. rewrite (repr_branch R). cbn [bkids]. rewrite map_map.
    rewrite leaf_ids_branch. apply concat_res_ok.
    intros ch Hin. apply (IH ch false h'); auto; [lia|]. eapply repr_child; eauto.
Qed.

Theorem collect_leaf_ids_spec : forall (b : bstate V) (h : heap V), Inv b -> heap_of b h ->
  collect_leaf_ids h = Ok (leaf_ids (root b)).
Proof.
  intros b h I HO. destruct (fuel_ok I HO) as (hh & Sh & Hf).
  unfold collect_leaf_ids. rewrite (ho_root HO). exact (h_leaf_ids_spec Sh Hf (ho_repr HO)).
Qed.

End ReadersGet.

Print Assumptions find_spec.
Print Assumptions contents_leaves_of.
Print Assumptions h_get_spec.
Print Assumptions h_contains_spec.
Print Assumptions h_get_or_default_spec.
Print Assumptions len_spec.
Print Assumptions is_empty_spec.
Print Assumptions first_leaf_spec.
Print Assumptions leaf_count_spec.
Print Assumptions count_nodes_spec.
Print Assumptions leaf_sizes_spec.
Print Assumptions collect_leaf_ids_spec.
