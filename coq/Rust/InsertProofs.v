(* insert preserves the invariant and refines the sorted-association-list insert. *)
From Coq Require Import List Arith ZArith NArith Lia Bool Permutation.
From BPT Require Import Common.Base Common.AMap Rust.Tree Rust.Readers Rust.InvDefs Rust.Lib
  Rust.InsertMeta Rust.TreeFactsI Rust.InsertLocal.
Import ListNotations.
Set Implicit Arguments.

Lemma perm_ctx : forall (A : Type) (a b c d : list A),
  Permutation ((a ++ b ++ c) ++ d) (b ++ (a ++ c ++ d)).
Proof. intros. repeat rewrite <- app_assoc. apply Permutation_app_swap_app. Qed.

Lemma perm_ctx2 : forall (A : Type) (a b1 b2 c d : list A),
  Permutation ((a ++ b1 ++ b2 ++ c) ++ d) ((b1 ++ b2) ++ (a ++ c ++ d)).
Proof. intros. rewrite (app_assoc b1 b2 c). apply perm_ctx. Qed.

Section InsertProofs.
Variable V : Type.
Notation ptree := (ptree V).

Lemma lmeta_post_perm : forall lm lm' ids ids',
  lmeta_post lm lm' ids -> Permutation ids ids' -> lmeta_post lm lm' ids'.
Proof.
  intros lm lm' ids ids' (H1 & H2 & H3 & H4) P. split; [|split; [|split]]; auto.
  - eapply meta_ok_perm; eauto.
  - rewrite <- (Permutation_length P). auto.
Qed.

Lemma bmeta_post_perm : forall bm bm' ids ids' n n',
  bmeta_post bm bm' ids n -> Permutation ids ids' -> n <= n' -> bmeta_post bm bm' ids' n'.
Proof.
  intros bm bm' ids ids' n n' (H1 & H2 & H3 & H4) P Hn. split; [|split; [|split]]; auto.
  - eapply meta_ok_perm; eauto.
  - lia.
  - rewrite <- (Permutation_length P). auto.
Qed.

Lemma bmeta_post_trans : forall bm bm1 bm2 X Y n1 n2,
  bmeta_post bm bm1 X n1 -> bmeta_post bm1 bm2 Y n2 -> length X <= length Y ->
  bmeta_post bm bm2 Y (n1 + n2).
Proof.
  intros bm bm1 bm2 X Y n1 n2 (A1 & A2 & A3 & A4) (B1 & B2 & B3 & B4) L.
  split; [|split; [|split]]; auto; lia.
Qed.

Lemma length_sub_bids_le : forall (t : ptree) id,
  length (sub_bids t) <= length (branch_ids (with_id t id)).
Proof. destruct t; cbn; lia. Qed.

Lemma contents_frame : forall (B C A : list (key * V)) k v,
  (forall e, In e B -> (kz (fst e) < kz k)%Z) ->
  (forall e, In e A -> (kz k < kz (fst e))%Z) ->
  m_insert (B ++ C ++ A) k v = B ++ m_insert C k v ++ A /\
  m_get (B ++ C ++ A) (kz k) = m_get C (kz k).
Proof.
  intros B C A k v HB HA. split.
  - rewrite m_insert_app_r by auto. rewrite m_insert_app_l by auto. reflexivity.
  - rewrite m_get_app_r by auto. rewrite m_get_app_l by auto. reflexivity.
Qed.

Lemma ins_spec : forall fuel lm bm (t : ptree) k v c isroot h lo hi ctxL ctxB,
  4 <= c -> h < fuel -> ord lo hi t -> shape c isroot h t -> in_bounds lo hi k ->
  meta_ok lm (leaf_ids t ++ ctxL) -> meta_ok bm (branch_ids t ++ ctxB) ->
  room lm 1 -> room bm h ->
  exists lm' bm' ir, ins fuel lm bm t k v = Ok (lm', bm', ir) /\
    tree_post c isroot h lo hi t k v ir /\
    lmeta_post lm lm' (map fst (res_links ir) ++ ctxL) /\
    bmeta_post bm bm' (res_bids ir ++ ctxB) h.
Proof.
  induction fuel as [|f IH];
    intros lm bm t k v c isroot h lo hi ctxL ctxB Hc Hf O Sh Bk ML MB RL RB; [lia|].
  destruct t as [id nc ks vs nx | id nc ks cs].
  - (* leaf *)
    destruct (shape_leaf_inv Sh) as (-> & -> & _).
    unfold leaf_ids in ML. cbn [leaf_links map app fst] in ML.
    destruct (@ins_leaf_spec V lm id ks vs nx k v c isroot lo hi ctxL Hc O Sh Bk ML RL)
      as (lm' & ir & E & TP & LP & BI).
    cbn [ins]. rewrite E. cbn [bind]. exists lm', bm, ir.
    split; [reflexivity|]. split; [exact TP|]. split; [exact LP|].
    rewrite BI. cbn [branch_ids app] in *. split; [exact MB|]. lia.
  - (* branch *)
    destruct (shape_branch_inv Sh) as (h' & -> & -> & Lc & Lk & Lmin & Lroot & Hsh).
    destruct (ord_branch_inv O) as (Hs & F & Hch).
    pose proof (child_index_le_length ks (kz k)) as Hci.
    pose proof (@child_index_in_bounds ks lo hi k Hs Bk) as Bch.
    destruct (@branch_contents_split V lo hi id c ks cs c isroot (S h') (kz k) O Sh) as (CB & CA).
    cbn [ins]. set (ci := child_index ks (kz k)) in *.
    destruct (nth_error cs ci) as [ch|] eqn:Ech; [|apply nth_error_None in Ech; lia].
    pose proof (nth_error_In _ _ Ech) as Hin.
    pose proof (Hch ci ch Ech) as Och. pose proof (Hsh ch Hin) as Shch.
    assert (Hlt : ci < length cs) by lia.
    set (lo' := fst (child_bounds ks lo hi ci)) in *.
    set (hi' := snd (child_bounds ks lo hi ci)) in *.
    set (LB := flat_map (@leaf_links V) (firstn ci cs)).
    set (LA := flat_map (@leaf_links V) (skipn (S ci) cs)).
    set (BB := flat_map (@branch_ids V) (firstn ci cs)).
    set (BA := flat_map (@branch_ids V) (skipn (S ci) cs)).
    set (CBf := flat_map (@contents V) (firstn ci cs)) in *.
    set (CAf := flat_map (@contents V) (skipn (S ci) cs)) in *.
    set (T := PBranch id c ks cs) in *.
    assert (ELL : leaf_links T = LB ++ leaf_links ch ++ LA)
      by (unfold T; cbn [leaf_links]; apply flat_map_nth_split; auto).
    assert (EBI : branch_ids T = id :: BB ++ branch_ids ch ++ BA)
      by (unfold T; cbn [branch_ids]; f_equal; apply flat_map_nth_split; auto).
    assert (ECT : contents T = CBf ++ contents ch ++ CAf)
      by (unfold T; cbn [contents]; apply flat_map_nth_split; auto).
    set (ctxL' := map fst LB ++ map fst LA ++ ctxL).
    set (ctxB' := id :: BB ++ BA ++ ctxB).
    assert (ML' : meta_ok lm (leaf_ids ch ++ ctxL')).
    { eapply meta_ok_perm; [exact ML|]. unfold leaf_ids. rewrite ELL. rewrite !map_app.
      apply perm_ctx. }
    assert (MB' : meta_ok bm (branch_ids ch ++ ctxB')).
    { eapply meta_ok_perm; [exact MB|]. rewrite EBI. cbn [app].
      eapply perm_trans; [apply perm_skip; apply perm_ctx|]. apply Permutation_middle. }
    assert (Hf' : h' < f) by lia.
    assert (RB' : room bm h') by (apply (@room_le bm (S h') h'); auto).
    destruct (IH lm bm ch k v c false h' lo' hi' ctxL' ctxB' Hc Hf' Och Shch Bch ML' MB' RL RB')
      as (lm1 & bm1 & ir & E & TP & LP & BP).
    rewrite E. cbn [bind].
    destruct TP as (OS & TC & TO & TL).
    destruct (@contents_frame CBf (contents ch) CAf k v CB CA) as (CF1 & CF2).
    destruct ir as [c' old | c' old sep rgt].
    + (* child updated in place *)
      cbn [res_ord_shape res_contents res_old res_links res_bids] in *.
      destruct OS as (Oc' & Shc').
      set (cs1 := set_nth ci c' cs).
      exists lm1, bm1, (IUpd (PBranch id c ks cs1) old). split; [reflexivity|].
      assert (FM : forall (B : Type) (f : ptree -> list B),
                 flat_map f cs1 = flat_map f (firstn ci cs) ++ f c' ++ flat_map f (skipn (S ci) cs))
        by (intros; apply flat_map_set_nth; auto).
      split; [split; [|split; [|split]]|split];
        cbn [res_ord_shape res_contents res_old res_links res_bids].
      * split; [apply ord_set_child; auto|].
        constructor; unfold cs1; rewrite ?length_set_nth; auto.
        intros x Hx. apply In_set_nth in Hx. destruct Hx as [->|Hx]; auto.
      * rewrite ECT, CF1, <- TC. cbn [contents]. apply FM.
      * rewrite ECT, CF2. exact TO.
      * rewrite ELL. cbn [leaf_links]. rewrite FM. apply links_ext_frame. exact TL.
      * eapply lmeta_post_perm; [exact LP|]. cbn [leaf_links]. rewrite FM, !map_app.
        apply Permutation_sym. apply perm_ctx.
      * eapply bmeta_post_perm; [exact BP| |lia]. cbn [branch_ids]. rewrite FM.
        apply Permutation_sym. cbn [app].
        eapply perm_trans; [apply perm_skip; apply perm_ctx|]. apply Permutation_middle.
    + (* child split *)
      cbn [res_ord_shape res_contents res_old res_links res_bids] in *.
      destruct OS as (O1 & O2 & S1 & S2 & B1 & B2).
      assert (MB1 : meta_ok bm1 (branch_ids c' ++ sub_bids rgt ++ ctxB'))
        by (rewrite app_assoc; apply BP).
      assert (RB1 : room bm1 1).
      { eapply room_len; [exact RB|]. destruct BP as (_ & _ & ? & _). lia. }
      destruct (@realize_spec V bm1 rgt (branch_ids c') ctxB' MB1 RB1) as (bm2 & rid & Er & BP2).
      rewrite Er. cbn [bind].
      set (rgt' := with_id rgt rid) in *.
      set (cs1 := set_nth ci c' cs).
      assert (Lcs1 : length cs1 = S (length ks)) by (unfold cs1; rewrite length_set_nth; auto).
      destruct (@ins_branch_child_eq V id c ks cs1 ci sep rgt' old Hc Hci Lcs1 Lk) as [EQ1 EQ2].
      cbv zeta in EQ1, EQ2.
      set (ks2 := insert_at ci sep ks) in *. set (cs2 := insert_at (S ci) rgt' cs1) in *.
      assert (Lks2 : length ks2 = S (length ks)) by (unfold ks2; apply length_insert_at; auto).
      assert (Lcs2 : length cs2 = S (length ks2)) by (unfold cs2; rewrite length_insert_at; lia).
      assert (O2' : ord lo hi (PBranch id c ks2 cs2)).
      { unfold ks2, cs2, cs1. apply ord_branch_insert; auto. apply ord_with_id; auto. }
      assert (FSH : forall x, In x cs2 -> shape c false h' x).
      { intros x Hx. apply In_insert_at in Hx. destruct Hx as [->|Hx].
        - apply shape_with_id; auto.
        - apply In_set_nth in Hx. destruct Hx as [->|Hx]; auto. }
      assert (FM : forall (B : Type) (f : ptree -> list B),
                 flat_map f cs2 = flat_map f (firstn ci cs) ++ f c' ++ f rgt' ++ flat_map f (skipn (S ci) cs))
        by (intros; apply flat_map_insert_set; auto).
      assert (FC : flat_map (@contents V) cs2 = m_insert (contents T) k v).
      { rewrite FM, ECT, CF1, <- TC. unfold rgt'. rewrite contents_with_id.
        rewrite <- !app_assoc. reflexivity. }
      assert (FO : old = m_get (contents T) (kz k)) by (rewrite ECT, CF2; exact TO).
      assert (FL : links_ext (leaf_links T) (flat_map (@leaf_links V) cs2)).
      { rewrite FM, ELL. unfold rgt'. rewrite leaf_links_with_id.
        rewrite (app_assoc (leaf_links c')). apply links_ext_frame. exact TL. }
      assert (FLM : lmeta_post lm lm1 (map fst (flat_map (@leaf_links V) cs2) ++ ctxL)).
      { eapply lmeta_post_perm; [exact LP|]. rewrite FM. unfold rgt'. rewrite leaf_links_with_id.
        rewrite !map_app. apply Permutation_sym. apply perm_ctx2. }
      assert (FBM : bmeta_post bm bm2 ((id :: flat_map (@branch_ids V) cs2) ++ ctxB) (S h')).
      { assert (LL : length ((branch_ids c' ++ sub_bids rgt) ++ ctxB') <=
                     length (branch_ids c' ++ branch_ids rgt' ++ ctxB')).
        { pose proof (length_sub_bids_le rgt rid). fold rgt' in H. rewrite !app_length. lia. }
        pose proof (bmeta_post_trans BP BP2 LL) as BP3.
        eapply bmeta_post_perm; [exact BP3| |lia].
        rewrite FM. apply Permutation_sym. cbn [app].
        eapply perm_trans; [apply perm_skip; apply perm_ctx2|].
        eapply perm_trans; [apply Permutation_middle|]. rewrite <- app_assoc. apply Permutation_refl. }
      pose proof (half_facts Hc) as (G1 & G2 & G3 & G4).
      destruct (Nat.lt_ge_cases (length ks) c) as [Hnf|Hfull].
      * rewrite (EQ1 Hnf). eexists _, _, _. split; [reflexivity|].
        split; [split; [|split; [|split]]|split];
          cbn [res_ord_shape res_contents res_old res_links res_bids].
        -- split; auto. constructor; auto; try lia.
           intros E0. specialize (Lmin E0). lia.
        -- exact FC.
        -- exact FO.
        -- exact FL.
        -- exact FLM.
        -- exact FBM.
      * assert (Hk : length ks = c) by lia.
        destruct (EQ2 Hk) as (p & Ep & EQ). rewrite EQ.
        assert (Hpos : 0 < c / 2) by lia.
        destruct (@ord_branch_split V lo hi id c ks2 cs2 (c / 2) p id c NULL c O2' Lcs2 Ep Hpos)
          as (OL & OR & BL & BR).
        eexists _, _, _. split; [reflexivity|].
        split; [split; [|split; [|split]]|split];
          cbn [res_ord_shape res_contents res_old res_links res_bids].
        -- split; [exact OL|]. split; [exact OR|]. split; [|split; [|split; [exact BL|exact BR]]].
           ++ constructor; rewrite ?firstn_length; try lia.
              intros x Hx. apply FSH. eapply In_firstn; eauto.
           ++ constructor; rewrite ?skipn_length; try lia.
              intros x Hx. apply FSH. eapply In_skipn; eauto.
        -- cbn [contents]. rewrite flat_map_firstn_skipn. exact FC.
        -- exact FO.
        -- cbn [leaf_links]. rewrite flat_map_firstn_skipn. exact FL.
        -- cbn [leaf_links]. rewrite flat_map_firstn_skipn. exact FLM.
        -- cbn [branch_ids sub_bids]. rewrite <- app_comm_cons. rewrite flat_map_firstn_skipn.
           exact FBM.
Qed.

Theorem insert_inv : forall (b : bstate V) (k : key) (v : V),
  Inv b -> room (lmeta b) 1 -> room (bmeta b) (height (root b) + 2) ->
  exists b' old,
    b_insert b k v = Ok (b', old) /\
    Inv b' /\
    cap b' = cap b /\
    contents (root b') = m_insert (contents (root b)) k v /\
    old = m_get (contents (root b)) (kz k) /\
    length (m_mask (lmeta b')) <= Nat.max (length (m_mask (lmeta b))) (n_leaves (root b')) /\
    length (m_mask (bmeta b')) <= Nat.max (length (m_mask (bmeta b))) (n_branches (root b')) /\
    length (m_mask (lmeta b)) <= length (m_mask (lmeta b')) /\
    length (m_mask (lmeta b')) <= S (length (m_mask (lmeta b))) /\
    length (m_mask (bmeta b)) <= length (m_mask (bmeta b')) /\
    length (m_mask (bmeta b')) <= length (m_mask (bmeta b)) + height (root b) + 2 /\
    height (root b') <= S (height (root b)).
Proof.
  intros b k v I RL RB. destruct I as [Hc O [h Sh] ML MB CH].
  pose proof (shape_height Sh) as Hh. unfold b_insert. rewrite Hh in *.
  assert (ML0 : meta_ok (lmeta b) (leaf_ids (root b) ++ [])) by (rewrite app_nil_r; auto).
  assert (MB0 : meta_ok (bmeta b) (branch_ids (root b) ++ [])) by (rewrite app_nil_r; auto).
  assert (RB0 : room (bmeta b) h) by (apply (@room_le (bmeta b) (h + 2) h); auto; lia).
  assert (Bk : in_bounds None None k) by (split; exact I).
  destruct (@ins_spec (S h) (lmeta b) (bmeta b) (root b) k v (cap b) true h None None [] []
              Hc (Nat.lt_succ_diag_r h) O Sh Bk ML0 MB0 RL RB0)
    as (lm' & bm' & ir & E & (OS & TC & TO & TL) & LP & BP).
  rewrite E. cbn [bind].
  specialize (TL [] [] NULL). cbn [app] in TL. rewrite !app_nil_r in TL. specialize (TL CH).
  rewrite app_nil_r in LP.
  destruct LP as (LP1 & LP2 & LP3 & LP4).
  destruct ir as [t' old | t' old sep rgt];
    cbn [res_ord_shape res_contents res_old res_links res_bids] in *.
  - destruct OS as (O' & Sh').
    rewrite app_nil_r in BP. destruct BP as (BP1 & BP2 & BP3 & BP4).
    exists (mkB (cap b) t' lm' bm'), old. split; [reflexivity|].
    cbn [root cap lmeta bmeta]. split.
    { constructor; cbn [root cap lmeta bmeta]; auto. exists h; auto. }
    split; [reflexivity|]. split; [exact TC|]. split; [exact TO|].
    unfold n_leaves, n_branches. rewrite map_length in LP4.
    rewrite (shape_height Sh'). repeat split; auto; lia.
  - destruct OS as (O1 & O2 & S1 & S2 & B1 & B2).
    rewrite <- app_assoc in BP. pose proof BP as (BP1 & BP2 & BP3 & BP4).
    assert (RB1 : room bm' 1) by (eapply room_len; [exact RB|]; lia).
    destruct (@realize_spec V bm' rgt (branch_ids t') [] BP1 RB1)
      as (bm2 & rid & Er & (Q1 & Q2 & Q3 & Q4)).
    rewrite Er. cbn [bind].
    set (rgt' := with_id rgt rid) in *.
    assert (RB2 : room bm2 1) by (eapply room_len; [exact RB|]; lia).
    destruct (m_alloc_ok Q1 RB2) as (bm3 & rid2 & Ea & _ & _ & MO3 & L1 & L2 & L3).
    rewrite Ea. cbn [bind].
    exists (mkB (cap b) (PBranch rid2 (cap b) [sep] [t'; rgt']) lm' bm3), old.
    split; [reflexivity|]. cbn [root cap lmeta bmeta].
    assert (Sh' : shape (cap b) true (S h) (PBranch rid2 (cap b) [sep] [t'; rgt'])).
    { constructor; cbn [length]; try lia.
      intros x [<-|[<-|[]]]; auto. apply shape_with_id; auto. }
    pose proof (length_sub_bids_le rgt rid) as LS. fold rgt' in LS.
    split.
    { constructor; cbn [root cap lmeta bmeta]; auto.
      - constructor.
        + unfold sorted_keys. cbn. auto.
        + constructor; [split; cbn; auto|constructor].
        + intros i ch Hn. destruct i as [|[|i]]; cbn in Hn.
          * inversion Hn; subst. cbn. exact O1.
          * inversion Hn; subst. cbn. apply ord_with_id. exact O2.
          * destruct i; discriminate.
      - exists (S h). exact Sh'.
      - unfold leaf_ids. cbn [leaf_links flat_map]. unfold rgt'. rewrite leaf_links_with_id.
        rewrite app_nil_r. exact LP1.
      - unfold chain_ok. cbn [leaf_links flat_map]. unfold rgt'. rewrite leaf_links_with_id.
        rewrite app_nil_r. exact TL. }
    split; [reflexivity|].
    split.
    { cbn [contents flat_map]. unfold rgt'. rewrite contents_with_id, app_nil_r. exact TC. }
    split; [exact TO|].
    unfold n_leaves, n_branches. cbn [leaf_links branch_ids flat_map length].
    unfold rgt' at 1. rewrite leaf_links_with_id. rewrite app_nil_r.
    rewrite map_length in LP4. rewrite (shape_height Sh').
    rewrite !app_length in *. cbn [length] in *.
    repeat split; auto; lia.
Qed.

End InsertProofs.

Print Assumptions insert_inv.
