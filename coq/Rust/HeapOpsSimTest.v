(* Executable cross-check of the arena-level mutators (Rust/HeapOps.v) against the model-B
   mutators (Rust/Tree.v) laid out by [flatten]: both are folded over the same operation
   sequences and the heaps are compared slot by slot after EVERY step.  An event counter
   (computed from heap differences) shows that splits at every level, both borrows and both
   merges at leaf and branch level, root collapse and slot reuse all occur. *)
From BPT Require Import Common.Base Rust.Arena Rust.Tree Rust.Heap Rust.Readers Rust.Run
  Rust.HeapOps.
Set Implicit Arguments.

Local Open Scope Z_scope.

(* ---------- boolean heap equality (V := Z) ---------- *)
Fixpoint list_eqb {A} (e : A -> A -> bool) (l1 l2 : list A) : bool :=
  match l1, l2 with
  | [], [] => true
  | a :: l1', b :: l2' => e a b && list_eqb e l1' l2'
  | _, _ => false
  end.

Definition nref_eqb (a b : nref) : bool :=
  match a, b with
  | RLeaf i, RLeaf j => N.eqb i j
  | RBranch i, RBranch j => N.eqb i j
  | _, _ => false
  end.

Definition leaf_eqb (a b : leaf Z) : bool :=
  Nat.eqb (lcap a) (lcap b) && list_eqb key_eqb (lkeys a) (lkeys b) &&
  list_eqb Z.eqb (lvals a) (lvals b) && N.eqb (lnext a) (lnext b).

Definition branch_eqb (a b : branch) : bool :=
  Nat.eqb (bcap a) (bcap b) && list_eqb key_eqb (bkeys a) (bkeys b) &&
  list_eqb nref_eqb (bkids a) (bkids b).

Definition arena_eqb {T} (e : T -> T -> bool) (a b : arena T) : bool :=
  list_eqb e (store a) (store b) && list_eqb Bool.eqb (mask a) (mask b) &&
  list_eqb Nat.eqb (free a) (free b).

Definition heap_eqb (a b : heap Z) : bool :=
  Nat.eqb (hcap a) (hcap b) && nref_eqb (hroot a) (hroot b) &&
  arena_eqb leaf_eqb (hleaves a) (hleaves b) && arena_eqb branch_eqb (hbranches a) (hbranches b).

Definition opt_eqb (a b : option Z) : bool :=
  match a, b with
  | None, None => true
  | Some x, Some y => Z.eqb x y
  | _, _ => false
  end.

(* ---------- events, read off the heaps before/after ---------- *)
Fixpoint ndiff {T} (e : T -> T -> bool) (l1 l2 : list T) : nat :=
  match l1, l2 with
  | a :: l1', b :: l2' => (if e a b then 0 else 1)%nat + ndiff e l1' l2'
  | [], l => length l
  | l, [] => length l
  end.

Record stats := mkStats {
  s_leaf_split : nat; s_branch_split : nat; s_root_split : nat;
  s_leaf_borrow : nat; s_leaf_merge : nat; s_branch_borrow : nat; s_branch_merge : nat;
  s_collapse : nat; s_leaf_reuse : nat; s_branch_reuse : nat }.

Definition stats0 := mkStats 0 0 0 0 0 0 0 0 0 0.

Definition height_A (h : heap Z) : nat :=
  (fix go (fuel : nat) (r : nref) : nat :=
     match fuel with
     | O => O
     | S f =>
       match r with
       | RLeaf _ => O
       | RBranch id =>
           match get_branch h id with
           | Some x => match bkids x with c :: _ => S (go f c) | [] => 1%nat end
           | None => O
           end
       end
     end) (dfuel h) (hroot h).

Definition b2n (b : bool) : nat := if b then 1%nat else 0%nat.

Definition observe (s : stats) (h h' : heap Z) : stats :=
  let la := a_len (hleaves h) in let la' := a_len (hleaves h') in
  let ba := a_len (hbranches h) in let ba' := a_len (hbranches h') in
  let ld := ndiff leaf_eqb (store (hleaves h)) (store (hleaves h')) in
  let bd := ndiff branch_eqb (store (hbranches h)) (store (hbranches h')) in
  let up := Nat.ltb (height_A h) (height_A h') in
  let down := Nat.ltb (height_A h') (height_A h) in
  let same_alloc := Nat.eqb la la' && Nat.eqb ba ba' in
  mkStats
    (s_leaf_split s + b2n (Nat.ltb la la'))
    (s_branch_split s + b2n (Nat.ltb ba ba' && negb up || Nat.ltb (S ba) ba'))
    (s_root_split s + b2n up)
    (s_leaf_borrow s + b2n (same_alloc && Nat.leb 2 ld))
    (s_leaf_merge s + b2n (Nat.ltb la' la))
    (s_branch_borrow s + b2n (Nat.eqb ba ba' && Nat.leb 3 bd))
    (s_branch_merge s + b2n (Nat.ltb ba' ba && negb down || Nat.ltb (S ba') ba))
    (s_collapse s + b2n down)
    (s_leaf_reuse s + b2n (Nat.ltb la la' &&
                           Nat.eqb (length (store (hleaves h))) (length (store (hleaves h')))))
    (s_branch_reuse s + b2n (Nat.ltb ba ba' &&
                           Nat.eqb (length (store (hbranches h))) (length (store (hbranches h'))))).

(* ---------- running both models side by side ---------- *)
Inductive top := TIns (z : Z) | TRem (z : Z) | TUpd (z : Z) | TClear.

Record st := mkSt { st_b : bstate Z; st_h : heap Z; st_ok : bool; st_n : N; st_stats : stats }.

Definition step2 (s : st) (o : top) : st :=
  if negb (st_ok s) then s else
  let n := st_n s in
  let bad := mkSt (st_b s) (st_h s) false n (st_stats s) in
  match o with
  | TIns z =>
      match b_insert (st_b s) (mkKey z n) (z * 1000 + Z.of_N n),
            insert_A (st_h s) (mkKey z n) (z * 1000 + Z.of_N n) with
      | Ok (b', o1), Ok (h', o2) =>
          mkSt b' h' (heap_eqb (flatten b') h' && opt_eqb o1 o2) (N.succ n)
               (observe (st_stats s) (st_h s) h')
      | _, _ => bad
      end
  | TRem z =>
      match b_remove (st_b s) z, remove_A (st_h s) z with
      | Ok (b', o1), Ok (h', o2) =>
          mkSt b' h' (heap_eqb (flatten b') h' && opt_eqb o1 o2) (N.succ n)
               (observe (st_stats s) (st_h s) h')
      | _, _ => bad
      end
  | TUpd z =>
      match b_get_mut_write (st_b s) z (Z.of_N n), get_mut_write_A (st_h s) z (Z.of_N n) with
      | Ok (b', o1), Ok (h', o2) =>
          mkSt b' h' (heap_eqb (flatten b') h' && Bool.eqb o1 o2) (N.succ n) (st_stats s)
      | _, _ => bad
      end
  | TClear =>
      let b' := b_clear (st_b s) in
      let h' := clear_A (st_h s) in
      mkSt b' h' (heap_eqb (flatten b') h') (N.succ n) (st_stats s)
  end.

Definition run2 (c : nat) (ops : list top) : option (bool * stats) :=
  match b_new Z c with
  | None => None
  | Some b0 =>
      let s := fold_left step2 ops (mkSt b0 (flatten b0) true 0%N stats0) in
      Some (st_ok s, st_stats s)
  end.

(* the same through mut_A / step, as the extracted driver will do it *)
Definition out_eqb (a b : out Z) : bool :=
  match a, b with
  | UOpt x, UOpt y => opt_eqb x y
  | UBool x, UBool y => Bool.eqb x y
  | UUnit, UUnit => true
  | _, _ => false
  end.

Definition step3 (s : bstate Z * heap Z * bool) (o : op Z) : bstate Z * heap Z * bool :=
  let '(b, h, ok) := s in
  if negb ok then s else
  match mut_A h o with
  | Some (Ok (h', x')) =>
      let '(b', x) := step b o in (b', h', heap_eqb (flatten b') h' && out_eqb x x')
  | _ => (b, h, false)
  end.

(* ---------- operation sequences ---------- *)
Fixpoint zseq (start : Z) (n : nat) : list Z :=
  match n with O => [] | S n' => start :: zseq (start + 1) n' end.

(* linear congruential generator *)
Fixpoint lcg (x : Z) (n : nat) : list Z :=
  match n with
  | O => []
  | S n' => let x' := (x * 1103515245 + 12345) mod 2147483648 in x' :: lcg x' n'
  end.

Definition rnd_ops (seed : Z) (range : Z) (n : nat) (ins_bias : Z) : list top :=
  map (fun x => let z := (x / 65536) mod range in
                let w := (x / 7) mod 10 in
                if w <? ins_bias then TIns z
                else if w <? 9 then TRem z else TUpd z)
      (lcg seed n).

Definition asc n := map TIns (zseq 1 n).
Definition desc n := map TIns (rev (zseq 1 n)).
Definition rem_asc n := map TRem (zseq 1 n).
Definition rem_desc n := map TRem (rev (zseq 1 n)).

(* a sequence exercising every phase: grow (ascending), shrink from the left (only right
   siblings exist: borrow-from-right / merge-with-right at both levels, collapse), grow
   (descending, reusing freed slots), shrink from the right (only left siblings), random
   mixes, clear, random again *)
Definition big (n : nat) (seed : Z) : list top :=
  asc n ++ rem_asc n ++ desc n ++ rem_desc n ++
  rnd_ops seed (Z.of_nat n) (3 * n) 6 ++ rnd_ops (seed + 1) (Z.of_nat n) (3 * n) 3 ++
  [TClear] ++ rnd_ops (seed + 2) (Z.of_nat n) (2 * n) 5 ++ rem_asc n.

Definition covered (s : stats) : bool :=
  Nat.ltb 0 (s_leaf_split s) && Nat.ltb 0 (s_branch_split s) && Nat.ltb 1 (s_root_split s) &&
  Nat.ltb 0 (s_leaf_borrow s) && Nat.ltb 0 (s_leaf_merge s) &&
  Nat.ltb 0 (s_branch_borrow s) && Nat.ltb 0 (s_branch_merge s) &&
  Nat.ltb 1 (s_collapse s) && Nat.ltb 0 (s_leaf_reuse s) && Nat.ltb 0 (s_branch_reuse s).

Definition check (c n : nat) (seed : Z) : bool :=
  match run2 c (big n seed) with
  | Some (ok, s) => ok && covered s
  | None => false
  end.

(* statistics of a segment [seg] run after a prefix [pre] *)
Definition run_seg (c : nat) (pre seg : list top) : option (bool * stats) :=
  match b_new Z c with
  | None => None
  | Some b0 =>
      let s1 := fold_left step2 pre (mkSt b0 (flatten b0) true 0%N stats0) in
      let s2 := fold_left step2 seg (mkSt (st_b s1) (st_h s1) (st_ok s1) (st_n s1) stats0) in
      Some (st_ok s2, st_stats s2)
  end.

Definition rebal_covered (s : stats) : bool :=
  Nat.ltb 0 (s_leaf_borrow s) && Nat.ltb 0 (s_leaf_merge s) &&
  Nat.ltb 0 (s_branch_borrow s) && Nat.ltb 0 (s_branch_merge s) && Nat.ltb 0 (s_collapse s).

(* removing in ascending order: the underfull node is always the leftmost child, so only
   borrow-from-right / merge-with-right can happen (at leaf and at branch level);
   removing in descending order: only borrow-from-left / merge-with-left *)
Definition dense (n : nat) (seed : Z) := rnd_ops seed (Z.of_nat n) (4 * n) 10.
Definition check_right (c n : nat) (seed : Z) : bool :=
  match run_seg c (dense n seed) (rem_asc n) with
  | Some (ok, s) => ok && rebal_covered s | None => false end.
Definition check_left (c n : nat) (seed : Z) : bool :=
  match run_seg c (dense n seed) (rem_desc n) with
  | Some (ok, s) => ok && rebal_covered s | None => false end.


(* mut_A against Run.step on the same sequences, as the extracted driver runs them *)
Definition to_op (n : N) (o : top) : op Z :=
  match o with
  | TIns z => OInsert (mkKey z n) (z * 1000 + Z.of_N n)
  | TRem z => ORemove z
  | TUpd z => OGetMutWrite z (Z.of_N n)
  | TClear => OClear
  end.

Fixpoint number (n : N) (l : list top) : list (op Z) :=
  match l with [] => [] | o :: l' => to_op n o :: number (N.succ n) l' end.

Definition run3 (c : nat) (ops : list top) : bool :=
  match b_new Z c with
  | None => false
  | Some b0 => snd (fold_left step3 (number 0%N ops) (b0, flatten b0, true))
  end.

(* ---------- the checks ---------- *)
(* every heap along ~1300-2700 mixed operations agrees exactly, and all events occur *)
Example agree_cap4 : check 4 70 1 = true.  Proof. vm_compute. reflexivity. Qed.
Example agree_cap5 : check 5 90 2 = true.  Proof. vm_compute. reflexivity. Qed.
Example agree_cap6 : check 6 120 3 = true. Proof. vm_compute. reflexivity. Qed.
Example agree_cap7 : check 7 150 4 = true. Proof. vm_compute. reflexivity. Qed.
Example agree_cap16 : check 16 400 5 = true. Proof. vm_compute. reflexivity. Qed.

(* right-sibling cases (borrow and merge, leaf and branch level) *)
Example right_cap4 : check_right 4 100 5 = true. Proof. vm_compute. reflexivity. Qed.
Example right_cap5 : check_right 5 150 5 = true. Proof. vm_compute. reflexivity. Qed.
Example right_cap6 : check_right 6 200 6 = true. Proof. vm_compute. reflexivity. Qed.
Example right_cap7 : check_right 7 250 7 = true. Proof. vm_compute. reflexivity. Qed.
(* left-sibling cases *)
Example left_cap4 : check_left 4 100 5 = true. Proof. vm_compute. reflexivity. Qed.
Example left_cap5 : check_left 5 150 5 = true. Proof. vm_compute. reflexivity. Qed.
Example left_cap6 : check_left 6 200 6 = true. Proof. vm_compute. reflexivity. Qed.
Example left_cap7 : check_left 7 250 7 = true. Proof. vm_compute. reflexivity. Qed.

(* through mut_A / step *)
Example driver_cap4 : run3 4 (big 70 11) = true. Proof. vm_compute. reflexivity. Qed.
Example driver_cap5 : run3 5 (big 90 12) = true. Proof. vm_compute. reflexivity. Qed.
