(* General facts about the tree model and its invariants (used by the insert proofs and
   exported for other files): list surgery, widening of ord bounds, entries of a subtree
   lie within its bounds, contents are sorted, shape determines height. *)
From Coq Require Import List Arith ZArith NArith Lia Bool Permutation.
From BPT Require Import Common.Base Common.AMap Rust.Tree Rust.Readers Rust.InvDefs Rust.Lib.
Import ListNotations.
Set Implicit Arguments.

(* ------------------------------------------------------------------ *)
Section ListFacts.
Variable A : Type.

Lemma nth_error_firstn_lt : forall n (l : list A) j, j < n ->
  nth_error (firstn n l) j = nth_error l j.
Proof.
  induction n; intros l j H; [lia|]. destruct l; [destruct j; reflexivity|].
  destruct j; cbn; auto. apply IHn. lia.
Qed.

Lemma nth_error_firstn_ge : forall n (l : list A) j, n <= j ->
  nth_error (firstn n l) j = None.
Proof.
  intros. apply nth_error_None. rewrite firstn_length. lia.
Qed.

Lemma nth_error_skipn_add : forall n (l : list A) j,
  nth_error (skipn n l) j = nth_error l (n + j).
Proof.
  induction n; intros l j; cbn; auto. destruct l; cbn; auto. destruct j; reflexivity.
Qed.

Lemma nth_error_insert_at_lt : forall i (x : A) l j, j < i -> i <= length l ->
  nth_error (insert_at i x l) j = nth_error l j.
Proof.
  induction i; intros x l j H1 H2; [lia|]. destruct l; cbn in H2; [lia|].
  destruct j; cbn; auto. apply IHi; lia.
Qed.

Lemma nth_error_insert_at_eq : forall i (x : A) l, i <= length l ->
  nth_error (insert_at i x l) i = Some x.
Proof.
  induction i; intros x l H; [destruct l; reflexivity|].
  destruct l; cbn in H; [lia|]. cbn. apply IHi. lia.
Qed.

Lemma nth_error_insert_at_gt : forall i (x : A) l j, i < j -> i <= length l ->
  nth_error (insert_at i x l) j = nth_error l (j - 1).
Proof.
  induction i; intros x l j H1 H2.
  - destruct j; [lia|]. cbn. rewrite Nat.sub_0_r. destruct l; reflexivity.
  - destruct l; cbn in H2; [lia|]. destruct j; [lia|]. cbn [insert_at nth_error].
    rewrite IHi by lia. destruct j; [lia|]. cbn. rewrite Nat.sub_0_r. reflexivity.
Qed.

Lemma insert_set_split : forall ci (c' r : A) cs, ci < length cs ->
  insert_at (S ci) r (set_nth ci c' cs) = firstn ci cs ++ c' :: r :: skipn (S ci) cs.
Proof.
  induction ci; intros c' r cs H; destruct cs; cbn in H; try lia.
  - reflexivity.
  - cbn [set_nth insert_at firstn skipn app]. f_equal. apply IHci. lia.
Qed.

Lemma firstn_insert_at_le : forall n i (x : A) l, n <= i -> i <= length l ->
  firstn n (insert_at i x l) = firstn n l.
Proof.
  induction n; intros i x l H1 H2; auto.
  destruct i; [lia|]. destruct l; cbn in H2; [lia|]. cbn. f_equal. apply IHn; lia.
Qed.

End ListFacts.

Lemma flat_map_insert_set : forall (A B : Type) (f : A -> list B) ci c' r cs, ci < length cs ->
  flat_map f (insert_at (S ci) r (set_nth ci c' cs)) =
  flat_map f (firstn ci cs) ++ f c' ++ f r ++ flat_map f (skipn (S ci) cs).
Proof.
  intros. rewrite insert_set_split by auto. rewrite flat_map_app. cbn [flat_map].
  reflexivity.
Qed.

Lemma flat_map_set_nth : forall (A B : Type) (f : A -> list B) ci c' cs, ci < length cs ->
  flat_map f (set_nth ci c' cs) =
  flat_map f (firstn ci cs) ++ f c' ++ flat_map f (skipn (S ci) cs).
Proof.
  intros. rewrite set_nth_app by auto. rewrite flat_map_app. cbn [flat_map]. reflexivity.
Qed.

Lemma flat_map_nth_split : forall (A B : Type) (f : A -> list B) ci c cs,
  nth_error cs ci = Some c ->
  flat_map f cs = flat_map f (firstn ci cs) ++ f c ++ flat_map f (skipn (S ci) cs).
Proof.
  intros. rewrite (nth_error_split cs ci H) at 1. rewrite flat_map_app. cbn [flat_map].
  reflexivity.
Qed.

Lemma flat_map_firstn_skipn : forall (A B : Type) (f : A -> list B) n l,
  flat_map f (firstn n l) ++ flat_map f (skipn n l) = flat_map f l.
Proof. intros. rewrite <- flat_map_app. rewrite firstn_skipn. reflexivity. Qed.

Lemma list_max_const : forall l h, l <> [] -> (forall x, In x l -> x = h) -> list_max l = h.
Proof.
  induction l; intros h Hne Hall; [congruence|]. cbn [list_max fold_right].
  assert (a = h) by (apply Hall; left; auto). subst a.
  destruct l.
  - cbn. lia.
  - change (fold_right Nat.max 0 (n :: l)) with (list_max (n :: l)).
    rewrite (IHl h); [lia|congruence|]. intros; apply Hall; right; auto.
Qed.

(* ------------------------------------------------------------------ *)
(* sorted lists *)

Lemma sorted_keys_nth_lt : forall ks i j a b, sorted_keys ks -> i < j ->
  nth_error ks i = Some a -> nth_error ks j = Some b -> (kz a < kz b)%Z.
Proof.
  intros ks i j a b S Hij Ha Hb.
  rewrite (nth_error_split ks j Hb) in S. apply sorted_keys_app in S.
  destruct S as (_ & _ & S). apply S; [|left; auto].
  apply nth_error_In with i. rewrite nth_error_firstn_lt; auto.
Qed.

Lemma sorted_keys_nth_le : forall ks i j a b, sorted_keys ks -> i <= j ->
  nth_error ks i = Some a -> nth_error ks j = Some b -> (kz a <= kz b)%Z.
Proof.
  intros ks i j a b S Hij Ha Hb. destruct (Nat.eq_dec i j) as [->|ne].
  - assert (a = b) by congruence. subst. lia.
  - apply Z.lt_le_incl. apply (@sorted_keys_nth_lt ks i j a b); auto. lia.
Qed.

Lemma sorted_z_concat : forall (ls : list (list Z)),
  (forall l, In l ls -> sorted_z l) ->
  (forall i j li lj, i < j -> nth_error ls i = Some li -> nth_error ls j = Some lj ->
     forall a b, In a li -> In b lj -> (a < b)%Z) ->
  sorted_z (concat ls).
Proof.
  induction ls as [|l ls IH]; intros Hs Hx; [cbn; auto|].
  cbn [concat]. apply sorted_z_app. split; [apply Hs; left; auto|]. split.
  - apply IH.
    + intros; apply Hs; right; auto.
    + intros i j li lj Hij Hi Hj. apply (Hx (S i) (S j)); auto. lia.
  - intros a b Ha Hb. apply in_concat in Hb. destruct Hb as (lj & Hlj & Hb).
    apply In_nth_error in Hlj. destruct Hlj as (j & Hj).
    apply (Hx 0 (S j) l lj); auto. lia.
Qed.

(* ------------------------------------------------------------------ *)
(* bounds *)

Definition lo_le (lo' lo : option Z) : Prop := forall z, lo_ok lo z -> lo_ok lo' z.
Definition hi_le (hi hi' : option Z) : Prop := forall z, hi_ok hi z -> hi_ok hi' z.

Lemma lo_le_refl : forall lo, lo_le lo lo.
Proof. unfold lo_le; auto. Qed.
Lemma hi_le_refl : forall hi, hi_le hi hi.
Proof. unfold hi_le; auto. Qed.

Lemma lo_le_some : forall lo z, lo_ok lo z -> lo_le lo (Some z).
Proof. unfold lo_le, lo_ok. intros [l|] z H z' H'; auto. lia. Qed.
Lemma hi_le_some : forall hi z, hi_ok hi z \/ hi = Some z -> hi_le (Some z) hi.
Proof.
  unfold hi_le, hi_ok. intros [h|] z H z' H'; auto. destruct H as [H|H]; [lia|].
  inversion H; subst; lia.
Qed.

Lemma lo_le_trans : forall a b c, lo_le a b -> lo_le b c -> lo_le a c.
Proof. unfold lo_le; auto. Qed.
Lemma hi_le_trans : forall a b c, hi_le a b -> hi_le b c -> hi_le a c.
Proof. unfold hi_le; auto. Qed.

Lemma in_bounds_widen : forall lo hi lo' hi' k,
  in_bounds lo hi k -> lo_le lo' lo -> hi_le hi hi' -> in_bounds lo' hi' k.
Proof. unfold in_bounds. intros lo hi lo' hi' k [H1 H2] L H. split; auto. Qed.

Lemma child_bounds_within : forall ks lo hi i,
  Forall (in_bounds lo hi) ks -> i <= length ks ->
  lo_le lo (fst (child_bounds ks lo hi i)) /\ hi_le (snd (child_bounds ks lo hi i)) hi.
Proof.
  intros ks lo hi i F Hi. unfold child_bounds. cbn [fst snd]. split.
  - destruct (Nat.eqb_spec i 0); [apply lo_le_refl|].
    destruct (nth_error ks (i - 1)) eqn:E.
    + apply lo_le_some. apply nth_error_In in E.
      rewrite Forall_forall in F. apply F in E. apply E.
    + apply nth_error_None in E. lia.
  - destruct (Nat.eqb_spec i (length ks)); [apply hi_le_refl|].
    destruct (nth_error ks i) eqn:E.
    + apply hi_le_some. left. apply nth_error_In in E.
      rewrite Forall_forall in F. apply F in E. apply E.
    + apply nth_error_None in E. lia.
Qed.

(* ------------------------------------------------------------------ *)
Section TreeFacts.
Variable V : Type.
Notation ptree := (ptree V).

Lemma ord_widen : forall lo hi (t : ptree), ord lo hi t ->
  forall lo' hi', lo_le lo' lo -> hi_le hi hi' -> ord lo' hi' t.
Proof.
  induction 1 as [lo hi id c ks vs nx Hs F | lo hi id c ks cs Hs F Hc IH]; intros lo' hi' L H.
  - constructor; auto. eapply Forall_impl; [|exact F].
    intros a Ha. eapply in_bounds_widen; eauto.
  - constructor; auto.
    + eapply Forall_impl; [|exact F]. intros a Ha. eapply in_bounds_widen; eauto.
    + intros i ch Hn. apply (IH i ch Hn); unfold child_bounds; cbn [fst snd].
      * destruct (Nat.eqb i 0); auto using lo_le_refl.
      * destruct (Nat.eqb i (length ks)); auto using hi_le_refl.
Qed.


Lemma ord_leaf_inv : forall lo hi id c ks (vs : list V) nx, ord lo hi (PLeaf id c ks vs nx) ->
  sorted_keys ks /\ Forall (in_bounds lo hi) ks.
Proof. intros. inversion H; subst. auto. Qed.

Lemma ord_branch_inv : forall lo hi id c ks (cs : list ptree), ord lo hi (PBranch id c ks cs) ->
  sorted_keys ks /\ Forall (in_bounds lo hi) ks /\
  (forall i ch, nth_error cs i = Some ch ->
     ord (fst (child_bounds ks lo hi i)) (snd (child_bounds ks lo hi i)) ch).
Proof. intros. inversion H; subst. auto. Qed.

Lemma shape_leaf_inv : forall c r h id nc ks (vs : list V) nx, shape c r h (PLeaf id nc ks vs nx) ->
  h = 0 /\ nc = c /\ length vs = length ks /\ length ks <= c /\ (r = false -> c / 2 <= length ks).
Proof. intros. inversion H; subst. auto. Qed.

Lemma shape_branch_inv : forall c r h id nc ks (cs : list ptree), shape c r h (PBranch id nc ks cs) ->
  exists h', h = S h' /\ nc = c /\ length cs = S (length ks) /\ length ks <= c /\
    (r = false -> c / 2 <= length ks) /\ (r = true -> 1 <= length ks) /\
    (forall ch, In ch cs -> shape c false h' ch).
Proof. intros. inversion H; subst. eexists; repeat split; eauto. Qed.

(* a split-off branch gets its id afterwards *)
Definition with_id (t : ptree) (id : N) : ptree :=
  match t with
  | PLeaf _ _ _ _ _ => t
  | PBranch _ c ks cs => PBranch id c ks cs
  end.

Definition sub_bids (t : ptree) : list N :=
  match t with
  | PLeaf _ _ _ _ _ => []
  | PBranch _ _ _ cs => flat_map (@branch_ids V) cs
  end.

Lemma ord_with_id : forall lo hi t id, ord lo hi t -> ord lo hi (with_id t id).
Proof. intros lo hi t id H. destruct t; cbn; auto. inversion H; subst. constructor; auto. Qed.

Lemma shape_with_id : forall c r h t id, shape c r h t -> shape c r h (with_id t id).
Proof. intros c r h t id H. destruct t; cbn; auto. inversion H; subst. constructor; auto. Qed.

Lemma contents_with_id : forall t id, contents (with_id t id) = contents t.
Proof. destruct t; reflexivity. Qed.

Lemma leaf_links_with_id : forall t id, leaf_links (with_id t id) = leaf_links t.
Proof. destruct t; reflexivity. Qed.

Lemma height_with_id : forall t id, height (with_id t id) = height t.
Proof. destruct t; reflexivity. Qed.

Lemma shape_height : forall c r h (t : ptree), shape c r h t -> height t = h.
Proof.
  induction 1 as [r id ks vs nx | r h id ks cs L1 L2 L3 L4 Hc IH]; [reflexivity|].
  cbn [height]. f_equal. apply list_max_const.
  - destruct cs; cbn in L1; [lia|discriminate].
  - intros x Hx. apply in_map_iff in Hx. destruct Hx as (ch & <- & Hch). auto.
Qed.

Lemma ord_contents_bounds : forall lo hi (t : ptree), ord lo hi t ->
  forall c r h, shape c r h t ->
  Forall (fun e => in_bounds lo hi (fst e)) (contents t).
Proof.
  induction 1 as [lo hi id c ks vs nx Hs F | lo hi id c ks cs Hs F Hc IH]; intros c0 r h Sh.
  - cbn [contents]. apply Forall_forall. intros [k v] Hin. apply in_combine_l in Hin.
    rewrite Forall_forall in F. cbn. auto.
  - inversion Sh; subst. cbn [contents]. apply Forall_forall. intros e Hin.
    apply in_flat_map in Hin. destruct Hin as (ch & Hch & He).
    pose proof Hch as Hch'. apply In_nth_error in Hch'. destruct Hch' as (i & Hi).
    assert (Hle : i <= length ks).
    { assert (i < length cs) by (apply nth_error_Some; congruence). lia. }
    pose proof (IH i ch Hi _ _ _ (H9 ch Hch)) as B.
    rewrite Forall_forall in B. specialize (B e He).
    destruct (@child_bounds_within ks lo hi i F Hle).
    eapply in_bounds_widen; eauto.
Qed.

Lemma contents_sorted : forall c r h lo hi (t : ptree),
  ord lo hi t -> shape c r h t -> m_sorted (contents t).
Proof.
  intros c r h lo hi t O. revert c r h.
  induction O as [lo hi id c ks vs nx Hs F | lo hi id c ks cs Hs F Hc IH]; intros c0 r h Sh.
  - inversion Sh; subst. unfold m_sorted. cbn [contents]. rewrite map_fst_combine; auto.
  - inversion Sh; subst. unfold m_sorted, sorted_keys. cbn [contents].
    rewrite flat_map_concat_map. rewrite !concat_map. rewrite !map_map.
    apply sorted_z_concat.
    + intros l Hl. apply in_map_iff in Hl. destruct Hl as (ch & <- & Hch).
      pose proof Hch as Hch'. apply In_nth_error in Hch'. destruct Hch' as (i & Hi).
      exact (IH i ch Hi _ _ _ (H9 ch Hch)).
    + intros i j li lj Hij Hi Hj a b Ha Hb.
      rewrite nth_error_map in Hi, Hj.
      destruct (nth_error cs i) as [ci|] eqn:Eci; [|discriminate].
      destruct (nth_error cs j) as [cj|] eqn:Ecj; [|discriminate].
      cbn in Hi, Hj. inversion Hi; inversion Hj; subst li lj. clear Hi Hj.
      apply in_map_iff in Ha. destruct Ha as (ka & <- & Ha).
      apply in_map_iff in Ha. destruct Ha as (ea & <- & Ha).
      apply in_map_iff in Hb. destruct Hb as (kb & <- & Hb).
      apply in_map_iff in Hb. destruct Hb as (eb & <- & Hb).
      assert (Hjl : j < length cs) by (apply nth_error_Some; congruence).
      pose proof (ord_contents_bounds (Hc i ci Eci) (H9 ci (nth_error_In _ _ Eci))) as Bi.
      pose proof (ord_contents_bounds (Hc j cj Ecj) (H9 cj (nth_error_In _ _ Ecj))) as Bj.
      rewrite Forall_forall in Bi, Bj. specialize (Bi ea Ha). specialize (Bj eb Hb).
      destruct Bi as [_ Bi]. destruct Bj as [Bj _].
      unfold child_bounds in Bi, Bj. cbn [fst snd] in Bi, Bj.
      destruct (Nat.eqb_spec i (length ks)); [lia|].
      destruct (Nat.eqb_spec j 0); [lia|].
      destruct (nth_error ks i) as [ki|] eqn:Eki; [|apply nth_error_None in Eki; lia].
      destruct (nth_error ks (j - 1)) as [kj|] eqn:Ekj; [|apply nth_error_None in Ekj; lia].
      cbn in Bi, Bj.
      assert (kz ki <= kz kj)%Z by (apply (@sorted_keys_nth_le ks i (j - 1) ki kj); auto; lia).
      lia.
Qed.

(* entries left of the child chosen by [child_index] are smaller than z, entries right of
   it are greater *)
Lemma branch_contents_split : forall lo hi id c ks (cs : list ptree) cc r h z,
  ord lo hi (PBranch id c ks cs) -> shape cc r h (PBranch id c ks cs) ->
  (forall e, In e (flat_map (@contents V) (firstn (child_index ks z) cs)) -> (kz (fst e) < z)%Z) /\
  (forall e, In e (flat_map (@contents V) (skipn (S (child_index ks z)) cs)) -> (z < kz (fst e))%Z).
Proof.
  intros lo hi id c ks cs cc r h z O Sh.
  destruct (ord_branch_inv O) as (Hs & F & Hc).
  destruct (shape_branch_inv Sh) as (h' & -> & -> & Lc & _ & _ & _ & Hsh).
  pose proof (child_index_le_length ks z) as Hci.
  set (ci := child_index ks z) in *.
  split; intros e He; apply in_flat_map in He; destruct He as (ch & Hch & He);
    apply In_nth_error in Hch; destruct Hch as (j & Hj).
  - assert (j < ci).
    { destruct (Nat.lt_ge_cases j ci); auto. rewrite nth_error_firstn_ge in Hj by auto. discriminate. }
    rewrite nth_error_firstn_lt in Hj by auto.
    pose proof (ord_contents_bounds (Hc j ch Hj) (Hsh ch (nth_error_In _ _ Hj))) as B.
    rewrite Forall_forall in B. destruct (B e He) as [_ B2].
    unfold child_bounds in B2. cbn [snd] in B2.
    destruct (Nat.eqb_spec j (length ks)); [lia|].
    destruct (nth_error ks j) as [kj|] eqn:Ek; [|apply nth_error_None in Ek; lia].
    cbn in B2. assert (kz kj <= z)%Z; [|lia].
    apply (@child_index_firstn_le ks z kj Hs). apply nth_error_In with j.
    rewrite nth_error_firstn_lt; auto.
  - rewrite nth_error_skipn_add in Hj.
    assert (S ci + j < length cs) by (apply nth_error_Some; congruence).
    pose proof (ord_contents_bounds (Hc _ ch Hj) (Hsh ch (nth_error_In _ _ Hj))) as B.
    rewrite Forall_forall in B. destruct (B e He) as [B1 _].
    unfold child_bounds in B1. cbn [fst] in B1.
    destruct (Nat.eqb_spec (S ci + j) 0); [lia|].
    replace (S ci + j - 1) with (ci + j) in B1 by lia.
    destruct (nth_error ks (ci + j)) as [kj|] eqn:Ek; [|apply nth_error_None in Ek; lia].
    cbn in B1. assert (z < kz kj)%Z; [|lia].
    apply (@child_index_skipn_gt ks z kj Hs). apply nth_error_In with j.
    rewrite nth_error_skipn_add; auto.
Qed.

(* the key lies within the bounds of the child chosen by [child_index] *)
Lemma child_index_in_bounds : forall ks lo hi k, sorted_keys ks -> in_bounds lo hi k ->
  in_bounds (fst (child_bounds ks lo hi (child_index ks (kz k))))
            (snd (child_bounds ks lo hi (child_index ks (kz k)))) k.
Proof.
  intros ks lo hi k Hs [B1 B2].
  pose proof (child_index_le_length ks (kz k)) as Hci.
  set (ci := child_index ks (kz k)) in *.
  unfold child_bounds. cbn [fst snd]. split.
  - destruct (Nat.eqb_spec ci 0); auto.
    destruct (nth_error ks (ci - 1)) as [kj|] eqn:Ek; cbn; auto.
    apply (@child_index_firstn_le ks (kz k) kj Hs). apply nth_error_In with (ci - 1).
    fold ci. rewrite nth_error_firstn_lt; auto. lia.
  - destruct (Nat.eqb_spec ci (length ks)); auto.
    destruct (nth_error ks ci) as [kj|] eqn:Ek; cbn; auto.
    apply (@child_index_skipn_gt ks (kz k) kj Hs). apply nth_error_In with 0.
    fold ci. rewrite nth_error_skipn_add. rewrite Nat.add_0_r. auto.
Qed.

End TreeFacts.
