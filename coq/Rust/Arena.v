(* Model of rust/src/compact_arena.rs: CompactArena<T>.
   storage : Vec<T>, allocated_mask : Vec<bool>, free_list : Vec<usize> (head of the
   Coq list = top of the Rust Vec, i.e. the element [pop] returns).
   Not modelled: [generation] (write-only), Vec capacity and the float statistics. *)
From BPT Require Import Common.Base.
Set Implicit Arguments.

Section Arena.
Variable T : Type.
Variable dflt : T.              (* T::default(), left behind by mem::take *)

Record arena := mkArena { store : list T; mask : list bool; free : list nat }.

Definition a_new : arena := mkArena [] [] [].

(* NodeId::try_from(index).expect(..): panics when index > u32::MAX *)
Definition id_of_index (i : nat) : res N :=
  if N.leb (N.of_nat i) NULL then Ok (N.of_nat i) else Panic 1.

Definition allocate (a : arena) (x : T) : res (arena * N) :=
  match free a with
  | i :: f' =>
      do st <- vec_set 2 i x (store a);
      do mk <- vec_set 3 i true (mask a);
      do id <- id_of_index i;
      Ok (mkArena st mk f', id)
  | [] =>
      let i := length (store a) in
      do id <- id_of_index i;
      Ok (mkArena (store a ++ [x]) (mask a ++ [true]) [], id)
  end.

(* usize::try_from(id) followed by an index into a Vec of length [n]: every id >= n is
   out of range.  Converting through this guard (instead of a bare [N.to_nat]) keeps the
   extracted model from building a unary number for handles like 2^31. *)
Definition idx (n : nat) (id : N) : nat :=
  if N.ltb id (N.of_nat n) then N.to_nat id else n.

(* allocated_mask.get(index).copied().unwrap_or(false) *)
Definition mask_at (a : arena) (i : nat) : bool :=
  match nth_error (mask a) i with Some b => b | None => false end.

(* deallocate / deallocate_with_default: identical bodies *)
Definition deallocate (a : arena) (id : N) : res (arena * option T) :=
  if N.eqb id NULL then Ok (a, None) else
  let i := idx (length (mask a)) id in
  if negb (mask_at a i) then Ok (a, None) else
  do mk <- vec_set 4 i false (mask a);
  do old <- vec_get 5 i (store a);
  do st <- vec_set 5 i dflt (store a);
  Ok (mkArena st mk (i :: free a), Some old).

Definition deallocate_with_default := deallocate.

Definition deallocate_no_return (a : arena) (id : N) : res (arena * bool) :=
  if N.eqb id NULL then Ok (a, false) else
  let i := idx (length (mask a)) id in
  if orb (Nat.leb (length (mask a)) i) (negb (mask_at a i)) then Ok (a, false) else
  do mk <- vec_set 6 i false (mask a);
  Ok (mkArena (store a) mk (i :: free a), true).

Definition a_get (a : arena) (id : N) : option T :=
  if N.eqb id NULL then None else
  let i := idx (length (store a)) id in
  if andb (Nat.ltb i (length (store a))) (mask_at a i) then nth_error (store a) i
  else None.

(* get_mut followed by a write through the reference *)
Definition a_set (a : arena) (id : N) (x : T) : arena * bool :=
  if N.eqb id NULL then (a, false) else
  let i := idx (length (store a)) id in
  if andb (Nat.ltb i (length (store a))) (mask_at a i)
  then (mkArena (set_nth i x (store a)) (mask a) (free a), true)
  else (a, false).

Definition a_contains (a : arena) (id : N) : bool :=
  if N.eqb id NULL then false else
  let i := idx (length (store a)) id in
  andb (Nat.ltb i (length (store a))) (mask_at a i).

Definition a_len (a : arena) : nat := count_true (mask a).
Definition a_allocated_count := a_len.
Definition a_is_empty (a : arena) : bool := Nat.eqb (a_len a) 0.
Definition a_free_count (a : arena) : nat := length (free a).
Definition a_stats (a : arena) : nat * nat := (a_len a, a_free_count a).

Definition a_clear (_ : arena) : arena := a_new.

(* compact: zip(storage, mask), keep the allocated items in order *)
Fixpoint live_items (st : list T) (mk : list bool) : list T :=
  match st, mk with
  | x :: st', b :: mk' => if b then x :: live_items st' mk' else live_items st' mk'
  | _, _ => []
  end.

Definition a_compact (a : arena) : arena :=
  let items := live_items (store a) (mask a) in
  mkArena items (map (fun _ => true) items) [].

(* unchecked access: UB unless the slot is inside storage AND allocated (the
   documented safety contract "id is valid and allocated") *)
Definition a_get_unchecked (site : nat) (a : arena) (id : N) : res T :=
  let i := idx (length (store a)) id in
  if andb (Nat.ltb i (length (store a))) (mask_at a i) then
    match nth_error (store a) i with Some x => Ok x | None => UB site end
  else UB site.

End Arena.

Arguments mkArena {T} _ _ _.
Arguments a_new {T}.
