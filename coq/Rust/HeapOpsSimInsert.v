(* Simulation of model B's insert by the arena-level insert of Rust/HeapOps.v. *)
From Coq Require Import List Arith ZArith NArith Lia Bool Permutation.
From BPT Require Import Common.Base Common.AMap Rust.Arena Rust.ArenaSpec Rust.ArenaProofs
  Rust.Tree Rust.Heap Rust.Readers Rust.Run Rust.InvDefs Rust.Repr Rust.Lib Rust.InsertMeta
  Rust.Bridge Rust.ReadersGet Rust.InsertProofs Rust.HeapOps Rust.HeapOpsSimBase.
Import ListNotations.
Set Implicit Arguments.

Section InsertSim.
Variable V : Type.
Notation heap := (heap V).
Notation leaf := (leaf V).
Notation ptree := (ptree V).

Definition ir_tree (ir : ins_res V) : ptree :=
  match ir with IUpd t _ => t | ISplit t _ _ _ => t end.

Definition ir_leaf_ids (ir : ins_res V) : list N :=
  match ir with
  | IUpd t _ => leaf_ids t
  | ISplit t _ _ r => leaf_ids t ++ leaf_ids r
  end.

(* a split-off branch is raw data: its own id is not assigned yet *)
Definition ir_branch_ids (ir : ins_res V) : list N :=
  match ir with
  | IUpd t _ => branch_ids t
  | ISplit t _ _ r =>
      branch_ids t ++
      match r with PLeaf _ _ _ _ _ => [] | PBranch _ _ _ cs => flat_map (@branch_ids V) cs end
  end.

(* the split-off node: an allocated leaf, or raw branch data whose children are stored *)
Definition split_match (h' : heap) (rgt : ptree) (d : split_data V) : Prop :=
  match rgt with
  | PLeaf rid c ks vs nx => d = SDAllocLeaf V rid /\ repr h' rgt
  | PBranch _ c ks cs =>
      d = SDBranch V (mkBranch c ks (map (@ref_of V) cs)) /\ (forall ch, In ch cs -> repr h' ch)
  end.

Definition ires_match (h' : heap) (ir : ins_res V) (ar : ires V) : Prop :=
  match ir with
  | IUpd t' old => ar = AUpdated old /\ repr h' t'
  | ISplit t' old sep rgt =>
      exists d, ar = ASplit old d sep /\ repr h' t' /\ split_match h' rgt d
  end.

Ltac ssplit := repeat match goal with |- _ /\ _ => split end.

Ltac inv_bind H :=
  match type of H with
  | bind ?r _ = Ok _ =>
      let E := fresh "E" in destruct r eqn:E; cbn [bind] in H; try discriminate
  end.

Lemma ins_leaf_sim : forall (h : heap) id c ks vs nx k v lm' ir,
  ins_leaf (lmeta_of h) id c ks vs nx k v = Ok (lm', ir) ->
  hwf h -> get_leaf h id = Some (mkLeaf c ks vs nx) -> room (lmeta_of h) 0 ->
  exists h' ar, insert_into_leaf_A h id k v = Ok (h', ar) /\
    ires_match h' ir ar /\ ref_of (ir_tree ir) = RLeaf id /\
    lmeta_of h' = lm' /\ bmeta_of h' = bmeta_of h /\ hwf h' /\
    (forall id', id' <> id -> get_leaf h id' <> None -> get_leaf h' id' = get_leaf h id') /\
    (forall id', get_branch h' id' = get_branch h id') /\
    hroot h' = hroot h /\ hcap h' = hcap h /\
    (forall x, In x (ir_leaf_ids ir) -> x = id \/ get_leaf h x = None) /\
    ir_branch_ids ir = [].
Proof.
  intros h id c ks vs nx k v lm' ir H W G R.
  unfold ins_leaf in H. unfold insert_into_leaf_A. rewrite G. cbn [lkeys lvals lcap lnext].
  destruct (bfound ks (kz k)).
  { (* key present *)
    destruct (nth_error vs (lb ks (kz k))) as [old|] eqn:En; inversion H; subst; clear H.
    - eexists _, _. split; [reflexivity|]. cbn [ires_match ir_tree ref_of ir_leaf_ids ir_branch_ids leaf_ids leaf_links map fst branch_ids].
      split. { split; [reflexivity|]. apply repr_leaf_intro. eapply get_leaf_put_leaf_same; eauto. }
      split; [reflexivity|]. split; [apply lmeta_put_leaf|]. split; [reflexivity|].
      split; [apply hwf_put_leaf; auto|].
      split. { intros id' Hne _. apply get_leaf_put_leaf_other; auto. }
      split; [reflexivity|]. split; [reflexivity|]. split; [reflexivity|].
      split; [|reflexivity]. intros x [<-|[]]; auto.
    - eexists _, _. split; [reflexivity|]. cbn [ires_match ir_tree ref_of ir_leaf_ids ir_branch_ids leaf_ids leaf_links map fst branch_ids].
      split. { split; [reflexivity|]. apply repr_leaf_intro. exact G. }
      split; [reflexivity|]. split; [reflexivity|]. split; [reflexivity|]. split; [exact W|].
      split; [auto|]. split; [reflexivity|]. split; [reflexivity|]. split; [reflexivity|].
      split; [|reflexivity]. intros x [<-|[]]; auto. }
  destruct (negb (c <=? length ks)).
  { (* room in the leaf *)
    destruct (vec_insert 10 (lb ks (kz k)) k ks) as [ks'| | |] eqn:E1; cbn [bind] in H |- *; try discriminate.
    destruct (vec_insert 11 (lb ks (kz k)) v vs) as [vs'| | |] eqn:E2; cbn [bind] in H |- *; try discriminate.
    inversion H; subst; clear H.
    eexists _, _. split; [reflexivity|]. cbn [ires_match ir_tree ref_of ir_leaf_ids ir_branch_ids leaf_ids leaf_links map fst branch_ids].
    split. { split; [reflexivity|]. apply repr_leaf_intro. eapply get_leaf_put_leaf_same; eauto. }
    split; [reflexivity|]. split; [apply lmeta_put_leaf|]. split; [reflexivity|].
    split; [apply hwf_put_leaf; auto|].
    split. { intros id' Hne _. apply get_leaf_put_leaf_other; auto. }
    split; [reflexivity|]. split; [reflexivity|]. split; [reflexivity|].
    split; [|reflexivity]. intros x [<-|[]]; auto. }
  (* split *)
  destruct (usub 12 (length ks) (c / 2)) as [dd| | |] eqn:E0; cbn [bind] in H |- *; try discriminate.
  set (mid := Nat.min (Nat.max ((length ks + 1) / 2) (c / 2)) dd) in *.
  destruct (vec_split_off 13 mid ks) as [[lks rks]| | |] eqn:E1; cbn [bind] in H |- *; try discriminate.
  destruct (vec_split_off 14 mid vs) as [[lvs rvs]| | |] eqn:E2; cbn [bind] in H |- *; try discriminate.
  set (h1 := put_leaf h id (mkLeaf c lks lvs nx)).
  assert (G1 : get_leaf h1 id = Some (mkLeaf c lks lvs nx))
    by (eapply get_leaf_put_leaf_same; eauto).
  assert (W1 : hwf h1) by (apply hwf_put_leaf; auto).
  assert (M1 : lmeta_of h1 = lmeta_of h) by apply lmeta_put_leaf.
  destruct (m_alloc (lmeta_of h)) as [[lm1 rid]| | |] eqn:Ea; cbn [bind] in H; try discriminate.
  rewrite <- M1 in Ea, R.
  destruct (alloc_leaf_sim (mkLeaf c rks rvs nx) W1 R Ea)
    as (h2 & Hal & Ml2 & Mb2 & W2 & Hnn & Hfresh & Hnew & Hoth & Hbr & Hr2 & Hc2 & _).
  rewrite Hal. cbn [bind].
  assert (Hne : id <> rid) by (intros ->; congruence).
  assert (G2 : get_leaf h2 id = Some (mkLeaf c lks lvs nx)) by (rewrite Hoth; auto).
  rewrite G2. cbn [lkeys lvals lcap lnext].
  assert (Hfr : get_leaf h rid = None).
  { unfold h1 in Hfresh. rewrite get_leaf_put_leaf_other in Hfresh; auto. }
  destruct (Nat.leb (lb ks (kz k)) (length lks)).
  - (* insert into the left half *)
    destruct (vec_insert 15 (lb ks (kz k)) k lks) as [lks'| | |] eqn:E3; cbn [bind] in H |- *; try discriminate.
    destruct (vec_insert 16 (lb ks (kz k)) v lvs) as [lvs'| | |] eqn:E4; cbn [bind] in H |- *; try discriminate.
    set (h3 := put_leaf h2 id (mkLeaf c lks' lvs' rid)).
    assert (G3r : get_leaf h3 rid = Some (mkLeaf c rks rvs nx)).
    { unfold h3. rewrite get_leaf_put_leaf_other; auto. }
    rewrite G3r. cbn [lkeys].
    destruct rks as [|sep rks']; [discriminate|]. inversion H; subst; clear H.
    eexists _, _. split; [reflexivity|].
    cbn [ires_match ir_tree ref_of ir_leaf_ids ir_branch_ids leaf_ids leaf_links map fst branch_ids app].
    split. { eexists. split; [reflexivity|]. cbn [split_match].
             split; [|split; [reflexivity|]]; apply repr_leaf_intro; auto.
             unfold h3. eapply get_leaf_put_leaf_same; eauto. }
    split; [reflexivity|]. split. { unfold h3. rewrite lmeta_put_leaf. reflexivity. }
    split. { unfold h3. rewrite bmeta_put_leaf. exact Mb2. }
    split; [apply hwf_put_leaf; auto|].
    split. { intros id' Hn Hl. unfold h3. rewrite get_leaf_put_leaf_other by auto.
             rewrite Hoth by (intros ->; congruence). unfold h1. apply get_leaf_put_leaf_other; auto. }
    split. { intros id'. unfold h3. rewrite get_branch_put_leaf, Hbr. reflexivity. }
    split; [exact Hr2|]. split; [exact Hc2|].
    split; [|reflexivity]. intros x [<-|[<-|[]]]; auto.
  - (* insert into the right half *)
    set (h2' := put_leaf h2 id (mkLeaf c lks lvs rid)).
    assert (G2r : get_leaf h2' rid = Some (mkLeaf c rks rvs nx)).
    { unfold h2'. rewrite get_leaf_put_leaf_other; auto. }
    rewrite G2r. cbn [lkeys lvals lcap lnext].
    destruct (vec_insert 17 (lb ks (kz k) - length lks) k rks) as [rks'| | |] eqn:E3; cbn [bind] in H |- *; try discriminate.
    destruct (vec_insert 18 (lb ks (kz k) - length lks) v rvs) as [rvs'| | |] eqn:E4; cbn [bind] in H |- *; try discriminate.
    set (h3 := put_leaf h2' rid (mkLeaf c rks' rvs' nx)).
    assert (G3r : get_leaf h3 rid = Some (mkLeaf c rks' rvs' nx)).
    { unfold h3. eapply get_leaf_put_leaf_same; eauto. }
    rewrite G3r. cbn [lkeys].
    destruct rks' as [|sep rks'']; [discriminate|]. inversion H; subst; clear H.
    eexists _, _. split; [reflexivity|].
    cbn [ires_match ir_tree ref_of ir_leaf_ids ir_branch_ids leaf_ids leaf_links map fst branch_ids app].
    split. { eexists. split; [reflexivity|]. cbn [split_match].
             split; [|split; [reflexivity|]]; apply repr_leaf_intro; auto.
             unfold h3. rewrite get_leaf_put_leaf_other by auto.
             unfold h2'. eapply get_leaf_put_leaf_same; eauto. }
    split; [reflexivity|]. split. { unfold h3, h2'. rewrite !lmeta_put_leaf. reflexivity. }
    split. { unfold h3, h2'. rewrite !bmeta_put_leaf. exact Mb2. }
    split; [apply hwf_put_leaf; apply hwf_put_leaf; auto|].
    split. { intros id' Hn Hl. unfold h3, h2'.
             rewrite get_leaf_put_leaf_other by (intros ->; congruence).
             rewrite get_leaf_put_leaf_other by auto.
             rewrite Hoth by (intros ->; congruence). unfold h1. apply get_leaf_put_leaf_other; auto. }
    split. { intros id'. unfold h3, h2'. rewrite !get_branch_put_leaf, Hbr. reflexivity. }
    split; [exact Hr2|]. split; [exact Hc2|].
    split; [|reflexivity]. intros x [<-|[<-|[]]]; auto.
Qed.


(* ---------------- BranchNode::insert_child_and_split_if_needed ---------------- *)
Lemma vec_insert_map : forall (A B : Type) (f : A -> B) s i x l,
  vec_insert s i (f x) (map f l) =
  match vec_insert s i x l with Ok l' => Ok (map f l') | Panic n => Panic n
                              | OutOfFuel => OutOfFuel | UB n => UB n end.
Proof.
  intros. unfold vec_insert. rewrite map_length.
  destruct (Nat.leb i (length l)); [|reflexivity]. rewrite map_insert_at. reflexivity.
Qed.

Lemma vec_split_off_map : forall (A B : Type) (f : A -> B) s n l,
  vec_split_off s n (map f l) =
  match vec_split_off s n l with Ok (a, b) => Ok (map f a, map f b) | Panic n => Panic n
                               | OutOfFuel => OutOfFuel | UB n => UB n end.
Proof.
  intros. unfold vec_split_off. rewrite map_length.
  destruct (Nat.leb n (length l)); [|reflexivity]. rewrite firstn_map, skipn_map. reflexivity.
Qed.

Lemma vec_insert_Ok_In : forall (A : Type) s i (x : A) l l',
  vec_insert s i x l = Ok l' -> forall y, In y l' -> y = x \/ In y l.
Proof.
  intros A s i x l l' H. unfold vec_insert in H. destruct (Nat.leb i (length l)); [|discriminate].
  inversion H; subst. intros y. apply In_insert_at_inv.
Qed.

Lemma vec_split_off_Ok_In : forall (A : Type) s n (l a b : list A),
  vec_split_off s n l = Ok (a, b) -> forall y, In y a \/ In y b -> In y l.
Proof.
  intros A s n l a b H. unfold vec_split_off in H. destruct (Nat.leb n (length l)); [|discriminate].
  inversion H; subst. intros y Hy. rewrite <- (firstn_skipn n l). apply in_or_app. exact Hy.
Qed.

Lemma branch_insert_child_sim : forall id c ks (cs : list ptree) ci sep newc old ir,
  ins_branch_child id c ks cs ci sep newc old = Ok ir ->
  exists x' sp,
    branch_insert_child (mkBranch c ks (map (@ref_of V) cs)) ci sep (ref_of newc) = Ok (x', sp) /\
    match ir with
    | IUpd (PBranch id' c' ks' cs') old' =>
        id' = id /\ old' = old /\ sp = None /\ x' = mkBranch c' ks' (map (@ref_of V) cs') /\
        (forall ch, In ch cs' -> ch = newc \/ In ch cs)
    | ISplit (PBranch id' c' lks lcs) old' p (PBranch _ c'' rks rcs) =>
        id' = id /\ old' = old /\ x' = mkBranch c' lks (map (@ref_of V) lcs) /\
        sp = Some (mkBranch c'' rks (map (@ref_of V) rcs), p) /\
        (forall ch, In ch lcs \/ In ch rcs -> ch = newc \/ In ch cs)
    | _ => False
    end.
Proof.
  intros id c ks cs ci sep newc old ir H.
  unfold ins_branch_child in H. unfold branch_insert_child. cbn [bcap bkeys bkids].
  destruct (vec_insert 20 ci sep ks) as [ks2| | |] eqn:E1; cbn [bind] in H |- *; try discriminate.
  rewrite vec_insert_map.
  destruct (vec_insert 21 (S ci) newc cs) as [cs2| | |] eqn:E2; cbn [bind] in H |- *; try discriminate.
  assert (Hin2 : forall ch, In ch cs2 -> ch = newc \/ In ch cs).
  { exact (vec_insert_Ok_In _ _ _ _ E2). }
  destruct (Nat.leb c (length ks)).
  - destruct (vec_get 22 (c / 2) ks2) as [p| | |] eqn:E3; cbn [bind] in H |- *; try discriminate.
    destruct (vec_split_off 23 (S (c / 2)) ks2) as [[lks0 rks]| | |] eqn:E4; cbn [bind] in H |- *; try discriminate.
    rewrite vec_split_off_map.
    destruct (vec_split_off 24 (S (c / 2)) cs2) as [[lcs rcs]| | |] eqn:E5; cbn [bind] in H |- *; try discriminate.
    inversion H; subst; clear H. eexists _, _. split; [reflexivity|].
    repeat split; auto.
    intros ch Hc. apply Hin2. exact (vec_split_off_Ok_In _ _ _ E5 _ Hc).
  - inversion H; subst; clear H. eexists _, _. split; [reflexivity|]. repeat split; auto.
Qed.

(* ---------------- realize ---------------- *)
Definition sub_branch_ids (t : ptree) : list N :=
  match t with PLeaf _ _ _ _ _ => [] | PBranch _ _ _ cs => flat_map (@branch_ids V) cs end.

Lemma realize_sim : forall (h : heap) orig bm' (rgt rgt' : ptree) d,
  realize (bmeta_of h) rgt = Ok (bm', rgt') ->
  hwf h -> room (bmeta_of h) 0 -> split_match h rgt d ->
  exists h',
    realize_A h orig d = Ok (h', ref_of rgt') /\ repr h' rgt' /\
    bmeta_of h' = bm' /\ lmeta_of h' = lmeta_of h /\ hwf h' /\
    (forall id', get_leaf h' id' = get_leaf h id') /\
    (forall id' x, get_branch h id' = Some x -> get_branch h' id' = Some x) /\
    hroot h' = hroot h /\ hcap h' = hcap h /\
    (forall y, In y (branch_ids rgt') -> In y (sub_branch_ids rgt) \/ get_branch h y = None) /\
    leaf_ids rgt' = leaf_ids rgt /\
    length (m_mask bm') <= S (length (m_mask (bmeta_of h))).
Proof.
  intros h orig bm' rgt rgt' d H W R SM. destruct rgt as [rid c ks vs nx|rid c ks cs];
    cbn [realize split_match] in *.
  - inversion H; subst; clear H. destruct SM as (-> & Rr). exists h. cbn [realize_A ref_of].
    ssplit; try reflexivity; try assumption; auto.
  - destruct SM as (-> & Rc).
    destruct (m_alloc (bmeta_of h)) as [[bm2 nid]| | |] eqn:Ea; cbn [bind] in H; try discriminate.
    inversion H; subst; clear H.
    destruct (alloc_branch_sim (mkBranch c ks (map (@ref_of V) cs)) W R Ea)
      as (h2 & Hal & Mb2 & Ml2 & W2 & Hnn & Hfresh & Hnew & Hoth & Hlf & Hr2 & Hc2 & Hlen).
    exists h2. cbn [realize_A ref_of]. rewrite Hal. cbn [bind fst snd].
    split; [reflexivity|].
    assert (Hpres : forall id' x, get_branch h id' = Some x -> get_branch h2 id' = Some x).
    { intros id' x Hx. rewrite Hoth; auto. intros ->. congruence. }
    split.
    { apply repr_branch_intro; [exact Hnew|]. intros ch Hch.
      apply repr_transfer with (h := h); [apply Rc; exact Hch|intros; apply Hlf|].
      intros x Hx. apply Hoth. intros ->.
      eapply (@repr_branch_live V); [apply Rc; exact Hch|exact Hx|exact Hfresh]. }
    ssplit; try reflexivity; try assumption.
    intros y [<-|Hy]; [right; exact Hfresh|left; exact Hy].
Qed.


(* ---------------- insert_recursive ---------------- *)
Definition ins_post (h : heap) (t : ptree) (lm' bm' : ameta) (ir : ins_res V)
           (h' : heap) (ar : ires V) : Prop :=
  ires_match h' ir ar /\ ref_of (ir_tree ir) = ref_of t /\
  lmeta_of h' = lm' /\ bmeta_of h' = bm' /\ hwf h' /\
  frame (leaf_ids t) (branch_ids t) h h' /\
  hroot h' = hroot h /\ hcap h' = hcap h /\
  (forall x, In x (ir_leaf_ids ir) -> In x (leaf_ids t) \/ get_leaf h x = None) /\
  (forall x, In x (ir_branch_ids ir) -> In x (branch_ids t) \/ get_branch h x = None) /\
  length (m_mask bm') <= length (m_mask (bmeta_of h)) + height t.

Lemma get_child_for_key_repr : forall (h : heap) id c ks (cs : list ptree) z,
  repr h (PBranch id c ks cs) ->
  get_child_for_key h id z =
  match nth_error cs (child_index ks z) with
  | Some ch => Some (child_index ks z, ref_of ch)
  | None => None
  end.
Proof.
  intros h id c ks cs z R. unfold get_child_for_key. rewrite (repr_branch R).
  cbn [bkeys bkids]. rewrite nth_error_map. destruct (nth_error cs (child_index ks z)); reflexivity.
Qed.

Lemma map_ref_set_nth : forall (cs : list ptree) ci ch c',
  nth_error cs ci = Some ch -> ref_of c' = ref_of ch ->
  map (@ref_of V) (set_nth ci c' cs) = map (@ref_of V) cs.
Proof.
  intros cs ci ch c' Hn Hr. rewrite map_set_nth. apply set_nth_same_id.
  rewrite nth_error_map, Hn, Hr. reflexivity.
Qed.

Lemma room_mono : forall m n n', room m n -> n' <= n -> room m n'.
Proof. unfold room. intros. lia. Qed.


Lemma repr_mono : forall (h h' : heap) (t : ptree),
  repr h t ->
  (forall id', get_leaf h' id' = get_leaf h id') ->
  (forall id' x, get_branch h id' = Some x -> get_branch h' id' = Some x) ->
  repr h' t.
Proof.
  intros h h' t [R1 R2] HL HB. split.
  - intros. rewrite HL. apply R1; auto.
  - intros. apply HB. apply R2; auto.
Qed.

Lemma repr_put_branch : forall (h : heap) id y (t : ptree),
  repr h t -> ~ In id (branch_ids t) -> repr (put_branch h id y) t.
Proof.
  intros h id y t R Hn. apply repr_transfer with (h := h); auto.
  intros x Hx. apply get_branch_put_branch_other. intros ->. contradiction.
Qed.

Lemma fresh_back : forall (L B : list N) (h h1 : heap) y,
  frame L B h h1 -> get_branch h1 y = None -> In y B \/ get_branch h y = None.
Proof.
  intros L B h h1 y [_ F2] Hn. destruct (in_dec N.eq_dec y B) as [Hi|Hi]; [left; exact Hi|].
  right. destruct (get_branch h y) as [x|] eqn:E; [|reflexivity].
  rewrite (F2 _ _ E Hi) in Hn. discriminate.
Qed.

Lemma ins_sim : forall f fa (t : ptree) (h : heap) k v lm' bm' ir,
  f <= fa ->
  ins f (lmeta_of h) (bmeta_of h) t k v = Ok (lm', bm', ir) ->
  hwf h -> repr h t -> NoDup (leaf_ids t) -> NoDup (branch_ids t) ->
  room (lmeta_of h) 0 -> room (bmeta_of h) (height t) ->
  exists h' ar, ins_A fa h (ref_of t) k v = Ok (h', ar) /\ ins_post h t lm' bm' ir h' ar.
Proof.
  induction f as [|f IH]; intros fa t h k v lm' bm' ir Hf H W R NDl NDb RL RB; [discriminate|].
  destruct fa as [|fa]; [lia|]. apply le_S_n in Hf.
  destruct t as [id c ks vs nx|id c ks cs]; cbn [ins ins_A ref_of] in *.
  - (* leaf *)
    destruct (ins_leaf (lmeta_of h) id c ks vs nx k v) as [[lm1 ir1]| | |] eqn:E;
      cbn [bind] in H; try discriminate.
    inversion H; subst; clear H.
    destruct (@ins_leaf_sim h id c ks vs nx k v _ _ E W (repr_leaf R) RL)
      as (h' & ar & HA & HM & Href & Ml & Mb & W' & Hoth & Hbr & Hr & Hc & Hfl & Hfb).
    exists h', ar. split; [exact HA|]. unfold ins_post.
    ssplit; try assumption.
    + split.
      * intros id' x Hx Hn. rewrite Hoth; auto; [|congruence].
        intros ->. apply Hn. cbn. auto.
      * intros id' x Hx _. rewrite Hbr. exact Hx.
    + intros x Hx. destruct (Hfl _ Hx) as [->|Hn]; [left; cbn; auto|right; exact Hn].
    + rewrite Hfb. intros x [].
    + lia.
  - (* branch *)
    rewrite (get_child_for_key_repr _ R).
    destruct (nth_error cs (child_index ks (kz k))) as [ch|] eqn:Ech.
    2:{ inversion H; subst; clear H. eexists _, _. split; [reflexivity|]. unfold ins_post.
        cbn [ires_match ir_tree ir_leaf_ids ir_branch_ids].
        ssplit; try reflexivity; auto.
        - apply frame_refl.
        - lia. }
    set (ci := child_index ks (kz k)) in *.
    assert (Hin : In ch cs) by (eapply nth_error_In; eauto).
    destruct (ins f (lmeta_of h) (bmeta_of h) ch k v) as [[[lm1 bm1] ir1]| | |] eqn:E1;
      cbn [bind] in H; try discriminate.
    assert (Hh : S (height ch) <= height (PBranch id c ks cs)) by (apply height_child; exact Hin).
    assert (Rch : repr h ch) by (eapply repr_child; eauto).
    assert (NDlc : NoDup (leaf_ids ch)) by (eapply NoDup_leaf_ids_child; eauto).
    assert (NDbc : NoDup (branch_ids ch)) by (eapply NoDup_branch_ids_child; eauto).
    assert (RBc : room (bmeta_of h) (height ch)) by (eapply room_mono; [exact RB|lia]).
    destruct (IH fa ch h k v lm1 bm1 ir1 Hf E1 W Rch NDlc NDbc RL RBc)
      as (h1 & ar1 & HA1 & HM1 & Href1 & Ml1 & Mb1 & W1 & Fr1 & Hr1 & Hc1 & Hfl1 & Hfb1 & Hlen1).
    rewrite HA1. cbn [bind].
    pose proof (repr_branch R) as Gid.
    assert (Hidn : ~ In id (branch_ids ch)) by (eapply branch_id_not_in_child; eauto).
    assert (Gid1 : get_branch h1 id = Some (mkBranch c ks (map (@ref_of V) cs))).
    { destruct Fr1 as [_ F2]. apply F2; auto. }
    (* siblings are untouched *)
    assert (Hsib : forall j x, j <> ci -> nth_error cs j = Some x -> repr h1 x).
    { intros j x Hj Hx. apply repr_frame with (L := leaf_ids ch) (B := branch_ids ch) (h := h); auto.
      - eapply repr_child; [exact R|]. eapply nth_error_In; eauto.
      - intros y Hy Hy'. rewrite Bridge.leaf_ids_branch in NDl.
        eapply (@NoDup_flat_map_disj _ _ (@leaf_ids V) cs j ci x ch y); eauto.
      - intros y Hy Hy'. cbn [branch_ids] in NDb. inversion NDb; subst.
        eapply (@NoDup_flat_map_disj _ _ (@branch_ids V) cs j ci x ch y); eauto. }
    assert (Hidf : forall x, In x (ir_branch_ids ir1) -> x <> id).
    { intros x Hx ->. destruct (Hfb1 _ Hx) as [Hc|Hc]; [contradiction|congruence]. }
    assert (Hsl : forall j x y, j <> ci -> nth_error cs j = Some x -> In y (leaf_ids x) ->
                  In y (leaf_ids (PBranch id c ks cs))).
    { intros j x y _ Hx Hy. eapply leaf_ids_child; [eapply nth_error_In; eauto|exact Hy]. }
    assert (Hsb : forall j x y, j <> ci -> nth_error cs j = Some x -> In y (branch_ids x) ->
                  In y (branch_ids (PBranch id c ks cs)) /\ y <> id).
    { intros j x y _ Hx Hy. assert (In x cs) by (eapply nth_error_In; eauto). split.
      - eapply branch_ids_child; eauto.
      - intros ->. eapply branch_id_not_in_child; eauto. }
    assert (Hframe : frame (leaf_ids (PBranch id c ks cs)) (branch_ids (PBranch id c ks cs)) h h1).
    { eapply frame_weaken; [exact Fr1| |].
      - intros y Hy. eapply leaf_ids_child; eauto.
      - intros y Hy. eapply branch_ids_child; eauto. }
    destruct ir1 as [c' old|c' old sep rgt]; cbn [ires_match ir_tree ir_leaf_ids ir_branch_ids] in *.
    + (* child updated in place *)
      destruct HM1 as (-> & Rc'). inversion H; subst; clear H.
      eexists _, _. split; [reflexivity|]. unfold ins_post.
      cbn [ires_match ir_tree ir_leaf_ids ir_branch_ids ref_of].
      ssplit; try reflexivity; try assumption.
      * apply repr_branch_intro.
        -- rewrite (@map_ref_set_nth cs ci ch c' Ech Href1). exact Gid1.
        -- intros x Hx. apply In_set_nth_inv in Hx. destruct Hx as [->|(j & Hj & Hx)]; eauto.
      * intros x Hx. rewrite Bridge.leaf_ids_branch in Hx. apply in_flat_map in Hx.
        destruct Hx as (y & Hy & Hx). apply In_set_nth_inv in Hy.
        destruct Hy as [->|(j & Hj & Hy)].
        -- destruct (Hfl1 _ Hx) as [Hc|Hc]; [left|right; exact Hc]. eapply leaf_ids_child; eauto.
        -- left. eauto.
      * intros x Hx. cbn [branch_ids] in Hx. destruct Hx as [<-|Hx]; [left; cbn; auto|].
        apply in_flat_map in Hx. destruct Hx as (y & Hy & Hx). apply In_set_nth_inv in Hy.
        destruct Hy as [->|(j & Hj & Hy)].
        -- destruct (Hfb1 _ Hx) as [Hc|Hc]; [left|right; exact Hc]. eapply branch_ids_child; eauto.
        -- left. eapply Hsb; eauto.
      * lia.
    + (* child split *)
      destruct HM1 as (d & -> & Rc' & SM).
      destruct (realize bm1 rgt) as [[bm2 rgt']| | |] eqn:Er; cbn [bind] in H; try discriminate.
      destruct (ins_branch_child id c ks (set_nth ci c' cs) ci sep rgt' old) as [ir'| | |] eqn:Eb;
        cbn [bind] in H; try discriminate.
      inversion H; subst lm' bm' ir; clear H.
      rewrite <- Mb1 in Er.
      assert (RB1 : room (bmeta_of h1) 0).
      { unfold room in *. rewrite Mb1. lia. }
      destruct (@realize_sim h1 (ref_of ch) bm2 rgt rgt' d Er W1 RB1 SM)
        as (h2 & HA2 & Rr' & Mb2 & Ml2 & W2 & Hlf2 & Hbr2 & Hr2 & Hc2 & Hfb2 & Hfl2 & Hlen2).
      rewrite HA2. cbn [bind].
      pose proof (Hbr2 _ _ Gid1) as Gid2. rewrite Gid2.
      destruct (branch_insert_child_sim _ _ _ _ _ _ _ _ Eb) as (x' & sp & HA3 & Hsh).
      rewrite (@map_ref_set_nth cs ci ch c' Ech Href1) in HA3. rewrite HA3. cbn [bind].
      set (t := PBranch id c ks cs) in *.
      assert (Good : forall x, x = rgt' \/ In x (set_nth ci c' cs) ->
                repr h2 x /\ ~ In id (branch_ids x) /\
                (forall y, In y (leaf_ids x) -> In y (leaf_ids t) \/ get_leaf h y = None) /\
                (forall y, In y (branch_ids x) -> In y (branch_ids t) \/ get_branch h y = None)).
      { intros x [->|Hx].
        - split; [exact Rr'|]. split; [|split].
          + intros Hi. destruct (Hfb2 _ Hi) as [Hc|Hc]; [|congruence].
            apply (Hidf id); [|reflexivity]. apply in_or_app. right.
            destruct rgt; [destruct Hc|exact Hc].
          + intros y Hy. rewrite Hfl2 in Hy.
            destruct (Hfl1 y) as [Hc|Hc]; [apply in_or_app; right; exact Hy| |right; exact Hc].
            left. eapply leaf_ids_child; eauto.
          + intros y Hy. destruct (Hfb2 _ Hy) as [Hc|Hc].
            * destruct (Hfb1 y) as [Hc'|Hc']; [apply in_or_app; right; destruct rgt; [destruct Hc|exact Hc]| |right; exact Hc'].
              left. eapply branch_ids_child; eauto.
            * destruct (fresh_back _ Hframe Hc) as [Hc'|Hc']; [left|right]; assumption.
        - apply In_set_nth_inv in Hx. destruct Hx as [->|(j & Hj & Hx)].
          + split; [eapply repr_mono; eauto|]. split; [|split].
            * intros Hi. apply (Hidf id); [|reflexivity]. apply in_or_app. left. exact Hi.
            * intros y Hy. destruct (Hfl1 y) as [Hc|Hc]; [apply in_or_app; left; exact Hy| |right; exact Hc].
              left. eapply leaf_ids_child; eauto.
            * intros y Hy. destruct (Hfb1 y) as [Hc|Hc]; [apply in_or_app; left; exact Hy| |right; exact Hc].
              left. eapply branch_ids_child; eauto.
          + split; [eapply repr_mono; eauto|]. split; [|split].
            * intros Hi. eapply Hsb; eauto.
            * intros y Hy. left. eauto.
            * intros y Hy. left. eapply Hsb; eauto. }
      set (h3 := put_branch h2 id x').
      assert (Gid3 : get_branch h3 id = Some x') by (eapply get_branch_put_branch_same; eauto).
      assert (Hframe3 : frame (leaf_ids t) (branch_ids t) h h3).
      { destruct Hframe as [F1 F2]. split.
        - intros y x Hx Hn. unfold h3. rewrite get_leaf_put_branch, Hlf2. eauto.
        - intros y x Hx Hn. unfold h3. rewrite get_branch_put_branch_other; eauto.
          intros ->. apply Hn. cbn. auto. }
      assert (Hlen3 : length (m_mask bm2) <= length (m_mask (bmeta_of h)) + height t).
      { rewrite Mb1 in Hlen2. lia. }
      assert (Ml3 : lmeta_of h3 = lm1).
      { unfold h3. rewrite lmeta_put_branch, Ml2. exact Ml1. }
      assert (Mb3 : bmeta_of h3 = bm2).
      { unfold h3. rewrite bmeta_put_branch. exact Mb2. }
      assert (W3 : hwf h3) by (apply hwf_put_branch; exact W2).
      assert (Hr3 : hroot h3 = hroot h) by (unfold h3; rewrite hroot_put_branch, Hr2; exact Hr1).
      assert (Hc3 : hcap h3 = hcap h) by (unfold h3; rewrite hcap_put_branch, Hc2; exact Hc1).
      destruct ir' as [[?|id' c'' ks' cs'] old'|[?|id' c'' lks lcs] old' p [?|rid3 c3 rks rcs]];
        try contradiction.
      * (* no split of this branch *)
        destruct Hsh as (-> & -> & -> & -> & Hcs').
        eexists _, _. split; [reflexivity|]. unfold ins_post.
        cbn [ires_match ir_tree ir_leaf_ids ir_branch_ids ref_of].
        ssplit; try reflexivity; try assumption.
        -- apply repr_branch_intro; [exact Gid3|].
           intros x Hx. apply repr_put_branch; apply Good; apply Hcs'; exact Hx.
        -- intros y Hy. rewrite Bridge.leaf_ids_branch in Hy. apply in_flat_map in Hy.
           destruct Hy as (x & Hx & Hy). eapply Good; [apply Hcs'; exact Hx|exact Hy].
        -- intros y Hy. cbn [branch_ids] in Hy. destruct Hy as [<-|Hy]; [left; cbn; auto|].
           apply in_flat_map in Hy. destruct Hy as (x & Hx & Hy).
           eapply Good; [apply Hcs'; exact Hx|exact Hy].
      * (* this branch splits too *)
        destruct Hsh as (-> & -> & -> & -> & Hcs').
        eexists _, _. split; [reflexivity|]. unfold ins_post.
        cbn [ires_match ir_tree ir_leaf_ids ir_branch_ids ref_of split_match].
        ssplit; try reflexivity; try assumption.
        -- eexists. split; [reflexivity|]. split; [|split; [reflexivity|]].
           ++ apply repr_branch_intro; [exact Gid3|].
              intros x Hx. apply repr_put_branch; apply Good; apply Hcs'; auto.
           ++ intros x Hx. apply repr_put_branch; apply Good; apply Hcs'; auto.
        -- intros y Hy. apply in_app_or in Hy. rewrite !Bridge.leaf_ids_branch in Hy.
           destruct Hy as [Hy|Hy]; apply in_flat_map in Hy; destruct Hy as (x & Hx & Hy);
             (eapply Good; [apply Hcs'; eauto|exact Hy]).
        -- intros y Hy. apply in_app_or in Hy. cbn [branch_ids] in Hy.
           destruct Hy as [[<-|Hy]|Hy]; [left; cbn; auto| |];
             apply in_flat_map in Hy; destruct Hy as (x & Hx & Hy);
             (eapply Good; [apply Hcs'; eauto|exact Hy]).
Qed.


(* ---------------- BPlusTreeMap::insert ---------------- *)
Lemma hwf_set_root : forall (h : heap) r, hwf h -> hwf (set_root h r).
Proof. intros h r [Wl Wb]. constructor; assumption. Qed.

Lemma repr_set_root : forall (h : heap) r (t : ptree), repr h t -> repr (set_root h r) t.
Proof. intros h r t R. exact R. Qed.

Theorem insert_sim_core : forall (b : bstate V) k v,
  Inv b -> room (lmeta b) 1 -> room (bmeta b) (height (root b) + 2) ->
  exists b' old,
    b_insert b k v = Ok (b', old) /\ insert_A (flatten b) k v = Ok (flatten b', old).
Proof.
  intros b k v I RL RB.
  destruct (insert_inv k v I RL RB) as (b' & old & Hb & I' & _).
  exists b', old. split; [exact Hb|].
  assert (Rs : rooms b) by (split; eapply room_mono; eauto; lia).
  pose proof (hwf_flatten I Rs) as W. pose proof (flatten_repr I Rs) as R.
  pose proof (flatten_heap_of I Rs) as HO. pose proof (Bridge.fuel_ok I HO) as Hfuel.
  set (h := flatten b) in *.
  assert (Ml : lmeta_of h = lmeta b) by apply lmeta_of_flatten.
  assert (Mb : bmeta_of h = bmeta b) by apply bmeta_of_flatten.
  destruct (inv_leaves I) as (NDl & _). destruct (inv_branches I) as (NDb & _).
  unfold b_insert in Hb. unfold insert_A.
  destruct (ins (S (height (root b))) (lmeta b) (bmeta b) (root b) k v) as [[[lm bm] ir]| | |] eqn:E;
    cbn [bind] in Hb; try discriminate.
  rewrite <- Ml, <- Mb in E.
  assert (RL0 : room (lmeta_of h) 0) by (rewrite Ml; apply Rs).
  assert (RB0 : room (bmeta_of h) (height (root b))) by (rewrite Mb; eapply room_mono; eauto; lia).
  destruct (@ins_sim (S (height (root b))) (dfuel h) (root b) h k v lm bm ir ltac:(lia) E W R NDl NDb RL0 RB0)
    as (h1 & ar & HA & HM & Href & Ml1 & Mb1 & W1 & Fr1 & Hr1 & Hc1 & Hfl1 & Hfb1 & Hlen1).
  change (hroot h) with (ref_of (root b)). rewrite HA. cbn [bind].
  destruct ir as [t old'|t old' sep rgt]; cbn [ires_match ir_tree] in *.
  - destruct HM as (-> & Rt). inversion Hb; subst b' old'; clear Hb.
    f_equal. f_equal. apply flatten_unique_inv; cbn [root lmeta bmeta cap]; auto.
    rewrite Hr1. symmetry. exact Href.
  - destruct HM as (d & -> & Rt & SM).
    destruct (realize bm rgt) as [[bm2 rgt']| | |] eqn:Er; cbn [bind] in Hb; try discriminate.
    destruct (m_alloc bm2) as [[bm3 rid]| | |] eqn:Ea; cbn [bind] in Hb; try discriminate.
    inversion Hb; subst b' old'; clear Hb.
    rewrite <- Mb1 in Er.
    assert (RB1 : room (bmeta_of h1) 0).
    { unfold room in *. rewrite Mb1. rewrite Mb in Hlen1. lia. }
    destruct (@realize_sim h1 (hroot h1) bm2 rgt rgt' d Er W1 RB1 SM)
      as (h2 & HA2 & Rr' & Mb2 & Ml2 & W2 & Hlf2 & Hbr2 & Hr2 & Hc2 & Hfb2 & Hfl2 & Hlen2).
    rewrite HA2. cbn [bind].
    rewrite <- Mb2 in Ea.
    assert (RB2 : room (bmeta_of h2) 0).
    { unfold room in *. rewrite Mb2. rewrite Mb1 in Hlen2. rewrite Mb in Hlen1. lia. }
    destruct (alloc_branch_sim (mkBranch (hcap h2) [sep] [hroot h2; ref_of rgt']) W2 RB2 Ea)
      as (h3 & Hal & Mb3 & Ml3 & W3 & Hnn & Hfresh & Hnew & Hoth & Hlf3 & Hr3 & Hc3 & _).
    rewrite Hal. cbn [bind].
    f_equal. f_equal. apply flatten_unique_inv; cbn [root lmeta bmeta cap]; auto.
    + apply hwf_set_root. exact W3.
    + apply repr_set_root.
      assert (Hpres : forall id' x, get_branch h2 id' = Some x -> get_branch h3 id' = Some x).
      { intros id' x Hx. rewrite Hoth; auto. intros ->. congruence. }
      apply repr_branch_intro.
      * rewrite Hnew. rewrite Hc2, Hc1, Hr2, Hr1. cbn [map]. rewrite Href. reflexivity.
      * intros x [<-|[<-|[]]].
        -- eapply repr_mono; [eapply repr_mono; [exact Rt|exact Hlf2|exact Hbr2]|exact Hlf3|exact Hpres].
        -- eapply repr_mono; [exact Rr'|exact Hlf3|exact Hpres].
    + change (lmeta_of (set_root h3 (RBranch rid))) with (lmeta_of h3). congruence.
    + cbn [hcap set_root]. rewrite Hc3, Hc2, Hc1. reflexivity.
Qed.

End InsertSim.
