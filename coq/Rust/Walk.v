(* Walking the leaf chain: the iterator step functions of Rust/Readers.v ([item_next],
   [fast_next]) on a heap that represents a tree satisfying the invariant enumerate
   [contents (root b)] in order.  An iterator state is related to a position in the
   content list ([at_pos] / [fat_pos]); one call of next returns the entry at that
   position (or stops at the end bound) and moves to the following position.
   Main results: [item_next_step] (one step, with end bounds), [collect_at_pos],
   [collect_from_pos], [item_next_at_pos], [fast_next_at_pos], [item_new_spec],
   [fast_new_spec], [contents_lt_total_items_bound]. *)
From Coq Require Import List Arith ZArith NArith Lia Bool.
From BPT Require Import Common.Base Common.AMap Rust.Arena Rust.Tree Rust.Heap Rust.Readers
  Rust.InvDefs Rust.Repr Rust.Lib Rust.TreeFactsI.
Import ListNotations.
Set Implicit Arguments.

Section Walk.
Variable V : Type.
Notation ptree := (ptree V).
Notation leaf := (leaf V).
Notation heap := (heap V).
Notation iter := (iter V).
Notation fiter := (fiter V).

Definition lentries (l : leaf) : list (key * V) := combine (lkeys l) (lvals l).
Definition offset (L : list (N * leaf)) (j : nat) : nat :=
  length (flat_map (fun p => lentries (snd p)) (firstn j L)).
Definition beyond (ek eb : option Z) (incl : bool) (z : Z) : bool :=
  match ek with
  | Some e => if incl then Z.ltb e z else Z.leb e z
  | None => match eb with Some e => if incl then Z.ltb e z else Z.leb e z | None => false end
  end.
Fixpoint take_until (P : Z -> bool) (m : list (key * V)) : list (key * V) :=
  match m with [] => [] | e :: m' => if P (kz (fst e)) then [] else e :: take_until P m' end.

(* ------------------------------------------------------------------ *)
(* generic list facts *)

Lemma nth_error_map' : forall (A B : Type) (f : A -> B) l n,
  nth_error (map f l) n = option_map f (nth_error l n).
Proof.
  induction l as [|a l IH]; intros [|n]; cbn; auto.
Qed.

Lemma firstn_S_nth : forall (A : Type) (l : list A) j x, nth_error l j = Some x ->
  firstn (S j) l = firstn j l ++ [x].
Proof.
  induction l as [|a l IH]; intros [|j] x H; cbn in H; try discriminate.
  - inversion H; subst. reflexivity.
  - cbn [firstn app]. change (firstn (S j) l) with (firstn (S j) l). f_equal.
    rewrite <- (IH j x H). reflexivity.
Qed.

Lemma nth_error_combine : forall (A B : Type) (l : list A) (r : list B) i a b,
  nth_error (combine l r) i = Some (a, b) <-> nth_error l i = Some a /\ nth_error r i = Some b.
Proof.
  induction l as [|x l IH]; intros r i a b.
  - cbn. destruct i; split; try discriminate; intros [H _]; discriminate.
  - destruct r as [|y r].
    + cbn. destruct i; split; try discriminate; intros [_ H]; discriminate.
    + destruct i as [|i]; cbn.
      * split; [intros H; inversion H; auto | intros [H1 H2]; congruence].
      * apply IH.
Qed.

Lemma NoDup_map_inj : forall (A B : Type) (f : A -> B) l,
  (forall x y, f x = f y -> x = y) -> NoDup l -> NoDup (map f l).
Proof.
  intros A B f l Hinj. induction 1 as [|a l Hn ND IH]; cbn; constructor; auto.
  intros Hin. apply in_map_iff in Hin. destruct Hin as (y & Hy & Hin).
  apply Hinj in Hy. subst. auto.
Qed.

Lemma list_sum_cons : forall a l, list_sum (a :: l) = a + list_sum l.
Proof. reflexivity. Qed.

Lemma fold_sum : forall (A : Type) (f : A -> nat) l a,
  fold_left (fun a x => a + f x) l a = a + list_sum (map f l).
Proof.
  induction l as [|x l IH]; intros a; cbn [fold_left map].
  - cbn. lia.
  - rewrite IH, list_sum_cons. lia.
Qed.

Lemma sum_set_nth : forall (A : Type) (f : A -> nat) z st i x, f z = 0 ->
  nth_error st i = Some x -> list_sum (map f st) = f x + list_sum (map f (set_nth i z st)).
Proof.
  induction st as [|a st IH]; intros [|i] x Hz H; cbn in H; try discriminate.
  - inversion H; subst. cbn [set_nth map]. rewrite !list_sum_cons. lia.
  - cbn [set_nth map]. rewrite !list_sum_cons. rewrite (IH i x Hz H). lia.
Qed.

Lemma sum_inj : forall (A : Type) (f : A -> nat) z, f z = 0 ->
  forall (P : list (nat * A)) st, NoDup (map fst P) ->
  (forall i x, In (i, x) P -> nth_error st i = Some x) ->
  list_sum (map (fun p => f (snd p)) P) <= list_sum (map f st).
Proof.
  intros A f z Hz. induction P as [|[i x] P IH]; intros st ND Hall.
  - cbn. lia.
  - cbn [map snd fst] in *. rewrite list_sum_cons. inversion ND as [|? ? Hni ND']; subst.
    rewrite (@sum_set_nth A f z st i x Hz) by (apply Hall; left; reflexivity).
    assert (Hle : list_sum (map (fun p => f (snd p)) P) <= list_sum (map f (set_nth i z st))).
    { apply IH; auto. intros i' x' Hin.
      rewrite nth_error_set_nth_other.
      - apply Hall. right. exact Hin.
      - intros E. subst i'. apply Hni. apply in_map_iff. exists (i, x'). auto. }
    lia.
Qed.

Lemma take_until_false : forall (P : Z -> bool) m, (forall z, P z = false) -> take_until P m = m.
Proof.
  intros P m HP. induction m as [|e m IH]; cbn; auto. rewrite HP, IH. reflexivity.
Qed.

Lemma skipn_nth_cons : forall (A : Type) (l : list A) p x, nth_error l p = Some x ->
  skipn p l = x :: skipn (S p) l.
Proof.
  induction l as [|a l IH]; intros [|p] x H; cbn in H; try discriminate.
  - inversion H; subst. reflexivity.
  - cbn [skipn]. rewrite (IH p x H). reflexivity.
Qed.

(* ------------------------------------------------------------------ *)
(* trees: a usable induction principle, leaves_of vs leaf_links / contents / subtree *)

Lemma ptree_ind' (P : ptree -> Prop) :
  (forall id c ks vs nx, P (PLeaf id c ks vs nx)) ->
  (forall id c ks cs, Forall P cs -> P (PBranch id c ks cs)) ->
  forall t, P t.
Proof.
  intros HL HB. fix IH 1. intros [id c ks vs nx | id c ks cs].
  - apply HL.
  - apply HB. induction cs as [|ch cs IHcs]; constructor; [apply IH | exact IHcs].
Qed.

Lemma leaves_links : forall t : ptree,
  map (fun p => (fst p, lnext (snd p))) (leaves_of t) = leaf_links t.
Proof.
  induction t as [id c ks vs nx | id c ks cs H] using ptree_ind'; cbn [leaves_of leaf_links].
  - reflexivity.
  - induction H as [|ch cs Hc _ IH]; cbn [flat_map]; [reflexivity|].
    rewrite map_app, Hc, IH. reflexivity.
Qed.

Lemma leaves_ids : forall t : ptree, map fst (leaves_of t) = leaf_ids t.
Proof.
  intros t. unfold leaf_ids. rewrite <- leaves_links, map_map. reflexivity.
Qed.

Lemma contents_leaves : forall t : ptree,
  contents t = flat_map (fun p => lentries (snd p)) (leaves_of t).
Proof.
  induction t as [id c ks vs nx | id c ks cs H] using ptree_ind'; cbn [leaves_of contents].
  - unfold lentries. cbn. rewrite app_nil_r. reflexivity.
  - induction H as [|ch cs Hc _ IH]; cbn [flat_map]; [reflexivity|].
    rewrite flat_map_app, Hc, IH. reflexivity.
Qed.

Lemma leaves_sub : forall (t : ptree) id l, In (id, l) (leaves_of t) ->
  exists c ks vs nx, l = mkLeaf c ks vs nx /\ subtree (PLeaf id c ks vs nx) t.
Proof.
  induction t as [id c ks vs nx | id c ks cs H] using ptree_ind'; intros i l Hin;
    cbn [leaves_of] in Hin.
  - destruct Hin as [E|[]]. inversion E; subst. do 4 eexists. split; [reflexivity|constructor].
  - apply in_flat_map in Hin. destruct Hin as (ch & Hch & Hin).
    rewrite Forall_forall in H.
    destruct (H ch Hch i l Hin) as (c0 & ks0 & vs0 & nx0 & -> & Hs).
    do 4 eexists. split; [reflexivity|]. eapply sub_child; eauto.
Qed.

Lemma subtree_shape : forall (s t : ptree), subtree s t ->
  forall cap r hgt, shape cap r hgt t -> exists r' h', shape cap r' h' s.
Proof.
  induction 1 as [t | s id c ks cs ch Hin Hs IH]; intros cap r hgt Hsh.
  - eauto.
  - apply shape_branch_inv in Hsh. destruct Hsh as (h' & _ & _ & _ & _ & _ & _ & Hc).
    eapply IH. apply Hc. exact Hin.
Qed.

Lemma leaves_lens : forall cap r hgt (t : ptree) id l, shape cap r hgt t ->
  In (id, l) (leaves_of t) -> length (lvals l) = length (lkeys l).
Proof.
  intros cap r hgt t id l Hsh Hin.
  apply leaves_sub in Hin. destruct Hin as (c & ks & vs & nx & -> & Hs).
  destruct (subtree_shape Hs Hsh) as (r' & h' & Hl).
  apply shape_leaf_inv in Hl. cbn. tauto.
Qed.

Lemma leaves_get : forall (h : heap) (t : ptree) id l, repr h t ->
  In (id, l) (leaves_of t) -> get_leaf h id = Some l.
Proof.
  intros h t id l [HrL _] Hin.
  apply leaves_sub in Hin. destruct Hin as (c & ks & vs & nx & -> & Hs).
  apply HrL. exact Hs.
Qed.

Lemma repr_child : forall (h : heap) id c ks cs (ch : ptree),
  repr h (PBranch id c ks cs) -> In ch cs -> repr h ch.
Proof.
  intros h id c ks cs ch [HrL HrB] Hin. split.
  - intros. apply HrL. eapply sub_child; eauto.
  - intros. apply HrB. eapply sub_child; eauto.
Qed.

Lemma get_leaf_NULL : forall h : heap, get_leaf h NULL = None.
Proof. intros h. unfold get_leaf, a_get. rewrite N.eqb_refl. reflexivity. Qed.

Lemma get_leaf_store : forall (h : heap) id l, get_leaf h id = Some l ->
  nth_error (store (hleaves h)) (N.to_nat id) = Some l.
Proof.
  intros h id l. unfold get_leaf, a_get.
  destruct (N.eqb id NULL); [discriminate|]. unfold idx.
  destruct (N.ltb id (N.of_nat (length (store (hleaves h))))).
  - destruct (andb _ _); [auto|discriminate].
  - rewrite Nat.ltb_irrefl. cbn [andb]. discriminate.
Qed.

Lemma links_ok_nth : forall (L : list (N * N)) after j id nx,
  links_ok L after -> nth_error L j = Some (id, nx) ->
  nx = match nth_error L (S j) with Some (id', _) => id' | None => after end.
Proof.
  induction L as [|[i0 n0] L IH]; intros after j id nx HL Hn.
  - destruct j; discriminate.
  - cbn [links_ok] in HL. destruct HL as [H1 H2]. destruct j as [|j].
    + cbn in Hn. inversion Hn; subst. cbn [nth_error].
      destruct L as [|[i1 n1] L']; cbn [nth_error]; reflexivity.
    + cbn [nth_error] in Hn. change (nth_error ((i0, n0) :: L) (S (S j))) with (nth_error L (S j)).
      eapply IH; eauto.
Qed.

Lemma height_le_branches : forall t : ptree, height t <= length (branch_ids t).
Proof.
  induction t as [id c ks vs nx | id c ks cs H] using ptree_ind'; cbn [height branch_ids length].
  - lia.
  - apply le_n_S. induction H as [|ch cs Hc _ IH]; cbn [map list_max flat_map fold_right]; [lia|].
    rewrite app_length. change (fold_right Nat.max 0 (map (@height V) cs)) with (list_max (map (@height V) cs)).
    lia.
Qed.

Lemma meta_ok_count : forall m ids, meta_ok m ids -> length ids <= length (m_mask m).
Proof.
  intros m ids (ND & Hm & _).
  assert (Hinc : incl (map N.to_nat ids) (seq 0 (length (m_mask m)))).
  { intros i Hi. apply in_map_iff in Hi. destruct Hi as (id & <- & Hid). apply Hm in Hid.
    apply in_seq. split; [lia|]. cbn. unfold m_mask_at in Hid.
    apply nth_error_Some. destruct (nth_error (m_mask m) (N.to_nat id)); congruence. }
  assert (ND' : NoDup (map N.to_nat ids)).
  { apply NoDup_map_inj; auto. intros x y. apply N2Nat.inj. }
  pose proof (NoDup_incl_length ND' Hinc) as Hl. rewrite map_length, seq_length in Hl. exact Hl.
Qed.

(* ------------------------------------------------------------------ *)
(* offsets *)

Notation fm := (flat_map (fun p : N * leaf => lentries (snd p))).

Lemma offset_0 : forall L, offset L 0 = 0.
Proof. reflexivity. Qed.

Lemma offset_S : forall L j id l, nth_error L j = Some (id, l) ->
  offset L (S j) = offset L j + length (lentries l).
Proof.
  intros L j id l H. unfold offset. rewrite (firstn_S_nth _ _ H).
  rewrite flat_map_app, app_length. cbn. rewrite app_nil_r. reflexivity.
Qed.

Lemma offset_all : forall L j, length L <= j -> offset L j = length (fm L).
Proof. intros L j H. unfold offset. rewrite firstn_all2 by exact H. reflexivity. Qed.

Lemma nth_error_fm : forall L j id l i, nth_error L j = Some (id, l) ->
  i < length (lentries l) -> nth_error (fm L) (offset L j + i) = nth_error (lentries l) i.
Proof.
  intros L j id l i H Hi.
  rewrite (flat_map_nth_split (fun p : N * leaf => lentries (snd p)) _ _ H).
  unfold offset. rewrite nth_error_app2 by lia.
  replace (length (fm (firstn j L)) + i - length (fm (firstn j L))) with i by lia.
  cbn [snd]. rewrite nth_error_app1 by exact Hi. reflexivity.
Qed.

Lemma offset_le : forall L j id l, nth_error L j = Some (id, l) ->
  offset L j + length (lentries l) <= length (fm L).
Proof.
  intros L j id l H.
  rewrite (flat_map_nth_split (fun p : N * leaf => lentries (snd p)) _ _ H).
  unfold offset. rewrite !app_length. cbn [snd]. lia.
Qed.

Lemma length_fm : forall L : list (N * leaf),
  (forall id l, In (id, l) L -> length (lvals l) = length (lkeys l)) ->
  length (fm L) = list_sum (map (fun p => length (lkeys (snd p))) L).
Proof.
  induction L as [|[id l] L IH]; intros Hl; cbn [flat_map map snd]; [reflexivity|].
  rewrite list_sum_cons, app_length, IH by (intros; apply (Hl id0); right; auto).
  unfold lentries. rewrite combine_length, (Hl id l) by (left; reflexivity). lia.
Qed.

(* ------------------------------------------------------------------ *)
(* try_get *)

Lemma try_get_ge : forall (s : iter) l, length (lkeys l) <= it_idx s -> try_get s l = Ok (s, None).
Proof.
  intros s l H. unfold try_get.
  replace (Nat.leb (length (lkeys l)) (it_idx s)) with true by (symmetry; apply Nat.leb_le; exact H).
  reflexivity.
Qed.

Lemma try_get_lt : forall (s : iter) l k v, length (lvals l) = length (lkeys l) ->
  nth_error (lentries l) (it_idx s) = Some (k, v) ->
  try_get s l =
    if beyond (it_end_key s) (it_end_bound s) (it_incl s) (kz k)
    then Ok (it_terminal s, None)
    else Ok (mkIter (it_id s) (it_leaf s) (S (it_idx s)) (it_end_key s) (it_end_bound s)
                    (it_incl s), Some (k, v)).
Proof.
  intros s l k v Hlen Hn. unfold lentries in Hn. apply nth_error_combine in Hn.
  destruct Hn as [Hk Hv]. unfold try_get.
  assert (Hi : it_idx s < length (lkeys l)) by (apply nth_error_Some; congruence).
  replace (Nat.leb (length (lkeys l)) (it_idx s)) with false by (symmetry; apply Nat.leb_gt; lia).
  replace (Nat.leb (length (lvals l)) (it_idx s)) with false by (symmetry; apply Nat.leb_gt; lia).
  cbn [orb]. rewrite Hk, Hv. unfold beyond. reflexivity.
Qed.

(* ------------------------------------------------------------------ *)
(* first leaf *)

Lemma h_first_spec : forall (h : heap) cap r hgt (t : ptree), shape cap r hgt t ->
  forall fuel, repr h t -> hgt < fuel ->
  exists id l, h_first fuel h (ref_of t) = Ok (Some id) /\ nth_error (leaves_of t) 0 = Some (id, l).
Proof.
  intros h cap r hgt t Hsh.
  induction Hsh as [r id ks vs nx | r hh id ks cs L1 L2 L3 L4 Hc IH]; intros fuel Hr Hf.
  - destruct fuel; [lia|]. cbn. eauto.
  - destruct fuel; [lia|]. cbn [ref_of h_first].
    pose proof Hr as [_ HrB]. rewrite (HrB id cap ks cs (sub_refl _)). cbn [bkids].
    destruct cs as [|c cs]; [cbn in L1; lia|]. cbn [map].
    destruct (IH c (or_introl eq_refl) fuel) as (i & l & E1 & E2).
    { eapply repr_child; [exact Hr|left; reflexivity]. }
    { lia. }
    exists i, l. split; [exact E1|]. cbn [leaves_of flat_map].
    destruct (leaves_of c); [discriminate|exact E2].
Qed.

(* ------------------------------------------------------------------ *)
(* a fixed state and its heap *)
Section State.
Variable b : bstate V.
Variable h : heap.
Hypothesis HI : Inv b.
Hypothesis HH : heap_of b h.

Notation L := (leaves_of (root b)).
Notation m := (contents (root b)).

Lemma m_fm : m = fm L.
Proof. apply contents_leaves. Qed.

Lemma L_lens : forall id l, In (id, l) L -> length (lvals l) = length (lkeys l).
Proof.
  intros id l Hin. destruct (inv_shape HI) as (hgt & Hsh). eapply leaves_lens; eauto.
Qed.

Lemma L_get : forall id l, In (id, l) L -> get_leaf h id = Some l.
Proof. intros id l Hin. eapply leaves_get; [apply (ho_repr HH)|exact Hin]. Qed.

Lemma L_nonnull : forall id l, In (id, l) L -> N.eqb id NULL = false.
Proof.
  intros id l Hin. apply N.eqb_neq. intros ->. apply L_get in Hin.
  rewrite get_leaf_NULL in Hin. discriminate.
Qed.

Lemma L_next : forall j id l, nth_error L j = Some (id, l) ->
  lnext l = match nth_error L (S j) with Some (id', _) => id' | None => NULL end.
Proof.
  intros j id l Hn. pose proof (inv_chain HI) as Hc. unfold chain_ok in Hc.
  rewrite <- leaves_links in Hc.
  assert (E : nth_error (map (fun p : N * leaf => (fst p, lnext (snd p))) L) j = Some (id, lnext l)).
  { rewrite nth_error_map', Hn. reflexivity. }
  rewrite (@links_ok_nth _ _ _ _ _ Hc E). rewrite nth_error_map'.
  destruct (nth_error L (S j)) as [[id' l']|]; reflexivity.
Qed.

Lemma L_count : length L <= length (store (hleaves h)).
Proof.
  rewrite (ho_llen HH). pose proof (meta_ok_count (inv_leaves HI)) as Hc.
  rewrite <- leaves_ids, map_length in Hc. exact Hc.
Qed.

Lemma L_lentries_len : forall id l, In (id, l) L -> length (lentries l) = length (lkeys l).
Proof.
  intros id l Hin. unfold lentries. rewrite combine_length, (L_lens _ _ Hin). lia.
Qed.

Lemma height_lt_dfuel : forall hgt, shape (cap b) true hgt (root b) -> hgt < dfuel h.
Proof.
  intros hgt Hsh. rewrite <- (shape_height Hsh).
  pose proof (height_le_branches (root b)) as H1.
  pose proof (meta_ok_count (inv_branches HI)) as H2.
  unfold dfuel, nslots. rewrite (ho_blen HH). lia.
Qed.

Lemma first_leaf_spec : exists id l,
  get_first_leaf_id h = Ok (Some id) /\ nth_error L 0 = Some (id, l) /\ get_leaf h id = Some l.
Proof.
  destruct (inv_shape HI) as (hgt & Hsh).
  destruct (h_first_spec Hsh (fuel := dfuel h) (ho_repr HH) (height_lt_dfuel Hsh))
    as (id & l & E1 & E2).
  exists id, l. unfold get_first_leaf_id. rewrite (ho_root HH). repeat split; auto.
  apply L_get. eapply nth_error_In; eauto.
Qed.

(* total_items_bound *)
Lemma contents_lt_total_items_bound : length m < total_items_bound h.
Proof.
  unfold total_items_bound. rewrite fold_sum. cbn [plus].
  rewrite m_fm, (length_fm L L_lens).
  pose proof (@sum_inj leaf (fun l => length (lkeys l)) (@dflt_leaf V) eq_refl
                (map (fun p : N * leaf => (N.to_nat (fst p), snd p)) L) (store (hleaves h))) as Hs.
  rewrite !map_map in Hs. cbn [fst snd] in Hs.
  apply Nat.lt_succ_r. apply Hs.
  - rewrite <- (map_map fst N.to_nat). apply NoDup_map_inj; [intros x y; apply N2Nat.inj|].
    rewrite leaves_ids. apply (inv_leaves HI).
  - intros i x Hin. apply in_map_iff in Hin. destruct Hin as ([id l] & E & Hin).
    cbn [fst snd] in E. inversion E; subst. apply get_leaf_store. apply L_get. exact Hin.
Qed.

(* ------------------------------------------------------------------ *)
(* ItemIterator *)

Definition at_pos' (s : iter) (p : nat) : Prop :=
  (exists j id l, nth_error L j = Some (id, l) /\ it_leaf s = Some l /\
                  p = offset L j + Nat.min (it_idx s) (length (lkeys l)))
  \/ (it_leaf s = None /\ p = length m).

Definition same_bounds (s s' : iter) : Prop :=
  it_end_key s' = it_end_key s /\ it_end_bound s' = it_end_bound s /\ it_incl s' = it_incl s.

(* what one call of next from position p delivers *)
Definition step_post' (s : iter) (p : nat) (s' : iter) (r : option (key * V)) : Prop :=
  same_bounds s s' /\
  match nth_error m p with
  | Some e =>
      if beyond (it_end_key s) (it_end_bound s) (it_incl s) (kz (fst e))
      then r = None /\ it_leaf s' = None
      else r = Some e /\ at_pos' s' (S p)
  | None => r = None /\ it_leaf s' = None /\ p = length m
  end.

Lemma step_post_transfer : forall s1 s2 p1 p2 s' r,
  same_bounds s1 s2 -> p1 = p2 -> step_post' s2 p2 s' r -> step_post' s1 p1 s' r.
Proof.
  intros s1 s2 p1 p2 s' r (E1 & E2 & E3) -> ((F1 & F2 & F3) & H).
  unfold step_post', same_bounds. rewrite <- E1, <- E2, <- E3. repeat split; auto; congruence.
Qed.

Lemma item_next_f_walk : forall fuel j id l (s : iter),
  nth_error L j = Some (id, l) -> it_leaf s = Some l -> length L - j <= fuel ->
  exists s' r, item_next_f fuel h s = Ok (s', r) /\
               step_post' s (offset L j + Nat.min (it_idx s) (length (lkeys l))) s' r.
Proof.
  induction fuel as [|f IH]; intros j id l s Hn Hl Hf.
  - assert (j < length L) by (apply nth_error_Some; congruence). lia.
  - assert (Hin : In (id, l) L) by (eapply nth_error_In; eauto).
    cbn [item_next_f]. rewrite Hl.
    destruct (le_lt_dec (length (lkeys l)) (it_idx s)) as [Hge|Hlt].
    + (* leaf exhausted: advance *)
      rewrite (try_get_ge _ _ Hge). cbn [bind]. unfold advance. rewrite Hl.
      rewrite (L_next _ Hn).
      replace (Nat.min (it_idx s) (length (lkeys l))) with (length (lkeys l)) by lia.
      assert (Ep : offset L j + length (lkeys l) = offset L (S j)).
      { rewrite (offset_S _ _ Hn), (L_lentries_len _ _ Hin). reflexivity. }
      destruct (nth_error L (S j)) as [[id' l']|] eqn:En.
      * assert (Hin' : In (id', l') L) by (eapply nth_error_In; eauto).
        rewrite (L_nonnull _ _ Hin'), (L_get _ _ Hin').
        destruct (IH (S j) id' l'
                    (mkIter (Some id') (Some l') 0 (it_end_key s) (it_end_bound s) (it_incl s))
                    En eq_refl ltac:(lia)) as (s' & r & E & Hp).
        exists s', r. split; [exact E|].
        eapply step_post_transfer; [| |exact Hp].
        -- repeat split; reflexivity.
        -- cbn [it_idx]. rewrite Nat.min_0_l. lia.
      * rewrite N.eqb_refl. exists (it_terminal s), None. split; [reflexivity|].
        assert (Hall : offset L (S j) = length m).
        { rewrite m_fm. apply offset_all. apply nth_error_None. exact En. }
        split; [repeat split; reflexivity|].
        rewrite Ep, Hall.
        replace (nth_error m (length m)) with (@None (key * V))
          by (symmetry; apply nth_error_None; lia).
        repeat split; reflexivity.
    + (* an entry of this leaf *)
      replace (Nat.min (it_idx s) (length (lkeys l))) with (it_idx s) by lia.
      assert (Hlt' : it_idx s < length (lentries l)) by (rewrite (L_lentries_len _ _ Hin); exact Hlt).
      destruct (nth_error (lentries l) (it_idx s)) as [[k v]|] eqn:Ee;
        [|apply nth_error_None in Ee; lia].
      rewrite (try_get_lt _ _ (L_lens _ _ Hin) Ee).
      assert (Em : nth_error m (offset L j + it_idx s) = Some (k, v)).
      { rewrite m_fm, (nth_error_fm _ _ Hn Hlt'). exact Ee. }
      destruct (beyond (it_end_key s) (it_end_bound s) (it_incl s) (kz k)) eqn:Eb.
      * cbn [bind]. unfold advance. cbn [it_terminal it_leaf].
        exists (it_terminal s), None. split; [reflexivity|].
        split; [repeat split; reflexivity|]. rewrite Em. cbn [fst]. rewrite Eb.
        split; reflexivity.
      * cbn [bind]. eexists _, _. split; [reflexivity|].
        split; [repeat split; reflexivity|]. rewrite Em. cbn [fst]. rewrite Eb.
        split; [reflexivity|]. left. exists j, id, l. cbn [it_leaf it_idx].
        repeat split; auto. lia.
Qed.

Lemma item_next_step' : forall (s : iter) p, at_pos' s p ->
  exists s' r, item_next h s = Ok (s', r) /\ step_post' s p s' r.
Proof.
  intros s p [(j & id & l & Hn & Hl & ->)|[Hl ->]].
  - unfold item_next. apply item_next_f_walk with (id := id); auto.
    pose proof L_count. unfold dfuel, nslots. lia.
  - exists s, None. unfold item_next, dfuel. cbn [item_next_f]. rewrite Hl.
    split; [reflexivity|]. split; [repeat split; reflexivity|].
    replace (nth_error m (length m)) with (@None (key * V))
      by (symmetry; apply nth_error_None; lia).
    repeat split; auto.
Qed.

Lemma collect_at_pos' : forall fuel (s : iter) p, at_pos' s p -> length m - p < fuel ->
  collect_f (item_next h) fuel s
  = Ok (take_until (beyond (it_end_key s) (it_end_bound s) (it_incl s)) (skipn p m)).
Proof.
  induction fuel as [|f IH]; intros s p Hp Hf; [lia|].
  cbn [collect_f]. destruct (item_next_step' Hp) as (s' & r & E & (B1 & B2 & B3) & Hpost).
  rewrite E. cbn [bind snd fst].
  destruct (nth_error m p) as [e|] eqn:En.
  - rewrite (skipn_nth_cons _ _ En). cbn [take_until].
    destruct (beyond (it_end_key s) (it_end_bound s) (it_incl s) (kz (fst e))).
    + destruct Hpost as [-> _]. reflexivity.
    + destruct Hpost as [-> Hp']. assert (p < length m) by (apply nth_error_Some; congruence).
      rewrite (IH s' (S p) Hp') by lia. cbn [bind]. rewrite B1, B2, B3. reflexivity.
  - destruct Hpost as (-> & _ & _). apply nth_error_None in En.
    rewrite skipn_all2 by exact En. reflexivity.
Qed.

(* ------------------------------------------------------------------ *)
(* FastItemIterator *)

Definition fat_pos' (s : fiter) (p : nat) : Prop :=
  (exists j id l, nth_error L j = Some (id, l) /\ f_leaf s = Some l /\ f_fin s = false /\
                  p = offset L j + Nat.min (f_idx s) (length (lkeys l)))
  \/ ((f_fin s = true \/ f_leaf s = None) /\ p = length m).

Definition fstep_post' (p : nat) (s' : fiter) (r : option (key * V)) : Prop :=
  r = nth_error m p /\
  fat_pos' s' (match nth_error m p with Some _ => S p | None => p end).

Lemma fast_next_f_walk : forall fuel j id l (s : fiter),
  nth_error L j = Some (id, l) -> f_leaf s = Some l -> f_fin s = false -> length L - j <= fuel ->
  exists s' r, fast_next_f fuel h s = Ok (s', r) /\
               fstep_post' (offset L j + Nat.min (f_idx s) (length (lkeys l))) s' r.
Proof.
  induction fuel as [|f IH]; intros j id l s Hn Hl Hfin Hf.
  - assert (j < length L) by (apply nth_error_Some; congruence). lia.
  - assert (Hin : In (id, l) L) by (eapply nth_error_In; eauto).
    cbn [fast_next_f]. rewrite Hfin, Hl.
    destruct (Nat.ltb_spec (f_idx s) (length (lkeys l))) as [Hlt|Hge].
    + replace (Nat.min (f_idx s) (length (lkeys l))) with (f_idx s) by lia.
      assert (Hlt' : f_idx s < length (lentries l)) by (rewrite (L_lentries_len _ _ Hin); exact Hlt).
      destruct (nth_error (lentries l) (f_idx s)) as [[k v]|] eqn:Ee;
        [|apply nth_error_None in Ee; lia].
      assert (Em : nth_error m (offset L j + f_idx s) = Some (k, v)).
      { rewrite m_fm, (nth_error_fm _ _ Hn Hlt'). exact Ee. }
      unfold lentries in Ee. apply nth_error_combine in Ee. destruct Ee as [Ek Ev].
      rewrite Ek, Ev. eexists _, _. split; [reflexivity|].
      unfold fstep_post'. rewrite Em. split; [reflexivity|].
      left. exists j, id, l. cbn [f_leaf f_idx f_fin]. repeat split; auto. lia.
    + replace (Nat.min (f_idx s) (length (lkeys l))) with (length (lkeys l)) by lia.
      assert (Ep : offset L j + length (lkeys l) = offset L (S j)).
      { rewrite (offset_S _ _ Hn), (L_lentries_len _ _ Hin). reflexivity. }
      rewrite (L_next _ Hn).
      destruct (nth_error L (S j)) as [[id' l']|] eqn:En.
      * assert (Hin' : In (id', l') L) by (eapply nth_error_In; eauto).
        rewrite (L_nonnull _ _ Hin'), (L_get _ _ Hin'). cbn [negb].
        destruct (IH (S j) id' l' (mkFiter (Some id') (Some l') 0 false)
                    En eq_refl eq_refl ltac:(lia)) as (s' & r & E & Hp).
        exists s', r. split; [exact E|].
        cbn [f_idx] in Hp. rewrite Nat.min_0_l, Nat.add_0_r in Hp. rewrite Ep. exact Hp.
      * rewrite N.eqb_refl. cbn [negb]. eexists _, _. split; [reflexivity|].
        assert (Hall : offset L (S j) = length m).
        { rewrite m_fm. apply offset_all. apply nth_error_None. exact En. }
        unfold fstep_post'. rewrite Ep, Hall.
        replace (nth_error m (length m)) with (@None (key * V))
          by (symmetry; apply nth_error_None; lia).
        split; [reflexivity|]. right. cbn [f_fin]. auto.
Qed.

Lemma fast_next_step' : forall (s : fiter) p, fat_pos' s p ->
  exists s' r, fast_next h s = Ok (s', r) /\ fstep_post' p s' r.
Proof.
  intros s p [(j & id & l & Hn & Hl & Hfin & ->)|[Hterm ->]].
  - unfold fast_next. apply fast_next_f_walk with (id := id); auto.
    pose proof L_count. unfold dfuel, nslots. lia.
  - unfold fast_next, dfuel. cbn [fast_next_f]. unfold fstep_post'.
    replace (nth_error m (length m)) with (@None (key * V))
      by (symmetry; apply nth_error_None; lia).
    destruct (f_fin s) eqn:Efin.
    + exists s, None. repeat split; auto. right. auto.
    + destruct Hterm as [Hx|Hl]; [discriminate|]. rewrite Hl.
      eexists _, _. split; [reflexivity|]. split; [reflexivity|]. right. cbn [f_fin]. auto.
Qed.

Lemma fast_collect_at_pos' : forall fuel (s : fiter) p, fat_pos' s p -> length m - p < fuel ->
  collect_f (fast_next h) fuel s = Ok (skipn p m).
Proof.
  induction fuel as [|f IH]; intros s p Hp Hf; [lia|].
  cbn [collect_f]. destruct (fast_next_step' Hp) as (s' & r & E & -> & Hp').
  rewrite E. cbn [bind snd fst].
  destruct (nth_error m p) as [e|] eqn:En.
  - assert (p < length m) by (apply nth_error_Some; congruence).
    rewrite (IH s' (S p) Hp') by lia. cbn [bind]. rewrite (skipn_nth_cons _ _ En). reflexivity.
  - apply nth_error_None in En. rewrite skipn_all2 by exact En. reflexivity.
Qed.

End State.

(* ------------------------------------------------------------------ *)
(* public statements *)

Definition at_pos (b : bstate V) (s : iter) (p : nat) : Prop := at_pos' b s p.
Definition fat_pos (b : bstate V) (s : fiter) (p : nat) : Prop := fat_pos' b s p.
Definition step_post (b : bstate V) (s : iter) (p : nat) (s' : iter) (r : option (key * V)) : Prop :=
  step_post' b s p s' r.

(* position of a cached leaf / of a terminal state *)
Lemma at_pos_leaf : forall (b : bstate V) j id l oid idx ek eb incl,
  nth_error (leaves_of (root b)) j = Some (id, l) ->
  at_pos b (mkIter oid (Some l) idx ek eb incl)
         (offset (leaves_of (root b)) j + Nat.min idx (length (lkeys l))).
Proof. intros. left. exists j, id, l. auto. Qed.

Lemma at_pos_terminal : forall (b : bstate V) (s : iter), it_leaf s = None ->
  at_pos b s (length (contents (root b))).
Proof. intros. right. auto. Qed.

(* one call of next, with end bounds (see [step_post']) *)
Theorem item_next_step : forall (b : bstate V) (h : heap) (s : iter) p,
  Inv b -> heap_of b h -> at_pos b s p ->
  exists s' r, item_next h s = Ok (s', r) /\ step_post b s p s' r.
Proof. intros b h s p HI HH Hp. exact (item_next_step' HI HH Hp). Qed.

Theorem collect_at_pos : forall (b : bstate V) (h : heap) fuel (s : iter) p,
  Inv b -> heap_of b h -> at_pos b s p -> length (contents (root b)) - p < fuel ->
  collect_f (item_next h) fuel s
  = Ok (take_until (beyond (it_end_key s) (it_end_bound s) (it_incl s))
                   (skipn p (contents (root b)))).
Proof. intros b h fuel s p HI HH Hp Hf. exact (collect_at_pos' HI HH Hp Hf). Qed.

Theorem collect_from_pos : forall (b : bstate V) (h : heap) j id l idx oid ek eb incl fuel,
  Inv b -> heap_of b h ->
  nth_error (leaves_of (root b)) j = Some (id, l) ->
  length (contents (root b)) < fuel ->
  collect_f (item_next h) fuel (mkIter oid (Some l) idx ek eb incl)
  = Ok (take_until (beyond ek eb incl)
          (skipn (offset (leaves_of (root b)) j + Nat.min idx (length (lkeys l))) (contents (root b)))).
Proof.
  intros b h j id l idx oid ek eb incl fuel HI HH Hn Hf.
  rewrite (@collect_at_pos b h fuel _ _ HI HH (at_pos_leaf b j oid idx ek eb incl Hn)) by lia.
  reflexivity.
Qed.

Theorem collect_terminal : forall (h : heap) oid idx ek eb incl fuel, 1 <= fuel ->
  collect_f (item_next h) fuel (mkIter oid None idx ek eb incl) = Ok [].
Proof.
  intros h oid idx ek eb incl [|f] Hf; [lia|]. reflexivity.
Qed.

Lemma item_next_at_pos : forall (b : bstate V) (h : heap) (s : iter) p,
  Inv b -> heap_of b h -> at_pos b s p -> it_end_key s = None -> it_end_bound s = None ->
  exists s', item_next h s = Ok (s', nth_error (contents (root b)) p) /\
    at_pos b s' (match nth_error (contents (root b)) p with Some _ => S p | None => p end) /\
    it_end_key s' = None /\ it_end_bound s' = None.
Proof.
  intros b h s p HI HH Hp Ek Eb.
  destruct (item_next_step HI HH Hp) as (s' & r & E & (B1 & B2 & B3) & Hpost).
  exists s'. rewrite Ek, Eb in *. cbn [beyond] in Hpost.
  destruct (nth_error (contents (root b)) p) as [e|].
  - destruct Hpost as [-> Hp']. auto.
  - destruct Hpost as (-> & Hl & ->). repeat split; auto. right. auto.
Qed.

Lemma fast_next_at_pos : forall (b : bstate V) (h : heap) (s : fiter) p,
  Inv b -> heap_of b h -> fat_pos b s p ->
  exists s', fast_next h s = Ok (s', nth_error (contents (root b)) p) /\
    fat_pos b s' (match nth_error (contents (root b)) p with Some _ => S p | None => p end).
Proof.
  intros b h s p HI HH Hp.
  destruct (fast_next_step' HI HH Hp) as (s' & r & E & -> & Hp'). eauto.
Qed.

Theorem fast_collect_at_pos : forall (b : bstate V) (h : heap) fuel (s : fiter) p,
  Inv b -> heap_of b h -> fat_pos b s p -> length (contents (root b)) - p < fuel ->
  collect_f (fast_next h) fuel s = Ok (skipn p (contents (root b))).
Proof. intros b h fuel s p HI HH Hp Hf. exact (fast_collect_at_pos' HI HH Hp Hf). Qed.

(* the iterators created by iter() / items_fast() stand at position 0 *)
Lemma item_new_spec : forall (b : bstate V) (h : heap), Inv b -> heap_of b h ->
  exists id l, nth_error (leaves_of (root b)) 0 = Some (id, l) /\
               item_new h = Ok (mkIter (Some id) (Some l) 0 None None false).
Proof.
  intros b h HI HH. destruct (first_leaf_spec HI HH) as (id & l & E1 & E2 & E3).
  exists id, l. split; [exact E2|]. unfold item_new. rewrite E1. cbn [bind]. rewrite E3. reflexivity.
Qed.

Lemma fast_new_spec : forall (b : bstate V) (h : heap), Inv b -> heap_of b h ->
  exists id l, nth_error (leaves_of (root b)) 0 = Some (id, l) /\
               fast_new h = Ok (mkFiter (Some id) (Some l) 0 false).
Proof.
  intros b h HI HH. destruct (first_leaf_spec HI HH) as (id & l & E1 & E2 & E3).
  exists id, l. split; [exact E2|]. unfold fast_new. rewrite E1. cbn [bind]. rewrite E3. reflexivity.
Qed.

Lemma fat_pos_leaf : forall (b : bstate V) j id l oid idx,
  nth_error (leaves_of (root b)) j = Some (id, l) ->
  fat_pos b (mkFiter oid (Some l) idx false)
          (offset (leaves_of (root b)) j + Nat.min idx (length (lkeys l))).
Proof. intros. left. exists j, id, l. auto. Qed.

End Walk.

Print Assumptions collect_from_pos.
Print Assumptions collect_terminal.
Print Assumptions item_next_step.
Print Assumptions item_next_at_pos.
Print Assumptions fast_next_at_pos.
Print Assumptions fast_collect_at_pos.
Print Assumptions item_new_spec.
Print Assumptions fast_new_spec.
Print Assumptions contents_lt_total_items_bound.
