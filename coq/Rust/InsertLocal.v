(* Local (non-recursive) characterisations of the insert steps: leaf insert/split,
   realize, branch child insertion/split; the shape of results and their effect on
   ord / shape / contents / leaf links / ids. *)
From Coq Require Import List Arith ZArith NArith Lia Bool Permutation.
From BPT Require Import Common.Base Common.AMap Rust.Tree Rust.Readers Rust.InvDefs Rust.Lib
  Rust.InsertMeta Rust.TreeFactsI.
Import ListNotations.
Set Implicit Arguments.

(* ------------------------------------------------------------------ *)
(* arithmetic of the split points *)
Lemma half_facts : forall c, 4 <= c -> 2 <= c / 2 /\ c / 2 <= c /\ c / 2 + c / 2 <= c /\ c <= c / 2 + c / 2 + 1.
Proof.
  intros c H. pose proof (Nat.div_mod c 2). pose proof (Nat.mod_upper_bound c 2). lia.
Qed.

Lemma split_mid_bounds : forall c, 4 <= c ->
  let mid := Nat.min (Nat.max ((c + 1) / 2) (c / 2)) (c - c / 2) in
  c / 2 <= mid /\ mid <= c - c / 2.
Proof.
  intros c H mid. subst mid.
  pose proof (Nat.div_mod c 2). pose proof (Nat.div_mod (c+1) 2).
  pose proof (Nat.mod_upper_bound c 2). pose proof (Nat.mod_upper_bound (c+1) 2).
  lia.
Qed.

(* ------------------------------------------------------------------ *)
(* Vec operations that succeed *)
Section VecOk.
Variable A : Type.

Lemma vec_insert_ok : forall s i (x : A) l, i <= length l -> vec_insert s i x l = Ok (insert_at i x l).
Proof. intros. unfold vec_insert. destruct (Nat.leb_spec i (length l)); [auto|lia]. Qed.

Lemma vec_split_off_ok : forall s n (l : list A), n <= length l ->
  vec_split_off s n l = Ok (firstn n l, skipn n l).
Proof. intros. unfold vec_split_off. destruct (Nat.leb_spec n (length l)); [auto|lia]. Qed.

Lemma vec_get_ok : forall s n (l : list A) x, nth_error l n = Some x -> vec_get s n l = Ok x.
Proof. intros. unfold vec_get. rewrite H. auto. Qed.

Lemma Forall_insert_at : forall (P : A -> Prop) i x l, Forall P l -> P x -> Forall P (insert_at i x l).
Proof.
  induction i; intros x l F Px.
  - destruct l; constructor; auto.
  - destruct l; cbn; [constructor; auto|]. inversion F; subst. constructor; auto.
Qed.

Lemma In_insert_at : forall i (x y : A) l, In y (insert_at i x l) -> y = x \/ In y l.
Proof.
  induction i; intros x y l H.
  - destruct l; cbn in H; destruct H; auto.
  - destruct l; cbn in H.
    + destruct H; auto.
    + destruct H as [H|H]; [right; left; auto|]. apply IHi in H. destruct H; auto. right; right; auto.
Qed.

Lemma In_set_nth : forall i (x y : A) l, In y (set_nth i x l) -> y = x \/ In y l.
Proof.
  induction i; intros x y l H; destruct l; cbn in H; auto.
  - destruct H; auto. right; right; auto.
  - destruct H as [H|H]; [right; left; auto|]. apply IHi in H. destruct H; auto. right; right; auto.
Qed.

Lemma In_firstn : forall n (l : list A) x, In x (firstn n l) -> In x l.
Proof. intros. rewrite <- (firstn_skipn n l). apply in_or_app; auto. Qed.

Lemma In_skipn : forall n (l : list A) x, In x (skipn n l) -> In x l.
Proof. intros. rewrite <- (firstn_skipn n l). apply in_or_app; auto. Qed.

Lemma skipn_nth_cons : forall n (l : list A) x, nth_error l n = Some x -> skipn n l = x :: skipn (S n) l.
Proof.
  induction n; intros l x H; destruct l; cbn in H; try discriminate.
  - inversion H; reflexivity.
  - cbn [skipn]. rewrite (IHn l x H). reflexivity.
Qed.

Lemma firstn_S_insert_at : forall i n (x : A) l, i <= n -> n <= length l ->
  firstn (S n) (insert_at i x l) = insert_at i x (firstn n l).
Proof.
  induction i; intros n x l H1 H2.
  - destruct l; destruct n; reflexivity.
  - destruct n; [lia|]. destruct l; cbn in H2; [lia|].
    cbn [insert_at firstn]. f_equal. apply IHi; lia.
Qed.

Lemma skipn_S_insert_at : forall i n (x : A) l, i <= n -> n <= length l ->
  skipn (S n) (insert_at i x l) = skipn n l.
Proof.
  induction i; intros n x l H1 H2.
  - destruct l; reflexivity.
  - destruct n; [lia|]. destruct l; cbn in H2; [lia|].
    cbn [insert_at skipn]. apply IHi; lia.
Qed.

Lemma skipn_insert_at_ge : forall n i (x : A) l, n <= i -> i <= length l ->
  skipn n (insert_at i x l) = insert_at (i - n) x (skipn n l).
Proof.
  induction n; intros i x l H1 H2.
  - rewrite Nat.sub_0_r. reflexivity.
  - destruct i; [lia|]. destruct l; cbn in H2; [lia|].
    cbn [insert_at skipn Nat.sub]. apply IHn; lia.
Qed.

End VecOk.

(* ------------------------------------------------------------------ *)
(* leaf chain: replacing a segment of the in-order link list *)
Definition links_ext (L L' : list (N * N)) : Prop :=
  forall pre post after, links_ok (pre ++ L ++ post) after -> links_ok (pre ++ L' ++ post) after.

Lemma links_ext_refl : forall L, links_ext L L.
Proof. unfold links_ext; auto. Qed.

Lemma links_ext_frame : forall L L' a b, links_ext L L' -> links_ext (a ++ L ++ b) (a ++ L' ++ b).
Proof.
  unfold links_ext. intros L L' a b H pre post after H1.
  specialize (H (pre ++ a) (b ++ post) after).
  repeat rewrite <- app_assoc in *. auto.
Qed.

Lemma links_ext_split : forall id rid next,
  links_ext [(id, next)] [(id, rid); (rid, next)].
Proof.
  unfold links_ext. intros id rid next pre post after.
  induction pre as [|[a nx] pre IH]; cbn [app links_ok].
  - intros [H1 H2]. auto.
  - intros [H1 H2]. split; auto.
    destruct pre as [|[a' nx'] pre]; cbn [app] in *; auto.
Qed.

(* ------------------------------------------------------------------ *)
Section Local.
Variable V : Type.
Notation ptree := (ptree V).
Notation ins_res := (ins_res V).

Definition lo_lt (lo : option Z) (z : Z) : Prop :=
  match lo with Some l => (l < z)%Z | None => True end.

Definition res_contents (ir : ins_res) : list (key * V) :=
  match ir with IUpd t _ => contents t | ISplit t _ _ r => contents t ++ contents r end.
Definition res_links (ir : ins_res) : list (N * N) :=
  match ir with IUpd t _ => leaf_links t | ISplit t _ _ r => leaf_links t ++ leaf_links r end.
Definition res_old (ir : ins_res) : option V :=
  match ir with IUpd _ o => o | ISplit _ o _ _ => o end.
Definition res_bids (ir : ins_res) : list N :=
  match ir with IUpd t _ => branch_ids t | ISplit t _ _ r => branch_ids t ++ sub_bids r end.

Definition res_ord_shape (c : nat) (isroot : bool) (h : nat) (lo hi : option Z) (ir : ins_res) : Prop :=
  match ir with
  | IUpd t _ => ord lo hi t /\ shape c isroot h t
  | ISplit t _ sep r =>
      ord lo (Some (kz sep)) t /\ ord (Some (kz sep)) hi r /\
      shape c false h t /\ shape c false h r /\
      lo_lt lo (kz sep) /\ hi_ok hi (kz sep)
  end.

Definition tree_post (c : nat) (isroot : bool) (h : nat) (lo hi : option Z) (t : ptree)
           (k : key) (v : V) (ir : ins_res) : Prop :=
  res_ord_shape c isroot h lo hi ir /\
  res_contents ir = m_insert (contents t) k v /\
  res_old ir = m_get (contents t) (kz k) /\
  links_ext (leaf_links t) (res_links ir).

Definition lmeta_post (lm lm' : ameta) (ids' : list N) : Prop :=
  meta_ok lm' ids' /\
  length (m_mask lm) <= length (m_mask lm') /\
  length (m_mask lm') <= S (length (m_mask lm)) /\
  length (m_mask lm') <= Nat.max (length (m_mask lm)) (length ids').

Definition bmeta_post (bm bm' : ameta) (ids' : list N) (n : nat) : Prop :=
  meta_ok bm' ids' /\
  length (m_mask bm) <= length (m_mask bm') /\
  length (m_mask bm') <= length (m_mask bm) + n /\
  length (m_mask bm') <= Nat.max (length (m_mask bm)) (length ids').

(* ---------------- leaves ---------------- *)

(* cutting a sorted, bounded key list at position p *)
Lemma leaf_split_at : forall lo hi (K : list key) (VV : list V) p sep id1 id2 c nx1 nx2,
  sorted_keys K -> Forall (in_bounds lo hi) K -> 0 < p -> nth_error K p = Some sep ->
  ord lo (Some (kz sep)) (PLeaf id1 c (firstn p K) (firstn p VV) nx1) /\
  ord (Some (kz sep)) hi (PLeaf id2 c (skipn p K) (skipn p VV) nx2) /\
  lo_lt lo (kz sep) /\ hi_ok hi (kz sep).
Proof.
  intros lo hi K VV p sep id1 id2 c nx1 nx2 Hs F Hp Hn.
  pose proof (skipn_nth_cons _ _ Hn) as Hsk.
  pose proof Hs as Hs'. rewrite <- (firstn_skipn p K) in Hs'.
  apply sorted_keys_app in Hs'. destruct Hs' as (S1 & S2 & S3).
  assert (Hsep : In sep (skipn p K)) by (rewrite Hsk; left; auto).
  rewrite Forall_forall in F.
  assert (Bsep : in_bounds lo hi sep) by (apply F; eapply In_skipn; eauto).
  repeat split.
  - constructor; auto. apply Forall_forall. intros x Hx. split.
    + apply (F x). eapply In_firstn; eauto.
    + cbn. apply S3; auto.
  - constructor; auto. apply Forall_forall. intros x Hx. split.
    + cbn. rewrite Hsk in Hx. destruct Hx as [<-|Hx]; [lia|].
      rewrite Hsk in S2. apply sorted_keys_cons in S2. destruct S2 as [_ S2].
      apply Z.lt_le_incl. apply S2; auto.
    + apply (F x). eapply In_skipn; eauto.
  - destruct K as [|k0 K']; [destruct p; discriminate|].
    destruct p; [lia|]. assert (B0 : in_bounds lo hi k0) by (apply F; left; auto).
    assert (kz k0 < kz sep)%Z by (apply S3; [left; auto|auto]).
    destruct B0 as [B0 _]. unfold lo_lt, lo_ok in *. destruct lo; auto. lia.
  - apply Bsep.
Qed.

Lemma ins_leaf_split_eq : forall lm lm' rid id c ks (vs : list V) next k v,
  4 <= c -> length ks = c -> length vs = c -> bfound ks (kz k) = false ->
  m_alloc lm = Ok (lm', rid) ->
  let K := insert_at (lb ks (kz k)) k ks in
  let VV := insert_at (lb ks (kz k)) v vs in
  exists p sep,
    ins_leaf lm id c ks vs next k v =
      Ok (lm', ISplit (PLeaf id c (firstn p K) (firstn p VV) rid) None sep
                      (PLeaf rid c (skipn p K) (skipn p VV) next)) /\
    nth_error K p = Some sep /\ c / 2 <= p /\ p <= c /\ c / 2 <= S c - p /\ S c - p <= c.
Proof.
  intros lm lm' rid id c ks vs next k v Hc Lk Lv Ef Ea K VV.
  pose proof (lb_le_length ks (kz k)) as Hi.
  pose proof (half_facts Hc) as (G1 & G2 & G3 & G4).
  pose proof (split_mid_bounds Hc) as Hmid. cbv zeta in Hmid.
  unfold ins_leaf. rewrite Ef, Lk.
  destruct (Nat.leb_spec c c) as [_|]; [|lia]. cbn [negb].
  unfold usub. destruct (Nat.leb_spec (c / 2) c) as [_|]; [|lia]. cbn [bind].
  set (mid := Nat.min (Nat.max ((c + 1) / 2) (c / 2)) (c - c / 2)) in *.
  destruct Hmid as [M1 M2].
  rewrite !vec_split_off_ok by lia. cbn [bind]. rewrite Ea. cbn [bind].
  rewrite firstn_length, Lk, Nat.min_l by lia.
  set (i := lb ks (kz k)) in *.
  destruct (nth_error ks mid) as [sep|] eqn:En; [|apply nth_error_None in En; lia].
  pose proof (skipn_nth_cons _ _ En) as Hsk.
  destruct (Nat.leb_spec i mid) as [Hle|Hgt].
  - rewrite !vec_insert_ok by (rewrite firstn_length; lia). cbn [bind].
    rewrite Hsk. exists (S mid), sep. split; [|split].
    + unfold K, VV. rewrite !firstn_S_insert_at, !skipn_S_insert_at by lia.
      rewrite Hsk. reflexivity.
    + unfold K. rewrite nth_error_insert_at_gt by lia. rewrite <- En. f_equal. lia.
    + lia.
  - rewrite !vec_insert_ok by (rewrite skipn_length; lia). cbn [bind].
    exists mid, sep. split; [|split].
    + unfold K, VV. rewrite !firstn_insert_at_le, !skipn_insert_at_ge by lia.
      rewrite Hsk. destruct (i - mid) eqn:Ed; [lia|]. reflexivity.
    + unfold K. rewrite nth_error_insert_at_lt by lia. auto.
    + lia.
Qed.

Lemma ins_leaf_spec : forall lm id ks vs next k v c isroot lo hi ctxL,
  4 <= c -> ord lo hi (PLeaf id c ks vs next) -> shape c isroot 0 (PLeaf id c ks vs next) ->
  in_bounds lo hi k -> meta_ok lm (id :: ctxL) -> room lm 1 ->
  exists lm' ir, ins_leaf lm id c ks vs next k v = Ok (lm', ir) /\
    tree_post c isroot 0 lo hi (PLeaf id c ks vs next) k v ir /\
    lmeta_post lm lm' (map fst (res_links ir) ++ ctxL) /\ res_bids ir = [].
Proof.
  intros lm id ks vs next k v c isroot lo hi ctxL Hc O Sh B MO R.
  destruct (ord_leaf_inv O) as (Hs & F).
  destruct (shape_leaf_inv Sh) as (_ & _ & Lv & Lc & Lmin).
  pose proof (lb_le_length ks (kz k)) as Hi.
  destruct (bfound ks (kz k)) eqn:Ef.
  - (* update in place *)
    destruct (bfound_true _ _ Ef) as (k0 & Hk0 & Hz).
    assert (lb ks (kz k) < length ks) by (apply nth_error_Some; congruence).
    destruct (nth_error vs (lb ks (kz k))) as [old|] eqn:Ev;
      [|apply nth_error_None in Ev; lia].
    exists lm, (IUpd (PLeaf id c ks (set_nth (lb ks (kz k)) v vs) next) (Some old)).
    split; [unfold ins_leaf; rewrite Ef, Ev; reflexivity|].
    split; [|split].
    + split; [|split; [|split]]; cbn.
      * split; [constructor; auto|]. constructor; auto. rewrite length_set_nth; auto.
      * apply leaf_insert_existing; auto.
      * rewrite leaf_get by auto. rewrite Ef. auto.
      * apply links_ext_refl.
    + cbn. repeat split; auto; try apply MO; lia.
    + reflexivity.
  - destruct (Nat.lt_ge_cases (length ks) c) as [Hlt|Hge].
    + (* plain insert *)
      exists lm, (IUpd (PLeaf id c (insert_at (lb ks (kz k)) k ks)
                              (insert_at (lb ks (kz k)) v vs) next) None).
      split.
      { unfold ins_leaf. rewrite Ef. destruct (Nat.leb_spec c (length ks)); [lia|].
        cbn [negb]. rewrite !vec_insert_ok by lia. reflexivity. }
      split; [|split].
      * split; [|split; [|split]]; cbn.
        -- split.
           ++ constructor; [apply sorted_keys_insert_at_lb; auto|apply Forall_insert_at; auto].
           ++ constructor; rewrite ?length_insert_at by lia; try lia.
              intros E. specialize (Lmin E). lia.
        -- apply leaf_insert_new; auto.
        -- rewrite leaf_get by auto. rewrite Ef. auto.
        -- apply links_ext_refl.
      * cbn. repeat split; auto; try apply MO; lia.
      * reflexivity.
    + (* split *)
      assert (Lk : length ks = c) by lia.
      destruct (m_alloc_ok MO R) as (lm' & rid & Ea & Hfresh & Hnn & MO' & L1 & L2 & L3).
      destruct (@ins_leaf_split_eq lm lm' rid id c ks vs next k v Hc Lk (eq_trans Lv Lk) Ef Ea)
        as (p & sep & Eq & Hn & P1 & P2 & P3 & P4).
      cbv zeta in Eq, Hn.
      set (K := insert_at (lb ks (kz k)) k ks) in *.
      set (VV := insert_at (lb ks (kz k)) v vs) in *.
      pose proof (half_facts Hc) as (G1 & G2 & G3 & G4).
      assert (LK : length K = S c) by (unfold K; rewrite length_insert_at; lia).
      assert (LV : length VV = S c) by (unfold VV; rewrite length_insert_at; lia).
      assert (SK : sorted_keys K) by (apply sorted_keys_insert_at_lb; auto).
      assert (FK : Forall (in_bounds lo hi) K) by (apply Forall_insert_at; auto).
      eexists _, _. split; [exact Eq|].
      destruct (@leaf_split_at lo hi K VV p sep id rid c rid next SK FK ltac:(lia) Hn)
        as (O1 & O2 & O3 & O4).
      split; [|split].
      * split; [|split; [|split]]; cbn.
        -- repeat split; auto.
           ++ constructor; rewrite ?firstn_length; try lia.
           ++ constructor; rewrite ?skipn_length; try lia.
        -- rewrite <- combine_firstn_skipn. apply leaf_insert_new; auto.
        -- rewrite leaf_get by auto. rewrite Ef. auto.
        -- apply links_ext_split.
      * cbn. split; [|split; [|split]]; try lia.
        -- eapply meta_ok_perm; [exact MO'|]. apply perm_swap.
        -- cbn [length] in *. lia.
      * reflexivity.
Qed.

End Local.

(* ------------------------------------------------------------------ *)
(* child bounds under key-list surgery *)

Lemma lo_lt_ok : forall lo z, lo_lt lo z -> lo_ok lo z.
Proof. unfold lo_lt, lo_ok. intros [l|] z; auto. lia. Qed.

Lemma child_bounds_insert : forall ks lo hi ci sep j, ci <= length ks ->
  child_bounds (insert_at ci sep ks) lo hi j =
    if j <? ci then child_bounds ks lo hi j
    else if j =? ci then (fst (child_bounds ks lo hi ci), Some (kz sep))
    else if j =? S ci then (Some (kz sep), snd (child_bounds ks lo hi ci))
    else child_bounds ks lo hi (j - 1).
Proof.
  intros ks lo hi ci sep j Hci. unfold child_bounds. rewrite length_insert_at by auto.
  cbn [fst snd].
  destruct (Nat.ltb_spec j ci) as [H1|H1].
  { f_equal.
    - destruct (Nat.eqb_spec j 0); auto. rewrite nth_error_insert_at_lt by lia. auto.
    - destruct (Nat.eqb_spec j (S (length ks))); [lia|].
      destruct (Nat.eqb_spec j (length ks)); [lia|].
      rewrite nth_error_insert_at_lt by lia. auto. }
  destruct (Nat.eqb_spec j ci) as [->|H2].
  { f_equal.
    - destruct (Nat.eqb_spec ci 0); auto. rewrite nth_error_insert_at_lt by lia. auto.
    - destruct (Nat.eqb_spec ci (S (length ks))); [lia|].
      rewrite nth_error_insert_at_eq by lia. auto. }
  destruct (Nat.eqb_spec j (S ci)) as [->|H3].
  { f_equal.
    - cbn [Nat.eqb]. replace (S ci - 1) with ci by lia.
      rewrite nth_error_insert_at_eq by lia. auto.
    - cbn [Nat.eqb]. destruct (Nat.eqb_spec ci (length ks)); auto.
      rewrite nth_error_insert_at_gt by lia. replace (S ci - 1) with ci by lia. auto. }
  f_equal.
  - destruct (Nat.eqb_spec j 0); [lia|]. destruct (Nat.eqb_spec (j - 1) 0); [lia|].
    rewrite nth_error_insert_at_gt by lia. auto.
  - destruct (Nat.eqb_spec j (S (length ks))); destruct (Nat.eqb_spec (j - 1) (length ks)); try lia; auto.
    rewrite nth_error_insert_at_gt by lia. auto.
Qed.

Lemma child_bounds_firstn : forall ks lo hi m p j, nth_error ks m = Some p -> j <= m ->
  child_bounds (firstn m ks) lo (Some (kz p)) j = child_bounds ks lo hi j.
Proof.
  intros ks lo hi m p j Hp Hj.
  assert (m < length ks) by (apply nth_error_Some; congruence).
  unfold child_bounds. rewrite firstn_length, Nat.min_l by lia. f_equal.
  - destruct (Nat.eqb_spec j 0); auto. rewrite nth_error_firstn_lt by lia. auto.
  - destruct (Nat.eqb_spec j (length ks)); [lia|].
    destruct (Nat.eqb_spec j m) as [->|].
    + rewrite Hp. auto.
    + rewrite nth_error_firstn_lt by lia. auto.
Qed.

Lemma child_bounds_skipn : forall ks lo hi m p j, nth_error ks m = Some p ->
  child_bounds (skipn (S m) ks) (Some (kz p)) hi j = child_bounds ks lo hi (S m + j).
Proof.
  intros ks lo hi m p j Hp.
  assert (m < length ks) by (apply nth_error_Some; congruence).
  unfold child_bounds. rewrite skipn_length. f_equal.
  - destruct (Nat.eqb_spec (S m + j) 0); [lia|].
    destruct (Nat.eqb_spec j 0) as [->|].
    + replace (S m + 0 - 1) with m by lia. rewrite Hp. auto.
    + rewrite nth_error_skipn_add. replace (S m + (j - 1)) with (S m + j - 1) by lia. auto.
  - destruct (Nat.eqb_spec j (length ks - S m)); destruct (Nat.eqb_spec (S m + j) (length ks)); try lia; auto.
    rewrite nth_error_skipn_add. auto.
Qed.

(* ------------------------------------------------------------------ *)
Section Local2.
Variable V : Type.
Notation ptree := (ptree V).
Notation ins_res := (ins_res V).

Lemma ord_set_child : forall lo hi id c ks (cs : list ptree) ci c',
  ord lo hi (PBranch id c ks cs) ->
  ord (fst (child_bounds ks lo hi ci)) (snd (child_bounds ks lo hi ci)) c' ->
  ord lo hi (PBranch id c ks (set_nth ci c' cs)).
Proof.
  intros lo hi id c ks cs ci c' O Oc. destruct (ord_branch_inv O) as (Hs & F & Hc).
  constructor; auto. intros i ch Hn.
  destruct (Nat.eq_dec ci i) as [->|ne].
  - destruct (Nat.lt_ge_cases i (length cs)).
    + rewrite nth_error_set_nth_same in Hn by auto. inversion Hn; subst; auto.
    + rewrite set_nth_out in Hn by auto. auto.
  - rewrite nth_error_set_nth_other in Hn by auto. auto.
Qed.

Lemma ord_branch_insert : forall lo hi id c ks (cs : list ptree) ci sep c' r,
  ord lo hi (PBranch id c ks cs) -> length cs = S (length ks) -> ci <= length ks ->
  ord (fst (child_bounds ks lo hi ci)) (Some (kz sep)) c' ->
  ord (Some (kz sep)) (snd (child_bounds ks lo hi ci)) r ->
  lo_lt (fst (child_bounds ks lo hi ci)) (kz sep) ->
  hi_ok (snd (child_bounds ks lo hi ci)) (kz sep) ->
  ord lo hi (PBranch id c (insert_at ci sep ks) (insert_at (S ci) r (set_nth ci c' cs))).
Proof.
  intros lo hi id c ks cs ci sep c' r O Lc Hci O1 O2 B1 B2.
  destruct (ord_branch_inv O) as (Hs & F & Hc).
  assert (HA : forall a, In a (firstn ci ks) -> (kz a < kz sep)%Z).
  { intros a Ha. apply In_nth_error in Ha. destruct Ha as (j & Hj).
    assert (j < ci).
    { destruct (Nat.lt_ge_cases j ci); auto. rewrite nth_error_firstn_ge in Hj by auto. discriminate. }
    rewrite nth_error_firstn_lt in Hj by auto.
    unfold child_bounds in B1. cbn [fst] in B1.
    destruct (Nat.eqb_spec ci 0); [lia|].
    destruct (nth_error ks (ci - 1)) as [kk|] eqn:Ek; [|apply nth_error_None in Ek; lia].
    cbn in B1. assert (kz a <= kz kk)%Z; [|lia].
    apply (@sorted_keys_nth_le ks j (ci - 1) a kk); auto. lia. }
  assert (HB : forall b, In b (skipn ci ks) -> (kz sep < kz b)%Z).
  { intros b Hb. apply In_nth_error in Hb. destruct Hb as (j & Hj).
    rewrite nth_error_skipn_add in Hj.
    assert (ci + j < length ks) by (apply nth_error_Some; congruence).
    unfold child_bounds in B2. cbn [snd] in B2.
    destruct (Nat.eqb_spec ci (length ks)); [lia|].
    destruct (nth_error ks ci) as [kk|] eqn:Ek; [|apply nth_error_None in Ek; lia].
    cbn in B2. assert (kz kk <= kz b)%Z; [|lia].
    apply (@sorted_keys_nth_le ks ci (ci + j) kk b); auto. lia. }
  destruct (@child_bounds_within ks lo hi ci F Hci) as [W1 W2].
  constructor.
  - rewrite insert_at_app by auto. apply sorted_keys_app. split; [apply sorted_keys_firstn; auto|].
    split.
    + apply sorted_keys_cons. split; [apply sorted_keys_skipn; auto|auto].
    + intros a b Ha [<-|Hb]; auto. specialize (HA a Ha). specialize (HB b Hb). lia.
  - apply Forall_insert_at; auto. split; [apply W1; apply lo_lt_ok; auto|apply W2; auto].
  - intros j ch Hn. rewrite child_bounds_insert by auto.
    assert (Ls : length (set_nth ci c' cs) = length cs) by apply length_set_nth.
    destruct (Nat.ltb_spec j ci) as [H1|H1].
    { rewrite nth_error_insert_at_lt in Hn by lia.
      rewrite nth_error_set_nth_other in Hn by lia. auto. }
    destruct (Nat.eqb_spec j ci) as [->|H2].
    { rewrite nth_error_insert_at_lt in Hn by lia.
      rewrite nth_error_set_nth_same in Hn by lia. inversion Hn; subst. auto. }
    destruct (Nat.eqb_spec j (S ci)) as [->|H3].
    { rewrite nth_error_insert_at_eq in Hn by lia. inversion Hn; subst. auto. }
    rewrite nth_error_insert_at_gt in Hn by lia.
    rewrite nth_error_set_nth_other in Hn by lia. auto.
Qed.

Lemma ord_branch_split : forall lo hi id c ks (cs : list ptree) m p id1 c1 id2 c2,
  ord lo hi (PBranch id c ks cs) -> length cs = S (length ks) ->
  nth_error ks m = Some p -> 0 < m ->
  ord lo (Some (kz p)) (PBranch id1 c1 (firstn m ks) (firstn (S m) cs)) /\
  ord (Some (kz p)) hi (PBranch id2 c2 (skipn (S m) ks) (skipn (S m) cs)) /\
  lo_lt lo (kz p) /\ hi_ok hi (kz p).
Proof.
  intros lo hi id c ks cs m p id1 c1 id2 c2 O Lc Hp Hm.
  destruct (ord_branch_inv O) as (Hs & F & Hc).
  assert (m < length ks) by (apply nth_error_Some; congruence).
  rewrite Forall_forall in F.
  assert (Bp : in_bounds lo hi p) by (apply F; eapply nth_error_In; eauto).
  split; [|split; [|split]].
  - constructor.
    + apply sorted_keys_firstn; auto.
    + apply Forall_forall. intros a Ha. split; [apply F; eapply In_firstn; eauto|].
      cbn. apply In_nth_error in Ha. destruct Ha as (j & Hj).
      assert (j < m).
      { destruct (Nat.lt_ge_cases j m); auto. rewrite nth_error_firstn_ge in Hj by auto. discriminate. }
      rewrite nth_error_firstn_lt in Hj by auto.
      apply (@sorted_keys_nth_lt ks j m a p); auto.
    + intros j ch Hn.
      assert (j < S m).
      { destruct (Nat.lt_ge_cases j (S m)); auto. rewrite nth_error_firstn_ge in Hn by auto. discriminate. }
      rewrite nth_error_firstn_lt in Hn by auto.
      rewrite (@child_bounds_firstn ks lo hi m p j Hp) by lia. auto.
  - constructor.
    + apply sorted_keys_skipn; auto.
    + apply Forall_forall. intros a Ha. split; [|apply F; eapply In_skipn; eauto].
      cbn. apply In_nth_error in Ha. destruct Ha as (j & Hj).
      rewrite nth_error_skipn_add in Hj. apply Z.lt_le_incl.
      apply (@sorted_keys_nth_lt ks m (S m + j) p a); auto. lia.
    + intros j ch Hn. rewrite nth_error_skipn_add in Hn.
      rewrite (@child_bounds_skipn ks lo hi m p j Hp). auto.
  - destruct (nth_error ks 0) as [k0|] eqn:E0; [|apply nth_error_None in E0; lia].
    assert (kz k0 < kz p)%Z by (apply (@sorted_keys_nth_lt ks 0 m k0 p); auto).
    assert (B0 : in_bounds lo hi k0) by (apply F; eapply nth_error_In; eauto).
    destruct B0 as [B0 _]. unfold lo_lt, lo_ok in *. destruct lo; auto. lia.
  - apply Bp.
Qed.

(* ---------------- realize ---------------- *)
Lemma realize_spec : forall bm (rgt : ptree) pre ctx,
  meta_ok bm (pre ++ sub_bids rgt ++ ctx) -> room bm 1 ->
  exists bm2 rid, realize bm rgt = Ok (bm2, with_id rgt rid) /\
    bmeta_post bm bm2 (pre ++ branch_ids (with_id rgt rid) ++ ctx) 1.
Proof.
  intros bm rgt pre ctx MO R. destruct rgt as [id c ks vs nx | id c ks cs].
  - exists bm, 0%N. split; [reflexivity|]. cbn [with_id branch_ids sub_bids app] in *.
    split; [auto|]. lia.
  - destruct (m_alloc_ok MO R) as (bm2 & rid & Ea & _ & _ & MO' & L1 & L2 & L3).
    exists bm2, rid. split; [cbn [realize]; rewrite Ea; reflexivity|].
    cbn [with_id branch_ids sub_bids] in *. split; [|split; [|split]]; try lia.
    + eapply meta_ok_perm; [exact MO'|]. apply Permutation_middle.
    + rewrite !app_length in *. cbn [app length]. rewrite ?app_length. lia.
Qed.

(* ---------------- insert_child_and_split_if_needed ---------------- *)
Lemma ins_branch_child_eq : forall id c ks (cs1 : list ptree) ci sep newc old,
  4 <= c -> ci <= length ks -> length cs1 = S (length ks) -> length ks <= c ->
  let ks2 := insert_at ci sep ks in
  let cs2 := insert_at (S ci) newc cs1 in
  (length ks < c ->
     ins_branch_child id c ks cs1 ci sep newc old = Ok (IUpd (PBranch id c ks2 cs2) old)) /\
  (length ks = c -> exists p, nth_error ks2 (c / 2) = Some p /\
     ins_branch_child id c ks cs1 ci sep newc old =
       Ok (ISplit (PBranch id c (firstn (c / 2) ks2) (firstn (S (c / 2)) cs2)) old p
                  (PBranch NULL c (skipn (S (c / 2)) ks2) (skipn (S (c / 2)) cs2)))).
Proof.
  intros id c ks cs1 ci sep newc old Hc Hci Lc Lk ks2 cs2.
  pose proof (half_facts Hc) as (G1 & G2 & G3 & G4).
  assert (L2 : length ks2 = S (length ks)) by (unfold ks2; apply length_insert_at; auto).
  assert (L3 : length cs2 = S (length cs1)) by (unfold cs2; apply length_insert_at; lia).
  unfold ins_branch_child. rewrite !vec_insert_ok by lia. cbn [bind]. fold ks2 cs2. split.
  - intros Hlt. destruct (Nat.leb_spec c (length ks)); [lia|]. reflexivity.
  - intros He. destruct (Nat.leb_spec c (length ks)); [|lia].
    destruct (nth_error ks2 (c / 2)) as [p|] eqn:Ep; [|apply nth_error_None in Ep; lia].
    exists p. split; auto. rewrite (vec_get_ok _ _ _ Ep). cbn [bind].
    rewrite !vec_split_off_ok by lia. cbn [bind].
    rewrite removelast_firstn_S by lia. reflexivity.
Qed.

End Local2.
