(* No reader (on ANY heap, damaged or not, and ANY iterator state) and no mutator (on ANY
   model state) can reach the outcome [UB]: the only unchecked access reachable from safe
   code (try_get_next_item) is guarded by  idx < keys.len() && idx < values.len(). *)
From BPT Require Import Common.Base Rust.Arena Rust.Tree Rust.Heap Rust.Readers Rust.Run.
Set Implicit Arguments.

Section NoUB.
Variable V : Type.

Definition no_ub {A} (r : res A) : Prop := forall site, r <> UB site.

Lemma no_ub_ok : forall A (a : A), no_ub (Ok a).
Proof. intros A a site; discriminate. Qed.
Lemma no_ub_panic : forall A s, no_ub (@Panic A s).
Proof. intros A s site; discriminate. Qed.
Lemma no_ub_fuel : forall A, no_ub (@OutOfFuel A).
Proof. intros A site; discriminate. Qed.

Lemma no_ub_bind : forall A B (r : res A) (f : A -> res B),
  no_ub r -> (forall a, no_ub (f a)) -> no_ub (bind r f).
Proof.
  intros A B r f Hr Hf. destruct r as [a|s| |s]; cbn [bind].
  - apply Hf.
  - apply no_ub_panic.
  - apply no_ub_fuel.
  - exfalso. exact (Hr s eq_refl).
Qed.

(* ---------- folds over lists of results ---------- *)
Lemma fold_no_ub : forall A B (g : res A -> res B -> res A),
  (forall acc r, no_ub acc -> no_ub r -> no_ub (g acc r)) ->
  forall l acc, no_ub acc -> (forall r, In r l -> no_ub r) -> no_ub (fold_left g l acc).
Proof.
  intros A B g Hg l. induction l as [|x l IH]; intros acc Hacc Hl; cbn [fold_left].
  - exact Hacc.
  - apply IH.
    + apply Hg; [exact Hacc | apply Hl; left; reflexivity].
    + intros r Hr. apply Hl. right. exact Hr.
Qed.

Lemma in_map_no_ub : forall X A (g : X -> res A) (l : list X),
  (forall x, no_ub (g x)) -> forall r, In r (map g l) -> no_ub r.
Proof.
  intros X A g l Hg r Hin. apply in_map_iff in Hin. destruct Hin as [x [Hx _]].
  subst r. apply Hg.
Qed.

Hint Resolve no_ub_ok no_ub_panic no_ub_fuel : noub.

(* the structural tactic: walks through binds, matches, ifs and lets *)
Ltac noub_step :=
  first
    [ apply no_ub_ok | apply no_ub_panic | apply no_ub_fuel
    | assumption
    | progress cbv beta zeta
    | match goal with
      | |- no_ub (bind _ _) => apply no_ub_bind; [ | intros ]
      end
    | solve [auto with noub]
    | match goal with
      | |- no_ub (match ?x with _ => _ end) => destruct x
      end ].
Ltac noub := repeat noub_step.

Lemma sum_res_map_no_ub : forall X (g : X -> res nat) l,
  (forall x, no_ub (g x)) -> no_ub (sum_res (map g l)).
Proof.
  intros X g l Hg. unfold sum_res. apply fold_no_ub.
  - intros acc r Ha Hr. noub.
  - apply no_ub_ok.
  - apply in_map_no_ub. exact Hg.
Qed.

Lemma pair_sum_map_no_ub : forall X (g : X -> res (nat * nat)) l init,
  (forall x, no_ub (g x)) -> no_ub (pair_sum (map g l) init).
Proof.
  intros X g l init Hg. unfold pair_sum. apply fold_no_ub.
  - intros acc r Ha Hr. noub.
  - apply no_ub_ok.
  - apply in_map_no_ub. exact Hg.
Qed.

Lemma concat_res_map_no_ub : forall X A (g : X -> res (list A)) l,
  (forall x, no_ub (g x)) -> no_ub (concat_res (map g l)).
Proof.
  intros X A g l Hg. unfold concat_res. apply fold_no_ub.
  - intros acc r Ha Hr. noub.
  - apply no_ub_ok.
  - apply in_map_no_ub. exact Hg.
Qed.

Lemma all_res_map_no_ub : forall X (g : X -> res bool) l,
  (forall x, no_ub (g x)) -> no_ub (all_res (map g l)).
Proof.
  intros X g l Hg. unfold all_res. apply fold_no_ub.
  - intros acc r Ha Hr. noub.
  - apply no_ub_ok.
  - apply in_map_no_ub. exact Hg.
Qed.

Hint Resolve sum_res_map_no_ub pair_sum_map_no_ub concat_res_map_no_ub : noub.

(* ---------- descents and counters ---------- *)
Lemma h_find_no_ub : forall fuel (h : heap V) r z, no_ub (h_find fuel h r z).
Proof. induction fuel as [|f IH]; intros h r z; cbn [h_find]; noub. Qed.
Hint Resolve h_find_no_ub : noub.

Lemma find_leaf_no_ub : forall (h : heap V) z, no_ub (find_leaf_for_key_with_match h z).
Proof. intros h z. unfold find_leaf_for_key_with_match. noub. Qed.
Hint Resolve find_leaf_no_ub : noub.

Lemma h_get_no_ub : forall (h : heap V) z, no_ub (h_get h z).
Proof. intros h z. unfold h_get. noub. Qed.
Hint Resolve h_get_no_ub : noub.

Lemma h_contains_no_ub : forall (h : heap V) z, no_ub (h_contains h z).
Proof. intros h z. unfold h_contains. noub. Qed.

Lemma h_get_or_default_no_ub : forall (h : heap V) z d, no_ub (h_get_or_default h z d).
Proof. intros h z d. unfold h_get_or_default. noub. Qed.
Hint Resolve h_contains_no_ub h_get_or_default_no_ub : noub.

Lemma h_first_no_ub : forall fuel (h : heap V) r, no_ub (h_first fuel h r).
Proof. induction fuel as [|f IH]; intros h r; cbn [h_first]; noub. Qed.
Hint Resolve h_first_no_ub : noub.

Lemma get_first_leaf_id_no_ub : forall (h : heap V), no_ub (get_first_leaf_id h).
Proof. intros h. unfold get_first_leaf_id. noub. Qed.
Hint Resolve get_first_leaf_id_no_ub : noub.

Lemma h_len_no_ub : forall fuel (h : heap V) r, no_ub (h_len fuel h r).
Proof. induction fuel as [|f IH]; intros h r; cbn [h_len]; noub. Qed.
Hint Resolve h_len_no_ub : noub.

Lemma len_no_ub : forall (h : heap V), no_ub (len h).
Proof. intros h. unfold len. noub. Qed.
Hint Resolve len_no_ub : noub.

Lemma is_empty_no_ub : forall (h : heap V), no_ub (is_empty h).
Proof. intros h. unfold is_empty. noub. Qed.
Hint Resolve is_empty_no_ub : noub.

Lemma h_leaf_count_no_ub : forall fuel (h : heap V) r, no_ub (h_leaf_count fuel h r).
Proof. induction fuel as [|f IH]; intros h r; cbn [h_leaf_count]; noub. Qed.
Hint Resolve h_leaf_count_no_ub : noub.

Lemma leaf_count_no_ub : forall (h : heap V), no_ub (leaf_count h).
Proof. intros h. unfold leaf_count. noub. Qed.
Hint Resolve leaf_count_no_ub : noub.

Lemma h_count_nodes_no_ub : forall fuel (h : heap V) r, no_ub (h_count_nodes fuel h r).
Proof. induction fuel as [|f IH]; intros h r; cbn [h_count_nodes]; noub. Qed.
Hint Resolve h_count_nodes_no_ub : noub.

Lemma count_nodes_in_tree_no_ub : forall (h : heap V), no_ub (count_nodes_in_tree h).
Proof. intros h. unfold count_nodes_in_tree. noub. Qed.
Hint Resolve count_nodes_in_tree_no_ub : noub.

Lemma h_leaf_sizes_no_ub : forall fuel (h : heap V) r, no_ub (h_leaf_sizes fuel h r).
Proof. induction fuel as [|f IH]; intros h r; cbn [h_leaf_sizes]; noub. Qed.
Hint Resolve h_leaf_sizes_no_ub : noub.

Lemma leaf_sizes_no_ub : forall (h : heap V), no_ub (leaf_sizes h).
Proof. intros h. unfold leaf_sizes. noub. Qed.
Hint Resolve leaf_sizes_no_ub : noub.

Lemma h_leaf_ids_no_ub : forall fuel (h : heap V) r, no_ub (h_leaf_ids fuel h r).
Proof. induction fuel as [|f IH]; intros h r; cbn [h_leaf_ids]; noub. Qed.
Hint Resolve h_leaf_ids_no_ub : noub.

Lemma collect_leaf_ids_no_ub : forall (h : heap V), no_ub (collect_leaf_ids h).
Proof. intros h. unfold collect_leaf_ids. noub. Qed.
Hint Resolve collect_leaf_ids_no_ub : noub.

(* ---------- ItemIterator: the one unchecked access ---------- *)
Theorem try_get_no_ub : forall (s : iter V) (l : leaf V), no_ub (try_get s l).
Proof.
  intros s l. unfold try_get.
  destruct (Nat.leb_spec (length (lkeys l)) (it_idx s)) as [Hk|Hk];
    destruct (Nat.leb_spec (length (lvals l)) (it_idx s)) as [Hv|Hv];
    cbn [orb]; try apply no_ub_ok.
  destruct (nth_error (lkeys l) (it_idx s)) as [k|] eqn:Ek.
  - destruct (nth_error (lvals l) (it_idx s)) as [v|] eqn:Ev.
    + noub.
    + exfalso. apply nth_error_None in Ev. lia.
  - exfalso. apply nth_error_None in Ek. lia.
Qed.
Hint Resolve try_get_no_ub : noub.

Theorem item_next_f_no_ub : forall fuel (h : heap V) s, no_ub (item_next_f fuel h s).
Proof. induction fuel as [|f IH]; intros h s; cbn [item_next_f]; noub. Qed.
Hint Resolve item_next_f_no_ub : noub.

Theorem item_next_no_ub : forall (h : heap V) s, no_ub (item_next h s).
Proof. intros h s. unfold item_next. noub. Qed.
Hint Resolve item_next_no_ub : noub.

Lemma item_new_no_ub : forall (h : heap V), no_ub (item_new h).
Proof. intros h. unfold item_new. noub. Qed.
Hint Resolve item_new_no_ub : noub.

(* ---------- FastItemIterator ---------- *)
Lemma fast_next_f_no_ub : forall fuel (h : heap V) s, no_ub (fast_next_f fuel h s).
Proof. induction fuel as [|f IH]; intros h s; cbn [fast_next_f]; noub. Qed.
Hint Resolve fast_next_f_no_ub : noub.

Theorem fast_next_no_ub : forall (h : heap V) s, no_ub (fast_next h s).
Proof. intros h s. unfold fast_next. noub. Qed.
Hint Resolve fast_next_no_ub : noub.

Lemma fast_new_no_ub : forall (h : heap V), no_ub (fast_new h).
Proof. intros h. unfold fast_new. noub. Qed.
Hint Resolve fast_new_no_ub : noub.

(* ---------- RangeIterator ---------- *)
Theorem range_next_no_ub : forall (h : heap V) s, no_ub (range_next h s).
Proof. intros h s. unfold range_next. noub. Qed.
Hint Resolve range_next_no_ub : noub.

Lemma resolve_range_bounds_no_ub : forall (h : heap V) lo hi,
  no_ub (resolve_range_bounds h lo hi).
Proof. intros h lo hi. unfold resolve_range_bounds. noub. Qed.
Hint Resolve resolve_range_bounds_no_ub : noub.

Lemma range_no_ub : forall (h : heap V) lo hi, no_ub (range h lo hi).
Proof. intros h lo hi. unfold range. noub. Qed.
Hint Resolve range_no_ub : noub.

Lemma items_range_no_ub : forall (h : heap V) s e, no_ub (items_range h s e).
Proof. intros h s e. unfold items_range. noub. Qed.
Hint Resolve items_range_no_ub : noub.

(* ---------- draining ---------- *)
Theorem take_n_no_ub : forall S' (next : S' -> res (S' * option (key * V))) n s,
  (forall s, no_ub (next s)) -> no_ub (take_n next n s).
Proof.
  intros S' next n. induction n as [|n IH]; intros s Hn; cbn [take_n]; noub.
Qed.

Theorem collect_f_no_ub : forall S' (next : S' -> res (S' * option (key * V))) fuel s,
  (forall s, no_ub (next s)) -> no_ub (collect_f next fuel s).
Proof.
  intros S' next fuel. induction fuel as [|f IH]; intros s Hn; cbn [collect_f]; noub.
Qed.
Hint Resolve take_n_no_ub collect_f_no_ub : noub.

Lemma items_no_ub : forall (h : heap V), no_ub (items h).
Proof. intros h. unfold items. noub. Qed.
Hint Resolve items_no_ub : noub.

Lemma items_fast_no_ub : forall (h : heap V), no_ub (items_fast h).
Proof. intros h. unfold items_fast. noub. Qed.
Hint Resolve items_fast_no_ub : noub.

Lemma keys_no_ub : forall (h : heap V), no_ub (keys h).
Proof. intros h. unfold keys. noub. Qed.
Hint Resolve keys_no_ub : noub.

Lemma values_no_ub : forall (h : heap V), no_ub (values h).
Proof. intros h. unfold values. noub. Qed.
Hint Resolve values_no_ub : noub.

Lemma slice_no_ub : forall (h : heap V), no_ub (slice h).
Proof. intros h. unfold slice. noub. Qed.

Lemma first_no_ub : forall (h : heap V), no_ub (first h).
Proof. intros h. unfold first. noub. Qed.
Hint Resolve first_no_ub : noub.

Lemma last_no_ub : forall (h : heap V), no_ub (last h).
Proof. intros h. unfold last. noub. Qed.
Hint Resolve last_no_ub : noub.

Lemma range_collect_no_ub : forall (h : heap V) lo hi, no_ub (range_collect h lo hi).
Proof. intros h lo hi. unfold range_collect. noub. Qed.
Hint Resolve range_collect_no_ub : noub.

Lemma items_range_collect_no_ub : forall (h : heap V) s e,
  no_ub (items_range_collect h s e).
Proof. intros h s e. unfold items_range_collect. noub. Qed.
Hint Resolve items_range_collect_no_ub : noub.

Lemma from_position_collect_no_ub : forall (h : heap V) id idx e,
  no_ub (from_position_collect h id idx e).
Proof. intros h id idx e. unfold from_position_collect. noub. Qed.
Hint Resolve from_position_collect_no_ub : noub.

(* ---------- validators ---------- *)
Lemma check_node_no_ub : forall fuel (h : heap V) r lo hi is_root,
  no_ub (check_node fuel h r lo hi is_root).
Proof.
  induction fuel as [|f IH]; intros h r lo hi is_root; cbn [check_node]; noub.
  apply all_res_map_no_ub. intros ic. noub.
Qed.
Hint Resolve check_node_no_ub : noub.

Lemma check_invariants_no_ub : forall (h : heap V), no_ub (check_invariants h).
Proof. intros h. unfold check_invariants. noub. Qed.
Hint Resolve check_invariants_no_ub : noub.

Lemma chain_ids_no_ub : forall fuel (h : heap V) cur, no_ub (chain_ids fuel h cur).
Proof. induction fuel as [|f IH]; intros h cur; cbn [chain_ids]; noub. Qed.
Hint Resolve chain_ids_no_ub : noub.

Lemma check_invariants_detailed_no_ub : forall (h : heap V),
  no_ub (check_invariants_detailed h).
Proof. intros h. unfold check_invariants_detailed. noub. Qed.
Hint Resolve check_invariants_detailed_no_ub : noub.

Theorem readers_no_ub : forall (h : heap V),
  (forall z, no_ub (h_get h z)) /\ (forall z, no_ub (h_contains h z)) /\ (forall z d, no_ub (h_get_or_default h z d)) /\
  no_ub (len h) /\ no_ub (is_empty h) /\ no_ub (get_first_leaf_id h) /\
  no_ub (leaf_count h) /\ no_ub (count_nodes_in_tree h) /\ no_ub (leaf_sizes h) /\ no_ub (collect_leaf_ids h) /\
  no_ub (items h) /\ no_ub (items_fast h) /\ no_ub (keys h) /\ no_ub (values h) /\ no_ub (slice h) /\
  no_ub (first h) /\ no_ub (last h) /\
  (forall lo hi, no_ub (range_collect h lo hi)) /\ (forall s e, no_ub (items_range_collect h s e)) /\
  (forall id idx e, no_ub (from_position_collect h id idx e)) /\
  no_ub (check_invariants h) /\ no_ub (check_invariants_detailed h) /\ no_ub (validate h) /\ no_ub (validate_for_operation h).
Proof.
  intros h.
  repeat split; intros;
    first [ apply h_get_no_ub | apply h_contains_no_ub | apply h_get_or_default_no_ub
          | apply len_no_ub | apply is_empty_no_ub | apply get_first_leaf_id_no_ub
          | apply leaf_count_no_ub | apply count_nodes_in_tree_no_ub | apply leaf_sizes_no_ub
          | apply collect_leaf_ids_no_ub | apply items_no_ub | apply items_fast_no_ub
          | apply keys_no_ub | apply values_no_ub | apply slice_no_ub | apply first_no_ub
          | apply last_no_ub | apply range_collect_no_ub | apply items_range_collect_no_ub
          | apply from_position_collect_no_ub | apply check_invariants_no_ub
          | apply check_invariants_detailed_no_ub ].
Qed.

(* ---------- the read-only operations of [step] ---------- *)
Lemma mk_it_no_ub : forall (h : heap V) k, no_ub (mk_it h k).
Proof. intros h k. unfold mk_it. noub. Qed.
Hint Resolve mk_it_no_ub : noub.

Lemma mk_its_no_ub : forall (h : heap V) ks, no_ub (mk_its h ks).
Proof. intros h ks. induction ks as [|k ks IH]; cbn [mk_its]; noub. Qed.
Hint Resolve mk_its_no_ub : noub.

Lemma it_take_no_ub : forall (h : heap V) a n, no_ub (it_take h a n).
Proof. intros h a n. unfold it_take. noub. Qed.
Hint Resolve it_take_no_ub : noub.

Lemma run_steps_no_ub : forall (h : heap V) steps pool, no_ub (run_steps h pool steps).
Proof.
  intros h steps. induction steps as [|[i n] st IH]; intros pool; cbn [run_steps]; noub.
Qed.
Hint Resolve run_steps_no_ub : noub.

Lemma chain_nth_no_ub : forall (h : heap V) p, no_ub (chain_nth h p).
Proof. intros h p. unfold chain_nth. noub. Qed.
Hint Resolve chain_nth_no_ub : noub.

Lemma get_many_no_ub : forall (h : heap V) zs acc, no_ub (get_many h zs acc).
Proof.
  intros h zs. induction zs as [|z zs IH]; intros acc; cbn [get_many]; noub.
Qed.
Hint Resolve get_many_no_ub : noub.

Lemma lift_no_ub : forall A (r : res A) (f : A -> out V),
  no_ub r -> (forall a, f a <> UUB) -> lift r f <> UUB.
Proof.
  intros A r f Hr Hf. destruct r as [a|s| |s]; cbn [lift].
  - apply Hf.
  - discriminate.
  - discriminate.
  - exfalso. exact (Hr s eq_refl).
Qed.

Theorem step_readers_no_ub : forall (b : bstate V) (o : op V),
  (match o with OInsert _ _ | ORemove _ | OGetMutWrite _ _ | OClear | ORemoveItem _ | OTryInsert _ _ | OTryRemove _ | OBatchInsert _ => False | _ => True end) ->
  snd (step b o) <> UUB.
Proof.
  intros b o Ho.
  destruct o; try (exfalso; exact Ho); clear Ho; unfold step; cbn [snd];
    (apply lift_no_ub;
     [ noub
     | intros a;
       repeat match goal with
              | |- context [match ?x with _ => _ end] => destruct x
              end; discriminate ]).
Qed.

(* ---------- mutators: no unchecked access at all ---------- *)
Lemma vec_insert_no_ub : forall A site i (x : A) l, no_ub (vec_insert site i x l).
Proof. intros A site i x l. unfold vec_insert. noub. Qed.
Lemma vec_remove_no_ub : forall A site i (l : list A), no_ub (vec_remove site i l).
Proof. intros A site i l. unfold vec_remove. noub. Qed.
Lemma vec_set_no_ub : forall A site i (x : A) l, no_ub (vec_set site i x l).
Proof. intros A site i x l. unfold vec_set. noub. Qed.
Lemma vec_get_no_ub : forall A site i (l : list A), no_ub (vec_get site i l).
Proof. intros A site i l. unfold vec_get. noub. Qed.
Lemma vec_split_off_no_ub : forall A site i (l : list A), no_ub (vec_split_off site i l).
Proof. intros A site i l. unfold vec_split_off. noub. Qed.
Lemma usub_no_ub : forall site a b, no_ub (usub site a b).
Proof. intros site a b. unfold usub. noub. Qed.
Lemma id_of_index_no_ub : forall i, no_ub (Tree.id_of_index i).
Proof. intros i. unfold Tree.id_of_index. noub. Qed.
Hint Resolve vec_insert_no_ub vec_remove_no_ub vec_set_no_ub vec_get_no_ub
     vec_split_off_no_ub usub_no_ub id_of_index_no_ub : noub.

Lemma m_alloc_no_ub : forall m, no_ub (m_alloc m).
Proof. intros m. unfold m_alloc. noub. Qed.
Hint Resolve m_alloc_no_ub : noub.

Lemma ins_leaf_no_ub : forall lm id ncap ks (vs : list V) next k v,
  no_ub (ins_leaf lm id ncap ks vs next k v).
Proof. intros. unfold ins_leaf. noub. Qed.
Hint Resolve ins_leaf_no_ub : noub.

Lemma realize_no_ub : forall bm (t : ptree V), no_ub (realize bm t).
Proof. intros bm t. unfold realize. noub. Qed.
Hint Resolve realize_no_ub : noub.

Lemma ins_branch_child_no_ub : forall id ncap ks (cs : list (ptree V)) ci sep newc old,
  no_ub (ins_branch_child id ncap ks cs ci sep newc old).
Proof. intros. unfold ins_branch_child. noub. Qed.
Hint Resolve ins_branch_child_no_ub : noub.

Lemma ins_no_ub : forall fuel lm bm (t : ptree V) k v, no_ub (ins fuel lm bm t k v).
Proof. induction fuel as [|f IH]; intros lm bm t k v; cbn [ins]; noub. Qed.
Hint Resolve ins_no_ub : noub.

Lemma b_insert_no_ub : forall (b : bstate V) k v, no_ub (b_insert b k v).
Proof. intros b k v. unfold b_insert. noub. Qed.

Lemma rebalance_leaf_no_ub : forall lm bm ks (cs : list (ptree V)) ci,
  no_ub (rebalance_leaf lm bm ks cs ci).
Proof. intros. unfold rebalance_leaf. noub. Qed.

Lemma rebalance_branch_no_ub : forall lm bm ks (cs : list (ptree V)) ci,
  no_ub (rebalance_branch lm bm ks cs ci).
Proof. intros. unfold rebalance_branch. noub. Qed.
Hint Resolve rebalance_leaf_no_ub rebalance_branch_no_ub : noub.

Lemma rebalance_child_no_ub : forall lm bm ks (cs : list (ptree V)) ci,
  no_ub (rebalance_child lm bm ks cs ci).
Proof. intros. unfold rebalance_child. noub. Qed.
Hint Resolve rebalance_child_no_ub : noub.

Lemma rem_no_ub : forall fuel lm bm (t : ptree V) z, no_ub (rem fuel lm bm t z).
Proof. induction fuel as [|f IH]; intros lm bm t z; cbn [rem]; noub. Qed.
Hint Resolve rem_no_ub : noub.

Lemma collapse_no_ub : forall fuel c lm bm (t : ptree V), no_ub (collapse fuel c lm bm t).
Proof. induction fuel as [|f IH]; intros c lm bm t; cbn [collapse]; noub. Qed.
Hint Resolve collapse_no_ub : noub.

Lemma b_remove_no_ub : forall (b : bstate V) z, no_ub (b_remove b z).
Proof. intros b z. unfold b_remove. noub. Qed.

Lemma upd_no_ub : forall fuel (t : ptree V) z v, no_ub (upd fuel t z v).
Proof. induction fuel as [|f IH]; intros t z v; cbn [upd]; noub. Qed.
Hint Resolve upd_no_ub : noub.

Lemma b_get_mut_write_no_ub : forall (b : bstate V) z v, no_ub (b_get_mut_write b z v).
Proof. intros b z v. unfold b_get_mut_write. noub. Qed.

Theorem mutators_no_ub : forall (b : bstate V) k v z,
  no_ub (b_insert b k v) /\ no_ub (b_remove b z) /\ no_ub (b_get_mut_write b z v).
Proof.
  intros b k v z. split; [|split].
  - apply b_insert_no_ub.
  - apply b_remove_no_ub.
  - apply b_get_mut_write_no_ub.
Qed.

End NoUB.

(* ---------- non-vacuity: damaged heaps on which the readers run, UB-free ---------- *)
Definition k1 : key := mkKey 1 0.
Definition k2 : key := mkKey 2 1.
Definition k3 : key := mkKey 3 2.

(* a leaf with 2 keys and only 1 value (as reachable through the safe node helpers) *)
Definition dmg_short_values : heap Z :=
  mkHeap 4 (RLeaf 0)
    (mkArena [mkLeaf 4 [k1; k2] [10%Z] NULL] [true] [])
    (@mkArena branch [] [] []).

Example items_dmg_short_values : items dmg_short_values = Ok [(k1, 10%Z)].
Proof. vm_compute. reflexivity. Qed.
Example items_fast_dmg_short_values : items_fast dmg_short_values = Ok [(k1, 10%Z)].
Proof. vm_compute. reflexivity. Qed.
Example validate_dmg_short_values : check_invariants dmg_short_values = Ok false.
Proof. vm_compute. reflexivity. Qed.

(* a leaf whose [next] points to a slot that was never allocated *)
Definition dmg_dangling_next : heap Z :=
  mkHeap 4 (RLeaf 0)
    (mkArena [mkLeaf 4 [k1; k2] [10%Z; 20%Z] 7%N] [true] [])
    (@mkArena branch [] [] []).

Example items_dmg_dangling_next : items dmg_dangling_next = Ok [(k1, 10%Z); (k2, 20%Z)].
Proof. vm_compute. reflexivity. Qed.
Example items_fast_dmg_dangling_next :
  items_fast dmg_dangling_next = Ok [(k1, 10%Z); (k2, 20%Z)].
Proof. vm_compute. reflexivity. Qed.

(* a leaf chain with a cycle: the iterator does not terminate in Rust (OutOfFuel), still no UB *)
Definition dmg_cycle : heap Z :=
  mkHeap 4 (RLeaf 0)
    (mkArena [mkLeaf 4 [k1] [10%Z] 0%N] [true] [])
    (@mkArena branch [] [] []).
Example items_dmg_cycle : items dmg_cycle = OutOfFuel.
Proof. vm_compute. reflexivity. Qed.

(* The defect that was repaired in the crate: with the guard testing only keys.len(), the
   unchecked access is reached with an index outside [values]. *)
Definition try_get_legacy (V : Type) (s : iter V) (l : leaf V) : res (iter V * option (key * V)) :=
  if Nat.leb (length (lkeys l)) (it_idx s)
  then Ok (s, None)
  else
    match nth_error (lkeys l) (it_idx s), nth_error (lvals l) (it_idx s) with
    | Some k, Some v =>
        let beyond :=
          match it_end_key s with
          | Some e => if it_incl s then Z.ltb e (kz k) else Z.leb e (kz k)
          | None =>
              match it_end_bound s with
              | Some e => if it_incl s then Z.ltb e (kz k) else Z.leb e (kz k)
              | None => false
              end
          end in
        if beyond then Ok (it_terminal s, None)
        else Ok (mkIter (it_id s) (it_leaf s) (S (it_idx s)) (it_end_key s)
                        (it_end_bound s) (it_incl s), Some (k, v))
    | _, _ => UB 170
    end.

Example try_get_guard_needed :
  exists (s : iter Z) (l : leaf Z), try_get_legacy s l = UB 170.
Proof.
  exists (@mkIter Z (Some 0%N) None 1 None None false).
  exists (mkLeaf 4 [k1; k2] [10%Z] NULL).
  vm_compute. reflexivity.
Qed.

(* the repaired guard answers None on the same state *)
Example try_get_repaired_same_state :
  try_get (@mkIter Z (Some 0%N) None 1 None None false) (mkLeaf 4 [k1; k2] [10%Z] NULL)
  = Ok (@mkIter Z (Some 0%N) None 1 None None false, None).
Proof. vm_compute. reflexivity. Qed.

Print Assumptions readers_no_ub.
Print Assumptions mutators_no_ub.
Print Assumptions step_readers_no_ub.
