(* Bridge between model B (trees) and model A (heaps): laying a state that satisfies the
   invariant out into arenas ([flatten]) yields a heap that represents the tree
   ([heap_of]).  Also: structural facts about [subtree], the id lists, the node counts
   and the reader fuel. *)
From Coq Require Import List Arith ZArith NArith Lia Bool Permutation.
From BPT Require Import Common.Base Common.AMap Rust.Arena Rust.Tree Rust.Heap Rust.Readers
  Rust.InvDefs Rust.Repr Rust.Lib Rust.InsertMeta.
Import ListNotations.
Set Implicit Arguments.

(* ------------------------------------------------------------------ *)
(* list facts *)
Section ListFacts.
Variable A : Type.

Lemma nth_error_seq_lt : forall n s i, i < n -> nth_error (seq s n) i = Some (s + i).
Proof.
  induction n as [|n IH]; intros s i Hi; [lia|].
  destruct i as [|i]; cbn [seq nth_error].
  - f_equal; lia.
  - rewrite IH by lia. f_equal; lia.
Qed.

Lemma nth_error_map_seq : forall (f : nat -> A) n i, i < n ->
  nth_error (map f (seq 0 n)) i = Some (f i).
Proof.
  intros f n i Hi. apply map_nth_error. exact (nth_error_seq_lt 0 Hi).
Qed.

Lemma NoDup_app_disj : forall (l1 l2 : list A) x,
  NoDup (l1 ++ l2) -> In x l1 -> In x l2 -> False.
Proof.
  induction l1 as [|a l1 IH]; intros l2 x ND H1 H2; [destruct H1|].
  cbn [app] in ND. inversion ND as [|? ? Hn ND']; subst.
  destruct H1 as [->|H1].
  - apply Hn. apply in_or_app. right; auto.
  - eapply IH; eauto.
Qed.

Lemma NoDup_app_l : forall (l1 l2 : list A), NoDup (l1 ++ l2) -> NoDup l1.
Proof.
  induction l1 as [|a l1 IH]; intros l2 ND; [constructor|].
  cbn [app] in ND. inversion ND as [|? ? Hn ND']; subst. constructor.
  - intros Hi. apply Hn. apply in_or_app. left; auto.
  - eapply IH; eauto.
Qed.

Lemma NoDup_app_r : forall (l1 l2 : list A), NoDup (l1 ++ l2) -> NoDup l2.
Proof.
  induction l1 as [|a l1 IH]; intros l2 ND; [exact ND|].
  cbn [app] in ND. inversion ND; subst. auto.
Qed.

Lemma NoDup_flat_map_in : forall (B : Type) (f : B -> list A) cs ch,
  NoDup (flat_map f cs) -> In ch cs -> NoDup (f ch).
Proof.
  induction cs as [|c cs IH]; intros ch ND Hin; [destruct Hin|].
  cbn [flat_map] in ND. destruct Hin as [->|Hin].
  - eapply NoDup_app_l; eauto.
  - apply IH; auto. eapply NoDup_app_r; eauto.
Qed.

Lemma length_flat_map_in : forall (B : Type) (f : B -> list A) cs ch,
  In ch cs -> length (f ch) <= length (flat_map f cs).
Proof.
  induction cs as [|c cs IH]; intros ch Hin; [destruct Hin|].
  cbn [flat_map]. rewrite app_length. destruct Hin as [->|Hin]; [lia|].
  specialize (IH _ Hin). lia.
Qed.

Lemma map_flat_map : forall (B C : Type) (g : A -> C) (f : B -> list A) l,
  map g (flat_map f l) = flat_map (fun x => map g (f x)) l.
Proof.
  induction l as [|x l IH]; [reflexivity|].
  cbn [flat_map]. rewrite map_app, IH. reflexivity.
Qed.

End ListFacts.

Lemma count_true_le : forall l, count_true l <= length l.
Proof.
  unfold count_true. induction l as [|[|] l IH]; cbn [filter length]; lia.
Qed.

Lemma count_true_seq : forall l,
  count_true l =
  length (filter (fun i => match nth_error l i with Some b => b | None => false end)
                 (seq 0 (length l))).
Proof.
  induction l as [|x l IH] using rev_ind; [reflexivity|].
  unfold count_true in *. rewrite filter_app, !app_length. cbn [length].
  rewrite Nat.add_1_r with (n := length l), seq_S, filter_app, app_length.
  rewrite (filter_ext_in _ (fun i => match nth_error l i with Some b => b | None => false end)).
  2:{ intros i Hi. apply in_seq in Hi. rewrite nth_error_app1 by lia. reflexivity. }
  rewrite <- IH. cbn [filter Nat.add]. rewrite nth_error_app2 by lia.
  rewrite Nat.sub_diag. cbn [nth_error]. destruct x; cbn [filter length]; lia.
Qed.

(* ------------------------------------------------------------------ *)
(* arena metadata facts *)

Lemma idx_lt : forall n id, N.to_nat id < n -> idx n id = N.to_nat id.
Proof.
  intros n id H. unfold idx. destruct (N.ltb_spec id (N.of_nat n)); [reflexivity|lia].
Qed.

Lemma meta_id_not_null : forall m ids id,
  meta_ok m ids -> room m 0 -> In id ids -> id <> NULL.
Proof.
  intros m ids id (_ & Hin & _) R Hi. apply Hin in Hi. apply m_mask_at_lt in Hi.
  unfold room, NULL in *. lia.
Qed.

(* as many ids as allocated slots *)
Lemma meta_count : forall m ids, meta_ok m ids -> length ids = count_true (m_mask m).
Proof.
  intros m ids (ND & Hin & _ & _).
  rewrite count_true_seq.
  set (n := length (m_mask m)).
  set (fl := filter (fun i => match nth_error (m_mask m) i with Some b => b | None => false end)
                    (seq 0 n)).
  assert (ND1 : NoDup (map N.to_nat ids)).
  { apply FinFun.Injective_map_NoDup; auto. intros x y Hxy. apply N2Nat.inj; auto. }
  assert (ND2 : NoDup fl) by (apply NoDup_filter, seq_NoDup).
  assert (I1 : incl (map N.to_nat ids) fl).
  { intros i Hi. apply in_map_iff in Hi. destruct Hi as (id & <- & Hi).
    apply Hin in Hi. apply filter_In. split.
    - apply in_seq. apply m_mask_at_lt in Hi. unfold n. lia.
    - exact Hi. }
  assert (I2 : incl fl (map N.to_nat ids)).
  { intros i Hi. apply filter_In in Hi. destruct Hi as (_ & Hi).
    apply in_map_iff. exists (N.of_nat i). split; [apply Nat2N.id|].
    apply Hin. rewrite Nat2N.id. exact Hi. }
  pose proof (NoDup_incl_length ND1 I1) as L1.
  pose proof (NoDup_incl_length ND2 I2) as L2.
  rewrite map_length in *. lia.
Qed.

Lemma meta_count_le : forall m ids, meta_ok m ids -> length ids <= length (m_mask m).
Proof.
  intros m ids MO. rewrite (meta_count MO). apply count_true_le.
Qed.

(* looking an id up in a laid-out arena *)
Lemma mask_at_mk : forall (T : Type) (st : list T) m fr i,
  mask_at (mkArena st (m_mask m) fr) i = m_mask_at m i.
Proof. reflexivity. Qed.

Lemma a_get_layout : forall (T : Type) (f : nat -> T) (m : ameta) id,
  room m 0 -> m_mask_at m (N.to_nat id) = true ->
  a_get (mkArena (map f (seq 0 (length (m_mask m)))) (m_mask m) (m_free m)) id
  = Some (f (N.to_nat id)).
Proof.
  intros T f m id R Hm. pose proof (m_mask_at_lt _ _ Hm) as Hlt.
  unfold a_get. cbn [store].
  assert (Hn : id <> NULL) by (unfold room, NULL in *; lia).
  destruct (N.eqb_spec id NULL) as [e|_]; [contradiction|].
  rewrite map_length, seq_length. rewrite idx_lt by auto.
  destruct (Nat.ltb_spec (N.to_nat id) (length (m_mask m))); [|lia].
  rewrite mask_at_mk, Hm. cbn [andb]. apply nth_error_map_seq; auto.
Qed.

Lemma a_get_layout_inv : forall (T : Type) (f : nat -> T) (m : ameta) id x,
  a_get (mkArena (map f (seq 0 (length (m_mask m)))) (m_mask m) (m_free m)) id = Some x ->
  m_mask_at m (N.to_nat id) = true /\ x = f (N.to_nat id).
Proof.
  intros T f m id x H. unfold a_get in H. cbn [store] in H.
  destruct (N.eqb id NULL); [discriminate|].
  rewrite map_length, seq_length in H.
  destruct (Nat.ltb_spec (idx (length (m_mask m)) id) (length (m_mask m))) as [Hlt|Hge];
    cbn [andb] in H; [|discriminate].
  assert (Hi : idx (length (m_mask m)) id = N.to_nat id).
  { unfold idx in *. destruct (N.ltb id (N.of_nat (length (m_mask m)))); [reflexivity|lia]. }
  rewrite Hi in *. rewrite mask_at_mk in H.
  destruct (m_mask_at m (N.to_nat id)) eqn:Em; [|discriminate].
  rewrite nth_error_map_seq in H by auto. inversion H. split; auto.
Qed.

(* ------------------------------------------------------------------ *)
Section Bridge.
Variable V : Type.
Notation ptree := (ptree V).

(* induction principle with the hypothesis for all children *)
Lemma ptree_ind' : forall (P : ptree -> Prop),
  (forall id c ks vs nx, P (PLeaf id c ks vs nx)) ->
  (forall id c ks cs, Forall P cs -> P (PBranch id c ks cs)) ->
  forall t, P t.
Proof.
  intros P HL HB. fix IH 1. intros [id c ks vs nx|id c ks cs].
  - apply HL.
  - apply HB. induction cs as [|ch cs IHcs]; constructor; [apply IH|apply IHcs].
Qed.

(* ---------------- subtree ---------------- *)
Lemma subtree_trans : forall (a b c : ptree), subtree a b -> subtree b c -> subtree a c.
Proof.
  intros a b c Hab Hbc. induction Hbc as [t|s id cc ks cs ch Hin Hs IH]; auto.
  eapply sub_child; eauto.
Qed.

Lemma leaf_ids_branch : forall id c ks (cs : list ptree),
  leaf_ids (PBranch id c ks cs) = flat_map (@leaf_ids V) cs.
Proof.
  intros. unfold leaf_ids. cbn [leaf_links]. apply map_flat_map.
Qed.

Lemma subtree_leaf_ids : forall (s t : ptree), subtree s t -> incl (leaf_ids s) (leaf_ids t).
Proof.
  induction 1 as [t|s id c ks cs ch Hin Hs IH]; [apply incl_refl|].
  intros x Hx. rewrite leaf_ids_branch. apply in_flat_map. exists ch. split; auto.
Qed.

Lemma subtree_branch_ids : forall (s t : ptree), subtree s t -> incl (branch_ids s) (branch_ids t).
Proof.
  induction 1 as [t|s id c ks cs ch Hin Hs IH]; [apply incl_refl|].
  intros x Hx. cbn [branch_ids]. right. apply in_flat_map. exists ch. split; auto.
Qed.

Lemma leaf_ids_subtree : forall (t : ptree) id,
  In id (leaf_ids t) <-> exists c ks vs nx, subtree (PLeaf id c ks vs nx) t.
Proof.
  intros t id. split.
  - induction t as [id0 c ks vs nx|id0 c ks cs IH] using ptree_ind'; intros Hin.
    + cbn in Hin. destruct Hin as [<-|[]]. exists c, ks, vs, nx. apply sub_refl.
    + rewrite leaf_ids_branch in Hin. apply in_flat_map in Hin.
      destruct Hin as (ch & Hch & Hin). rewrite Forall_forall in IH.
      destruct (IH _ Hch Hin) as (c' & ks' & vs' & nx' & Hs).
      exists c', ks', vs', nx'. eapply sub_child; eauto.
  - intros (c & ks & vs & nx & Hs). apply (subtree_leaf_ids Hs). cbn. left; reflexivity.
Qed.

Lemma branch_ids_subtree : forall (t : ptree) id,
  In id (branch_ids t) <-> exists c ks cs, subtree (PBranch id c ks cs) t.
Proof.
  intros t id. split.
  - induction t as [id0 c ks vs nx|id0 c ks cs IH] using ptree_ind'; intros Hin.
    + destruct Hin.
    + cbn [branch_ids] in Hin. destruct Hin as [<-|Hin].
      * exists c, ks, cs. apply sub_refl.
      * apply in_flat_map in Hin. destruct Hin as (ch & Hch & Hin).
        rewrite Forall_forall in IH.
        destruct (IH _ Hch Hin) as (c' & ks' & cs' & Hs).
        exists c', ks', cs'. eapply sub_child; eauto.
  - intros (c & ks & cs & Hs). apply (subtree_branch_ids Hs). cbn [branch_ids]. left; reflexivity.
Qed.

Lemma repr_subtree : forall (h : heap V) s t, repr h t -> subtree s t -> repr h s.
Proof.
  intros h s t (HL & HB) Hs. split.
  - intros id c ks vs nx H. apply HL. eapply subtree_trans; eauto.
  - intros id c ks cs H. apply HB. eapply subtree_trans; eauto.
Qed.

(* ---------------- find_leaf / find_branch ---------------- *)
Definition fl_go (i : N) : list ptree -> option (leaf V) :=
  fix go (l : list ptree) : option (leaf V) :=
    match l with
    | [] => None
    | c :: l' => match find_leaf c i with Some x => Some x | None => go l' end
    end.

Definition fb_go (i : N) : list ptree -> option branch :=
  fix go (l : list ptree) : option branch :=
    match l with
    | [] => None
    | c :: l' => match find_branch c i with Some x => Some x | None => go l' end
    end.

Lemma find_leaf_branch : forall id c ks cs i, find_leaf (PBranch id c ks cs) i = fl_go i cs.
Proof. reflexivity. Qed.

Lemma find_branch_branch : forall id c ks cs i,
  find_branch (PBranch id c ks cs) i =
  if N.eqb id i then Some (mkBranch c ks (map (@ref_of V) cs)) else fb_go i cs.
Proof. reflexivity. Qed.

Lemma fl_go_cons : forall i c l,
  fl_go i (c :: l) = match find_leaf c i with Some x => Some x | None => fl_go i l end.
Proof. reflexivity. Qed.

Lemma fb_go_cons : forall i c l,
  fb_go i (c :: l) = match find_branch c i with Some x => Some x | None => fb_go i l end.
Proof. reflexivity. Qed.

Lemma fl_go_some : forall i cs l, fl_go i cs = Some l ->
  exists ch, In ch cs /\ find_leaf ch i = Some l.
Proof.
  induction cs as [|c cs IH]; intros l H; [discriminate|].
  rewrite fl_go_cons in H. destruct (find_leaf c i) as [x|] eqn:E.
  - inversion H; subst. exists c. split; [left; auto|auto].
  - destruct (IH _ H) as (ch & Hin & Hf). exists ch. split; [right; auto|auto].
Qed.

Lemma fb_go_some : forall i cs l, fb_go i cs = Some l ->
  exists ch, In ch cs /\ find_branch ch i = Some l.
Proof.
  induction cs as [|c cs IH]; intros l H; [discriminate|].
  rewrite fb_go_cons in H. destruct (find_branch c i) as [x|] eqn:E.
  - inversion H; subst. exists c. split; [left; auto|auto].
  - destruct (IH _ H) as (ch & Hin & Hf). exists ch. split; [right; auto|auto].
Qed.

Lemma find_leaf_sound : forall (t : ptree) i l, find_leaf t i = Some l ->
  exists c ks vs nx, l = mkLeaf c ks vs nx /\ subtree (PLeaf i c ks vs nx) t.
Proof.
  induction t as [id0 c ks vs nx|id0 c ks cs IH] using ptree_ind'; intros i l H.
  - cbn [find_leaf] in H. destruct (N.eqb_spec id0 i) as [->|]; [|discriminate].
    inversion H; subst. exists c, ks, vs, nx. split; [reflexivity|apply sub_refl].
  - rewrite find_leaf_branch in H. apply fl_go_some in H. destruct H as (ch & Hin & Hf).
    rewrite Forall_forall in IH.
    destruct (IH _ Hin _ _ Hf) as (c' & ks' & vs' & nx' & -> & Hs).
    exists c', ks', vs', nx'. split; [reflexivity|]. eapply sub_child; eauto.
Qed.

Lemma find_branch_sound : forall (t : ptree) i x, find_branch t i = Some x ->
  exists c ks cs, x = mkBranch c ks (map (@ref_of V) cs) /\ subtree (PBranch i c ks cs) t.
Proof.
  induction t as [id0 c ks vs nx|id0 c ks cs IH] using ptree_ind'; intros i x H.
  - discriminate.
  - rewrite find_branch_branch in H. destruct (N.eqb_spec id0 i) as [->|].
    + inversion H; subst. exists c, ks, cs. split; [reflexivity|apply sub_refl].
    + apply fb_go_some in H. destruct H as (ch & Hin & Hf).
      rewrite Forall_forall in IH.
      destruct (IH _ Hin _ _ Hf) as (c' & ks' & cs' & -> & Hs).
      exists c', ks', cs'. split; [reflexivity|]. eapply sub_child; eauto.
Qed.

Lemma find_leaf_in : forall (t : ptree) i l, find_leaf t i = Some l -> In i (leaf_ids t).
Proof.
  intros t i l H. apply find_leaf_sound in H. destruct H as (c & ks & vs & nx & _ & Hs).
  apply leaf_ids_subtree. eauto.
Qed.

Lemma find_branch_in : forall (t : ptree) i x, find_branch t i = Some x -> In i (branch_ids t).
Proof.
  intros t i x H. apply find_branch_sound in H. destruct H as (c & ks & cs & _ & Hs).
  apply branch_ids_subtree. eauto.
Qed.

Lemma fl_go_found : forall i cs ch l,
  NoDup (flat_map (@leaf_ids V) cs) -> In ch cs -> find_leaf ch i = Some l ->
  fl_go i cs = Some l.
Proof.
  induction cs as [|c cs IH]; intros ch l ND Hin Hf; [destruct Hin|].
  rewrite fl_go_cons. cbn [flat_map] in ND. destruct Hin as [->|Hin].
  - rewrite Hf. reflexivity.
  - destruct (find_leaf c i) as [x|] eqn:E.
    + exfalso. eapply NoDup_app_disj; [exact ND| |].
      * eapply find_leaf_in; eauto.
      * apply in_flat_map. exists ch. split; auto. eapply find_leaf_in; eauto.
    + eapply IH; eauto. eapply NoDup_app_r; eauto.
Qed.

Lemma fb_go_found : forall i cs ch x,
  NoDup (flat_map (@branch_ids V) cs) -> In ch cs -> find_branch ch i = Some x ->
  fb_go i cs = Some x.
Proof.
  induction cs as [|c cs IH]; intros ch x ND Hin Hf; [destruct Hin|].
  rewrite fb_go_cons. cbn [flat_map] in ND. destruct Hin as [->|Hin].
  - rewrite Hf. reflexivity.
  - destruct (find_branch c i) as [y|] eqn:E.
    + exfalso. eapply NoDup_app_disj; [exact ND| |].
      * eapply find_branch_in; eauto.
      * apply in_flat_map. exists ch. split; auto. eapply find_branch_in; eauto.
    + eapply IH; eauto. eapply NoDup_app_r; eauto.
Qed.

Lemma find_leaf_complete : forall (t : ptree) id c ks vs nx,
  NoDup (leaf_ids t) -> subtree (PLeaf id c ks vs nx) t ->
  find_leaf t id = Some (mkLeaf c ks vs nx).
Proof.
  induction t as [id0 c0 ks0 vs0 nx0|id0 c0 ks0 cs IH] using ptree_ind';
    intros id c ks vs nx ND Hs.
  - inversion Hs; subst. cbn [find_leaf]. rewrite N.eqb_refl. reflexivity.
  - inversion Hs as [|? ? ? ? ? ch Hin Hs']; subst.
    rewrite find_leaf_branch. rewrite leaf_ids_branch in ND.
    apply fl_go_found with (ch := ch); auto.
    rewrite Forall_forall in IH. apply IH; auto.
    eapply NoDup_flat_map_in; eauto.
Qed.

Lemma find_branch_complete : forall (t : ptree) id c ks cs,
  NoDup (branch_ids t) -> subtree (PBranch id c ks cs) t ->
  find_branch t id = Some (mkBranch c ks (map (@ref_of V) cs)).
Proof.
  induction t as [id0 c0 ks0 vs0 nx0|id0 c0 ks0 cs0 IH] using ptree_ind';
    intros id c ks cs ND Hs.
  - inversion Hs.
  - rewrite find_branch_branch. cbn [branch_ids] in ND.
    inversion ND as [|? ? Hnot ND']; subst.
    inversion Hs as [|? ? ? ? ? ch Hin Hs']; subst.
    + rewrite N.eqb_refl. reflexivity.
    + assert (Hid : In id (flat_map (@branch_ids V) cs0)).
      { apply in_flat_map. exists ch. split; auto.
        apply (subtree_branch_ids Hs'). cbn [branch_ids]. left; reflexivity. }
      destruct (N.eqb_spec id0 id) as [->|_]; [contradiction|].
      apply fb_go_found with (ch := ch); auto.
      rewrite Forall_forall in IH. apply IH; auto.
      eapply NoDup_flat_map_in; eauto.
Qed.

(* ---------------- the layout ---------------- *)
Definition lslot (b : bstate V) (i : nat) : leaf V :=
  match find_leaf (root b) (N.of_nat i) with
  | Some l => if m_mask_at (lmeta b) i then l else @dflt_leaf V
  | None => @dflt_leaf V
  end.

Definition bslot (b : bstate V) (i : nat) : branch :=
  match find_branch (root b) (N.of_nat i) with
  | Some x => if m_mask_at (bmeta b) i then x else dflt_branch
  | None => dflt_branch
  end.

Lemma flatten_leaves : forall b : bstate V,
  hleaves (flatten b) =
  mkArena (map (lslot b) (seq 0 (length (m_mask (lmeta b)))))
          (m_mask (lmeta b)) (m_free (lmeta b)).
Proof. reflexivity. Qed.

Lemma flatten_branches : forall b : bstate V,
  hbranches (flatten b) =
  mkArena (map (bslot b) (seq 0 (length (m_mask (bmeta b)))))
          (m_mask (bmeta b)) (m_free (bmeta b)).
Proof. reflexivity. Qed.

Lemma flatten_repr : forall b : bstate V, Inv b -> rooms b -> repr (flatten b) (root b).
Proof.
  intros b I (RL & RB). split.
  - intros id c ks vs nx Hs.
    destruct (inv_leaves I) as (ND & Hin & _).
    assert (Hm : m_mask_at (lmeta b) (N.to_nat id) = true).
    { apply Hin. apply leaf_ids_subtree. eauto. }
    unfold get_leaf. rewrite flatten_leaves, a_get_layout by auto.
    unfold lslot. rewrite N2Nat.id, Hm.
    rewrite (find_leaf_complete ND Hs). reflexivity.
  - intros id c ks cs Hs.
    destruct (inv_branches I) as (ND & Hin & _).
    assert (Hm : m_mask_at (bmeta b) (N.to_nat id) = true).
    { apply Hin. apply branch_ids_subtree. eauto. }
    unfold get_branch. rewrite flatten_branches, a_get_layout by auto.
    unfold bslot. rewrite N2Nat.id, Hm.
    rewrite (find_branch_complete ND Hs). reflexivity.
Qed.

Theorem flatten_heap_of : forall (b : bstate V), Inv b -> rooms b -> heap_of b (flatten b).
Proof.
  intros b I R. constructor.
  - apply flatten_repr; auto.
  - reflexivity.
  - reflexivity.
  - reflexivity.
  - reflexivity.
  - reflexivity.
  - reflexivity.
  - rewrite flatten_leaves. cbn [store]. rewrite map_length, seq_length. reflexivity.
  - rewrite flatten_branches. cbn [store]. rewrite map_length, seq_length. reflexivity.
  - intros id l H. unfold get_leaf in H. rewrite flatten_leaves in H.
    apply a_get_layout_inv in H. destruct H as (Hm & ->).
    unfold lslot. rewrite N2Nat.id, Hm.
    destruct (inv_leaves I) as (ND & Hin & _).
    apply Hin in Hm. apply leaf_ids_subtree in Hm. destruct Hm as (c & ks & vs & nx & Hs).
    rewrite (find_leaf_complete ND Hs). exists c, ks, vs, nx. split; auto.
  - intros id x H. unfold get_branch in H. rewrite flatten_branches in H.
    apply a_get_layout_inv in H. destruct H as (Hm & ->).
    unfold bslot. rewrite N2Nat.id, Hm.
    destruct (inv_branches I) as (ND & Hin & _).
    apply Hin in Hm. apply branch_ids_subtree in Hm. destruct Hm as (c & ks & cs & Hs).
    rewrite (find_branch_complete ND Hs). exists c, ks, cs. split; auto.
  - intros i Hi Hm. rewrite flatten_leaves in *. cbn [store] in *.
    rewrite map_length, seq_length in Hi. rewrite nth_error_map_seq by auto.
    unfold lslot. rewrite Hm. destruct (find_leaf (root b) (N.of_nat i)); reflexivity.
  - intros i Hi Hm. rewrite flatten_branches in *. cbn [store] in *.
    rewrite map_length, seq_length in Hi. rewrite nth_error_map_seq by auto.
    unfold bslot. rewrite Hm. destruct (find_branch (root b) (N.of_nat i)); reflexivity.
Qed.

(* ---------------- node counts and fuel ---------------- *)
Lemma height_le_n_branches : forall c r hh (t : ptree), shape c r hh t -> height t <= n_branches t.
Proof.
  induction 1 as [r id ks vs nx|r h id ks cs L1 L2 L3 L4 Hc IH]; [cbn; lia|].
  unfold n_branches in *. cbn [height branch_ids length]. apply le_n_S.
  apply list_max_le. apply Forall_forall. intros x Hx.
  apply in_map_iff in Hx. destruct Hx as (ch & <- & Hch).
  specialize (IH _ Hch). pose proof (length_flat_map_in (@branch_ids V) _ _ Hch). lia.
Qed.

Lemma n_branches_le_slots : forall (b : bstate V), Inv b ->
  n_branches (root b) <= length (m_mask (bmeta b)).
Proof.
  intros b I. unfold n_branches. apply meta_count_le. apply (inv_branches I).
Qed.

Lemma n_leaves_le_slots : forall (b : bstate V), Inv b ->
  n_leaves (root b) <= length (m_mask (lmeta b)).
Proof.
  intros b I. unfold n_leaves. rewrite <- (map_length fst). apply meta_count_le.
  apply (inv_leaves I).
Qed.

Lemma n_leaves_eq_allocated : forall (b : bstate V), Inv b -> rooms b ->
  n_leaves (root b) = count_true (m_mask (lmeta b)).
Proof.
  intros b I _. unfold n_leaves. rewrite <- (map_length fst). apply meta_count.
  apply (inv_leaves I).
Qed.

Lemma n_branches_eq_allocated : forall (b : bstate V), Inv b -> rooms b ->
  n_branches (root b) = count_true (m_mask (bmeta b)).
Proof.
  intros b I _. unfold n_branches. apply meta_count. apply (inv_branches I).
Qed.

Lemma fuel_ok : forall (b : bstate V) h, Inv b -> heap_of b h -> height (root b) + 2 <= dfuel h.
Proof.
  intros b h I HO. unfold dfuel, nslots. rewrite (ho_llen HO), (ho_blen HO).
  destruct (inv_shape I) as (hh & Hsh).
  pose proof (height_le_n_branches Hsh). pose proof (n_branches_le_slots I). lia.
Qed.

Lemma ids_not_null : forall (b : bstate V), Inv b -> rooms b ->
  (forall id, In id (leaf_ids (root b)) -> id <> NULL) /\
  (forall id, In id (branch_ids (root b)) -> id <> NULL).
Proof.
  intros b I (RL & RB). split; intros id Hin.
  - eapply meta_id_not_null; [apply (inv_leaves I)| |]; eauto.
  - eapply meta_id_not_null; [apply (inv_branches I)| |]; eauto.
Qed.

End Bridge.

Print Assumptions flatten_heap_of.
