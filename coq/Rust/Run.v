(* The operation language of the Rust map model and its step function.  The extracted
   [step] is what the correspondence check runs against the real crate; the theorems
   of Props/ are stated about [run]. *)
From BPT Require Import Common.Base Rust.Arena Rust.Tree Rust.Heap Rust.Readers.
Set Implicit Arguments.

Section Run.
Variable V : Type.

Inductive ikind := KItems | KFast | KKeys | KValues.

Inductive op : Type :=
(* basic API (C01) *)
| OInsert (k : key) (v : V) | ORemove (z : Z) | OGet (z : Z) | OContains (z : Z)
| OGetOrDefault (z : Z) (d : V) | OLen | OIsEmpty | OGetMutWrite (z : Z) (v : V) | OClear
(* iteration (C02): iterators of the given kinds are created together and then advanced
   in the given interleaving: (iterator number, number of next() calls) *)
| OIter (kinds : list ikind) (steps : list (nat * nat))
| OFirstLast | OSlices
(* ranges (C03) *)
| ORange (lo hi : bound) | OItemsRange (s e : option Z)
| OFromPos (chain_pos idx : nat) (e : option (Z * bool))
(* validators and introspection (C04, C06) *)
| OValidate | OIntrospect
(* checked API (C10) *)
| OTryGet (z : Z) | OGetItem (z : Z) | OGetMany (zs : list Z) | ORemoveItem (z : Z)
| OTryInsert (k : key) (v : V) | OTryRemove (z : Z) | OBatchInsert (items : list (key * V)).

Inductive err := KeyNotFound | DataIntegrity (class : nat).

Inductive out : Type :=
| UOpt (o : option V) | UBool (b : bool) | UNat (n : nat) | UVal (v : V) | UUnit
| UItems (l : list (option (option key * option V)))   (* None = the iterator answered None;
     a keys() iterator yields (Some k, None), a values() iterator (None, Some v) *)
| UList (l : list (key * V))
| UFirstLast (f l : option (key * V))
| USlices (items fast : list (key * V)) (ks : list key) (vs : list V)
| UValidate (ci : bool) (cid vfo : option nat)
| UIntro (lc : nat) (cn : nat * nat) (ls : list nat) (lr : bool) (al ab fl fb : nat)
| URes (r : option V) (e : option err)            (* Ok(v) / Err(e) *)
| UResOpt (r : option (option V)) (e : option err)
| UResList (r : option (list V)) (e : option err)
| UResOptList (r : option (list (option V))) (e : option err)
| UPanic | UFuel | UUB.

Definition lift {A} (r : res A) (f : A -> out) : out :=
  match r with Ok a => f a | Panic _ => UPanic | OutOfFuel => UFuel | UB _ => UUB end.

(* --- iterator pool for OIter --- *)
Inductive anyit := AIt (k : ikind) (s : iter V) | AFast (s : fiter V).

Definition mk_it (h : heap V) (k : ikind) : res anyit :=
  match k with
  | KFast => do s <- fast_new h; Ok (AFast s)
  | _ => do s <- item_new h; Ok (AIt k s)
  end.

Definition project (k : ikind) (x : option (key * V)) : option (option key * option V) :=
  match x with
  | None => None
  | Some (a, b) =>
      Some (match k with
            | KKeys => (Some a, None) | KValues => (None, Some b) | _ => (Some a, Some b)
            end)
  end.

Definition it_take (h : heap V) (a : anyit) (n : nat)
  : res (anyit * list (option (option key * option V))) :=
  match a with
  | AIt k s => do r <- take_n (item_next h) n s; Ok (AIt k (fst r), map (project k) (snd r))
  | AFast s => do r <- take_n (fast_next h) n s; Ok (AFast (fst r), map (project KFast) (snd r))
  end.

Fixpoint mk_its (h : heap V) (ks : list ikind) : res (list anyit) :=
  match ks with
  | [] => Ok []
  | k :: ks' => do a <- mk_it h k; do r <- mk_its h ks'; Ok (a :: r)
  end.

Fixpoint run_steps (h : heap V) (pool : list anyit) (steps : list (nat * nat))
  : res (list (option (option key * option V))) :=
  match steps with
  | [] => Ok []
  | (i, n) :: st' =>
      match nth_error pool i with
      | None => run_steps h pool st'
      | Some a =>
          do r <- it_take h a n;
          do rest <- run_steps h (set_nth i (fst r) pool) st';
          Ok (snd r ++ rest)
      end
  end.

(* id of the leaf at position [p] of the chain starting at the first leaf *)
Definition chain_nth (h : heap V) (p : nat) : res (option N) :=
  do fid <- get_first_leaf_id h;
  do ids <- chain_ids (S (S (length (store (hleaves h))))) h fid;
  Ok (nth_error ids p).

(* --- checked API --- *)
Definition try_insert (b : bstate V) (k : key) (v : V)
  : res (bstate V * option (option V) * option err) :=
  do c1 <- check_invariants_detailed (flatten b);
  match c1 with
  | Some e => Ok (b, None, Some (DataIntegrity e))
  | None =>
      do r <- b_insert b k v;
      do c2 <- check_invariants_detailed (flatten (fst r));
      match c2 with
      | Some e => Ok (fst r, None, Some (DataIntegrity e))
      | None => Ok (fst r, Some (snd r), None)
      end
  end.

Definition try_remove (b : bstate V) (z : Z) : res (bstate V * option V * option err) :=
  do c1 <- check_invariants_detailed (flatten b);
  match c1 with
  | Some e => Ok (b, None, Some (DataIntegrity e))
  | None =>
      do r <- b_remove b z;
      match snd r with
      | None => Ok (fst r, None, Some KeyNotFound)
      | Some v =>
          do c2 <- check_invariants_detailed (flatten (fst r));
          match c2 with
          | Some e => Ok (fst r, None, Some (DataIntegrity e))
          | None => Ok (fst r, Some v, None)
          end
      end
  end.

Fixpoint rollback (b : bstate V) (ks : list key) : res (bstate V) :=
  match ks with
  | [] => Ok b
  | k :: ks' => do r <- b_remove b (kz k); rollback (fst r) ks'
  end.

Fixpoint batch_insert (b : bstate V) (items : list (key * V)) (done : list key)
         (acc : list (option V)) : res (bstate V * option (list (option V)) * option err) :=
  match items with
  | [] => Ok (b, Some (rev acc), None)
  | (k, v) :: items' =>
      do r <- try_insert b k v;
      let '(b1, ov, e) := r in
      match e, ov with
      | None, Some old => batch_insert b1 items' (done ++ [k]) (old :: acc)
      | _, _ =>
          do b2 <- rollback b1 done;
          Ok (b2, None, e)
      end
  end.

Fixpoint get_many (h : heap V) (zs : list Z) (acc : list V) : res (option (list V)) :=
  match zs with
  | [] => Ok (Some (rev acc))
  | z :: zs' =>
      do r <- h_get h z;
      match r with
      | Some v => get_many h zs' (v :: acc)
      | None => Ok None
      end
  end.

Definition step (b : bstate V) (o : op) : bstate V * out :=
  match o with
  | OInsert k v =>
      match b_insert b k v with
      | Ok (b', old) => (b', UOpt old) | Panic _ => (b, UPanic) | OutOfFuel => (b, UFuel)
      | UB _ => (b, UUB) end
  | ORemove z =>
      match b_remove b z with
      | Ok (b', old) => (b', UOpt old) | Panic _ => (b, UPanic) | OutOfFuel => (b, UFuel)
      | UB _ => (b, UUB) end
  | OGet z => (b, lift (h_get (flatten b) z) UOpt)
  | OContains z => (b, lift (h_contains (flatten b) z) UBool)
  | OGetOrDefault z d => (b, lift (h_get_or_default (flatten b) z d) UVal)
  | OLen => (b, lift (len (flatten b)) UNat)
  | OIsEmpty => (b, lift (is_empty (flatten b)) UBool)
  | OGetMutWrite z v =>
      match b_get_mut_write b z v with
      | Ok (b', ok) => (b', UBool ok) | Panic _ => (b, UPanic) | OutOfFuel => (b, UFuel)
      | UB _ => (b, UUB) end
  | OClear => (b_clear b, UUnit)
  | OIter kinds steps =>
      (b, lift (do pool <- mk_its (flatten b) kinds; run_steps (flatten b) pool steps) UItems)
  | OFirstLast => (b, lift (do f <- first (flatten b); do l <- last (flatten b); Ok (f, l))
                           (fun p => UFirstLast (fst p) (snd p)))
  | OSlices =>
      (b, lift (do i <- items (flatten b); do f <- items_fast (flatten b); do k <- keys (flatten b); do v <- values (flatten b);
                Ok (i, f, k, v))
               (fun '(i, f, k, v) => USlices i f k v))
  | ORange lo hi => (b, lift (range_collect (flatten b) lo hi) UList)
  | OItemsRange s e => (b, lift (items_range_collect (flatten b) s e) UList)
  | OFromPos p idx e =>
      (b, lift (do id <- chain_nth (flatten b) p;
                match id with
                | Some i => from_position_collect (flatten b) i idx e
                | None => Ok []
                end) UList)
  | OValidate =>
      (b, lift (do ci <- check_invariants (flatten b); do cid <- check_invariants_detailed (flatten b);
                do vfo <- validate_for_operation (flatten b); Ok (ci, cid, vfo))
               (fun '(ci, cid, vfo) => UValidate ci cid vfo))
  | OIntrospect =>
      (b, lift (do lc <- leaf_count (flatten b); do cn <- count_nodes_in_tree (flatten b); do ls <- leaf_sizes (flatten b);
                Ok (lc, cn, ls))
               (fun '(lc, cn, ls) =>
                  UIntro lc cn ls (is_leaf_root (flatten b)) (allocated_leaf_count (flatten b))
                         (allocated_branch_count (flatten b)) (free_leaf_count (flatten b)) (free_branch_count (flatten b))))
  | OTryGet z | OGetItem z =>
      (b, lift (h_get (flatten b) z)
               (fun r => match r with Some v => URes (Some v) None
                                 | None => URes None (Some KeyNotFound) end))
  | OGetMany zs =>
      (b, lift (get_many (flatten b) zs [])
               (fun r => match r with Some l => UResList (Some l) None
                                 | None => UResList None (Some KeyNotFound) end))
  | ORemoveItem z =>
      match b_remove b z with
      | Ok (b', Some v) => (b', URes (Some v) None)
      | Ok (b', None) => (b', URes None (Some KeyNotFound))
      | Panic _ => (b, UPanic) | OutOfFuel => (b, UFuel) | UB _ => (b, UUB) end
  | OTryInsert k v =>
      match try_insert b k v with
      | Ok (b', r, e) => (b', UResOpt r e)
      | Panic _ => (b, UPanic) | OutOfFuel => (b, UFuel) | UB _ => (b, UUB) end
  | OTryRemove z =>
      match try_remove b z with
      | Ok (b', r, e) => (b', URes r e)
      | Panic _ => (b, UPanic) | OutOfFuel => (b, UFuel) | UB _ => (b, UUB) end
  | OBatchInsert items =>
      match batch_insert b items [] [] with
      | Ok (b', r, e) => (b', UResOptList r e)
      | Panic _ => (b, UPanic) | OutOfFuel => (b, UFuel) | UB _ => (b, UUB) end
  end.

Fixpoint run (b : bstate V) (ops : list op) : bstate V * list out :=
  match ops with
  | [] => (b, [])
  | o :: ops' =>
      let '(b1, x) := step b o in
      let '(b2, xs) := run b1 ops' in (b2, x :: xs)
  end.

End Run.

Arguments OInsert {V}.
Arguments ORemove {V}.
Arguments OGet {V}.
Arguments OContains {V}.
Arguments OGetOrDefault {V}.
Arguments OLen {V}.
Arguments OIsEmpty {V}.
Arguments OGetMutWrite {V}.
Arguments OClear {V}.
Arguments OIter {V}.
Arguments OFirstLast {V}.
Arguments OSlices {V}.
Arguments ORange {V}.
Arguments OItemsRange {V}.
Arguments OFromPos {V}.
Arguments OValidate {V}.
Arguments OIntrospect {V}.
Arguments OTryGet {V}.
Arguments OGetItem {V}.
Arguments OGetMany {V}.
Arguments ORemoveItem {V}.
Arguments OTryInsert {V}.
Arguments OTryRemove {V}.
Arguments OBatchInsert {V}.
Arguments UOpt {V}.
Arguments UBool {V}.
Arguments UNat {V}.
Arguments UVal {V}.
Arguments UUnit {V}.
Arguments UItems {V}.
Arguments UList {V}.
Arguments UFirstLast {V}.
Arguments USlices {V}.
Arguments UValidate {V}.
Arguments UIntro {V}.
Arguments URes {V}.
Arguments UResOpt {V}.
Arguments UResList {V}.
Arguments UResOptList {V}.
Arguments UPanic {V}.
Arguments UFuel {V}.
Arguments UUB {V}.
