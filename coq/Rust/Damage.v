(* Primitive edits of a raw heap, used to (a) inject the documented kinds of structural
   damage (C14) and (b) mimic what the crate's safe node/arena helpers can do to a map
   (C15: get_leaf_mut + push_key/take_*/..., set_leaf_next, allocate_leaf, root
   replacement).  After an edit the state is a plain [heap]; only read-only operations
   and the refusing paths of try_insert/try_remove are defined on it ([hstep]).
   Definitions only. *)
From BPT Require Import Common.Base Rust.Arena Rust.Tree Rust.Heap Rust.Readers Rust.Run.
Set Implicit Arguments.

Section Damage.
Variable V : Type.
Notation heap := (heap V).

(* pre-order ids of the branches reachable from the root *)
Fixpoint h_branch_ids (fuel : nat) (h : heap) (r : nref) : res (list N) :=
  match fuel with
  | O => OutOfFuel
  | S f =>
    match r with
    | RLeaf _ => Ok []
    | RBranch id =>
        match get_branch h id with
        | Some b => do rest <- concat_res (map (h_branch_ids f h) (bkids b)); Ok (id :: rest)
        | None => Ok []
        end
    end
  end.
Definition collect_branch_ids (h : heap) := h_branch_ids (dfuel h) h (hroot h).

Definition leaf_at (h : heap) (p : nat) : option N :=
  match collect_leaf_ids h with Ok l => nth_error l p | _ => None end.
Definition branch_at (h : heap) (p : nat) : option N :=
  match collect_branch_ids h with Ok l => nth_error l p | _ => None end.

Definition upd_leaf (h : heap) (id : N) (f : leaf V -> leaf V) : heap :=
  match get_leaf h id with
  | Some l => mkHeap (hcap h) (hroot h) (fst (a_set (hleaves h) id (f l))) (hbranches h)
  | None => h
  end.
Definition upd_branch (h : heap) (id : N) (f : branch -> branch) : heap :=
  match get_branch h id with
  | Some b => mkHeap (hcap h) (hroot h) (hleaves h) (fst (a_set (hbranches h) id (f b)))
  | None => h
  end.

Definition set_kz (i : nat) (z : Z) (ks : list key) : list key :=
  match nth_error ks i with
  | Some k => set_nth i (mkKey z (kid k)) ks
  | None => ks
  end.

Inductive target := TPos (p : nat) | TNull | TRaw (id : N).

Inductive edit : Type :=
| ELeafKey (p i : nat) (z : Z)          (* leaf p: keys[i].z := z *)
| EBranchKey (p i : nat) (z : Z)        (* branch p: keys[i].z := z *)
| ELeafKeyCopy (p i j : nat)             (* leaf p: keys[i].z := keys[j].z  (duplicate) *)
| EBranchKeyCopy (p i j : nat)
| ELeafLastKey (p : nat) (z : Z)         (* leaf p: last key's z := z *)
| ELeafPopVal (p : nat)                  (* leaf p: values.pop() *)
| ELeafPopKey (p : nat)                  (* leaf p: keys.pop() *)
| ELeafPush (p : nat) (k : key) (v : V)  (* leaf p: push_key; push_value *)
| ELeafPushKey (p : nat) (k : key)       (* leaf p: push_key only *)
| ELeafPushVal (p : nat) (v : V)         (* leaf p: push_value only *)
| ELeafTrunc (p n : nat)                 (* leaf p: truncate keys and values to n *)
| EBranchTrunc (p n : nat)               (* branch p: keys truncated to n, children to n+1 *)
| EBranchPopChild (p : nat)
| EBranchDupChild (p : nat)
| EBranchPush (p : nat) (k : key)        (* branch p: keys.push(k); children.push(last child) *)
| EBranchPushLeaf (p : nat) (ks : list key) (vs : list V)
    (* branch p, whose last child is a leaf l: a new leaf (ks, vs) is allocated and linked in
       after l; keys.push(first key of ks); children.push(Leaf(new)) *)
| EBranchRef (p i : nat) (id : N)        (* branch p: children[i] := same kind, raw id *)
| ERoot (leafkind : bool) (id : N)       (* root := Leaf(id) | Branch(id) *)
| ELeafNext (p : nat) (t : target)       (* set_leaf_next *)
| EOrphanLeaf                            (* allocate_leaf(LeafNode::new(cap)), unreferenced *)
| EOrphanBranch                          (* allocate_branch(BranchNode::new(cap)), unreferenced *)
| EFreeLeaf (p : nat)                    (* deallocate_leaf(id of leaf p) *)
| EFreeBranch (p : nat).                 (* deallocate_branch(id of branch p) *)

Definition same_kind (r : nref) (id : N) : nref :=
  match r with RLeaf _ => RLeaf id | RBranch _ => RBranch id end.

Definition on_leaf (h : heap) (p : nat) (f : leaf V -> leaf V) : heap :=
  match leaf_at h p with Some id => upd_leaf h id f | None => h end.
Definition on_branch (h : heap) (p : nat) (f : branch -> branch) : heap :=
  match branch_at h p with Some id => upd_branch h id f | None => h end.

Definition apply_edit (h : heap) (e : edit) : heap :=
  match e with
  | ELeafKey p i z => on_leaf h p (fun l => mkLeaf (lcap l) (set_kz i z (lkeys l)) (lvals l) (lnext l))
  | EBranchKey p i z => on_branch h p (fun b => mkBranch (bcap b) (set_kz i z (bkeys b)) (bkids b))
  | ELeafKeyCopy p i j =>
      on_leaf h p (fun l => match nth_error (lkeys l) j with
                            | Some k => mkLeaf (lcap l) (set_kz i (kz k) (lkeys l)) (lvals l) (lnext l)
                            | None => l end)
  | EBranchKeyCopy p i j =>
      on_branch h p (fun b => match nth_error (bkeys b) j with
                              | Some k => mkBranch (bcap b) (set_kz i (kz k) (bkeys b)) (bkids b)
                              | None => b end)
  | ELeafLastKey p z =>
      on_leaf h p (fun l => mkLeaf (lcap l) (set_kz (length (lkeys l) - 1) z (lkeys l)) (lvals l) (lnext l))
  | ELeafPopVal p => on_leaf h p (fun l => mkLeaf (lcap l) (lkeys l) (removelast (lvals l)) (lnext l))
  | ELeafPopKey p => on_leaf h p (fun l => mkLeaf (lcap l) (removelast (lkeys l)) (lvals l) (lnext l))
  | ELeafPush p k v => on_leaf h p (fun l => mkLeaf (lcap l) (lkeys l ++ [k]) (lvals l ++ [v]) (lnext l))
  | ELeafPushKey p k => on_leaf h p (fun l => mkLeaf (lcap l) (lkeys l ++ [k]) (lvals l) (lnext l))
  | ELeafPushVal p v => on_leaf h p (fun l => mkLeaf (lcap l) (lkeys l) (lvals l ++ [v]) (lnext l))
  | ELeafTrunc p n => on_leaf h p (fun l => mkLeaf (lcap l) (firstn n (lkeys l)) (firstn n (lvals l)) (lnext l))
  | EBranchTrunc p n => on_branch h p (fun b => mkBranch (bcap b) (firstn n (bkeys b)) (firstn (S n) (bkids b)))
  | EBranchPopChild p => on_branch h p (fun b => mkBranch (bcap b) (bkeys b) (removelast (bkids b)))
  | EBranchDupChild p =>
      on_branch h p (fun b => mkBranch (bcap b) (bkeys b)
                                (bkids b ++ match last_opt (bkids b) with Some c => [c] | None => [] end))
  | EBranchPush p k =>
      on_branch h p (fun b => mkBranch (bcap b) (bkeys b ++ [k])
                                (bkids b ++ match last_opt (bkids b) with Some c => [c] | None => [] end))
  | EBranchPushLeaf p ks vs =>
      match branch_at h p with
      | Some bid =>
          match get_branch h bid with
          | Some b =>
              match last_opt (bkids b), ks with
              | Some (RLeaf lid), k :: _ =>
                  match get_leaf h lid with
                  | Some l =>
                      match allocate (hleaves h) (mkLeaf (hcap h) ks vs (lnext l)) with
                      | Ok (a, nid) =>
                          let h1 := mkHeap (hcap h) (hroot h) a (hbranches h) in
                          let h2 := upd_leaf h1 lid (fun l' => mkLeaf (lcap l') (lkeys l') (lvals l') nid) in
                          upd_branch h2 bid
                            (fun b' => mkBranch (bcap b') (bkeys b' ++ [k]) (bkids b' ++ [RLeaf nid]))
                      | _ => h
                      end
                  | None => h
                  end
              | _, _ => h
              end
          | None => h
          end
      | None => h
      end
  | EBranchRef p i id =>
      on_branch h p (fun b => match nth_error (bkids b) i with
                              | Some c => mkBranch (bcap b) (bkeys b) (set_nth i (same_kind c id) (bkids b))
                              | None => b end)
  | ERoot lk id => mkHeap (hcap h) (if lk then RLeaf id else RBranch id) (hleaves h) (hbranches h)
  | ELeafNext p t =>
      let nx := match t with
                | TPos q => match leaf_at h q with Some id => id | None => NULL end
                | TNull => NULL
                | TRaw id => id
                end in
      on_leaf h p (fun l => mkLeaf (lcap l) (lkeys l) (lvals l) nx)
  | EOrphanLeaf =>
      match allocate (hleaves h) (mkLeaf (hcap h) [] [] NULL) with
      | Ok (a, _) => mkHeap (hcap h) (hroot h) a (hbranches h)
      | _ => h
      end
  | EOrphanBranch =>
      match allocate (hbranches h) (mkBranch (hcap h) [] []) with
      | Ok (a, _) => mkHeap (hcap h) (hroot h) (hleaves h) a
      | _ => h
      end
  | EFreeLeaf p =>
      match leaf_at h p with
      | Some id => match deallocate (@dflt_leaf V) (hleaves h) id with
                   | Ok (a, _) => mkHeap (hcap h) (hroot h) a (hbranches h)
                   | _ => h end
      | None => h
      end
  | EFreeBranch p =>
      match branch_at h p with
      | Some id => match deallocate dflt_branch (hbranches h) id with
                   | Ok (a, _) => mkHeap (hcap h) (hroot h) (hleaves h) a
                   | _ => h end
      | None => h
      end
  end.

(* read-only operations and the refusing paths of the checked mutators on a raw heap.
   [None]: the operation would have to mutate a heap the model has no mutator for. *)
Definition hstep (h : heap) (o : op V) : option (out V) :=
  match o with
  | OGet z => Some (lift (h_get h z) UOpt)
  | OContains z => Some (lift (h_contains h z) UBool)
  | OGetOrDefault z d => Some (lift (h_get_or_default h z d) UVal)
  | OLen => Some (lift (len h) UNat)
  | OIsEmpty => Some (lift (is_empty h) UBool)
  | OIter kinds steps => Some (lift (do pool <- mk_its h kinds; run_steps h pool steps) UItems)
  | OFirstLast => Some (lift (do f <- first h; do l <- last h; Ok (f, l))
                             (fun p => UFirstLast (fst p) (snd p)))
  | OSlices =>
      Some (lift (do i <- items h; do f <- items_fast h; do k <- keys h; do v <- values h;
                  Ok (i, f, k, v))
                 (fun '(i, f, k, v) => USlices i f k v))
  | ORange lo hi => Some (lift (range_collect h lo hi) UList)
  | OItemsRange s e => Some (lift (items_range_collect h s e) UList)
  | OFromPos p idx e =>
      Some (lift (do id <- chain_nth h p;
                  match id with
                  | Some i => from_position_collect h i idx e
                  | None => Ok []
                  end) UList)
  | OValidate =>
      Some (lift (do ci <- check_invariants h; do cid <- check_invariants_detailed h;
                  do vfo <- validate_for_operation h; Ok (ci, cid, vfo))
                 (fun '(ci, cid, vfo) => UValidate ci cid vfo))
  | OIntrospect =>
      Some (lift (do lc <- leaf_count h; do cn <- count_nodes_in_tree h; do ls <- leaf_sizes h;
                  Ok (lc, cn, ls))
                 (fun '(lc, cn, ls) =>
                    UIntro lc cn ls (is_leaf_root h) (allocated_leaf_count h)
                           (allocated_branch_count h) (free_leaf_count h) (free_branch_count h)))
  | OTryGet z | OGetItem z =>
      Some (lift (h_get h z)
                 (fun r => match r with Some v => URes (Some v) None
                                   | None => URes None (Some KeyNotFound) end))
  | OGetMany zs =>
      Some (lift (get_many h zs [])
                 (fun r => match r with Some l => UResList (Some l) None
                                   | None => UResList None (Some KeyNotFound) end))
  | OTryInsert _ _ =>
      match check_invariants_detailed h with
      | Ok (Some e) => Some (UResOpt None (Some (DataIntegrity e)))
      | Ok None => None
      | Panic _ => Some UPanic | OutOfFuel => Some UFuel | UB _ => Some UUB
      end
  | OTryRemove _ =>
      match check_invariants_detailed h with
      | Ok (Some e) => Some (URes None (Some (DataIntegrity e)))
      | Ok None => None
      | Panic _ => Some UPanic | OutOfFuel => Some UFuel | UB _ => Some UUB
      end
  | _ => None
  end.

End Damage.
