(* An executable, quasi-linear replacement for [flatten] (Rust/Heap.v).

   [flatten] calls [find_leaf]/[find_branch] -- a walk over the whole tree -- once per
   arena slot, i.e. it costs O(slots * nodes).  [flatten_fast] walks the tree once,
   collecting (id, record) pairs (leaves in in-order, branches in pre-order, with an
   accumulator, so no quadratic [++]), loads them into a [PositiveMap] keyed by
   [N.succ_pos id] so that the FIRST occurrence of an id wins, and then fills every slot
   by one logarithmic lookup while walking the mask once with a binary slot counter:  O((nodes + slots) * log(max id))  overall.

   [flatten_fast_eq] holds for every state, without any invariant. *)
From Coq Require Import FMapPositive.
From BPT Require Import Common.Base Rust.Arena Rust.Tree Rust.Heap.
Set Implicit Arguments.

Section HeapFast.
Variable V : Type.
Notation ptree := (ptree V).
Notation leaf := (leaf V).

(* ---------------- induction principle with the hypothesis for all children -------- *)
Lemma ptree_forall_ind : forall (P : ptree -> Prop),
  (forall id c ks vs nx, P (PLeaf id c ks vs nx)) ->
  (forall id c ks cs, Forall P cs -> P (PBranch id c ks cs)) ->
  forall t, P t.
Proof.
  intros P HL HB. fix IH 1. intros [id c ks vs nx|id c ks cs].
  - apply HL.
  - apply HB. induction cs as [|ch cs IHcs]; constructor; [apply IH|apply IHcs].
Qed.

(* ---------------- association lists: first match ---------------- *)
Fixpoint assoc_first (A : Type) (l : list (N * A)) (i : N) : option A :=
  match l with
  | [] => None
  | (j, x) :: l' => if N.eqb j i then Some x else assoc_first l' i
  end.

(* ---------------- one linear walk per node kind ---------------- *)
(* in-order list of the leaves of [t], followed by [acc] *)
Fixpoint leaf_list_acc (t : ptree) (acc : list (N * leaf)) : list (N * leaf) :=
  match t with
  | PLeaf id ncap ks vs next => (id, mkLeaf ncap ks vs next) :: acc
  | PBranch _ _ _ cs =>
      (fix go (l : list ptree) : list (N * leaf) :=
         match l with
         | [] => acc
         | c :: l' => leaf_list_acc c (go l')
         end) cs
  end.

Definition leaf_list (t : ptree) : list (N * leaf) := leaf_list_acc t [].

(* pre-order list of the branches of [t], followed by [acc] *)
Fixpoint branch_list_acc (t : ptree) (acc : list (N * branch)) : list (N * branch) :=
  match t with
  | PLeaf _ _ _ _ _ => acc
  | PBranch id ncap ks cs =>
      (id, mkBranch ncap ks (map (@ref_of V) cs)) ::
      (fix go (l : list ptree) : list (N * branch) :=
         match l with
         | [] => acc
         | c :: l' => branch_list_acc c (go l')
         end) cs
  end.

Definition branch_list (t : ptree) : list (N * branch) := branch_list_acc t [].

Lemma assoc_leaf_list_acc : forall (t : ptree) acc i,
  assoc_first (leaf_list_acc t acc) i =
  match find_leaf t i with Some x => Some x | None => assoc_first acc i end.
Proof.
  induction t as [id c ks vs nx|id c ks cs IH] using ptree_forall_ind; intros acc i.
  - cbn [leaf_list_acc find_leaf assoc_first]. destruct (N.eqb id i); reflexivity.
  - cbn [leaf_list_acc find_leaf].
    induction IH as [|ch cs Hch _ IHcs]; [reflexivity|].
    rewrite Hch. destruct (find_leaf ch i); [reflexivity|apply IHcs].
Qed.

Lemma assoc_leaf_list : forall (t : ptree) i,
  assoc_first (leaf_list t) i = find_leaf t i.
Proof.
  intros t i. unfold leaf_list. rewrite assoc_leaf_list_acc.
  destruct (find_leaf t i); reflexivity.
Qed.

Lemma assoc_branch_list_acc : forall (t : ptree) acc i,
  assoc_first (branch_list_acc t acc) i =
  match find_branch t i with Some x => Some x | None => assoc_first acc i end.
Proof.
  induction t as [id c ks vs nx|id c ks cs IH] using ptree_forall_ind; intros acc i.
  - reflexivity.
  - cbn [branch_list_acc find_branch assoc_first].
    destruct (N.eqb id i); [reflexivity|].
    induction IH as [|ch cs Hch _ IHcs]; [reflexivity|].
    rewrite Hch. destruct (find_branch ch i); [reflexivity|apply IHcs].
Qed.

Lemma assoc_branch_list : forall (t : ptree) i,
  assoc_first (branch_list t) i = find_branch t i.
Proof.
  intros t i. unfold branch_list. rewrite assoc_branch_list_acc.
  destruct (find_branch t i); reflexivity.
Qed.

(* ---------------- finite map, first occurrence wins ---------------- *)
Definition pkey (i : N) : positive := N.succ_pos i.

Lemma pkey_inj : forall i j, pkey i = pkey j -> i = j.
Proof.
  intros i j H. apply N.succ_inj. rewrite <- !N.succ_pos_spec.
  unfold pkey in H. rewrite H. reflexivity.
Qed.

(* folding from the right and adding unconditionally: the binding added last, i.e. the
   first one of the list, is the one that stays *)
Definition build (A : Type) (l : list (N * A)) : PositiveMap.t A :=
  fold_right (fun p m => PositiveMap.add (pkey (fst p)) (snd p) m)
             (PositiveMap.empty A) l.

Lemma find_build : forall (A : Type) (l : list (N * A)) i,
  PositiveMap.find (pkey i) (build l) = assoc_first l i.
Proof.
  intros A l i. induction l as [|[j x] l IHl].
  - apply PositiveMap.gempty.
  - cbn [build fold_right fst snd assoc_first]. fold (build l).
    destruct (N.eqb_spec j i) as [->|Hne].
    + apply PositiveMap.gss.
    + rewrite PositiveMap.gso; [exact IHl|].
      intros Heq. apply Hne. symmetry. apply pkey_inj. exact Heq.
Qed.

(* ---------------- filling the slots ---------------- *)
(* one pass over the mask with a running binary slot number: no [nth_error], no
   [N.of_nat] per slot (both linear in the slot number on unary [nat]) *)
Fixpoint fill (A : Type) (dflt : A) (m : PositiveMap.t A) (msk : list bool) (i : N)
  : list A :=
  match msk with
  | [] => []
  | bit :: msk' =>
      match PositiveMap.find (pkey i) m with
      | Some x => if bit then x else dflt
      | None => dflt
      end :: fill dflt m msk' (N.succ i)
  end.

Lemma fill_spec_gen : forall (A : Type) (dflt : A) (m : PositiveMap.t A) msk pre,
  fill dflt m msk (N.of_nat (length pre)) =
  map (fun i => match PositiveMap.find (pkey (N.of_nat i)) m with
                | Some x => if match nth_error (pre ++ msk) i with
                               | Some b => b | None => false end
                            then x else dflt
                | None => dflt end)
      (seq (length pre) (length msk)).
Proof.
  intros A dflt m msk. induction msk as [|bit msk IH]; intros pre; [reflexivity|].
  cbn [fill length seq map]. f_equal.
  - rewrite nth_error_app2 by apply Nat.le_refl. rewrite Nat.sub_diag. reflexivity.
  - specialize (IH (pre ++ [bit])).
    rewrite app_length, Nat.add_1_r, Nat2N.inj_succ, <- app_assoc in IH. exact IH.
Qed.

Lemma fill_spec : forall (A : Type) (dflt : A) (m : PositiveMap.t A) msk,
  fill dflt m msk 0%N =
  map (fun i => match PositiveMap.find (pkey (N.of_nat i)) m with
                | Some x => if match nth_error msk i with
                               | Some b => b | None => false end
                            then x else dflt
                | None => dflt end)
      (seq 0 (length msk)).
Proof. intros A dflt m msk. exact (fill_spec_gen dflt m msk []). Qed.

(* ---------------- the fast layout ---------------- *)
Definition flatten_fast (b : bstate V) : heap V :=
  let lm := lmeta b in
  let bm := bmeta b in
  mkHeap (cap b) (ref_of (root b))
    (mkArena (fill (dflt_leaf V) (build (leaf_list (root b))) (m_mask lm) 0%N)
             (m_mask lm) (m_free lm))
    (mkArena (fill dflt_branch (build (branch_list (root b))) (m_mask bm) 0%N)
             (m_mask bm) (m_free bm)).

Theorem flatten_fast_eq_sec : forall (b : bstate V), flatten_fast b = flatten b.
Proof.
  intros b. unfold flatten_fast, flatten. cbv zeta.
  f_equal; f_equal; rewrite fill_spec; apply map_ext; intros i; unfold m_mask_at.
  - rewrite find_build, assoc_leaf_list. reflexivity.
  - rewrite find_build, assoc_branch_list. reflexivity.
Qed.

End HeapFast.

Theorem flatten_fast_eq : forall (V : Type) (b : bstate V), flatten_fast b = flatten b.
Proof. exact flatten_fast_eq_sec. Qed.

(* field-wise corollaries *)
Lemma flatten_fast_hleaves : forall (V : Type) (b : bstate V),
  hleaves (flatten_fast b) = hleaves (flatten b).
Proof. intros. rewrite flatten_fast_eq. reflexivity. Qed.

Lemma flatten_fast_hbranches : forall (V : Type) (b : bstate V),
  hbranches (flatten_fast b) = hbranches (flatten b).
Proof. intros. rewrite flatten_fast_eq. reflexivity. Qed.

(* ---------------- sanity checks on concrete states ---------------- *)
Module HeapFastTest.

Definition ins_all (ks : list Z) (b : bstate Z) : bstate Z :=
  fold_left (fun b z => match b_insert b (mkKey z 0%N) z with
                        | Ok (b', _) => b'
                        | _ => b end) ks b.

Definition st0 : bstate Z :=
  match b_new Z 4 with Some b => b | None => mkB 4 (PLeaf 0%N 4 [] [] NULL) (mkMeta [] []) (mkMeta [] []) end.

(* 24 keys in a scrambled order: several leaf and branch splits, height 2 *)
Definition keys24 : list Z :=
  [50; 3; 17; 42; 8; 99; 23; 61; 5; 77; 12; 36; 1; 88; 29; 70; 45; 14; 66; 9; 31; 54; 2; 93]%Z.
Definition st24 : bstate Z := ins_all keys24 st0.

Goal height (root st24) = 2. Proof. vm_compute. reflexivity. Qed.
Goal length (leaf_list (root st24)) = 7 /\ length (branch_list (root st24)) = 3.
Proof. vm_compute. split; reflexivity. Qed.
Goal flatten_fast st24 = flatten st24. Proof. vm_compute. reflexivity. Qed.

(* a damaged state: duplicated ids (first occurrence must win in both orders), a slot
   whose mask bit is off, ids beyond the mask, a free list *)
Definition dup : bstate Z :=
  mkB 4
    (PBranch 1 4 [mkKey 10 0]
       [PBranch 1 4 [mkKey 5 0] [PLeaf 0 4 [mkKey 1 0] [1%Z] 2; PLeaf 2 4 [mkKey 5 0] [5%Z] 0];
        PBranch 0 4 [mkKey 20 0] [PLeaf 0 4 [mkKey 10 0] [10%Z] 1; PLeaf 7 4 [mkKey 20 0] [20%Z] NULL;
                                  PBranch 2 9 [] []]])
    (mkMeta [true; true; false; true] [2])
    (mkMeta [true; true; true; false] [3]).
Goal flatten_fast dup = flatten dup. Proof. vm_compute. reflexivity. Qed.

(* Timing test (not run at build time; vm_compute, [chk] forces every slot of both stores):
     Definition chk (h : heap Z) :=
       fold_left (fun a l => length (lkeys l) + a) (store (hleaves h)) 0
       + fold_left (fun a x => length (bkids x) + a) (store (hbranches h)) 0.
     Definition big n := ins_all (map Z.of_nat (seq 0 n)) st0.     (* cap 4, ascending *)
     Definition bN := Eval vm_compute in big N.
     Time Eval vm_compute in chk (flatten bN).  Time Eval vm_compute in chk (flatten_fast bN).
   measured:   N      leaves   flatten    flatten_fast
              1000      499    0.048 s      0.025 s
              4000     1999    0.63  s      0.14  s
             16000     7999   15.5   s      0.27  s       (same checksum in every row) *)

End HeapFastTest.

Print Assumptions flatten_fast_eq.
