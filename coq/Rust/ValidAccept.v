(* C14, completeness half, and C06 introspection: on the heap of a state satisfying the
   invariant both validators accept, and the introspection counters agree with the tree. *)
From Coq Require Import List Arith ZArith NArith Lia Bool Permutation.
From BPT Require Import Common.Base Common.AMap Rust.Arena Rust.Tree Rust.Heap Rust.Readers
  Rust.InvDefs Rust.Repr Rust.Lib Rust.TreeFactsI Rust.Bridge Rust.ReadersGet Rust.ReadersIter
  Rust.ValidDefs Rust.ValidSound.
Import ListNotations.
Set Implicit Arguments.

(* ------------------------------------------------------------------ *)
(* counting *)

Lemma VA_filter_split : forall (A : Type) (f g : A -> bool) l,
  (forall x, In x l -> f x = negb (g x)) ->
  length (filter f l) + length (filter g l) = length l.
Proof.
  induction l as [|x l IH]; intros H; [reflexivity|].
  cbn [filter]. rewrite (H x) by (left; reflexivity).
  assert (IH' := IH (fun y Hy => H y (or_intror Hy))).
  destruct (g x); cbn [negb length]; lia.
Qed.

Lemma meta_free_count : forall m ids, meta_ok m ids ->
  length (m_free m) + count_true (m_mask m) = length (m_mask m).
Proof.
  intros m ids (_ & _ & NDf & Hf). rewrite count_true_seq.
  set (n := length (m_mask m)).
  set (gg := fun i => match nth_error (m_mask m) i with Some b => b | None => false end).
  set (ff := fun i => match nth_error (m_mask m) i with Some b => negb b | None => false end).
  assert (E : length (m_free m) = length (filter ff (seq 0 n))).
  { assert (ND2 : NoDup (filter ff (seq 0 n))) by (apply NoDup_filter, seq_NoDup).
    assert (I1 : incl (m_free m) (filter ff (seq 0 n))).
    { intros i Hi. apply Hf in Hi. apply filter_In. split.
      - apply in_seq. assert (i < length (m_mask m)) by (apply nth_error_Some; congruence).
        unfold n. lia.
      - unfold ff. rewrite Hi. reflexivity. }
    assert (I2 : incl (filter ff (seq 0 n)) (m_free m)).
    { intros i Hi. apply filter_In in Hi. destruct Hi as (_ & Hi). apply Hf.
      unfold ff in Hi. destruct (nth_error (m_mask m) i) as [[|]|]; try discriminate. reflexivity. }
    pose proof (NoDup_incl_length NDf I1). pose proof (NoDup_incl_length ND2 I2). lia. }
  rewrite E. fold gg. rewrite VA_filter_split; [apply seq_length|].
  intros i Hi. apply in_seq in Hi. unfold ff, gg.
  destruct (nth_error (m_mask m) i) as [bb|] eqn:En; [reflexivity|].
  apply nth_error_None in En. unfold n in Hi. lia.
Qed.

(* ------------------------------------------------------------------ *)
Section ValidAccept.
Variable V : Type.
Notation ptree := (ptree V).

Lemma get_leaf_null : forall h : heap V, get_leaf h NULL = None.
Proof. intros h. unfold get_leaf, a_get. rewrite N.eqb_refl. reflexivity. Qed.

(* ---------------- check_node on a represented tree ---------------- *)
Lemma check_node_tree : forall (h : heap V) fuel (t : ptree) lo hi r hh,
  ord lo hi t -> shape (hcap h) r hh t -> repr h t -> hh < fuel ->
  check_node fuel h (ref_of t) lo hi r = Ok true.
Proof.
  intros h. induction fuel as [|f IH]; intros t lo hi r hh O Sh R Hf; [lia|].
  destruct t as [id c0 ks vs nx | id c0 ks cs].
  - destruct (ord_leaf_inv O) as [Hs HF].
    destruct (shape_leaf_inv Sh) as (_ & -> & Lv & Lc & Hmin).
    cbn [check_node ref_of]. rewrite (repr_leaf R). cbn [lkeys lvals lcap].
    f_equal. repeat (apply andb_true_iff; split).
    + rewrite Lv. apply Nat.eqb_refl.
    + apply strictly_asc_sorted. exact Hs.
    + apply Nat.leb_le. exact Lc.
    + destruct r; [apply orb_true_r|]. rewrite orb_false_r.
      apply negb_true_iff, Nat.ltb_ge. auto.
    + exact (leaf_bounds_first HF).
    + exact (leaf_bounds_last HF).
  - destruct (ord_branch_inv O) as (Hs & HF & Hc).
    destruct (shape_branch_inv Sh) as (h' & -> & -> & Lc & Lk & Hmin & _ & Hsh).
    cbn [check_node ref_of]. rewrite (repr_branch R). cbn [bkeys bkids bcap].
    replace (Nat.eqb (S (length ks)) (length (map (@ref_of V) cs))) with true
      by (symmetry; apply Nat.eqb_eq; rewrite map_length; lia).
    cbn [negb].
    rewrite (proj2 (strictly_asc_sorted ks) Hs). cbn [negb].
    rewrite (proj2 (Nat.ltb_ge _ _) Lk).
    assert (Hocc : andb (Nat.ltb (length ks) (hcap h / 2)) (negb r) = false).
    { destruct r; [apply andb_false_r|]. rewrite andb_true_r. apply Nat.ltb_ge. auto. }
    rewrite Hocc.
    destruct (map (@ref_of V) cs) as [|r0 l0] eqn:Ek.
    { apply (f_equal (@length _)) in Ek. rewrite map_length, Lc in Ek. discriminate. }
    rewrite <- Ek. clear Ek r0 l0.
    apply all_res_intro. intros r0 Hin.
    apply in_map_iff in Hin. destruct Hin as ([i c] & <- & Hin).
    apply VS_in_combine_seq_inv in Hin. destruct Hin as [_ Hn].
    rewrite Nat.sub_0_r in Hn. rewrite nth_error_map in Hn.
    destruct (nth_error cs i) as [ch|] eqn:En; [|discriminate].
    cbn [option_map] in Hn. inversion Hn; subst c. cbn [fst snd].
    pose proof (Hc i ch En) as Och.
    destruct (child_bounds ks lo hi i) as [lo' hi'] eqn:Ecb. cbn [fst snd] in Och.
    apply nth_error_In in En.
    apply (IH ch lo' hi' false h'); auto; [eapply repr_child; eauto | lia].
Qed.

Theorem check_node_complete : forall (b : bstate V) (h : heap V), Inv b -> heap_of b h ->
  check_invariants h = Ok true.
Proof.
  intros b h I HO. destruct (ReadersGet.fuel_ok I HO) as (hh & Sh & Hf).
  unfold check_invariants. rewrite (ho_root HO).
  apply check_node_tree with (hh := hh); auto.
  - apply (inv_ord I).
  - rewrite (ho_cap HO). exact Sh.
  - apply (ho_repr HO).
Qed.

(* ---------------- the leaf chain ---------------- *)
Lemma leaf_links_leaves_of : forall t : ptree,
  leaf_links t = map (fun p : N * leaf V => (fst p, lnext (snd p))) (leaves_of t).
Proof.
  induction t as [id c ks vs nx | id c ks cs IH] using ptree_ind_in.
  - reflexivity.
  - cbn [leaf_links leaves_of]. rewrite RG_map_flat_map. apply RG_flat_map_ext_in. exact IH.
Qed.

Lemma leaf_links_sub : forall (t : ptree) i n, In (i, n) (leaf_links t) ->
  exists c ks vs, subtree (PLeaf i c ks vs n) t.
Proof.
  induction t as [id c ks vs nx | id c ks cs IH] using ptree_ind_in; intros i n Hin.
  - cbn [leaf_links] in Hin. destruct Hin as [E|[]]. inversion E; subst.
    exists c, ks, vs. apply sub_refl.
  - cbn [leaf_links] in Hin. apply in_flat_map in Hin. destruct Hin as (ch & Hch & Hin).
    destruct (IH ch Hch _ _ Hin) as (c' & ks' & vs' & Hs).
    exists c', ks', vs'. eapply sub_child; eauto.
Qed.

Lemma chain_walk : forall (h : heap V) l fuel id nx,
  (forall i n, In (i, n) ((id, nx) :: l) -> exists lf, get_leaf h i = Some lf /\ lnext lf = n) ->
  links_ok ((id, nx) :: l) NULL -> length l + 2 <= fuel ->
  chain_ids fuel h (Some id) = Ok (id :: map fst l).
Proof.
  intros h. induction l as [|[id' nx'] l IH]; intros fuel id nx Hst Hl Hf.
  - destruct fuel as [|[|f]]; [cbn [length] in Hf; lia..|].
    destruct (Hst id nx (or_introl eq_refl)) as (lf & Hg & Hn).
    cbn [links_ok] in Hl. destruct Hl as [Hnx _]. subst nx.
    cbn [chain_ids]. rewrite Hg, Hn, N.eqb_refl. reflexivity.
  - destruct fuel as [|f]; [lia|].
    destruct (Hst id nx (or_introl eq_refl)) as (lf & Hg & Hn).
    cbn [links_ok] in Hl. destruct Hl as [Hnx Hl]. subst nx.
    assert (Hnn : id' <> NULL).
    { intros ->. destruct (Hst NULL nx' (or_intror (or_introl eq_refl))) as (lf' & Hg' & _).
      rewrite get_leaf_null in Hg'. discriminate. }
    cbn [chain_ids]. rewrite Hg, Hn. apply N.eqb_neq in Hnn. rewrite Hnn.
    rewrite (IH f id' nx').
    + reflexivity.
    + intros i n Hin. apply Hst. right. exact Hin.
    + exact Hl.
    + cbn [length] in Hf. lia.
Qed.

Lemma chain_spec : forall (b : bstate V) (h : heap V), Inv b -> heap_of b h ->
  exists id, get_first_leaf_id h = Ok (Some id) /\
    chain_ids (S (S (length (store (hleaves h))))) h (Some id) = Ok (leaf_ids (root b)).
Proof.
  intros b h I HO. destruct (first_leaf_spec I HO) as (id & l & rest & El & Ef & _).
  exists id. split; [exact Ef|].
  pose proof (leaf_links_leaves_of (root b)) as ELL. rewrite El in ELL. cbn [map fst snd] in ELL.
  set (L := map (fun p : N * leaf V => (fst p, lnext (snd p))) rest) in *.
  unfold leaf_ids. rewrite ELL. cbn [map fst].
  apply chain_walk with (nx := lnext l).
  - intros i n Hin. rewrite <- ELL in Hin. apply leaf_links_sub in Hin.
    destruct Hin as (c & ks & vs & Hs).
    exists (mkLeaf c ks vs n). split; [|reflexivity].
    destruct (ho_repr HO) as [RL _]. apply RL. exact Hs.
  - pose proof (inv_chain I) as Hc. unfold chain_ok in Hc. rewrite ELL in Hc. exact Hc.
  - pose proof (n_leaves_le_slots I) as Hn. unfold n_leaves in Hn. rewrite ELL in Hn.
    cbn [length] in Hn. rewrite (ho_llen HO). lia.
Qed.

(* ---------------- arena counters ---------------- *)
Lemma a_len_leaves : forall (b : bstate V) (h : heap V), Inv b -> heap_of b h ->
  a_len (hleaves h) = n_leaves (root b).
Proof.
  intros b h I HO. unfold a_len. rewrite (ho_lmask HO). unfold n_leaves.
  rewrite <- (map_length fst). symmetry. apply meta_count. apply (inv_leaves I).
Qed.

Lemma a_len_branches : forall (b : bstate V) (h : heap V), Inv b -> heap_of b h ->
  a_len (hbranches h) = n_branches (root b).
Proof.
  intros b h I HO. unfold a_len. rewrite (ho_bmask HO). unfold n_branches.
  symmetry. apply meta_count. apply (inv_branches I).
Qed.

(* ---------------- check_invariants_detailed ---------------- *)
Theorem detailed_complete : forall (b : bstate V) (h : heap V), Inv b -> heap_of b h ->
  check_invariants_detailed h = Ok None.
Proof.
  intros b h I HO. unfold check_invariants_detailed.
  rewrite (check_node_complete I HO). cbn [bind negb].
  rewrite (keys_spec I HO). cbn [bind].
  assert (Hs : strictly_asc (map fst (contents (root b))) = true).
  { apply strictly_asc_sorted. destruct (inv_shape I) as (hh & Sh).
    exact (contents_sorted (inv_ord I) Sh). }
  rewrite Hs. cbn [negb].
  rewrite (len_spec I HO). cbn [bind]. rewrite map_length, Nat.eqb_refl. cbn [negb].
  rewrite (count_nodes_spec I HO). cbn [bind fst snd].
  rewrite (a_len_leaves I HO), (a_len_branches I HO), !Nat.eqb_refl. cbn [negb].
  rewrite (collect_leaf_ids_spec I HO). cbn [bind].
  destruct (chain_spec I HO) as (id & Ef & Ec).
  rewrite Ef. cbn [bind]. rewrite Ec. cbn [bind].
  rewrite list_eqb_refl. reflexivity.
Qed.

(* ---------------- introspection ---------------- *)
Theorem introspection_agrees : forall (b : bstate V) (h : heap V), Inv b -> heap_of b h -> rooms b ->
  leaf_count h = Ok (n_leaves (root b)) /\ count_nodes_in_tree h = Ok (n_leaves (root b), n_branches (root b)) /\
  leaf_sizes h = Ok (map (fun p => length (lkeys (snd p))) (leaves_of (root b))) /\
  is_leaf_root h = is_leaf (root b) /\
  allocated_leaf_count h = n_leaves (root b) /\ allocated_branch_count h = n_branches (root b) /\
  free_leaf_count h + allocated_leaf_count h = length (store (hleaves h)) /\
  free_branch_count h + allocated_branch_count h = length (store (hbranches h)).
Proof.
  intros b h I HO _.
  split; [apply (leaf_count_spec I HO)|].
  split; [apply (count_nodes_spec I HO)|].
  split; [apply (leaf_sizes_spec I HO)|].
  split; [unfold is_leaf_root; rewrite (ho_root HO); destruct (root b); reflexivity|].
  split; [apply (a_len_leaves I HO)|].
  split; [apply (a_len_branches I HO)|].
  unfold free_leaf_count, free_branch_count, allocated_leaf_count, allocated_branch_count,
    a_free_count, a_len.
  rewrite (ho_lfree HO), (ho_bfree HO), (ho_lmask HO), (ho_bmask HO), (ho_llen HO), (ho_blen HO).
  split.
  - apply (meta_free_count (inv_leaves I)).
  - apply (meta_free_count (inv_branches I)).
Qed.

End ValidAccept.

Print Assumptions check_node_complete.
Print Assumptions detailed_complete.
Print Assumptions introspection_agrees.
