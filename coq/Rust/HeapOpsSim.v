(* Simulation theorems: on [flatten b] (b satisfying the invariant) the arena-level
   mutators of Rust/HeapOps.v compute [flatten] of what the model-B mutators of
   Rust/Tree.v compute, with the same return value.
   Proofs: Rust/HeapOpsSimBase.v (arena/heap primitives, frames, uniqueness of the layout),
   Rust/HeapOpsSimInsert.v, Rust/HeapOpsSimMisc.v, Rust/HeapOpsSimRemove.v. *)
From Coq Require Import List Arith ZArith NArith Lia Bool.
From BPT Require Import Common.Base Rust.Arena Rust.Tree Rust.Heap Rust.Readers Rust.Run
  Rust.InvDefs Rust.Repr Rust.HeapOps Rust.HeapOpsSimBase Rust.HeapOpsSimInsert
  Rust.HeapOpsSimMisc Rust.HeapOpsSimRemove.
Set Implicit Arguments.

Section Sim.
Variable V : Type.

Theorem insert_sim : forall (b : bstate V) k v,
  Inv b -> room (lmeta b) 1 -> room (bmeta b) (height (root b) + 2) ->
  exists b' old, b_insert b k v = Ok (b', old) /\ insert_A (flatten b) k v = Ok (flatten b', old).
Proof. exact (@insert_sim_core V). Qed.

Theorem remove_sim : forall (b : bstate V) z, Inv b -> rooms b ->
  exists b' old, b_remove b z = Ok (b', old) /\ remove_A (flatten b) z = Ok (flatten b', old).
Proof. exact (@remove_sim_core V). Qed.

Theorem get_mut_write_sim : forall (b : bstate V) z v, Inv b -> rooms b ->
  exists b' ok, b_get_mut_write b z v = Ok (b', ok) /\
    get_mut_write_A (flatten b) z v = Ok (flatten b', ok).
Proof. exact (@get_mut_write_sim_core V). Qed.

Theorem clear_sim : forall (b : bstate V), clear_A (flatten b) = flatten (b_clear b).
Proof. exact (@clear_sim_core V). Qed.

(* the four mutating basic operations of Run.step, run on the heap *)
Theorem mut_A_sim : forall (b : bstate V) (o : op V),
  Inv b -> room (lmeta b) 1 -> room (bmeta b) (height (root b) + 2) ->
  match mut_A (flatten b) o with
  | Some r => r = Ok (flatten (fst (step b o)), snd (step b o))
  | None => True
  end.
Proof.
  intros b o I RL RB.
  assert (Rs : rooms b) by (unfold rooms, room in *; split; lia).
  destruct o; cbn [mut_A]; auto.
  - destruct (insert_sim k v I RL RB) as (b' & old & Hb & HA).
    rewrite HA. cbn [bind fst snd step]. rewrite Hb. reflexivity.
  - destruct (remove_sim z I Rs) as (b' & old & Hb & HA).
    rewrite HA. cbn [bind fst snd step]. rewrite Hb. reflexivity.
  - destruct (get_mut_write_sim z v I Rs) as (b' & ok & Hb & HA).
    rewrite HA. cbn [bind fst snd step]. rewrite Hb. reflexivity.
Qed.

End Sim.

Print Assumptions insert_sim.
Print Assumptions remove_sim.
Print Assumptions get_mut_write_sim.
Print Assumptions clear_sim.
Print Assumptions mut_A_sim.
