(* Specification vocabulary for the arena (C16): invariant, operation language, the
   concrete machine [arun] (also run against the real CompactArena by the
   correspondence check) and the abstract machine "finite map from handles to items
   whose allocate may return any non-null handle that is not live". *)
From BPT Require Import Common.Base Rust.Arena.
From Coq Require Import Permutation.
Set Implicit Arguments.

Section Spec.
Variable T : Type.
Variable dflt : T.

Definition ArenaInv (a : arena T) : Prop :=
  length (store a) = length (mask a) /\
  NoDup (free a) /\
  (forall i, In i (free a) <-> nth_error (mask a) i = Some false).

(* the model bound: fewer than 2^32-1 slots (beyond it Rust's try_from panics or, at
   exactly u32::MAX, returns the null handle) *)
Definition small (a : arena T) : Prop := (N.of_nat (length (store a)) < NULL)%N.

Inductive aop :=
| AAlloc (x : T) | AFree (h : N) | AFreeD (h : N) | AFreeNR (h : N)
| AGet (h : N) | ASet (h : N) (x : T) | AHas (h : N)
| ALen | AAllocCount | AIsEmpty | AFreeCount | AStats | AClear | ACompact.

Inductive aout :=
| OId (h : N) | OItem (o : option T) | OBool (b : bool) | ONat (n : nat)
| OStats (n m : nat) | OUnit | OPanic.

Definition astep (a : arena T) (o : aop) : arena T * aout :=
  match o with
  | AAlloc x => match allocate a x with Ok (a', h) => (a', OId h) | _ => (a, OPanic) end
  | AFree h => match deallocate dflt a h with Ok (a', r) => (a', OItem r) | _ => (a, OPanic) end
  | AFreeD h => match deallocate_with_default dflt a h with Ok (a', r) => (a', OItem r) | _ => (a, OPanic) end
  | AFreeNR h => match deallocate_no_return a h with Ok (a', b) => (a', OBool b) | _ => (a, OPanic) end
  | AGet h => (a, OItem (a_get a h))
  | ASet h x => let '(a', b) := a_set a h x in (a', OBool b)
  | AHas h => (a, OBool (a_contains a h))
  | ALen => (a, ONat (a_len a))
  | AAllocCount => (a, ONat (a_allocated_count a))
  | AIsEmpty => (a, OBool (a_is_empty a))
  | AFreeCount => (a, ONat (a_free_count a))
  | AStats => let '(n, m) := a_stats a in (a, OStats n m)
  | AClear => (a_clear a, OUnit)
  | ACompact => (a_compact a, OUnit)
  end.

Fixpoint arun (a : arena T) (ops : list aop) : arena T * list aout :=
  match ops with
  | [] => (a, [])
  | o :: ops' =>
      let '(a', out) := astep a o in
      let '(a'', outs) := arun a' ops' in (a'', out :: outs)
  end.

(* ---------------- abstract machine ---------------- *)
(* state: association list handle -> item, keys pairwise distinct, plus the number of
   released-but-reusable slots *)
Record amap := mkAmap { live : list (N * T); reusable : nat }.

Fixpoint assoc (m : list (N * T)) (h : N) : option T :=
  match m with
  | [] => None
  | (h', x) :: m' => if N.eqb h' h then Some x else assoc m' h
  end.

Definition without (m : list (N * T)) (h : N) : list (N * T) :=
  filter (fun p => negb (N.eqb (fst p) h)) m.

Definition is_some {A} (o : option A) : bool := match o with Some _ => true | None => false end.

Definition release_op (o : aop) : option N :=
  match o with AFree h | AFreeD h | AFreeNR h => Some h | _ => None end.
Definition release_out (o : aop) (r : option T) : aout :=
  match o with AFreeNR _ => OBool (is_some r) | _ => OItem r end.

(* sp m o out m' : the abstract machine may answer [out] and move to [m'] *)
Inductive sp : amap -> aop -> aout -> amap -> Prop :=
| sp_alloc m x h m' :
    h <> NULL -> assoc (live m) h = None ->
    assoc (live m') h = Some x ->
    (forall h', h' <> h -> assoc (live m') h' = assoc (live m) h') ->
    length (live m') = S (length (live m)) ->
    reusable m' = pred (reusable m) ->
    sp m (AAlloc x) (OId h) m'
(* releasing a live handle yields the stored item, kills the handle and makes its slot
   reusable *)
| sp_rel_live m o h x m' :
    release_op o = Some h -> assoc (live m) h = Some x ->
    assoc (live m') h = None ->
    (forall h', h' <> h -> assoc (live m') h' = assoc (live m) h') ->
    S (length (live m')) = length (live m) ->
    reusable m' = S (reusable m) ->
    sp m o (release_out o (Some x)) m'
(* releasing a dead, null, never issued or out-of-range handle reports failure and
   changes nothing *)
| sp_rel_dead m o h :
    release_op o = Some h -> assoc (live m) h = None ->
    sp m o (release_out o None) m
| sp_get m h : sp m (AGet h) (OItem (assoc (live m) h)) m
| sp_set_live m h x m' :
    assoc (live m) h <> None ->
    assoc (live m') h = Some x ->
    (forall h', h' <> h -> assoc (live m') h' = assoc (live m) h') ->
    length (live m') = length (live m) -> reusable m' = reusable m ->
    sp m (ASet h x) (OBool true) m'
| sp_set_dead m h x : assoc (live m) h = None -> sp m (ASet h x) (OBool false) m
| sp_has m h : sp m (AHas h) (OBool (is_some (assoc (live m) h))) m
| sp_len m : sp m ALen (ONat (length (live m))) m
| sp_alloc_count m : sp m AAllocCount (ONat (length (live m))) m
| sp_is_empty m : sp m AIsEmpty (OBool (Nat.eqb (length (live m)) 0)) m
| sp_free_count m : sp m AFreeCount (ONat (reusable m)) m
| sp_stats m : sp m AStats (OStats (length (live m)) (reusable m)) m
| sp_clear m : sp m AClear OUnit (mkAmap [] 0)
| sp_compact m m' :
    Permutation (map snd (live m')) (map snd (live m)) -> reusable m' = 0 ->
    sp m ACompact OUnit m'.

Inductive sp_run : amap -> list aop -> list aout -> amap -> Prop :=
| sr_nil m : sp_run m [] [] m
| sr_cons m o out m1 ops outs m2 :
    sp m o out m1 -> sp_run m1 ops outs m2 -> sp_run m (o :: ops) (out :: outs) m2.

(* refinement relation between the concrete arena and the abstract map *)
Definition R (a : arena T) (m : amap) : Prop :=
  and (NoDup (map fst (live m)))
  (and (forall h, a_get a h = assoc (live m) h)
       (reusable m = length (free a))).

End Spec.
