(* The abstract specification of the map-level API: every call acts on a sorted
   association list ([Common/AMap.v]).  [spec_step] gives the result each operation of
   [Rust/Run.v] must return.  Two operations are not functions of the abstract map alone
   (OFromPos names a leaf position, OIntrospect reports node counts); they have their
   own theorems and are excluded from [abstract_op]. *)
From BPT Require Import Common.Base Common.AMap Rust.Arena Rust.Tree Rust.Heap Rust.Readers Rust.Run.
Set Implicit Arguments.

Section Spec.
Variable V : Type.
Notation amap := (amap V).

Definition within (lo hi : bound) (z : Z) : bool :=
  andb (match lo with Included a => Z.leb a z | Excluded a => Z.ltb a z | Unbounded => true end)
       (match hi with Included b => Z.leb z b | Excluded b => Z.ltb z b | Unbounded => true end).

Definition m_range (m : amap) (lo hi : bound) : amap :=
  filter (fun e => within lo hi (kz (fst e))) m.

Definition opt_bound_lo (s : option Z) : bound :=
  match s with Some z => Included z | None => Unbounded end.
Definition opt_bound_hi (e : option Z) : bound :=
  match e with Some z => Excluded z | None => Unbounded end.

Definition is_some {A} (o : option A) : bool := match o with Some _ => true | None => false end.

(* the n-th next() of an iterator created on map m: n-th entry, then None forever *)
Fixpoint spec_take (k : ikind) (m : amap) (pos n : nat)
  : list (option (option key * option V)) :=
  match n with
  | O => []
  | S n' => project k (nth_error m pos)
            :: spec_take k m (match nth_error m pos with Some _ => S pos | None => pos end) n'
  end.

Fixpoint spec_advance (m : amap) (pos n : nat) : nat :=
  match n with
  | O => pos
  | S n' => spec_advance m (match nth_error m pos with Some _ => S pos | None => pos end) n'
  end.

(* positions of the iterators of the pool, advanced independently *)
Fixpoint spec_steps (kinds : list ikind) (m : amap) (pos : list nat) (steps : list (nat * nat))
  : list (option (option key * option V)) :=
  match steps with
  | [] => []
  | (i, n) :: st' =>
      match nth_error kinds i, nth_error pos i with
      | Some k, Some p =>
          spec_take k m p n ++ spec_steps kinds m (set_nth i (spec_advance m p n) pos) st'
      | _, _ => spec_steps kinds m pos st'
      end
  end.

Fixpoint spec_get_many (m : amap) (zs : list Z) : option (list V) :=
  match zs with
  | [] => Some []
  | z :: zs' =>
      match m_get m z, spec_get_many m zs' with
      | Some v, Some l => Some (v :: l)
      | _, _ => None
      end
  end.

Fixpoint spec_batch (m : amap) (items : list (key * V)) : amap * list (option V) :=
  match items with
  | [] => (m, [])
  | (k, v) :: items' =>
      let '(m', outs) := spec_batch (m_insert m k v) items' in
      (m', m_get m (kz k) :: outs)
  end.

Definition abstract_op (o : op V) : bool :=
  match o with OFromPos _ _ _ | OIntrospect => false | _ => true end.

Definition spec_step (m : amap) (o : op V) : amap * out V :=
  match o with
  | OInsert k v => (m_insert m k v, UOpt (m_get m (kz k)))
  | ORemove z => (m_remove m z, UOpt (m_get m z))
  | OGet z => (m, UOpt (m_get m z))
  | OContains z => (m, UBool (is_some (m_get m z)))
  | OGetOrDefault z d => (m, UVal (match m_get m z with Some v => v | None => d end))
  | OLen => (m, UNat (length m))
  | OIsEmpty => (m, UBool (Nat.eqb (length m) 0))
  | OGetMutWrite z v => (m_update m z v, UBool (is_some (m_get m z)))
  | OClear => ([], UUnit)
  | OIter kinds steps => (m, UItems (spec_steps kinds m (map (fun _ => 0) kinds) steps))
  | OFirstLast => (m, UFirstLast (hd_error m) (last_opt m))
  | OSlices => (m, USlices m m (map fst m) (map snd m))
  | ORange lo hi => (m, UList (m_range m lo hi))
  | OItemsRange s e => (m, UList (m_range m (opt_bound_lo s) (opt_bound_hi e)))
  | OFromPos _ _ _ => (m, UUnit)      (* not abstract; see from_position_spec *)
  | OValidate => (m, UValidate true None None)
  | OIntrospect => (m, UUnit)         (* not abstract; see introspection_agrees *)
  | OTryGet z | OGetItem z =>
      (m, match m_get m z with Some v => URes (Some v) None
                          | None => URes None (Some KeyNotFound) end)
  | OGetMany zs =>
      (m, match spec_get_many m zs with Some l => UResList (Some l) None
                                   | None => UResList None (Some KeyNotFound) end)
  | ORemoveItem z | OTryRemove z =>
      (m_remove m z, match m_get m z with Some v => URes (Some v) None
                                     | None => URes None (Some KeyNotFound) end)
  | OTryInsert k v => (m_insert m k v, UResOpt (Some (m_get m (kz k))) None)
  | OBatchInsert items =>
      let '(m', outs) := spec_batch m items in (m', UResOptList (Some outs) None)
  end.

Fixpoint spec_run (m : amap) (ops : list (op V)) : amap * list (out V) :=
  match ops with
  | [] => (m, [])
  | o :: ops' =>
      let '(m1, x) := spec_step m o in
      let '(m2, xs) := spec_run m1 ops' in (m2, x :: xs)
  end.

End Spec.
