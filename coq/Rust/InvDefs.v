(* Invariants of the Rust map model (definitions only).
   Ord   : node keys strictly ascending; every key of a subtree lies in the half-open
           interval its ancestors' separators allow (left of a separator: smaller,
           right of it: greater or equal);
   Shape : all leaves at depth h, |vals| = |keys|, |children| = |keys|+1, every
           non-root node holds between cap/2 (literally) and cap keys, a branch root
           has at least two children, node capacity fields equal cap;
   Ids   : allocated slots of each arena = ids of the nodes reachable from the root,
           no id twice, free list = exactly the unallocated slots, once each;
   Chain : each in-order leaf's next is the id of the following leaf, the last is NULL. *)
From BPT Require Import Common.Base Common.AMap Rust.Arena Rust.Tree Rust.Heap Rust.Readers.
Set Implicit Arguments.

Section Inv.
Variable V : Type.
Notation ptree := (ptree V).

Definition lo_ok (lo : option Z) (z : Z) : Prop :=
  match lo with Some l => (l <= z)%Z | None => True end.
Definition hi_ok (hi : option Z) (z : Z) : Prop :=
  match hi with Some h => (z < h)%Z | None => True end.
Definition in_bounds (lo hi : option Z) (k : key) : Prop :=
  lo_ok lo (kz k) /\ hi_ok hi (kz k).

(* [child_bounds ks lo hi i] (Rust/Readers.v) is the interval handed to child i *)
Inductive ord : option Z -> option Z -> ptree -> Prop :=
| ord_leaf lo hi id c ks vs nx :
    sorted_keys ks -> Forall (in_bounds lo hi) ks ->
    ord lo hi (PLeaf id c ks vs nx)
| ord_branch lo hi id c ks cs :
    sorted_keys ks -> Forall (in_bounds lo hi) ks ->
    (forall i ch, nth_error cs i = Some ch ->
       ord (fst (child_bounds ks lo hi i)) (snd (child_bounds ks lo hi i)) ch) ->
    ord lo hi (PBranch id c ks cs).

Inductive shape (cap : nat) : bool -> nat -> ptree -> Prop :=
| shape_leaf (isroot : bool) id ks vs nx :
    length vs = length ks -> length ks <= cap ->
    (isroot = false -> cap / 2 <= length ks) ->
    shape cap isroot 0 (PLeaf id cap ks vs nx)
| shape_branch (isroot : bool) h id ks cs :
    length cs = S (length ks) -> length ks <= cap ->
    (isroot = false -> cap / 2 <= length ks) ->
    (isroot = true -> 1 <= length ks) ->
    (forall ch, In ch cs -> shape cap false h ch) ->
    shape cap isroot (S h) (PBranch id cap ks cs).

(* leaves in left-to-right order with their next links; branch ids in pre-order *)
Fixpoint leaf_links (t : ptree) : list (N * N) :=
  match t with
  | PLeaf id _ _ _ nx => [(id, nx)]
  | PBranch _ _ _ cs => flat_map leaf_links cs
  end.
Definition leaf_ids (t : ptree) : list N := map fst (leaf_links t).
Fixpoint branch_ids (t : ptree) : list N :=
  match t with
  | PLeaf _ _ _ _ _ => []
  | PBranch id _ _ cs => id :: flat_map branch_ids cs
  end.

Fixpoint links_ok (l : list (N * N)) (after : N) : Prop :=
  match l with
  | [] => True
  | (_, nx) :: l' =>
      nx = match l' with [] => after | (id', _) :: _ => id' end /\ links_ok l' after
  end.
Definition chain_ok (t : ptree) : Prop := links_ok (leaf_links t) NULL.

Definition meta_ok (m : ameta) (ids : list N) : Prop :=
  NoDup ids /\
  (forall id, In id ids <-> m_mask_at m (N.to_nat id) = true) /\
  NoDup (m_free m) /\
  (forall i, In i (m_free m) <-> nth_error (m_mask m) i = Some false).

(* the model bound: an arena with room for [n] more slots below 2^32-1 (beyond it Rust's
   NodeId::try_from panics, and slot u32::MAX would collide with NULL_NODE) *)
Definition room (m : ameta) (n : nat) : Prop :=
  (N.of_nat (length (m_mask m) + n) < NULL)%N.

Record Inv (b : bstate V) : Prop := mkInv {
  inv_cap : 4 <= cap b;
  inv_ord : ord None None (root b);
  inv_shape : exists h, shape (cap b) true h (root b);
  inv_leaves : meta_ok (lmeta b) (leaf_ids (root b));
  inv_branches : meta_ok (bmeta b) (branch_ids (root b));
  inv_chain : chain_ok (root b) }.

(* number of nodes, for the slot bound (C06) *)
Definition n_leaves (t : ptree) : nat := length (leaf_links t).
Definition n_branches (t : ptree) : nat := length (branch_ids t).

End Inv.
