(* Definitions for the run-level theorems: operation weights (the model bound is stated
   in terms of the total weight of a history), the bookkeeping invariant [Good], and the
   ghost high-water marks used by the slot bound (C06). Definitions only. *)
From BPT Require Import Common.Base Common.AMap Rust.Arena Rust.Tree Rust.Heap Rust.Readers Rust.Run
     Rust.InvDefs Rust.Repr Rust.Spec.
Set Implicit Arguments.

Section ReachDefs.
Variable V : Type.

(* number of entries an operation can add *)
Definition op_weight (o : op V) : nat :=
  match o with OBatchInsert items => S (length items) | _ => 1 end.
Definition ops_weight (ops : list (op V)) : nat := list_sum (map op_weight ops).

(* invariant + size bookkeeping after operations of total weight n *)
Definition Good (n : nat) (b : bstate V) : Prop :=
  Inv b /\
  length (contents (root b)) <= n /\
  length (m_mask (lmeta b)) <= S n /\
  length (m_mask (bmeta b)) <= S n.

(* the bound under which no arena can reach 2^32-1 slots *)
Definition fits (w : nat) : Prop := (2 * N.of_nat w + 8 < NULL)%N.

Definition out_is_error (o : out V) : bool :=
  match o with UPanic | UFuel | UUB => true | _ => false end.

(* ghost high-water marks: the largest numbers of leaves / branches simultaneously live
   since construction or the last clear *)
Definition hw_next (hw : nat * nat) (o : op V) (b' : bstate V) : nat * nat :=
  match o with
  | OClear => (1, 0)
  | _ => (Nat.max (fst hw) (n_leaves (root b')), Nat.max (snd hw) (n_branches (root b')))
  end.

Fixpoint run_hw (b : bstate V) (hw : nat * nat) (ops : list (op V)) : bstate V * (nat * nat) :=
  match ops with
  | [] => (b, hw)
  | o :: ops' => let b' := fst (step b o) in run_hw b' (hw_next hw o b') ops'
  end.

End ReachDefs.
