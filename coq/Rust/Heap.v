(* Model A: the literal Rust state — two CompactArenas of nodes that refer to each
   other by id — and [flatten], which lays a model-B state out into it.
   Any value of type [heap] is a possible (possibly damaged) map. *)
From BPT Require Import Common.Base Rust.Arena Rust.Tree.
Set Implicit Arguments.

Section Heap.
Variable V : Type.

Inductive nref := RLeaf (id : N) | RBranch (id : N).

Definition rid (r : nref) : N := match r with RLeaf i => i | RBranch i => i end.

Record leaf := mkLeaf { lcap : nat; lkeys : list key; lvals : list V; lnext : N }.
Record branch := mkBranch { bcap : nat; bkeys : list key; bkids : list nref }.

(* Default for LeafNode / BranchNode: with_default_capacity() = new(16) *)
Definition dflt_leaf : leaf := mkLeaf DEFAULT_CAPACITY [] [] NULL.
Definition dflt_branch : branch := mkBranch DEFAULT_CAPACITY [] [].

Record heap := mkHeap {
  hcap : nat;
  hroot : nref;
  hleaves : arena leaf;
  hbranches : arena branch }.

Definition ref_of (t : ptree V) : nref :=
  match t with PLeaf id _ _ _ _ => RLeaf id | PBranch id _ _ _ => RBranch id end.

(* first node with the given id, by kind (ids are unique under the invariant) *)
Fixpoint find_leaf (t : ptree V) (i : N) : option leaf :=
  match t with
  | PLeaf id ncap ks vs next => if N.eqb id i then Some (mkLeaf ncap ks vs next) else None
  | PBranch _ _ _ cs =>
      (fix go (l : list (ptree V)) : option leaf :=
         match l with
         | [] => None
         | c :: l' => match find_leaf c i with Some x => Some x | None => go l' end
         end) cs
  end.

Fixpoint find_branch (t : ptree V) (i : N) : option branch :=
  match t with
  | PLeaf _ _ _ _ _ => None
  | PBranch id ncap ks cs =>
      if N.eqb id i then Some (mkBranch ncap ks (map ref_of cs))
      else
      (fix go (l : list (ptree V)) : option branch :=
         match l with
         | [] => None
         | c :: l' => match find_branch c i with Some x => Some x | None => go l' end
         end) cs
  end.

Definition flatten (b : bstate V) : heap :=
  let lm := lmeta b in
  let bm := bmeta b in
  mkHeap (cap b) (ref_of (root b))
    (mkArena
       (map (fun i => match find_leaf (root b) (N.of_nat i) with
                      | Some l => if m_mask_at lm i then l else dflt_leaf
                      | None => dflt_leaf end)
            (seq 0 (length (m_mask lm))))
       (m_mask lm) (m_free lm))
    (mkArena
       (map (fun i => match find_branch (root b) (N.of_nat i) with
                      | Some x => if m_mask_at bm i then x else dflt_branch
                      | None => dflt_branch end)
            (seq 0 (length (m_mask bm))))
       (m_mask bm) (m_free bm)).

(* arena accessors of BPlusTreeMap *)
Definition get_leaf (h : heap) (i : N) : option leaf := a_get (hleaves h) i.
Definition get_branch (h : heap) (i : N) : option branch := a_get (hbranches h) i.

End Heap.

