(* new / clear establish the invariant; a write through get_mut replaces one value and
   keeps the invariant, the arenas and the tree structure. *)
From Coq Require Import List Arith ZArith NArith Lia Bool Permutation.
From BPT Require Import Common.Base Common.AMap Rust.Arena Rust.Tree Rust.Heap Rust.Readers
  Rust.InvDefs Rust.Repr Rust.Lib Rust.TreeFactsI Rust.InsertMeta Rust.InsertLocal.
Import ListNotations.
Set Implicit Arguments.

Section MiscProofs.
Variable V : Type.
Notation ptree := (ptree V).

(* ---------------- the empty tree ---------------- *)
Definition empty_state (c : nat) : bstate V :=
  mkB c (PLeaf 0%N c [] [] NULL) (mkMeta [true] []) (mkMeta [] []).

Lemma meta_ok_one : meta_ok (mkMeta [true] []) [0%N].
Proof.
  unfold meta_ok, m_mask_at. cbn [m_mask m_free]. split; [|split; [|split]].
  - constructor; [intros []|constructor].
  - intros id. split.
    + intros [<-|[]]. reflexivity.
    + intros H. left. destruct (N.to_nat id) as [|n] eqn:E.
      * lia.
      * cbn [nth_error] in H. destruct n; discriminate.
  - constructor.
  - intros i. split; [intros []|].
    intros H. destruct i as [|i]; cbn [nth_error] in H; [discriminate|].
    destruct i; discriminate.
Qed.

Lemma meta_ok_nil : meta_ok (mkMeta [] []) [].
Proof.
  unfold meta_ok, m_mask_at. cbn [m_mask m_free]. split; [|split; [|split]].
  - constructor.
  - intros id. split; [intros []|].
    intros H. destruct (N.to_nat id); discriminate.
  - constructor.
  - intros i. split; [intros []|]. intros H. destruct i; discriminate.
Qed.

Lemma empty_state_inv : forall c, 4 <= c ->
  Inv (empty_state c) /\ cap (empty_state c) = c /\ contents (root (empty_state c)) = [] /\
  rooms (empty_state c).
Proof.
  intros c Hc. split; [|split; [reflexivity|split; [reflexivity|]]].
  - constructor; unfold empty_state; cbn [cap root lmeta bmeta].
    + exact Hc.
    + constructor; [exact I|constructor].
    + exists 0. constructor; cbn [length]; [reflexivity|lia|discriminate].
    + exact meta_ok_one.
    + exact meta_ok_nil.
    + unfold chain_ok. cbn [leaf_links links_ok]. split; [reflexivity|exact I].
  - unfold rooms, room, empty_state, NULL. cbn [lmeta bmeta m_mask length Nat.add]. lia.
Qed.

Theorem new_inv : forall c, 4 <= c ->
  exists b, b_new V c = Some b /\ Inv b /\ cap b = c /\ contents (root b) = [] /\ rooms b.
Proof.
  intros c Hc. exists (empty_state c). split; [|apply empty_state_inv; exact Hc].
  unfold b_new, MIN_CAPACITY. destruct (Nat.ltb_spec c 4); [lia|reflexivity].
Qed.

Theorem new_rejects : forall c, c < 4 <-> b_new V c = None.
Proof.
  intros c. unfold b_new, MIN_CAPACITY. destruct (Nat.ltb_spec c 4); split; intros H0;
    try reflexivity; try lia; try discriminate.
Qed.

Theorem clear_inv : forall (b : bstate V), 4 <= cap b ->
  Inv (b_clear b) /\ cap (b_clear b) = cap b /\ contents (root (b_clear b)) = [] /\
  rooms (b_clear b) /\ n_leaves (root (b_clear b)) = 1 /\ n_branches (root (b_clear b)) = 0 /\
  length (m_mask (lmeta (b_clear b))) = 1 /\ length (m_mask (bmeta (b_clear b))) = 0.
Proof.
  intros b Hc. change (b_clear b) with (empty_state (cap b)).
  destruct (empty_state_inv Hc) as (H1 & H2 & H3 & H4).
  repeat (split; [assumption || reflexivity|]). reflexivity.
Qed.

(* ---------------- write through get_mut ---------------- *)
Lemma upd_spec : forall fuel (t : ptree) z v c r hh lo hi,
  ord lo hi t -> shape c r hh t -> hh < fuel ->
  exists t',
    upd fuel t z v = Ok (t', match m_get (contents t) z with Some _ => true | None => false end) /\
    ord lo hi t' /\ shape c r hh t' /\
    contents t' = m_update (contents t) z v /\
    leaf_links t' = leaf_links t /\ branch_ids t' = branch_ids t.
Proof.
  induction fuel as [|f IH]; intros t z v c r hh lo hi O Sh Hf; [lia|].
  destruct t as [id c0 ks vs nx | id c0 ks cs].
  - destruct (ord_leaf_inv O) as (Hs & F).
    destruct (shape_leaf_inv Sh) as (-> & -> & Lv & Lk & Lr).
    cbn [upd contents]. rewrite (leaf_get ks vs z Hs Lv).
    destruct (bfound ks z) eqn:Eb.
    + destruct (bfound_true _ _ Eb) as (k & Hk & _).
      assert (Hi : lb ks z < length vs).
      { rewrite Lv. apply nth_error_Some. congruence. }
      rewrite (proj2 (Nat.ltb_lt _ _) Hi).
      destruct (nth_error vs (lb ks z)) as [old|] eqn:Eo; [|apply nth_error_None in Eo; lia].
      eexists. split; [reflexivity|]. split; [|split; [|split; [|split]]].
      * constructor; auto.
      * constructor; auto. rewrite length_set_nth. exact Lv.
      * cbn [contents]. apply leaf_update; auto.
      * reflexivity.
      * reflexivity.
    + eexists. split; [reflexivity|]. split; [exact O|]. split; [exact Sh|].
      split; [|split; reflexivity].
      cbn [contents]. symmetry. apply m_update_notin.
      intros [k' v'] Hin. apply in_combine_l in Hin. cbn [fst].
      exact (bfound_false _ Hs Eb k' Hin).
  - destruct (ord_branch_inv O) as (Hs & F & Hc).
    destruct (@branch_contents_split V lo hi id c0 ks cs c r hh z O Sh) as [BL BR].
    destruct (shape_branch_inv Sh) as (h' & -> & -> & Lc & L2 & L3 & L4 & Hsh).
    pose proof (child_index_le_length ks z) as Hci.
    cbn [upd]. set (ci := child_index ks z) in *.
    destruct (nth_error cs ci) as [ch|] eqn:Ech; [|apply nth_error_None in Ech; lia].
    pose proof (nth_error_In _ _ Ech) as Hin.
    assert (Hlt : ci < length cs) by (apply nth_error_Some; congruence).
    destruct (IH ch z v c false h' _ _ (Hc _ _ Ech) (Hsh _ Hin))
      as (ch' & E1 & O' & Sh' & C' & LL' & BI'); [lia|].
    rewrite E1. cbn [bind fst snd].
    eexists. split.
    { cbn [contents]. rewrite (flat_map_nth_split (@contents V) _ _ Ech).
      rewrite m_get_app_r by exact BL. rewrite m_get_app_l by exact BR. reflexivity. }
    split; [apply ord_set_child; assumption|].
    split.
    { constructor; auto.
      - rewrite length_set_nth. exact Lc.
      - intros x Hx. apply In_set_nth in Hx. destruct Hx as [->|Hx]; auto. }
    split.
    { cbn [contents]. rewrite flat_map_set_nth by exact Hlt.
      rewrite (flat_map_nth_split (@contents V) _ _ Ech).
      rewrite m_update_app_r by exact BL. rewrite m_update_app_l by exact BR.
      rewrite C'. reflexivity. }
    split.
    { cbn [leaf_links]. rewrite flat_map_set_nth by exact Hlt.
      rewrite (flat_map_nth_split (@leaf_links V) _ _ Ech). rewrite LL'. reflexivity. }
    cbn [branch_ids]. f_equal. rewrite flat_map_set_nth by exact Hlt.
    rewrite (flat_map_nth_split (@branch_ids V) _ _ Ech). rewrite BI'. reflexivity.
Qed.

Theorem get_mut_write_inv : forall (b : bstate V) z v, Inv b ->
  exists b', b_get_mut_write b z v
      = Ok (b', match m_get (contents (root b)) z with Some _ => true | None => false end) /\
    Inv b' /\ cap b' = cap b /\ lmeta b' = lmeta b /\ bmeta b' = bmeta b /\
    contents (root b') = m_update (contents (root b)) z v /\
    leaf_links (root b') = leaf_links (root b) /\ branch_ids (root b') = branch_ids (root b) /\
    height (root b') = height (root b).
Proof.
  intros b z v I. destruct (inv_shape I) as (hh & Sh).
  pose proof (shape_height Sh) as Hh.
  destruct (@upd_spec (S (height (root b))) (root b) z v _ _ _ _ _ (inv_ord I) Sh)
    as (t' & E & O' & Sh' & C' & LL' & BI'); [lia|].
  exists (mkB (cap b) t' (lmeta b) (bmeta b)).
  unfold b_get_mut_write. rewrite E. cbn [bind fst snd cap root lmeta bmeta].
  split; [reflexivity|]. split.
  { constructor; cbn [cap root lmeta bmeta].
    - exact (inv_cap I).
    - exact O'.
    - exists hh. exact Sh'.
    - unfold leaf_ids. rewrite LL'. exact (inv_leaves I).
    - rewrite BI'. exact (inv_branches I).
    - unfold chain_ok. rewrite LL'. exact (inv_chain I). }
  repeat (split; [reflexivity || assumption|]).
  rewrite (shape_height Sh'), Hh. reflexivity.
Qed.

End MiscProofs.

Print Assumptions new_inv.
Print Assumptions new_rejects.
Print Assumptions clear_inv.
Print Assumptions get_mut_write_inv.
