(* Per-operation assembly for the run-level theorems (Rust/Reach.v): every operation of
   [Run.step], started in a [Good] state within the model bound, keeps [Good], returns a
   non-error outcome, agrees with [Spec.spec_step] when it is abstract, and obeys the slot
   discipline used by the C06 bound.  Also: [b_insert] never decreases the node counts. *)
From Coq Require Import List Arith ZArith NArith Lia Bool Permutation.
From BPT Require Import Common.Base Common.AMap Rust.Arena Rust.Tree Rust.Heap Rust.Readers Rust.Run
     Rust.InvDefs Rust.Repr Rust.Spec Rust.Lib Rust.TreeFactsI Rust.InsertProofs Rust.RemoveProofs
     Rust.Bridge Rust.ReadersGet Rust.MiscProofs Rust.ValidSound Rust.ValidAccept Rust.ReadersIter
     Rust.ReadersRange Rust.ReachDefs Rust.Counting.
Import ListNotations.

Tactic Notation "inv_bind" hyp(H) "as" simple_intropattern(p) "eqn" ident(E) :=
  match type of H with
  | bind ?r _ = Ok _ => destruct r as [p|?| |?] eqn:E; cbn [bind] in H; try discriminate H
  end.

(* ------------------------------------------------------------------ *)
(* generic list facts *)
Lemma RS_len_fm_set : forall (A B : Type) (f : A -> list B) ci c c' cs,
  nth_error cs ci = Some c ->
  length (flat_map f (set_nth ci c' cs)) + length (f c) = length (flat_map f cs) + length (f c').
Proof.
  intros A B f ci c c' cs. revert ci.
  induction cs as [|a cs IH]; intros [|ci] H; cbn in H; try discriminate.
  - inversion H; subst. cbn. rewrite !app_length. lia.
  - cbn. rewrite !app_length. specialize (IH _ H). lia.
Qed.

Lemma RS_len_fm_ins_set : forall (A B : Type) (f : A -> list B) ci c c' r cs,
  nth_error cs ci = Some c ->
  length (flat_map f (insert_at (S ci) r (set_nth ci c' cs))) + length (f c)
  = length (flat_map f cs) + length (f c') + length (f r).
Proof.
  intros A B f ci c c' r cs. revert ci.
  induction cs as [|a cs IH]; intros [|ci] H; cbn in H; try discriminate.
  - inversion H; subst. cbn. rewrite !app_length. lia.
  - specialize (IH _ H). cbn [set_nth insert_at flat_map]. cbn [set_nth insert_at flat_map] in IH.
    rewrite !app_length. lia.
Qed.

Lemma RS_vec_insert_eq : forall (A : Type) s i (x : A) l l',
  vec_insert s i x l = Ok l' -> l' = insert_at i x l.
Proof.
  unfold vec_insert. intros A s i x l l' H.
  destruct (Nat.leb i (length l)); inversion H; auto.
Qed.

Lemma RS_vec_split_off_eq : forall (A : Type) s a (l l1 l2 : list A),
  vec_split_off s a l = Ok (l1, l2) -> l1 = firstn a l /\ l2 = skipn a l.
Proof.
  unfold vec_split_off. intros A s a l l1 l2 H.
  destruct (Nat.leb a (length l)); inversion H; auto.
Qed.

(* ------------------------------------------------------------------ *)
(* insertion never decreases the numbers of leaves and branches *)
Section InsMono.
Variable V : Type.
Notation ptree := (ptree V).

Definition ir_nl (ir : ins_res V) : nat :=
  match ir with IUpd t _ => n_leaves t | ISplit t _ _ r => n_leaves t + n_leaves r end.
Definition ir_nb (ir : ins_res V) : nat :=
  match ir with IUpd t _ => n_branches t | ISplit t _ _ r => n_branches t + n_branches r end.

Lemma n_leaves_leaf : forall id c ks (vs : list V) nx, n_leaves (PLeaf id c ks vs nx) = 1.
Proof. reflexivity. Qed.
Lemma n_branches_leaf : forall id c ks (vs : list V) nx, n_branches (PLeaf id c ks vs nx) = 0.
Proof. reflexivity. Qed.
Lemma n_leaves_br : forall id c ks (cs : list ptree),
  n_leaves (PBranch id c ks cs) = length (flat_map (@leaf_links V) cs).
Proof. reflexivity. Qed.
Lemma n_branches_br : forall id c ks (cs : list ptree),
  n_branches (PBranch id c ks cs) = S (length (flat_map (@branch_ids V) cs)).
Proof. reflexivity. Qed.

Lemma ins_leaf_nl : forall lm id c ks (vs : list V) nx k v lm' ir,
  ins_leaf lm id c ks vs nx k v = Ok (lm', ir) -> 1 <= ir_nl ir.
Proof.
  intros lm id c ks vs nx k v lm' ir. unfold ins_leaf. intros H.
  destruct (bfound ks (kz k)).
  - destruct (nth_error vs (lb ks (kz k))); inversion H; subst;
      cbn [ir_nl]; rewrite n_leaves_leaf; lia.
  - destruct (negb (Nat.leb c (length ks))).
    + inv_bind H as ks' eqn E1. inv_bind H as vs' eqn E2. inversion H; subst.
      cbn [ir_nl]. rewrite n_leaves_leaf. lia.
    + inv_bind H as d eqn E1. inv_bind H as [lks rks] eqn E2. inv_bind H as [lvs rvs] eqn E3.
      inv_bind H as [lm2 rid] eqn E4. inv_bind H as [[[lks1 lvs1] rks1] rvs1] eqn E5.
      destruct rks1 as [|sep rks1]; [discriminate H|]. inversion H; subst.
      cbn [ir_nl]. rewrite !n_leaves_leaf. lia.
Qed.

Lemma realize_counts : forall bm (t : ptree) bm' t',
  realize bm t = Ok (bm', t') -> n_leaves t' = n_leaves t /\ n_branches t' = n_branches t.
Proof.
  intros bm t bm' t' H. destruct t as [id c ks vs nx|id c ks cs]; cbn [realize] in H.
  - inversion H; subst. auto.
  - inv_bind H as [bm2 id2] eqn E. inversion H; subst. split; reflexivity.
Qed.

Lemma ins_branch_child_counts : forall id c ks (cs0 : list ptree) ci sep newc old ir,
  ins_branch_child id c ks cs0 ci sep newc old = Ok ir ->
  ir_nl ir = length (flat_map (@leaf_links V) (insert_at (S ci) newc cs0)) /\
  S (length (flat_map (@branch_ids V) (insert_at (S ci) newc cs0))) <= ir_nb ir.
Proof.
  intros id c ks cs0 ci sep newc old ir. unfold ins_branch_child. intros H.
  inv_bind H as ks2 eqn E1. inv_bind H as cs2 eqn E2.
  apply RS_vec_insert_eq in E2. subst cs2.
  set (X := insert_at (S ci) newc cs0) in *.
  destruct (Nat.leb c (length ks)).
  - inv_bind H as promoted eqn E3. inv_bind H as [lks0 rks] eqn E4.
    inv_bind H as [lcs rcs] eqn E5. inversion H; subst.
    apply RS_vec_split_off_eq in E5. destruct E5 as [-> ->].
    cbn [ir_nl ir_nb]. rewrite !n_leaves_br, !n_branches_br.
    pose proof (f_equal (@length _) (flat_map_firstn_skipn (@leaf_links V) (S (c / 2)) X)) as P1.
    pose proof (f_equal (@length _) (flat_map_firstn_skipn (@branch_ids V) (S (c / 2)) X)) as P2.
    rewrite app_length in P1, P2. lia.
  - inversion H; subst. cbn [ir_nl ir_nb]. rewrite n_leaves_br, n_branches_br. lia.
Qed.

Lemma ins_mono : forall fuel lm bm (t : ptree) k v lm' bm' ir,
  ins fuel lm bm t k v = Ok (lm', bm', ir) ->
  n_leaves t <= ir_nl ir /\ n_branches t <= ir_nb ir.
Proof.
  induction fuel as [|f IH]; intros lm bm t k v lm' bm' ir H; [discriminate H|].
  destruct t as [id c ks vs nx | id c ks cs]; cbn [ins] in H.
  - inv_bind H as [lm1 ir1] eqn E. inversion H; subst. apply ins_leaf_nl in E.
    rewrite n_leaves_leaf, n_branches_leaf. lia.
  - destruct (nth_error cs (child_index ks (kz k))) as [ch|] eqn:En.
    2:{ inversion H; subst. cbn [ir_nl ir_nb]. lia. }
    inv_bind H as [[lm1 bm1] ir0] eqn E.
    apply IH in E. destruct E as [EL EB].
    destruct ir0 as [c' old | c' old sep rgt]; cbn [ir_nl ir_nb] in EL, EB.
    + inversion H; subst. cbn [ir_nl ir_nb]. rewrite !n_leaves_br, !n_branches_br.
      pose proof (RS_len_fm_set _ _ (@leaf_links V) _ _ c' _ En) as P1.
      pose proof (RS_len_fm_set _ _ (@branch_ids V) _ _ c' _ En) as P2.
      unfold n_leaves, n_branches in EL, EB. lia.
    + inv_bind H as [bm2 rgt'] eqn E0. inv_bind H as ir' eqn E1. inversion H; subst.
      apply realize_counts in E0. destruct E0 as [RL RB].
      apply ins_branch_child_counts in E1. destruct E1 as [CL CB].
      rewrite n_leaves_br, n_branches_br.
      pose proof (RS_len_fm_ins_set _ _ (@leaf_links V) _ _ c' rgt' _ En) as P1.
      pose proof (RS_len_fm_ins_set _ _ (@branch_ids V) _ _ c' rgt' _ En) as P2.
      unfold n_leaves, n_branches in EL, EB, RL, RB. lia.
Qed.

Theorem b_insert_mono : forall (b b' : bstate V) k v old,
  b_insert b k v = Ok (b', old) ->
  n_leaves (root b) <= n_leaves (root b') /\ n_branches (root b) <= n_branches (root b').
Proof.
  intros b b' k v old H. unfold b_insert in H.
  inv_bind H as [[lm bm] ir] eqn E. apply ins_mono in E. destruct E as [EL EB].
  destruct ir as [t old0 | t old0 sep rgt]; cbn [ir_nl ir_nb] in EL, EB.
  - inversion H; subst. cbn [root]. auto.
  - inv_bind H as [bm2 rgt'] eqn E0. inv_bind H as [bm3 rid] eqn E1. inversion H; subst.
    apply realize_counts in E0. destruct E0 as [RL RB]. cbn [root].
    rewrite n_leaves_br, n_branches_br. cbn [flat_map]. rewrite !app_nil_r, !app_length.
    unfold n_leaves, n_branches in *. lia.
Qed.

End InsMono.

(* ------------------------------------------------------------------ *)
(* arithmetic of the model bound (the only place where [fits]/[room] are unfolded) *)
Lemma fits_mono : forall w w', fits w -> w' <= w -> fits w'.
Proof. unfold fits. intros w w' H L. lia. Qed.

Lemma fits_room : forall (m : ameta) k w,
  fits w -> length (m_mask m) + k <= 2 * w + 8 -> room m k.
Proof. unfold fits, room. intros m k w H L. lia. Qed.

Set Implicit Arguments.

Section ReachStep.
Variable V : Type.
Notation ptree := (ptree V).

(* ---------------- Good ---------------- *)
Lemma Good_inv : forall n (b : bstate V), Good n b -> Inv b.
Proof. intros n b G. apply G. Qed.

Lemma Good_mono : forall n n' (b : bstate V), Good n b -> n <= n' -> Good n' b.
Proof. intros n n' b (I & C & L & B) Hle. split; [exact I|]. repeat split; lia. Qed.

Lemma Good_rooms : forall n w (b : bstate V), Good n b -> fits (n + w) -> rooms b.
Proof.
  intros n w b (I & C & L & B) F. split; eapply fits_room; try exact F; lia.
Qed.

Lemma Good_room_l : forall n w (b : bstate V), Good n b -> fits (n + w) -> room (lmeta b) 1.
Proof. intros n w b (I & C & L & B) F. eapply fits_room; [exact F|]. lia. Qed.

Lemma Good_room_b : forall n w (b : bstate V),
  Good n b -> fits (n + w) -> room (bmeta b) (height (root b) + 2).
Proof.
  intros n w b (I & C & L & B) F.
  destruct (inv_shape I) as [h Sh].
  pose proof (height_le_n_branches Sh) as H1.
  pose proof (n_branches_le_slots I) as H2.
  eapply fits_room; [exact F|]. lia.
Qed.

Lemma Good_heap : forall n w (b : bstate V), Good n b -> fits (n + w) -> heap_of b (flatten b).
Proof.
  intros n w b G F. apply flatten_heap_of; [exact (Good_inv G)|exact (Good_rooms _ G F)].
Qed.

Lemma Good_valid : forall n w (b : bstate V), Good n b -> fits (n + w) ->
  check_invariants_detailed (flatten b) = Ok None.
Proof.
  intros n w b G F. exact (detailed_complete (Good_inv G) (Good_heap _ G F)).
Qed.

Lemma inv_sorted : forall (b : bstate V), Inv b -> m_sorted (contents (root b)).
Proof.
  intros b I. destruct (inv_shape I) as [h Sh]. exact (contents_sorted (inv_ord I) Sh).
Qed.

Lemma inv_counts : forall (b : bstate V), Inv b ->
  n_leaves (root b) <= S (length (contents (root b))) /\ n_branches (root b) <= n_leaves (root b).
Proof.
  intros b I. destruct (inv_shape I) as [h Sh]. split.
  - exact (n_leaves_le_entries (inv_cap I) Sh).
  - exact (n_branches_le_n_leaves (inv_cap I) Sh).
Qed.

Lemma length_m_update : forall (m : amap V) z v, length (m_update m z v) = length m.
Proof.
  intros m z v. rewrite <- (map_length fst (m_update m z v)), map_fst_m_update, map_length.
  reflexivity.
Qed.

(* ---------------- insert / remove with bookkeeping ---------------- *)
Definition ins_post (n : nat) (b : bstate V) (k : key) (v : V) (b' : bstate V) (old : option V)
  : Prop :=
  Good (S n) b' /\ cap b' = cap b /\
  contents (root b') = m_insert (contents (root b)) k v /\
  old = m_get (contents (root b)) (kz k) /\
  length (m_mask (lmeta b')) <= Nat.max (length (m_mask (lmeta b))) (n_leaves (root b')) /\
  length (m_mask (bmeta b')) <= Nat.max (length (m_mask (bmeta b))) (n_branches (root b')) /\
  length (m_mask (lmeta b)) <= length (m_mask (lmeta b')) /\
  length (m_mask (bmeta b)) <= length (m_mask (bmeta b')) /\
  n_leaves (root b) <= n_leaves (root b') /\ n_branches (root b) <= n_branches (root b').

Lemma good_insert : forall n w (b : bstate V) k v, Good n b -> fits (n + w) ->
  exists b' old, b_insert b k v = Ok (b', old) /\ ins_post n b k v b' old.
Proof.
  intros n w b k v G F. pose proof G as (I & C & L & B).
  destruct (insert_inv k v I (Good_room_l _ G F) (Good_room_b _ G F))
    as (b' & old & E & I' & Hc & C' & O & L1 & B1 & L2 & _ & B2 & _ & _).
  exists b', old. split; [exact E|].
  destruct (b_insert_mono _ _ _ _ _ _ E) as [ML MB].
  destruct (inv_counts I') as [NL NB].
  assert (CL : length (contents (root b')) <= S n).
  { rewrite C'. rewrite (length_m_insert _ k v (inv_sorted I)).
    destruct (m_get (contents (root b)) (kz k)); lia. }
  unfold ins_post. split.
  { split; [exact I'|]. repeat split; lia. }
  repeat split; auto; lia.
Qed.

Lemma good_remove : forall n w (b : bstate V) z, Good n b -> fits (n + w) ->
  exists b' old, b_remove b z = Ok (b', old) /\
    Good n b' /\ cap b' = cap b /\
    contents (root b') = m_remove (contents (root b)) z /\
    old = m_get (contents (root b)) z /\
    length (m_mask (lmeta b')) = length (m_mask (lmeta b)) /\
    length (m_mask (bmeta b')) = length (m_mask (bmeta b)).
Proof.
  intros n w b z G F. pose proof G as (I & C & L & B).
  destruct (Good_rooms _ G F) as [R1 R2].
  destruct (remove_inv V b z I R1 R2) as (b' & old & E & I' & Hc & C' & O & L1 & B1 & _).
  exists b', old. split; [exact E|].
  assert (CL : length (contents (root b')) <= n).
  { rewrite C'. rewrite (length_m_remove _ z (inv_sorted I)).
    destruct (m_get (contents (root b)) z); lia. }
  split.
  { split; [exact I'|]. repeat split; lia. }
  repeat split; auto; lia.
Qed.

(* ---------------- checked API ---------------- *)
Lemma try_insert_ok : forall n w (b : bstate V) k v, Good n b -> fits (n + S w) ->
  exists b' old, try_insert b k v = Ok (b', Some old, None) /\ ins_post n b k v b' old.
Proof.
  intros n w b k v G F.
  destruct (good_insert _ k v G F) as (b' & old & E & P).
  exists b', old. split; [|exact P].
  assert (F' : fits (S n + w)) by (eapply fits_mono; [exact F|lia]).
  unfold try_insert. rewrite (Good_valid _ G F). cbn [bind]. rewrite E. cbn [bind fst snd].
  destruct P as (G' & _). rewrite (Good_valid _ G' F'). cbn [bind]. reflexivity.
Qed.

Lemma try_remove_ok : forall n w (b : bstate V) z, Good n b -> fits (n + w) ->
  exists b' old,
    try_remove b z = Ok (b', old, match old with Some _ => None | None => Some KeyNotFound end) /\
    Good n b' /\ cap b' = cap b /\
    contents (root b') = m_remove (contents (root b)) z /\
    old = m_get (contents (root b)) z /\
    length (m_mask (lmeta b')) = length (m_mask (lmeta b)) /\
    length (m_mask (bmeta b')) = length (m_mask (bmeta b)).
Proof.
  intros n w b z G F.
  destruct (good_remove _ z G F) as (b' & old & E & G' & P).
  exists b', old. split; [|split; [exact G'|exact P]].
  unfold try_remove. rewrite (Good_valid _ G F). cbn [bind]. rewrite E. cbn [bind fst snd].
  destruct old as [v|]; [|reflexivity].
  rewrite (Good_valid _ G' F). cbn [bind]. reflexivity.
Qed.

Lemma get_many_spec : forall (b : bstate V) (h : heap V) zs acc, Inv b -> heap_of b h ->
  get_many h zs acc
  = Ok (match spec_get_many (contents (root b)) zs with
        | Some l => Some (rev acc ++ l) | None => None end).
Proof.
  intros b h zs acc I HO. revert acc.
  induction zs as [|z zs IH]; intros acc; cbn [get_many spec_get_many].
  - rewrite app_nil_r. reflexivity.
  - rewrite (h_get_spec z I HO). cbn [bind].
    destruct (m_get (contents (root b)) z) as [v|]; [|reflexivity].
    rewrite IH. destruct (spec_get_many (contents (root b)) zs); [|reflexivity].
    cbn [rev]. rewrite <- app_assoc. reflexivity.
Qed.

Lemma batch_cons : forall (b : bstate V) k v items done acc,
  batch_insert b ((k, v) :: items) done acc =
  (do r <- try_insert b k v;
   let '(b1, ov, e) := r in
   match e, ov with
   | None, Some old => batch_insert b1 items (done ++ [k]) (old :: acc)
   | _, _ => do b2 <- rollback b1 done; Ok (b2, None, e)
   end).
Proof. reflexivity. Qed.

Lemma batch_ok : forall items n (b : bstate V) done acc, Good n b -> fits (n + S (length items)) ->
  exists b',
    batch_insert b items done acc
      = Ok (b', Some (rev acc ++ snd (spec_batch (contents (root b)) items)), None) /\
    Good (n + length items) b' /\ cap b' = cap b /\
    contents (root b') = fst (spec_batch (contents (root b)) items) /\
    length (m_mask (lmeta b')) <= Nat.max (length (m_mask (lmeta b))) (n_leaves (root b')) /\
    length (m_mask (bmeta b')) <= Nat.max (length (m_mask (bmeta b))) (n_branches (root b')) /\
    length (m_mask (lmeta b)) <= length (m_mask (lmeta b')) /\
    length (m_mask (bmeta b)) <= length (m_mask (bmeta b')) /\
    n_leaves (root b) <= n_leaves (root b') /\ n_branches (root b) <= n_branches (root b').
Proof.
  induction items as [|[k v] items IH]; intros n b done acc G F.
  - exists b. cbn [batch_insert spec_batch fst snd length]. rewrite app_nil_r, Nat.add_0_r.
    split; [reflexivity|]. split; [exact G|]. repeat split; lia.
  - cbn [length] in F.
    assert (F1 : fits (n + S (S (length items)))) by exact F.
    destruct (try_insert_ok _ k v G F1) as (b1 & old & E & P).
    destruct P as (G1 & Hc1 & C1 & O1 & L1 & B1 & L2 & B2 & NL1 & NB1).
    assert (F2 : fits (S n + S (length items))) by (eapply fits_mono; [exact F|lia]).
    destruct (IH (S n) b1 (done ++ [k]) (old :: acc) G1 F2)
      as (b' & E' & G' & Hc' & C' & L' & B' & L2' & B2' & NL' & NB').
    exists b'. rewrite batch_cons, E. cbn [bind]. rewrite E'.
    cbn [spec_batch]. rewrite <- C1.
    destruct (spec_batch (contents (root b1)) items) as [m' outs] eqn:Es.
    cbn [fst snd] in *. cbn [rev length]. rewrite <- app_assoc. cbn [app].
    rewrite <- O1.
    split; [reflexivity|].
    split; [replace (n + S (length items)) with (S n + length items) by lia; exact G'|].
    split; [congruence|]. split; [exact C'|].
    repeat split; lia.
Qed.

(* ---------------- the per-operation statement ---------------- *)
Definition is_clear (o : op V) : bool := match o with OClear => true | _ => false end.

Definition slot_post (o : op V) (b b' : bstate V) : Prop :=
  if is_clear o then
    length (m_mask (lmeta b')) = 1 /\ length (m_mask (bmeta b')) = 0 /\
    n_leaves (root b') = 1 /\ n_branches (root b') = 0
  else
    length (m_mask (lmeta b')) <= Nat.max (length (m_mask (lmeta b))) (n_leaves (root b')) /\
    length (m_mask (bmeta b')) <= Nat.max (length (m_mask (bmeta b))) (n_branches (root b')).

Definition step_post (n : nat) (b : bstate V) (o : op V) : Prop :=
  Good (n + op_weight o) (fst (step b o)) /\
  out_is_error (snd (step b o)) = false /\
  cap (fst (step b o)) = cap b /\
  (abstract_op o = true ->
     spec_step (contents (root b)) o = (contents (root (fst (step b o))), snd (step b o))) /\
  slot_post o b (fst (step b o)).

Lemma step_post_intro : forall n (b : bstate V) o b' x,
  step b o = (b', x) ->
  Good (n + op_weight o) b' ->
  out_is_error x = false ->
  cap b' = cap b ->
  (abstract_op o = true -> spec_step (contents (root b)) o = (contents (root b'), x)) ->
  slot_post o b b' ->
  step_post n b o.
Proof.
  intros n b o b' x E H1 H2 H3 H4 H5. unfold step_post. rewrite E. cbn [fst snd]. auto.
Qed.

Lemma reader_post : forall n (b : bstate V) o x,
  Good n b ->
  step b o = (b, x) ->
  is_clear o = false ->
  out_is_error x = false ->
  (abstract_op o = true -> spec_step (contents (root b)) o = (contents (root b), x)) ->
  step_post n b o.
Proof.
  intros n b o x G E Hc H2 H4.
  eapply step_post_intro; eauto.
  - eapply Good_mono; [exact G|lia].
  - unfold slot_post. rewrite Hc. lia.
Qed.

Ltac ustep := unfold step; cbv zeta.

Theorem step_all : forall n (b : bstate V) (o : op V),
  Good n b -> fits (n + op_weight o) -> step_post n b o.
Proof.
  intros n b o G F.
  pose proof (Good_inv G) as I.
  pose proof (Good_heap _ G F) as HO.
  destruct o as [k v|z|z|z|z d| | |z v| |kinds steps| | |lo hi|s e|p idx e| | |z|z|zs|z|k v|z|items].
  - (* OInsert *)
    destruct (good_insert _ k v G F) as (b' & old & E & G' & Hc & C & O & L1 & B1 & _).
    eapply step_post_intro with (b' := b') (x := UOpt old).
    + ustep. rewrite E. reflexivity.
    + cbn [op_weight]. rewrite Nat.add_1_r. exact G'.
    + reflexivity.
    + exact Hc.
    + intros _. cbn [spec_step]. rewrite C, O. reflexivity.
    + unfold slot_post. cbn [is_clear]. split; assumption.
  - (* ORemove *)
    destruct (good_remove _ z G F) as (b' & old & E & G' & Hc & C & O & L1 & B1).
    eapply step_post_intro with (b' := b') (x := UOpt old).
    + ustep. rewrite E. reflexivity.
    + eapply Good_mono; [exact G'|lia].
    + reflexivity.
    + exact Hc.
    + intros _. cbn [spec_step]. rewrite C, O. reflexivity.
    + unfold slot_post. cbn [is_clear]. lia.
  - (* OGet *)
    eapply reader_post; [exact G| |reflexivity| |].
    + ustep. rewrite (h_get_spec z I HO). cbn [lift]. reflexivity.
    + reflexivity.
    + intros _. reflexivity.
  - (* OContains *)
    eapply reader_post; [exact G| |reflexivity| |].
    + ustep. rewrite (h_contains_spec z I HO). cbn [lift]. reflexivity.
    + reflexivity.
    + intros _. reflexivity.
  - (* OGetOrDefault *)
    eapply reader_post; [exact G| |reflexivity| |].
    + ustep. rewrite (h_get_or_default_spec z d I HO). cbn [lift]. reflexivity.
    + reflexivity.
    + intros _. reflexivity.
  - (* OLen *)
    eapply reader_post; [exact G| |reflexivity| |].
    + ustep. rewrite (len_spec I HO). cbn [lift]. reflexivity.
    + reflexivity.
    + intros _. reflexivity.
  - (* OIsEmpty *)
    eapply reader_post; [exact G| |reflexivity| |].
    + ustep. rewrite (is_empty_spec I HO). cbn [lift]. reflexivity.
    + reflexivity.
    + intros _. reflexivity.
  - (* OGetMutWrite *)
    destruct (get_mut_write_inv z v I) as (b' & E & I' & Hc & LM & BM & C & LL & BI & Hh).
    pose proof G as (_ & GC & GL & GB).
    eapply step_post_intro with (b' := b').
    + ustep. rewrite E. reflexivity.
    + split; [exact I'|]. rewrite C, length_m_update, LM, BM. cbn [op_weight]. repeat split; lia.
    + reflexivity.
    + exact Hc.
    + intros _. cbn [spec_step]. rewrite C. reflexivity.
    + unfold slot_post. cbn [is_clear]. rewrite LM, BM. lia.
  - (* OClear *)
    destruct (clear_inv b (inv_cap I)) as (I' & Hc & C & R' & NL & NB & LL & LB).
    eapply step_post_intro with (b' := b_clear b) (x := UUnit).
    + reflexivity.
    + split; [exact I'|]. rewrite C, LL, LB. cbn [length]. repeat split; lia.
    + reflexivity.
    + exact Hc.
    + intros _. cbn [spec_step]. rewrite C. reflexivity.
    + unfold slot_post. cbn [is_clear]. auto.
  - (* OIter *)
    eapply reader_post; [exact G| |reflexivity| |].
    + ustep. rewrite (iter_op_spec I HO kinds steps). cbn [lift]. reflexivity.
    + reflexivity.
    + intros _. reflexivity.
  - (* OFirstLast *)
    eapply reader_post; [exact G| |reflexivity| |].
    + ustep. rewrite (first_spec I HO), (last_spec I HO). cbn [bind lift fst snd]. reflexivity.
    + reflexivity.
    + intros _. reflexivity.
  - (* OSlices *)
    eapply reader_post; [exact G| |reflexivity| |].
    + ustep. rewrite (items_spec I HO), (items_fast_spec I HO), (keys_spec I HO), (values_spec I HO).
      cbn [bind lift]. reflexivity.
    + reflexivity.
    + intros _. reflexivity.
  - (* ORange *)
    eapply reader_post; [exact G| |reflexivity| |].
    + ustep. rewrite (range_spec I HO lo hi). cbn [lift]. reflexivity.
    + reflexivity.
    + intros _. reflexivity.
  - (* OItemsRange *)
    eapply reader_post; [exact G| |reflexivity| |].
    + ustep. rewrite (items_range_spec I HO s e). cbn [lift]. reflexivity.
    + reflexivity.
    + intros _. reflexivity.
  - (* OFromPos *)
    eapply reader_post with (x := snd (step b (OFromPos p idx e))); [exact G| |reflexivity| |].
    + reflexivity.
    + rewrite (from_pos_op_spec I HO p idx e).
      destruct (nth_error (leaves_of (root b)) p) as [[id l]|]; reflexivity.
    + intros H. discriminate H.
  - (* OValidate *)
    eapply reader_post; [exact G| |reflexivity| |].
    + ustep. destruct (validate_same (flatten b)) as [_ VS]. rewrite VS.
      rewrite (detailed_complete I HO), (check_node_complete I HO). cbn [bind lift]. reflexivity.
    + reflexivity.
    + intros _. reflexivity.
  - (* OIntrospect *)
    eapply reader_post; [exact G| |reflexivity| |].
    + ustep. rewrite (leaf_count_spec I HO), (count_nodes_spec I HO), (leaf_sizes_spec I HO).
      cbn [bind lift]. reflexivity.
    + reflexivity.
    + intros H. discriminate H.
  - (* OTryGet *)
    eapply reader_post; [exact G| |reflexivity| |].
    + ustep. rewrite (h_get_spec z I HO). cbn [lift]. reflexivity.
    + destruct (m_get (contents (root b)) z); reflexivity.
    + intros _. reflexivity.
  - (* OGetItem *)
    eapply reader_post; [exact G| |reflexivity| |].
    + ustep. rewrite (h_get_spec z I HO). cbn [lift]. reflexivity.
    + destruct (m_get (contents (root b)) z); reflexivity.
    + intros _. reflexivity.
  - (* OGetMany *)
    eapply reader_post; [exact G| |reflexivity| |].
    + ustep. rewrite (get_many_spec zs [] I HO). cbn [lift]. reflexivity.
    + destruct (spec_get_many (contents (root b)) zs); reflexivity.
    + intros _. cbn [spec_step]. destruct (spec_get_many (contents (root b)) zs); reflexivity.
  - (* ORemoveItem *)
    destruct (good_remove _ z G F) as (b' & old & E & G' & Hc & C & O & L1 & B1).
    eapply step_post_intro with (b' := b')
      (x := match old with Some v => URes (Some v) None | None => URes None (Some KeyNotFound) end).
    + ustep. rewrite E. destruct old; reflexivity.
    + eapply Good_mono; [exact G'|lia].
    + destruct old; reflexivity.
    + exact Hc.
    + intros _. cbn [spec_step]. rewrite C, <- O. reflexivity.
    + unfold slot_post. cbn [is_clear]. lia.
  - (* OTryInsert *)
    cbn [op_weight] in F.
    assert (F1 : fits (n + S 0)) by (eapply fits_mono; [exact F|lia]).
    destruct (try_insert_ok _ k v G F1) as (b' & old & E & G' & Hc & C & O & L1 & B1 & _).
    eapply step_post_intro with (b' := b') (x := UResOpt (Some old) None).
    + ustep. rewrite E. reflexivity.
    + cbn [op_weight]. rewrite Nat.add_1_r. exact G'.
    + reflexivity.
    + exact Hc.
    + intros _. cbn [spec_step]. rewrite C, O. reflexivity.
    + unfold slot_post. cbn [is_clear]. split; assumption.
  - (* OTryRemove *)
    destruct (try_remove_ok _ z G F) as (b' & old & E & G' & Hc & C & O & L1 & B1).
    eapply step_post_intro with (b' := b')
      (x := URes old (match old with Some _ => None | None => Some KeyNotFound end)).
    + ustep. rewrite E. reflexivity.
    + eapply Good_mono; [exact G'|lia].
    + reflexivity.
    + exact Hc.
    + intros _. cbn [spec_step]. rewrite C, <- O. destruct old; reflexivity.
    + unfold slot_post. cbn [is_clear]. lia.
  - (* OBatchInsert *)
    cbn [op_weight] in F.
    destruct (batch_ok items [] [] G F)
      as (b' & E & G' & Hc & C & L1 & B1 & _).
    eapply step_post_intro with (b' := b').
    + ustep. rewrite E. reflexivity.
    + cbn [op_weight]. eapply Good_mono; [exact G'|lia].
    + reflexivity.
    + exact Hc.
    + intros _. cbn [spec_step]. rewrite C.
      destruct (spec_batch (contents (root b)) items) as [m' outs]. reflexivity.
    + unfold slot_post. cbn [is_clear]. split; assumption.
Qed.

End ReachStep.
