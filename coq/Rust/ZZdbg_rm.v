(* Local lemmas for remove: what each of the eight rebalancing cases computes, and
   that the result re-establishes order, shape, contents, chain and id bookkeeping
   of the parent's (keys, children). *)
From Coq Require Import Lia Arith Permutation.
From BPT Require Import Common.Base Common.AMap Rust.Tree Rust.Readers Rust.InvDefs Rust.Lib
  Rust.TreeFactsR.
Set Implicit Arguments.

Section RemoveLocal.
Variable V : Type.
Notation ptree := (ptree V).

Ltac ltb_true H := rewrite (proj2 (Nat.ltb_lt _ _) H).
Ltac ltb_false H := rewrite (proj2 (Nat.ltb_ge _ _) H).

(* ---------------- what the code computes (index form) ---------------- *)

Lemma exec_leaf_borrow_left : forall lm bm ks (cs : list ptree) ci
    lid lcap lks' k lvs' v lnext cid ccap cks cvs cnext,
  0 < ci -> ci - 1 < length ks ->
  nth_error cs ci = Some (PLeaf cid ccap cks cvs cnext) ->
  nth_error cs (ci - 1) = Some (PLeaf lid lcap (lks' ++ [k]) (lvs' ++ [v]) lnext) ->
  lcap / 2 < length (lks' ++ [k]) ->
  rebalance_leaf lm bm ks cs ci =
    Ok (lm, bm, set_nth (ci - 1) k ks,
        set_nth ci (PLeaf cid ccap (k :: cks) (v :: cvs) cnext)
          (set_nth (ci - 1) (PLeaf lid lcap lks' lvs' lnext) cs)).
Proof.
  intros. unfold rebalance_leaf. rewrite H1. ltb_true H. rewrite H2.
  unfold can_donate. cbn [pcap pkeys]. ltb_true H3.
  replace (Nat.eqb (length (lks' ++ [k])) 0) with false
    by (symmetry; apply Nat.eqb_neq; rewrite app_length; simpl; lia).
  cbn [orb negb]. rewrite !vec_pop_app. rewrite vec_set_ok; auto.
  ltb_true H3. reflexivity.
Qed.

Lemma exec_leaf_borrow_right : forall lm bm ks (cs : list ptree) ci
    rid rcap k s rks'' v rvs' rnext cid ccap cks cvs cnext,
  ci < length ks ->
  nth_error cs ci = Some (PLeaf cid ccap cks cvs cnext) ->
  (forall l, 0 < ci -> nth_error cs (ci - 1) = Some l -> can_donate l = false) ->
  nth_error cs (S ci) = Some (PLeaf rid rcap (k :: s :: rks'') (v :: rvs') rnext) ->
  rcap / 2 < length (k :: s :: rks'') ->
  rebalance_leaf lm bm ks cs ci =
    Ok (lm, bm, set_nth ci s ks,
        set_nth ci (PLeaf cid ccap (cks ++ [k]) (cvs ++ [v]) cnext)
          (set_nth (S ci) (PLeaf rid rcap (s :: rks'') rvs' rnext) cs)).
Proof.
  intros *. intros H H1 HL H2 H3.
  assert (LC : match (if Nat.ltb 0 ci then nth_error cs (ci - 1) else None) with
               Some l => can_donate l | None => false end = false).
  { destruct (Nat.ltb 0 ci) eqn:E; auto. apply Nat.ltb_lt in E.
    destruct (nth_error cs (ci - 1)) eqn:E1; auto. }
  assert (HS : S ci < length cs) by (apply nth_error_Some; congruence).
  unfold rebalance_leaf. rewrite H1. rewrite LC. ltb_true HS. rewrite H2.
  unfold can_donate. cbn [pcap pkeys]. ltb_true H3.
  ltb_true H3. change (Nat.eqb (length (k :: s :: rks'')) 0) with false. cbn [orb negb].
  rewrite vec_set_ok; auto.
Qed.

Lemma exec_leaf_merge_left : forall lm bm ks (cs : list ptree) ci sep
    lid lcap lks lvs lnext cid ccap cks cvs cnext,
  0 < ci -> nth_error ks (ci - 1) = Some sep ->
  nth_error cs ci = Some (PLeaf cid ccap cks cvs cnext) ->
  nth_error cs (ci - 1) = Some (PLeaf lid lcap lks lvs lnext) ->
  length lks <= lcap / 2 ->
  (forall r, nth_error cs (S ci) = Some r -> can_donate r = false) ->
  length lks + length cks <= lcap -> length lvs + length cvs <= lcap ->
  rebalance_leaf lm bm ks cs ci =
    Ok (m_dealloc lm cid, bm, remove_at (ci - 1) ks,
        remove_at ci (set_nth (ci - 1) (PLeaf lid lcap (lks ++ cks) (lvs ++ cvs) cnext) cs)).
Proof.
  intros *. intros H Hs H1 H2 H3 HR H4 H5.
  assert (RC : match (if Nat.ltb (S ci) (length cs) then nth_error cs (S ci) else None) with
               Some l => can_donate l | None => false end = false).
  { destruct (Nat.ltb (S ci) (length cs)) eqn:E; auto.
    destruct (nth_error cs (S ci)) eqn:E1; auto. }
  unfold rebalance_leaf. rewrite H1. ltb_true H. rewrite H2. rewrite RC.
  unfold can_donate. cbn [pcap pkeys]. ltb_false H3.
  replace (Nat.ltb lcap (length lks + length cks)) with false by (symmetry; apply Nat.ltb_ge; auto).
  replace (Nat.ltb lcap (length lvs + length cvs)) with false by (symmetry; apply Nat.ltb_ge; auto).
  cbn [orb].
  assert (Hc : ci < length cs) by (apply nth_error_Some; congruence).
  erewrite vec_remove_ok; [|rewrite nth_error_set_nth_other by lia; eauto].
  erewrite vec_remove_ok; eauto.
Qed.

Lemma exec_leaf_merge_right : forall lm bm ks (cs : list ptree) sep
    rid rcap rks rvs rnext cid ccap cks cvs cnext,
  nth_error ks 0 = Some sep ->
  nth_error cs 0 = Some (PLeaf cid ccap cks cvs cnext) ->
  nth_error cs 1 = Some (PLeaf rid rcap rks rvs rnext) ->
  length rks <= rcap / 2 ->
  length cks + length rks <= ccap -> length cvs + length rvs <= ccap ->
  rebalance_leaf lm bm ks cs 0 =
    Ok (m_dealloc lm rid, bm, remove_at 0 ks,
        remove_at 1 (set_nth 0 (PLeaf cid ccap (cks ++ rks) (cvs ++ rvs) rnext) cs)).
Proof.
  intros *. intros Hs H1 H2 H3 H4 H5.
  assert (HS : 1 < length cs) by (apply nth_error_Some; congruence).
  unfold rebalance_leaf. rewrite H1. change (Nat.ltb 0 0) with false. cbv iota. ltb_true HS. rewrite H2.
  unfold can_donate. cbn [pcap pkeys]. ltb_false H3.
  replace (Nat.ltb ccap (length cks + length rks)) with false by (symmetry; apply Nat.ltb_ge; auto).
  replace (Nat.ltb ccap (length cvs + length rvs)) with false by (symmetry; apply Nat.ltb_ge; auto).
  cbn [orb].
  erewrite vec_remove_ok; [|rewrite nth_error_set_nth_other by lia; eauto].
  erewrite vec_remove_ok; eauto.
Qed.

(* the separator reads at the start of rebalance_branch never panic *)
Lemma rsep_total : forall (ks : list key) (cs : list ptree) ci, length cs = S (length ks) ->
  exists rs,
    (match (match (if Nat.ltb (S ci) (length cs) then nth_error cs (S ci) else None) with
            | Some (PBranch _ _ _ _ as r) => Some r | _ => None end) with
     | Some _ => do s <- vec_get 41 ci ks; Ok (Some s)
     | None => Ok None end) = Ok rs /\
    (forall rid rcap rks rcs, nth_error cs (S ci) = Some (PBranch rid rcap rks rcs) ->
       exists s, nth_error ks ci = Some s /\ rs = Some s).
Proof.
  intros ks cs ci L.
  destruct (Nat.ltb (S ci) (length cs)) eqn:E.
  - apply Nat.ltb_lt in E. destruct (nth_error cs (S ci)) as [[|]|] eqn:En.
    + eexists; split; [reflexivity|]. intros; discriminate.
    + destruct (nth_error ks ci) eqn:Ek.
      * unfold vec_get. rewrite Ek. eexists; split; [reflexivity|]. intros. eauto.
      * apply nth_error_None in Ek. lia.
    + eexists; split; [reflexivity|]. intros; discriminate.
  - apply Nat.ltb_ge in E. eexists; split; [reflexivity|]. intros.
    assert (S ci < length cs) by (apply nth_error_Some; congruence). lia.
Qed.

Lemma lsep_total : forall (ks : list key) (cs : list ptree) ci, length cs = S (length ks) -> ci < length cs ->
  exists ls,
    (match (match (if Nat.ltb 0 ci then nth_error cs (ci - 1) else None) with
            | Some (PBranch _ _ _ _ as r) => Some r | _ => None end) with
     | Some _ => do s <- vec_get 40 (ci - 1) ks; Ok (Some s)
     | None => Ok None end) = Ok ls /\
    (forall lid lcap lks lcs, 0 < ci -> nth_error cs (ci - 1) = Some (PBranch lid lcap lks lcs) ->
       exists s, nth_error ks (ci - 1) = Some s /\ ls = Some s).
Proof.
  intros ks cs ci L Hc.
  destruct (Nat.ltb 0 ci) eqn:E.
  - apply Nat.ltb_lt in E. destruct (nth_error cs (ci - 1)) as [[|]|] eqn:En.
    + eexists; split; [reflexivity|]. intros; discriminate.
    + destruct (nth_error ks (ci - 1)) eqn:Ek.
      * unfold vec_get. rewrite Ek. eexists; split; [reflexivity|]. intros. eauto.
      * apply nth_error_None in Ek. lia.
    + eexists; split; [reflexivity|]. intros; discriminate.
  - apply Nat.ltb_ge in E. eexists; split; [reflexivity|]. intros. lia.
Qed.

Lemma exec_branch_borrow_left : forall lm bm ks (cs : list ptree) ci sep
    lid lcap lks' mk lcs' mc cid ccap cks ccs,
  length cs = S (length ks) ->
  0 < ci -> nth_error ks (ci - 1) = Some sep ->
  nth_error cs ci = Some (PBranch cid ccap cks ccs) ->
  nth_error cs (ci - 1) = Some (PBranch lid lcap (lks' ++ [mk]) (lcs' ++ [mc])) ->
  lcap / 2 < length (lks' ++ [mk]) ->
  rebalance_branch lm bm ks cs ci =
    Ok (lm, bm, set_nth (ci - 1) mk ks,
        set_nth ci (PBranch cid ccap (sep :: cks) (mc :: ccs))
          (set_nth (ci - 1) (PBranch lid lcap lks' lcs') cs)).
Proof.
  intros * L H Hs H1 H2 H3.
  assert (Hc : ci < length cs) by (apply nth_error_Some; congruence).
  destruct (@rsep_total ks cs ci L) as [rs [Ers _]].
  destruct (@lsep_total ks cs ci L Hc) as [ls [Els Hls]].
  destruct (Hls _ _ _ _ H H2) as [s [Es ->]]. rewrite Hs in Es. injection Es as <-.
  unfold rebalance_branch. rewrite Els. cbn [bind]. rewrite Ers. cbn [bind].
  rewrite H1. ltb_true H. rewrite H2.
  unfold can_donate. cbn [pcap pkeys]. ltb_true H3.
  replace (Nat.eqb (length (lks' ++ [mk])) 0) with false
    by (symmetry; apply Nat.eqb_neq; rewrite app_length; simpl; lia).
  cbn [orb negb]. rewrite !vec_pop_app. rewrite vec_set_ok; [|apply nth_error_Some; congruence].
  try ltb_true H3. reflexivity.
Qed.

Lemma exec_branch_borrow_right : forall lm bm ks (cs : list ptree) ci sep
    rid rcap mk rks' mc rcs' cid ccap cks ccs,
  length cs = S (length ks) ->
  nth_error ks ci = Some sep ->
  nth_error cs ci = Some (PBranch cid ccap cks ccs) ->
  (forall l, 0 < ci -> nth_error cs (ci - 1) = Some l -> can_donate l = false) ->
  nth_error cs (S ci) = Some (PBranch rid rcap (mk :: rks') (mc :: rcs')) ->
  rcap / 2 < length (mk :: rks') ->
  rebalance_branch lm bm ks cs ci =
    Ok (lm, bm, set_nth ci mk ks,
        set_nth ci (PBranch cid ccap (cks ++ [sep]) (ccs ++ [mc]))
          (set_nth (S ci) (PBranch rid rcap rks' rcs') cs)).
Proof.
  intros * L Hs H1 HL H2 H3.
  assert (Hc : ci < length cs) by (apply nth_error_Some; congruence).
  assert (HS : S ci < length cs) by (apply nth_error_Some; congruence).
  assert (LC : match (if Nat.ltb 0 ci then nth_error cs (ci - 1) else None) with
               Some l => can_donate l | None => false end = false).
  { destruct (Nat.ltb 0 ci) eqn:E; auto. apply Nat.ltb_lt in E.
    destruct (nth_error cs (ci - 1)) eqn:E1; auto. }
  destruct (@rsep_total ks cs ci L) as [rs [Ers Hrs]].
  destruct (@lsep_total ks cs ci L Hc) as [ls [Els _]].
  destruct (Hrs _ _ _ _ H2) as [s [Es ->]]. rewrite Hs in Es. injection Es as <-.
  unfold rebalance_branch. rewrite Els. cbn [bind]. rewrite Ers. cbn [bind].
  rewrite H1. rewrite LC. ltb_true HS. rewrite H2.
  unfold can_donate. cbn [pcap pkeys]. ltb_true H3.
  change (Nat.eqb (length (mk :: rks')) 0) with false. cbn [orb negb].
  rewrite vec_set_ok; [|apply nth_error_Some; congruence].
  try ltb_true H3. reflexivity.
Qed.

Lemma exec_branch_merge_left : forall lm bm ks (cs : list ptree) ci sep
    lid lcap lks lcs cid ccap cks ccs,
  length cs = S (length ks) ->
  0 < ci -> nth_error ks (ci - 1) = Some sep ->
  nth_error cs ci = Some (PBranch cid ccap cks ccs) ->
  nth_error cs (ci - 1) = Some (PBranch lid lcap lks lcs) ->
  length lks <= lcap / 2 ->
  (forall r, nth_error cs (S ci) = Some r -> can_donate r = false) ->
  length lks + 1 + length cks <= lcap -> length lcs + length ccs <= lcap + 1 ->
  rebalance_branch lm bm ks cs ci =
    Ok (lm, m_dealloc bm cid, remove_at (ci - 1) ks,
        remove_at ci (set_nth (ci - 1) (PBranch lid lcap (lks ++ sep :: cks) (lcs ++ ccs)) cs)).
Proof.
  intros * L H Hs H1 H2 H3 HR H4 H5.
  assert (Hc : ci < length cs) by (apply nth_error_Some; congruence).
  assert (RC : match (if Nat.ltb (S ci) (length cs) then nth_error cs (S ci) else None) with
               Some l => can_donate l | None => false end = false).
  { destruct (Nat.ltb (S ci) (length cs)) eqn:E; auto.
    destruct (nth_error cs (S ci)) eqn:E1; auto. }
  destruct (@rsep_total ks cs ci L) as [rs [Ers _]].
  destruct (@lsep_total ks cs ci L Hc) as [ls [Els _]].
  unfold rebalance_branch. rewrite Els. cbn [bind]. rewrite Ers. cbn [bind].
  rewrite H1. ltb_true H. rewrite H2. rewrite RC.
  unfold can_donate. cbn [pcap pkeys]. ltb_false H3. cbv iota.
  rewrite (vec_get_ok _ _ _ Hs). cbn [bind].
  replace (Nat.ltb lcap (length lks + 1 + length cks)) with false by (symmetry; apply Nat.ltb_ge; auto).
  replace (Nat.ltb (lcap + 1) (length lcs + length ccs)) with false by (symmetry; apply Nat.ltb_ge; auto).
  cbn [orb].
  erewrite vec_remove_ok; [|rewrite nth_error_set_nth_other by lia; eauto].
  erewrite vec_remove_ok; eauto.
Qed.

Lemma exec_branch_merge_right : forall lm bm ks (cs : list ptree) sep
    rid rcap rks rcs cid ccap cks ccs,
  length cs = S (length ks) ->
  nth_error ks 0 = Some sep ->
  nth_error cs 0 = Some (PBranch cid ccap cks ccs) ->
  nth_error cs 1 = Some (PBranch rid rcap rks rcs) ->
  length rks <= rcap / 2 ->
  length cks + 1 + length rks <= ccap -> length ccs + length rcs <= ccap + 1 ->
  rebalance_branch lm bm ks cs 0 =
    Ok (lm, m_dealloc bm rid, remove_at 0 ks,
        remove_at 1 (set_nth 0 (PBranch cid ccap (cks ++ sep :: rks) (ccs ++ rcs)) cs)).
Proof.
  intros * L Hs H1 H2 H3 H4 H5.
  assert (Hc : 0 < length cs) by (apply nth_error_Some; congruence).
  assert (HS : 1 < length cs) by (apply nth_error_Some; congruence).
  destruct (@rsep_total ks cs 0 L) as [rs [Ers Hrs]].
  destruct (@lsep_total ks cs 0 L Hc) as [ls [Els _]].
  destruct (Hrs _ _ _ _ H2) as [s [Es ->]]. rewrite Hs in Es. injection Es as <-.
  unfold rebalance_branch. rewrite Els. cbn [bind]. rewrite Ers. cbn [bind].
  rewrite H1. change (Nat.ltb 0 0) with false. cbv iota. ltb_true HS. rewrite H2.
  unfold can_donate. cbn [pcap pkeys]. ltb_false H3. cbv iota.
  rewrite (vec_get_ok _ _ _ Hs). cbn [bind].
  replace (Nat.ltb ccap (length cks + 1 + length rks)) with false by (symmetry; apply Nat.ltb_ge; auto).
  replace (Nat.ltb (ccap + 1) (length ccs + length rcs)) with false by (symmetry; apply Nat.ltb_ge; auto).
  cbn [orb].
  erewrite vec_remove_ok; [|rewrite nth_error_set_nth_other by lia; eauto].
  erewrite vec_remove_ok; eauto.
Qed.

(* ---------------- order for a pair of adjacent children ---------------- *)
Open Scope Z_scope.

Lemma sorted_keys_snoc : forall l k, sorted_keys (l ++ [k]) <->
  sorted_keys l /\ (forall a, In a l -> kz a < kz k).
Proof.
  intros. rewrite sorted_keys_app. split.
  - intros (A & _ & C). split; auto. intros; apply C; simpl; auto.
  - intros (A & C). split; [auto|split].
    + unfold sorted_keys. simpl. tauto.
    + intros a b Ia [<-|[]]. auto.
Qed.

Lemma pair_leaf_borrow_left : forall a ub sep xid c xks' k (xvs' : list V) v xnx yid yks yvs ynx c',
  ord a (Some (kz sep)) (PLeaf xid c (xks' ++ [k]) (xvs' ++ [v]) xnx) ->
  ord (Some (kz sep)) ub (PLeaf yid c' yks yvs ynx) ->
  hi_ok ub (kz sep) -> xks' <> [] ->
  ord a (Some (kz k)) (PLeaf xid c xks' xvs' xnx) /\
  ord (Some (kz k)) ub (PLeaf yid c' (k :: yks) (v :: yvs) ynx) /\
  gt_lo a (kz k) /\ hi_ok ub (kz k).
Proof.
  intros * Ox Oy Hs Ne.
  apply ord_leaf_inv in Ox. destruct Ox as [Sx Fx].
  apply ord_leaf_inv in Oy. destruct Oy as [Sy Fy].
  apply sorted_keys_snoc in Sx. destruct Sx as [Sx Lx].
  apply Forall_app in Fx. destruct Fx as [Fx Fk]. inversion Fk as [|? ? [Bk1 Bk2] _]; subst.
  rewrite Forall_forall in Fx, Fy. simpl in Bk2.
  assert (Hk : hi_ok ub (kz k)) by (eapply hi_ok_le; eauto; lia).
  repeat split; auto.
  - constructor; auto. apply Forall_forall. intros e Ie. split; [apply Fx; auto|simpl; auto].
  - constructor.
    + apply sorted_keys_cons. split; auto. intros b Ib. destruct (Fy b Ib) as [B _]. simpl in B. lia.
    + constructor.
      * split; simpl; auto. lia.
      * apply Forall_forall. intros b Ib. destruct (Fy b Ib) as [B B']. split; auto. simpl in *. lia.
  - destruct xks' as [|e r]; [congruence|].
    eapply lo_ok_lt_gt; [apply (Fx e); left; auto|apply Lx; left; auto].
Qed.

Lemma pair_leaf_borrow_right : forall a ub sep xid c xks (xvs : list V) xnx yid c' k s yks v yvs ynx,
  ord a (Some (kz sep)) (PLeaf xid c xks xvs xnx) ->
  ord (Some (kz sep)) ub (PLeaf yid c' (k :: s :: yks) (v :: yvs) ynx) ->
  lo_ok a (kz sep) ->
  ord a (Some (kz s)) (PLeaf xid c (xks ++ [k]) (xvs ++ [v]) xnx) /\
  ord (Some (kz s)) ub (PLeaf yid c' (s :: yks) yvs ynx) /\
  gt_lo a (kz s) /\ hi_ok ub (kz s).
Proof.
  intros * Ox Oy Hs.
  apply ord_leaf_inv in Ox. destruct Ox as [Sx Fx].
  apply ord_leaf_inv in Oy. destruct Oy as [Sy Fy].
  apply sorted_keys_cons in Sy. destruct Sy as [Sy Lk].
  pose proof Sy as Sy'. apply sorted_keys_cons in Sy'. destruct Sy' as [_ Ls].
  inversion Fy as [|? ? [Bk1 Bk2] Fy']; subst. inversion Fy' as [|? ? [Bs1 Bs2] Fy'']; subst.
  rewrite Forall_forall in Fx, Fy''. simpl in Bk1, Bs1.
  assert (Hks : kz k < kz s) by (apply Lk; left; auto).
  repeat split; auto.
  - constructor.
    + apply sorted_keys_snoc. split; auto. intros e Ie. destruct (Fx e Ie) as [_ B]. simpl in B. lia.
    + apply Forall_app. split.
      * apply Forall_forall. intros e Ie. destruct (Fx e Ie) as [B B']. split; auto. simpl in *. lia.
      * constructor; auto. split; simpl; auto. eapply lo_ok_le; eauto.
  - constructor; auto. constructor.
    + split; simpl; auto. lia.
    + apply Forall_forall. intros b Ib. destruct (Fy'' b Ib) as [_ B']. split; auto. simpl.
      specialize (Ls b Ib). lia.
  - eapply lo_ok_lt_gt; eauto. lia.
Qed.

Lemma pair_leaf_merge : forall a ub sep xid c xks (xvs : list V) xnx yid c' yks yvs ynx,
  ord a (Some (kz sep)) (PLeaf xid c xks xvs xnx) ->
  ord (Some (kz sep)) ub (PLeaf yid c' yks yvs ynx) ->
  lo_ok a (kz sep) -> hi_ok ub (kz sep) ->
  ord a ub (PLeaf xid c (xks ++ yks) (xvs ++ yvs) ynx).
Proof.
  intros * Ox Oy Hl Hh.
  apply ord_leaf_inv in Ox. destruct Ox as [Sx Fx].
  apply ord_leaf_inv in Oy. destruct Oy as [Sy Fy].
  rewrite Forall_forall in Fx, Fy.
  constructor.
  - apply sorted_keys_app. repeat split; auto. intros e b Ie Ib.
    destruct (Fx e Ie) as [_ B]. destruct (Fy b Ib) as [B' _]. simpl in *. lia.
  - apply Forall_app. split; apply Forall_forall.
    + intros e Ie. destruct (Fx e Ie) as [B B']. split; auto. simpl in B'. eapply hi_ok_le; eauto. lia.
    + intros b Ib. destruct (Fy b Ib) as [B B']. split; auto. simpl in B. eapply lo_ok_le; eauto.
Qed.

Lemma sep_lt_keys : forall c h s ub yks (ycs : list ptree), (4 <= c)%nat ->
  ords (Some s) ub yks ycs -> Forall (shape c false h) ycs -> sorted_keys yks ->
  forall k, In k yks -> s < kz k.
Proof.
  intros * C O F S k I. destruct yks as [|k0 yks]; [destruct I|].
  destruct ycs as [|c0 ycs]; [simpl in O; tauto|].
  apply ords_cons_inv in O. simpl in O. inversion F; subst.
  pose proof (ord_strict C H1 O) as L.
  destruct I as [<-|I]; auto.
  apply sorted_keys_cons in S. destruct S as [_ S]. specialize (S k I). lia.
About sep_lt_keys. About ord_strict.
