(* General facts used by the proof of [remove_inv]: list zippers, bounds, a list form
   of the children part of [ord], shape facts, leaf chain and arena metadata facts. *)
From Coq Require Import Lia Arith Permutation.
From BPT Require Import Common.Base Common.AMap Rust.Tree Rust.Readers Rust.InvDefs Rust.Lib.
Set Implicit Arguments.

Lemma half_spec : forall c, 2 * (c / 2) <= c < 2 * (c / 2) + 2.
Proof. intro c. pose proof (Nat.div_mod c 2). pose proof (Nat.mod_upper_bound c 2). lia. Qed.
Ltac hlia c := cbn [length] in *; pose proof (half_spec c); generalize dependent (c / 2); intros; lia.

(* ------------------------------------------------------------------ *)
Section Zip.
Variable A : Type.

Lemma nth_error_zipn : forall (l1 : list A) l i, nth_error (l1 ++ l) (length l1 + i) = nth_error l i.
Proof. induction l1; simpl; auto. Qed.
Lemma set_nth_zipn : forall (l1 : list A) l i z, set_nth (length l1 + i) z (l1 ++ l) = l1 ++ set_nth i z l.
Proof. induction l1; simpl; intros; auto. f_equal; auto. Qed.
Lemma remove_at_zipn : forall (l1 : list A) l i, remove_at (length l1 + i) (l1 ++ l) = l1 ++ remove_at i l.
Proof. induction l1; simpl; intros; auto. f_equal; auto. Qed.

Lemma nth_error_zip0 : forall (l1 : list A) x l2, nth_error (l1 ++ x :: l2) (length l1) = Some x.
Proof. intros. rewrite <- (Nat.add_0_r (length l1)). rewrite nth_error_zipn. reflexivity. Qed.

Lemma nth_error_zip1 : forall (l1 : list A) x y l2,
  nth_error (l1 ++ x :: y :: l2) (S (length l1)) = Some y.
Proof. intros. rewrite <- (Nat.add_1_r (length l1)). rewrite nth_error_zipn. reflexivity. Qed.

Lemma set_nth_zip0 : forall (l1 : list A) x z l2,
  set_nth (length l1) z (l1 ++ x :: l2) = l1 ++ z :: l2.
Proof. intros. rewrite <- (Nat.add_0_r (length l1)). rewrite set_nth_zipn. reflexivity. Qed.

Lemma set_nth_zip1 : forall (l1 : list A) x y z l2,
  set_nth (S (length l1)) z (l1 ++ x :: y :: l2) = l1 ++ x :: z :: l2.
Proof. intros. rewrite <- (Nat.add_1_r (length l1)). rewrite set_nth_zipn. reflexivity. Qed.

Lemma remove_at_zip0 : forall (l1 : list A) x l2,
  remove_at (length l1) (l1 ++ x :: l2) = l1 ++ l2.
Proof. intros. rewrite <- (Nat.add_0_r (length l1)). rewrite remove_at_zipn. reflexivity. Qed.

Lemma remove_at_zip1 : forall (l1 : list A) x y l2,
  remove_at (S (length l1)) (l1 ++ x :: y :: l2) = l1 ++ x :: l2.
Proof. intros. rewrite <- (Nat.add_1_r (length l1)). rewrite remove_at_zipn. reflexivity. Qed.

Lemma set_nth_same : forall (l : list A) i x, nth_error l i = Some x -> set_nth i x l = l.
Proof.
  induction l; destruct i; simpl; intros; try congruence.
  f_equal. eauto.
Qed.

Lemma snoc_cases : forall (l : list A), l = [] \/ exists l' x, l = l' ++ [x].
Proof.
  intro l. induction l using rev_ind; [left; reflexivity | right; eauto].
Qed.

Lemma vec_set_ok : forall site i (x : A) l, i < length l -> vec_set site i x l = Ok (set_nth i x l).
Proof. intros. unfold vec_set. apply Nat.ltb_lt in H. rewrite H. reflexivity. Qed.

Lemma vec_remove_ok : forall site i (x : A) l, nth_error l i = Some x ->
  vec_remove site i l = Ok (x, remove_at i l).
Proof. intros. unfold vec_remove. rewrite H. reflexivity. Qed.

Lemma vec_get_ok : forall site i (x : A) l, nth_error l i = Some x -> vec_get site i l = Ok x.
Proof. intros. unfold vec_get. rewrite H. reflexivity. Qed.

Lemma split_at : forall (l : list A) i, i <= length l ->
  exists l1 l2, l = l1 ++ l2 /\ length l1 = i.
Proof.
  intros. exists (firstn i l), (skipn i l). split.
  - symmetry. apply firstn_skipn.
  - apply firstn_length_le. auto.
Qed.

Lemma nth_error_zip_inv : forall (l : list A) i x, nth_error l i = Some x ->
  exists l1 l2, l = l1 ++ x :: l2 /\ length l1 = i.
Proof.
  intros. exists (firstn i l), (skipn (S i) l). split.
  - apply nth_error_split. auto.
  - apply firstn_length_le. apply Nat.lt_le_incl. apply nth_error_Some. congruence.
Qed.

End Zip.

(* ------------------------------------------------------------------ *)
Section Facts.
Variable V : Type.
Notation ptree := (ptree V).
Open Scope Z_scope.

Definition gt_lo (a : option Z) (z : Z) : Prop :=
  match a with Some l => l < z | None => True end.

Lemma gt_lo_lo_ok : forall a z, gt_lo a z -> lo_ok a z.
Proof. destruct a; simpl; intros; auto; lia. Qed.

Lemma lo_ok_le : forall a z z', lo_ok a z -> z <= z' -> lo_ok a z'.
Proof. destruct a; simpl; intros; auto; lia. Qed.

Lemma lo_ok_lt_gt : forall a z z', lo_ok a z -> z < z' -> gt_lo a z'.
Proof. destruct a; simpl; intros; auto; lia. Qed.

Lemma hi_ok_le : forall a z z', hi_ok a z -> z' <= z -> hi_ok a z'.
Proof. destruct a; simpl; intros; auto; lia. Qed.

Definition lastb (lo : option Z) (ks : list key) : option Z :=
  fold_left (fun _ k => Some (kz k)) ks lo.
Definition firstb (hi : option Z) (ks : list key) : option Z :=
  match ks with [] => hi | k :: _ => Some (kz k) end.

Lemma lastb_app : forall ks1 ks2 lo, lastb lo (ks1 ++ ks2) = lastb (lastb lo ks1) ks2.
Proof. intros. unfold lastb. apply fold_left_app. Qed.

Lemma lastb_snoc : forall ks k lo, lastb lo (ks ++ [k]) = Some (kz k).
Proof. intros. rewrite lastb_app. reflexivity. Qed.

(* children part of [ord], as a recursion over the lists *)
Fixpoint ordp (lo : option Z) (ks : list key) (cs : list ptree) : Prop :=
  match ks, cs with
  | [], [] => True
  | k :: ks', c :: cs' => ord lo (Some (kz k)) c /\ ordp (Some (kz k)) ks' cs'
  | _, _ => False
  end.

Fixpoint ords (lo hi : option Z) (ks : list key) (cs : list ptree) {struct cs} : Prop :=
  match cs with
  | [] => False
  | c :: cs' =>
      match ks with
      | [] => cs' = [] /\ ord lo hi c
      | k :: ks' => ord lo (Some (kz k)) c /\ ords (Some (kz k)) hi ks' cs'
      end
  end.

Lemma ords_length : forall cs ks lo hi, ords lo hi ks cs -> length cs = S (length ks).
Proof.
  induction cs; simpl; intros; [tauto|].
  destruct ks.
  - destruct H; subst; reflexivity.
  - destruct H. simpl. f_equal. eauto.
Qed.

Lemma ordp_length : forall ks cs lo, ordp lo ks cs -> length cs = length ks.
Proof.
  induction ks; destruct cs; simpl; intros; try tauto.
  destruct H. f_equal; eauto.
Qed.

Lemma child_bounds_consS : forall k ks lo hi i,
  child_bounds (k :: ks) lo hi (S i) = child_bounds ks (Some (kz k)) hi i.
Proof.
  intros. unfold child_bounds. simpl. rewrite Nat.sub_0_r. f_equal.
  destruct i; simpl; auto. rewrite Nat.sub_0_r. reflexivity.
Qed.

Lemma ords_iff : forall cs ks lo hi, length cs = S (length ks) ->
  ((forall i ch, nth_error cs i = Some ch ->
      ord (fst (child_bounds ks lo hi i)) (snd (child_bounds ks lo hi i)) ch)
   <-> ords lo hi ks cs).
Proof.
  induction cs; intros ks lo hi L; [discriminate|].
  simpl in L. injection L as L. destruct ks as [|k ks].
  - destruct cs; [|discriminate]. simpl. split.
    + intro H. split; auto. apply (H 0%nat a). reflexivity.
    + intros [_ H] i ch E. destruct i; simpl in E; [|destruct i; discriminate].
      injection E as <-. exact H.
  - change (ords lo hi (k :: ks) (a :: cs)) with (ord lo (Some (kz k)) a /\ ords (Some (kz k)) hi ks cs).
    split.
    + intro H. split.
      * apply (H 0%nat a). reflexivity.
      * apply IHcs; auto. intros i ch E. specialize (H (S i) ch E).
        rewrite child_bounds_consS in H. exact H.
    + intros [H0 H] i ch E. destruct i.
      * simpl in E. injection E as <-. exact H0.
      * rewrite child_bounds_consS. simpl in E. revert i ch E. apply IHcs; auto.
Qed.

Lemma ords_app : forall ks1 cs1 ks2 cs2 lo hi, length cs1 = length ks1 ->
  (ords lo hi (ks1 ++ ks2) (cs1 ++ cs2) <-> ordp lo ks1 cs1 /\ ords (lastb lo ks1) hi ks2 cs2).
Proof.
  induction ks1; destruct cs1; simpl; intros; try discriminate.
  - tauto.
  - injection H as H. rewrite (IHks1 cs1 ks2 cs2 (Some (kz a)) hi H). unfold lastb. simpl. tauto.
Qed.

Lemma ordp_app : forall ks1 cs1 ks2 cs2 lo, length cs1 = length ks1 ->
  (ordp lo (ks1 ++ ks2) (cs1 ++ cs2) <-> ordp lo ks1 cs1 /\ ordp (lastb lo ks1) ks2 cs2).
Proof.
  induction ks1; destruct cs1; simpl; intros; try discriminate.
  - tauto.
  - injection H as H. rewrite (IHks1 cs1 ks2 cs2 (Some (kz a)) H). unfold lastb. simpl. tauto.
Qed.

Lemma ords_cons_inv : forall a hi ks c cs, ords a hi ks (c :: cs) -> ord a (firstb hi ks) c.
Proof. intros. destruct ks; simpl in *; tauto. Qed.

Lemma ords_cons_change : forall a a' hi ks c c' cs,
  ords a hi ks (c :: cs) -> ord a' (firstb hi ks) c' -> ords a' hi ks (c' :: cs).
Proof. intros. destruct ks; simpl in *; tauto. Qed.

Lemma ords_snoc : forall cs ks k c lo hi,
  ords lo hi (ks ++ [k]) (cs ++ [c]) <-> ords lo (Some (kz k)) ks cs /\ ord (Some (kz k)) hi c.
Proof.
  induction cs; intros.
  - simpl. destruct ks; simpl; tauto.
  - destruct ks as [|k0 ks].
    + simpl. destruct cs; simpl.
      * intuition congruence.
      * split; [intros [_ F]|intros [[F _] _]]; try discriminate.
        destruct F as [F _]. destruct cs; discriminate.
    + simpl. rewrite IHcs. tauto.
Qed.

Lemma ords_join : forall cs1 ks1 k ks2 cs2 lo hi,
  ords lo (Some (kz k)) ks1 cs1 -> ords (Some (kz k)) hi ks2 cs2 ->
  ords lo hi (ks1 ++ k :: ks2) (cs1 ++ cs2).
Proof.
  induction cs1; simpl; intros; [tauto|].
  destruct ks1; simpl.
  - destruct H; subst. simpl. tauto.
  - destruct H. split; eauto.
Qed.


(* ---------------- ord: inversion / construction through [ords] ---------------- *)
Lemma ord_leaf_inv : forall lo hi id c ks (vs : list V) nx, ord lo hi (PLeaf id c ks vs nx) ->
  sorted_keys ks /\ Forall (in_bounds lo hi) ks.
Proof. intros. inversion H; subst. auto. Qed.

Lemma ord_branch_inv : forall lo hi id c ks (cs : list ptree), ord lo hi (PBranch id c ks cs) ->
  length cs = S (length ks) ->
  sorted_keys ks /\ Forall (in_bounds lo hi) ks /\ ords lo hi ks cs.
Proof. intros. inversion H; subst. repeat split; auto. apply ords_iff; auto. Qed.

Lemma ord_branch_intro : forall lo hi id c ks (cs : list ptree),
  sorted_keys ks -> Forall (in_bounds lo hi) ks -> ords lo hi ks cs ->
  ord lo hi (PBranch id c ks cs).
Proof.
  intros. constructor; auto. apply ords_iff; auto. eapply ords_length; eauto.
Qed.

Lemma child_bounds_sub : forall ks lo hi i k, (i <= length ks)%nat ->
  Forall (in_bounds lo hi) ks ->
  in_bounds (fst (child_bounds ks lo hi i)) (snd (child_bounds ks lo hi i)) k ->
  in_bounds lo hi k.
Proof.
  intros ks lo hi i k L F [B1 B2]. unfold child_bounds in *. simpl in *.
  rewrite Forall_forall in F. split.
  - destruct (Nat.eqb i 0) eqn:E0; auto. apply Nat.eqb_neq in E0.
    destruct (nth_error ks (i - 1)) eqn:E.
    + apply nth_error_In in E. apply F in E. destruct E as [E _].
      simpl in B1. eapply lo_ok_le; eauto.
    + apply nth_error_None in E. lia.
  - destruct (Nat.eqb i (length ks)) eqn:Ei; auto.
    apply Nat.eqb_neq in Ei.
    destruct (nth_error ks i) eqn:E.
    + apply nth_error_In in E. apply F in E. destruct E as [_ E].
      simpl in B2. eapply hi_ok_le; eauto. lia.
    + apply nth_error_None in E. lia.
Qed.

(* ---------------- shape ---------------- *)
Close Scope Z_scope.

Inductive shape_u (c : nat) : nat -> ptree -> Prop :=
| shape_u_leaf id ks vs nx :
    length vs = length ks -> S (length ks) = c / 2 ->
    shape_u c 0 (PLeaf id c ks vs nx)
| shape_u_branch h id ks cs :
    length cs = S (length ks) -> S (length ks) = c / 2 ->
    Forall (shape c false h) cs ->
    shape_u c (S h) (PBranch id c ks cs).

Lemma shape_root_relax : forall c r h (t : ptree), 4 <= c -> shape c false h t -> shape c r h t.
Proof.
  intros c r h t C H. inversion H; subst.
  - constructor; auto.
  - constructor; auto. intros _. specialize (H2 eq_refl). hlia c.
Qed.

Lemma list_max_const : forall (l : list nat) h, l <> [] -> (forall x, In x l -> x = h) -> list_max l = h.
Proof.
  induction l; intros; [congruence|].
  simpl. destruct l.
  - simpl. rewrite Nat.max_0_r. apply H0. left; auto.
  - rewrite (IHl h); [|discriminate|intros; apply H0; right; auto].
    rewrite (H0 a); [|left; auto]. apply Nat.max_id.
Qed.

Lemma shape_height : forall c r h (t : ptree), shape c r h t -> height t = h.
Proof.
  intros c r h t H. induction H; simpl; auto.
  f_equal. apply list_max_const.
  - destruct cs; simpl in *; [discriminate|discriminate].
  - intros x Hx. apply in_map_iff in Hx. destruct Hx as [ch [<- Hc]]. auto.
Qed.

Lemma shape_leaf_inv : forall c r h id c' ks (vs : list V) nx, shape c r h (PLeaf id c' ks vs nx) ->
  h = 0 /\ c' = c /\ length vs = length ks /\ length ks <= c /\ (r = false -> c / 2 <= length ks).
Proof. intros. inversion H; subst. auto. Qed.

Lemma shape_branch_inv : forall c r h id c' ks (cs : list ptree), shape c r h (PBranch id c' ks cs) ->
  exists h', h = S h' /\ c' = c /\ length cs = S (length ks) /\ length ks <= c /\
    (r = false -> c / 2 <= length ks) /\ (r = true -> 1 <= length ks) /\
    Forall (shape c false h') cs.
Proof.
  intros. inversion H; subst. exists h0. repeat split; auto. apply Forall_forall. auto.
Qed.

Lemma shape_branch_intro : forall c r h id ks (cs : list ptree),
  length cs = S (length ks) -> length ks <= c ->
  (r = false -> c / 2 <= length ks) -> (r = true -> 1 <= length ks) ->
  Forall (shape c false h) cs ->
  shape c r (S h) (PBranch id c ks cs).
Proof. intros. constructor; auto. apply Forall_forall. auto. Qed.

Lemma shape_0_leaf : forall c r (t : ptree), shape c r 0 t -> exists id ks vs nx, t = PLeaf id c ks vs nx.
Proof. intros. inversion H; subst. eauto. Qed.

Lemma shape_S_branch : forall c r h (t : ptree), shape c r (S h) t -> exists id ks cs, t = PBranch id c ks cs.
Proof. intros. inversion H; subst. eauto. Qed.

(* ---------------- contents lie within the bounds ---------------- *)
Lemma ord_contents_bounds : forall lo hi (t : ptree), ord lo hi t ->
  forall c r h, shape c r h t -> forall e, In e (contents t) -> in_bounds lo hi (fst e).
Proof.
  intros lo hi t H. induction H; intros c0 r h S e I; simpl in I.
  - destruct e as [k v]. apply in_combine_l in I. rewrite Forall_forall in H0. apply H0. auto.
  - apply shape_branch_inv in S. destruct S as (h' & -> & -> & L & _ & _ & _ & F).
    apply in_flat_map in I. destruct I as [ch [Ic Ie]].
    destruct (In_nth_error _ _ Ic) as [i Ei].
    rewrite Forall_forall in F.
    specialize (H2 i ch Ei _ _ _ (F ch Ic) e Ie).
    apply (@child_bounds_sub ks lo hi i); auto.
    assert (i < length cs) by (apply nth_error_Some; congruence). lia.
Qed.

Lemma ord_witness : forall c h lo hi (t : ptree), 4 <= c -> shape c false h t -> ord lo hi t ->
  exists k, in_bounds lo hi k.
Proof.
  intros c h lo hi t C S O. inversion S; subst.
  - apply ord_leaf_inv in O. destruct O as [_ F]. specialize (H1 eq_refl).
    destruct ks; [hlia c|]. inversion F; subst. eauto.
  - specialize (H1 eq_refl). apply ord_branch_inv in O; auto. destruct O as (_ & F & _).
    destruct ks; [hlia c|]. inversion F; subst. eauto.
Qed.

Lemma ord_strict : forall c h a b (t : ptree), 4 <= c -> shape c false h t ->
  ord (Some a) (Some b) t -> (a < b)%Z.
Proof.
  intros. destruct (ord_witness H H0 H1) as [k [K1 K2]]. simpl in *. lia.
Qed.

Lemma ordp_contents_lt : forall c h z ks (cs : list ptree) lo, ordp lo ks cs ->
  Forall (shape c false h) cs ->
  (forall k, In k ks -> (kz k <= z)%Z) ->
  forall e, In e (flat_map (@contents V) cs) -> (kz (fst e) < z)%Z.
Proof.
  induction ks; destruct cs; simpl; intros lo O F K e I; try tauto.
  destruct O as [O1 O2]. inversion F; subst. apply in_app_or in I. destruct I as [I|I].
  - destruct (ord_contents_bounds O1 H1 e I) as [_ B]. simpl in B.
    specialize (K a (or_introl eq_refl)). lia.
  - eapply IHks; eauto.
Qed.

Lemma ords_tail_contents_gt : forall c h z ks (cs : list ptree) a hi ch, ords a hi ks (ch :: cs) ->
  Forall (shape c false h) cs ->
  (forall k, In k ks -> (z < kz k)%Z) ->
  forall e, In e (flat_map (@contents V) cs) -> (z < kz (fst e))%Z.
Proof.
  induction ks; simpl; intros cs a0 hi ch O F K e I.
  - destruct O as [-> _]. simpl in I. tauto.
  - destruct O as [_ O]. destruct cs as [|c1 cs]; [simpl in I; tauto|].
    inversion F; subst. simpl in I. apply in_app_or in I. destruct I as [I|I].
    + apply ords_cons_inv in O. destruct (ord_contents_bounds O H1 e I) as [B _]. simpl in B.
      specialize (K a (or_introl eq_refl)). lia.
    + eapply IHks; eauto.
Qed.

(* ---------------- leaf chain ---------------- *)
Lemma links_merge : forall X a n1 b n2 Y after,
  links_ok (X ++ (a, n1) :: (b, n2) :: Y) after -> links_ok (X ++ (a, n2) :: Y) after.
Proof.
  induction X as [|[a0 n0] X]; intros a n1 b n2 Y after H.
  - simpl in *. tauto.
  - simpl app in *. destruct H as [H1 H2]. split; [|eapply IHX; eauto].
    destruct X as [|[a1 m1] X]; simpl in *; auto.
Qed.

(* ---------------- arena metadata ---------------- *)
Definition deallocs (m : ameta) (dl : list N) : ameta := fold_left m_dealloc dl m.

Lemma deallocs_app : forall m d1 d2, deallocs m (d1 ++ d2) = deallocs (deallocs m d1) d2.
Proof. intros. apply fold_left_app. Qed.

Lemma length_mask_dealloc : forall m id, length (m_mask (m_dealloc m id)) = length (m_mask m).
Proof.
  intros. unfold m_dealloc. destruct (N.eqb id NULL); auto.
  destruct (negb _); auto. simpl. apply length_set_nth.
Qed.

Lemma length_mask_deallocs : forall dl m, length (m_mask (deallocs m dl)) = length (m_mask m).
Proof.
  induction dl; simpl; intros; auto. unfold deallocs in *. simpl. rewrite IHdl.
  apply length_mask_dealloc.
Qed.

Lemma meta_ok_perm : forall m ids ids', Permutation ids ids' -> meta_ok m ids -> meta_ok m ids'.
Proof.
  intros m ids ids' P (A & B & C & D). split; [|split; [|split]]; auto.
  - eapply Permutation_NoDup; eauto.
  - intro id. split.
    + intro I. apply B. eapply Permutation_in; [apply Permutation_sym|]; eauto.
    + intro I. apply B in I. eapply Permutation_in; eauto.
Qed.

Lemma meta_ok_not_null : forall m ids id, meta_ok m ids -> room m 0 -> In id ids -> id <> NULL.
Proof.
  intros m ids id (_ & B & _) R I E. subst. apply B in I.
  unfold room in R. rewrite Nat.add_0_r in R. revert I R. generalize NULL. intros n I R.
  unfold m_mask_at in I. destruct (nth_error (m_mask m) (N.to_nat n)) eqn:En; [|discriminate].
  assert (N.to_nat n < length (m_mask m)) by (apply nth_error_Some; congruence).
  lia.
Qed.

Lemma meta_ok_dealloc : forall m id ids', id <> NULL ->
  meta_ok m (id :: ids') -> meta_ok (m_dealloc m id) ids'.
Proof.
  intros m id ids' NN (A & B & C & D).
  assert (Hm : m_mask_at m (N.to_nat id) = true) by (apply B; left; auto).
  unfold m_dealloc. apply N.eqb_neq in NN. rewrite NN. rewrite Hm. simpl.
  assert (Hlt : N.to_nat id < length (m_mask m)).
  { unfold m_mask_at in Hm. apply nth_error_Some. destruct (nth_error (m_mask m) (N.to_nat id)); congruence. }
  inversion A; subst.
  repeat split; simpl; auto.
  - intro I. unfold m_mask_at. simpl.
    assert (id0 <> id) by (intro; subst; auto).
    rewrite nth_error_set_nth_other; [|intro E; apply N2Nat.inj in E; congruence].
    apply (B id0). right; auto.
  - unfold m_mask_at. simpl. intro I.
    destruct (N.eq_dec id0 id) as [->|Ne].
    + rewrite nth_error_set_nth_same in I; auto. discriminate.
    + rewrite nth_error_set_nth_other in I; [|intro E; apply N2Nat.inj in E; congruence].
      apply (B id0) in I. destruct I; congruence.
  - constructor; auto. intro I. apply D in I. unfold m_mask_at in Hm. rewrite I in Hm. discriminate.
  - intros [<-|I].
    + apply nth_error_set_nth_same; auto.
    + assert (N.to_nat id <> i).
      { intro; subst. apply D in I. unfold m_mask_at in Hm. rewrite I in Hm. discriminate. }
      rewrite nth_error_set_nth_other; auto. apply D; auto.
  - intro I. destruct (Nat.eq_dec (N.to_nat id) i); [left; auto|right].
    rewrite nth_error_set_nth_other in I; auto. apply D; auto.
Qed.

Lemma meta_ok_deallocs : forall dl m ids ids',
  (forall id, In id dl -> id <> NULL) ->
  meta_ok m ids -> Permutation ids (dl ++ ids') -> meta_ok (deallocs m dl) ids'.
Proof.
  induction dl; intros m ids ids' NN M P.
  - simpl in *. eapply meta_ok_perm; eauto.
  - unfold deallocs. simpl. apply (IHdl (m_dealloc m a) (dl ++ ids') ids').
    + intros; apply NN; right; auto.
    + apply meta_ok_dealloc; [apply NN; left; auto|]. eapply meta_ok_perm; eauto.
    + apply Permutation_refl.
Qed.

End Facts.
