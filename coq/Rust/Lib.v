(* Shared lemma library: Vec-style list operations, binary search on sorted keys,
   sorted association lists.  Statements are fixed (other files depend on them). *)
From BPT Require Import Common.Base Common.AMap.
Set Implicit Arguments.

(* ------------------------------------------------------------------ *)
Section Lists.
Variable A : Type.

Lemma length_insert_at : forall i (x : A) l, i <= length l -> length (insert_at i x l) = S (length l).
Proof.
  induction i as [|i IH]; intros x l H.
  - destruct l; reflexivity.
  - destruct l as [|y l]; simpl in *.
    + lia.
    + rewrite IH; [reflexivity | lia].
Qed.

Lemma insert_at_app : forall i (x : A) l, i <= length l ->
  insert_at i x l = firstn i l ++ x :: skipn i l.
Proof.
  induction i as [|i IH]; intros x l H.
  - destruct l; reflexivity.
  - destruct l as [|y l]; simpl in *.
    + lia.
    + rewrite IH by lia. reflexivity.
Qed.

Lemma length_remove_at : forall i (l : list A), i < length l -> length (remove_at i l) = pred (length l).
Proof.
  induction i as [|i IH]; intros l H; destruct l as [|y l]; simpl in *; try lia.
  rewrite IH by lia. destruct l; simpl in *; lia.
Qed.

Lemma remove_at_app : forall i (l : list A),
  remove_at i l = firstn i l ++ skipn (S i) l.
Proof.
  induction i as [|i IH]; intros l; destruct l as [|y l]; simpl; try reflexivity.
  rewrite IH. reflexivity.
Qed.

Lemma length_set_nth : forall i (x : A) l, length (set_nth i x l) = length l.
Proof.
  induction i as [|i IH]; intros x l; destruct l as [|y l]; simpl; try reflexivity.
  rewrite IH. reflexivity.
Qed.

Lemma nth_error_set_nth_same : forall i (x : A) l, i < length l -> nth_error (set_nth i x l) i = Some x.
Proof.
  induction i as [|i IH]; intros x l H; destruct l as [|y l]; simpl in *; try lia.
  - reflexivity.
  - apply IH. lia.
Qed.

Lemma nth_error_set_nth_other : forall i j (x : A) l, i <> j -> nth_error (set_nth i x l) j = nth_error l j.
Proof.
  induction i as [|i IH]; intros j x l H; destruct l as [|y l]; destruct j as [|j];
    simpl; try reflexivity; try congruence.
  apply IH. congruence.
Qed.

Lemma set_nth_app : forall i (x : A) l, i < length l ->
  set_nth i x l = firstn i l ++ x :: skipn (S i) l.
Proof.
  induction i as [|i IH]; intros x l H; destruct l as [|y l]; simpl in *; try lia.
  - reflexivity.
  - rewrite IH by lia. reflexivity.
Qed.

Lemma set_nth_out : forall i (x : A) l, length l <= i -> set_nth i x l = l.
Proof.
  induction i as [|i IH]; intros x l H; destruct l as [|y l]; simpl in *;
    try reflexivity; try lia.
  rewrite IH by lia. reflexivity.
Qed.

Lemma nth_error_split : forall (l : list A) i x, nth_error l i = Some x ->
  l = firstn i l ++ x :: skipn (S i) l.
Proof.
  induction l as [|y l IH]; intros i x H; destruct i as [|i]; simpl in H; try discriminate.
  - injection H as H. subst y. reflexivity.
  - change (y :: l = y :: (firstn i l ++ x :: skipn (S i) l)).
    f_equal. apply IH. exact H.
Qed.

Lemma vec_pop_spec : forall (l : list A),
  match vec_pop l with
  | None => l = []
  | Some (x, r) => l = r ++ [x]
  end.
Proof.
  intros l. unfold vec_pop. destruct (rev l) as [|x r] eqn:E.
  - apply (f_equal (@rev A)) in E. rewrite rev_involutive in E. exact E.
  - apply (f_equal (@rev A)) in E. rewrite rev_involutive in E. simpl in E. exact E.
Qed.

Lemma vec_pop_app : forall (r : list A) x, vec_pop (r ++ [x]) = Some (x, r).
Proof.
  intros r x. unfold vec_pop. rewrite rev_app_distr. simpl. rewrite rev_involutive. reflexivity.
Qed.

Lemma last_opt_app : forall (r : list A) x, last_opt (r ++ [x]) = Some x.
Proof.
  intros r x. unfold last_opt. rewrite rev_app_distr. reflexivity.
Qed.

Lemma last_opt_nil : @last_opt A [] = None.
Proof.
  reflexivity.
Qed.

(* helpers *)
Lemma Lib_in_firstn_S : forall n (l : list A) x, In x (firstn (S n) l) ->
  In x (firstn n l) \/ nth_error l n = Some x.
Proof.
  induction n as [|n IH]; intros l x H; destruct l as [|y l].
  - destruct H.
  - simpl in H. destruct H as [H|[]]. right. subst. reflexivity.
  - destruct H.
  - rewrite firstn_cons in H. destruct H as [H|H].
    + left. left. exact H.
    + apply IH in H. destruct H as [H|H]; [left; right; exact H|right; exact H].
Qed.

Lemma Lib_in_skipn_in : forall n (l : list A) x, In x (skipn n l) -> In x l.
Proof.
  intros n l x H. rewrite <- (firstn_skipn n l). apply in_or_app. right. exact H.
Qed.

Lemma Lib_in_remove_at : forall i (l : list A) x, In x (remove_at i l) -> In x l.
Proof.
  induction i as [|i IH]; intros l x H; destruct l as [|y l]; simpl in H.
  - destruct H.
  - right. exact H.
  - destruct H.
  - destruct H as [H|H]; [left; exact H|right; apply IH; exact H].
Qed.

Lemma removelast_firstn_S : forall n (l : list A), n < length l ->
  removelast (firstn (S n) l) = firstn n l.
Proof.
  intros n l H. apply removelast_firstn. exact H.
Qed.

End Lists.

(* ------------------------------------------------------------------ *)
(* sorted key lists and binary search *)

Lemma Lib_sorted_z_cons_aux : forall a l,
  sorted_z (a :: l) <-> sorted_z l /\ (forall b, In b l -> (a < b)%Z).
Proof.
  intros a l. revert a. induction l as [|b l IH]; intros a.
  - simpl. split; [intros _; split; [exact I | intros b []] | intros _; split; exact I].
  - change (sorted_z (a :: b :: l)) with ((a < b)%Z /\ sorted_z (b :: l)).
    split.
    + intros [Hab Hs]. split; [exact Hs|].
      intros c [Hc|Hc]; [subst; exact Hab|].
      destruct (proj1 (IH b) Hs) as [_ Hs']. specialize (Hs' c Hc). lia.
    + intros [Hs Hall]. split; [apply Hall; left; reflexivity | exact Hs].
Qed.

Lemma sorted_z_app : forall l1 l2,
  sorted_z (l1 ++ l2) <->
  sorted_z l1 /\ sorted_z l2 /\ (forall a b, In a l1 -> In b l2 -> (a < b)%Z).
Proof.
  induction l1 as [|a l1 IH]; intros l2.
  - simpl. split.
    + intros H. split; [exact I|]. split; [exact H|]. intros a b [].
    + intros [_ [H _]]. exact H.
  - change ((a :: l1) ++ l2) with (a :: (l1 ++ l2)). split.
    + intros H. apply Lib_sorted_z_cons_aux in H. destruct H as [H Ha].
      apply IH in H. destruct H as [H1 [H2 H12]].
      split; [|split].
      * apply Lib_sorted_z_cons_aux. split; [exact H1|].
        intros b Hb. apply Ha. apply in_or_app. left. exact Hb.
      * exact H2.
      * intros x b [Hx|Hx] Hb.
        -- subst x. apply Ha. apply in_or_app. right. exact Hb.
        -- apply H12; assumption.
    + intros [H1 [H2 H12]]. apply Lib_sorted_z_cons_aux in H1. destruct H1 as [H1 Ha].
      apply Lib_sorted_z_cons_aux. split.
      * apply IH. split; [exact H1|]. split; [exact H2|].
        intros x b Hx Hb. apply H12; [right; exact Hx|exact Hb].
      * intros b Hb. apply in_app_or in Hb. destruct Hb as [Hb|Hb].
        -- apply Ha; exact Hb.
        -- apply H12; [left; reflexivity|exact Hb].
Qed.

Lemma sorted_z_cons : forall a l,
  sorted_z (a :: l) <-> sorted_z l /\ (forall b, In b l -> (a < b)%Z).
Proof.
  exact Lib_sorted_z_cons_aux.
Qed.

Lemma sorted_keys_app : forall l1 l2,
  sorted_keys (l1 ++ l2) <->
  sorted_keys l1 /\ sorted_keys l2 /\ (forall a b, In a l1 -> In b l2 -> (kz a < kz b)%Z).
Proof.
  intros l1 l2. unfold sorted_keys. rewrite map_app. split.
  - intros H. apply sorted_z_app in H. destruct H as [H1 [H2 H12]].
    split; [exact H1|split; [exact H2|]].
    intros a b Ha Hb. apply H12; apply in_map; assumption.
  - intros [H1 [H2 H12]]. apply sorted_z_app. split; [exact H1|split; [exact H2|]].
    intros a b Ha Hb. apply in_map_iff in Ha. apply in_map_iff in Hb.
    destruct Ha as [ka [Ea Ha]]. destruct Hb as [kb [Eb Hb]]. subst a b. apply H12; assumption.
Qed.

Lemma sorted_keys_cons : forall a l,
  sorted_keys (a :: l) <-> sorted_keys l /\ (forall b, In b l -> (kz a < kz b)%Z).
Proof.
  intros a l. unfold sorted_keys. change (map kz (a :: l)) with (kz a :: map kz l). split.
  - intros H. apply sorted_z_cons in H. destruct H as [H1 H2].
    split; [exact H1|]. intros b Hb. apply H2. apply in_map. exact Hb.
  - intros [H1 H2]. apply sorted_z_cons. split; [exact H1|]. intros b Hb.
    apply in_map_iff in Hb. destruct Hb as [kb [Eb Hb]]. subst b. apply H2. exact Hb.
Qed.

Lemma lb_le_length : forall ks z, lb ks z <= length ks.
Proof.
  induction ks as [|k ks IH]; intros z; cbn [lb length].
  - lia.
  - destruct (Z.ltb_spec (kz k) z); [specialize (IH z)|]; lia.
Qed.

(* keys before the lower bound are smaller; with sortedness, keys from it on are >= z *)
Lemma lb_firstn_lt : forall ks z k, In k (firstn (lb ks z) ks) -> (kz k < z)%Z.
Proof.
  induction ks as [|k0 ks IH]; intros z k H; cbn [lb] in H.
  - cbn [firstn] in H. destruct H.
  - destruct (Z.ltb_spec (kz k0) z) as [Hlt|Hge].
    + rewrite firstn_cons in H. destruct H as [H|H]; [subst; exact Hlt|apply IH; exact H].
    + cbn [firstn] in H. destruct H.
Qed.

Lemma lb_skipn_ge : forall ks z k, sorted_keys ks -> In k (skipn (lb ks z) ks) -> (z <= kz k)%Z.
Proof.
  induction ks as [|k0 ks IH]; intros z k Hs H; cbn [lb] in H.
  - cbn [skipn] in H. destruct H.
  - apply sorted_keys_cons in Hs. destruct Hs as [Hs Hall].
    destruct (Z.ltb_spec (kz k0) z) as [Hlt|Hge]; cbn [skipn] in H.
    + apply IH; assumption.
    + destruct H as [H|H]; [subst; exact Hge|]. specialize (Hall k H). lia.
Qed.

Lemma bfound_true : forall ks z, bfound ks z = true ->
  exists k, nth_error ks (lb ks z) = Some k /\ kz k = z.
Proof.
  intros ks z H. unfold bfound in H.
  destruct (nth_error ks (lb ks z)) as [k|] eqn:E; [|discriminate].
  exists k. split; [reflexivity|]. apply Z.eqb_eq. exact H.
Qed.

Lemma bfound_false : forall ks z, sorted_keys ks -> bfound ks z = false ->
  forall k, In k ks -> kz k <> z.
Proof.
  induction ks as [|k0 ks IH]; intros z Hs H k Hin.
  - destruct Hin.
  - apply sorted_keys_cons in Hs. destruct Hs as [Hs Hall].
    unfold bfound in H. cbn [lb] in H.
    destruct (Z.ltb_spec (kz k0) z) as [Hlt|Hge]; cbn [nth_error] in H.
    + destruct Hin as [Hin|Hin]; [subst; lia|]. apply IH; [exact Hs|exact H|exact Hin].
    + apply Z.eqb_neq in H. destruct Hin as [Hin|Hin]; [subst; exact H|].
      specialize (Hall k Hin). lia.
Qed.

Lemma bfound_true_iff : forall ks z, sorted_keys ks ->
  (bfound ks z = true <-> exists k, In k ks /\ kz k = z).
Proof.
  intros ks z Hs. split.
  - intros H. apply bfound_true in H. destruct H as [k [Hn Hk]]. exists k.
    split; [eapply nth_error_In; exact Hn|exact Hk].
  - intros [k [Hin Hk]]. destruct (bfound ks z) eqn:E; [reflexivity|]. exfalso.
    assert (Hne : kz k <> z) by (eapply bfound_false; eassumption).
    apply Hne. exact Hk.
Qed.

(* find_child_index: number of separators <= z *)
Lemma child_index_le_length : forall ks z, child_index ks z <= length ks.
Proof.
  intros ks z. unfold child_index. destruct (bfound ks z) eqn:E.
  - apply bfound_true in E. destruct E as [k [Hn _]].
    assert (Hlt : lb ks z < length ks) by (apply nth_error_Some; rewrite Hn; discriminate).
    lia.
  - apply lb_le_length.
Qed.

Lemma child_index_firstn_le : forall ks z k, sorted_keys ks ->
  In k (firstn (child_index ks z) ks) -> (kz k <= z)%Z.
Proof.
  intros ks z k Hs H. unfold child_index in H. destruct (bfound ks z) eqn:E.
  - apply Lib_in_firstn_S in H. destruct H as [H|H].
    + apply lb_firstn_lt in H. lia.
    + apply bfound_true in E. destruct E as [k' [Hn Hk]]. rewrite Hn in H.
      injection H as H. subst k'. lia.
  - apply lb_firstn_lt in H. lia.
Qed.

Lemma child_index_skipn_gt : forall ks z k, sorted_keys ks ->
  In k (skipn (child_index ks z) ks) -> (z < kz k)%Z.
Proof.
  intros ks z k Hs H. unfold child_index in H. destruct (bfound ks z) eqn:E.
  - apply bfound_true in E. destruct E as [k' [Hn Hk]].
    pose proof Hn as Hsp. apply nth_error_split in Hsp. rewrite Hsp in Hs.
    apply sorted_keys_app in Hs. destruct Hs as [_ [Hs _]].
    apply sorted_keys_cons in Hs. destruct Hs as [_ Hall]. specialize (Hall k H). lia.
  - assert (Hin : In k ks) by (eapply Lib_in_skipn_in; exact H).
    assert (Hge : (z <= kz k)%Z) by (eapply lb_skipn_ge; eassumption).
    assert (Hne : kz k <> z) by (eapply bfound_false; eassumption).
    lia.
Qed.

Lemma sorted_keys_insert_at_lb : forall ks k, sorted_keys ks -> bfound ks (kz k) = false ->
  sorted_keys (insert_at (lb ks (kz k)) k ks).
Proof.
  intros ks k Hs Hb.
  rewrite insert_at_app by apply lb_le_length.
  pose proof Hs as Hs'. rewrite <- (firstn_skipn (lb ks (kz k)) ks) in Hs'.
  apply sorted_keys_app in Hs'. destruct Hs' as [H1 [H2 H12]].
  apply sorted_keys_app. split; [exact H1|]. split.
  - apply sorted_keys_cons. split; [exact H2|]. intros b Hin.
    assert (Hge : (kz k <= kz b)%Z) by exact (@lb_skipn_ge ks (kz k) b Hs Hin).
    assert (Hin' : In b ks) by (eapply Lib_in_skipn_in; exact Hin).
    assert (Hne : kz b <> kz k) by exact (@bfound_false ks (kz k) Hs Hb b Hin').
    lia.
  - intros a b Ha [Hb'|Hb'].
    + subst b. eapply lb_firstn_lt. exact Ha.
    + apply H12; assumption.
Qed.

Lemma sorted_keys_remove_at : forall ks i, sorted_keys ks -> sorted_keys (remove_at i ks).
Proof.
  induction ks as [|k ks IH]; intros i Hs.
  - destruct i; exact Hs.
  - apply sorted_keys_cons in Hs. destruct Hs as [Hs Hall].
    destruct i as [|i]; cbn [remove_at].
    + exact Hs.
    + apply sorted_keys_cons. split; [apply IH; exact Hs|].
      intros b Hb. apply Hall. eapply Lib_in_remove_at. exact Hb.
Qed.

Lemma sorted_keys_firstn : forall ks n, sorted_keys ks -> sorted_keys (firstn n ks).
Proof.
  intros ks n Hs. rewrite <- (firstn_skipn n ks) in Hs. apply sorted_keys_app in Hs.
  destruct Hs as [H1 _]. exact H1.
Qed.

Lemma sorted_keys_skipn : forall ks n, sorted_keys ks -> sorted_keys (skipn n ks).
Proof.
  intros ks n Hs. rewrite <- (firstn_skipn n ks) in Hs. apply sorted_keys_app in Hs.
  destruct Hs as [_ [H2 _]]. exact H2.
Qed.

(* ------------------------------------------------------------------ *)
(* sorted association lists *)
Section AMapLemmas.
Variable V : Type.
Notation amap := (amap V).

(* helpers *)
Lemma Lib_m_get_notin_aux : forall (m : amap) z,
  (forall e, In e m -> kz (fst e) <> z) -> m_get m z = None.
Proof.
  induction m as [|[k' v'] m IH]; intros z H; [reflexivity|].
  cbn [m_get]. destruct (Z.eqb_spec (kz k') z) as [He|Hne].
  - exfalso. apply (H (k', v')); [left; reflexivity|exact He].
  - apply IH. intros e Hin. apply H. right. exact Hin.
Qed.

Lemma Lib_m_remove_notin_aux : forall (m : amap) z,
  (forall e, In e m -> kz (fst e) <> z) -> m_remove m z = m.
Proof.
  induction m as [|[k' v'] m IH]; intros z H; [reflexivity|].
  cbn [m_remove]. destruct (Z.eqb_spec (kz k') z) as [He|Hne].
  - exfalso. apply (H (k', v')); [left; reflexivity|exact He].
  - f_equal. apply IH. intros e Hin. apply H. right. exact Hin.
Qed.

Lemma Lib_m_update_notin_aux : forall (m : amap) z v,
  (forall e, In e m -> kz (fst e) <> z) -> m_update m z v = m.
Proof.
  induction m as [|[k' v'] m IH]; intros z v H; [reflexivity|].
  cbn [m_update]. destruct (Z.eqb_spec (kz k') z) as [He|Hne].
  - exfalso. apply (H (k', v')); [left; reflexivity|exact He].
  - f_equal. apply IH. intros e Hin. apply H. right. exact Hin.
Qed.

Lemma Lib_m_sorted_cons_inv : forall (k : key) (v : V) (m : amap), m_sorted ((k, v) :: m) ->
  m_sorted m /\ (forall e, In e m -> (kz k < kz (fst e))%Z).
Proof.
  intros k v m Hs. unfold m_sorted in *. cbn [map fst] in Hs.
  apply sorted_keys_cons in Hs. destruct Hs as [Hs Hall].
  split; [exact Hs|]. intros e Hin. apply Hall. apply in_map. exact Hin.
Qed.

Lemma Lib_in_keys_m_insert : forall (m : amap) k v b,
  In b (map fst (m_insert m k v)) -> b = k \/ In b (map fst m).
Proof.
  induction m as [|[k' v'] m IH]; intros k v b H.
  - cbn in H. destruct H as [H|[]]. left. symmetry. exact H.
  - cbn [m_insert] in H. cbn [map fst In]. destruct (Z.ltb (kz k) (kz k')).
    + cbn [map fst In] in H. destruct H as [H|H]; [left; symmetry; exact H|right; exact H].
    + destruct (Z.eqb (kz k) (kz k')).
      * right. exact H.
      * cbn [map fst In] in H. destruct H as [H|H]; [right; left; exact H|].
        apply IH in H. destruct H as [H|H]; [left; exact H|right; right; exact H].
Qed.

Lemma Lib_in_keys_m_remove : forall (m : amap) z b,
  In b (map fst (m_remove m z)) -> In b (map fst m).
Proof.
  induction m as [|[k' v'] m IH]; intros z b H.
  - exact H.
  - cbn [m_remove] in H. cbn [map fst In]. destruct (Z.eqb (kz k') z).
    + right. exact H.
    + cbn [map fst In] in H. destruct H as [H|H]; [left; exact H|right; eapply IH; exact H].
Qed.

Lemma m_get_app_l : forall (l1 l2 : amap) z,
  (forall e, In e l2 -> (z < kz (fst e))%Z) -> m_get (l1 ++ l2) z = m_get l1 z.
Proof.
  induction l1 as [|[k' v'] l1 IH]; intros l2 z H.
  - cbn [app m_get]. apply Lib_m_get_notin_aux. intros e Hin Heq. specialize (H e Hin). lia.
  - cbn [app m_get]. destruct (Z.eqb (kz k') z); [reflexivity|]. apply IH. exact H.
Qed.

Lemma m_get_app_r : forall (l1 l2 : amap) z,
  (forall e, In e l1 -> (kz (fst e) < z)%Z) -> m_get (l1 ++ l2) z = m_get l2 z.
Proof.
  induction l1 as [|[k' v'] l1 IH]; intros l2 z H.
  - reflexivity.
  - cbn [app m_get]. pose proof (H (k', v') (or_introl eq_refl)) as H0. cbn [fst] in H0.
    destruct (Z.eqb_spec (kz k') z) as [He|Hne]; [lia|].
    apply IH. intros e Hin. apply H. right. exact Hin.
Qed.

Lemma m_insert_app_l : forall (l1 l2 : amap) k v,
  (forall e, In e l2 -> (kz k < kz (fst e))%Z) ->
  m_insert (l1 ++ l2) k v = m_insert l1 k v ++ l2.
Proof.
  induction l1 as [|[k' v'] l1 IH]; intros l2 k v H.
  - cbn [app m_insert]. destruct l2 as [|[k2 v2] l2]; [reflexivity|].
    cbn [m_insert]. specialize (H (k2, v2) (or_introl eq_refl)). cbn [fst] in H.
    destruct (Z.ltb_spec (kz k) (kz k2)); [reflexivity|lia].
  - cbn [app m_insert]. destruct (Z.ltb (kz k) (kz k')); [reflexivity|].
    destruct (Z.eqb (kz k) (kz k')); [reflexivity|]. rewrite IH by exact H. reflexivity.
Qed.

Lemma m_insert_app_r : forall (l1 l2 : amap) k v,
  (forall e, In e l1 -> (kz (fst e) < kz k)%Z) ->
  m_insert (l1 ++ l2) k v = l1 ++ m_insert l2 k v.
Proof.
  induction l1 as [|[k' v'] l1 IH]; intros l2 k v H.
  - reflexivity.
  - cbn [app m_insert]. pose proof (H (k', v') (or_introl eq_refl)) as H0. cbn [fst] in H0.
    destruct (Z.ltb_spec (kz k) (kz k')); [lia|].
    destruct (Z.eqb_spec (kz k) (kz k')); [lia|].
    rewrite IH; [reflexivity|]. intros e Hin. apply H. right. exact Hin.
Qed.

Lemma m_remove_app_l : forall (l1 l2 : amap) z,
  (forall e, In e l2 -> (z < kz (fst e))%Z) ->
  m_remove (l1 ++ l2) z = m_remove l1 z ++ l2.
Proof.
  induction l1 as [|[k' v'] l1 IH]; intros l2 z H.
  - cbn [app m_remove]. apply Lib_m_remove_notin_aux. intros e Hin Heq. specialize (H e Hin). lia.
  - cbn [app m_remove]. destruct (Z.eqb (kz k') z); [reflexivity|].
    rewrite IH by exact H. reflexivity.
Qed.

Lemma m_remove_app_r : forall (l1 l2 : amap) z,
  (forall e, In e l1 -> (kz (fst e) < z)%Z) ->
  m_remove (l1 ++ l2) z = l1 ++ m_remove l2 z.
Proof.
  induction l1 as [|[k' v'] l1 IH]; intros l2 z H.
  - reflexivity.
  - cbn [app m_remove]. pose proof (H (k', v') (or_introl eq_refl)) as H0. cbn [fst] in H0.
    destruct (Z.eqb_spec (kz k') z); [lia|].
    rewrite IH; [reflexivity|]. intros e Hin. apply H. right. exact Hin.
Qed.

Lemma m_update_app_l : forall (l1 l2 : amap) z v,
  (forall e, In e l2 -> (z < kz (fst e))%Z) ->
  m_update (l1 ++ l2) z v = m_update l1 z v ++ l2.
Proof.
  induction l1 as [|[k' v'] l1 IH]; intros l2 z v H.
  - cbn [app m_update]. apply Lib_m_update_notin_aux. intros e Hin Heq. specialize (H e Hin). lia.
  - cbn [app m_update]. destruct (Z.eqb (kz k') z); [reflexivity|].
    rewrite IH by exact H. reflexivity.
Qed.

Lemma m_update_app_r : forall (l1 l2 : amap) z v,
  (forall e, In e l1 -> (kz (fst e) < z)%Z) ->
  m_update (l1 ++ l2) z v = l1 ++ m_update l2 z v.
Proof.
  induction l1 as [|[k' v'] l1 IH]; intros l2 z v H.
  - reflexivity.
  - cbn [app m_update]. pose proof (H (k', v') (or_introl eq_refl)) as H0. cbn [fst] in H0.
    destruct (Z.eqb_spec (kz k') z); [lia|].
    rewrite IH; [reflexivity|]. intros e Hin. apply H. right. exact Hin.
Qed.

Lemma m_get_none_notin : forall (m : amap) z, (forall e, In e m -> kz (fst e) <> z) -> m_get m z = None.
Proof.
exact Lib_m_get_notin_aux.
Qed.

Lemma m_remove_notin : forall (m : amap) z, (forall e, In e m -> kz (fst e) <> z) -> m_remove m z = m.
Proof.
exact Lib_m_remove_notin_aux.
Qed.

Lemma m_update_notin : forall (m : amap) z v, (forall e, In e m -> kz (fst e) <> z) -> m_update m z v = m.
Proof.
exact Lib_m_update_notin_aux.
Qed.

Lemma m_sorted_insert : forall (m : amap) k v, m_sorted m -> m_sorted (m_insert m k v).
Proof.
  induction m as [|[k' v'] m IH]; intros k v Hs.
  - unfold m_sorted, sorted_keys. cbn. auto.
  - unfold m_sorted in *. cbn [map fst] in Hs. cbn [m_insert].
    destruct (Z.ltb_spec (kz k) (kz k')) as [Hlt|Hge].
    + cbn [map fst]. apply sorted_keys_cons. split; [exact Hs|].
      intros b [Hb|Hb]; [subst; exact Hlt|].
      apply sorted_keys_cons in Hs. destruct Hs as [_ Hall]. specialize (Hall b Hb). lia.
    + destruct (Z.eqb_spec (kz k) (kz k')) as [He|Hne].
      * exact Hs.
      * cbn [map fst]. apply sorted_keys_cons in Hs. destruct Hs as [Hs Hall].
        apply sorted_keys_cons. split; [apply IH; exact Hs|].
        intros b Hb. apply Lib_in_keys_m_insert in Hb.
        destruct Hb as [Hb|Hb]; [subst; lia|apply Hall; exact Hb].
Qed.

Lemma m_sorted_remove : forall (m : amap) z, m_sorted m -> m_sorted (m_remove m z).
Proof.
  induction m as [|[k' v'] m IH]; intros z Hs.
  - exact Hs.
  - unfold m_sorted in *. cbn [map fst] in Hs. cbn [m_remove].
    apply sorted_keys_cons in Hs. destruct Hs as [Hs Hall].
    destruct (Z.eqb (kz k') z); [exact Hs|].
    cbn [map fst]. apply sorted_keys_cons. split; [apply IH; exact Hs|].
    intros b Hb. apply Hall. eapply Lib_in_keys_m_remove. exact Hb.
Qed.

Lemma Lib_map_fst_m_update_aux : forall (m : amap) z v, map fst (m_update m z v) = map fst m.
Proof.
  induction m as [|[k' v'] m IH]; intros z v; [reflexivity|].
  cbn [m_update]. destruct (Z.eqb (kz k') z); cbn [map fst]; [reflexivity|].
  rewrite IH. reflexivity.
Qed.

Lemma m_sorted_update : forall (m : amap) z v, m_sorted m -> m_sorted (m_update m z v).
Proof.
  intros m z v Hs. unfold m_sorted in *. rewrite Lib_map_fst_m_update_aux. exact Hs.
Qed.

Lemma map_fst_m_update : forall (m : amap) z v, map fst (m_update m z v) = map fst m.
Proof.
exact Lib_map_fst_m_update_aux.
Qed.

Lemma length_m_insert : forall (m : amap) k v, m_sorted m ->
  length (m_insert m k v) = match m_get m (kz k) with Some _ => length m | None => S (length m) end.
Proof.
  induction m as [|[k' v'] m IH]; intros k v Hs.
  - reflexivity.
  - apply Lib_m_sorted_cons_inv in Hs. destruct Hs as [Hs Hall].
    cbn [m_insert m_get].
    destruct (Z.ltb_spec (kz k) (kz k')) as [Hlt|Hge].
    + destruct (Z.eqb_spec (kz k') (kz k)) as [He|Hne]; [lia|].
      rewrite Lib_m_get_notin_aux; [reflexivity|].
      intros e Hin Heq. specialize (Hall e Hin). lia.
    + destruct (Z.eqb_spec (kz k) (kz k')) as [He|Hne].
      * destruct (Z.eqb_spec (kz k') (kz k)) as [He'|Hne']; [reflexivity|lia].
      * destruct (Z.eqb_spec (kz k') (kz k)) as [He'|Hne']; [lia|].
        cbn [length]. rewrite IH by exact Hs. destruct (m_get m (kz k)); reflexivity.
Qed.

Lemma length_m_remove : forall (m : amap) z, m_sorted m ->
  length (m_remove m z) = match m_get m z with Some _ => pred (length m) | None => length m end.
Proof.
  induction m as [|[k' v'] m IH]; intros z Hs.
  - reflexivity.
  - apply Lib_m_sorted_cons_inv in Hs. destruct Hs as [Hs _].
    cbn [m_remove m_get]. destruct (Z.eqb (kz k') z); [reflexivity|].
    cbn [length]. rewrite IH by exact Hs. destruct (m_get m z) eqn:E; [|reflexivity].
    destruct m; [cbn [m_get] in E; discriminate|reflexivity].
Qed.

(* the specification behaves like a finite map (what "agrees with BTreeMap" means) *)
Lemma m_get_insert_same : forall (m : amap) k v, m_sorted m -> m_get (m_insert m k v) (kz k) = Some v.
Proof.
  induction m as [|[k' v'] m IH]; intros k v Hs.
  - cbn [m_insert m_get]. rewrite Z.eqb_refl. reflexivity.
  - apply Lib_m_sorted_cons_inv in Hs. destruct Hs as [Hs _].
    cbn [m_insert]. destruct (Z.ltb (kz k) (kz k')).
    + cbn [m_get]. rewrite Z.eqb_refl. reflexivity.
    + destruct (Z.eqb_spec (kz k) (kz k')) as [He|Hne].
      * cbn [m_get]. rewrite <- He. rewrite Z.eqb_refl. reflexivity.
      * cbn [m_get]. destruct (Z.eqb_spec (kz k') (kz k)); [lia|]. apply IH. exact Hs.
Qed.

Lemma m_get_insert_other : forall (m : amap) k v z, m_sorted m -> z <> kz k ->
  m_get (m_insert m k v) z = m_get m z.
Proof.
  induction m as [|[k' v'] m IH]; intros k v z Hs Hz.
  - cbn [m_insert m_get]. destruct (Z.eqb_spec (kz k) z); [lia|reflexivity].
  - apply Lib_m_sorted_cons_inv in Hs. destruct Hs as [Hs _].
    cbn [m_insert]. destruct (Z.ltb (kz k) (kz k')).
    + cbn [m_get]. destruct (Z.eqb_spec (kz k) z); [lia|reflexivity].
    + destruct (Z.eqb_spec (kz k) (kz k')) as [He|Hne].
      * cbn [m_get]. destruct (Z.eqb_spec (kz k') z); [lia|reflexivity].
      * cbn [m_get]. destruct (Z.eqb (kz k') z); [reflexivity|]. apply IH; [exact Hs|exact Hz].
Qed.

Lemma m_get_remove_same : forall (m : amap) z, m_sorted m -> m_get (m_remove m z) z = None.
Proof.
  induction m as [|[k' v'] m IH]; intros z Hs.
  - reflexivity.
  - apply Lib_m_sorted_cons_inv in Hs. destruct Hs as [Hs Hall]. cbn [m_remove].
    destruct (Z.eqb_spec (kz k') z) as [He|Hne].
    + apply Lib_m_get_notin_aux. intros e Hin Heq. specialize (Hall e Hin). lia.
    + cbn [m_get]. destruct (Z.eqb_spec (kz k') z); [lia|]. apply IH. exact Hs.
Qed.

Lemma m_get_remove_other : forall (m : amap) z z', m_sorted m -> z' <> z ->
  m_get (m_remove m z) z' = m_get m z'.
Proof.
  induction m as [|[k' v'] m IH]; intros z z' Hs Hz.
  - reflexivity.
  - apply Lib_m_sorted_cons_inv in Hs. destruct Hs as [Hs _]. cbn [m_remove m_get].
    destruct (Z.eqb_spec (kz k') z) as [He|Hne].
    + destruct (Z.eqb_spec (kz k') z'); [lia|reflexivity].
    + cbn [m_get]. destruct (Z.eqb (kz k') z'); [reflexivity|]. apply IH; [exact Hs|exact Hz].
Qed.

Lemma m_get_update_same : forall (m : amap) z v, m_sorted m ->
  m_get (m_update m z v) z = match m_get m z with Some _ => Some v | None => None end.
Proof.
  induction m as [|[k' v'] m IH]; intros z v Hs.
  - reflexivity.
  - apply Lib_m_sorted_cons_inv in Hs. destruct Hs as [Hs _]. cbn [m_update m_get].
    destruct (Z.eqb_spec (kz k') z) as [He|Hne].
    + cbn [m_get]. destruct (Z.eqb_spec (kz k') z); [reflexivity|lia].
    + cbn [m_get]. destruct (Z.eqb_spec (kz k') z); [lia|]. apply IH. exact Hs.
Qed.

Lemma m_get_update_other : forall (m : amap) z v z', z' <> z ->
  m_get (m_update m z v) z' = m_get m z'.
Proof.
  induction m as [|[k' v'] m IH]; intros z v z' Hz.
  - reflexivity.
  - cbn [m_update]. destruct (Z.eqb_spec (kz k') z) as [He|Hne]; cbn [m_get].
    + destruct (Z.eqb_spec (kz k') z'); [lia|reflexivity].
    + destruct (Z.eqb (kz k') z'); [reflexivity|]. apply IH. exact Hz.
Qed.

(* insert keeps the key object that was stored first *)
Lemma m_insert_keeps_key : forall (m : amap) k v k0 v0, m_sorted m ->
  In (k0, v0) m -> kz k0 = kz k -> In (k0, v) (m_insert m k v).
Proof.
  induction m as [|[k' v'] m IH]; intros k v k0 v0 Hs Hin Hk.
  - destruct Hin.
  - apply Lib_m_sorted_cons_inv in Hs. destruct Hs as [Hs Hall]. cbn [m_insert].
    assert (Htail : In (k0, v0) m -> (kz k' < kz k)%Z).
    { intros H. specialize (Hall _ H). cbn [fst] in Hall. lia. }
    destruct (Z.ltb_spec (kz k) (kz k')) as [Hlt|Hge].
    + exfalso. destruct Hin as [Hin|Hin].
      * injection Hin as Hk' Hv'. subst k'. lia.
      * specialize (Htail Hin). lia.
    + destruct (Z.eqb_spec (kz k) (kz k')) as [He|Hne].
      * destruct Hin as [Hin|Hin].
        -- injection Hin as Hk' Hv'. subst k'. left. reflexivity.
        -- specialize (Htail Hin). lia.
      * destruct Hin as [Hin|Hin].
        -- injection Hin as Hk' Hv'. subst k'. lia.
        -- right. eapply IH; eassumption.
Qed.

(* ---------- a leaf is a sorted association list ---------- *)
Lemma leaf_get : forall ks (vs : list V) z, sorted_keys ks -> length vs = length ks ->
  m_get (combine ks vs) z = if bfound ks z then nth_error vs (lb ks z) else None.
Proof.
  induction ks as [|k0 ks IH]; intros vs z Hs Hlen.
  - reflexivity.
  - destruct vs as [|v0 vs]; [cbn [length] in Hlen; discriminate|].
    cbn [length] in Hlen. injection Hlen as Hlen.
    apply sorted_keys_cons in Hs. destruct Hs as [Hs Hall].
    unfold bfound. cbn [combine m_get lb].
    destruct (Z.ltb_spec (kz k0) z) as [Hlt|Hge]; cbn [nth_error].
    + destruct (Z.eqb_spec (kz k0) z); [lia|]. apply IH; assumption.
    + destruct (Z.eqb_spec (kz k0) z) as [He|Hne]; [reflexivity|].
      apply Lib_m_get_notin_aux. intros [k1 v1] Hin. cbn [fst].
      apply in_combine_l in Hin. specialize (Hall k1 Hin). lia.
Qed.

Lemma leaf_insert_new : forall ks (vs : list V) k v, sorted_keys ks -> length vs = length ks ->
  bfound ks (kz k) = false ->
  combine (insert_at (lb ks (kz k)) k ks) (insert_at (lb ks (kz k)) v vs)
  = m_insert (combine ks vs) k v.
Proof.
  induction ks as [|k0 ks IH]; intros vs k v Hs Hlen Hb.
  - destruct vs; [reflexivity|cbn [length] in Hlen; discriminate].
  - destruct vs as [|v0 vs]; [cbn [length] in Hlen; discriminate|].
    cbn [length] in Hlen. injection Hlen as Hlen.
    apply sorted_keys_cons in Hs. destruct Hs as [Hs Hall].
    unfold bfound in Hb. cbn [lb] in Hb |- *.
    destruct (Z.ltb_spec (kz k0) (kz k)) as [Hlt|Hge]; cbn [nth_error] in Hb;
      cbn [insert_at combine m_insert].
    + destruct (Z.ltb_spec (kz k) (kz k0)); [lia|].
      destruct (Z.eqb_spec (kz k) (kz k0)); [lia|].
      f_equal. apply IH; [exact Hs|exact Hlen|exact Hb].
    + apply Z.eqb_neq in Hb. destruct (Z.ltb_spec (kz k) (kz k0)); [reflexivity|lia].
Qed.

Lemma leaf_insert_existing : forall ks (vs : list V) k v, sorted_keys ks -> length vs = length ks ->
  bfound ks (kz k) = true ->
  combine ks (set_nth (lb ks (kz k)) v vs) = m_insert (combine ks vs) k v.
Proof.
  induction ks as [|k0 ks IH]; intros vs k v Hs Hlen Hb.
  - unfold bfound in Hb. cbn [lb nth_error] in Hb. discriminate.
  - destruct vs as [|v0 vs]; [cbn [length] in Hlen; discriminate|].
    cbn [length] in Hlen. injection Hlen as Hlen.
    apply sorted_keys_cons in Hs. destruct Hs as [Hs Hall].
    unfold bfound in Hb. cbn [lb] in Hb |- *.
    destruct (Z.ltb_spec (kz k0) (kz k)) as [Hlt|Hge]; cbn [nth_error] in Hb;
      cbn [set_nth combine m_insert].
    + destruct (Z.ltb_spec (kz k) (kz k0)); [lia|].
      destruct (Z.eqb_spec (kz k) (kz k0)); [lia|].
      f_equal. apply IH; [exact Hs|exact Hlen|exact Hb].
    + apply Z.eqb_eq in Hb. destruct (Z.ltb_spec (kz k) (kz k0)); [lia|].
      destruct (Z.eqb_spec (kz k) (kz k0)); [reflexivity|lia].
Qed.

Lemma leaf_update : forall ks (vs : list V) z v, sorted_keys ks -> length vs = length ks ->
  bfound ks z = true ->
  combine ks (set_nth (lb ks z) v vs) = m_update (combine ks vs) z v.
Proof.
  induction ks as [|k0 ks IH]; intros vs z v Hs Hlen Hb.
  - unfold bfound in Hb. cbn [lb nth_error] in Hb. discriminate.
  - destruct vs as [|v0 vs]; [cbn [length] in Hlen; discriminate|].
    cbn [length] in Hlen. injection Hlen as Hlen.
    apply sorted_keys_cons in Hs. destruct Hs as [Hs Hall].
    unfold bfound in Hb. cbn [lb] in Hb |- *.
    destruct (Z.ltb_spec (kz k0) z) as [Hlt|Hge]; cbn [nth_error] in Hb;
      cbn [set_nth combine m_update].
    + destruct (Z.eqb_spec (kz k0) z); [lia|].
      f_equal. apply IH; [exact Hs|exact Hlen|exact Hb].
    + apply Z.eqb_eq in Hb. destruct (Z.eqb_spec (kz k0) z); [reflexivity|lia].
Qed.

Lemma leaf_remove : forall ks (vs : list V) z, sorted_keys ks -> length vs = length ks ->
  bfound ks z = true ->
  combine (remove_at (lb ks z) ks) (remove_at (lb ks z) vs) = m_remove (combine ks vs) z.
Proof.
  induction ks as [|k0 ks IH]; intros vs z Hs Hlen Hb.
  - unfold bfound in Hb. cbn [lb nth_error] in Hb. discriminate.
  - destruct vs as [|v0 vs]; [cbn [length] in Hlen; discriminate|].
    cbn [length] in Hlen. injection Hlen as Hlen.
    apply sorted_keys_cons in Hs. destruct Hs as [Hs Hall].
    unfold bfound in Hb. cbn [lb] in Hb |- *.
    destruct (Z.ltb_spec (kz k0) z) as [Hlt|Hge]; cbn [nth_error] in Hb;
      cbn [remove_at combine m_remove].
    + destruct (Z.eqb_spec (kz k0) z); [lia|].
      f_equal. apply IH; [exact Hs|exact Hlen|exact Hb].
    + apply Z.eqb_eq in Hb. destruct (Z.eqb_spec (kz k0) z); [reflexivity|lia].
Qed.

Lemma combine_app : forall (A B : Type) (l1 l2 : list A) (r1 r2 : list B),
  length l1 = length r1 -> combine (l1 ++ l2) (r1 ++ r2) = combine l1 r1 ++ combine l2 r2.
Proof.
  intros A B. induction l1 as [|a l1 IH]; intros l2 r1 r2 H; destruct r1 as [|b r1];
    simpl in H; try discriminate.
  - reflexivity.
  - simpl. rewrite IH; [reflexivity|]. injection H as H. exact H.
Qed.

Lemma combine_firstn_skipn : forall (A B : Type) (l : list A) (r : list B) n,
  combine l r = combine (firstn n l) (firstn n r) ++ combine (skipn n l) (skipn n r).
Proof.
  intros A B l r n. revert l r. induction n as [|n IH]; intros l r.
  - reflexivity.
  - destruct l as [|a l]; [reflexivity|]. destruct r as [|b r].
    + simpl. destruct (skipn n l); reflexivity.
    + simpl. f_equal. apply IH.
Qed.

Lemma map_fst_combine : forall (A B : Type) (l : list A) (r : list B),
  length r = length l -> map fst (combine l r) = l.
Proof.
  intros A B. induction l as [|a l IH]; intros r H; destruct r as [|b r];
    simpl in H; try discriminate.
  - reflexivity.
  - simpl. f_equal. apply IH. injection H as H. exact H.
Qed.

End AMapLemmas.

Print Assumptions leaf_remove.
Print Assumptions m_insert_app_l.
