(* Counting facts about well-shaped trees (pure model-B facts, no heap):
   every non-root node holds at least cap/2 keys, hence
   - a tree with n leaves holds at least (n * (cap/2)) entries (n >= 2),
   - there are fewer branches than leaves,
   - a tree of height h >= 1 holds at least 2 * (cap/2) * (cap/2+1)^(h-1) entries
     (logarithmic height). *)
From Coq Require Import List Arith ZArith NArith Lia Bool.
From BPT Require Import Common.Base Common.AMap Rust.Arena Rust.Tree Rust.Heap Rust.Readers
  Rust.InvDefs Rust.Repr Rust.Lib Rust.TreeFactsI Rust.Bridge Rust.ReadersGet.
Import ListNotations.
Set Implicit Arguments.

(* ------------------------------------------------------------------ *)
(* generic list facts *)

Lemma CN_flat_map_lower : forall (A B : Type) (f : A -> list B) (m : nat) (l : list A),
  (forall x, In x l -> m <= length (f x)) -> length l * m <= length (flat_map f l).
Proof.
  induction l as [|x l IH]; intros H; [cbn; lia|].
  cbn [flat_map length]. rewrite app_length.
  pose proof (H x (or_introl eq_refl)) as Hx.
  assert (IH' : length l * m <= length (flat_map f l)).
  { apply IH. intros y Hy. apply H. right; exact Hy. }
  cbn [Nat.mul]. lia.
Qed.

(* weighted version: every element contributes at least [w x * m] *)
Lemma CN_flat_map_weighted : forall (A B C : Type) (f : A -> list B) (g : A -> list C) (m : nat)
  (l : list A),
  (forall x, In x l -> length (g x) * m <= length (f x)) ->
  length (flat_map g l) * m <= length (flat_map f l).
Proof.
  induction l as [|x l IH]; intros H; [cbn; lia|].
  cbn [flat_map]. rewrite !app_length.
  pose proof (H x (or_introl eq_refl)) as Hx.
  assert (IH' : length (flat_map g l) * m <= length (flat_map f l)).
  { apply IH. intros y Hy. apply H. right; exact Hy. }
  rewrite Nat.mul_add_distr_r. lia.
Qed.

Lemma CN_flat_map_lt : forall (A B C : Type) (f : A -> list B) (g : A -> list C) (l : list A),
  (forall x, In x l -> length (g x) < length (f x)) ->
  length (flat_map g l) + length l <= length (flat_map f l).
Proof.
  induction l as [|x l IH]; intros H; [cbn; lia|].
  cbn [flat_map length]. rewrite !app_length.
  pose proof (H x (or_introl eq_refl)) as Hx.
  assert (IH' : length (flat_map g l) + length l <= length (flat_map f l)).
  { apply IH. intros y Hy. apply H. right; exact Hy. }
  lia.
Qed.

Lemma CN_half_ge_2 : forall c, 4 <= c -> 2 <= c / 2.
Proof.
  intros c Hc. pose proof (Nat.div_mod c 2). pose proof (Nat.mod_upper_bound c 2). lia.
Qed.

(* ------------------------------------------------------------------ *)
Section Counting.
Variable V : Type.
Notation ptree := (ptree V).

Lemma n_leaves_unfold : forall id c ks (cs : list ptree),
  n_leaves (PBranch id c ks cs) = length (flat_map (@leaf_links V) cs).
Proof. reflexivity. Qed.

Lemma n_branches_unfold : forall id c ks (cs : list ptree),
  n_branches (PBranch id c ks cs) = S (length (flat_map (@branch_ids V) cs)).
Proof. reflexivity. Qed.

Lemma contents_leaf_length : forall id c ks (vs : list V) nx,
  length vs = length ks -> length (contents (PLeaf id c ks vs nx)) = length ks.
Proof.
  intros id c ks vs nx L. cbn [contents]. rewrite combine_length. lia.
Qed.

(* ---------------- entries per leaf ---------------- *)
Lemma leaves_entries : forall c r h (t : ptree), 4 <= c -> shape c r h t -> r = false ->
  n_leaves t * (c / 2) <= length (contents t).
Proof.
  intros c r h t Hc. revert r h.
  induction t as [id nc ks vs nx|id nc ks cs IH] using ptree_ind'; intros r h Sh Hr.
  - destruct (shape_leaf_inv Sh) as (_ & _ & Lv & _ & Hmin).
    rewrite contents_leaf_length by exact Lv.
    unfold n_leaves. cbn [leaf_links length]. specialize (Hmin Hr). lia.
  - destruct (shape_branch_inv Sh) as (h' & _ & _ & _ & _ & _ & _ & Hch).
    rewrite n_leaves_unfold. cbn [contents].
    apply CN_flat_map_weighted. intros ch Hin.
    rewrite Forall_forall in IH.
    exact (IH ch Hin false h' (Hch ch Hin) eq_refl).
Qed.

Lemma leaves_entries_root : forall c h (t : ptree), 4 <= c -> shape c true h t -> 1 <= h ->
  n_leaves t * (c / 2) <= length (contents t).
Proof.
  intros c h t Hc Sh Hh.
  destruct t as [id nc ks vs nx|id nc ks cs].
  - destruct (shape_leaf_inv Sh) as (-> & _). lia.
  - destruct (shape_branch_inv Sh) as (h' & _ & _ & _ & _ & _ & _ & Hch).
    rewrite n_leaves_unfold. cbn [contents].
    apply CN_flat_map_weighted. intros ch Hin.
    exact (leaves_entries Hc (Hch ch Hin) eq_refl).
Qed.

Lemma n_leaves_le_entries : forall c h (t : ptree), 4 <= c -> shape c true h t ->
  n_leaves t <= S (length (contents t)).
Proof.
  intros c h t Hc Sh.
  destruct t as [id nc ks vs nx|id nc ks cs].
  - unfold n_leaves. cbn [leaf_links length]. lia.
  - destruct (shape_branch_inv Sh) as (h' & -> & _).
    assert (Hh : 1 <= S h') by lia.
    pose proof (leaves_entries_root Hc Sh Hh) as H.
    pose proof (CN_half_ge_2 Hc) as H2.
    assert (n_leaves (PBranch id nc ks cs) * 2 <= n_leaves (PBranch id nc ks cs) * (c / 2))
      by (apply Nat.mul_le_mono_l; exact H2).
    lia.
Qed.

(* ---------------- branches vs leaves ---------------- *)
Lemma n_branches_lt_n_leaves_strong : forall c r h (t : ptree), 4 <= c -> shape c r h t ->
  n_branches t < n_leaves t.
Proof.
  intros c r h t Hc. revert r h.
  induction t as [id nc ks vs nx|id nc ks cs IH] using ptree_ind'; intros r h Sh.
  - unfold n_branches, n_leaves. cbn [branch_ids leaf_links length]. lia.
  - destruct (shape_branch_inv Sh) as (h' & _ & _ & Lc & _ & Hmin & Hroot & Hch).
    rewrite n_leaves_unfold, n_branches_unfold.
    assert (H2 : 2 <= length cs).
    { destruct r.
      - specialize (Hroot eq_refl). lia.
      - specialize (Hmin eq_refl). pose proof (CN_half_ge_2 Hc). lia. }
    assert (H : length (flat_map (@branch_ids V) cs) + length cs
                <= length (flat_map (@leaf_links V) cs)).
    { apply CN_flat_map_lt. intros ch Hin. rewrite Forall_forall in IH.
      exact (IH ch Hin false h' (Hch ch Hin)). }
    lia.
Qed.

Lemma n_branches_lt_n_leaves : forall c r h (t : ptree), 4 <= c -> shape c r h t ->
  n_branches t < n_leaves t \/ (h = 0 /\ n_branches t = 0).
Proof.
  intros c r h t Hc Sh. left. exact (n_branches_lt_n_leaves_strong Hc Sh).
Qed.

Lemma n_branches_le_n_leaves : forall c r h (t : ptree), 4 <= c -> shape c r h t ->
  n_branches t <= n_leaves t.
Proof.
  intros c r h t Hc Sh. pose proof (n_branches_lt_n_leaves_strong Hc Sh). lia.
Qed.

(* ---------------- logarithmic height ---------------- *)
(* a non-root subtree of height h holds at least (c/2) * (c/2+1)^h entries *)
Lemma height_log_nonroot : forall c h (t : ptree), 4 <= c -> shape c false h t ->
  (c / 2) * (c / 2 + 1) ^ h <= length (contents t).
Proof.
  intros c h t Hc. revert h.
  induction t as [id nc ks vs nx|id nc ks cs IH] using ptree_ind'; intros h Sh.
  - destruct (shape_leaf_inv Sh) as (-> & _ & Lv & _ & Hmin).
    rewrite contents_leaf_length by exact Lv. specialize (Hmin eq_refl).
    cbn [Nat.pow]. lia.
  - destruct (shape_branch_inv Sh) as (h' & -> & _ & Lc & _ & Hmin & _ & Hch).
    specialize (Hmin eq_refl). cbn [contents].
    set (m := (c / 2) * (c / 2 + 1) ^ h').
    assert (H : length cs * m <= length (flat_map (@contents V) cs)).
    { apply CN_flat_map_lower. intros ch Hin. rewrite Forall_forall in IH.
      exact (IH ch Hin h' (Hch ch Hin)). }
    assert (E : (c / 2) * (c / 2 + 1) ^ S h' = (c / 2 + 1) * m).
    { unfold m. cbn [Nat.pow]. generalize ((c / 2 + 1) ^ h'). intros p.
      rewrite Nat.mul_assoc, (Nat.mul_comm (c / 2) (c / 2 + 1)), Nat.mul_assoc. reflexivity. }
    rewrite E.
    assert (H1 : (c / 2 + 1) * m <= length cs * m) by (apply Nat.mul_le_mono_r; lia).
    lia.
Qed.

Theorem height_log : forall c h (t : ptree), 4 <= c -> shape c true h t -> 1 <= h ->
  2 * (c / 2) * (c / 2 + 1) ^ (h - 1) <= length (contents t).
Proof.
  intros c h t Hc Sh Hh.
  destruct t as [id nc ks vs nx|id nc ks cs].
  - destruct (shape_leaf_inv Sh) as (-> & _). lia.
  - destruct (shape_branch_inv Sh) as (h' & -> & _ & Lc & _ & _ & Hroot & Hch).
    specialize (Hroot eq_refl). cbn [contents].
    replace (S h' - 1) with h' by lia.
    set (m := (c / 2) * (c / 2 + 1) ^ h').
    assert (H : length cs * m <= length (flat_map (@contents V) cs)).
    { apply CN_flat_map_lower. intros ch Hin.
      exact (height_log_nonroot Hc (Hch ch Hin)). }
    rewrite <- Nat.mul_assoc. fold m.
    assert (H1 : 2 * m <= length cs * m) by (apply Nat.mul_le_mono_r; lia).
    lia.
Qed.

(* ---------------- entries = sum of the leaf sizes ---------------- *)
Lemma contents_length_leaves : forall (t : ptree),
  length (contents t)
  = list_sum (map (fun p => length (combine (lkeys (snd p)) (lvals (snd p)))) (leaves_of t)).
Proof.
  intros t. rewrite contents_leaves_of. apply RG_length_flat_map.
Qed.

End Counting.

(* ------------------------------------------------------------------ *)
(* non-vacuity: a three-level tree (cap 4, keys 1..20) *)
Module CountingExamples.

Definition ex_ins (b : res (bstate Z)) (z : Z) : res (bstate Z) :=
  do s <- b; do r <- b_insert s (mkKey z 0%N) z; Ok (fst r).

Definition ex_state : res (bstate Z) :=
  match b_new Z 4 with
  | Some b => fold_left ex_ins (map Z.of_nat (seq 1 20)) (Ok b)
  | None => Panic 0
  end.

Definition ex_numbers : res (nat * nat * nat * nat) :=
  do b <- ex_state;
  Ok (height (root b), n_leaves (root b), n_branches (root b), length (contents (root b))).

(* height 2, 2 * 2 * 3^1 = 12 <= 20 entries; branches < leaves; leaves * 2 <= entries *)
Example ex_counts :
  match ex_numbers with
  | Ok (hh, nl, nb, ne) =>
      andb (Nat.eqb hh 2)
        (andb (Nat.leb (2 * (4 / 2) * (4 / 2 + 1) ^ (hh - 1)) ne)
           (andb (Nat.ltb nb nl) (Nat.leb (nl * (4 / 2)) ne)))
  | _ => false
  end = true.
Proof. vm_compute. reflexivity. Qed.

End CountingExamples.

Print Assumptions leaves_entries.
Print Assumptions leaves_entries_root.
Print Assumptions n_leaves_le_entries.
Print Assumptions n_branches_lt_n_leaves.
Print Assumptions n_branches_le_n_leaves.
Print Assumptions height_log.
Print Assumptions contents_length_leaves.
