(* remove preserves the invariant and refines m_remove (theorem remove_inv). *)
From Coq Require Import Lia Arith Permutation.
From BPT Require Import Common.Base Common.AMap Rust.Tree Rust.Readers Rust.InvDefs Rust.Lib
  Rust.TreeFactsR Rust.RemoveLocal.

Section RemoveProofs.
Variable V : Type.
Notation ptree := (ptree V).
Notation CT := (flat_map (@contents V)).
Notation LL := (flat_map (@leaf_links V)).
Notation BI := (flat_map (@branch_ids V)).
Notation body := (RemoveLocal.body V).
Notation rb_post := (RemoveLocal.rb_post V).

Lemma Forall_remove_at : forall (A : Type) (P : A -> Prop) i l, Forall P l -> Forall P (remove_at i l).
Proof.
  intros A P i l H. revert i. induction H; intros i; destruct i; simpl; auto.
Qed.

Lemma firstn_len_app : forall (A : Type) (l1 l2 : list A), firstn (length l1) (l1 ++ l2) = l1.
Proof. intros. rewrite firstn_app, Nat.sub_diag, firstn_all. simpl. apply app_nil_r. Qed.

Lemma skipn_len_app : forall (A : Type) (l1 l2 : list A), skipn (length l1) (l1 ++ l2) = l2.
Proof. intros. rewrite skipn_app, Nat.sub_diag, skipn_all. reflexivity. Qed.

(* the key [z] is routed to child [child_index ks z]; everything left of it is smaller,
   everything right of it greater *)
Lemma branch_contents_lift : forall c h z lo hi ks1 ks2 (cs1 : list ptree) ch cs2,
  sorted_keys (ks1 ++ ks2) -> length ks1 = child_index (ks1 ++ ks2) z ->
  length cs1 = length ks1 ->
  ords lo hi (ks1 ++ ks2) (cs1 ++ ch :: cs2) ->
  Forall (shape c false h) cs1 -> Forall (shape c false h) cs2 ->
  m_remove (CT (cs1 ++ ch :: cs2)) z = CT cs1 ++ m_remove (contents ch) z ++ CT cs2 /\
  m_get (CT (cs1 ++ ch :: cs2)) z = m_get (contents ch) z.
Proof.
  intros * Sk Lci L O F1 F2.
  apply ords_app in O; auto. destruct O as [O1 O2].
  assert (K1 : forall k, In k ks1 -> (kz k <= z)%Z).
  { intros k Ik. apply (child_index_firstn_le (ks1 ++ ks2) z k Sk).
    rewrite <- Lci. rewrite firstn_len_app. auto. }
  assert (K2 : forall k, In k ks2 -> (z < kz k)%Z).
  { intros k Ik. apply (child_index_skipn_gt (ks1 ++ ks2) z k Sk).
    rewrite <- Lci. rewrite skipn_len_app. auto. }
  pose proof (@ordp_contents_lt V c h z ks1 cs1 lo O1 F1 K1) as B1.
  pose proof (@ords_tail_contents_gt V c h z ks2 cs2 _ _ _ O2 F2 K2) as B2.
  rewrite (flat_map_zip1 V). split.
  - rewrite m_remove_app_r by auto. rewrite m_remove_app_l by auto. reflexivity.
  - rewrite m_get_app_r by auto. rewrite m_get_app_l by auto. reflexivity.
Qed.

Lemma rb_post_refl : forall c lo hi h ks (cs : list ptree),
  body c lo hi h ks cs -> rb_post c lo hi h ks cs [] [] ks cs.
Proof.
  intros. split; [auto|split; [left; auto|split; [auto|split; [auto|split]]]]; apply Permutation_refl.
Qed.

Definition shape_r (c h : nat) (t : ptree) : Prop :=
  shape c true h t \/
  exists id ch h', h = S h' /\ t = PBranch id c [] [ch] /\ shape c false h' ch.

Definition rem_ok (c : nat) (z : Z) (r : bool) (lo hi : option Z) (h : nat) (t : ptree)
    (dl db : list N) (t' : ptree) (removed : option V) (under : bool) : Prop :=
  ord lo hi t' /\
  (r = false -> under = false -> shape c false h t') /\
  (r = false -> under = true -> shape_u c h t') /\
  (r = true -> shape_r c h t') /\
  contents t' = m_remove (contents t) z /\
  removed = m_get (contents t) z /\
  (removed = None -> t' = t /\ dl = [] /\ db = [] /\ under = false) /\
  (forall pre post after, links_ok (pre ++ leaf_links t ++ post) after ->
     links_ok (pre ++ leaf_links t' ++ post) after) /\
  Permutation (leaf_ids t) (dl ++ leaf_ids t') /\
  Permutation (branch_ids t) (db ++ branch_ids t').

Lemma rem_leaf_spec : forall c z f r lo hi h id c' ks (vs : list V) nx lm bm,
  4 <= c -> ord lo hi (PLeaf id c' ks vs nx) -> shape c r h (PLeaf id c' ks vs nx) ->
  exists t' removed under,
    rem (S f) lm bm (PLeaf id c' ks vs nx) z = Ok (lm, bm, t', removed, under) /\
    rem_ok c z r lo hi h (PLeaf id c' ks vs nx) [] [] t' removed under.
Proof.
  intros * C O S.
  apply shape_leaf_inv in S. destruct S as (-> & -> & Lv & L2 & L1).
  apply ord_leaf_inv in O. destruct O as [Sk F].
  cbn [rem]. destruct (bfound ks z) eqn:B.
  - destruct (bfound_true ks z B) as (k & Ek & Kz).
    assert (Hi : lb ks z < length ks) by (apply nth_error_Some; congruence).
    destruct (nth_error vs (lb ks z)) as [v|] eqn:Ev;
      [|apply nth_error_None in Ev; lia].
    rewrite (vec_remove_ok 61 _ _ Ev). cbn [bind fst snd].
    eexists. eexists. eexists. split; [reflexivity|].
    assert (Lk' : length (remove_at (lb ks z) ks) = pred (length ks)) by (apply length_remove_at; auto).
    assert (Lv' : length (remove_at (lb ks z) vs) = pred (length vs)) by (apply length_remove_at; lia).
    split; [|split; [|split; [|split; [|split; [|split; [|split; [|split; [|split]]]]]]]].
    + constructor. apply sorted_keys_remove_at; auto. apply Forall_remove_at; auto.
    + intros -> U. apply Nat.ltb_ge in U. constructor; try lia; auto.
    + intros -> U. apply Nat.ltb_lt in U. specialize (L1 eq_refl). constructor; lia.
    + intros ->. left. constructor; try lia; discriminate.
    + cbn [contents]. apply leaf_remove; auto.
    + cbn [contents]. rewrite leaf_get; auto. rewrite B. auto.
    + discriminate.
    + auto.
    + apply Permutation_refl.
    + apply Permutation_refl.
  - eexists. eexists. eexists. split; [reflexivity|].
    assert (N : forall e : key * V, In e (combine ks vs) -> kz (fst e) <> z).
    { intros [k v] I. apply in_combine_l in I. simpl. eapply bfound_false; eauto. }
    split; [|split; [|split; [|split; [|split; [|split; [|split; [|split; [|split]]]]]]]].
    + constructor; auto.
    + intros -> _. constructor; auto.
    + discriminate.
    + intros ->. left. constructor; auto.
    + cbn [contents]. rewrite m_remove_notin; auto.
    + cbn [contents]. rewrite m_get_none_notin; auto.
    + auto.
    + auto.
    + apply Permutation_refl.
    + apply Permutation_refl.
Qed.

Definition rem_IH (c : nat) (z : Z) (f : nat) : Prop :=
  forall (t : ptree) lo hi h lm bm, ord lo hi t -> shape c false h t -> h < f ->
  exists dl db t' removed under,
    rem f lm bm t z = Ok (deallocs lm dl, deallocs bm db, t', removed, under) /\
    rem_ok c z false lo hi h t dl db t' removed under.

Lemma map_fst_LL_zip1 : forall (cs1 : list ptree) m cs2,
  map fst (LL (cs1 ++ m :: cs2)) = map fst (LL cs1) ++ leaf_ids m ++ map fst (LL cs2).
Proof. intros. rewrite (flat_map_zip1 V). rewrite !map_app. reflexivity. Qed.

Lemma rem_branch_spec : forall c z f r lo hi h id c' ks (cs : list ptree) lm bm,
  4 <= c -> rem_IH c z f ->
  ord lo hi (PBranch id c' ks cs) -> shape c r h (PBranch id c' ks cs) -> h < S f ->
  exists dl db t' removed under,
    rem (S f) lm bm (PBranch id c' ks cs) z = Ok (deallocs lm dl, deallocs bm db, t', removed, under) /\
    rem_ok c z r lo hi h (PBranch id c' ks cs) dl db t' removed under.
Proof.
  intros * C IH O S Hf.
  apply shape_branch_inv in S. destruct S as (h' & -> & -> & L & L2 & L1 & Lr & Fs).
  apply ord_branch_inv in O; auto. destruct O as (Sk & F & O).
  pose proof (child_index_le_length ks z) as Hci.
  destruct (nth_error cs (child_index ks z)) as [ch|] eqn:Hn;
    [|apply nth_error_None in Hn; lia].
  destruct (nth_error_zip_inv _ _ Hn) as (cs1 & cs2 & -> & Lc1).
  destruct (split_at ks Hci) as (ks1 & ks2 & -> & Lk1).
  assert (Lc : length cs1 = length ks1) by lia.
  pose proof O as O'. apply ords_app in O'; auto. destruct O' as [O1 O2].
  pose proof (ords_cons_inv _ _ _ _ _ O2) as Och.
  apply Forall_app in Fs. destruct Fs as [F1 Fs]. inversion Fs as [|? ? Sch F2]; subst.
  destruct (IH ch _ _ h' lm bm Och Sch ltac:(lia)) as (dl1 & db1 & ch' & removed & under & E1 & R1).
  destruct R1 as (Och' & Sf & Su & _ & Ct & Rm & Nn & Lk & P1 & P2).
  destruct (branch_contents_lift c h' z lo hi ks1 ks2 cs1 ch cs2 Sk Lk1 Lc O F1 F2) as [CtR CtG].
  cbn [rem]. rewrite Hn. rewrite E1. cbn [bind].
  rewrite (set_nth_zip0' _ _ _ _ _ _ (eq_sym Lc1)).
  assert (KL : 1 <= length (ks1 ++ ks2)).
  { destruct r; [auto|]. specialize (L1 eq_refl). hlia c. }
  destruct removed as [v|].
  - assert (RB : exists dl2 db2 ks' cs',
      (if under then rebalance_child (deallocs lm dl1) (deallocs bm db1) (ks1 ++ ks2)
                      (cs1 ++ ch' :: cs2) (child_index (ks1 ++ ks2) z)
       else Ok (deallocs lm dl1, deallocs bm db1, ks1 ++ ks2, cs1 ++ ch' :: cs2))
      = Ok (deallocs (deallocs lm dl1) dl2, deallocs (deallocs bm db1) db2, ks', cs') /\
      rb_post c lo hi h' (ks1 ++ ks2) (cs1 ++ ch' :: cs2) dl2 db2 ks' cs').
    { assert (O3 : ords lo hi (ks1 ++ ks2) (cs1 ++ ch' :: cs2)).
      { apply ords_app; auto. split; auto. eapply ords_cons_change; eauto. }
      destruct under.
      - rewrite <- Lc1. apply rebalance_child_spec; auto.
      - exists [], [], (ks1 ++ ks2), (cs1 ++ ch' :: cs2). split; [reflexivity|].
        apply rb_post_refl. split; [auto|split; [auto|split; [auto|]]].
        apply Forall_app. split; auto. }
    destruct RB as (dl2 & db2 & ks' & cs' & E2 & (Bd & Ln & Ct2 & Lk2 & P3 & P4)).
    rewrite E2. cbn [bind].
    exists (dl1 ++ dl2), (db1 ++ db2), (PBranch id c ks' cs'), (Some v), (Nat.ltb (length ks') (c / 2)).
    split; [rewrite !deallocs_app; reflexivity|].
    destruct Bd as (Sk' & F' & O4 & Fs').
    pose proof (ords_length _ _ _ _ O4) as L'.
    assert (L2' : length ks' <= c) by lia.
    split; [|split; [|split; [|split; [|split; [|split; [|split; [|split; [|split]]]]]]]].
    + apply ord_branch_intro; auto.
    + intros -> U. apply Nat.ltb_ge in U. apply shape_branch_intro; auto. discriminate.
    + intros -> U. apply Nat.ltb_lt in U. specialize (L1 eq_refl). constructor; auto. lia.
    + intros ->. specialize (Lr eq_refl). destruct ks' as [|k0 ks'].
      * right. destruct cs' as [|c0 [|c1 cs']]; try discriminate.
        inversion Fs'; subst. exists id, c0, h'. auto.
      * left. apply shape_branch_intro; auto; try discriminate. cbn [length]. lia.
    + cbn [contents]. rewrite Ct2. rewrite (flat_map_zip1 V). rewrite Ct. symmetry. exact CtR.
    + cbn [contents]. rewrite CtG. exact Rm.
    + discriminate.
    + intros pre post after H. cbn [leaf_links] in *. apply Lk2.
      rewrite (flat_map_zip1 V) in *.
      replace (pre ++ (LL cs1 ++ leaf_links ch' ++ LL cs2) ++ post)
        with ((pre ++ LL cs1) ++ leaf_links ch' ++ (LL cs2 ++ post))
        by (repeat rewrite <- app_assoc; reflexivity).
      apply Lk. repeat rewrite <- app_assoc in *. exact H.
    + unfold leaf_ids. cbn [leaf_links].
      eapply Permutation_trans; [|rewrite <- app_assoc; apply Permutation_app_head; exact P3].
      rewrite !map_fst_LL_zip1. apply perm_ctx. exact P1.
    + cbn [branch_ids].
      eapply Permutation_trans; [|apply Permutation_middle].
      constructor.
      eapply Permutation_trans; [|rewrite <- app_assoc; apply Permutation_app_head; exact P4].
      rewrite !(flat_map_zip1 V). apply perm_ctx. exact P2.
  - destruct (Nn eq_refl) as (-> & -> & -> & ->).
    exists [], [], (PBranch id c (ks1 ++ ks2) (cs1 ++ ch :: cs2)), None, false.
    split; [reflexivity|].
    assert (St : forall r', (r' = r) -> shape c r' (S h') (PBranch id c (ks1 ++ ks2) (cs1 ++ ch :: cs2))).
    { intros r' ->. apply shape_branch_intro; auto. apply Forall_app; split; auto. }
    split; [|split; [|split; [|split; [|split; [|split; [|split; [|split; [|split]]]]]]]].
    + apply ord_branch_intro; auto.
    + intros -> _. apply St; auto.
    + discriminate.
    + intros ->. left. apply St; auto.
    + cbn [contents]. rewrite CtR. rewrite <- Ct. rewrite (flat_map_zip1 V). reflexivity.
    + cbn [contents]. rewrite CtG. exact Rm.
    + auto.
    + auto.
    + apply Permutation_refl.
    + apply Permutation_refl.
Qed.

Lemma rem_spec : forall c z f (t : ptree) r lo hi h lm bm,
  4 <= c -> ord lo hi t -> shape c r h t -> h < f ->
  exists dl db t' removed under,
    rem f lm bm t z = Ok (deallocs lm dl, deallocs bm db, t', removed, under) /\
    rem_ok c z r lo hi h t dl db t' removed under.
Proof.
  intros c z f. induction f; intros * C O S Hf; [lia|].
  destruct t as [id c' ks vs nx|id c' ks cs].
  - destruct (rem_leaf_spec c z f r lo hi h id c' ks vs nx lm bm C O S) as (t' & rm & un & E & R).
    exists [], [], t', rm, un. split; auto.
  - apply rem_branch_spec; auto.
    intros t0 lo0 hi0 h0 lm0 bm0 O0 S0 H0. apply IHf; auto.
Qed.

(* ---------------- collapse ---------------- *)
Lemma collapse_spec : forall c h (t : ptree) lm bm,
  4 <= c -> shape_r c h t ->
  exists db t' h',
    collapse (S (height t)) c lm bm t = Ok (lm, deallocs bm db, t') /\
    shape c true h' t' /\ h' <= h /\
    (ord None None t -> ord None None t') /\
    contents t' = contents t /\ leaf_links t' = leaf_links t /\
    Permutation (branch_ids t) (db ++ branch_ids t').
Proof.
  intros * C [S|(id & ch & h' & -> & -> & S)].
  - exists [], t, h. split; [|split; [auto|split; [auto|split; [auto|split; [auto|split; [auto|apply Permutation_refl]]]]]].
    inversion S; subst.
    + reflexivity.
    + specialize (H2 eq_refl). destruct ks as [|k0 ks]; [cbn [length] in H2; lia|].
      destruct cs as [|c0 [|c1 cs]]; try discriminate. reflexivity.
  - exists [id], ch, h'.
    split; [|split; [|split; [|split; [|split; [|split]]]]].
    + cbn [collapse]. cbn [height]. inversion S; subst.
      * reflexivity.
      * specialize (H1 eq_refl). destruct cs as [|c0 [|c1 [|c2 cs]]]; cbn [length] in *; try (hlia c).
        reflexivity.
    + apply shape_root_relax; auto.
    + lia.
    + intro O. apply ord_branch_inv in O; auto. destruct O as (_ & _ & O). simpl in O. tauto.
    + simpl. rewrite app_nil_r. reflexivity.
    + simpl. rewrite app_nil_r. reflexivity.
    + simpl. rewrite app_nil_r. apply Permutation_refl.
Qed.

(* ---------------- main theorem ---------------- *)
(* The two [room _ 0] hypotheses say that both arenas have fewer than 2^32-1 slots, so
   that no allocated id equals NULL; [m_dealloc] ignores NULL, and [Inv] alone does not
   exclude a node whose id is NULL. *)
Theorem remove_inv : forall (b : bstate V) (z : Z),
  Inv b -> room (lmeta b) 0 -> room (bmeta b) 0 ->
  exists b' old,
    b_remove b z = Ok (b', old) /\
    Inv b' /\
    cap b' = cap b /\
    contents (root b') = m_remove (contents (root b)) z /\
    old = m_get (contents (root b)) z /\
    length (m_mask (lmeta b')) = length (m_mask (lmeta b)) /\
    length (m_mask (bmeta b')) = length (m_mask (bmeta b)) /\
    height (root b') <= height (root b).
Proof.
  intros b z [Icap Iord [h Ishape] Il Ib Ich] Rl Rb.
  pose proof (shape_height Ishape) as Hh.
  destruct (rem_spec (cap b) z (S (height (root b))) (root b) true None None h (lmeta b) (bmeta b)
              Icap Iord Ishape ltac:(lia))
    as (dl & db & t' & removed & under & E & R).
  destruct R as (Ot & _ & _ & Sr & Ct & Rm & Nn & Lk & P1 & P2). specialize (Sr eq_refl).
  unfold b_remove. rewrite E. cbn [bind].
  destruct removed as [v|].
  - destruct (collapse_spec (cap b) h t' (deallocs (lmeta b) dl) (deallocs (bmeta b) db) Icap Sr)
      as (db2 & t'' & h'' & E2 & S2 & Hle & O2 & Ct2 & Ll2 & P3).
    rewrite E2. cbn [bind].
    eexists. eexists. split; [reflexivity|].
    cbn [cap root lmeta bmeta].
    split; [|split; [auto|split; [|split; [auto|split; [|split]]]]].
    + constructor; cbn [cap root lmeta bmeta]; auto.
      * eauto.
      * unfold leaf_ids. rewrite Ll2. apply meta_ok_deallocs with (ids := leaf_ids (root b)); auto.
        intros id I. apply (meta_ok_not_null Il Rl).
        eapply Permutation_in; [apply Permutation_sym; exact P1|]. apply in_or_app; left; auto.
      * rewrite <- deallocs_app.
        assert (P4 : Permutation (branch_ids (root b)) ((db ++ db2) ++ branch_ids t'')).
        { eapply Permutation_trans; [exact P2|]. rewrite <- app_assoc.
          apply Permutation_app_head. exact P3. }
        apply meta_ok_deallocs with (ids := branch_ids (root b)); auto.
        intros id I. apply (meta_ok_not_null Ib Rb).
        eapply Permutation_in; [apply Permutation_sym; exact P4|]. apply in_or_app; left; auto.
      * unfold chain_ok in *. rewrite Ll2.
        specialize (Lk [] [] NULL). simpl in Lk. rewrite !app_nil_r in Lk. auto.
    + rewrite Ct2. exact Ct.
    + apply length_mask_deallocs.
    + rewrite length_mask_deallocs. apply length_mask_deallocs.
    + rewrite (shape_height S2). lia.
  - destruct (Nn eq_refl) as (-> & -> & -> & _).
    eexists. eexists. split; [reflexivity|].
    cbn [cap root lmeta bmeta]. unfold deallocs. cbn [fold_left].
    split; [|split; [auto|split; [auto|split; [auto|split; [auto|split; auto]]]]].
    constructor; cbn [cap root lmeta bmeta]; eauto.
Qed.

(* storage lengths are unchanged, so every [room] bound carries over to the new state *)
Corollary remove_preserves_room : forall (b b' : bstate V) (z : Z) old n,
  Inv b -> room (lmeta b) 0 -> room (bmeta b) 0 ->
  b_remove b z = Ok (b', old) ->
  (room (lmeta b) n -> room (lmeta b') n) /\ (room (bmeta b) n -> room (bmeta b') n).
Proof.
  intros b b' z old n I Rl Rb E.
  destruct (remove_inv b z I Rl Rb) as (b2 & old2 & E2 & _ & _ & _ & _ & L1 & L2 & _).
  rewrite E in E2. injection E2 as -> ->.
  unfold room. rewrite L1, L2. auto.
Qed.

End RemoveProofs.

Print Assumptions remove_inv.
