(* Bulk loading (from_sorted_items / _bulk_load_sorted / _insert_sorted_optimized /
   _update_rightmost_leaf_cache): the result satisfies the invariant and holds the contents
   obtained by assigning the items one by one -- for EVERY item list (the fast path is taken
   only when the new key is greater than every key of the map, where appending to the last
   leaf is exactly [m_insert]).

   The two facts about __setitem__ and the chain walk are Section hypotheses, instantiated
   elsewhere. *)
From Coq Require Import List Arith ZArith NArith Lia Bool.
From BPT Require Import Common.Base Common.AMap Rust.Tree Rust.Readers Rust.InvDefs Rust.Lib
  Rust.TreeFactsI Py.Tree Py.Inv Py.Facts Py.LeafFacts Py.Spec Py.NewProofs.
Import ListNotations.
Set Implicit Arguments.

(* non-strictly ascending by key *)
Fixpoint sorted_pairs (l : list (key * pyval)) : Prop :=
  match l with
  | [] => True
  | a :: l' =>
      match l' with [] => True | b :: _ => (kz (fst a) <= kz (fst b))%Z end /\ sorted_pairs l'
  end.

(* ------------------------------------------------------------------ *)
(* list / map helpers *)

Lemma last_opt_some : forall (A : Type) (l : list A) x, last_opt l = Some x -> exists r, l = r ++ [x].
Proof.
  intros A l x H. unfold last_opt in H. destruct (rev l) as [|y r] eqn:E; [discriminate|].
  inversion H; subst y. exists (rev r).
  apply (f_equal (@rev A)) in E. rewrite rev_involutive in E. cbn [rev] in E. exact E.
Qed.

Lemma m_insert_append : forall (m : pmap) k v,
  (forall e, In e m -> (kz (fst e) < kz k)%Z) -> m_insert m k v = m ++ [(k, v)].
Proof.
  intros m k v H. rewrite <- (app_nil_r m) at 1. rewrite m_insert_app_r by exact H. reflexivity.
Qed.

(* the last entry of a sorted association list carries the greatest key *)
Lemma m_sorted_last_max : forall (m : pmap) kl vl, m_sorted (m ++ [(kl, vl)]) ->
  forall e, In e (m ++ [(kl, vl)]) -> (kz (fst e) <= kz kl)%Z.
Proof.
  intros m kl vl Hs e He. unfold m_sorted in Hs. rewrite map_app in Hs. cbn [map fst] in Hs.
  apply sorted_keys_app in Hs. destruct Hs as (_ & _ & H12).
  apply in_app_or in He. destruct He as [He|[<-|[]]].
  - assert (kz (fst e) < kz kl)%Z; [|lia]. apply H12; [apply in_map; exact He|left; reflexivity].
  - cbn [fst]. lia.
Qed.

Lemma combine_snoc : forall (A B : Type) (l : list A) (r : list B) a b, length r = length l ->
  combine (l ++ [a]) (r ++ [b]) = combine l r ++ [(a, b)].
Proof. intros. rewrite combine_app by auto. reflexivity. Qed.

Lemma snoc_of_length : forall (A : Type) (l : list A) n, length l = S n -> exists r x, l = r ++ [x].
Proof.
  intros A l n H. destruct (@exists_last A l) as (r & x & E); [intros ->; discriminate|]. eauto.
Qed.

(* ------------------------------------------------------------------ *)
(* update_leaf: links, leaves, contents *)

Lemma link_of_upd_leaf : forall id ks' vs' l, link_of (upd_leaf id ks' vs' l) = link_of l.
Proof.
  intros id ks' vs' [i c ks vs nx|i c ks cs]; cbn [upd_leaf]; [|reflexivity].
  destruct (N.eqb i id); reflexivity.
Qed.

Lemma leaf_links_update_leaf : forall t id ks' vs',
  pleaf_links (update_leaf t id ks' vs') = pleaf_links t.
Proof.
  intros. rewrite !leaf_links_leaves, leaves_of_update_leaf, map_map.
  apply map_ext. intros l. apply link_of_upd_leaf.
Qed.

Lemma leaf_ids_update_leaf : forall t id ks' vs',
  pleaf_ids (update_leaf t id ks' vs') = pleaf_ids t.
Proof. intros. unfold leaf_ids. rewrite leaf_links_update_leaf. reflexivity. Qed.

Lemma upd_leaf_other : forall id ks' vs' l, pid l <> id -> upd_leaf id ks' vs' l = l.
Proof.
  intros id ks' vs' [i c ks vs nx|i c ks cs] H; cbn [upd_leaf]; [|reflexivity].
  cbn [pid] in H. destruct (N.eqb_spec i id); [contradiction|reflexivity].
Qed.

(* updating the last leaf (ids distinct) touches only that leaf *)
Lemma leaves_of_update_last : forall t front lid c ks vs nx ks' vs',
  NoDup (pleaf_ids t) -> leaves_of t = front ++ [PLeaf lid c ks vs nx] ->
  leaves_of (update_leaf t lid ks' vs') = front ++ [PLeaf lid c ks' vs' nx].
Proof.
  intros t front lid c ks vs nx ks' vs' ND E.
  rewrite leaves_of_update_leaf, E, map_app. cbn [map upd_leaf]. rewrite N.eqb_refl.
  f_equal. rewrite <- (map_id front) at 2. apply map_ext_in. intros l Hl.
  apply upd_leaf_other. intros Hid.
  rewrite leaf_ids_leaves, E, map_app in ND. cbn [map pid] in ND.
  apply NoDup_remove_2 in ND. rewrite app_nil_r in ND. apply ND.
  rewrite <- Hid. apply in_map. exact Hl.
Qed.

Lemma contents_last_leaf : forall (t : ptree) front lid c ks vs nx,
  leaves_of t = front ++ [PLeaf lid c ks vs nx] ->
  contents t = flat_map (@contents pyval) front ++ combine ks vs.
Proof.
  intros t front lid c ks vs nx E. rewrite contents_leaves, E, flat_map_app.
  cbn [flat_map contents]. rewrite app_nil_r. reflexivity.
Qed.

Lemma contents_update_last : forall t front lid c ks vs nx k v,
  NoDup (pleaf_ids t) -> leaves_of t = front ++ [PLeaf lid c ks vs nx] ->
  length vs = length ks ->
  contents (update_leaf t lid (ks ++ [k]) (vs ++ [v])) = contents t ++ [(k, v)].
Proof.
  intros t front lid c ks vs nx k v ND E L.
  pose proof (@leaves_of_update_last t front lid c ks vs nx (ks ++ [k]) (vs ++ [v]) ND E) as E'.
  rewrite (@contents_last_leaf _ _ _ _ _ _ _ E'), (@contents_last_leaf _ _ _ _ _ _ _ E). rewrite combine_snoc by exact L. rewrite app_assoc. reflexivity.
Qed.

(* ------------------------------------------------------------------ *)
(* update_leaf and pshape: the replaced leaf may only grow, up to the capacity *)

Lemma pshape_update_leaf : forall cap r h t, pshape cap r h t ->
  forall lid ks' vs', length vs' = length ks' -> length ks' <= cap ->
  (forall l, In l (leaves_of t) -> pid l = lid -> length (pkeys l) <= length ks') ->
  pshape cap r h (update_leaf t lid ks' vs').
Proof.
  induction 1 as [r id ks vs nx L1 L2 L3 | r h id ks cs L1 L2 L3 L4 Hc IH];
    intros lid ks' vs' Lv Lk Hold; cbn [update_leaf].
  - destruct (N.eqb_spec id lid) as [E|E]; [|constructor; auto].
    constructor; auto. intros Hr. specialize (L3 Hr).
    specialize (Hold _ (or_introl eq_refl) E). cbn [pkeys] in Hold. lia.
  - constructor; auto.
    + rewrite map_length. exact L1.
    + intros ch' Hch'. apply in_map_iff in Hch'. destruct Hch' as (ch & <- & Hch).
      apply IH; auto. intros l Hl Hid. apply Hold; [|exact Hid].
      cbn [leaves_of]. apply in_flat_map. exists ch. split; assumption.
Qed.

(* a non-root subtree holds at least one entry *)
Lemma pshape_contents_nonempty : forall cap h (t : ptree), 4 <= cap -> pshape cap false h t ->
  contents t <> [].
Proof.
  intros cap h t Hc Sh. remember false as r eqn:Er. revert Er.
  induction Sh as [r id ks vs nx L1 L2 L3 | r h id ks cs L1 L2 L3 L4 Hch IH]; intros ->.
  - pose proof (pmin_facts Hc) as (M1 & _). specialize (L3 eq_refl). cbn [contents].
    destruct ks as [|k ks]; [cbn [length] in L3; lia|]. destruct vs as [|v vs]; [discriminate|]. discriminate.
  - destruct cs as [|ch cs]; [discriminate|]. cbn [contents flat_map]. intros E.
    apply app_eq_nil in E. destruct E as [E _]. exact (IH ch (or_introl eq_refl) eq_refl E).
Qed.

(* ------------------------------------------------------------------ *)
(* update_leaf and ord: appending a key greater than everything to the LAST leaf of a
   subtree that has no upper bound *)

Lemma NoDup_app_l : forall (A : Type) (l1 l2 : list A), NoDup (l1 ++ l2) -> NoDup l1.
Proof.
  induction l1 as [|a l1 IH]; intros l2 H; [constructor|].
  cbn [app] in H. inversion H; subst. constructor; [|eauto].
  intros Hin. apply H2. apply in_or_app. auto.
Qed.

Lemma NoDup_app_r : forall (A : Type) (l1 l2 : list A), NoDup (l1 ++ l2) -> NoDup l2.
Proof. induction l1 as [|a l1 IH]; intros l2 H; [exact H|]. inversion H; subst. eauto. Qed.

Lemma NoDup_app_disj : forall (A : Type) (l1 l2 : list A) x, NoDup (l1 ++ l2) -> In x l1 -> In x l2 -> False.
Proof.
  induction l1 as [|a l1 IH]; intros l2 x H H1 H2; [destruct H1|].
  cbn [app] in H. inversion H; subst. destruct H1 as [->|H1]; [|eauto].
  apply H4. apply in_or_app. auto.
Qed.

Lemma leaf_ids_branch_snoc : forall id c ks (cs : list ptree) ch,
  pleaf_ids (PBranch id c ks (cs ++ [ch])) = flat_map pleaf_ids cs ++ pleaf_ids ch.
Proof.
  intros. unfold leaf_ids. cbn [leaf_links]. rewrite flat_map_app. cbn [flat_map].
  rewrite app_nil_r, map_app. f_equal.
  induction cs as [|a cs IHcs]; [reflexivity|]. cbn [flat_map]. rewrite map_app, IHcs. reflexivity.
Qed.

Lemma ord_append_last : forall (t : ptree) lo k v cap r h,
  4 <= cap -> ord lo None t -> pshape cap r h t -> NoDup (pleaf_ids t) ->
  forall front lid c ks vs nx, leaves_of t = front ++ [PLeaf lid c ks vs nx] ->
  lo_ok lo (kz k) ->
  (forall e, In e (contents t) -> (kz (fst e) < kz k)%Z) ->
  ord lo None (update_leaf t lid (ks ++ [k]) (vs ++ [v])).
Proof.
  induction t as [id c0 ks0 vs0 nx0 | id c0 ks0 cs IH] using ptree_ind';
    intros lo k v cap r h Hcap O Sh ND front lid c ks vs nx E Hlo Hgt.
  - cbn [leaves_of] in E. destruct front as [|a front].
    2:{ cbn [app] in E. inversion E as [[E1 E2]]. destruct front; discriminate. }
    cbn [app] in E. inversion E; subst. cbn [update_leaf]. rewrite N.eqb_refl.
    destruct (ord_leaf_inv O) as (Hs & F).
    destruct (pshape_leaf_inv Sh) as (_ & _ & Lv & _).
    assert (Hlt : forall a, In a ks -> (kz a < kz k)%Z).
    { intros a Ha. apply In_nth_error in Ha. destruct Ha as (i & Hi).
      assert (i < length vs) as Hiv by (rewrite Lv; apply nth_error_Some; congruence).
      apply nth_error_Some in Hiv. destruct (nth_error vs i) as [b|] eqn:Eb; [|congruence].
      apply (Hgt (a, b)). cbn [contents]. apply nth_error_In with i.
      clear - Hi Eb. revert ks vs Hi Eb. induction i as [|i IHi]; intros [|x ks] [|y vs] Hi Eb;
        cbn in *; try discriminate; [congruence|auto]. }
    constructor.
    + apply sorted_keys_app. split; [exact Hs|]. split; [cbn; auto|].
      intros a b Ha [<-|[]]. auto.
    + apply Forall_app. split; [exact F|]. constructor; [|constructor].
      split; [exact Hlo|exact I].
  - destruct (ord_branch_inv O) as (Hs & F & Hc).
    destruct (pshape_branch_inv Sh) as (h' & -> & -> & Lc & _ & _ & _ & Hsh).
    destruct (snoc_of_length _ Lc) as (cs' & chl & ->).
    rewrite app_length in Lc. cbn [length] in Lc.
    assert (Lcs' : length cs' = length ks0) by lia. clear Lc.
    rewrite leaf_ids_branch_snoc in ND.
    cbn [leaves_of] in E. rewrite flat_map_app in E. cbn [flat_map] in E. rewrite app_nil_r in E.
    assert (Shl : pshape cap false h' chl) by (apply Hsh; apply in_or_app; right; left; reflexivity).
    destruct (@exists_last _ (leaves_of chl) (leaves_of_nonempty Shl)) as (front' & lastl & El).
    rewrite El, app_assoc in E. apply app_inj_tail in E. destruct E as (Ef & ->).
    (* the children left of the last one do not contain lid *)
    assert (Hlid : In lid (pleaf_ids chl)).
    { rewrite leaf_ids_leaves, El, map_app. apply in_or_app. right. left. reflexivity. }
    assert (Hmap : map (fun ch => update_leaf ch lid (ks ++ [k]) (vs ++ [v])) cs' = cs').
    { rewrite <- (map_id cs') at 2. apply map_ext_in. intros ch Hch. apply update_leaf_notin.
      intros Hin. apply (NoDup_app_disj _ _ lid ND); [|exact Hlid].
      apply in_flat_map. exists ch. split; assumption. }
    cbn [update_leaf]. rewrite map_app, Hmap. cbn [map].
    rewrite Forall_app in IH. destruct IH as (_ & IHl). inversion IHl as [|x xs IHchl _]; subst x xs.
    assert (Hnl : nth_error (cs' ++ [chl]) (length ks0) = Some chl).
    { rewrite nth_error_app2 by lia. rewrite Lcs', Nat.sub_diag. reflexivity. }
    pose proof (Hc _ _ Hnl) as Ol.
    assert (Hsnd : snd (child_bounds ks0 lo None (length ks0)) = None).
    { unfold child_bounds. cbn [snd]. rewrite Nat.eqb_refl. reflexivity. }
    rewrite Hsnd in Ol.
    assert (Hgtl : forall e, In e (contents chl) -> (kz (fst e) < kz k)%Z).
    { intros e He. apply Hgt. cbn [contents]. apply in_flat_map. exists chl.
      split; [apply in_or_app; right; left; reflexivity|exact He]. }
    assert (Hlo' : lo_ok (fst (child_bounds ks0 lo None (length ks0))) (kz k)).
    { pose proof (p_ord_contents_bounds Ol Shl) as B.
      pose proof (pshape_contents_nonempty Hcap Shl) as Hne.
      destruct (contents chl) as [|e m] eqn:Ec; [congruence|].
      inversion B as [|x xs Be _]; subst x xs. destruct Be as [Be _].
      specialize (Hgtl e (or_introl eq_refl)).
      destruct (fst (child_bounds ks0 lo None (length ks0))) as [z|]; cbn [lo_ok] in *; [lia|exact I]. }
    assert (Ol' : ord (fst (child_bounds ks0 lo None (length ks0))) None
                      (update_leaf chl lid (ks ++ [k]) (vs ++ [v]))).
    { eapply IHchl; eauto. apply (NoDup_app_r _ _ ND). }
    constructor; auto. intros i ch Hn.
    destruct (Nat.lt_ge_cases i (length cs')) as [Hi|Hi].
    + rewrite nth_error_app1 in Hn by exact Hi. apply Hc. rewrite nth_error_app1 by exact Hi. exact Hn.
    + rewrite nth_error_app2 in Hn by exact Hi.
      destruct (i - length cs') as [|j] eqn:Ej; [|destruct j; discriminate].
      cbn [nth_error] in Hn. inversion Hn; subst ch.
      assert (i = length ks0) as -> by lia. rewrite Hsnd. exact Ol'.
Qed.

(* ------------------------------------------------------------------ *)
(* the loop invariant: the cache is None or the id of the last leaf in order *)

Definition cache_last (s : pstate) : Prop :=
  tcache s = None \/
  exists lid c ks vs front, tcache s = Some lid /\
    leaves_of (troot s) = front ++ [PLeaf lid c ks vs NULL].

Definition BulkInv (s : pstate) : Prop := PyInv s /\ cache_last s.

(* changing only the cache to a leaf id keeps the invariant *)
Lemma PyInv_set_cache : forall s lid, PyInv s -> In lid (pleaf_ids (troot s)) ->
  PyInv (mkP (tcap s) (troot s) (tleaves s) (Some lid) (tnext s)).
Proof.
  intros s lid I Hin. destruct I as [I1 I2 I3 I4 I5 I6 I7 I8 I9].
  constructor; cbn [tcap troot tleaves tcache tnext]; auto.
  intros c Hc. inversion Hc; subst c. apply I6. exact Hin.
Qed.

(* the fast path: append to the last leaf *)
Lemma fast_path_inv : forall s front lid c ks vs k v,
  PyInv s -> leaves_of (troot s) = front ++ [PLeaf lid c ks vs NULL] ->
  length ks < c ->
  (forall e, In e (pcontents s) -> (kz (fst e) < kz k)%Z) ->
  let s' := mkP (tcap s) (update_leaf (troot s) lid (ks ++ [k]) (vs ++ [v]))
                (tleaves s) (tcache s) (tnext s) in
  PyInv s' /\ pcontents s' = m_insert (pcontents s) k v /\
  leaves_of (troot s') = front ++ [PLeaf lid c (ks ++ [k]) (vs ++ [v]) NULL].
Proof.
  intros s front lid c ks vs k v I E Hfull Hgt s'.
  pose proof I as [I1 I2 (h & I3) I4 I5 I6 I7 I8 I9].
  assert (Hin : In (PLeaf lid c ks vs NULL) (leaves_of (troot s))).
  { rewrite E. apply in_or_app. right. left. reflexivity. }
  destruct (leaves_of_pshape I3 _ Hin) as (r' & Shl & _).
  destruct (pshape_leaf_inv Shl) as (_ & -> & Lv & _ & _).
  pose proof (@leaves_of_update_last _ _ _ _ _ _ _ (ks ++ [k]) (vs ++ [v]) I5 E) as E'.
  split; [|split].
  - constructor; unfold s'; cbn [tcap troot tleaves tcache tnext]; auto.
    + eapply ord_append_last; eauto. exact Logic.I.
    + exists h. apply pshape_update_leaf; auto.
      * rewrite !app_length. cbn [length]. lia.
      * rewrite app_length. cbn [length]. lia.
      * intros l Hl Hid. rewrite E in Hl.
        assert (l = PLeaf lid (tcap s) ks vs NULL) as ->.
        { apply in_app_or in Hl. destruct Hl as [Hl|[<-|[]]]; [|reflexivity]. exfalso.
          rewrite leaf_ids_leaves, E, map_app in I5. cbn [map pid] in I5.
          apply NoDup_remove_2 in I5. rewrite app_nil_r in I5. apply I5.
          rewrite <- Hid. apply in_map. exact Hl. }
        cbn [pkeys]. rewrite app_length. lia.
    + unfold chain_ok. rewrite leaf_links_update_leaf. exact I4.
    + rewrite leaf_ids_update_leaf. exact I5.
    + unfold ids_below. rewrite leaf_ids_update_leaf. exact I6.
    + rewrite leaf_ids_update_leaf. exact I8.
  - unfold s', pcontents. cbn [troot].
    rewrite (@contents_update_last _ _ _ _ _ _ _ k v I5 E Lv).
    symmetry. apply m_insert_append. exact Hgt.
  - exact E'.
Qed.

Section Bulk.

Hypothesis setitem_spec : forall s k v, PyInv s ->
  exists s', py_setitem s k v = Ok s' /\ PyInv s' /\
    pcontents s' = m_insert (pcontents s) k v /\
    tcap s' = tcap s /\ tleaves s' = tleaves s /\ tcache s' = tcache s /\ (tnext s <= tnext s')%N.
Hypothesis last_leaf_spec : forall s, PyInv s ->
  exists lid c ks vs front,
    last_leaf (chain_fuel s) (troot s) (tleaves s) = Ok lid /\
    leaves_of (troot s) = front ++ [PLeaf lid c ks vs NULL].

(* update(): the fold of __setitem__ *)
Theorem py_update_spec : forall l s, PyInv s ->
  exists s', py_update s l = Ok s' /\ PyInv s' /\
    pcontents s' = m_insert_all (pcontents s) l /\ tcap s' = tcap s.
Proof.
  induction l as [|[k v] l IH]; intros s I; cbn [py_update m_insert_all].
  - exists s. auto.
  - destruct (setitem_spec k v I) as (s1 & E1 & I1 & C1 & K1 & _).
    rewrite E1. cbn [bind]. destruct (IH s1 I1) as (s' & E' & I' & C' & K').
    exists s'. split; [exact E'|]. split; [exact I'|]. split; [|congruence].
    rewrite C', C1. reflexivity.
Qed.

(* _update_rightmost_leaf_cache *)
Lemma update_cache_spec : forall s, PyInv s ->
  exists s', update_rightmost_leaf_cache s = Ok s' /\ BulkInv s' /\
    pcontents s' = pcontents s /\ tcap s' = tcap s.
Proof.
  intros s I. destruct (last_leaf_spec I) as (lid & c & ks & vs & front & E & EL).
  unfold update_rightmost_leaf_cache. rewrite E. cbn [bind].
  eexists. split; [reflexivity|]. split; [|split; reflexivity]. split.
  - apply PyInv_set_cache; [exact I|]. rewrite leaf_ids_leaves, EL, map_app.
    apply in_or_app. right. left. reflexivity.
  - right. exists lid, c, ks, vs, front. cbn [tcache troot]. auto.
Qed.

(* the slow path of _insert_sorted_optimized *)
Lemma slow_path_spec : forall s k v, PyInv s ->
  exists s', (do s1 <- py_setitem s k v; update_rightmost_leaf_cache s1) = Ok s' /\ BulkInv s' /\
    pcontents s' = m_insert (pcontents s) k v /\ tcap s' = tcap s.
Proof.
  intros s k v I. destruct (setitem_spec k v I) as (s1 & E1 & I1 & C1 & K1 & _).
  rewrite E1. cbn [bind]. destruct (update_cache_spec I1) as (s' & E' & B' & C' & K').
  exists s'. split; [exact E'|]. split; [exact B'|]. split; congruence.
Qed.

(* _insert_sorted_optimized *)
Lemma insert_sorted_optimized_spec : forall s k v, BulkInv s ->
  exists s', insert_sorted_optimized s k v = Ok s' /\ BulkInv s' /\
    pcontents s' = m_insert (pcontents s) k v /\ tcap s' = tcap s.
Proof.
  intros s k v [I HC]. unfold insert_sorted_optimized.
  destruct HC as [HC|(lid & c & ks & vs & front & HC & EL)]; rewrite HC.
  - apply slow_path_spec. exact I.
  - pose proof (@find_leaf_at (troot s) front (PLeaf lid c ks vs NULL) [] (pi_nodup I) EL) as EF.
    cbn [pid] in EF. rewrite EF.
    destruct (last_opt ks) as [lastk|] eqn:ELast; [|apply slow_path_spec; exact I].
    destruct (andb (Z.ltb (kz lastk) (kz k)) (negb (py_is_full (PLeaf lid c ks vs NULL)))) eqn:Cond;
      [|apply slow_path_spec; exact I].
    apply andb_true_iff in Cond. destruct Cond as [Clt Cfull].
    apply Z.ltb_lt in Clt. apply negb_true_iff in Cfull.
    unfold py_is_full in Cfull. cbn [pcap pkeys] in Cfull. apply Nat.leb_gt in Cfull.
    (* every key of the map is <= lastk *)
    assert (Hgt : forall e, In e (pcontents s) -> (kz (fst e) < kz k)%Z).
    { destruct (last_opt_some _ ELast) as (ks0 & ->).
      destruct (pi_shape I) as (h & Sh).
      assert (Hin : In (PLeaf lid c (ks0 ++ [lastk]) vs NULL) (leaves_of (troot s))).
      { rewrite EL. apply in_or_app. right. left. reflexivity. }
      destruct (leaves_of_pshape Sh _ Hin) as (r' & Shl & _).
      destruct (pshape_leaf_inv Shl) as (_ & _ & Lv & _ & _).
      rewrite app_length in Lv. cbn [length] in Lv.
      destruct (@snoc_of_length _ vs (length ks0)) as (vs0 & vl & ->); [lia|].
      rewrite app_length in Lv. cbn [length] in Lv.
      pose proof (PyInv_sorted I) as Hs. unfold pcontents in *.
      rewrite (@contents_last_leaf _ _ _ _ _ _ _ EL) in *.
      rewrite combine_snoc in * by lia. rewrite app_assoc in *.
      intros e He. pose proof (m_sorted_last_max _ _ _ Hs e He). lia. }
    destruct (@fast_path_inv s front lid c ks vs k v I EL Cfull Hgt) as (I' & C' & EL').
    rewrite HC in I', C', EL'.
    eexists. split; [reflexivity|]. split; [|split; [exact C'|reflexivity]].
    split; [exact I'|]. right. exists lid, c, (ks ++ [k]), (vs ++ [v]), front.
    split; [reflexivity|exact EL'].
Qed.

(* _bulk_load_sorted *)
Lemma bulk_load_sorted_spec : forall l s, BulkInv s ->
  exists s', bulk_load_sorted s l = Ok s' /\ BulkInv s' /\
    pcontents s' = m_insert_all (pcontents s) l /\ tcap s' = tcap s.
Proof.
  induction l as [|[k v] l IH]; intros s B; cbn [bulk_load_sorted m_insert_all].
  - exists s. auto.
  - destruct (insert_sorted_optimized_spec k v B) as (s1 & E1 & B1 & C1 & K1).
    rewrite E1. cbn [bind]. destruct (IH s1 B1) as (s' & E' & B' & C' & K').
    exists s'. split; [exact E'|]. split; [exact B'|]. split; [|congruence].
    rewrite C', C1. reflexivity.
Qed.

(* from_sorted_items: for every item list *)
Theorem from_sorted_items_spec : forall l c, 4 <= c ->
  exists s, from_sorted_items l c = Ok s /\ PyInv s /\ tcap s = c /\
    pcontents s = m_insert_all [] l.
Proof.
  intros l c Hc. destruct (py_new_spec Hc) as (s0 & E0 & I0 & K0 & C0 & H0).
  unfold from_sorted_items. rewrite E0. cbn [bind].
  destruct (@bulk_load_sorted_spec l s0) as (s & E & [I _] & C & K).
  { split; [exact I0|left; exact H0]. }
  exists s. split; [exact E|]. split; [exact I|]. split; [congruence|].
  rewrite C, C0. reflexivity.
Qed.

Theorem from_sorted_items_sorted_spec : forall l c, sorted_pairs l -> 4 <= c ->
  exists s, from_sorted_items l c = Ok s /\ PyInv s /\ tcap s = c /\
    pcontents s = m_insert_all [] l.
Proof. intros l c _ Hc. apply from_sorted_items_spec. exact Hc. Qed.

Theorem bulk_equals_incremental : forall l c, 4 <= c ->
  exists sb si, from_sorted_items l c = Ok sb /\
    (do s0 <- py_new c; py_update s0 l) = Ok si /\
    PyInv sb /\ PyInv si /\ pcontents sb = pcontents si.
Proof.
  intros l c Hc. destruct (from_sorted_items_spec l Hc) as (sb & Eb & Ib & _ & Cb).
  destruct (py_new_spec Hc) as (s0 & E0 & I0 & K0 & C0 & H0).
  destruct (py_update_spec l I0) as (si & Ei & Ii & Ci & _).
  exists sb, si. rewrite E0. cbn [bind].
  split; [exact Eb|]. split; [exact Ei|]. split; [exact Ib|]. split; [exact Ii|].
  rewrite Cb, Ci, C0. reflexivity.
Qed.

End Bulk.

Theorem from_sorted_items_rejects : forall l c, c < 4 -> from_sorted_items l c = Panic E_InvalidCapacity.
Proof. intros l c Hc. unfold from_sorted_items. rewrite (py_new_rejects Hc). reflexivity. Qed.

(* ------------------------------------------------------------------ *)
(* non-vacuity: 25 sorted pairs with repeated keys and None values, capacity 4 *)
Definition bulk_example_items : list (key * pyval) :=
  [(mkKey 1 1, PVal 10); (mkKey 2 2, PNone); (mkKey 2 3, PVal 11); (mkKey 3 4, PVal 12);
   (mkKey 5 5, PVal 13); (mkKey 5 6, PNone); (mkKey 5 7, PVal 14); (mkKey 8 8, PVal 15);
   (mkKey 9 9, PNone); (mkKey 10 10, PVal 16); (mkKey 12 11, PVal 17); (mkKey 13 12, PVal 18);
   (mkKey 13 13, PVal 19); (mkKey 15 14, PNone); (mkKey 16 15, PVal 20); (mkKey 17 16, PVal 21);
   (mkKey 18 17, PVal 22); (mkKey 20 18, PVal 23); (mkKey 21 19, PNone); (mkKey 21 20, PNone);
   (mkKey 22 21, PVal 24); (mkKey 25 22, PVal 25); (mkKey 26 23, PVal 26); (mkKey 27 24, PVal 27);
   (mkKey 30 25, PNone)]%Z.

Example bulk_example_sorted : sorted_pairs bulk_example_items.
Proof. cbn. repeat split; lia. Qed.

Example bulk_example :
  match from_sorted_items bulk_example_items 4 with
  | Ok s => pcontents s = m_insert_all [] bulk_example_items /\
            length (pcontents s) = 20 /\ height (troot s) = 2 /\
            tcache s = Some 12%N /\ count_leaves (troot s) = 9
  | _ => False
  end.
Proof. vm_compute. repeat split; reflexivity. Qed.
