(* General facts about [pshape] and [ord] on the Python model's trees (adapted from
   Rust/TreeFactsI.v, whose versions are tied to the Rust occupancy rule). *)
From Coq Require Import List Arith ZArith NArith Lia Bool.
From BPT Require Import Common.Base Common.AMap Rust.Tree Rust.Readers Rust.InvDefs Rust.Lib
  Rust.TreeFactsI Py.Tree Py.Inv.
Import ListNotations.
Set Implicit Arguments.

Lemma pmin_facts : forall c, 4 <= c ->
  1 <= (c - 1) / 2 /\ 2 * ((c - 1) / 2) <= c - 1 /\ c - 2 <= 2 * ((c - 1) / 2) /\
  (c - 1) / 2 <= c / 2 /\ (c - 1) / 2 < c.
Proof.
  intros c H. pose proof (Nat.div_mod (c - 1) 2). pose proof (Nat.mod_upper_bound (c - 1) 2).
  pose proof (Nat.div_mod c 2). pose proof (Nat.mod_upper_bound c 2). lia.
Qed.

Lemma pshape_leaf_inv : forall c r h id nc ks vs nx, pshape c r h (PLeaf id nc ks vs nx) ->
  h = 0 /\ nc = c /\ length vs = length ks /\ length ks <= c /\
  (r = false -> (c - 1) / 2 <= length ks).
Proof. intros. inversion H; subst. auto. Qed.

Lemma pshape_branch_inv : forall c r h id nc ks cs, pshape c r h (PBranch id nc ks cs) ->
  exists h', h = S h' /\ nc = c /\ length cs = S (length ks) /\ length ks <= c /\
    (r = false -> (c - 1) / 2 <= length ks) /\ (r = true -> 1 <= length ks) /\
    (forall ch, In ch cs -> pshape c false h' ch).
Proof. intros. inversion H; subst. eexists; repeat split; eauto. Qed.

Lemma pshape_0_leaf : forall c r t, pshape c r 0 t -> exists id ks vs nx, t = PLeaf id c ks vs nx.
Proof. intros. inversion H; subst. eauto. Qed.

Lemma pshape_S_branch : forall c r h t, pshape c r (S h) t -> exists id ks cs, t = PBranch id c ks cs.
Proof. intros. inversion H; subst. eauto. Qed.

Lemma pshape_root_relax : forall c r h t, 4 <= c -> pshape c false h t -> pshape c r h t.
Proof.
  intros c r h t Hc H. pose proof (pmin_facts Hc) as (M1 & _).
  inversion H; subst; constructor; auto. intros _. specialize (H2 eq_refl). lia.
Qed.

Lemma pshape_height : forall c r h t, pshape c r h t -> height t = h.
Proof.
  induction 1 as [r id ks vs nx | r h id ks cs L1 L2 L3 L4 Hc IH]; [reflexivity|].
  cbn [height]. f_equal. apply list_max_const.
  - destruct cs; cbn in L1; [lia|discriminate].
  - intros x Hx. apply in_map_iff in Hx. destruct Hx as (ch & <- & Hch). auto.
Qed.

Lemma p_ord_contents_bounds : forall lo hi (t : ptree), ord lo hi t ->
  forall c r h, pshape c r h t ->
  Forall (fun e => in_bounds lo hi (fst e)) (contents t).
Proof.
  induction 1 as [lo hi id c ks vs nx Hs F | lo hi id c ks cs Hs F Hc IH]; intros c0 r h Sh.
  - cbn [contents]. apply Forall_forall. intros [k v] Hin. apply in_combine_l in Hin.
    rewrite Forall_forall in F. cbn. auto.
  - destruct (pshape_branch_inv Sh) as (h' & -> & -> & Lc & _ & _ & _ & Hsh).
    cbn [contents]. apply Forall_forall. intros e Hin.
    apply in_flat_map in Hin. destruct Hin as (ch & Hch & He).
    pose proof Hch as Hch'. apply In_nth_error in Hch'. destruct Hch' as (i & Hi).
    assert (Hle : i <= length ks).
    { assert (i < length cs) by (apply nth_error_Some; congruence). lia. }
    pose proof (IH i ch Hi _ _ _ (Hsh ch Hch)) as B.
    rewrite Forall_forall in B. specialize (B e He).
    destruct (@child_bounds_within ks lo hi i F Hle).
    eapply in_bounds_widen; eauto.
Qed.

Lemma p_contents_sorted : forall c r h lo hi (t : ptree),
  ord lo hi t -> pshape c r h t -> m_sorted (contents t).
Proof.
  intros c r h lo hi t O. revert c r h.
  induction O as [lo hi id c ks vs nx Hs F | lo hi id c ks cs Hs F Hc IH]; intros c0 r h Sh.
  - destruct (pshape_leaf_inv Sh) as (_ & _ & Lv & _). unfold m_sorted. cbn [contents].
    rewrite map_fst_combine; auto.
  - destruct (pshape_branch_inv Sh) as (h' & -> & -> & Lc & _ & _ & _ & Hsh).
    unfold m_sorted, sorted_keys. cbn [contents].
    rewrite flat_map_concat_map. rewrite !concat_map. rewrite !map_map.
    apply sorted_z_concat.
    + intros l Hl. apply in_map_iff in Hl. destruct Hl as (ch & <- & Hch).
      pose proof Hch as Hch'. apply In_nth_error in Hch'. destruct Hch' as (i & Hi).
      exact (IH i ch Hi _ _ _ (Hsh ch Hch)).
    + intros i j li lj Hij Hi Hj a b Ha Hb.
      rewrite nth_error_map in Hi, Hj.
      destruct (nth_error cs i) as [ci|] eqn:Eci; [|discriminate].
      destruct (nth_error cs j) as [cj|] eqn:Ecj; [|discriminate].
      cbn in Hi, Hj. inversion Hi; inversion Hj; subst li lj. clear Hi Hj.
      apply in_map_iff in Ha. destruct Ha as (ka & <- & Ha).
      apply in_map_iff in Ha. destruct Ha as (ea & <- & Ha).
      apply in_map_iff in Hb. destruct Hb as (kb & <- & Hb).
      apply in_map_iff in Hb. destruct Hb as (eb & <- & Hb).
      assert (Hjl : j < length cs) by (apply nth_error_Some; congruence).
      pose proof (p_ord_contents_bounds (Hc i ci Eci) (Hsh ci (nth_error_In _ _ Eci))) as Bi.
      pose proof (p_ord_contents_bounds (Hc j cj Ecj) (Hsh cj (nth_error_In _ _ Ecj))) as Bj.
      rewrite Forall_forall in Bi, Bj. specialize (Bi ea Ha). specialize (Bj eb Hb).
      destruct Bi as [_ Bi]. destruct Bj as [Bj _].
      unfold child_bounds in Bi, Bj. cbn [fst snd] in Bi, Bj.
      destruct (Nat.eqb_spec i (length ks)); [lia|].
      destruct (Nat.eqb_spec j 0); [lia|].
      destruct (nth_error ks i) as [ki|] eqn:Eki; [|apply nth_error_None in Eki; lia].
      destruct (nth_error ks (j - 1)) as [kj|] eqn:Ekj; [|apply nth_error_None in Ekj; lia].
      cbn in Bi, Bj.
      assert (kz ki <= kz kj)%Z by (apply (@sorted_keys_nth_le ks i (j - 1) ki kj); auto; lia).
      lia.
Qed.

(* entries left of the child chosen by [child_index] are smaller than z, entries right of
   it are greater *)
Lemma p_branch_contents_split : forall lo hi id c ks (cs : list ptree) cc r h z,
  ord lo hi (PBranch id c ks cs) -> pshape cc r h (PBranch id c ks cs) ->
  (forall e, In e (flat_map (@contents pyval) (firstn (child_index ks z) cs)) -> (kz (fst e) < z)%Z) /\
  (forall e, In e (flat_map (@contents pyval) (skipn (S (child_index ks z)) cs)) -> (z < kz (fst e))%Z).
Proof.
  intros lo hi id c ks cs cc r h z O Sh.
  destruct (ord_branch_inv O) as (Hs & F & Hc).
  destruct (pshape_branch_inv Sh) as (h' & -> & -> & Lc & _ & _ & _ & Hsh).
  pose proof (child_index_le_length ks z) as Hci.
  set (ci := child_index ks z) in *.
  split; intros e He; apply in_flat_map in He; destruct He as (ch & Hch & He);
    apply In_nth_error in Hch; destruct Hch as (j & Hj).
  - assert (j < ci).
    { destruct (Nat.lt_ge_cases j ci); auto. rewrite nth_error_firstn_ge in Hj by auto. discriminate. }
    rewrite nth_error_firstn_lt in Hj by auto.
    pose proof (p_ord_contents_bounds (Hc j ch Hj) (Hsh ch (nth_error_In _ _ Hj))) as B.
    rewrite Forall_forall in B. destruct (B e He) as [_ B2].
    unfold child_bounds in B2. cbn [snd] in B2.
    destruct (Nat.eqb_spec j (length ks)); [lia|].
    destruct (nth_error ks j) as [kj|] eqn:Ek; [|apply nth_error_None in Ek; lia].
    cbn in B2. assert (kz kj <= z)%Z; [|lia].
    apply (@child_index_firstn_le ks z kj Hs). apply nth_error_In with j.
    rewrite nth_error_firstn_lt; auto.
  - rewrite nth_error_skipn_add in Hj.
    assert (S ci + j < length cs) by (apply nth_error_Some; congruence).
    pose proof (p_ord_contents_bounds (Hc _ ch Hj) (Hsh ch (nth_error_In _ _ Hj))) as B.
    rewrite Forall_forall in B. destruct (B e He) as [B1 _].
    unfold child_bounds in B1. cbn [fst] in B1.
    destruct (Nat.eqb_spec (S ci + j) 0); [lia|].
    replace (S ci + j - 1) with (ci + j) in B1 by lia.
    destruct (nth_error ks (ci + j)) as [kj|] eqn:Ek; [|apply nth_error_None in Ek; lia].
    cbn in B1. assert (z < kz kj)%Z; [|lia].
    apply (@child_index_skipn_gt ks z kj Hs). apply nth_error_In with j.
    rewrite nth_error_skipn_add; auto.
Qed.

(* find_child_index succeeds on a well-shaped branch and equals [child_index] *)
Lemma find_child_index_ok : forall ks (cs : list ptree) z, length cs = S (length ks) ->
  find_child_index ks cs z = Ok (child_index ks z).
Proof.
  intros ks cs z L. unfold find_child_index. rewrite L.
  cbn [Nat.eqb]. replace (S (length ks) - 1) with (length ks) by lia.
  rewrite Nat.eqb_refl. cbn [negb].
  pose proof (child_index_le_length ks z).
  destruct (Nat.leb_spec (S (length ks)) (child_index ks z)); [lia|reflexivity].
Qed.

(* next_after *)
Lemma next_after_gt : forall n, (n < next_after n)%N.
Proof. intros n. unfold next_after. destruct (N.eqb_spec (N.succ n) NULL); lia. Qed.

Lemma next_after_not_null : forall n, next_after n <> NULL.
Proof.
  intros n. unfold next_after. destruct (N.eqb_spec (N.succ n) NULL) as [E|E]; [|exact E].
  rewrite E. unfold NULL. lia.
Qed.

(* the state invariant gives sorted contents *)
Lemma PyInv_sorted : forall s, PyInv s -> m_sorted (pcontents s).
Proof.
  intros s I. destruct (pi_shape I) as (h & Sh). unfold pcontents.
  eapply p_contents_sorted; [apply (pi_ord I)|exact Sh].
Qed.
