(* Local (non-recursive) lemmas for the proof that the Python model's __delitem__
   preserves the invariant: what _redistribute_from_right / _redistribute_from_left /
   _merge_with_sibling / _handle_underflow compute on a parent's (keys, children) and
   that the result re-establishes order, shape, contents and the leaf chain.
   Adapted from Rust/RemoveLocal.v (whose ord-only lemmas are reused). *)
From Coq Require Import List Arith ZArith NArith Lia Bool.
From BPT Require Import Common.Base Common.AMap Rust.Tree Rust.Readers Rust.InvDefs Rust.Lib
  Rust.TreeFactsR Rust.RemoveLocal Py.Tree Py.Inv Py.Facts.
Import ListNotations.

Notation CT := (flat_map (@contents pyval)).
Notation LL := (flat_map (@leaf_links pyval)).

Ltac ltb_true H := rewrite (proj2 (Nat.ltb_lt _ _) H).
Ltac ltb_false H := rewrite (proj2 (Nat.ltb_ge _ _) H).
Ltac leb_true H := rewrite (proj2 (Nat.leb_le _ _) H).

(* ------------------------------------------------------------------ *)
(* removal of leaves from the chain: [links_del L L'] = L' is obtained from L by
   repeatedly dropping an entry (b, n2) that has a left neighbour (a, n1), which
   inherits its link: (a, n1) :: (b, n2)  ~~>  (a, n2).  (A merge keeps the LEFT
   node.)  At most one such step happens per deletion, but the closure is what
   composes. *)
Inductive links_del : list (N * N) -> list (N * N) -> Prop :=
| ld_refl : forall L, links_del L L
| ld_step : forall pre a n1 b n2 post L',
    links_del (pre ++ (a, n2) :: post) L' ->
    links_del (pre ++ (a, n1) :: (b, n2) :: post) L'.

Lemma links_del_one : forall pre a n1 b n2 post,
  links_del (pre ++ (a, n1) :: (b, n2) :: post) (pre ++ (a, n2) :: post).
Proof. intros. apply ld_step. apply ld_refl. Qed.

Lemma links_del_trans : forall L1 L2 L3, links_del L1 L2 -> links_del L2 L3 -> links_del L1 L3.
Proof. induction 1; intros; auto. apply ld_step. auto. Qed.

Lemma links_del_frame : forall L L' A B, links_del L L' -> links_del (A ++ L ++ B) (A ++ L' ++ B).
Proof.
  intros L L' A B H. induction H.
  - apply ld_refl.
  - replace (A ++ (pre ++ (a, n1) :: (b, n2) :: post) ++ B)
      with ((A ++ pre) ++ (a, n1) :: (b, n2) :: (post ++ B))
      by (repeat rewrite <- app_assoc; reflexivity).
    apply ld_step.
    replace ((A ++ pre) ++ (a, n2) :: post ++ B) with (A ++ (pre ++ (a, n2) :: post) ++ B)
      by (repeat rewrite <- app_assoc; reflexivity).
    exact IHlinks_del.
Qed.

Lemma links_del_ok : forall L L' after, links_del L L' -> links_ok L after -> links_ok L' after.
Proof.
  intros L L' after H. induction H; intros K; auto.
  apply IHlinks_del. eapply links_merge; eauto.
Qed.

Lemma links_del_in : forall L L' x, links_del L L' -> In x (map fst L') -> In x (map fst L).
Proof.
  intros L L' x H. induction H; intros I; auto.
  specialize (IHlinks_del I). rewrite map_app in *. cbn [map fst] in *.
  apply in_app_or in IHlinks_del. apply in_or_app.
  destruct IHlinks_del as [I1|[I1|I1]]; [left; auto|right; left; auto|right; right; right; auto].
Qed.

Lemma links_del_nodup : forall L L', links_del L L' -> NoDup (map fst L) -> NoDup (map fst L').
Proof.
  intros L L' H. induction H; intros K; auto.
  apply IHlinks_del. rewrite map_app in *. cbn [map fst] in *.
  assert (K' : NoDup ((map fst pre ++ [a]) ++ b :: map fst post))
    by (rewrite <- app_assoc; exact K).
  apply NoDup_remove_1 in K'. rewrite <- app_assoc in K'. exact K'.
Qed.

Lemma links_del_hd : forall L L', links_del L L' -> hd_error (map fst L') = hd_error (map fst L).
Proof.
  intros L L' H. induction H; auto.
  rewrite IHlinks_del. destruct pre as [|[p q] pre]; reflexivity.
Qed.

(* ------------------------------------------------------------------ *)
(* shape: helpers *)

(* a non-root node one key short of the minimum, with well-shaped children *)
Inductive pshape_u (c : nat) : nat -> ptree -> Prop :=
| pshape_u_leaf : forall id ks vs nx,
    length vs = length ks -> S (length ks) = (c - 1) / 2 ->
    pshape_u c 0 (PLeaf id c ks vs nx)
| pshape_u_branch : forall h id ks cs,
    length cs = S (length ks) -> S (length ks) = (c - 1) / 2 ->
    Forall (pshape c false h) cs ->
    pshape_u c (S h) (PBranch id c ks cs).

Lemma pshape_branch_intro : forall c r h id ks (cs : list ptree),
  length cs = S (length ks) -> length ks <= c ->
  (r = false -> (c - 1) / 2 <= length ks) -> (r = true -> 1 <= length ks) ->
  Forall (pshape c false h) cs ->
  pshape c r (S h) (PBranch id c ks cs).
Proof. intros. constructor; auto. apply Forall_forall. auto. Qed.

Lemma pshape_branch_invF : forall c r h id c' ks (cs : list ptree), pshape c r h (PBranch id c' ks cs) ->
  exists h', h = S h' /\ c' = c /\ length cs = S (length ks) /\ length ks <= c /\
    (r = false -> (c - 1) / 2 <= length ks) /\ (r = true -> 1 <= length ks) /\
    Forall (pshape c false h') cs.
Proof.
  intros. inversion H; subst. exists h0. repeat split; auto. apply Forall_forall. auto.
Qed.

Lemma p_ord_witness : forall c h lo hi (t : ptree), 4 <= c -> pshape c false h t -> ord lo hi t ->
  exists k, in_bounds lo hi k.
Proof.
  intros c h lo hi t C S O. pose proof (pmin_facts C) as PM. inversion S; subst.
  - apply ord_leaf_inv in O. destruct O as [_ F]. specialize (H1 eq_refl).
    destruct ks; [cbn [length] in H1; lia|]. inversion F; subst. eauto.
  - specialize (H1 eq_refl). apply ord_branch_inv in O; auto. destruct O as (_ & F & _).
    destruct ks; [cbn [length] in H1; lia|]. inversion F; subst. eauto.
Qed.

Lemma p_ord_strict : forall c h a b (t : ptree), 4 <= c -> pshape c false h t ->
  ord (Some a) (Some b) t -> (a < b)%Z.
Proof.
  intros c h a b t C S O. destruct (p_ord_witness c h _ _ t C S O) as [k [K1 K2]]. simpl in *. lia.
Qed.

(* ------------------------------------------------------------------ *)
(* order for a pair of adjacent branch children (pshape versions of RemoveLocal's) *)
Section Pairs.
Open Scope Z_scope.

Lemma p_sep_lt_keys : forall c h s ub yks (ycs : list ptree), (4 <= c)%nat ->
  ords (Some s) ub yks ycs -> Forall (pshape c false h) ycs -> sorted_keys yks ->
  forall k, In k yks -> s < kz k.
Proof.
  intros * C O F S k I. destruct yks as [|k0 yks]; [destruct I|].
  destruct ycs as [|c0 ycs]; [simpl in O; tauto|].
  apply ords_cons_inv in O. simpl in O. inversion F; subst.
  pose proof (p_ord_strict _ _ _ _ _ C H1 O) as L.
  destruct I as [<-|I]; auto.
  apply sorted_keys_cons in S. destruct S as [_ S]. specialize (S k I). lia.
Qed.

Lemma p_pair_branch_borrow_left : forall c0 h a ub sep xid c xks' mk (xcs' : list ptree) mc yid c' yks ycs,
  (4 <= c0)%nat ->
  ord a (Some (kz sep)) (PBranch xid c (xks' ++ [mk]) (xcs' ++ [mc])) ->
  length (xcs' ++ [mc]) = S (length (xks' ++ [mk])) ->
  ord (Some (kz sep)) ub (PBranch yid c' yks ycs) -> length ycs = S (length yks) ->
  Forall (pshape c0 false h) ycs ->
  hi_ok ub (kz sep) -> xks' <> [] ->
  ord a (Some (kz mk)) (PBranch xid c xks' xcs') /\
  ord (Some (kz mk)) ub (PBranch yid c' (sep :: yks) (mc :: ycs)) /\
  gt_lo a (kz mk) /\ hi_ok ub (kz mk).
Proof.
  intros * C Ox Lx Oy Ly Fs Hs Ne.
  apply ord_branch_inv in Ox; auto. destruct Ox as (Sx & Fx & Cx).
  apply ord_branch_inv in Oy; auto. destruct Oy as (Sy & Fy & Cy).
  apply sorted_keys_snoc in Sx. destruct Sx as [Sx Lk].
  apply Forall_app in Fx. destruct Fx as [Fx Fk]. inversion Fk as [|? ? [Bk1 Bk2] _]; subst.
  apply ords_snoc in Cx. destruct Cx as [Cx Cm].
  pose proof (p_sep_lt_keys _ _ _ _ _ _ C Cy Fs Sy) as Lsep.
  rewrite Forall_forall in Fx, Fy. simpl in Bk2.
  assert (Hk : hi_ok ub (kz mk)) by (eapply hi_ok_le; eauto; lia).
  repeat split; auto.
  - apply ord_branch_intro; auto.
    apply Forall_forall. intros e Ie. split; [apply Fx; auto|simpl; auto].
  - apply ord_branch_intro.
    + apply sorted_keys_cons. split; auto.
    + constructor.
      * split; simpl; auto. lia.
      * apply Forall_forall. intros b Ib. destruct (Fy b Ib) as [B B']. split; auto. simpl in *. lia.
    + simpl. split; auto.
  - destruct xks' as [|e r]; [congruence|].
    eapply lo_ok_lt_gt; [apply (Fx e); left; auto|apply Lk; left; auto].
Qed.

Lemma p_pair_branch_borrow_right : forall c0 h a ub sep xid c xks (xcs : list ptree) yid c' mk yks' mc ycs',
  (4 <= c0)%nat ->
  ord a (Some (kz sep)) (PBranch xid c xks xcs) -> length xcs = S (length xks) ->
  ord (Some (kz sep)) ub (PBranch yid c' (mk :: yks') (mc :: ycs')) ->
  length (mc :: ycs') = S (length (mk :: yks')) ->
  pshape c0 false h mc ->
  lo_ok a (kz sep) ->
  ord a (Some (kz mk)) (PBranch xid c (xks ++ [sep]) (xcs ++ [mc])) /\
  ord (Some (kz mk)) ub (PBranch yid c' yks' ycs') /\
  gt_lo a (kz mk) /\ hi_ok ub (kz mk).
Proof.
  intros * C Ox Lx Oy Ly Sm Hs.
  apply ord_branch_inv in Ox; auto. destruct Ox as (Sx & Fx & Cx).
  apply ord_branch_inv in Oy; auto. destruct Oy as (Sy & Fy & Cy).
  apply sorted_keys_cons in Sy. destruct Sy as [Sy Lk].
  inversion Fy as [|? ? [Bk1 Bk2] Fy']; subst.
  simpl in Cy. destruct Cy as [Cm Cy].
  pose proof (p_ord_strict _ _ _ _ _ C Sm Cm) as Lsm.
  rewrite Forall_forall in Fx, Fy'.
  repeat split; auto.
  - apply ord_branch_intro.
    + apply sorted_keys_snoc. split; auto. intros e Ie. destruct (Fx e Ie) as [_ B]. simpl in B. auto.
    + apply Forall_app. split.
      * apply Forall_forall. intros e Ie. destruct (Fx e Ie) as [B B']. split; auto. simpl in *. lia.
      * constructor; auto. split; simpl; auto.
    + apply ords_snoc. split; auto.
  - apply ord_branch_intro; auto.
    apply Forall_forall. intros b Ib. destruct (Fy' b Ib) as [_ B']. split; auto. simpl.
    specialize (Lk b Ib). lia.
  - eapply lo_ok_lt_gt; eauto.
Qed.

Lemma p_pair_branch_merge : forall c0 h a ub sep xid c xks (xcs : list ptree) yid c' yks ycs,
  (4 <= c0)%nat ->
  ord a (Some (kz sep)) (PBranch xid c xks xcs) -> length xcs = S (length xks) ->
  ord (Some (kz sep)) ub (PBranch yid c' yks ycs) -> length ycs = S (length yks) ->
  Forall (pshape c0 false h) ycs ->
  lo_ok a (kz sep) -> hi_ok ub (kz sep) ->
  ord a ub (PBranch xid c (xks ++ sep :: yks) (xcs ++ ycs)).
Proof.
  intros * C Ox Lx Oy Ly Fs Hl Hh.
  apply ord_branch_inv in Ox; auto. destruct Ox as (Sx & Fx & Cx).
  apply ord_branch_inv in Oy; auto. destruct Oy as (Sy & Fy & Cy).
  pose proof (p_sep_lt_keys _ _ _ _ _ _ C Cy Fs Sy) as Lsep.
  rewrite Forall_forall in Fx, Fy.
  apply ord_branch_intro.
  - apply sorted_keys_app. split; [auto|split].
    + apply sorted_keys_cons. split; auto.
    + intros e b Ie Ib. destruct (Fx e Ie) as [_ B]. simpl in B.
      destruct Ib as [<-|Ib]; auto. specialize (Lsep b Ib). lia.
  - apply Forall_app. split; [|constructor]; try apply Forall_forall.
    + intros e Ie. destruct (Fx e Ie) as [B B']. split; auto. simpl in B'. eapply hi_ok_le; eauto. lia.
    + split; auto.
    + intros b Ib. destruct (Fy b Ib) as [B B']. split; auto. simpl in B. eapply lo_ok_le; eauto.
  - eapply ords_join; eauto.
Qed.

End Pairs.

(* ------------------------------------------------------------------ *)
(* lifting a repaired pair to the parent *)
Definition pbody (c : nat) (lo hi : option Z) (h : nat) (ks : list key) (cs : list ptree) : Prop :=
  sorted_keys ks /\ Forall (in_bounds lo hi) ks /\ ords lo hi ks cs /\ Forall (pshape c false h) cs.

Lemma p_lift_borrow_body : forall c lo hi h ks1 sep ks2 (cs1 : list ptree) x y cs2 sep' x' y',
  length cs1 = length ks1 ->
  sorted_keys (ks1 ++ sep :: ks2) -> Forall (in_bounds lo hi) (ks1 ++ sep :: ks2) ->
  ords lo hi (ks1 ++ sep :: ks2) (cs1 ++ x :: y :: cs2) ->
  Forall (pshape c false h) cs1 -> Forall (pshape c false h) cs2 ->
  ord (lastb lo ks1) (Some (kz sep')) x' -> ord (Some (kz sep')) (firstb hi ks2) y' ->
  gt_lo (lastb lo ks1) (kz sep') -> hi_ok (firstb hi ks2) (kz sep') ->
  pshape c false h x' -> pshape c false h y' ->
  pbody c lo hi h (ks1 ++ sep' :: ks2) (cs1 ++ x' :: y' :: cs2).
Proof.
  intros * L S F O F1 F2 Ox Oy G H Sx Sy.
  destruct (zip_ctx _ _ _ _ _ _ _ _ _ _ L O) as (O1 & _ & O3 & _).
  destruct (lift_keys_borrow _ _ _ _ _ _ S F G H) as [S' F'].
  split; [auto|split; [auto|split]].
  - apply ords_app; auto. split; auto. simpl. split; auto.
    eapply ords_cons_change; eauto.
  - apply Forall_app. split; auto.
Qed.

Lemma p_lift_merge_body : forall c lo hi h ks1 sep ks2 (cs1 : list ptree) x y cs2 m,
  length cs1 = length ks1 ->
  sorted_keys (ks1 ++ sep :: ks2) -> Forall (in_bounds lo hi) (ks1 ++ sep :: ks2) ->
  ords lo hi (ks1 ++ sep :: ks2) (cs1 ++ x :: y :: cs2) ->
  Forall (pshape c false h) cs1 -> Forall (pshape c false h) cs2 ->
  ord (lastb lo ks1) (firstb hi ks2) m -> pshape c false h m ->
  pbody c lo hi h (ks1 ++ ks2) (cs1 ++ m :: cs2).
Proof.
  intros * L S F O F1 F2 Om Sm.
  destruct (zip_ctx _ _ _ _ _ _ _ _ _ _ L O) as (O1 & _ & O3 & _).
  destruct (lift_keys_merge _ _ _ _ _ S F) as [S' F'].
  split; [auto|split; [auto|split]].
  - apply ords_app; auto. split; auto. eapply ords_cons_change; eauto.
  - apply Forall_app. split; auto.
Qed.

(* ------------------------------------------------------------------ *)
(* what the code computes (zipper form) *)

Lemma exec_right_leaf : forall ks1 sep ks2 (cs1 cs2 : list ptree) cid cc cks cvs cnx rid rc k s rks v rvs rnx,
  length cs1 = length ks1 ->
  (rc - 1) / 2 < length (k :: s :: rks) ->
  redistribute_from_right (ks1 ++ sep :: ks2)
    (cs1 ++ PLeaf cid cc cks cvs cnx :: PLeaf rid rc (k :: s :: rks) (v :: rvs) rnx :: cs2) (length cs1)
  = Ok (ks1 ++ s :: ks2,
        cs1 ++ PLeaf cid cc (cks ++ [k]) (cvs ++ [v]) cnx :: PLeaf rid rc (s :: rks) rvs rnx :: cs2).
Proof.
  intros * L D. unfold redistribute_from_right.
  rewrite (vec_get_ok _ _ _ (nth_error_zip0 _ _ _)). cbn [bind].
  rewrite (vec_get_ok _ _ _ (nth_error_zip1 _ _ _ _)). cbn [bind].
  unfold py_can_donate, min_keys. cbn [pcap pkeys]. ltb_true D. cbn [negb].
  rewrite vec_set_ok by (rewrite app_length; cbn [length]; lia). cbn [bind].
  rewrite (set_nth_zip0' _ _ _ _ _ _ L), set_nth_zip0, set_nth_zip1. reflexivity.
Qed.

Lemma exec_right_branch : forall ks1 sep ks2 (cs1 cs2 : list ptree) cid cc cks ccs rid rc k0 rks c0 rcs,
  length cs1 = length ks1 ->
  (rc - 1) / 2 < length (k0 :: rks) ->
  redistribute_from_right (ks1 ++ sep :: ks2)
    (cs1 ++ PBranch cid cc cks ccs :: PBranch rid rc (k0 :: rks) (c0 :: rcs) :: cs2) (length cs1)
  = Ok (ks1 ++ k0 :: ks2,
        cs1 ++ PBranch cid cc (cks ++ [sep]) (ccs ++ [c0]) :: PBranch rid rc rks rcs :: cs2).
Proof.
  intros * L D. unfold redistribute_from_right.
  rewrite (vec_get_ok _ _ _ (nth_error_zip0 _ _ _)). cbn [bind].
  rewrite (vec_get_ok _ _ _ (nth_error_zip1 _ _ _ _)). cbn [bind].
  rewrite (vec_get_ok _ _ _ (nth_error_zip0' _ _ _ _ _ L)). cbn [bind].
  unfold py_can_donate, min_keys. cbn [pcap pkeys]. ltb_true D. cbn [negb].
  rewrite vec_set_ok by (rewrite app_length; cbn [length]; lia). cbn [bind].
  rewrite (set_nth_zip0' _ _ _ _ _ _ L), set_nth_zip0, set_nth_zip1. reflexivity.
Qed.

Lemma exec_left_leaf : forall ks1 sep ks2 (cs1 cs2 : list ptree) lid lc lks k lvs v lnx cid cc cks cvs cnx,
  length cs1 = length ks1 ->
  (lc - 1) / 2 < length (lks ++ [k]) ->
  redistribute_from_left (ks1 ++ sep :: ks2)
    (cs1 ++ PLeaf lid lc (lks ++ [k]) (lvs ++ [v]) lnx :: PLeaf cid cc cks cvs cnx :: cs2) (S (length cs1))
  = Ok (ks1 ++ k :: ks2,
        cs1 ++ PLeaf lid lc lks lvs lnx :: PLeaf cid cc (k :: cks) (v :: cvs) cnx :: cs2).
Proof.
  intros * L D. unfold redistribute_from_left.
  replace (S (length cs1) - 1) with (length cs1) by lia.
  rewrite (vec_get_ok _ _ _ (nth_error_zip1 _ _ _ _)). cbn [bind].
  rewrite (vec_get_ok _ _ _ (nth_error_zip0 _ _ _)). cbn [bind].
  unfold py_can_donate, min_keys. cbn [pcap pkeys]. ltb_true D. cbn [negb].
  rewrite !vec_pop_app.
  rewrite vec_set_ok by (rewrite app_length; cbn [length]; lia). cbn [bind].
  rewrite (set_nth_zip0' _ _ _ _ _ _ L), set_nth_zip0, set_nth_zip1. reflexivity.
Qed.

Lemma exec_left_branch : forall ks1 sep ks2 (cs1 cs2 : list ptree) lid lc lks k0 lcs c0 cid cc cks ccs,
  length cs1 = length ks1 ->
  (lc - 1) / 2 < length (lks ++ [k0]) ->
  redistribute_from_left (ks1 ++ sep :: ks2)
    (cs1 ++ PBranch lid lc (lks ++ [k0]) (lcs ++ [c0]) :: PBranch cid cc cks ccs :: cs2) (S (length cs1))
  = Ok (ks1 ++ k0 :: ks2,
        cs1 ++ PBranch lid lc lks lcs :: PBranch cid cc (sep :: cks) (c0 :: ccs) :: cs2).
Proof.
  intros * L D. unfold redistribute_from_left.
  replace (S (length cs1) - 1) with (length cs1) by lia.
  rewrite (vec_get_ok _ _ _ (nth_error_zip1 _ _ _ _)). cbn [bind].
  rewrite (vec_get_ok _ _ _ (nth_error_zip0 _ _ _)). cbn [bind].
  rewrite (vec_get_ok _ _ _ (nth_error_zip0' _ _ _ _ _ L)). cbn [bind].
  unfold py_can_donate, min_keys. cbn [pcap pkeys]. ltb_true D. cbn [negb].
  rewrite !vec_pop_app.
  rewrite vec_set_ok by (rewrite app_length; cbn [length]; lia). cbn [bind].
  rewrite (set_nth_zip0' _ _ _ _ _ _ L), set_nth_zip0, set_nth_zip1. reflexivity.
Qed.

Lemma exec_merge_leaf : forall cap ks1 sep ks2 (cs1 cs2 : list ptree) aid ac aks avs anx bid bc bks bvs bnx,
  length cs1 = length ks1 -> length aks + length bks <= cap ->
  merge_pair cap (ks1 ++ sep :: ks2)
    (cs1 ++ PLeaf aid ac aks avs anx :: PLeaf bid bc bks bvs bnx :: cs2) (length cs1)
  = Ok (ks1 ++ ks2, cs1 ++ PLeaf aid ac (aks ++ bks) (avs ++ bvs) bnx :: cs2).
Proof.
  intros * L G. unfold merge_pair.
  rewrite (vec_get_ok _ _ _ (nth_error_zip0 _ _ _)). cbn [bind].
  rewrite (vec_get_ok _ _ _ (nth_error_zip1 _ _ _ _)). cbn [bind].
  leb_true G. rewrite set_nth_zip0.
  rewrite (vec_remove_ok _ _ _ (nth_error_zip1 _ _ _ _)). cbn [bind].
  rewrite (vec_remove_ok _ _ _ (nth_error_zip0' _ _ _ _ _ L)). cbn [bind snd].
  rewrite remove_at_zip1, (remove_at_zip0' _ _ _ _ _ L). reflexivity.
Qed.

Lemma exec_merge_branch : forall cap ks1 sep ks2 (cs1 cs2 : list ptree) aid ac aks acs bid bc bks bcs,
  length cs1 = length ks1 ->
  length aks + length bks + 1 <= cap -> length acs + length bcs <= cap + 1 ->
  merge_pair cap (ks1 ++ sep :: ks2)
    (cs1 ++ PBranch aid ac aks acs :: PBranch bid bc bks bcs :: cs2) (length cs1)
  = Ok (ks1 ++ ks2, cs1 ++ PBranch aid ac (aks ++ sep :: bks) (acs ++ bcs) :: cs2).
Proof.
  intros * L G1 G2. unfold merge_pair.
  rewrite (vec_get_ok _ _ _ (nth_error_zip0 _ _ _)). cbn [bind].
  rewrite (vec_get_ok _ _ _ (nth_error_zip1 _ _ _ _)). cbn [bind].
  leb_true G1. leb_true G2. cbn [andb].
  rewrite (vec_get_ok _ _ _ (nth_error_zip0' _ _ _ _ _ L)). cbn [bind].
  rewrite set_nth_zip0.
  rewrite (vec_remove_ok _ _ _ (nth_error_zip1 _ _ _ _)). cbn [bind].
  rewrite (vec_remove_ok _ _ _ (nth_error_zip0' _ _ _ _ _ L)). cbn [bind snd].
  rewrite remove_at_zip1, (remove_at_zip0' _ _ _ _ _ L). reflexivity.
Qed.

(* _merge_with_sibling: which pair is merged *)
Lemma merge_with_sibling_left : forall cap ks (cs : list ptree) ci,
  0 < ci -> ci < length cs -> length cs = S (length ks) ->
  merge_with_sibling cap ks cs ci = merge_pair cap ks cs (ci - 1).
Proof.
  intros * H0 H1 L. unfold merge_with_sibling.
  destruct (nth_error cs ci) as [x|] eqn:E; [|apply nth_error_None in E; lia].
  rewrite (vec_get_ok _ _ _ E). cbn [bind].
  destruct (Nat.leb_spec (length cs) ci); [lia|].
  replace (Nat.eqb (length ks) (length cs - 1)) with true by (symmetry; apply Nat.eqb_eq; lia).
  cbn [negb]. ltb_true H0. reflexivity.
Qed.

Lemma merge_with_sibling_right : forall cap ks (cs : list ptree),
  1 < length cs -> length cs = S (length ks) ->
  merge_with_sibling cap ks cs 0 = merge_pair cap ks cs 0.
Proof.
  intros * H1 L. unfold merge_with_sibling.
  destruct (nth_error cs 0) as [x|] eqn:E; [|apply nth_error_None in E; lia].
  rewrite (vec_get_ok _ _ _ E). cbn [bind].
  destruct (Nat.leb_spec (length cs) 0); [lia|].
  replace (Nat.eqb (length ks) (length cs - 1)) with true by (symmetry; apply Nat.eqb_eq; lia).
  cbn [negb]. change (Nat.ltb 0 0) with false. cbv iota.
  destruct (Nat.ltb_spec 0 (length cs - 1)); [reflexivity|lia].
Qed.

(* _handle_underflow: which of the three repairs is chosen *)
Lemma hu_not_underfull : forall cap ks (cs : list ptree) ci x,
  nth_error cs ci = Some x -> py_is_underfull x = false ->
  handle_underflow cap ks cs ci = Ok (ks, cs).
Proof.
  intros * E U. unfold handle_underflow. rewrite (vec_get_ok _ _ _ E). cbn [bind].
  rewrite U. reflexivity.
Qed.

Lemma hu_right : forall cap ks (cs : list ptree) ci x r,
  nth_error cs ci = Some x -> py_is_underfull x = true ->
  nth_error cs (S ci) = Some r -> py_can_donate r = true ->
  handle_underflow cap ks cs ci = redistribute_from_right ks cs ci.
Proof.
  intros * E U Er D. unfold handle_underflow. rewrite (vec_get_ok _ _ _ E). cbn [bind].
  rewrite U. cbn [negb].
  assert (S ci < length cs) by (apply nth_error_Some; congruence).
  destruct (Nat.ltb_spec ci (length cs - 1)); [|lia]. rewrite Er, D. reflexivity.
Qed.

Lemma hu_left : forall cap ks (cs : list ptree) ci x l,
  nth_error cs ci = Some x -> py_is_underfull x = true ->
  (forall r, nth_error cs (S ci) = Some r -> py_can_donate r = false) ->
  0 < ci -> nth_error cs (ci - 1) = Some l -> py_can_donate l = true ->
  handle_underflow cap ks cs ci = redistribute_from_left ks cs ci.
Proof.
  intros * E U Hr H0 El D. unfold handle_underflow. rewrite (vec_get_ok _ _ _ E). cbn [bind].
  rewrite U. cbn [negb].
  replace (if Nat.ltb ci (length cs - 1)
           then match nth_error cs (S ci) with Some r => py_can_donate r | None => false end
           else false) with false.
  2:{ destruct (Nat.ltb ci (length cs - 1)); auto.
      destruct (nth_error cs (S ci)) eqn:E1; auto. symmetry. auto. }
  ltb_true H0. rewrite El, D. reflexivity.
Qed.

Lemma hu_merge : forall cap ks (cs : list ptree) ci x,
  nth_error cs ci = Some x -> py_is_underfull x = true ->
  (forall r, nth_error cs (S ci) = Some r -> py_can_donate r = false) ->
  (forall l, 0 < ci -> nth_error cs (ci - 1) = Some l -> py_can_donate l = false) ->
  handle_underflow cap ks cs ci = merge_with_sibling cap ks cs ci.
Proof.
  intros * E U Hr Hl. unfold handle_underflow. rewrite (vec_get_ok _ _ _ E). cbn [bind].
  rewrite U. cbn [negb].
  replace (if Nat.ltb ci (length cs - 1)
           then match nth_error cs (S ci) with Some r => py_can_donate r | None => false end
           else false) with false.
  2:{ destruct (Nat.ltb ci (length cs - 1)); auto.
      destruct (nth_error cs (S ci)) eqn:E1; auto. symmetry. auto. }
  replace (if Nat.ltb 0 ci
           then match nth_error cs (ci - 1) with Some l => py_can_donate l | None => false end
           else false) with false.
  2:{ destruct (Nat.ltb_spec 0 ci); auto.
      destruct (nth_error cs (ci - 1)) eqn:E1; auto. symmetry. auto. }
  reflexivity.
Qed.

(* ------------------------------------------------------------------ *)
(* the eight cases on a zipper *)
Definition prb_post (c : nat) (lo hi : option Z) (h : nat) (ks : list key) (cs : list ptree)
    (ks' : list key) (cs' : list ptree) : Prop :=
  pbody c lo hi h ks' cs' /\
  (length ks' = length ks \/ S (length ks') = length ks) /\
  CT cs' = CT cs /\
  links_del (LL cs) (LL cs').

Lemma links_del_eq : forall L L', L' = L -> links_del L L'.
Proof. intros; subst; apply ld_refl. Qed.

Lemma case_leaf_borrow_right : forall c lo hi ks1 sep ks2 cs1 cs2 xid xks xvs xnx yid yks yvs ynx,
  4 <= c -> length cs1 = length ks1 ->
  sorted_keys (ks1 ++ sep :: ks2) -> Forall (in_bounds lo hi) (ks1 ++ sep :: ks2) ->
  ords lo hi (ks1 ++ sep :: ks2) (cs1 ++ PLeaf xid c xks xvs xnx :: PLeaf yid c yks yvs ynx :: cs2) ->
  Forall (pshape c false 0) cs1 -> Forall (pshape c false 0) cs2 ->
  length xvs = length xks -> S (length xks) = (c - 1) / 2 ->
  length yvs = length yks -> (c - 1) / 2 < length yks -> length yks <= c ->
  exists ks' cs',
    redistribute_from_right (ks1 ++ sep :: ks2)
      (cs1 ++ PLeaf xid c xks xvs xnx :: PLeaf yid c yks yvs ynx :: cs2) (length cs1)
    = Ok (ks', cs') /\
    prb_post c lo hi 0 (ks1 ++ sep :: ks2)
      (cs1 ++ PLeaf xid c xks xvs xnx :: PLeaf yid c yks yvs ynx :: cs2) ks' cs'.
Proof.
  intros * C L Sk F O F1 F2 Lxv Lx Lyv Ly1 Ly2.
  pose proof (pmin_facts C) as PM.
  destruct yks as [|k [|s yks'']]; try (cbn [length] in Ly1; lia).
  destruct yvs as [|v yvs']; [discriminate|].
  eexists. eexists. split.
  - apply exec_right_leaf; auto.
  - destruct (zip_ctx _ _ _ _ _ _ _ _ _ _ L O) as (_ & Ox & _ & Oy).
    destruct (zip_sep_bounds _ _ _ _ _ Sk F) as [Bl Bh].
    destruct (pair_leaf_borrow_right _ _ _ _ _ _ _ _ _ _ _ _ _ _ _ _ _ Ox Oy Bl) as (Ox' & Oy' & G & H).
    split; [|split; [|split]].
    + eapply p_lift_borrow_body; eauto.
      * constructor; rewrite ?app_length; cbn [length]; [lia | lia | intros _; lia].
      * constructor; cbn [length] in *; [lia | lia | intros _; lia].
    + left. rewrite !app_length. reflexivity.
    + rewrite !flat_map_zip2. simpl. rewrite combine_snoc; auto. repeat rewrite <- app_assoc. simpl. reflexivity.
    + apply links_del_eq. rewrite !flat_map_zip2. reflexivity.
Qed.

Lemma case_leaf_borrow_left : forall c lo hi ks1 sep ks2 cs1 cs2 xid xks xvs xnx yid yks yvs ynx,
  4 <= c -> length cs1 = length ks1 ->
  sorted_keys (ks1 ++ sep :: ks2) -> Forall (in_bounds lo hi) (ks1 ++ sep :: ks2) ->
  ords lo hi (ks1 ++ sep :: ks2) (cs1 ++ PLeaf xid c xks xvs xnx :: PLeaf yid c yks yvs ynx :: cs2) ->
  Forall (pshape c false 0) cs1 -> Forall (pshape c false 0) cs2 ->
  length xvs = length xks -> (c - 1) / 2 < length xks -> length xks <= c ->
  length yvs = length yks -> S (length yks) = (c - 1) / 2 ->
  exists ks' cs',
    redistribute_from_left (ks1 ++ sep :: ks2)
      (cs1 ++ PLeaf xid c xks xvs xnx :: PLeaf yid c yks yvs ynx :: cs2) (S (length cs1))
    = Ok (ks', cs') /\
    prb_post c lo hi 0 (ks1 ++ sep :: ks2)
      (cs1 ++ PLeaf xid c xks xvs xnx :: PLeaf yid c yks yvs ynx :: cs2) ks' cs'.
Proof.
  intros * C L Sk F O F1 F2 Lxv Lx1 Lx2 Lyv Ly.
  pose proof (pmin_facts C) as PM.
  destruct (snoc_cases xks) as [->|(xks' & k & ->)]; [cbn [length] in Lx1; lia|].
  destruct (snoc_cases xvs) as [->|(xvs' & v & ->)];
    [rewrite app_length in Lxv; cbn [length] in Lxv; lia|].
  assert (Lxv' : length xvs' = length xks') by (rewrite !app_length in Lxv; cbn [length] in Lxv; lia).
  assert (Lx' : (c - 1) / 2 <= length xks') by (rewrite app_length in Lx1; cbn [length] in Lx1; lia).
  eexists. eexists. split.
  - apply exec_left_leaf; auto.
  - destruct (zip_ctx _ _ _ _ _ _ _ _ _ _ L O) as (_ & Ox & _ & Oy).
    destruct (zip_sep_bounds _ _ _ _ _ Sk F) as [Bl Bh].
    assert (Ne : xks' <> []) by (intro; subst; cbn [length] in Lx'; lia).
    destruct (pair_leaf_borrow_left _ _ _ _ _ _ _ _ _ v _ _ _ _ _ _ Ox Oy Bh Ne) as (Ox' & Oy' & G & H).
    split; [|split; [|split]].
    + eapply p_lift_borrow_body; eauto.
      * constructor; auto. rewrite app_length in Lx2; cbn [length] in Lx2; lia.
      * constructor; cbn [length]; [lia | lia | intros _; lia].
    + left. rewrite !app_length. reflexivity.
    + rewrite !flat_map_zip2. simpl. rewrite combine_snoc; auto. repeat rewrite <- app_assoc. simpl. reflexivity.
    + apply links_del_eq. rewrite !flat_map_zip2. reflexivity.
Qed.

Lemma leaf_merge_post : forall c lo hi ks1 sep ks2 cs1 cs2 xid xks xvs xnx yid yks yvs ynx,
  4 <= c -> length cs1 = length ks1 ->
  sorted_keys (ks1 ++ sep :: ks2) -> Forall (in_bounds lo hi) (ks1 ++ sep :: ks2) ->
  ords lo hi (ks1 ++ sep :: ks2) (cs1 ++ PLeaf xid c xks xvs xnx :: PLeaf yid c yks yvs ynx :: cs2) ->
  Forall (pshape c false 0) cs1 -> Forall (pshape c false 0) cs2 ->
  length xvs = length xks -> length yvs = length yks ->
  S (length xks + length yks) = 2 * ((c - 1) / 2) ->
  prb_post c lo hi 0 (ks1 ++ sep :: ks2)
    (cs1 ++ PLeaf xid c xks xvs xnx :: PLeaf yid c yks yvs ynx :: cs2)
    (ks1 ++ ks2) (cs1 ++ PLeaf xid c (xks ++ yks) (xvs ++ yvs) ynx :: cs2).
Proof.
  intros * C L Sk F O F1 F2 Lxv Lyv Lsum.
  pose proof (pmin_facts C) as PM.
  destruct (zip_ctx _ _ _ _ _ _ _ _ _ _ L O) as (_ & Ox & _ & Oy).
  destruct (zip_sep_bounds _ _ _ _ _ Sk F) as [Bl Bh].
  pose proof (pair_leaf_merge _ _ _ _ _ _ _ _ _ _ _ _ _ _ Ox Oy Bl Bh) as Om.
  split; [|split; [|split]].
  - eapply p_lift_merge_body; eauto.
    constructor; rewrite ?app_length; [lia | lia | intros _; lia].
  - right. rewrite !app_length. simpl. lia.
  - rewrite flat_map_zip2, flat_map_zip1. simpl. rewrite combine_app; auto.
  - rewrite flat_map_zip2, flat_map_zip1. simpl. apply links_del_one.
Qed.

Lemma case_branch_borrow_right : forall c lo hi h ks1 sep ks2 cs1 cs2 xid xks xcs yid yks ycs,
  4 <= c -> length cs1 = length ks1 ->
  sorted_keys (ks1 ++ sep :: ks2) -> Forall (in_bounds lo hi) (ks1 ++ sep :: ks2) ->
  ords lo hi (ks1 ++ sep :: ks2) (cs1 ++ PBranch xid c xks xcs :: PBranch yid c yks ycs :: cs2) ->
  Forall (pshape c false (S h)) cs1 -> Forall (pshape c false (S h)) cs2 ->
  length xcs = S (length xks) -> S (length xks) = (c - 1) / 2 -> Forall (pshape c false h) xcs ->
  length ycs = S (length yks) -> (c - 1) / 2 < length yks -> length yks <= c ->
  Forall (pshape c false h) ycs ->
  exists ks' cs',
    redistribute_from_right (ks1 ++ sep :: ks2)
      (cs1 ++ PBranch xid c xks xcs :: PBranch yid c yks ycs :: cs2) (length cs1)
    = Ok (ks', cs') /\
    prb_post c lo hi (S h) (ks1 ++ sep :: ks2)
      (cs1 ++ PBranch xid c xks xcs :: PBranch yid c yks ycs :: cs2) ks' cs'.
Proof.
  intros * C L Sk F O F1 F2 Lxc Lx Fx Lyc Ly1 Ly2 Fy.
  pose proof (pmin_facts C) as PM.
  destruct yks as [|mk yks']; [cbn [length] in Ly1; lia|].
  destruct ycs as [|mc ycs']; [discriminate|].
  inversion Fy as [|? ? Sm Fy']; subst.
  eexists. eexists. split.
  - apply exec_right_branch; auto.
  - destruct (zip_ctx _ _ _ _ _ _ _ _ _ _ L O) as (_ & Ox & _ & Oy).
    destruct (zip_sep_bounds _ _ _ _ _ Sk F) as [Bl Bh].
    destruct (p_pair_branch_borrow_right c h _ _ _ _ _ _ _ _ _ _ _ _ _ C Ox Lxc Oy Lyc Sm Bl)
      as (Ox' & Oy' & G & H).
    split; [|split; [|split]].
    + eapply p_lift_borrow_body; eauto.
      * apply pshape_branch_intro; rewrite ?app_length; cbn [length]; try discriminate; try lia.
        apply Forall_app; split; auto.
      * apply pshape_branch_intro; cbn [length] in *; auto; try discriminate; lia.
    + left. rewrite !app_length. reflexivity.
    + rewrite !flat_map_zip2. simpl. rewrite flat_map_app. simpl. rewrite app_nil_r.
      repeat rewrite <- app_assoc. reflexivity.
    + apply links_del_eq. rewrite !flat_map_zip2. simpl. rewrite flat_map_app. simpl.
      rewrite app_nil_r. repeat rewrite <- app_assoc. reflexivity.
Qed.

Lemma case_branch_borrow_left : forall c lo hi h ks1 sep ks2 cs1 cs2 xid xks xcs yid yks ycs,
  4 <= c -> length cs1 = length ks1 ->
  sorted_keys (ks1 ++ sep :: ks2) -> Forall (in_bounds lo hi) (ks1 ++ sep :: ks2) ->
  ords lo hi (ks1 ++ sep :: ks2) (cs1 ++ PBranch xid c xks xcs :: PBranch yid c yks ycs :: cs2) ->
  Forall (pshape c false (S h)) cs1 -> Forall (pshape c false (S h)) cs2 ->
  length xcs = S (length xks) -> (c - 1) / 2 < length xks -> length xks <= c ->
  Forall (pshape c false h) xcs ->
  length ycs = S (length yks) -> S (length yks) = (c - 1) / 2 -> Forall (pshape c false h) ycs ->
  exists ks' cs',
    redistribute_from_left (ks1 ++ sep :: ks2)
      (cs1 ++ PBranch xid c xks xcs :: PBranch yid c yks ycs :: cs2) (S (length cs1))
    = Ok (ks', cs') /\
    prb_post c lo hi (S h) (ks1 ++ sep :: ks2)
      (cs1 ++ PBranch xid c xks xcs :: PBranch yid c yks ycs :: cs2) ks' cs'.
Proof.
  intros * C L Sk F O F1 F2 Lxc Lx1 Lx2 Fx Lyc Ly Fy.
  pose proof (pmin_facts C) as PM.
  destruct (snoc_cases xks) as [->|(xks' & mk & ->)]; [cbn [length] in Lx1; lia|].
  destruct (snoc_cases xcs) as [->|(xcs' & mc & ->)]; [discriminate|].
  assert (Lxc' : length xcs' = S (length xks')) by (rewrite !app_length in Lxc; cbn [length] in Lxc; lia).
  assert (Lx' : (c - 1) / 2 <= length xks') by (rewrite app_length in Lx1; cbn [length] in Lx1; lia).
  apply Forall_app in Fx. destruct Fx as [Fx Fm]. inversion Fm as [|? ? Sm _]; subst.
  eexists. eexists. split.
  - apply exec_left_branch; auto.
  - destruct (zip_ctx _ _ _ _ _ _ _ _ _ _ L O) as (_ & Ox & _ & Oy).
    destruct (zip_sep_bounds _ _ _ _ _ Sk F) as [Bl Bh].
    assert (Ne : xks' <> []) by (intro; subst; cbn [length] in Lx'; lia).
    destruct (p_pair_branch_borrow_left c h _ _ _ _ _ _ _ _ _ _ _ _ _ C Ox Lxc Oy Lyc Fy Bh Ne)
      as (Ox' & Oy' & G & H).
    split; [|split; [|split]].
    + eapply p_lift_borrow_body; eauto.
      * apply pshape_branch_intro; auto; try discriminate.
        rewrite app_length in Lx2; cbn [length] in Lx2; lia.
      * apply pshape_branch_intro; cbn [length]; auto; try discriminate; try lia.
    + left. rewrite !app_length. reflexivity.
    + rewrite !flat_map_zip2. simpl. rewrite flat_map_app. simpl. rewrite app_nil_r.
      repeat rewrite <- app_assoc. reflexivity.
    + apply links_del_eq. rewrite !flat_map_zip2. simpl. rewrite flat_map_app. simpl.
      rewrite app_nil_r. repeat rewrite <- app_assoc. reflexivity.
Qed.

Lemma branch_merge_post : forall c lo hi h ks1 sep ks2 cs1 cs2 xid xks xcs yid yks ycs,
  4 <= c -> length cs1 = length ks1 ->
  sorted_keys (ks1 ++ sep :: ks2) -> Forall (in_bounds lo hi) (ks1 ++ sep :: ks2) ->
  ords lo hi (ks1 ++ sep :: ks2) (cs1 ++ PBranch xid c xks xcs :: PBranch yid c yks ycs :: cs2) ->
  Forall (pshape c false (S h)) cs1 -> Forall (pshape c false (S h)) cs2 ->
  length xcs = S (length xks) -> Forall (pshape c false h) xcs ->
  length ycs = S (length yks) -> Forall (pshape c false h) ycs ->
  S (length xks + length yks) = 2 * ((c - 1) / 2) ->
  prb_post c lo hi (S h) (ks1 ++ sep :: ks2)
    (cs1 ++ PBranch xid c xks xcs :: PBranch yid c yks ycs :: cs2)
    (ks1 ++ ks2) (cs1 ++ PBranch xid c (xks ++ sep :: yks) (xcs ++ ycs) :: cs2).
Proof.
  intros * C L Sk F O F1 F2 Lxc Fx Lyc Fy Lsum.
  pose proof (pmin_facts C) as PM.
  destruct (zip_ctx _ _ _ _ _ _ _ _ _ _ L O) as (_ & Ox & _ & Oy).
  destruct (zip_sep_bounds _ _ _ _ _ Sk F) as [Bl Bh].
  pose proof (p_pair_branch_merge c h _ _ _ _ _ _ _ _ _ _ _ C Ox Lxc Oy Lyc Fy Bl Bh) as Om.
  split; [|split; [|split]].
  - eapply p_lift_merge_body; eauto.
    apply pshape_branch_intro; rewrite ?app_length; cbn [length]; try discriminate; try lia.
    apply Forall_app; split; auto.
  - right. rewrite !app_length. simpl. lia.
  - rewrite flat_map_zip2, flat_map_zip1. simpl. rewrite flat_map_app. reflexivity.
  - apply links_del_eq. rewrite flat_map_zip2, flat_map_zip1. simpl. rewrite flat_map_app. reflexivity.
Qed.

(* ------------------------------------------------------------------ *)
(* node predicates on well-shaped / underfull nodes *)

(* structurally fine node with well-shaped children, any number of keys *)
Inductive pshape_x (c : nat) : nat -> ptree -> Prop :=
| pshape_x_leaf : forall id ks vs nx,
    length vs = length ks -> pshape_x c 0 (PLeaf id c ks vs nx)
| pshape_x_branch : forall h id ks cs,
    length cs = S (length ks) -> Forall (pshape c false h) cs ->
    pshape_x c (S h) (PBranch id c ks cs).

Lemma pshape_u_x : forall c h t, pshape_u c h t -> pshape_x c h t.
Proof. intros c h t H. inversion H; subst; constructor; auto. Qed.

Lemma pshape_x_of : forall c r h t, pshape c r h t -> pshape_x c h t.
Proof. intros c r h t H. inversion H; subst; constructor; auto. apply Forall_forall; auto. Qed.

Lemma pshape_u_len : forall c h t, pshape_u c h t -> S (length (pkeys t)) = (c - 1) / 2.
Proof. intros c h t H. inversion H; subst; cbn [pkeys]; auto. Qed.

Lemma pshape_pcap : forall c r h t, pshape c r h t -> pcap t = c.
Proof. intros c r h t H. inversion H; subst; reflexivity. Qed.

Lemma pshape_u_pcap : forall c h t, pshape_u c h t -> pcap t = c.
Proof. intros c h t H. inversion H; subst; reflexivity. Qed.

Lemma pshape_len_ge : forall c h t, pshape c false h t -> (c - 1) / 2 <= length (pkeys t) <= c.
Proof. intros c h t H. inversion H; subst; cbn [pkeys]; split; auto. Qed.

Lemma pshape_u_underfull : forall c h t, pshape_u c h t -> py_is_underfull t = true.
Proof.
  intros c h t H. unfold py_is_underfull, min_keys. rewrite (pshape_u_pcap _ _ _ H).
  apply Nat.ltb_lt. pose proof (pshape_u_len _ _ _ H). lia.
Qed.

Lemma pshape_not_underfull : forall c h t, pshape c false h t -> py_is_underfull t = false.
Proof.
  intros c h t H. unfold py_is_underfull, min_keys. rewrite (pshape_pcap _ _ _ _ H).
  apply Nat.ltb_ge. apply (pshape_len_ge _ _ _ H).
Qed.

(* the test that guards the call of _handle_underflow in _delete_recursive *)
Lemma pshape_no_trigger : forall c h t, 4 <= c -> pshape c false h t ->
  orb (Nat.eqb (length (pkeys t)) 0) (py_is_underfull t) = false.
Proof.
  intros c h t C H. rewrite (pshape_not_underfull _ _ _ H).
  pose proof (pmin_facts C). pose proof (pshape_len_ge _ _ _ H).
  destruct (Nat.eqb_spec (length (pkeys t)) 0); [lia|reflexivity].
Qed.

Lemma pshape_u_trigger : forall c h t, pshape_u c h t ->
  orb (Nat.eqb (length (pkeys t)) 0) (py_is_underfull t) = true.
Proof. intros c h t H. rewrite (pshape_u_underfull _ _ _ H). apply orb_true_r. Qed.

Lemma pshape_donate : forall c h t, pshape c false h t -> py_can_donate t = true ->
  (c - 1) / 2 < length (pkeys t).
Proof.
  intros c h t H D. unfold py_can_donate, min_keys in D. rewrite (pshape_pcap _ _ _ _ H) in D.
  apply Nat.ltb_lt in D. exact D.
Qed.

Lemma pshape_no_donate : forall c h t, pshape c false h t -> py_can_donate t = false ->
  length (pkeys t) = (c - 1) / 2.
Proof.
  intros c h t H D. unfold py_can_donate, min_keys in D. rewrite (pshape_pcap _ _ _ _ H) in D.
  apply Nat.ltb_ge in D. pose proof (pshape_len_ge _ _ _ H). lia.
Qed.

(* ------------------------------------------------------------------ *)
(* the cases, generic in the height *)

Lemma case_borrow_right : forall c lo hi h ks1 sep ks2 cs1 cs2 x y,
  4 <= c -> length cs1 = length ks1 ->
  sorted_keys (ks1 ++ sep :: ks2) -> Forall (in_bounds lo hi) (ks1 ++ sep :: ks2) ->
  ords lo hi (ks1 ++ sep :: ks2) (cs1 ++ x :: y :: cs2) ->
  Forall (pshape c false h) cs1 -> Forall (pshape c false h) cs2 ->
  pshape_u c h x -> pshape c false h y -> py_can_donate y = true ->
  exists ks' cs',
    redistribute_from_right (ks1 ++ sep :: ks2) (cs1 ++ x :: y :: cs2) (length cs1) = Ok (ks', cs') /\
    prb_post c lo hi h (ks1 ++ sep :: ks2) (cs1 ++ x :: y :: cs2) ks' cs'.
Proof.
  intros * C L Sk F O F1 F2 Sx Sy D.
  pose proof (pshape_donate _ _ _ Sy D) as Dy.
  inversion Sx; subst.
  - destruct (pshape_0_leaf Sy) as (yid & yks & yvs & ynx & ->).
    apply pshape_leaf_inv in Sy. destruct Sy as (_ & _ & Lyv & Ly2 & _).
    apply case_leaf_borrow_right; auto.
  - destruct (pshape_S_branch Sy) as (yid & yks & ycs & ->).
    apply pshape_branch_invF in Sy. destruct Sy as (h' & Eh & _ & Lyc & Ly2 & _ & _ & Fy).
    injection Eh as <-.
    apply case_branch_borrow_right; auto.
Qed.

Lemma case_borrow_left : forall c lo hi h ks1 sep ks2 cs1 cs2 x y,
  4 <= c -> length cs1 = length ks1 ->
  sorted_keys (ks1 ++ sep :: ks2) -> Forall (in_bounds lo hi) (ks1 ++ sep :: ks2) ->
  ords lo hi (ks1 ++ sep :: ks2) (cs1 ++ x :: y :: cs2) ->
  Forall (pshape c false h) cs1 -> Forall (pshape c false h) cs2 ->
  pshape c false h x -> py_can_donate x = true -> pshape_u c h y ->
  exists ks' cs',
    redistribute_from_left (ks1 ++ sep :: ks2) (cs1 ++ x :: y :: cs2) (S (length cs1)) = Ok (ks', cs') /\
    prb_post c lo hi h (ks1 ++ sep :: ks2) (cs1 ++ x :: y :: cs2) ks' cs'.
Proof.
  intros * C L Sk F O F1 F2 Sx D Sy.
  pose proof (pshape_donate _ _ _ Sx D) as Dx.
  inversion Sy; subst.
  - destruct (pshape_0_leaf Sx) as (xid & xks & xvs & xnx & ->).
    apply pshape_leaf_inv in Sx. destruct Sx as (_ & _ & Lxv & Lx2 & _).
    apply case_leaf_borrow_left; auto.
  - destruct (pshape_S_branch Sx) as (xid & xks & xcs & ->).
    apply pshape_branch_invF in Sx. destruct Sx as (h' & Eh & _ & Lxc & Lx2 & _ & _ & Fx).
    injection Eh as <-.
    apply case_branch_borrow_left; auto.
Qed.

(* the capacity guards of the two arms of _merge_with_sibling pass *)
Lemma case_merge : forall c lo hi h ks1 sep ks2 cs1 cs2 x y,
  4 <= c -> length cs1 = length ks1 ->
  sorted_keys (ks1 ++ sep :: ks2) -> Forall (in_bounds lo hi) (ks1 ++ sep :: ks2) ->
  ords lo hi (ks1 ++ sep :: ks2) (cs1 ++ x :: y :: cs2) ->
  Forall (pshape c false h) cs1 -> Forall (pshape c false h) cs2 ->
  pshape_x c h x -> pshape_x c h y ->
  S (length (pkeys x) + length (pkeys y)) = 2 * ((c - 1) / 2) ->
  exists ks' cs',
    merge_pair c (ks1 ++ sep :: ks2) (cs1 ++ x :: y :: cs2) (length cs1) = Ok (ks', cs') /\
    S (length ks') = length (ks1 ++ sep :: ks2) /\
    prb_post c lo hi h (ks1 ++ sep :: ks2) (cs1 ++ x :: y :: cs2) ks' cs'.
Proof.
  intros * C L Sk F O F1 F2 Sx Sy Lsum.
  pose proof (pmin_facts C) as PM.
  inversion Sx; subst; inversion Sy; subst; cbn [pkeys] in Lsum.
  - eexists. eexists. split; [|split].
    + apply exec_merge_leaf; auto. lia.
    + rewrite !app_length. cbn [length]. lia.
    + apply leaf_merge_post; auto.
  - eexists. eexists. split; [|split].
    + apply exec_merge_branch; auto; lia.
    + rewrite !app_length. cbn [length]. lia.
    + apply branch_merge_post; auto.
Qed.

(* ------------------------------------------------------------------ *)
(* summary: _handle_underflow repairs the parent *)
Lemma nth_error_zipS : forall (A : Type) (l1 : list A) x l2,
  nth_error (l1 ++ x :: l2) (S (length l1)) = hd_error l2.
Proof.
  intros. replace (S (length l1)) with (length l1 + 1) by lia. rewrite nth_error_zipn.
  destruct l2; reflexivity.
Qed.

Lemma handle_underflow_spec : forall c lo hi h ks1 ks2 cs1 cs2 x,
  4 <= c -> length cs1 = length ks1 ->
  sorted_keys (ks1 ++ ks2) -> Forall (in_bounds lo hi) (ks1 ++ ks2) ->
  ords lo hi (ks1 ++ ks2) (cs1 ++ x :: cs2) ->
  Forall (pshape c false h) cs1 -> Forall (pshape c false h) cs2 -> pshape_u c h x ->
  1 <= length (ks1 ++ ks2) ->
  exists ks' cs',
    handle_underflow c (ks1 ++ ks2) (cs1 ++ x :: cs2) (length cs1) = Ok (ks', cs') /\
    prb_post c lo hi h (ks1 ++ ks2) (cs1 ++ x :: cs2) ks' cs'.
Proof.
  intros * C L Sk F O F1 F2 Sx Lk.
  pose proof (ords_length _ _ _ _ O) as LO.
  assert (Lcs2 : length cs2 = length ks2).
  { rewrite !app_length in LO. cbn [length] in LO. lia. }
  pose proof (pshape_u_underfull _ _ _ Sx) as U.
  pose proof (pshape_u_len _ _ _ Sx) as Lx.
  pose proof (nth_error_zip0 cs1 x cs2) as Ex.
  (* merging with the left sibling *)
  assert (ML : forall cs1a l ks1a sep, cs1 = cs1a ++ [l] -> ks1 = ks1a ++ [sep] ->
            py_can_donate l = false ->
            (forall r, hd_error cs2 = Some r -> py_can_donate r = false) ->
            exists ks' cs',
              handle_underflow c (ks1 ++ ks2) (cs1 ++ x :: cs2) (length cs1) = Ok (ks', cs') /\
              prb_post c lo hi h (ks1 ++ ks2) (cs1 ++ x :: cs2) ks' cs').
  { intros cs1a l ks1a sep -> -> Dl Hr.
    assert (La : length cs1a = length ks1a) by (rewrite !length_snoc in L; lia).
    apply Forall_app in F1. destruct F1 as [F1a Fl]. inversion Fl as [|? ? Sl _]; subst.
    pose proof (pshape_no_donate _ _ _ Sl Dl) as Ll.
    rewrite (hu_merge c _ _ _ x Ex U).
    2:{ intros r Hn. rewrite nth_error_zipS in Hn. auto. }
    2:{ intros l0 _ Hn. rewrite snoc_zip in Hn. rewrite length_snoc in Hn.
        replace (S (length cs1a) - 1) with (length cs1a) in Hn by lia.
        rewrite nth_error_zip0 in Hn. injection Hn as <-. exact Dl. }
    rewrite merge_with_sibling_left; [|rewrite length_snoc; lia|rewrite !app_length; cbn [length]; lia|exact LO].
    rewrite !snoc_zip in *. rewrite length_snoc.
    replace (S (length cs1a) - 1) with (length cs1a) by lia.
    destruct (case_merge c lo hi h ks1a sep ks2 cs1a cs2 l x) as (ks' & cs' & E1 & _ & P); auto.
    - eapply pshape_x_of; eauto.
    - apply pshape_u_x; auto.
    - lia.
    - exists ks', cs'. split; auto. }
  (* borrowing from the left sibling *)
  assert (BL : forall cs1a l ks1a sep, cs1 = cs1a ++ [l] -> ks1 = ks1a ++ [sep] ->
            py_can_donate l = true ->
            (forall r, hd_error cs2 = Some r -> py_can_donate r = false) ->
            exists ks' cs',
              handle_underflow c (ks1 ++ ks2) (cs1 ++ x :: cs2) (length cs1) = Ok (ks', cs') /\
              prb_post c lo hi h (ks1 ++ ks2) (cs1 ++ x :: cs2) ks' cs').
  { intros cs1a l ks1a sep -> -> Dl Hr.
    assert (La : length cs1a = length ks1a) by (rewrite !length_snoc in L; lia).
    apply Forall_app in F1. destruct F1 as [F1a Fl]. inversion Fl as [|? ? Sl _]; subst.
    rewrite (hu_left c _ _ _ x l Ex U).
    2:{ intros r Hn. rewrite nth_error_zipS in Hn. auto. }
    2:{ rewrite length_snoc; lia. }
    2:{ rewrite snoc_zip. rewrite length_snoc.
        replace (S (length cs1a) - 1) with (length cs1a) by lia. apply nth_error_zip0. }
    2:{ exact Dl. }
    rewrite !snoc_zip in *. rewrite length_snoc.
    apply case_borrow_left; auto. }
  destruct cs2 as [|r cs2b].
  - (* no right sibling *)
    destruct ks2; [|discriminate]. rewrite app_nil_r in *.
    destruct (snoc_cases cs1) as [->|(cs1a & l & ->)].
    + destruct ks1; [cbn [length] in Lk; lia|discriminate].
    + destruct (snoc_cases ks1) as [->|(ks1a & sep & ->)];
        [rewrite length_snoc in L; cbn [length] in L; lia|].
      pose proof (ML cs1a l ks1a sep eq_refl eq_refl) as ML'.
      pose proof (BL cs1a l ks1a sep eq_refl eq_refl) as BL'.
      rewrite ?app_nil_r in ML', BL'.
      destruct (py_can_donate l) eqn:Dl.
      * apply BL'; auto. intros r Hr; discriminate.
      * apply ML'; auto. intros r Hr; discriminate.
  - destruct ks2 as [|sep2 ks2b]; [discriminate|].
    inversion F2 as [|? ? Sr F2b]; subst.
    destruct (py_can_donate r) eqn:Dr.
    + (* borrow from the right sibling *)
      rewrite (hu_right c _ _ _ x r Ex U (nth_error_zip1 _ _ _ _) Dr).
      apply case_borrow_right; auto.
    + assert (Hr : forall r0, hd_error (r :: cs2b) = Some r0 -> py_can_donate r0 = false).
      { intros r0 Hn. injection Hn as <-. exact Dr. }
      destruct (snoc_cases cs1) as [->|(cs1a & l & ->)].
      * (* leftmost child: merge with the right sibling *)
        destruct ks1; [|discriminate]. cbn [app length] in *.
        pose proof (pshape_no_donate _ _ _ Sr Dr) as Lr.
        rewrite (hu_merge c _ _ _ x Ex U).
        2:{ intros r0 Hn. cbn in Hn. injection Hn as <-. exact Dr. }
        2:{ intros l0 H0. lia. }
        rewrite merge_with_sibling_right; [|cbn [length]; lia|exact LO].
        destruct (case_merge c lo hi h [] sep2 ks2b [] cs2b x r) as (ks' & cs' & E1 & _ & P); auto.
        -- apply pshape_u_x; auto.
        -- eapply pshape_x_of; eauto.
        -- lia.
        -- exists ks', cs'. split; auto.
      * destruct (snoc_cases ks1) as [->|(ks1a & sep & ->)];
          [rewrite length_snoc in L; cbn [length] in L; lia|].
        destruct (py_can_donate l) eqn:Dl.
        -- eapply BL; eauto.
        -- eapply ML; eauto.
Qed.

(* ------------------------------------------------------------------ *)
(* The capacity guards of _merge_with_sibling ("if len(left) + len(child) <= capacity",
   and the two-part guard for branches) never refuse on invariant states: when
   _handle_underflow reaches _merge_with_sibling, the child has (cap-1)/2 - 1 keys and
   the sibling it is merged with cannot donate, i.e. has exactly (cap-1)/2 keys; the
   merged node then has at most cap-1 keys, and the call really merges (the parent loses
   one key and one child).  No order hypothesis is needed. *)
Lemma merge_pair_ok : forall c h ks1 sep ks2 (cs1 cs2 : list ptree) x y,
  4 <= c -> length cs1 = length ks1 -> pshape_x c h x -> pshape_x c h y ->
  S (length (pkeys x) + length (pkeys y)) = 2 * ((c - 1) / 2) ->
  exists m, merge_pair c (ks1 ++ sep :: ks2) (cs1 ++ x :: y :: cs2) (length cs1)
            = Ok (ks1 ++ ks2, cs1 ++ m :: cs2).
Proof.
  intros * C L Sx Sy Lsum. pose proof (pmin_facts C) as PM.
  inversion Sx; subst; inversion Sy; subst; cbn [pkeys] in Lsum; eexists.
  - apply exec_merge_leaf; auto. lia.
  - apply exec_merge_branch; auto; lia.
Qed.

Lemma merge_guard_never_refuses : forall c h ks (cs : list ptree) ci x,
  4 <= c -> length cs = S (length ks) -> 1 <= length ks ->
  nth_error cs ci = Some x -> pshape_u c h x ->
  (forall j y, j <> ci -> nth_error cs j = Some y -> pshape c false h y) ->
  (forall l, 0 < ci -> nth_error cs (ci - 1) = Some l -> py_can_donate l = false) ->
  (forall r, ci = 0 -> nth_error cs 1 = Some r -> py_can_donate r = false) ->
  exists ks' cs', merge_with_sibling c ks cs ci = Ok (ks', cs') /\
    S (length ks') = length ks /\ S (length cs') = length cs.
Proof.
  intros * C L Lk Ex Sx Sib Hl Hr.
  assert (Hci : ci < length cs) by (apply nth_error_Some; congruence).
  pose proof (pshape_u_len _ _ _ Sx) as Lx.
  destruct (nth_error_zip_inv _ _ Ex) as (l1 & cs2 & -> & Ll1).
  destruct (snoc_cases l1) as [->|(cs1 & l & ->)].
  - (* leftmost child *)
    cbn [length] in Ll1. subst ci. cbn [app] in *.
    destruct cs2 as [|r cs2]; [cbn [length] in L; lia|].
    destruct ks as [|sep ks2]; [cbn [length] in Lk; lia|].
    pose proof (Hr r eq_refl eq_refl) as Dr.
    pose proof (Sib 1 r ltac:(lia) eq_refl) as Sr.
    pose proof (pshape_no_donate _ _ _ Sr Dr) as Lr.
    rewrite merge_with_sibling_right; [|cbn [length]; lia|exact L].
    destruct (merge_pair_ok c h [] sep ks2 [] cs2 x r C eq_refl (pshape_u_x _ _ _ Sx)
                (pshape_x_of _ _ _ _ Sr) ltac:(lia)) as (m & E).
    cbn [app length] in E. rewrite E. eexists. eexists. split; [reflexivity|].
    cbn [length]. lia.
  - rewrite length_snoc in Ll1. rewrite snoc_zip in *.
    assert (H0 : 0 < ci) by lia.
    assert (El : nth_error (cs1 ++ l :: x :: cs2) (ci - 1) = Some l).
    { replace (ci - 1) with (length cs1) by lia. apply nth_error_zip0. }
    pose proof (Hl l H0 El) as Dl.
    pose proof (Sib (ci - 1) l ltac:(lia) El) as Sl.
    pose proof (pshape_no_donate _ _ _ Sl Dl) as Ll.
    assert (Hk : length cs1 < length ks).
    { rewrite app_length in L. cbn [length] in L. lia. }
    destruct (nth_error ks (length cs1)) as [sep|] eqn:Es; [|apply nth_error_None in Es; lia].
    destruct (nth_error_zip_inv _ _ Es) as (ks1 & ks2 & -> & Lk1).
    rewrite merge_with_sibling_left; [|exact H0|exact Hci|exact L].
    replace (ci - 1) with (length cs1) by lia.
    destruct (merge_pair_ok c h ks1 sep ks2 cs1 cs2 l x C (eq_sym Lk1) (pshape_x_of _ _ _ _ Sl)
                (pshape_u_x _ _ _ Sx) ltac:(lia)) as (m & E).
    rewrite E. eexists. eexists. split; [reflexivity|].
    rewrite !app_length. cbn [length]. lia.
Qed.
