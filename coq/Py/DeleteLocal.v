(* Local (non-recursive) lemmas for the proof that the Python model's __delitem__
   preserves the invariant: what _redistribute_from_right / _redistribute_from_left /
   _merge_with_sibling / _handle_underflow compute on a parent's (keys, children) and
   that the result re-establishes order, shape, contents and the leaf chain.
   Adapted from Rust/RemoveLocal.v (whose ord-only lemmas are reused). *)
From Coq Require Import List Arith ZArith NArith Lia Bool.
From BPT Require Import Common.Base Common.AMap Rust.Tree Rust.Readers Rust.InvDefs Rust.Lib
  Rust.TreeFactsR Rust.RemoveLocal Py.Tree Py.Inv Py.Facts.
Import ListNotations.

Notation CT := (flat_map (@contents pyval)).
Notation LL := (flat_map (@leaf_links pyval)).

Ltac ltb_true H := rewrite (proj2 (Nat.ltb_lt _ _) H).
Ltac ltb_false H := rewrite (proj2 (Nat.ltb_ge _ _) H).
Ltac leb_true H := rewrite (proj2 (Nat.leb_le _ _) H).

(* ------------------------------------------------------------------ *)
(* removal of leaves from the chain: [links_del L L'] = L' is obtained from L by
   repeatedly dropping an entry (b, n2) that has a left neighbour (a, n1), which
   inherits its link: (a, n1) :: (b, n2)  ~~>  (a, n2).  (A merge keeps the LEFT
   node.)  At most one such step happens per deletion, but the closure is what
   composes. *)
Inductive links_del : list (N * N) -> list (N * N) -> Prop :=
| ld_refl : forall L, links_del L L
| ld_step : forall pre a n1 b n2 post L',
    links_del (pre ++ (a, n2) :: post) L' ->
    links_del (pre ++ (a, n1) :: (b, n2) :: post) L'.

Lemma links_del_one : forall pre a n1 b n2 post,
  links_del (pre ++ (a, n1) :: (b, n2) :: post) (pre ++ (a, n2) :: post).
Proof. intros. apply ld_step. apply ld_refl. Qed.

Lemma links_del_trans : forall L1 L2 L3, links_del L1 L2 -> links_del L2 L3 -> links_del L1 L3.
Proof. induction 1; intros; auto. apply ld_step. auto. Qed.

Lemma links_del_frame : forall L L' A B, links_del L L' -> links_del (A ++ L ++ B) (A ++ L' ++ B).
Proof.
  intros L L' A B H. induction H.
  - apply ld_refl.
  - replace (A ++ (pre ++ (a, n1) :: (b, n2) :: post) ++ B)
      with ((A ++ pre) ++ (a, n1) :: (b, n2) :: (post ++ B))
      by (repeat rewrite <- app_assoc; reflexivity).
    apply ld_step.
    replace ((A ++ pre) ++ (a, n2) :: post ++ B) with (A ++ (pre ++ (a, n2) :: post) ++ B)
      by (repeat rewrite <- app_assoc; reflexivity).
    exact IHlinks_del.
Qed.

Lemma links_del_ok : forall L L' after, links_del L L' -> links_ok L after -> links_ok L' after.
Proof.
  intros L L' after H. induction H; intros K; auto.
  apply IHlinks_del. eapply links_merge; eauto.
Qed.

Lemma links_del_in : forall L L' x, links_del L L' -> In x (map fst L') -> In x (map fst L).
Proof.
  intros L L' x H. induction H; intros I; auto.
  specialize (IHlinks_del I). rewrite map_app in *. cbn [map fst] in *.
  apply in_app_or in IHlinks_del. apply in_or_app.
  destruct IHlinks_del as [I1|[I1|I1]]; [left; auto|right; left; auto|right; right; right; auto].
Qed.

Lemma links_del_nodup : forall L L', links_del L L' -> NoDup (map fst L) -> NoDup (map fst L').
Proof.
  intros L L' H. induction H; intros K; auto.
  apply IHlinks_del. rewrite map_app in *. cbn [map fst] in *.
  apply NoDup_remove_1 with (a := b).
  replace (map fst pre ++ a :: b :: map fst post) with ((map fst pre ++ [a]) ++ b :: map fst post) in K
    by (rewrite <- app_assoc; reflexivity).
  rewrite <- app_assoc. exact K.
Qed.

Lemma links_del_hd : forall L L', links_del L L' -> hd_error (map fst L') = hd_error (map fst L).
Proof.
  intros L L' H. induction H; auto.
  rewrite IHlinks_del. destruct pre as [|[p q] pre]; reflexivity.
Qed.

(* ------------------------------------------------------------------ *)
(* shape: helpers *)

(* a non-root node one key short of the minimum, with well-shaped children *)
Inductive pshape_u (c : nat) : nat -> ptree -> Prop :=
| pshape_u_leaf : forall id ks vs nx,
    length vs = length ks -> S (length ks) = (c - 1) / 2 ->
    pshape_u c 0 (PLeaf id c ks vs nx)
| pshape_u_branch : forall h id ks cs,
    length cs = S (length ks) -> S (length ks) = (c - 1) / 2 ->
    Forall (pshape c false h) cs ->
    pshape_u c (S h) (PBranch id c ks cs).

Lemma pshape_branch_intro : forall c r h id ks (cs : list ptree),
  length cs = S (length ks) -> length ks <= c ->
  (r = false -> (c - 1) / 2 <= length ks) -> (r = true -> 1 <= length ks) ->
  Forall (pshape c false h) cs ->
  pshape c r (S h) (PBranch id c ks cs).
Proof. intros. constructor; auto. apply Forall_forall. auto. Qed.

Lemma pshape_branch_invF : forall c r h id c' ks (cs : list ptree), pshape c r h (PBranch id c' ks cs) ->
  exists h', h = S h' /\ c' = c /\ length cs = S (length ks) /\ length ks <= c /\
    (r = false -> (c - 1) / 2 <= length ks) /\ (r = true -> 1 <= length ks) /\
    Forall (pshape c false h') cs.
Proof.
  intros. inversion H; subst. exists h0. repeat split; auto. apply Forall_forall. auto.
Qed.

Lemma p_ord_witness : forall c h lo hi (t : ptree), 4 <= c -> pshape c false h t -> ord lo hi t ->
  exists k, in_bounds lo hi k.
Proof.
  intros c h lo hi t C S O. pose proof (pmin_facts C) as PM. inversion S; subst.
  - apply ord_leaf_inv in O. destruct O as [_ F]. specialize (H1 eq_refl).
    destruct ks; [cbn [length] in H1; lia|]. inversion F; subst. eauto.
  - specialize (H1 eq_refl). apply ord_branch_inv in O; auto. destruct O as (_ & F & _).
    destruct ks; [cbn [length] in H1; lia|]. inversion F; subst. eauto.
Qed.

Lemma p_ord_strict : forall c h a b (t : ptree), 4 <= c -> pshape c false h t ->
  ord (Some a) (Some b) t -> (a < b)%Z.
Proof.
  intros c h a b t C S O. destruct (p_ord_witness c h _ _ t C S O) as [k [K1 K2]]. simpl in *. lia.
Qed.

(* ------------------------------------------------------------------ *)
(* order for a pair of adjacent branch children (pshape versions of RemoveLocal's) *)
Section Pairs.
Open Scope Z_scope.

Lemma p_sep_lt_keys : forall c h s ub yks (ycs : list ptree), (4 <= c)%nat ->
  ords (Some s) ub yks ycs -> Forall (pshape c false h) ycs -> sorted_keys yks ->
  forall k, In k yks -> s < kz k.
Proof.
  intros * C O F S k I. destruct yks as [|k0 yks]; [destruct I|].
  destruct ycs as [|c0 ycs]; [simpl in O; tauto|].
  apply ords_cons_inv in O. simpl in O. inversion F; subst.
  pose proof (p_ord_strict _ _ _ _ _ C H1 O) as L.
  destruct I as [<-|I]; auto.
  apply sorted_keys_cons in S. destruct S as [_ S]. specialize (S k I). lia.
Qed.

Lemma p_pair_branch_borrow_left : forall c0 h a ub sep xid c xks' mk (xcs' : list ptree) mc yid c' yks ycs,
  (4 <= c0)%nat ->
  ord a (Some (kz sep)) (PBranch xid c (xks' ++ [mk]) (xcs' ++ [mc])) ->
  length (xcs' ++ [mc]) = S (length (xks' ++ [mk])) ->
  ord (Some (kz sep)) ub (PBranch yid c' yks ycs) -> length ycs = S (length yks) ->
  Forall (pshape c0 false h) ycs ->
  hi_ok ub (kz sep) -> xks' <> [] ->
  ord a (Some (kz mk)) (PBranch xid c xks' xcs') /\
  ord (Some (kz mk)) ub (PBranch yid c' (sep :: yks) (mc :: ycs)) /\
  gt_lo a (kz mk) /\ hi_ok ub (kz mk).
Proof.
  intros * C Ox Lx Oy Ly Fs Hs Ne.
  apply ord_branch_inv in Ox; auto. destruct Ox as (Sx & Fx & Cx).
  apply ord_branch_inv in Oy; auto. destruct Oy as (Sy & Fy & Cy).
  apply sorted_keys_snoc in Sx. destruct Sx as [Sx Lk].
  apply Forall_app in Fx. destruct Fx as [Fx Fk]. inversion Fk as [|? ? [Bk1 Bk2] _]; subst.
  apply ords_snoc in Cx. destruct Cx as [Cx Cm].
  pose proof (p_sep_lt_keys _ _ _ _ _ _ C Cy Fs Sy) as Lsep.
  rewrite Forall_forall in Fx, Fy. simpl in Bk2.
  assert (Hk : hi_ok ub (kz mk)) by (eapply hi_ok_le; eauto; lia).
  repeat split; auto.
  - apply ord_branch_intro; auto.
    apply Forall_forall. intros e Ie. split; [apply Fx; auto|simpl; auto].
  - apply ord_branch_intro.
    + apply sorted_keys_cons. split; auto.
    + constructor.
      * split; simpl; auto. lia.
      * apply Forall_forall. intros b Ib. destruct (Fy b Ib) as [B B']. split; auto. simpl in *. lia.
    + simpl. split; auto.
  - destruct xks' as [|e r]; [congruence|].
    eapply lo_ok_lt_gt; [apply (Fx e); left; auto|apply Lk; left; auto].
Qed.

Lemma p_pair_branch_borrow_right : forall c0 h a ub sep xid c xks (xcs : list ptree) yid c' mk yks' mc ycs',
  (4 <= c0)%nat ->
  ord a (Some (kz sep)) (PBranch xid c xks xcs) -> length xcs = S (length xks) ->
  ord (Some (kz sep)) ub (PBranch yid c' (mk :: yks') (mc :: ycs')) ->
  length (mc :: ycs') = S (length (mk :: yks')) ->
  pshape c0 false h mc ->
  lo_ok a (kz sep) ->
  ord a (Some (kz mk)) (PBranch xid c (xks ++ [sep]) (xcs ++ [mc])) /\
  ord (Some (kz mk)) ub (PBranch yid c' yks' ycs') /\
  gt_lo a (kz mk) /\ hi_ok ub (kz mk).
Proof.
  intros * C Ox Lx Oy Ly Sm Hs.
  apply ord_branch_inv in Ox; auto. destruct Ox as (Sx & Fx & Cx).
  apply ord_branch_inv in Oy; auto. destruct Oy as (Sy & Fy & Cy).
  apply sorted_keys_cons in Sy. destruct Sy as [Sy Lk].
  inversion Fy as [|? ? [Bk1 Bk2] Fy']; subst.
  simpl in Cy. destruct Cy as [Cm Cy].
  pose proof (p_ord_strict _ _ _ _ _ C Sm Cm) as Lsm.
  rewrite Forall_forall in Fx, Fy'.
  repeat split; auto.
  - apply ord_branch_intro.
    + apply sorted_keys_snoc. split; auto. intros e Ie. destruct (Fx e Ie) as [_ B]. simpl in B. auto.
    + apply Forall_app. split.
      * apply Forall_forall. intros e Ie. destruct (Fx e Ie) as [B B']. split; auto. simpl in *. lia.
      * constructor; auto. split; simpl; auto.
    + apply ords_snoc. split; auto.
  - apply ord_branch_intro; auto.
    apply Forall_forall. intros b Ib. destruct (Fy' b Ib) as [_ B']. split; auto. simpl.
    specialize (Lk b Ib). lia.
  - eapply lo_ok_lt_gt; eauto.
Qed.

Lemma p_pair_branch_merge : forall c0 h a ub sep xid c xks (xcs : list ptree) yid c' yks ycs,
  (4 <= c0)%nat ->
  ord a (Some (kz sep)) (PBranch xid c xks xcs) -> length xcs = S (length xks) ->
  ord (Some (kz sep)) ub (PBranch yid c' yks ycs) -> length ycs = S (length yks) ->
  Forall (pshape c0 false h) ycs ->
  lo_ok a (kz sep) -> hi_ok ub (kz sep) ->
  ord a ub (PBranch xid c (xks ++ sep :: yks) (xcs ++ ycs)).
Proof.
  intros * C Ox Lx Oy Ly Fs Hl Hh.
  apply ord_branch_inv in Ox; auto. destruct Ox as (Sx & Fx & Cx).
  apply ord_branch_inv in Oy; auto. destruct Oy as (Sy & Fy & Cy).
  pose proof (p_sep_lt_keys _ _ _ _ _ _ C Cy Fs Sy) as Lsep.
  rewrite Forall_forall in Fx, Fy.
  apply ord_branch_intro.
  - apply sorted_keys_app. split; [auto|split].
    + apply sorted_keys_cons. split; auto.
    + intros e b Ie Ib. destruct (Fx e Ie) as [_ B]. simpl in B.
      destruct Ib as [<-|Ib]; auto. specialize (Lsep b Ib). lia.
  - apply Forall_app. split; [|constructor]; try apply Forall_forall.
    + intros e Ie. destruct (Fx e Ie) as [B B']. split; auto. simpl in B'. eapply hi_ok_le; eauto. lia.
    + split; auto.
    + intros b Ib. destruct (Fy b Ib) as [B B']. split; auto. simpl in B. eapply lo_ok_le; eauto.
  - eapply ords_join; eauto.
Qed.

End Pairs.

(* ------------------------------------------------------------------ *)
(* lifting a repaired pair to the parent *)
Definition pbody (c : nat) (lo hi : option Z) (h : nat) (ks : list key) (cs : list ptree) : Prop :=
  sorted_keys ks /\ Forall (in_bounds lo hi) ks /\ ords lo hi ks cs /\ Forall (pshape c false h) cs.

Lemma p_lift_borrow_body : forall c lo hi h ks1 sep ks2 (cs1 : list ptree) x y cs2 sep' x' y',
  length cs1 = length ks1 ->
  sorted_keys (ks1 ++ sep :: ks2) -> Forall (in_bounds lo hi) (ks1 ++ sep :: ks2) ->
  ords lo hi (ks1 ++ sep :: ks2) (cs1 ++ x :: y :: cs2) ->
  Forall (pshape c false h) cs1 -> Forall (pshape c false h) cs2 ->
  ord (lastb lo ks1) (Some (kz sep')) x' -> ord (Some (kz sep')) (firstb hi ks2) y' ->
  gt_lo (lastb lo ks1) (kz sep') -> hi_ok (firstb hi ks2) (kz sep') ->
  pshape c false h x' -> pshape c false h y' ->
  pbody c lo hi h (ks1 ++ sep' :: ks2) (cs1 ++ x' :: y' :: cs2).
Proof.
  intros * L S F O F1 F2 Ox Oy G H Sx Sy.
  destruct (zip_ctx _ _ _ _ _ _ _ _ _ _ L O) as (O1 & _ & O3 & _).
  destruct (lift_keys_borrow _ _ _ _ _ _ S F G H) as [S' F'].
  split; [auto|split; [auto|split]].
  - apply ords_app; auto. split; auto. simpl. split; auto.
    eapply ords_cons_change; eauto.
  - apply Forall_app. split; auto.
Qed.

Lemma p_lift_merge_body : forall c lo hi h ks1 sep ks2 (cs1 : list ptree) x y cs2 m,
  length cs1 = length ks1 ->
  sorted_keys (ks1 ++ sep :: ks2) -> Forall (in_bounds lo hi) (ks1 ++ sep :: ks2) ->
  ords lo hi (ks1 ++ sep :: ks2) (cs1 ++ x :: y :: cs2) ->
  Forall (pshape c false h) cs1 -> Forall (pshape c false h) cs2 ->
  ord (lastb lo ks1) (firstb hi ks2) m -> pshape c false h m ->
  pbody c lo hi h (ks1 ++ ks2) (cs1 ++ m :: cs2).
Proof.
  intros * L S F O F1 F2 Om Sm.
  destruct (zip_ctx _ _ _ _ _ _ _ _ _ _ L O) as (O1 & _ & O3 & _).
  destruct (lift_keys_merge _ _ _ _ _ S F) as [S' F'].
  split; [auto|split; [auto|split]].
  - apply ords_app; auto. split; auto. eapply ords_cons_change; eauto.
  - apply Forall_app. split; auto.
Qed.
