(* Defect D12 of bplus_tree.py (still present after the repairs of D3-D5): LeafNode.delete
   returns the popped VALUE and _delete_from_leaf reports success as
   "deleted is not None".  Deleting a key whose stored value is None therefore removes the
   entry from its leaf but reports "not found": __delitem__ raises KeyError (pop raises or
   returns the default, popitem raises) and no rebalancing runs.  The model variant
   [del_by_value = true] is the code as it is; these lemmas show by evaluation that it
   violates C07 and C09, and that the repaired variant ([false], the one all theorems are
   about) does not, on the same inputs. *)
From Coq Require Import List ZArith NArith Lia.
From BPT Require Import Common.Base Common.AMap Rust.Tree Rust.InvDefs Py.Tree Py.Run Py.Inv Py.Facts Py.Spec.
Import ListNotations.
Local Open Scope Z_scope.

Definition K (z : Z) : key := mkKey z (Z.to_N z).

(* cap 4:  t[1] = None; del t[1]   ->  KeyError *)
Definition d12_witness_c07 : list op := [ONew 0%N 4%nat; OSet (K 1) PNone; ODel 1].

Theorem py_delete_none_refuted :
  snd (run true w0 d12_witness_c07) <> snd (spec_run aw0 d12_witness_c07).
Proof. vm_compute. discriminate. Qed.

Example py_delete_none_repaired :
  snd (run false w0 d12_witness_c07) = snd (spec_run aw0 d12_witness_c07).
Proof. vm_compute. reflexivity. Qed.

(* pop(k) raises, pop(k, d) returns d, popitem() raises -- all on a present key *)
Theorem py_pop_none_refuted :
  snd (run true w0 [ONew 0%N 4%nat; OSet (K 1) PNone; OPop 1 [PVal 5]]) =
    [UNone; UNone; UVal (PVal 5)] /\
  snd (run true w0 [ONew 0%N 4%nat; OSet (K 1) PNone; OPop 1 []]) =
    [UNone; UNone; UExc E_KeyError] /\
  snd (run true w0 [ONew 0%N 4%nat; OSet (K 1) PNone; OPopItem]) =
    [UNone; UNone; UExc E_KeyError].
Proof. vm_compute. repeat split. Qed.

(* cap 4: keys 1..5 (1 and 2 holding None), delete 1 and 2: the first leaf, a non-root
   node, is left with 0 keys < (4-1)/2 *)
Definition d12_witness_c09 : list op :=
  [ONew 0%N 4%nat; OSet (K 1) PNone; OSet (K 2) PNone; OSet (K 3) (PVal 30); OSet (K 4) (PVal 40);
   OSet (K 5) (PVal 50); ODel 1; ODel 2].

Theorem py_underfull_after_none_delete_refuted :
  exists s, current (fst (run true w0 d12_witness_c09)) = Some s /\ ~ PyInv s.
Proof.
  eexists. split; [vm_compute; reflexivity|].
  intros I. destruct (pi_shape I) as (h & Sh). cbn [tcap troot] in Sh.
  apply pshape_branch_inv in Sh. destruct Sh as (h' & _ & _ & _ & _ & _ & _ & Hch).
  specialize (Hch _ (or_introl eq_refl)).
  apply pshape_leaf_inv in Hch. destruct Hch as (_ & _ & _ & _ & Hmin).
  specialize (Hmin eq_refl). vm_compute in Hmin. lia.
Qed.

Example py_underfull_repaired :
  snd (run false w0 d12_witness_c09) = snd (spec_run aw0 d12_witness_c09).
Proof. vm_compute. reflexivity. Qed.
