(* Operation language of the Python map model and its step function.  Several named maps
   live side by side (copy() produces an independent map; bulk loads and constructor
   calls produce new ones); every call is directed at the current map.  The extracted
   [step] is what the correspondence check runs against the real module; the theorems of
   Props/C07-C09 are stated about [run]. *)
From BPT Require Import Common.Base Rust.Tree Py.Tree.
Set Implicit Arguments.

Inductive op : Type :=
| OSet (k : key) (v : pyval)                 (* m[k] = v *)
| OGetItem (z : Z)                           (* m[k] *)
| ODel (z : Z)                               (* del m[k] *)
| OGet (z : Z) (d : option pyval)            (* m.get(k) / m.get(k, d) *)
| OContains (z : Z)                          (* k in m *)
| OLen | OBool
| OPop (z : Z) (args : list pyval)           (* m.pop(k, *args) *)
| OPopItem
| OSetDefault (k : key) (d : option pyval)   (* m.setdefault(k) / m.setdefault(k, d) *)
| OUpdate (l : list (key * pyval))           (* m.update(pairs) *)
| OCopy (name : N)                           (* maps[name] = m.copy(); current := name *)
| OUse (name : N)                            (* current := name *)
| OClear
| OItems (a b : option Z) | OKeys (a b : option Z) | OValues (a b : option Z)
| ORange (a b : option Z)
| ONew (name : N) (c : nat)                  (* maps[name] = BPlusTreeMap(capacity=c) *)
| OBulk (name : N) (c : nat) (l : list (key * pyval)).   (* from_sorted_items(l, capacity=c) *)

Inductive out : Type :=
| UNone                                      (* the call returned None / statement completed *)
| UVal (v : pyval) | UBool (b : bool) | UNat (n : nat)
| UPair (k : key) (v : pyval)
| UItems (l : list (key * pyval)) | UKeys (l : list key) | UVals (l : list pyval)
| UExc (e : nat)                             (* exception class, codes of Py/Tree.v *)
| UNoMap                                     (* no current map (driver-level condition) *)
| UFuel | UOutOfModel.

Record world := mkW { maps : list (N * pstate); cur : N }.

Definition w0 : world := mkW [] 0%N.

Fixpoint wlookup (A : Type) (l : list (N * A)) (n : N) : option A :=
  match l with
  | [] => None
  | (m, s) :: l' => if N.eqb m n then Some s else wlookup l' n
  end.

Fixpoint wstore (A : Type) (l : list (N * A)) (n : N) (s : A) : list (N * A) :=
  match l with
  | [] => [(n, s)]
  | (m, s0) :: l' => if N.eqb m n then (m, s) :: l' else (m, s0) :: wstore l' n s
  end.

Definition exc_out (A : Type) (r : res A) : out :=
  match r with
  | Ok _ => UNone
  | Panic e => UExc e
  | OutOfFuel => UFuel
  | UB _ => UOutOfModel
  end.

Definition dflt (d : option pyval) : pyval := match d with Some v => v | None => PNone end.

Section Step.
Variable del_by_value : bool.

(* a read-only call on the current map *)
Definition rd (A : Type) (w : world) (s : pstate) (r : res A) (f : A -> out) : world * out :=
  match r with Ok a => (w, f a) | _ => (w, exc_out r) end.

(* a call that replaces the current map *)
Definition wr (A : Type) (w : world) (r : res (pstate * A)) (f : A -> out) : world * out :=
  match r with
  | Ok (s', a) => (mkW (wstore (maps w) (cur w) s') (cur w), f a)
  | _ => (w, exc_out r)
  end.

Definition step (w : world) (o : op) : world * out :=
  match o with
  | ONew n c =>
      match py_new c with
      | Ok s => (mkW (wstore (maps w) n s) n, UNone)
      | r => (w, exc_out r)
      end
  | OBulk n c l =>
      match from_sorted_items l c with
      | Ok s => (mkW (wstore (maps w) n s) n, UNone)
      | r => (w, exc_out r)
      end
  | OUse n =>
      match wlookup (maps w) n with
      | Some _ => (mkW (maps w) n, UNone)
      | None => (w, UNoMap)
      end
  | _ =>
    match wlookup (maps w) (cur w) with
    | None => (w, UNoMap)
    | Some s =>
      match o with
      | OSet k v => wr w (do s' <- py_setitem s k v; Ok (s', tt)) (fun _ => UNone)
      | OGetItem z =>
          rd w s (py_getitem s z)
             (fun g => match g with Some v => UVal v | None => UExc E_KeyError end)
      | ODel z =>
          wr w (py_delitem del_by_value s z)
             (fun d => if (d : bool) then UNone else UExc E_KeyError)
      | OGet z d => rd w s (py_get s z (dflt d)) UVal
      | OContains z => rd w s (py_contains s z) UBool
      | OLen => rd w s (py_len s) UNat
      | OBool => rd w s (py_bool s) UBool
      | OPop z args =>
          wr w (py_pop del_by_value s z args)
             (fun g => match g with Some v => UVal v | None => UExc E_KeyError end)
      | OPopItem =>
          wr w (py_popitem del_by_value s)
             (fun g => match g with Some (k, v) => UPair k v | None => UExc E_KeyError end)
      | OSetDefault k d => wr w (py_setdefault s k (dflt d)) UVal
      | OUpdate l => wr w (do s' <- py_update s l; Ok (s', tt)) (fun _ => UNone)
      | OCopy n =>
          match py_copy s with
          | Ok s' => (mkW (wstore (maps w) n s') n, UNone)
          | r => (w, exc_out r)
          end
      | OClear => (mkW (wstore (maps w) (cur w) (py_clear s)) (cur w), UNone)
      | OItems a b => rd w s (py_items s a b) UItems
      | OKeys a b => rd w s (py_keys s a b) UKeys
      | OValues a b => rd w s (py_values s a b) UVals
      | ORange a b => rd w s (py_range s a b) UItems
      | ONew _ _ | OBulk _ _ _ | OUse _ => (w, UNoMap)    (* handled above *)
      end
    end
  end.

Fixpoint run (w : world) (ops : list op) : world * list out :=
  match ops with
  | [] => (w, [])
  | o :: ops' =>
      let '(w1, x) := step w o in
      let '(w2, xs) := run w1 ops' in (w2, x :: xs)
  end.

End Step.

Definition current (w : world) : option pstate := wlookup (maps w) (cur w).
