(* __delitem__ preserves the invariant and refines m_remove (theorem py_delitem_spec). *)
From Coq Require Import List Arith ZArith NArith Lia Bool.
From BPT Require Import Common.Base Common.AMap Rust.Tree Rust.Readers Rust.InvDefs Rust.Lib
  Rust.TreeFactsR Rust.RemoveLocal Py.Tree Py.Inv Py.Facts Py.DeleteLocal.
Import ListNotations.
