(* __delitem__ preserves the invariant and refines m_remove (theorem py_delitem_spec). *)
From Coq Require Import List Arith ZArith NArith Lia Bool.
From BPT Require Import Common.Base Common.AMap Rust.Tree Rust.Readers Rust.InvDefs Rust.Lib
  Rust.TreeFactsR Rust.RemoveLocal Py.Tree Py.Inv Py.Facts Py.DeleteLocal.
Import ListNotations.

Lemma Forall_remove_at : forall (A : Type) (P : A -> Prop) i l, Forall P l -> Forall P (remove_at i l).
Proof.
  intros A P i l H. revert i. induction H; intros i; destruct i; simpl; auto.
Qed.

Lemma firstn_len_app : forall (A : Type) (l1 l2 : list A), firstn (length l1) (l1 ++ l2) = l1.
Proof. intros. rewrite firstn_app, Nat.sub_diag, firstn_all. simpl. apply app_nil_r. Qed.

Lemma skipn_len_app : forall (A : Type) (l1 l2 : list A), skipn (length l1) (l1 ++ l2) = l2.
Proof. intros. rewrite skipn_app, Nat.sub_diag, skipn_all. reflexivity. Qed.

Lemma skipn_S_len_app : forall (A : Type) (l1 : list A) x l2, skipn (S (length l1)) (l1 ++ x :: l2) = l2.
Proof.
  intros. replace (l1 ++ x :: l2) with ((l1 ++ [x]) ++ l2) by (rewrite <- app_assoc; reflexivity).
  replace (S (length l1)) with (length (l1 ++ [x])) by (rewrite app_length; cbn [length]; lia).
  apply skipn_len_app.
Qed.

(* result of the recursion at the root: well-shaped, or a key-less branch over one
   well-shaped child (which __delitem__ then installs as the root) *)
Definition pshape_r (c h : nat) (t : ptree) : Prop :=
  pshape c true h t \/
  exists id ch h', h = S h' /\ t = PBranch id c [] [ch] /\ pshape c false h' ch.

Definition del_ok (c : nat) (z : Z) (r : bool) (lo hi : option Z) (h : nat) (t t' : ptree)
    (deleted : bool) : Prop :=
  ord lo hi t' /\
  (r = false -> pshape c false h t' \/ pshape_u c h t') /\
  (r = true -> pshape_r c h t') /\
  contents t' = m_remove (contents t) z /\
  deleted = is_some (m_get (contents t) z) /\
  (deleted = false -> t' = t) /\
  links_del (leaf_links t) (leaf_links t').

Lemma del_leaf_spec : forall c z f r lo hi h id c' ks (vs : list pyval) nx,
  4 <= c -> ord lo hi (PLeaf id c' ks vs nx) -> pshape c r h (PLeaf id c' ks vs nx) ->
  exists t' deleted,
    py_del false (S f) c (PLeaf id c' ks vs nx) z = Ok (t', deleted) /\
    del_ok c z r lo hi h (PLeaf id c' ks vs nx) t' deleted.
Proof.
  intros * C O S.
  apply pshape_leaf_inv in S. destruct S as (-> & -> & Lv & L2 & L1).
  apply ord_leaf_inv in O. destruct O as [Sk F].
  cbn [py_del]. destruct (bfound ks z) eqn:B.
  - destruct (bfound_true ks z B) as (k & Ek & Kz).
    assert (Hi : lb ks z < length ks) by (apply nth_error_Some; congruence).
    destruct (nth_error vs (lb ks z)) as [v|] eqn:Ev;
      [|apply nth_error_None in Ev; lia].
    rewrite (vec_remove_ok _ _ _ Ev). cbn [bind fst snd].
    eexists. eexists. split; [reflexivity|].
    assert (Lk' : length (remove_at (lb ks z) ks) = pred (length ks)) by (apply length_remove_at; auto).
    assert (Lv' : length (remove_at (lb ks z) vs) = pred (length vs)) by (apply length_remove_at; lia).
    split; [|split; [|split; [|split; [|split; [|split]]]]].
    + constructor. apply sorted_keys_remove_at; auto. apply Forall_remove_at; auto.
    + intros ->. specialize (L1 eq_refl).
      destruct (Nat.le_gt_cases ((c - 1) / 2) (length (remove_at (lb ks z) ks))).
      * left. constructor; try lia; auto.
      * right. constructor; lia.
    + intros ->. left. constructor; try lia; discriminate.
    + cbn [contents]. apply leaf_remove; auto.
    + cbn [contents]. rewrite leaf_get; auto. rewrite B, Ev. reflexivity.
    + discriminate.
    + apply ld_refl.
  - eexists. eexists. split; [reflexivity|].
    assert (N : forall e : key * pyval, In e (combine ks vs) -> kz (fst e) <> z).
    { intros [k v] I. apply in_combine_l in I. simpl. eapply bfound_false; eauto. }
    split; [|split; [|split; [|split; [|split; [|split]]]]].
    + constructor; auto.
    + intros ->. left. constructor; auto.
    + intros ->. left. constructor; auto.
    + cbn [contents]. rewrite m_remove_notin; auto.
    + cbn [contents]. rewrite m_get_none_notin; auto.
    + auto.
    + apply ld_refl.
Qed.

Definition del_IH (c : nat) (z : Z) (f : nat) : Prop :=
  forall (t : ptree) lo hi h, ord lo hi t -> pshape c false h t -> h < f ->
  exists t' deleted,
    py_del false f c t z = Ok (t', deleted) /\ del_ok c z false lo hi h t t' deleted.

Lemma prb_post_refl : forall c lo hi h ks (cs : list ptree),
  pbody c lo hi h ks cs -> prb_post c lo hi h ks cs ks cs.
Proof. intros. split; [auto|split; [left; auto|split; [auto|apply ld_refl]]]. Qed.

Lemma del_branch_spec : forall c z f r lo hi h id c' ks (cs : list ptree),
  4 <= c -> del_IH c z f ->
  ord lo hi (PBranch id c' ks cs) -> pshape c r h (PBranch id c' ks cs) -> h < S f ->
  exists t' deleted,
    py_del false (S f) c (PBranch id c' ks cs) z = Ok (t', deleted) /\
    del_ok c z r lo hi h (PBranch id c' ks cs) t' deleted.
Proof.
  intros * C IH O S Hf.
  pose proof (pmin_facts C) as PM.
  pose proof (p_branch_contents_split z O S) as [B1 B2].
  apply pshape_branch_invF in S. destruct S as (h' & -> & -> & L & L2 & L1 & Lr & Fs).
  apply ord_branch_inv in O; auto. destruct O as (Sk & F & O).
  pose proof (child_index_le_length ks z) as Hci.
  destruct (nth_error cs (child_index ks z)) as [ch|] eqn:Hn;
    [|apply nth_error_None in Hn; lia].
  cbn [py_del]. rewrite (find_child_index_ok _ _ z L). cbn [bind].
  rewrite (vec_get_ok _ _ _ Hn). cbn [bind].
  destruct (nth_error_zip_inv _ _ Hn) as (cs1 & cs2 & -> & Lc1).
  destruct (split_at ks Hci) as (ks1 & ks2 & -> & Lk1).
  assert (Lc : length cs1 = length ks1) by lia.
  rewrite <- Lc1 in B1, B2. rewrite firstn_len_app in B1. rewrite skipn_S_len_app in B2.
  pose proof O as O'. apply ords_app in O'; auto. destruct O' as [O1 O2].
  pose proof (ords_cons_inv _ _ _ _ _ O2) as Och.
  apply Forall_app in Fs. destruct Fs as [F1 Fs]. inversion Fs as [|? ? Sch F2]; subst.
  destruct (IH ch _ _ h' Och Sch ltac:(lia)) as (ch' & deleted & E1 & R1).
  destruct R1 as (Och' & Sf & _ & Ct & Rm & Nn & Lk).
  specialize (Sf eq_refl).
  assert (CtR : m_remove (CT (cs1 ++ ch :: cs2)) z = CT cs1 ++ m_remove (contents ch) z ++ CT cs2).
  { rewrite flat_map_zip1. rewrite m_remove_app_r by auto. rewrite m_remove_app_l by auto. reflexivity. }
  assert (CtG : m_get (CT (cs1 ++ ch :: cs2)) z = m_get (contents ch) z).
  { rewrite flat_map_zip1. rewrite m_get_app_r by auto. rewrite m_get_app_l by auto. reflexivity. }
  rewrite E1. cbn [bind].
  rewrite <- Lc1. rewrite set_nth_zip0.
  assert (KL : 1 <= length (ks1 ++ ks2)).
  { destruct r; [auto|]. specialize (L1 eq_refl). lia. }
  destruct deleted.
  - cbn [negb].
    assert (RB : exists ks' cs',
      (if orb (Nat.eqb (length (pkeys ch')) 0) (py_is_underfull ch')
       then handle_underflow c (ks1 ++ ks2) (cs1 ++ ch' :: cs2) (length cs1)
       else Ok (ks1 ++ ks2, cs1 ++ ch' :: cs2)) = Ok (ks', cs') /\
      prb_post c lo hi h' (ks1 ++ ks2) (cs1 ++ ch' :: cs2) ks' cs').
    { assert (O3 : ords lo hi (ks1 ++ ks2) (cs1 ++ ch' :: cs2)).
      { apply ords_app; auto. split; auto. eapply ords_cons_change; eauto. }
      destruct Sf as [Sf|Sf].
      - rewrite (pshape_no_trigger _ _ _ C Sf).
        exists (ks1 ++ ks2), (cs1 ++ ch' :: cs2). split; [reflexivity|].
        apply prb_post_refl. split; [auto|split; [auto|split; [auto|]]].
        apply Forall_app. split; auto.
      - rewrite (pshape_u_trigger _ _ _ Sf). apply handle_underflow_spec; auto. }
    destruct RB as (ks' & cs' & E2 & (Bd & Ln & Ct2 & Lk2)).
    rewrite E2. cbn [bind fst snd].
    eexists. eexists. split; [reflexivity|].
    destruct Bd as (Sk' & F' & O4 & Fs').
    pose proof (ords_length _ _ _ _ O4) as L'.
    assert (L2' : length ks' <= c) by lia.
    split; [|split; [|split; [|split; [|split; [|split]]]]].
    + apply ord_branch_intro; auto.
    + intros ->. specialize (L1 eq_refl).
      destruct (Nat.le_gt_cases ((c - 1) / 2) (length ks')).
      * left. apply pshape_branch_intro; auto. discriminate.
      * right. constructor; auto. lia.
    + intros ->. specialize (Lr eq_refl). destruct ks' as [|k0 ks'].
      * right. destruct cs' as [|c0 [|c1 cs']]; try discriminate.
        inversion Fs'; subst. exists id, c0, h'. auto.
      * left. apply pshape_branch_intro; auto; try discriminate. cbn [length]. lia.
    + cbn [contents]. rewrite Ct2. rewrite flat_map_zip1. rewrite Ct. symmetry. exact CtR.
    + cbn [contents]. rewrite CtG. exact Rm.
    + discriminate.
    + cbn [leaf_links]. eapply links_del_trans; [|exact Lk2].
      rewrite !flat_map_zip1. apply links_del_frame. exact Lk.
  - cbn [negb]. rewrite (Nn eq_refl) in *.
    eexists. eexists. split; [reflexivity|].
    assert (St : forall r', (r' = r) -> pshape c r' (S h') (PBranch id c (ks1 ++ ks2) (cs1 ++ ch :: cs2))).
    { intros r' ->. apply pshape_branch_intro; auto. apply Forall_app; split; auto. }
    split; [|split; [|split; [|split; [|split; [|split]]]]].
    + apply ord_branch_intro; auto.
    + intros ->. left. apply St; auto.
    + intros ->. left. apply St; auto.
    + cbn [contents]. rewrite CtR. rewrite <- Ct. rewrite flat_map_zip1. reflexivity.
    + cbn [contents]. rewrite CtG. exact Rm.
    + auto.
    + apply ld_refl.
Qed.

Lemma del_spec : forall c z f (t : ptree) r lo hi h,
  4 <= c -> ord lo hi t -> pshape c r h t -> h < f ->
  exists t' deleted,
    py_del false f c t z = Ok (t', deleted) /\ del_ok c z r lo hi h t t' deleted.
Proof.
  intros c z f. induction f; intros * C O S Hf; [lia|].
  destruct t as [id c' ks vs nx|id c' ks cs].
  - apply del_leaf_spec; auto.
  - apply del_branch_spec; auto.
    intros t0 lo0 hi0 h0 O0 S0 H0. apply IHf; auto.
Qed.

(* ---------------- root collapse ---------------- *)
Definition collapse (t : ptree) : ptree :=
  match t with
  | PBranch _ _ _ [only] => only
  | _ => t
  end.

Lemma collapse_spec : forall c h (t : ptree), 4 <= c -> pshape_r c h t ->
  exists h', pshape c true h' (collapse t) /\ h' <= h /\
    (ord None None t -> ord None None (collapse t)) /\
    contents (collapse t) = contents t /\ leaf_links (collapse t) = leaf_links t.
Proof.
  intros * C [S|(id & ch & h' & -> & -> & S)].
  - exists h. assert (E : collapse t = t).
    { inversion S; subst; [reflexivity|].
      specialize (H2 eq_refl). destruct ks as [|k0 ks]; [cbn [length] in H2; lia|].
      destruct cs as [|c0 [|c1 cs]]; try discriminate. reflexivity. }
    rewrite E. auto.
  - exists h'. cbn [collapse]. split; [|split; [|split; [|split]]].
    + apply pshape_root_relax; auto.
    + lia.
    + intro O. apply ord_branch_inv in O; auto. destruct O as (_ & _ & O). simpl in O. tauto.
    + simpl. rewrite app_nil_r. reflexivity.
    + simpl. rewrite app_nil_r. reflexivity.
Qed.

(* ---------------- main theorem ---------------- *)
Theorem py_delitem_spec : forall s z, PyInv s ->
  exists s', py_delitem false s z = Ok (s', is_some (m_get (pcontents s) z)) /\ PyInv s' /\
    pcontents s' = m_remove (pcontents s) z /\
    tcap s' = tcap s /\ tleaves s' = tleaves s /\ tcache s' = tcache s /\ tnext s' = tnext s.
Proof.
  intros s z [Icap Iord [h Ish] Ich Ind Iids Inext Ihd Icache].
  pose proof (pshape_height Ish) as Hh.
  destruct (del_spec (tcap s) z (S (height (troot s))) (troot s) true None None h
              Icap Iord Ish ltac:(lia)) as (t' & deleted & E & R).
  destruct R as (Ot & _ & Sr & Ct & Rm & Nn & Lk). specialize (Sr eq_refl).
  unfold py_delitem. rewrite E. cbn [bind]. unfold pcontents. rewrite <- Rm.
  destruct deleted.
  - destruct (collapse_spec (tcap s) h t' Icap Sr) as (h'' & S2 & _ & O2 & Ct2 & Ll2).
    exists (mkP (tcap s) (collapse t') (tleaves s) (tcache s) (tnext s)).
    split; [reflexivity|]. cbn [tcap troot tleaves tcache tnext].
    split; [|split; [|auto]].
    + constructor; cbn [tcap troot tleaves tcache tnext]; auto.
      * eauto.
      * unfold chain_ok in *. rewrite Ll2. eapply links_del_ok; eauto.
      * unfold leaf_ids in *. rewrite Ll2. eapply links_del_nodup; eauto.
      * unfold ids_below, leaf_ids in *. rewrite Ll2. intros id0 I0. apply Iids.
        eapply links_del_in; eauto.
      * unfold leaf_ids in *. rewrite Ll2. rewrite (links_del_hd _ _ Lk). exact Ihd.
    + rewrite Ct2. exact Ct.
  - rewrite (Nn eq_refl) in *.
    exists (mkP (tcap s) (troot s) (tleaves s) (tcache s) (tnext s)).
    split; [reflexivity|]. cbn [tcap troot tleaves tcache tnext].
    split; [|split; [|auto]].
    + constructor; cbn [tcap troot tleaves tcache tnext]; eauto.
    + exact Ct.
Qed.

(* an absent key leaves the state literally unchanged (KeyError path) *)
Lemma py_delitem_absent : forall s z, PyInv s -> m_get (pcontents s) z = None ->
  py_delitem false s z = Ok (s, false).
Proof.
  intros s z [Icap Iord [h Ish] Ich Ind Iids Inext Ihd Icache] G.
  pose proof (pshape_height Ish) as Hh.
  destruct (del_spec (tcap s) z (S (height (troot s))) (troot s) true None None h
              Icap Iord Ish ltac:(lia)) as (t' & deleted & E & R).
  destruct R as (_ & _ & _ & _ & Rm & Nn & _).
  unfold pcontents in G. rewrite G in Rm. cbn [is_some] in Rm. subst deleted.
  rewrite (Nn eq_refl) in E. unfold py_delitem. rewrite E. cbn [bind].
  destruct s; reflexivity.
Qed.

(* the height never grows *)
Lemma py_delitem_height : forall s z s' b, PyInv s -> py_delitem false s z = Ok (s', b) ->
  height (troot s') <= height (troot s).
Proof.
  intros s z s' b [Icap Iord [h Ish] Ich Ind Iids Inext Ihd Icache] E0.
  pose proof (pshape_height Ish) as Hh.
  destruct (del_spec (tcap s) z (S (height (troot s))) (troot s) true None None h
              Icap Iord Ish ltac:(lia)) as (t' & deleted & E & R).
  destruct R as (_ & _ & Sr & _ & _ & Nn & _). specialize (Sr eq_refl).
  unfold py_delitem in E0. rewrite E in E0. cbn [bind] in E0.
  destruct deleted.
  - destruct (collapse_spec (tcap s) h t' Icap Sr) as (h'' & S2 & Hle & _).
    injection E0 as <- <-. cbn [troot]. change (height (collapse t') <= height (troot s)).
    rewrite (pshape_height S2). lia.
  - rewrite (Nn eq_refl) in E0. injection E0 as <- <-. cbn [troot]. lia.
Qed.

(* ---------------- a concrete run (non-vacuity) ---------------- *)
(* 20 keys inserted at capacity 4 give a tree of height 2; deleting them one by one
   (one absent key among them) exercises borrows, leaf and branch merges and two root
   collapses; the reported flags, the heights after each call and the final contents are
   as the theorem says. *)
Module DeleteExample.
Open Scope Z_scope.

Fixpoint build (s : pstate) (l : list Z) : res pstate :=
  match l with
  | [] => Ok s
  | z :: l' => do s' <- py_setitem s (mkKey z (Z.to_N z)) (PVal (z * 10)); build s' l'
  end.

(* final state, reported flags, height after each call *)
Fixpoint del_many (s : pstate) (l : list Z) : res (pstate * list bool * list nat) :=
  match l with
  | [] => Ok (s, [], [])
  | z :: l' =>
      do r <- py_delitem false s z;
      do r' <- del_many (fst r) l';
      Ok (fst (fst r'), snd r :: snd (fst r'), height (troot (fst r)) :: snd r')
  end.

Definition keys20 : list Z := [10; 3; 17; 1; 8; 15; 20; 5; 12; 7; 19; 2; 14; 9; 16; 4; 11; 18; 6; 13].
Definition dels : list Z := [10; 1; 20; 7; 13; 99; 4; 16; 2; 18; 9; 5; 12; 3; 15; 8; 19; 6; 11; 14].

Definition run : res (pstate * (pstate * list bool * list nat)) :=
  do s <- py_new 4; do s0 <- build s keys20; do r <- del_many s0 dels; Ok (s0, r).

Example delete_nonvacuous :
  exists s0 s1,
    run = Ok (s0, (s1,
      [true; true; true; true; true; false; true; true; true; true;
       true; true; true; true; true; true; true; true; true; true],
      [2; 2; 2; 2; 2; 2; 2; 2; 2; 2; 2; 2; 2; 2; 2; 2; 2; 1; 1; 0]%nat)) /\
    height (troot s0) = 2%nat /\ length (pcontents s0) = 20%nat /\
    pcontents s1 = fold_left (@m_remove pyval) dels (pcontents s0) /\
    pcontents s1 = [(mkKey 17 17, PVal 170)] /\
    troot s1 = PLeaf 0 4 [mkKey 17 17] [PVal 170] NULL /\
    tleaves s1 = tleaves s0 /\ tnext s1 = tnext s0.
Proof.
  pose (r := run).
  assert (E : r = run) by reflexivity. vm_compute in E.
  match type of E with _ = Ok (?a, (?b, _, _)) => exists a, b end.
  vm_compute. repeat split; reflexivity.
Qed.

End DeleteExample.

Print Assumptions py_delitem_spec.
Print Assumptions merge_guard_never_refuses.
