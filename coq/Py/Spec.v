(* The abstract specification of the Python map API: every map is a capacity and a sorted
   association list over [pyval] ([Common/AMap.v]) -- dict semantics observed through
   calls: results, KeyErrors, and the key object kept on overwrite (dict, too, keeps the
   key object stored first and replaces the value).  [spec_step] gives the result each
   operation of [Py/Run.v] must return.  PNone is an ordinary value here. *)
From BPT Require Import Common.Base Common.AMap Rust.Tree Py.Tree Py.Run Py.Inv.
Set Implicit Arguments.

Notation pmap := (amap pyval).

Record aworld := mkAW { amaps : list (N * (nat * pmap)); acur : N }.
Definition aw0 : aworld := mkAW [] 0%N.

Fixpoint m_insert_all (m : pmap) (l : list (key * pyval)) : pmap :=
  match l with
  | [] => m
  | (k, v) :: l' => m_insert_all (m_insert m k v) l'
  end.

Definition spec_step (aw : aworld) (o : op) : aworld * out :=
  match o with
  | ONew n c =>
      if Nat.ltb c 4 then (aw, UExc E_InvalidCapacity)
      else (mkAW (wstore (amaps aw) n (c, [])) n, UNone)
  | OBulk n c l =>
      if Nat.ltb c 4 then (aw, UExc E_InvalidCapacity)
      else (mkAW (wstore (amaps aw) n (c, m_insert_all [] l)) n, UNone)
  | OUse n =>
      match wlookup (amaps aw) n with
      | Some _ => (mkAW (amaps aw) n, UNone)
      | None => (aw, UNoMap)
      end
  | _ =>
    match wlookup (amaps aw) (acur aw) with
    | None => (aw, UNoMap)
    | Some (c, m) =>
      let put m' := mkAW (wstore (amaps aw) (acur aw) (c, m')) (acur aw) in
      match o with
      | OSet k v => (put (m_insert m k v), UNone)
      | OGetItem z =>
          (aw, match m_get m z with Some v => UVal v | None => UExc E_KeyError end)
      | ODel z =>
          match m_get m z with
          | Some _ => (put (m_remove m z), UNone)
          | None => (put m, UExc E_KeyError)
          end
      | OGet z d => (aw, UVal (match m_get m z with Some v => v | None => dflt d end))
      | OContains z => (aw, UBool (is_some (m_get m z)))
      | OLen => (aw, UNat (length m))
      | OBool => (aw, UBool (Nat.ltb 0 (length m)))
      | OPop z args =>
          if Nat.ltb 1 (length args) then (aw, UExc E_TypeError) else
          match m_get m z with
          | Some v => (put (m_remove m z), UVal v)
          | None => (put m, match hd_error args with Some d => UVal d | None => UExc E_KeyError end)
          end
      | OPopItem =>
          match m with
          | [] => (put m, UExc E_KeyError)
          | (k, v) :: m' => (put m', UPair k v)          (* the smallest key *)
          end
      | OSetDefault k d =>
          match m_get m (kz k) with
          | Some v => (put m, UVal v)
          | None => (put (m_insert m k (dflt d)), UVal (dflt d))
          end
      | OUpdate l => (put (m_insert_all m l), UNone)
      | OCopy n => (mkAW (wstore (amaps aw) n (c, m)) n, UNone)
      | OClear => (put [], UNone)
      | OItems a b | ORange a b => (aw, UItems (m_items m a b))
      | OKeys a b => (aw, UKeys (map fst (m_items m a b)))
      | OValues a b => (aw, UVals (map snd (m_items m a b)))
      | ONew _ _ | OBulk _ _ _ | OUse _ => (aw, UNoMap)
      end
    end
  end.

Fixpoint spec_run (aw : aworld) (ops : list op) : aworld * list out :=
  match ops with
  | [] => (aw, [])
  | o :: ops' =>
      let '(a1, x) := spec_step aw o in
      let '(a2, xs) := spec_run a1 ops' in (a2, x :: xs)
  end.

(* the refinement relation between model worlds and abstract worlds *)
Definition map_rel (p : N * pstate) (q : N * (nat * pmap)) : Prop :=
  fst p = fst q /\ PyInv (snd p) /\ tcap (snd p) = fst (snd q) /\ pcontents (snd p) = snd (snd q).

Definition world_rel (w : world) (aw : aworld) : Prop :=
  cur w = acur aw /\ Forall2 map_rel (maps w) (amaps aw).
