(* Walking the leaf chain by object identity: on a tree whose chain is intact
   ([chain_ok]), whose leaf ids are pairwise distinct and different from NULL, a walk that
   starts at the id of some in-order leaf and follows [next] visits exactly the in-order
   leaves from there on and stops at NULL.  Instances: [key_count], [last_leaf],
   [items_walk].  Plus the list facts about [leaf_scan] / take_while / filter on sorted
   association lists used by the items(start, end) theorem. *)
From Coq Require Import List Arith ZArith NArith Lia Bool.
From BPT Require Import Common.Base Common.AMap Rust.Tree Rust.Readers Rust.InvDefs Rust.Lib
  Rust.TreeFactsI Py.Tree Py.Inv Py.Facts Py.LeafFacts.
Import ListNotations.
Set Implicit Arguments.

(* ------------------------------------------------------------------ *)
(* the chain on the list of leaves *)

(* id of the first leaf of a list of leaves; NULL (Python None) when there is none *)
Definition head_id (L : list ptree) : N :=
  match L with [] => NULL | l :: _ => pid l end.

Lemma links_ok_app_inv : forall (l1 l2 : list (N * N)) after,
  links_ok (l1 ++ l2) after -> links_ok l2 after.
Proof.
  induction l1 as [|[i n] l1 IH]; intros l2 after H; [exact H|].
  cbn [app links_ok] in H. destruct H as [_ H]. auto.
Qed.

Lemma links_ok_head : forall (l : ptree) (L2 : list ptree) after,
  links_ok (map link_of (l :: L2)) after ->
  leaf_next l = match L2 with [] => after | l' :: _ => pid l' end /\
  links_ok (map link_of L2) after.
Proof.
  intros l L2 after H. cbn [map links_ok link_of] in H. unfold link_of in H at 1.
  destruct H as [H1 H2]. split; [|exact H2].
  destruct L2 as [|l' L2]; cbn [map] in H1; [exact H1|]. unfold link_of in H1. exact H1.
Qed.

(* one step of any chain walk *)
Lemma walk_step : forall (t : ptree) L1 l L2,
  NoDup (pleaf_ids t) -> chain_ok t -> leaves_of t = L1 ++ l :: L2 ->
  exists id c ks vs, l = PLeaf id c ks vs (head_id L2) /\ find_leaf t id = Some l.
Proof.
  intros t L1 l L2 ND CO E.
  pose proof (find_leaf_at t L1 l L2 ND E) as F.
  unfold chain_ok in CO. rewrite leaf_links_leaves, E, map_app in CO.
  apply links_ok_app_inv in CO. apply links_ok_head in CO. destruct CO as [Hn _].
  pose proof (leaves_of_leaf t) as LL. rewrite E in LL. apply Forall_app in LL.
  destruct LL as [_ LL]. inversion LL as [|x xs Hl _]; subst.
  destruct l as [id c ks vs nx | id c ks cs]; [|discriminate].
  cbn [leaf_next] in Hn. cbn [pid] in F. exists id, c, ks, vs. split; [|exact F].
  f_equal. rewrite Hn. destruct L2; reflexivity.
Qed.

Lemma head_id_not_null : forall (t : ptree) L1 L2,
  (forall id, In id (pleaf_ids t) -> id <> NULL) -> leaves_of t = L1 ++ L2 -> L2 <> [] ->
  head_id L2 <> NULL.
Proof.
  intros t L1 L2 NN E Hne. destruct L2 as [|l L2]; [congruence|]. cbn [head_id].
  apply NN. rewrite leaf_ids_leaves, E, map_app. apply in_or_app. right. left. reflexivity.
Qed.

(* ------------------------------------------------------------------ *)
(* key_count *)
Definition nkeys (L : list ptree) : nat := list_sum (map (fun l => length (@pkeys pyval l)) L).

Lemma key_count_walk : forall (t : ptree),
  NoDup (pleaf_ids t) -> chain_ok t -> (forall id, In id (pleaf_ids t) -> id <> NULL) ->
  forall L2 L1 fuel acc, leaves_of t = L1 ++ L2 -> length L2 <= fuel ->
  key_count fuel t (head_id L2) acc = Ok (acc + nkeys L2).
Proof.
  intros t ND CO NN. induction L2 as [|l L2 IH]; intros L1 fuel acc E Hf.
  - cbn [head_id]. destruct fuel; cbn [key_count]; rewrite N.eqb_refl;
      unfold nkeys; cbn; f_equal; lia.
  - pose proof (@head_id_not_null t L1 (l :: L2) NN E ltac:(discriminate)) as Hnn.
    destruct (@walk_step t L1 l L2 ND CO E) as (id & c & ks & vs & -> & F).
    cbn [head_id pid] in *. cbn [length] in Hf. destruct fuel as [|fuel]; [lia|].
    cbn [key_count]. destruct (N.eqb_spec id NULL) as [Ei|_]; [congruence|].
    rewrite F.
    rewrite (IH (L1 ++ [PLeaf id c ks vs (head_id L2)]) fuel (acc + length ks)).
    + unfold nkeys. cbn [map list_sum fold_right pkeys]. f_equal.
      change (fold_right Nat.add 0 (map (fun l0 : ptree => length (pkeys l0)) L2))
        with (list_sum (map (fun l0 : ptree => length (pkeys l0)) L2)). lia.
    + rewrite <- app_assoc. exact E.
    + lia.
Qed.

(* leaves with as many values as keys *)
Definition leaf_wf (l : ptree) : Prop :=
  match l with PLeaf _ _ ks vs _ => length vs = length ks | PBranch _ _ _ _ => False end.

Lemma leaves_wf : forall c r h (t : ptree), pshape c r h t -> Forall leaf_wf (leaves_of t).
Proof.
  intros c r h t Sh. apply Forall_forall. intros l Hl.
  destruct (leaves_of_pshape Sh l Hl) as (r' & S' & _).
  destruct (pshape_0_leaf S') as (id & ks & vs & nx & ->).
  destruct (pshape_leaf_inv S') as (_ & _ & Lv & _). exact Lv.
Qed.

Lemma nkeys_contents : forall (L : list ptree), Forall leaf_wf L ->
  nkeys L = length (flat_map (@contents pyval) L).
Proof.
  induction L as [|l L IH]; intros F; [reflexivity|]. inversion F as [|x xs Hl F']; subst.
  unfold nkeys in *. cbn [map list_sum fold_right flat_map]. rewrite app_length.
  change (fold_right Nat.add 0 (map (fun l0 : ptree => length (pkeys l0)) L))
    with (list_sum (map (fun l0 : ptree => length (pkeys l0)) L)).
  rewrite (IH F'). f_equal.
  destruct l as [id c ks vs nx | id c ks cs]; [|destruct Hl].
  cbn [pkeys contents leaf_wf] in *. rewrite combine_length. lia.
Qed.

(* ------------------------------------------------------------------ *)
(* last_leaf *)
Lemma last_cons_indep : forall (A : Type) (l : list A) x d d',
  List.last (x :: l) d = List.last (x :: l) d'.
Proof.
  induction l as [|y l IH]; intros x d d'; [reflexivity|].
  change (List.last (y :: l) d = List.last (y :: l) d'). apply IH.
Qed.

Lemma last_leaf_walk : forall (t : ptree),
  NoDup (pleaf_ids t) -> chain_ok t -> (forall id, In id (pleaf_ids t) -> id <> NULL) ->
  forall L2 l L1 fuel, leaves_of t = L1 ++ l :: L2 -> length L2 < fuel ->
  last_leaf fuel t (pid l) = Ok (pid (List.last L2 l)).
Proof.
  intros t ND CO NN. induction L2 as [|l' L2 IH]; intros l L1 fuel E Hf.
  - destruct (@walk_step t L1 l [] ND CO E) as (id & c & ks & vs & -> & F).
    destruct fuel as [|fuel]; [cbn in Hf; lia|]. cbn [last_leaf pid head_id List.last].
    rewrite F. cbn [head_id]. rewrite N.eqb_refl. reflexivity.
  - destruct (@walk_step t L1 l (l' :: L2) ND CO E) as (id & c & ks & vs & -> & F).
    cbn [length] in Hf. destruct fuel as [|fuel]; [lia|]. cbn [last_leaf pid].
    rewrite F. cbn [head_id].
    assert (Hnn : pid l' <> NULL).
    { apply (@head_id_not_null t (L1 ++ [PLeaf id c ks vs (pid l')]) (l' :: L2) NN).
      - rewrite <- app_assoc. exact E.
      - discriminate. }
    destruct (N.eqb_spec (pid l') NULL) as [Ei|_]; [congruence|].
    rewrite (IH l' (L1 ++ [PLeaf id c ks vs (pid l')]) fuel).
    + f_equal. f_equal. destruct L2 as [|y L2]; [reflexivity|].
      change (List.last (y :: L2) l' = List.last (y :: L2) (PLeaf id c ks vs (pid l'))).
      apply last_cons_indep.
    + rewrite <- app_assoc. exact E.
    + lia.
Qed.

(* the last leaf of an intact chain points to NULL *)
Lemma last_leaf_next_null : forall (t : ptree) L1 l,
  chain_ok t -> leaves_of t = L1 ++ [l] -> exists id c ks vs, l = PLeaf id c ks vs NULL.
Proof.
  intros t L1 l CO E. unfold chain_ok in CO. rewrite leaf_links_leaves, E, map_app in CO.
  apply links_ok_app_inv in CO. apply links_ok_head in CO. destruct CO as [Hn _].
  pose proof (leaves_of_leaf t) as LL. rewrite E in LL. apply Forall_app in LL.
  destruct LL as [_ LL]. inversion LL as [|x xs Hl _]; subst.
  destruct l as [id c ks vs nx | id c ks cs]; [|discriminate].
  cbn [leaf_next] in Hn. subst nx. eauto.
Qed.

(* ------------------------------------------------------------------ *)
(* leaf_scan and items_walk as take_while *)
Fixpoint take_while (A : Type) (p : A -> bool) (l : list A) : list A :=
  match l with
  | [] => []
  | x :: l' => if p x then x :: take_while p l' else []
  end.

Lemma take_while_app : forall (A : Type) (p : A -> bool) l1 l2,
  take_while p (l1 ++ l2) = if forallb p l1 then l1 ++ take_while p l2 else take_while p l1.
Proof.
  induction l1 as [|x l1 IH]; intros l2; [reflexivity|]. cbn [app take_while forallb].
  destruct (p x); cbn [andb]; [|reflexivity]. rewrite IH. destruct (forallb p l1); reflexivity.
Qed.

Lemma take_while_all : forall (A : Type) (p : A -> bool) l, forallb p l = true -> take_while p l = l.
Proof.
  induction l as [|x l IH]; intros H; [reflexivity|]. cbn [forallb] in H.
  apply andb_prop in H. destruct H as [H1 H2]. cbn [take_while]. rewrite H1, IH; auto.
Qed.

(* entries before the end key *)
Definition keep (e : option Z) (x : key * pyval) : bool := negb (past_end e (fst x)).

Lemma leaf_scan_spec : forall ks vs e, length vs = length ks ->
  leaf_scan ks vs e = Ok (take_while (keep e) (combine ks vs),
                          negb (forallb (keep e) (combine ks vs))).
Proof.
  induction ks as [|k ks IH]; intros vs e L; [reflexivity|].
  destruct vs as [|v vs]; [discriminate|]. cbn [length] in L. injection L as L.
  cbn [leaf_scan combine take_while forallb]. unfold keep at 1 3. cbn [fst].
  destruct (past_end e k); cbn [negb andb]; [reflexivity|].
  rewrite (IH vs e L). reflexivity.
Qed.

Lemma combine_skipn : forall (A B : Type) n (l : list A) (r : list B),
  combine (skipn n l) (skipn n r) = skipn n (combine l r).
Proof.
  induction n as [|n IH]; intros l r; [reflexivity|].
  destruct l as [|a l]; [reflexivity|]. destruct r as [|b r].
  - cbn [skipn combine]. destruct (skipn n l); reflexivity.
  - cbn [skipn combine]. apply IH.
Qed.

Lemma combine_firstn' : forall (A B : Type) n (l : list A) (r : list B),
  combine (firstn n l) (firstn n r) = firstn n (combine l r).
Proof.
  induction n as [|n IH]; intros l r; [reflexivity|].
  destruct l as [|a l]; [reflexivity|]. destruct r as [|b r]; [reflexivity|].
  cbn [firstn combine]. f_equal. apply IH.
Qed.

(* the entries visited from index [idx] of the first leaf of [L] on *)
Definition from_idx (idx : nat) (L : list ptree) : list (key * pyval) :=
  match L with
  | [] => []
  | l :: L' => skipn idx (contents l) ++ flat_map (@contents pyval) L'
  end.

Lemma from_idx_0 : forall L, from_idx 0 L = flat_map (@contents pyval) L.
Proof. destruct L; reflexivity. Qed.

Lemma items_walk_spec : forall (t : ptree) e,
  NoDup (pleaf_ids t) -> chain_ok t -> (forall id, In id (pleaf_ids t) -> id <> NULL) ->
  forall L2 L1 fuel idx, leaves_of t = L1 ++ L2 -> Forall leaf_wf L2 -> length L2 <= fuel ->
  items_walk fuel t (head_id L2) idx e = Ok (take_while (keep e) (from_idx idx L2)).
Proof.
  intros t e ND CO NN. induction L2 as [|l L2 IH]; intros L1 fuel idx E W Hf.
  - cbn [head_id from_idx take_while]. destruct fuel; cbn [items_walk]; rewrite N.eqb_refl; reflexivity.
  - pose proof (@head_id_not_null t L1 (l :: L2) NN E ltac:(discriminate)) as Hnn.
    destruct (@walk_step t L1 l L2 ND CO E) as (id & c & ks & vs & -> & F).
    inversion W as [|x xs Wl W']; subst. cbn [leaf_wf] in Wl.
    cbn [head_id pid] in *. cbn [length] in Hf. destruct fuel as [|fuel]; [lia|].
    cbn [items_walk]. destruct (N.eqb_spec id NULL) as [Ei|_]; [congruence|].
    rewrite F. rewrite leaf_scan_spec by (rewrite !skipn_length; lia).
    cbn [bind fst snd]. cbn [from_idx contents]. rewrite take_while_app.
    rewrite combine_skipn.
    destruct (forallb (keep e) (skipn idx (combine ks vs))) eqn:Ea; cbn [negb].
    + rewrite (IH (L1 ++ [PLeaf id c ks vs (head_id L2)]) fuel 0).
      * cbn [bind]. rewrite from_idx_0. rewrite (take_while_all _ _ Ea). reflexivity.
      * rewrite <- app_assoc. exact E.
      * exact W'.
      * lia.
    + reflexivity.
Qed.

(* ------------------------------------------------------------------ *)
(* filter on a sorted association list = take_while on the suffix from the start key *)
Lemma filter_none : forall (A : Type) (p : A -> bool) l,
  (forall x, In x l -> p x = false) -> filter p l = [].
Proof.
  induction l as [|x l IH]; intros H; [reflexivity|]. cbn [filter].
  rewrite (H x (or_introl eq_refl)). apply IH. intros y Hy. apply H. right. exact Hy.
Qed.

Lemma m_sorted_app_r : forall (A B : amap pyval), m_sorted (A ++ B) -> m_sorted B.
Proof.
  intros A B H. unfold m_sorted in *. rewrite map_app in H. apply sorted_keys_app in H. tauto.
Qed.

Lemma m_sorted_app_l : forall (A B : amap pyval), m_sorted (A ++ B) -> m_sorted A.
Proof.
  intros A B H. unfold m_sorted in *. rewrite map_app in H. apply sorted_keys_app in H. tauto.
Qed.

Lemma filter_keep_sorted : forall (m : amap pyval) b, m_sorted m ->
  filter (keep b) m = take_while (keep b) m.
Proof.
  induction m as [|[k v] m IH]; intros b Hs; [reflexivity|].
  apply Lib_m_sorted_cons_inv in Hs. destruct Hs as [Hs Hall].
  cbn [filter take_while]. destruct (keep b (k, v)) eqn:Ek.
  - f_equal. apply IH. exact Hs.
  - apply filter_none. intros x Hx. specialize (Hall x Hx).
    unfold keep, past_end in *. cbn [fst] in Ek. destruct b as [y|]; [|discriminate].
    destruct (Z.leb_spec y (kz k)); [|discriminate].
    destruct (Z.leb_spec y (kz (fst x))); [reflexivity|lia].
Qed.

Lemma in_range_keep : forall a b (x : key * pyval),
  (match a with Some z => (z <= kz (fst x))%Z | None => True end) ->
  in_range a b (kz (fst x)) = keep b x.
Proof.
  intros a b x H. unfold in_range, keep, past_end.
  replace (match a with Some x0 => (x0 <=? kz (fst x))%Z | None => true end) with true.
  - cbn [andb]. destruct b as [y|]; [|reflexivity]. apply Z.ltb_antisym.
  - destruct a as [z|]; [|reflexivity]. symmetry. apply Z.leb_le. exact H.
Qed.

(* m_items of A ++ B when the start key separates A from B *)
Lemma m_items_split : forall (A B : amap pyval) x b,
  (forall e, In e A -> (kz (fst e) < x)%Z) -> (forall e, In e B -> (x <= kz (fst e))%Z) ->
  m_sorted B -> m_items (A ++ B) (Some x) b = take_while (keep b) B.
Proof.
  intros A B x b HA HB Hs. unfold m_items. rewrite filter_app.
  rewrite filter_none.
  - cbn [app]. rewrite <- filter_keep_sorted by exact Hs. apply filter_ext_in.
    intros e He. apply in_range_keep. apply HB. exact He.
  - intros e He. specialize (HA e He). unfold in_range.
    destruct (Z.leb_spec x (kz (fst e))); [lia|reflexivity].
Qed.

Lemma m_items_from_start : forall (m : amap pyval) b, m_sorted m ->
  m_items m None b = take_while (keep b) m.
Proof.
  intros m b Hs. unfold m_items. rewrite <- filter_keep_sorted by exact Hs.
  apply filter_ext_in. intros e He. apply in_range_keep. exact I.
Qed.
