(* __setitem__ preserves the Python invariant and refines the sorted-association-list
   insert ([m_insert]). *)
From Coq Require Import List Arith ZArith NArith Lia Bool.
From BPT Require Import Common.Base Common.AMap Rust.Tree Rust.Readers Rust.InvDefs Rust.Lib
  Rust.TreeFactsI Rust.InsertLocal Py.Tree Py.Inv Py.Facts Py.LeafFacts Py.InsertLocal.
Import ListNotations.
Set Implicit Arguments.

Lemma p_contents_frame : forall (B C A : list (key * pyval)) k v,
  (forall e, In e B -> (kz (fst e) < kz k)%Z) ->
  (forall e, In e A -> (kz k < kz (fst e))%Z) ->
  m_insert (B ++ C ++ A) k v = B ++ m_insert C k v ++ A.
Proof.
  intros B C A k v HB HA.
  rewrite m_insert_app_r by auto. rewrite m_insert_app_l by auto. reflexivity.
Qed.

(* _insert_recursive *)
Lemma py_ins_spec : forall fuel nid (t : ptree) k v c isroot h lo hi,
  4 <= c -> h < fuel -> ord lo hi t -> pshape c isroot h t -> in_bounds lo hi k ->
  exists nid' ir, py_ins fuel nid t k v = Ok (nid', ir) /\
    ptree_post c isroot h lo hi t k v nid nid' ir.
Proof.
  induction fuel as [|f IH]; intros nid t k v c isroot h lo hi Hc Hf O Sh Bk; [lia|].
  destruct t as [id nc ks vs nx | id nc ks cs].
  - (* leaf *)
    destruct (pshape_leaf_inv Sh) as (-> & -> & _).
    cbn [py_ins]. apply py_ins_leaf_spec; auto.
  - (* branch *)
    destruct (pshape_branch_inv Sh) as (h' & -> & -> & Lc & Lk & Lmin & Lroot & Hsh).
    destruct (ord_branch_inv O) as (Hs & F & Hch).
    pose proof (child_index_le_length ks (kz k)) as Hci.
    pose proof (@child_index_in_bounds ks lo hi k Hs Bk) as Bch.
    destruct (@p_branch_contents_split lo hi id c ks cs c isroot (S h') (kz k) O Sh) as (CB & CA).
    cbn [py_ins]. rewrite find_child_index_ok by exact Lc. cbn [bind].
    set (ci := child_index ks (kz k)) in *.
    destruct (nth_error cs ci) as [ch|] eqn:Ech; [|apply nth_error_None in Ech; lia].
    rewrite (vec_get_ok _ _ _ Ech). cbn [bind].
    pose proof (nth_error_In _ _ Ech) as Hin.
    pose proof (Hch ci ch Ech) as Och. pose proof (Hsh ch Hin) as Shch.
    assert (Hlt : ci < length cs) by lia.
    set (lo' := fst (child_bounds ks lo hi ci)) in *.
    set (hi' := snd (child_bounds ks lo hi ci)) in *.
    set (LB := flat_map pleaf_links (firstn ci cs)).
    set (LA := flat_map pleaf_links (skipn (S ci) cs)).
    set (CBf := flat_map (@contents pyval) (firstn ci cs)) in *.
    set (CAf := flat_map (@contents pyval) (skipn (S ci) cs)) in *.
    set (T := PBranch id c ks cs) in *.
    assert (ELL : pleaf_links T = LB ++ pleaf_links ch ++ LA)
      by (unfold T; cbn [leaf_links]; apply flat_map_nth_split; auto).
    assert (ECT : contents T = CBf ++ contents ch ++ CAf)
      by (unfold T; cbn [contents]; apply flat_map_nth_split; auto).
    assert (Hf' : h' < f) by lia.
    destruct (IH nid ch k v c false h' lo' hi' Hc Hf' Och Shch Bch)
      as (nid1 & ir & E & Hle1 & Hnn1 & OS & TC & TL).
    rewrite E. cbn [bind].
    pose proof (@p_contents_frame CBf (contents ch) CAf k v CB CA) as CF1.
    destruct ir as [c' | c' sep rgt].
    + (* child updated in place *)
      cbn [pres_ord_shape pres_contents pres_links] in *.
      destruct OS as (Oc' & Shc').
      set (cs1 := set_nth ci c' cs).
      exists nid1, (IDone (PBranch id c ks cs1)). split; [reflexivity|].
      assert (FM : forall (B : Type) (g : ptree -> list B),
                 flat_map g cs1 = flat_map g (firstn ci cs) ++ g c' ++ flat_map g (skipn (S ci) cs))
        by (intros; apply flat_map_set_nth; auto).
      split; [exact Hle1|]. split; [exact Hnn1|].
      split; [|split]; cbn [pres_ord_shape pres_contents pres_links].
      * split; [apply ord_set_child; auto|].
        constructor; unfold cs1; rewrite ?length_set_nth; auto.
        intros x Hx. apply In_set_nth in Hx. destruct Hx as [->|Hx]; auto.
      * rewrite ECT, CF1, <- TC. cbn [contents]. apply FM.
      * rewrite ELL. cbn [leaf_links]. rewrite FM. apply links_step_frame. exact TL.
    + (* child split *)
      cbn [pres_ord_shape pres_contents pres_links] in *.
      destruct OS as (O1 & O2 & S1 & S2 & B1 & B2).
      set (cs1 := set_nth ci c' cs).
      assert (Lcs1 : length cs1 = S (length ks)) by (unfold cs1; rewrite length_set_nth; auto).
      destruct (@py_ins_branch_eq nid1 id c ks cs1 ci sep rgt Hc Hci Lcs1 Lk) as [EQ1 EQ2].
      cbv zeta in EQ1, EQ2.
      set (ks2 := insert_at ci sep ks) in *. set (cs2 := insert_at (S ci) rgt cs1) in *.
      assert (Lks2 : length ks2 = S (length ks)) by (unfold ks2; apply length_insert_at; auto).
      assert (Lcs2 : length cs2 = S (length ks2)) by (unfold cs2; rewrite length_insert_at; lia).
      assert (O2' : ord lo hi (PBranch id c ks2 cs2)).
      { unfold ks2, cs2, cs1. apply ord_branch_insert; auto. }
      assert (FSH : forall x, In x cs2 -> pshape c false h' x).
      { intros x Hx. apply In_insert_at in Hx. destruct Hx as [->|Hx]; auto.
        apply In_set_nth in Hx. destruct Hx as [->|Hx]; auto. }
      assert (FM : forall (B : Type) (g : ptree -> list B),
                 flat_map g cs2 = flat_map g (firstn ci cs) ++ g c' ++ g rgt ++ flat_map g (skipn (S ci) cs))
        by (intros; apply flat_map_insert_set; auto).
      assert (FC : flat_map (@contents pyval) cs2 = m_insert (contents T) k v).
      { rewrite FM, ECT, CF1, <- TC. rewrite <- !app_assoc. reflexivity. }
      assert (FL : links_step nid nid1 (pleaf_links T) (flat_map pleaf_links cs2)).
      { rewrite FM, ELL. rewrite (app_assoc (pleaf_links c')). apply links_step_frame. exact TL. }
      destruct (Nat.lt_ge_cases (S (length ks)) c) as [Hnf|Hfull].
      * rewrite (EQ1 Hnf). eexists _, _. split; [reflexivity|].
        split; [exact Hle1|]. split; [exact Hnn1|].
        split; [|split]; cbn [pres_ord_shape pres_contents pres_links].
        -- split; auto. constructor; auto; try lia.
           intros E0. specialize (Lmin E0). lia.
        -- exact FC.
        -- exact FL.
      * destruct (EQ2 Hfull) as (p & Ep & EQ). rewrite EQ.
        assert (Hn : S (length ks) = c \/ S (length ks) = S c) by lia.
        destruct (branch_split_sizes Hc Hn) as (Z1 & Z2 & Z3 & Z4 & Z5 & Z6).
        set (mid := S (length ks) / 2) in *.
        destruct (@ord_branch_split pyval lo hi id c ks2 cs2 mid p id c nid1 c O2' Lcs2 Ep Z1)
          as (OL & OR & BL & BR).
        pose proof (next_after_gt nid1) as Hgt.
        eexists _, _. split; [reflexivity|].
        split; [lia|]. split; [right; apply next_after_not_null|].
        split; [|split]; cbn [pres_ord_shape pres_contents pres_links].
        -- split; [exact OL|]. split; [exact OR|]. split; [|split; [|split; [exact BL|exact BR]]].
           ++ constructor; rewrite ?firstn_length; try lia.
              intros x Hx. apply FSH. eapply In_firstn; eauto.
           ++ constructor; rewrite ?skipn_length; try lia.
              intros x Hx. apply FSH. eapply In_skipn; eauto.
        -- cbn [contents]. rewrite flat_map_firstn_skipn. exact FC.
        -- cbn [leaf_links]. rewrite flat_map_firstn_skipn.
           apply (@links_step_mono nid nid1); [lia|exact FL].
Qed.

(* __setitem__ *)
Theorem py_setitem_spec : forall s k v, PyInv s ->
  exists s', py_setitem s k v = Ok s' /\ PyInv s' /\
    pcontents s' = m_insert (pcontents s) k v /\
    tcap s' = tcap s /\ tleaves s' = tleaves s /\ tcache s' = tcache s /\ (tnext s <= tnext s')%N.
Proof.
  intros s k v I. destruct I as [Hc O [h Sh] CH ND IDS NN HD CA].
  pose proof (pshape_height Sh) as Hh. unfold py_setitem, pcontents. rewrite Hh.
  assert (Bk : in_bounds None None k) by (split; exact Logic.I).
  destruct (@py_ins_spec (S h) (tnext s) (troot s) k v (tcap s) true h None None
              Hc (Nat.lt_succ_diag_r h) O Sh Bk)
    as (nid' & ir & E & Hle & Hnn & OS & TC & TL).
  rewrite E. cbn [bind].
  assert (NN' : nid' <> NULL) by (destruct Hnn as [->|]; auto).
  destruct (@links_step_inv (tnext s) nid' (pleaf_links (troot s)) (pres_links ir) NULL
              TL Hle NN IDS ND CH) as (CH' & ND' & IDS' & HD').
  destruct ir as [t' | t' sep rgt]; cbn [pres_ord_shape pres_contents pres_links] in *.
  - destruct OS as (O' & Sh').
    exists (mkP (tcap s) t' (tleaves s) (tcache s) nid'). split; [reflexivity|].
    cbn [troot tcap tleaves tcache tnext]. split.
    { constructor; cbn [troot tcap tleaves tcache tnext]; auto.
      - exists h; auto.
      - unfold leaf_ids. rewrite HD'. exact HD.
      - intros c0 Hc0. destruct (CA c0 Hc0). split; [lia|auto]. }
    repeat split; auto.
  - destruct OS as (O1 & O2 & S1 & S2 & B1 & B2).
    pose proof (next_after_gt nid') as Hgt.
    exists (mkP (tcap s) (PBranch nid' (tcap s) [sep] [t'; rgt]) (tleaves s) (tcache s)
                (next_after nid')).
    split; [reflexivity|]. cbn [troot tcap tleaves tcache tnext].
    assert (EL : pleaf_links (PBranch nid' (tcap s) [sep] [t'; rgt]) = pleaf_links t' ++ pleaf_links rgt).
    { cbn [leaf_links flat_map]. rewrite app_nil_r. reflexivity. }
    split.
    { constructor; cbn [troot tcap tleaves tcache tnext]; auto.
      - constructor.
        + unfold sorted_keys. cbn. auto.
        + constructor; [split; cbn; auto|constructor].
        + intros i ch Hn. destruct i as [|[|i]]; cbn in Hn.
          * inversion Hn; subst. cbn. exact O1.
          * inversion Hn; subst. cbn. exact O2.
          * destruct i; discriminate.
      - exists (S h). constructor; cbn [length]; try lia.
        intros x [<-|[<-|[]]]; auto.
      - unfold chain_ok. rewrite EL. exact CH'.
      - unfold leaf_ids. rewrite EL. exact ND'.
      - intros x Hx. unfold leaf_ids in Hx. rewrite EL in Hx. destruct (IDS' x Hx).
        split; [lia|auto].
      - apply next_after_not_null.
      - unfold leaf_ids. rewrite EL, HD'. exact HD.
      - intros c0 Hc0. destruct (CA c0 Hc0). split; [lia|auto]. }
    split.
    { cbn [contents flat_map]. rewrite app_nil_r. exact TC. }
    repeat split; auto. lia.
Qed.

(* ------------------------------------------------------------------ *)
(* iteration (update(iterable)), and non-vacuity of the hypothesis [PyInv] *)

Lemma py_new_PyInv : forall c s, py_new c = Ok s -> PyInv s.
Proof.
  intros c s H. unfold py_new, MIN_CAPACITY in H.
  destruct (Nat.ltb_spec c 4) as [|Hc]; [discriminate|]. inversion H; subst s. clear H.
  constructor; cbn [tcap troot tleaves tcache tnext].
  - exact Hc.
  - constructor; [unfold sorted_keys; cbn; auto|constructor].
  - exists 0. constructor; cbn [length]; auto; try lia; try (intros E; discriminate).
  - unfold chain_ok. cbn. auto.
  - cbn. constructor; [intros []|constructor].
  - intros id [<-|[]]. cbn [fst]. split; [lia|]. unfold NULL. lia.
  - unfold NULL. lia.
  - reflexivity.
  - intros c0 E. discriminate.
Qed.

Fixpoint m_insert_list (m : amap pyval) (l : list (key * pyval)) : amap pyval :=
  match l with
  | [] => m
  | (k, v) :: l' => m_insert_list (m_insert m k v) l'
  end.

Lemma py_update_setitems : forall l s, PyInv s ->
  exists s', py_update s l = Ok s' /\ PyInv s' /\
    pcontents s' = m_insert_list (pcontents s) l /\
    tcap s' = tcap s /\ tleaves s' = tleaves s /\ tcache s' = tcache s /\ (tnext s <= tnext s')%N.
Proof.
  induction l as [|[k v] l IH]; intros s I.
  - exists s. cbn [py_update m_insert_list]. split; [reflexivity|]. split; [exact I|].
    repeat (split; [reflexivity|]). lia.
  - destruct (py_setitem_spec k v I) as (s1 & E1 & I1 & C1 & A1 & B1 & D1 & N1).
    destruct (IH s1 I1) as (s2 & E2 & I2 & C2 & A2 & B2 & D2 & N2).
    exists s2. cbn [py_update m_insert_list]. rewrite E1. cbn [bind].
    split; [exact E2|]. split; [exact I2|]. rewrite C2, C1.
    repeat split; try congruence. lia.
Qed.

(* a concrete three-level tree: 22 __setitem__ calls (one of them an overwrite, several
   leaf splits, two branch-level splits) at capacity 4 *)
Definition demo_items : list (key * pyval) :=
  map (fun p => (mkKey (fst p) (Z.to_N (snd p)), PVal (fst p + 100)))
    [(10,1);(20,2);(30,3);(40,4);(50,5);(5,6);(15,7);(25,8);(35,9);(45,10);(55,11);(1,12);(2,13);
     (3,14);(60,15);(61,16);(30,17);(62,18);(12,19);(13,20);(14,21);(41,22)]%Z.

Definition demo_init : pstate := mkP 4 (PLeaf 0%N 4 [] [] NULL) 0%N None 1%N.

Lemma demo_init_new : py_new 4 = Ok demo_init.
Proof. reflexivity. Qed.

Notation demo_state := (py_update demo_init demo_items).

(* the decidable components of the conclusion of [py_setitem_spec], checked by computation
   along the whole run *)
Example demo_three_levels : exists s,
  demo_state = Ok s /\ height (troot s) = 2 /\
  pcontents s = m_insert_list [] demo_items /\ length (pcontents s) = 21 /\
  tcap s = 4 /\ tleaves s = 0%N /\ tcache s = None /\ tnext s = 11%N.
Proof.
  eexists. split; [vm_compute; reflexivity|]. vm_compute. repeat split.
Qed.

(* the same state satisfies the invariant (so the theorem applies to it), by the theorem *)
Example demo_three_levels_inv : exists s,
  demo_state = Ok s /\ PyInv s /\ height (troot s) = 2 /\
  forall k v, exists s', py_setitem s k v = Ok s' /\ PyInv s' /\
    pcontents s' = m_insert (pcontents s) k v.
Proof.
  destruct demo_three_levels as (s & E & Hh & _).
  exists s. split; [exact E|].
  pose proof (py_new_PyInv _ demo_init_new) as I0.
  destruct (py_update_setitems demo_items I0) as (s' & E' & I' & _).
  rewrite E in E'. injection E' as <-.
  split; [exact I'|]. split; [exact Hh|].
  intros k v. destruct (py_setitem_spec k v I') as (s2 & E2 & I2 & C2 & _).
  exists s2. auto.
Qed.

Print Assumptions py_setitem_spec.
