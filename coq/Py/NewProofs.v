(* Construction and clear(): a fresh single empty root leaf satisfies the invariant. *)
From Coq Require Import List Arith ZArith NArith Lia Bool.
From BPT Require Import Common.Base Common.AMap Rust.Tree Rust.Readers Rust.InvDefs Rust.Lib
  Py.Tree Py.Inv Py.Facts.
Import ListNotations.
Set Implicit Arguments.

Lemma empty_leaf_inv : forall c id nid co, 4 <= c -> (id < nid)%N -> id <> NULL -> nid <> NULL ->
  (forall x, co = Some x -> (x < nid)%N /\ x <> NULL) ->
  PyInv (mkP c (PLeaf id c [] [] NULL) id co nid).
Proof.
  intros c id nid co Hc Hlt Hid Hn Hco. constructor; cbn [tcap troot tleaves tcache tnext].
  - exact Hc.
  - constructor; [exact I | constructor].
  - exists 0. constructor; cbn [length]; try lia.
  - unfold chain_ok. cbn. auto.
  - cbn. constructor; [intros []|constructor].
  - intros x Hx. cbn in Hx. destruct Hx as [<-|[]]. split; assumption.
  - exact Hn.
  - reflexivity.
  - exact Hco.
Qed.

Theorem py_new_spec : forall c, 4 <= c ->
  exists s, py_new c = Ok s /\ PyInv s /\ tcap s = c /\ pcontents s = [] /\ tcache s = None.
Proof.
  intros c Hc. unfold py_new, MIN_CAPACITY. destruct (Nat.ltb_spec c 4); [lia|].
  eexists. split; [reflexivity|]. split; [|repeat split].
  apply empty_leaf_inv; auto; try (unfold NULL; lia). intros x Hx. discriminate.
Qed.

Theorem py_new_rejects : forall c, c < 4 -> py_new c = Panic E_InvalidCapacity.
Proof. intros c Hc. unfold py_new, MIN_CAPACITY. destruct (Nat.ltb_spec c 4); [reflexivity|lia]. Qed.

Theorem py_clear_spec : forall s, PyInv s ->
  PyInv (py_clear s) /\ tcap (py_clear s) = tcap s /\ pcontents (py_clear s) = [].
Proof.
  intros s I. unfold py_clear. split; [|split; reflexivity].
  apply empty_leaf_inv.
  - apply (pi_cap I).
  - apply next_after_gt.
  - apply (pi_next I).
  - apply next_after_not_null.
  - intros x Hx. discriminate.
Qed.
