(* Corollaries of the refinement theorems in the words of properties C07, C08, C09, and the
   non-vacuity witnesses (concrete multi-level states reached by histories). *)
From Coq Require Import List Arith ZArith NArith Lia Bool.
From BPT Require Import Common.Base Common.AMap Rust.Tree Rust.Readers Rust.InvDefs Rust.Lib
  Py.Tree Py.Run Py.Inv Py.Facts Py.LeafFacts Py.Spec Py.NewProofs
  Py.InsertProofs Py.DeleteProofs Py.ReaderProofs Py.BulkProofs Py.Reach Py.ReachFinal.
Import ListNotations.
Set Implicit Arguments.

(* ------------------------------------------------------------------ *)
(* C07 *)

(* outputs the specification can produce: never an internal error *)
Definition clean_out (x : out) : Prop :=
  match x with
  | UExc e => e = E_KeyError \/ e = E_TypeError \/ e = E_InvalidCapacity
  | UFuel | UOutOfModel => False
  | _ => True
  end.

Lemma spec_step_clean : forall aw o, clean_out (snd (spec_step aw o)).
Proof.
  intros aw o. destruct o; cbn [spec_step];
    repeat (match goal with
            | |- context [match ?x with _ => _ end] => destruct x
            end; cbn [snd fst clean_out]);
    cbn; auto.
Qed.

Lemma spec_run_clean : forall ops aw, Forall clean_out (snd (spec_run aw ops)).
Proof.
  induction ops as [|o ops IH]; intros aw; cbn [spec_run]; [constructor|].
  pose proof (spec_step_clean aw o) as H. destruct (spec_step aw o) as [a1 y].
  specialize (IH a1). destruct (spec_run a1 ops) as [a2 ys]. cbn [snd] in *. constructor; auto.
Qed.

(* no call of any history ends in ValueError / IndexError / AttributeError, runs out of
   fuel (non-termination) or leaves the model *)
Theorem history_no_internal_error : forall ops, Forall clean_out (snd (run false w0 ops)).
Proof.
  intros ops. destruct (py_history_refines ops) as [E _]. rewrite E. apply spec_run_clean.
Qed.

Theorem stored_none_is_a_value : forall s z, PyInv s -> m_get (pcontents s) z = Some PNone ->
  py_getitem s z = Ok (Some PNone) /\ (forall d, py_get s z d = Ok PNone) /\
  py_contains s z = Ok true.
Proof.
  intros s z I G. split; [|split].
  - rewrite (py_getitem_spec z I). rewrite G. reflexivity.
  - intros d. rewrite (py_get_spec z d I). rewrite G. reflexivity.
  - rewrite (py_contains_spec z I). rewrite G. reflexivity.
Qed.

Theorem get_default_only_when_absent : forall s z d, PyInv s ->
  (forall v, m_get (pcontents s) z = Some v -> py_get s z d = Ok v) /\
  (m_get (pcontents s) z = None -> py_get s z d = Ok d).
Proof.
  intros s z d I. rewrite (py_get_spec z d I). split.
  - intros v G. rewrite G. reflexivity.
  - intros G. rewrite G. reflexivity.
Qed.

Theorem getitem_keyerror_iff_absent : forall s z, PyInv s ->
  py_getitem s z = Ok (m_get (pcontents s) z).
Proof. exact py_getitem_spec. Qed.

(* popitem returns and removes the entry with the smallest key *)
Theorem popitem_removes_smallest : forall s, PyInv s ->
  exists s', py_popitem false s = Ok (s', hd_error (pcontents s)) /\ PyInv s' /\
    pcontents s' = tl (pcontents s) /\
    (forall e e', hd_error (pcontents s) = Some e -> In e' (pcontents s') ->
       (kz (fst e) < kz (fst e'))%Z).
Proof.
  intros s I. destruct (py_popitem_final I) as (s' & E & I' & C' & K').
  exists s'. split; [|split; [exact I'|split; [exact C'|]]].
  - rewrite E. destruct (pcontents s); reflexivity.
  - intros e e' He Hin. pose proof (PyInv_sorted I) as Hs. rewrite C' in Hin.
    destruct (pcontents s) as [|[k v] m]; [discriminate|]. cbn in He. inversion He; subst e.
    cbn [tl] in Hin. apply Lib_m_sorted_cons_inv in Hs. destruct Hs as [_ Hall].
    cbn [fst]. apply Hall. exact Hin.
Qed.

(* a copy has the same contents, and afterwards no call directed at one map changes the
   other: calls only change the map they are directed at *)
Theorem copy_is_independent :
  (forall s, PyInv s -> exists s', py_copy s = Ok s' /\ PyInv s' /\
      pcontents s' = pcontents s /\ tcap s' = tcap s) /\
  (forall lg w o n, n <> op_target w o ->
      wlookup (maps (fst (step lg w o))) n = wlookup (maps w) n).
Proof. split; [exact py_copy_final | exact step_frame]. Qed.

Theorem capacity_check : forall c,
  (c < 4 -> py_new c = Panic E_InvalidCapacity /\
            forall l, from_sorted_items l c = Panic E_InvalidCapacity) /\
  (4 <= c -> exists s, py_new c = Ok s /\ PyInv s /\ tcap s = c /\ pcontents s = []).
Proof.
  intros c. split.
  - intros H. split; [apply py_new_rejects; exact H|]. intros l. apply from_sorted_items_rejects. exact H.
  - intros H. destruct (py_new_spec H) as (s & E & I & K & C & _). exists s. auto.
Qed.

(* ------------------------------------------------------------------ *)
(* C08 *)
Theorem iteration_sorted_complete : forall s, PyInv s ->
  py_items s None None = Ok (pcontents s) /\
  py_keys s None None = Ok (map fst (pcontents s)) /\
  py_values s None None = Ok (map snd (pcontents s)) /\
  m_sorted (pcontents s).
Proof.
  intros s I. rewrite (py_items_spec None None I), (py_keys_spec None None I),
    (py_values_spec None None I), m_items_all.
  repeat split. apply PyInv_sorted. exact I.
Qed.

Theorem range_is_half_open : forall s a b, PyInv s ->
  py_items s a b = Ok (filter (fun e => in_range a b (kz (fst e))) (pcontents s)) /\
  py_range s a b = Ok (filter (fun e => in_range a b (kz (fst e))) (pcontents s)) /\
  py_keys s a b = Ok (map fst (filter (fun e => in_range a b (kz (fst e))) (pcontents s))) /\
  py_values s a b = Ok (map snd (filter (fun e => in_range a b (kz (fst e))) (pcontents s))).
Proof.
  intros s a b I. unfold py_range.
  rewrite (py_items_spec a b I), (py_keys_spec a b I), (py_values_spec a b I). repeat split.
Qed.

Lemma in_range_spec : forall a b z,
  in_range a b z = true <->
  (match a with Some x => (x <= z)%Z | None => True end) /\
  (match b with Some y => (z < y)%Z | None => True end).
Proof.
  intros a b z. unfold in_range. rewrite andb_true_iff.
  destruct a as [x|]; destruct b as [y|]; rewrite ?Z.leb_le, ?Z.ltb_lt; intuition.
Qed.

Theorem empty_or_inverted_interval : forall s x y, PyInv s -> (y <= x)%Z ->
  py_items s (Some x) (Some y) = Ok [].
Proof.
  intros s x y I Hxy. rewrite (py_items_spec (Some x) (Some y) I). f_equal.
  unfold m_items. induction (pcontents s) as [|e m IH]; [reflexivity|]. cbn [filter].
  destruct (in_range (Some x) (Some y) (kz (fst e))) eqn:E; [|exact IH].
  apply in_range_spec in E. lia.
Qed.

Theorem items_after_any_history : forall ops n s a b,
  In (n, s) (maps (fst (run false w0 ops))) ->
  py_items s a b = Ok (m_items (pcontents s) a b) /\ m_sorted (pcontents s).
Proof.
  intros ops n s a b Hin. pose proof (py_reachable_inv ops n s Hin) as I.
  split; [apply py_items_spec; exact I | apply PyInv_sorted; exact I].
Qed.

(* ------------------------------------------------------------------ *)
(* C09: PyInv spelled out *)
Theorem invariant_in_words : forall s, PyInv s ->
  4 <= tcap s /\
  (* node keys strictly ascending, separators bound the subtrees *)
  ord None None (troot s) /\
  (* uniform leaf depth, arity, capacity, occupancy (tcap s - 1) / 2, root arity *)
  (exists h, pshape (tcap s) true h (troot s)) /\
  (* the chain from the map's first leaf visits exactly the leaves, in order *)
  hd_error (pleaf_ids (troot s)) = Some (tleaves s) /\
  links_ok (pleaf_links (troot s)) NULL /\
  NoDup (pleaf_ids (troot s)).
Proof.
  intros s I. destruct I as [A B C D E F G H J]. unfold chain_ok in D. auto 10.
Qed.

(* what pshape says about one node, for the record *)
Theorem pshape_node_facts : forall cap isroot h t, pshape cap isroot h t ->
  length (pkeys t) <= cap /\
  (isroot = false -> (cap - 1) / 2 <= length (pkeys t)) /\
  height t = h /\
  match t with
  | PLeaf _ nc ks vs _ => nc = cap /\ length vs = length ks /\ h = 0
  | PBranch _ nc ks cs =>
      nc = cap /\ length cs = S (length ks) /\ (isroot = true -> 2 <= length cs) /\
      forall ch, In ch cs -> pshape cap false (pred h) ch
  end.
Proof.
  intros cap isroot h t Sh. pose proof (pshape_height Sh) as Hh.
  inversion Sh; subst; cbn [pkeys]; repeat split; auto; try lia.
  intros E. specialize (H2 E). lia.
Qed.

(* ------------------------------------------------------------------ *)
(* non-vacuity: a history that builds three-level maps with None values, uses every call
   kind, and whose final states satisfy the hypotheses of the theorems above *)
Open Scope Z_scope.
Definition KK (z : Z) : key := mkKey z (Z.to_N z).
Definition demo_ops : list op :=
  [ONew 0%N 4%nat] ++
  map (fun z => OSet (KK z) (if Z.eqb (z mod 3) 0 then PNone else PVal (z * 10)))
      [12; 3; 7; 19; 1; 15; 9; 22; 5; 17; 2; 20; 11; 6; 14; 8; 21; 4; 18; 10; 13; 16] ++
  [OLen; OGetItem 3; OGet 3 (Some (PVal 5)); OGet 100 (Some (PVal 5)); OContains 3;
   ODel 3; ODel 3; OPop 6 []; OPop 6 [PVal 1]; OPopItem; OSetDefault (KK 30) None;
   OUpdate [(KK 31, PVal 1); (KK 2, PNone)]; OCopy 1%N; ODel 12; ODel 15; ODel 9; OLen;
   OUse 0%N; OLen; OItems (Some 8) (Some 14); OKeys (Some 14) (Some 8); OValues None (Some 5);
   OBulk 2%N 4%nat (map (fun z => (KK z, PVal z)) [1; 2; 2; 3; 5; 8; 8; 9; 10; 11; 12; 13; 14; 15; 16; 17]);
   OLen; OBool; ONew 3%N 3%nat; OClear; OBool].
Close Scope Z_scope.

Definition demo_world : world := fst (run false w0 demo_ops).

Example demo_heights :
  map (fun p => height (troot (snd p))) (maps demo_world) = [2; 2; 0].
Proof. vm_compute. reflexivity. Qed.

Example demo_outputs_tail :
  skipn 23 (snd (run false w0 demo_ops)) =
  [UNat 22; UVal PNone; UVal PNone; UVal (PVal 5); UBool true;
   UNone; UExc E_KeyError; UVal PNone; UVal (PVal 1); UPair (KK 1%Z) (PVal 10); UVal PNone;
   UNone; UNone; UNone; UNone; UNone; UNat 18;
   UNone; UNat 21;
   UItems [(KK 8%Z, PVal 80); (KK 9%Z, PNone); (KK 10%Z, PVal 100); (KK 11%Z, PVal 110); (KK 12%Z, PNone); (KK 13%Z, PVal 130)];
   UKeys []; UVals [PNone; PVal 40];
   UNone; UNat 14; UBool true; UExc E_InvalidCapacity; UNone; UBool false].
Proof. vm_compute. reflexivity. Qed.

(* the maps of the demo world satisfy PyInv (by the reachability theorem), so every
   theorem with a [PyInv s] hypothesis applies to three-level states *)
Example demo_states_inv : forall n s, In (n, s) (maps demo_world) -> PyInv s.
Proof. intros n s H. exact (py_reachable_inv demo_ops n s H). Qed.

Example demo_refines : snd (run false w0 demo_ops) = snd (spec_run aw0 demo_ops).
Proof. vm_compute. reflexivity. Qed.
