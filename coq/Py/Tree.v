(* Model of the pure-Python BPlusTreeMap (python/bplustree/bplus_tree.py): classes
   BPlusTreeMap, LeafNode, BranchNode, transcribed method by method.

   Representation.  Nodes are the [ptree] of Rust/Tree.v instantiated with Python values
   ([pyval]): a node carries an object identity [id] (from a counter that never reuses a
   number; ids stand for Python object identity, they are internal and never compared
   with the implementation), its own [capacity] attribute, its key list, and its values /
   children.  A leaf's [next] attribute is the id of the next leaf object, [NULL] standing
   for Python's [None] (the id counter skips NULL, so no bound on the number of objects is
   imposed).  A child is *contained* in its parent; a leaf reached through the chain
   ([self.leaves], [leaf.next], [_rightmost_leaf_cache]) is looked up *by id* in the tree
   ([find_leaf] / [update_leaf]), so that mutating it mutates "the same object".

   Outcomes ([res] of Common/Base.v):  [Ok a] normal return;  [Panic e] a Python
   exception of class [e] (codes below) propagated out of the call;  [OutOfFuel] only for
   a chain walk over a cyclic chain (non-termination in Python);  [UB 1] "outside the
   model": a reference to a leaf object that is no longer part of the tree (only the
   private bulk-load cache can hold one; unreachable through the public API).

   Switch [del_by_value]: LeafNode.delete returns the popped *value* and
   _delete_from_leaf reports success as [deleted is not None].  With [del_by_value = true]
   the model follows that code literally (a stored None is removed from the leaf but the
   deletion is reported as "not found": KeyError, no rebalancing); with [false] success
   is reported by presence ([exists]), which is the one-line repair.  Everything else is
   identical.  Definitions only. *)
From BPT Require Import Common.Base Rust.Tree.
Set Implicit Arguments.

Inductive pyval : Type := PNone | PVal (z : Z).

Definition is_none (v : pyval) : bool := match v with PNone => true | PVal _ => false end.

Notation ptree := (Tree.ptree pyval).

(* exception classes *)
Definition E_KeyError : nat := 1.
Definition E_ValueError : nat := 2.
Definition E_TypeError : nat := 3.
Definition E_IndexError : nat := 4.
Definition E_InvalidCapacity : nat := 5.
Definition E_AttributeError : nat := 6.

Definition MIN_CAPACITY : nat := 4.

(* object identities: a counter that skips NULL *)
Definition next_after (n : N) : N :=
  let m := N.succ n in if N.eqb m NULL then N.succ m else m.

Record pstate := mkP {
  tcap : nat;            (* self.capacity *)
  troot : ptree;         (* self.root *)
  tleaves : N;           (* self.leaves (id of that leaf object) *)
  tcache : option N;     (* self._rightmost_leaf_cache *)
  tnext : N              (* next fresh object id *)
}.

(* BPlusTreeMap.__init__ *)
Definition py_new (c : nat) : res pstate :=
  if Nat.ltb c MIN_CAPACITY then Panic E_InvalidCapacity
  else Ok (mkP c (PLeaf 0%N c [] [] NULL) 0%N None 1%N).

(* clear(): a new empty LeafNode object *)
Definition py_clear (s : pstate) : pstate :=
  let id := tnext s in
  mkP (tcap s) (PLeaf id (tcap s) [] [] NULL) id None (next_after id).

(* ------------------------------------------------------------------ *)
(* node predicates: is_full, is_underfull, can_donate use the node's own capacity *)
Definition min_keys (ncap : nat) : nat := (ncap - 1) / 2.
Definition py_is_full (t : ptree) : bool := Nat.leb (pcap t) (length (pkeys t)).
Definition py_is_underfull (t : ptree) : bool := Nat.ltb (length (pkeys t)) (min_keys (pcap t)).
Definition py_can_donate (t : ptree) : bool := Nat.ltb (min_keys (pcap t)) (length (pkeys t)).

(* BranchNode.find_child_index: structure validation, bisect_right, range validation *)
Definition find_child_index (ks : list key) (cs : list ptree) (z : Z) : res nat :=
  if Nat.eqb (length cs) 0 then Panic E_ValueError
  else if negb (Nat.eqb (length ks) (length cs - 1)) then Panic E_ValueError
  else
    let i := child_index ks z in
    if Nat.leb (length cs) i then Panic E_ValueError else Ok i.

(* LeafNode.insert: find_position, update or list.insert *)
Definition leaf_insert (ks : list key) (vs : list pyval) (k : key) (v : pyval)
  : res (list key * list pyval) :=
  let pos := lb ks (kz k) in
  if bfound ks (kz k) then
    do vs' <- vec_set E_IndexError pos v vs; Ok (ks, vs')
  else Ok (insert_at pos k ks, insert_at pos v vs).

(* ------------------------------------------------------------------ *)
(* __setitem__ *)
Inductive ins_res : Type :=
| IDone (t : ptree)                               (* returned None *)
| ISplit (t : ptree) (sep : key) (rgt : ptree).   (* returned (new_node, separator) *)

(* _insert_into_leaf + LeafNode.split_and_insert + LeafNode.split *)
Definition py_ins_leaf (nid : N) (id : N) (ncap : nat) (ks : list key) (vs : list pyval)
           (next : N) (k : key) (v : pyval) : res (N * ins_res) :=
  let pos := lb ks (kz k) in
  if bfound ks (kz k) then
    do vs' <- vec_set E_IndexError pos v vs;
    Ok (nid, IDone (PLeaf id ncap ks vs' next))
  else if negb (Nat.leb ncap (length ks)) then
    do kv <- leaf_insert ks vs k v;
    Ok (nid, IDone (PLeaf id ncap (fst kv) (snd kv) next))
  else
    let mid := length ks / 2 in
    let rid := nid in
    let nid' := next_after nid in
    let lks := firstn mid ks in let lvs := firstn mid vs in
    let rks := skipn mid ks in let rvs := skipn mid vs in
    match rks with
    | [] => Panic E_IndexError                       (* new_leaf.keys[0] *)
    | r0 :: _ =>
        do lr <-
          (if Z.ltb (kz k) (kz r0) then
             do kv <- leaf_insert lks lvs k v; Ok (fst kv, snd kv, rks, rvs)
           else
             do kv <- leaf_insert rks rvs k v; Ok (lks, lvs, fst kv, snd kv));
        let '(lks1, lvs1, rks1, rvs1) := lr in
        match rks1 with
        | [] => Panic E_IndexError
        | sep :: _ =>
            Ok (nid', ISplit (PLeaf id ncap lks1 lvs1 rid) sep (PLeaf rid ncap rks1 rvs1 next))
        end
    end.

(* BranchNode.insert_child_and_split_if_needed + BranchNode.split, on a branch whose
   child [ci] has already been replaced by its updated version *)
Definition py_ins_branch (nid : N) (id : N) (ncap : nat) (ks : list key) (cs : list ptree)
           (ci : nat) (sep : key) (newc : ptree) : res (N * ins_res) :=
  let ks2 := insert_at ci sep ks in
  let cs2 := insert_at (S ci) newc cs in
  if negb (Nat.leb ncap (length ks2)) then Ok (nid, IDone (PBranch id ncap ks2 cs2))
  else
    let mid := length ks2 / 2 in
    let bid := nid in
    do promoted <- vec_get E_IndexError mid ks2;
    Ok (next_after nid,
        ISplit (PBranch id ncap (firstn mid ks2) (firstn (S mid) cs2)) promoted
               (PBranch bid ncap (skipn (S mid) ks2) (skipn (S mid) cs2))).

(* _insert_recursive *)
Fixpoint py_ins (fuel : nat) (nid : N) (t : ptree) (k : key) (v : pyval) : res (N * ins_res) :=
  match fuel with
  | O => OutOfFuel
  | S f =>
    match t with
    | PLeaf id ncap ks vs next => py_ins_leaf nid id ncap ks vs next k v
    | PBranch id ncap ks cs =>
        do ci <- find_child_index ks cs (kz k);
        do c <- vec_get E_IndexError ci cs;
        do r <- py_ins f nid c k v;
        let '(nid1, ir) := r in
        match ir with
        | IDone c' => Ok (nid1, IDone (PBranch id ncap ks (set_nth ci c' cs)))
        | ISplit c' sep rgt => py_ins_branch nid1 id ncap ks (set_nth ci c' cs) ci sep rgt
        end
    end
  end.

(* __setitem__ *)
Definition py_setitem (s : pstate) (k : key) (v : pyval) : res pstate :=
  do r <- py_ins (S (height (troot s))) (tnext s) (troot s) k v;
  let '(nid, ir) := r in
  match ir with
  | IDone t => Ok (mkP (tcap s) t (tleaves s) (tcache s) nid)
  | ISplit t sep rgt =>
      let rid := nid in
      Ok (mkP (tcap s) (PBranch rid (tcap s) [sep] [t; rgt]) (tleaves s) (tcache s)
              (next_after nid))
  end.

(* ------------------------------------------------------------------ *)
(* __delitem__ *)
Section Delete.
Variable del_by_value : bool.

(* _redistribute_from_right on the parent's (keys, children) *)
Definition redistribute_from_right (ks : list key) (cs : list ptree) (ci : nat)
  : res (list key * list ptree) :=
  do child <- vec_get E_IndexError ci cs;
  do rsib <- vec_get E_IndexError (S ci) cs;
  match child, rsib with
  | PLeaf cid cc cks cvs cnx, PLeaf rid rc rks rvs rnx =>
      (* LeafNode.borrow_from_right *)
      if negb (py_can_donate rsib) then Panic E_ValueError else
      match rks, rvs with
      | k :: rks', v :: rvs' =>
          let child' := PLeaf cid cc (cks ++ [k]) (cvs ++ [v]) cnx in
          let rsib' := PLeaf rid rc rks' rvs' rnx in
          match rks' with
          | [] => Panic E_IndexError                 (* right_sibling.keys[0] *)
          | s :: _ =>
              do ks' <- vec_set E_IndexError ci s ks;
              Ok (ks', set_nth (S ci) rsib' (set_nth ci child' cs))
          end
      | _, _ => Panic E_IndexError
      end
  | PBranch cid cc cks ccs, PBranch rid rc rks rcs =>
      do sep <- vec_get E_IndexError ci ks;
      (* BranchNode.borrow_from_right *)
      if negb (py_can_donate rsib) then Panic E_ValueError else
      match rcs, rks with
      | c0 :: rcs', k0 :: rks' =>
          let child' := PBranch cid cc (cks ++ [sep]) (ccs ++ [c0]) in
          let rsib' := PBranch rid rc rks' rcs' in
          do ks' <- vec_set E_IndexError ci k0 ks;
          Ok (ks', set_nth (S ci) rsib' (set_nth ci child' cs))
      | _, _ => Panic E_IndexError
      end
  | _, _ => Panic E_AttributeError
  end.

(* _redistribute_from_left *)
Definition redistribute_from_left (ks : list key) (cs : list ptree) (ci : nat)
  : res (list key * list ptree) :=
  do child <- vec_get E_IndexError ci cs;
  do lsib <- vec_get E_IndexError (ci - 1) cs;
  match child, lsib with
  | PLeaf cid cc cks cvs cnx, PLeaf lid lc lks lvs lnx =>
      (* LeafNode.borrow_from_left *)
      if negb (py_can_donate lsib) then Panic E_ValueError else
      match vec_pop lks, vec_pop lvs with
      | Some (k, lks'), Some (v, lvs') =>
          let child' := PLeaf cid cc (k :: cks) (v :: cvs) cnx in
          let lsib' := PLeaf lid lc lks' lvs' lnx in
          do ks' <- vec_set E_IndexError (ci - 1) k ks;   (* child.keys[0] *)
          Ok (ks', set_nth ci child' (set_nth (ci - 1) lsib' cs))
      | _, _ => Panic E_IndexError
      end
  | PBranch cid cc cks ccs, PBranch lid lc lks lcs =>
      do sep <- vec_get E_IndexError (ci - 1) ks;
      (* BranchNode.borrow_from_left *)
      if negb (py_can_donate lsib) then Panic E_ValueError else
      match vec_pop lcs, vec_pop lks with
      | Some (c0, lcs'), Some (k0, lks') =>
          let child' := PBranch cid cc (sep :: cks) (c0 :: ccs) in
          let lsib' := PBranch lid lc lks' lcs' in
          do ks' <- vec_set E_IndexError (ci - 1) k0 ks;
          Ok (ks', set_nth ci child' (set_nth (ci - 1) lsib' cs))
      | _, _ => Panic E_IndexError
      end
  | _, _ => Panic E_AttributeError
  end.

(* the two arms of _merge_with_sibling: [a] = children[i] absorbs [b] = children[i+1];
   [cap] is the *tree's* capacity (self.capacity of the map) *)
Definition merge_pair (cap : nat) (ks : list key) (cs : list ptree) (i : nat)
  : res (list key * list ptree) :=
  do a <- vec_get E_IndexError i cs;
  do b <- vec_get E_IndexError (S i) cs;
  match a, b with
  | PLeaf aid ac aks avs anx, PLeaf bid bc bks bvs bnx =>
      if Nat.leb (length aks + length bks) cap then
        (* LeafNode.merge_with_right; children.pop(i+1); keys.pop(i) *)
        let a' := PLeaf aid ac (aks ++ bks) (avs ++ bvs) bnx in
        do r1 <- vec_remove E_IndexError (S i) (set_nth i a' cs);
        do r2 <- vec_remove E_IndexError i ks;
        Ok (snd r2, snd r1)
      else Ok (ks, cs)
  | PBranch aid ac aks acs, PBranch bid bc bks bcs =>
      if andb (Nat.leb (length aks + length bks + 1) cap)
              (Nat.leb (length acs + length bcs) (cap + 1)) then
        do sep <- vec_get E_IndexError i ks;
        (* BranchNode.merge_with_right *)
        let a' := PBranch aid ac (aks ++ sep :: bks) (acs ++ bcs) in
        do r1 <- vec_remove E_IndexError (S i) (set_nth i a' cs);
        do r2 <- vec_remove E_IndexError i ks;
        Ok (snd r2, snd r1)
      else Ok (ks, cs)
  | _, _ => Panic E_AttributeError
  end.

(* _merge_with_sibling *)
Definition merge_with_sibling (cap : nat) (ks : list key) (cs : list ptree) (ci : nat)
  : res (list key * list ptree) :=
  do child <- vec_get E_IndexError ci cs;
  if Nat.leb (length cs) ci then Panic E_ValueError
  else if negb (Nat.eqb (length ks) (length cs - 1)) then Panic E_ValueError
  else if Nat.ltb 0 ci then merge_pair cap ks cs (ci - 1)
  else if Nat.ltb ci (length cs - 1) then merge_pair cap ks cs ci
  else Ok (ks, cs).

(* _handle_underflow *)
Definition handle_underflow (cap : nat) (ks : list key) (cs : list ptree) (ci : nat)
  : res (list key * list ptree) :=
  do child <- vec_get E_IndexError ci cs;
  if negb (py_is_underfull child) then Ok (ks, cs) else
  let right_can :=
    if Nat.ltb ci (length cs - 1) then
      match nth_error cs (S ci) with Some r => py_can_donate r | None => false end
    else false in
  if right_can then redistribute_from_right ks cs ci else
  let left_can :=
    if Nat.ltb 0 ci then
      match nth_error cs (ci - 1) with Some l => py_can_donate l | None => false end
    else false in
  if left_can then redistribute_from_left ks cs ci else
  merge_with_sibling cap ks cs ci.

(* _delete_recursive (without the root-collapse test, which only the outermost frame can
   pass; see [py_delitem]).  Returns the node after mutation and the reported [deleted]. *)
Fixpoint py_del (fuel : nat) (cap : nat) (t : ptree) (z : Z) : res (ptree * bool) :=
  match fuel with
  | O => OutOfFuel
  | S f =>
    match t with
    | PLeaf id ncap ks vs next =>
        (* _delete_from_leaf / LeafNode.delete *)
        let pos := lb ks z in
        if bfound ks z then
          do rv <- vec_remove E_IndexError pos vs;
          let reported := if del_by_value then negb (is_none (fst rv)) else true in
          Ok (PLeaf id ncap (remove_at pos ks) (snd rv) next, reported)
        else Ok (t, false)
    | PBranch id ncap ks cs =>
        do ci <- find_child_index ks cs z;
        do c <- vec_get E_IndexError ci cs;
        do r <- py_del f cap c z;
        let '(c', deleted) := r in
        let cs1 := set_nth ci c' cs in
        if negb deleted then Ok (PBranch id ncap ks cs1, false) else
        do kc <- (if orb (Nat.eqb (length (pkeys c')) 0) (py_is_underfull c')
                  then handle_underflow cap ks cs1 ci else Ok (ks, cs1));
        Ok (PBranch id ncap (fst kc) (snd kc), true)
    end
  end.

(* __delitem__: returns the new state and whether the deletion was reported (false =>
   KeyError is raised; with [del_by_value] the state may nevertheless have changed).
   Root collapse: "node == self.root and not node.is_leaf() and len(node.children) == 1",
   evaluated in the outermost frame after a reported deletion. *)
Definition py_delitem (s : pstate) (z : Z) : res (pstate * bool) :=
  do r <- py_del (S (height (troot s))) (tcap s) (troot s) z;
  let '(t, deleted) := r in
  let t' := if deleted then
              match t with
              | PBranch _ _ _ [only] => only
              | _ => t
              end
            else t in
  Ok (mkP (tcap s) t' (tleaves s) (tcache s) (tnext s), deleted).

End Delete.

(* ------------------------------------------------------------------ *)
(* looking a leaf object up by identity *)
Fixpoint find_leaf (t : ptree) (id : N) : option ptree :=
  match t with
  | PLeaf i _ _ _ _ => if N.eqb i id then Some t else None
  | PBranch _ _ _ cs =>
      (fix go (l : list ptree) : option ptree :=
         match l with
         | [] => None
         | c :: l' => match find_leaf c id with Some x => Some x | None => go l' end
         end) cs
  end.

(* replace keys/values of the leaf object [id] *)
Fixpoint update_leaf (t : ptree) (id : N) (ks' : list key) (vs' : list pyval) : ptree :=
  match t with
  | PLeaf i c ks vs nx => if N.eqb i id then PLeaf i c ks' vs' nx else t
  | PBranch i c ks cs => PBranch i c ks (map (fun ch => update_leaf ch id ks' vs') cs)
  end.

Fixpoint count_leaves (t : ptree) : nat :=
  match t with
  | PLeaf _ _ _ _ _ => 1
  | PBranch _ _ _ cs => list_sum (map count_leaves cs)
  end.

Definition chain_fuel (s : pstate) : nat := S (count_leaves (troot s)).

(* ------------------------------------------------------------------ *)
(* readers *)

(* node = self.root; while not node.is_leaf(): node = node.get_child(key) *)
Fixpoint py_descend (fuel : nat) (t : ptree) (z : Z) : res ptree :=
  match fuel with
  | O => OutOfFuel
  | S f =>
    match t with
    | PLeaf _ _ _ _ _ => Ok t
    | PBranch _ _ ks cs =>
        (* BranchNode.get_child *)
        if Nat.eqb (length cs) 0 then Panic E_ValueError else
        do ci <- find_child_index ks cs z;
        do c <- vec_get E_IndexError ci cs;
        py_descend f c z
    end
  end.

Definition leaf_of (s : pstate) (z : Z) : res ptree :=
  py_descend (S (height (troot s))) (troot s) z.

(* get(key, default) *)
Definition py_get (s : pstate) (z : Z) (default : pyval) : res pyval :=
  do lf <- leaf_of s z;
  match lf with
  | PLeaf _ _ ks vs _ =>
      if bfound ks z then vec_get E_IndexError (lb ks z) vs else Ok default
  | _ => Panic E_AttributeError
  end.

(* __contains__ *)
Definition py_contains (s : pstate) (z : Z) : res bool :=
  do lf <- leaf_of s z; Ok (bfound (pkeys lf) z).

(* __getitem__: None result = KeyError *)
Definition py_getitem (s : pstate) (z : Z) : res (option pyval) :=
  do v <- py_get s z PNone;
  if is_none v then
    do c <- py_contains s z;
    if c then Ok (Some PNone) else Ok None
  else Ok (Some v).

(* LeafNode.key_count from the leaf object [cur] *)
Fixpoint key_count (fuel : nat) (t : ptree) (cur : N) (acc : nat) : res nat :=
  if N.eqb cur NULL then Ok acc else
  match fuel with
  | O => OutOfFuel
  | S f =>
      match find_leaf t cur with
      | Some (PLeaf _ _ ks _ nx) => key_count f t nx (acc + length ks)
      | _ => UB 1
      end
  end.

(* __len__, __bool__ *)
Definition py_len (s : pstate) : res nat := key_count (chain_fuel s) (troot s) (tleaves s) 0.
Definition py_bool (s : pstate) : res bool := do n <- py_len s; Ok (Nat.ltb 0 n).

(* items(start_key, end_key) *)
Definition past_end (e : option Z) (k : key) : bool :=
  match e with Some b => Z.leb b (kz k) | None => false end.

(* for i in range(start_index, len(keys)): ... ; second component: the generator returned *)
Fixpoint leaf_scan (ks : list key) (vs : list pyval) (e : option Z)
  : res (list (key * pyval) * bool) :=
  match ks with
  | [] => Ok ([], false)
  | k :: ks' =>
      if past_end e k then Ok ([], true) else
      match vs with
      | [] => Panic E_IndexError
      | v :: vs' => do r <- leaf_scan ks' vs' e; Ok ((k, v) :: fst r, snd r)
      end
  end.

Fixpoint items_walk (fuel : nat) (t : ptree) (cur : N) (idx : nat) (e : option Z)
  : res (list (key * pyval)) :=
  if N.eqb cur NULL then Ok [] else
  match fuel with
  | O => OutOfFuel
  | S f =>
      match find_leaf t cur with
      | Some (PLeaf _ _ ks vs nx) =>
          do r <- leaf_scan (skipn idx ks) (skipn idx vs) e;
          if snd r then Ok (fst r)
          else do rest <- items_walk f t nx 0 e; Ok (fst r ++ rest)
      | _ => UB 1
      end
  end.

Definition py_items (s : pstate) (a b : option Z) : res (list (key * pyval)) :=
  do st <- match a with
           | None => Ok (tleaves s, 0)
           | Some x =>
               (* _find_leaf_for_key, _find_position_in_leaf (lower bound) *)
               do lf <- leaf_of s x; Ok (pid lf, lb (pkeys lf) x)
           end;
  items_walk (chain_fuel s) (troot s) (fst st) (snd st) b.

Definition py_keys (s : pstate) (a b : option Z) : res (list key) :=
  do l <- py_items s a b; Ok (map fst l).
Definition py_values (s : pstate) (a b : option Z) : res (list pyval) :=
  do l <- py_items s a b; Ok (map snd l).
Definition py_range := py_items.

(* ------------------------------------------------------------------ *)
(* compound dict API *)
Section Compound.
Variable del_by_value : bool.

(* try: value = self[key]; del self[key]; return value
   except KeyError: if args: return args[0]; raise          (None = KeyError raised) *)
Definition py_pop (s : pstate) (z : Z) (args : list pyval) : res (pstate * option pyval) :=
  if Nat.ltb 1 (length args) then Panic E_TypeError else
  do g <- py_getitem s z;
  match g with
  | None => Ok (s, hd_error args)
  | Some v =>
      do r <- py_delitem del_by_value s z;
      if snd r then Ok (fst r, Some v) else Ok (fst r, hd_error args)
  end.

(* popitem: None = KeyError *)
Definition py_popitem (s : pstate) : res (pstate * option (key * pyval)) :=
  do n <- py_len s;
  if Nat.eqb n 0 then Ok (s, None) else
  match find_leaf (troot s) (tleaves s) with
  | Some (PLeaf _ _ ks vs _) =>
      match ks with
      | [] => Ok (s, None)
      | k :: _ =>
          do v <- vec_get E_IndexError 0 vs;
          do r <- py_delitem del_by_value s (kz k);
          if snd r then Ok (fst r, Some (k, v)) else Ok (fst r, None)
      end
  | _ => UB 1
  end.

End Compound.

(* setdefault *)
Definition py_setdefault (s : pstate) (k : key) (d : pyval) : res (pstate * pyval) :=
  do g <- py_getitem s (kz k);
  match g with
  | Some v => Ok (s, v)
  | None => do s' <- py_setitem s k d; Ok (s', d)
  end.

(* update(iterable of pairs) *)
Fixpoint py_update (s : pstate) (l : list (key * pyval)) : res pstate :=
  match l with
  | [] => Ok s
  | (k, v) :: l' => do s' <- py_setitem s k v; py_update s' l'
  end.

(* copy() *)
Definition py_copy (s : pstate) : res pstate :=
  do fresh <- py_new (tcap s);
  do l <- py_items s None None;
  py_update fresh l.

(* ------------------------------------------------------------------ *)
(* bulk load *)

(* _update_rightmost_leaf_cache: follow next from self.leaves to the last leaf *)
Fixpoint last_leaf (fuel : nat) (t : ptree) (cur : N) : res N :=
  match fuel with
  | O => OutOfFuel
  | S f =>
      match find_leaf t cur with
      | Some (PLeaf _ _ _ _ nx) => if N.eqb nx NULL then Ok cur else last_leaf f t nx
      | _ => UB 1
      end
  end.

Definition update_rightmost_leaf_cache (s : pstate) : res pstate :=
  do id <- last_leaf (chain_fuel s) (troot s) (tleaves s);
  Ok (mkP (tcap s) (troot s) (tleaves s) (Some id) (tnext s)).

(* _insert_sorted_optimized *)
Definition insert_sorted_optimized (s : pstate) (k : key) (v : pyval) : res pstate :=
  let slow := do s1 <- py_setitem s k v; update_rightmost_leaf_cache s1 in
  match tcache s with
  | None => slow
  | Some cid =>
      match find_leaf (troot s) cid with
      | Some (PLeaf _ ncap ks vs _ as lf) =>
          match last_opt ks with
          | None => slow                              (* empty leaf object is falsy *)
          | Some lastk =>
              if andb (Z.ltb (kz lastk) (kz k)) (negb (py_is_full lf)) then
                Ok (mkP (tcap s) (update_leaf (troot s) cid (ks ++ [k]) (vs ++ [v]))
                        (tleaves s) (tcache s) (tnext s))
              else slow
          end
      | _ => UB 1
      end
  end.

(* _bulk_load_sorted: the batching loops visit the items in order *)
Fixpoint bulk_load_sorted (s : pstate) (l : list (key * pyval)) : res pstate :=
  match l with
  | [] => Ok s
  | (k, v) :: l' => do s' <- insert_sorted_optimized s k v; bulk_load_sorted s' l'
  end.

(* from_sorted_items(items, capacity) *)
Definition from_sorted_items (l : list (key * pyval)) (c : nat) : res pstate :=
  do s <- py_new c; bulk_load_sorted s l.

(* logical content *)
Definition pcontents (s : pstate) : list (key * pyval) := contents (troot s).
