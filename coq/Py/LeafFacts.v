(* The in-order list of leaf objects of a tree, and the by-identity lookups in terms of it:
   tree lookups ([find_leaf], [update_leaf], [count_leaves], [leaf_links], [contents])
   become list operations on [leaves_of]. *)
From Coq Require Import List Arith ZArith NArith Lia Bool.
From BPT Require Import Common.Base Common.AMap Rust.Tree Rust.Readers Rust.InvDefs Rust.Lib
  Rust.TreeFactsI Py.Tree Py.Inv Py.Facts.
Import ListNotations.
Set Implicit Arguments.

Fixpoint leaves_of (t : ptree) : list ptree :=
  match t with
  | PLeaf _ _ _ _ _ => [t]
  | PBranch _ _ _ cs => flat_map leaves_of cs
  end.

Definition leaf_next (l : ptree) : N :=
  match l with PLeaf _ _ _ _ nx => nx | PBranch _ _ _ _ => NULL end.
Definition link_of (l : ptree) : N * N := (pid l, leaf_next l).
Definition has_id (id : N) (l : ptree) : bool := N.eqb (pid l) id.

(* induction principle with the children's hypotheses *)
Lemma ptree_ind' : forall (P : ptree -> Prop),
  (forall id c ks vs nx, P (PLeaf id c ks vs nx)) ->
  (forall id c ks cs, Forall P cs -> P (PBranch id c ks cs)) ->
  forall t, P t.
Proof.
  intros P HL HB. fix IH 1. intros [id c ks vs nx | id c ks cs]; [apply HL|].
  apply HB. induction cs as [|ch cs IHcs]; constructor; [apply IH|exact IHcs].
Qed.

Lemma leaves_of_leaf : forall t, Forall (fun l => is_leaf l = true) (leaves_of t).
Proof.
  induction t as [id c ks vs nx | id c ks cs IH] using ptree_ind'; cbn [leaves_of].
  - constructor; auto.
  - apply Forall_forall. intros l Hl. apply in_flat_map in Hl. destruct Hl as (ch & Hch & Hl).
    rewrite Forall_forall in IH. specialize (IH ch Hch). rewrite Forall_forall in IH. auto.
Qed.

Lemma leaf_links_leaves : forall t, pleaf_links t = map link_of (leaves_of t).
Proof.
  induction t as [id c ks vs nx | id c ks cs IH] using ptree_ind'; cbn [leaf_links leaves_of].
  - reflexivity.
  - induction cs as [|ch cs IHcs]; [reflexivity|]. inversion IH; subst.
    cbn [flat_map]. rewrite map_app. f_equal; auto.
Qed.

Lemma leaf_ids_leaves : forall t, pleaf_ids t = map (@pid pyval) (leaves_of t).
Proof.
  intros t. unfold leaf_ids. rewrite leaf_links_leaves, map_map. reflexivity.
Qed.

Lemma contents_leaves : forall t : ptree, contents t = flat_map (@contents pyval) (leaves_of t).
Proof.
  induction t as [id c ks vs nx | id c ks cs IH] using ptree_ind'; cbn [contents leaves_of].
  - cbn. rewrite app_nil_r. reflexivity.
  - induction cs as [|ch cs IHcs]; [reflexivity|]. inversion IH; subst.
    cbn [flat_map]. rewrite flat_map_app. f_equal; auto.
Qed.

Lemma count_leaves_length : forall t, count_leaves t = length (leaves_of t).
Proof.
  induction t as [id c ks vs nx | id c ks cs IH] using ptree_ind'; cbn [count_leaves leaves_of].
  - reflexivity.
  - induction cs as [|ch cs IHcs]; [reflexivity|]. inversion IH; subst.
    cbn [flat_map map list_sum fold_right]. rewrite app_length.
    change (fold_right Nat.add 0 (map count_leaves cs)) with (list_sum (map count_leaves cs)).
    rewrite H1, (IHcs H2). reflexivity.
Qed.

Lemma find_app : forall (A : Type) (f : A -> bool) l1 l2,
  find f (l1 ++ l2) = match find f l1 with Some x => Some x | None => find f l2 end.
Proof. induction l1; intros; cbn; auto. destruct (f a); auto. Qed.

Lemma find_leaf_leaves : forall t id, find_leaf t id = find (has_id id) (leaves_of t).
Proof.
  induction t as [i c ks vs nx | i c ks cs IH] using ptree_ind'; intros id; cbn [find_leaf leaves_of].
  - cbn [find]. unfold has_id. cbn [pid]. destruct (N.eqb i id); reflexivity.
  - induction cs as [|ch cs IHcs]; [reflexivity|]. inversion IH; subst.
    cbn [flat_map]. rewrite find_app. rewrite <- H1. destruct (find_leaf ch id); auto.
Qed.

(* with distinct ids, the leaf at a given in-order position is the one found by its id *)
Lemma find_has_id_nodup : forall (L1 : list ptree) l L2,
  NoDup (map (@pid pyval) (L1 ++ l :: L2)) -> find (has_id (pid l)) (L1 ++ l :: L2) = Some l.
Proof.
  induction L1 as [|a L1 IH]; intros l L2 ND; cbn [app find].
  - unfold has_id. rewrite N.eqb_refl. reflexivity.
  - cbn [app map] in ND. inversion ND as [|x xs Hnin ND']; subst.
    unfold has_id at 1. destruct (N.eqb_spec (pid a) (pid l)) as [E|E].
    + exfalso. apply Hnin. rewrite E. rewrite map_app. apply in_or_app. right. left. reflexivity.
    + apply IH. exact ND'.
Qed.

Lemma find_leaf_at : forall t L1 l L2, NoDup (pleaf_ids t) -> leaves_of t = L1 ++ l :: L2 ->
  find_leaf t (pid l) = Some l.
Proof.
  intros t L1 l L2 ND E. rewrite find_leaf_leaves, E. apply find_has_id_nodup.
  rewrite <- E, <- leaf_ids_leaves. exact ND.
Qed.

(* update_leaf on the list of leaves *)
Definition upd_leaf (id : N) (ks' : list key) (vs' : list pyval) (l : ptree) : ptree :=
  match l with
  | PLeaf i c ks vs nx => if N.eqb i id then PLeaf i c ks' vs' nx else l
  | PBranch _ _ _ _ => l
  end.

Lemma leaves_of_update_leaf : forall t id ks' vs',
  leaves_of (update_leaf t id ks' vs') = map (upd_leaf id ks' vs') (leaves_of t).
Proof.
  induction t as [i c ks vs nx | i c ks cs IH] using ptree_ind'; intros id ks' vs';
    cbn [update_leaf leaves_of].
  - cbn [map upd_leaf]. destruct (N.eqb i id); reflexivity.
  - induction cs as [|ch cs IHcs]; [reflexivity|]. inversion IH; subst.
    cbn [map flat_map]. rewrite map_app. f_equal; auto.
Qed.

Lemma update_leaf_notin : forall t id ks' vs', ~ In id (pleaf_ids t) -> update_leaf t id ks' vs' = t.
Proof.
  induction t as [i c ks vs nx | i c ks cs IH] using ptree_ind'; intros id ks' vs' Hn;
    cbn [update_leaf].
  - destruct (N.eqb_spec i id) as [E|E]; [|reflexivity]. exfalso. apply Hn. subst. left. reflexivity.
  - f_equal. rewrite <- (map_id cs) at 2. apply map_ext_in. intros ch Hch.
    rewrite Forall_forall in IH. apply IH; [exact Hch|].
    intros Hin. apply Hn. unfold leaf_ids in *. cbn [leaf_links].
    apply in_map_iff in Hin. destruct Hin as (x & Hx & Hin). apply in_map_iff.
    exists x. split; [exact Hx|]. apply in_flat_map. exists ch. split; assumption.
Qed.

(* a well-shaped tree has at least one leaf; its height-0 trees are single leaves *)
Lemma leaves_of_nonempty : forall c r h t, pshape c r h t -> leaves_of t <> [].
Proof.
  induction 1 as [r id ks vs nx | r h id ks cs L1 L2 L3 L4 Hc IH]; cbn [leaves_of]; [discriminate|].
  destruct cs as [|ch cs]; [cbn in L1; lia|]. cbn [flat_map]. intros E.
  apply app_eq_nil in E. destruct E as [E _]. exact (IH ch (or_introl eq_refl) E).
Qed.

(* every leaf of a well-shaped tree is a well-shaped leaf; non-root leaves hold a key *)
Lemma leaves_of_pshape : forall c r h t, pshape c r h t ->
  forall l, In l (leaves_of t) -> exists r', pshape c r' 0 l /\ (h <> 0 -> r' = false).
Proof.
  induction 1 as [r id ks vs nx | r h id ks cs L1 L2 L3 L4 Hc IH]; intros l Hl; cbn [leaves_of] in Hl.
  - destruct Hl as [<-|[]]. exists r. split; [constructor; auto|congruence].
  - apply in_flat_map in Hl. destruct Hl as (ch & Hch & Hl).
    destruct (IH ch Hch l Hl) as (r' & S' & Hr').
    destruct h as [|h].
    + destruct (pshape_0_leaf (Hc ch Hch)) as (i & k & v & n & ->). cbn in Hl.
      destruct Hl as [<-|[]]. exists false. split; [apply (Hc _ Hch)|auto].
    + exists false. rewrite (Hr' ltac:(discriminate)) in S'. split; auto.
Qed.
