(* Every call history of the Python map model refines the abstract dict semantics of
   Py/Spec.v and keeps the invariant PyInv on every map of the world.

   The per-call facts about __setitem__, __delitem__, the readers and bulk loading are
   proved in Py/InsertProofs.v, Py/DeleteProofs.v, Py/ReaderProofs.v, Py/BulkProofs.v; this
   file takes them as section hypotheses (statements identical to those theorems), derives
   the compound dict API (pop, popitem, setdefault, update, copy, clear, constructor) from
   them, and proves the one-step and the whole-history refinement.  Py/ReachFinal.v
   instantiates the section. *)
From Coq Require Import List Arith ZArith NArith Lia Bool.
From BPT Require Import Common.Base Common.AMap Rust.Tree Rust.Readers Rust.InvDefs Rust.Lib
  Py.Tree Py.Run Py.Inv Py.Facts Py.Spec Py.NewProofs.
Import ListNotations.
Set Implicit Arguments.

Ltac splits := repeat match goal with |- _ /\ _ => split end.

(* ------------------------------------------------------------------ *)
(* association-list facts *)
Lemma m_insert_last : forall (m : pmap) k v,
  (forall e, In e m -> (kz (fst e) < kz k)%Z) -> m_insert m k v = m ++ [(k, v)].
Proof.
  intros m k v H. rewrite <- (app_nil_r m) at 1. rewrite m_insert_app_r by exact H. reflexivity.
Qed.

Lemma m_insert_all_sorted_acc : forall (m acc : pmap), m_sorted (acc ++ m) ->
  m_insert_all acc m = acc ++ m.
Proof.
  induction m as [|[k v] m IH]; intros acc Hs; cbn [m_insert_all].
  - rewrite app_nil_r. reflexivity.
  - assert (Hlt : forall e, In e acc -> (kz (fst e) < kz k)%Z).
    { intros e He. unfold m_sorted in Hs. rewrite map_app in Hs. apply sorted_keys_app in Hs.
      destruct Hs as (_ & _ & H). apply H; [apply in_map; exact He|left; reflexivity]. }
    rewrite m_insert_last by exact Hlt. rewrite IH.
    + rewrite <- app_assoc. reflexivity.
    + rewrite <- app_assoc. exact Hs.
Qed.

Lemma m_insert_all_sorted : forall m : pmap, m_sorted m -> m_insert_all [] m = m.
Proof. intros m H. apply (m_insert_all_sorted_acc m []). exact H. Qed.

Lemma m_insert_all_preserves_sorted : forall l (m : pmap), m_sorted m -> m_sorted (m_insert_all m l).
Proof.
  induction l as [|[k v] l IH]; intros m H; cbn [m_insert_all]; [exact H|].
  apply IH. apply m_sorted_insert. exact H.
Qed.

Lemma m_items_all : forall m : pmap, m_items m None None = m.
Proof.
  intros m. unfold m_items, in_range. cbn [andb]. induction m as [|e m IH]; [reflexivity|].
  cbn [filter]. rewrite IH. reflexivity.
Qed.

Lemma m_remove_head : forall (k : key) (v : pyval) (m : pmap), m_remove ((k, v) :: m) (kz k) = m.
Proof. intros. cbn [m_remove]. rewrite Z.eqb_refl. reflexivity. Qed.

(* ------------------------------------------------------------------ *)
(* worlds *)
Lemma wlookup_rel : forall (ms : list (N * pstate)) (ams : list (N * (nat * pmap))) n,
  Forall2 map_rel ms ams ->
  match wlookup ms n, wlookup ams n with
  | Some s, Some (c, m) => PyInv s /\ tcap s = c /\ pcontents s = m
  | None, None => True
  | _, _ => False
  end.
Proof.
  intros ms ams n F. induction F as [|[a s] [b [c m]] ms ams R F IH]; cbn [wlookup]; [exact I|].
  destruct R as (E & I & Hc & Hm). cbn [fst snd] in *. subst b.
  destruct (N.eqb a n); [auto|exact IH].
Qed.

Lemma wstore_rel : forall (ms : list (N * pstate)) (ams : list (N * (nat * pmap))) n s c m,
  Forall2 map_rel ms ams -> PyInv s -> tcap s = c -> pcontents s = m ->
  Forall2 map_rel (wstore ms n s) (wstore ams n (c, m)).
Proof.
  intros ms ams n s c m F I Hc Hm.
  induction F as [|[a s0] [b [c0 m0]] ms ams R F IH]; cbn [wstore].
  - constructor; [|constructor]. unfold map_rel. cbn [fst snd]. auto.
  - destruct R as (E & I0 & Hc0 & Hm0). cbn [fst snd] in *. subst b.
    destruct (N.eqb a n).
    + constructor; [|exact F]. unfold map_rel. cbn [fst snd]. auto.
    + constructor; [|exact IH]. unfold map_rel. cbn [fst snd]. auto.
Qed.

Lemma wr_ok : forall (A : Type) w (r : res (pstate * A)) s' a (f : A -> out),
  r = Ok (s', a) -> wr w r f = (mkW (wstore (maps w) (cur w) s') (cur w), f a).
Proof. intros. subst. reflexivity. Qed.

Lemma rd_ok : forall (A : Type) w s (r : res A) a (f : A -> out),
  r = Ok a -> rd w s r f = (w, f a).
Proof. intros. subst. reflexivity. Qed.

(* ------------------------------------------------------------------ *)
Section Reach.

Hypothesis setitem_spec : forall s k v, PyInv s ->
  exists s', py_setitem s k v = Ok s' /\ PyInv s' /\
    pcontents s' = m_insert (pcontents s) k v /\
    tcap s' = tcap s /\ tleaves s' = tleaves s /\ tcache s' = tcache s /\ (tnext s <= tnext s')%N.
Hypothesis delitem_spec : forall s z, PyInv s ->
  exists s', py_delitem false s z = Ok (s', is_some (m_get (pcontents s) z)) /\ PyInv s' /\
    pcontents s' = m_remove (pcontents s) z /\
    tcap s' = tcap s /\ tleaves s' = tleaves s /\ tcache s' = tcache s /\ tnext s' = tnext s.
Hypothesis get_spec : forall s z d, PyInv s ->
  py_get s z d = Ok (match m_get (pcontents s) z with Some v => v | None => d end).
Hypothesis contains_spec : forall s z, PyInv s ->
  py_contains s z = Ok (is_some (m_get (pcontents s) z)).
Hypothesis getitem_spec : forall s z, PyInv s -> py_getitem s z = Ok (m_get (pcontents s) z).
Hypothesis len_spec : forall s, PyInv s -> py_len s = Ok (length (pcontents s)).
Hypothesis bool_spec : forall s, PyInv s -> py_bool s = Ok (Nat.ltb 0 (length (pcontents s))).
Hypothesis items_spec : forall s a b, PyInv s -> py_items s a b = Ok (m_items (pcontents s) a b).
Hypothesis keys_spec : forall s a b, PyInv s ->
  py_keys s a b = Ok (map fst (m_items (pcontents s) a b)).
Hypothesis values_spec : forall s a b, PyInv s ->
  py_values s a b = Ok (map snd (m_items (pcontents s) a b)).
Hypothesis first_leaf_spec : forall s, PyInv s ->
  exists id c ks vs nx, find_leaf (troot s) (tleaves s) = Some (PLeaf id c ks vs nx) /\
    length vs = length ks /\
    (exists rest, pcontents s = combine ks vs ++ rest) /\
    (ks = [] -> pcontents s = []).
Hypothesis bulk_spec : forall l c, 4 <= c ->
  exists s, from_sorted_items l c = Ok s /\ PyInv s /\ tcap s = c /\
    pcontents s = m_insert_all [] l.

(* ---------------- compound calls ---------------- *)
Lemma update_spec : forall l s, PyInv s ->
  exists s', py_update s l = Ok s' /\ PyInv s' /\
    pcontents s' = m_insert_all (pcontents s) l /\ tcap s' = tcap s.
Proof.
  induction l as [|[k v] l IH]; intros s I; cbn [py_update m_insert_all].
  - exists s. auto.
  - destruct (setitem_spec k v I) as (s1 & E & I1 & C1 & K1 & _).
    rewrite E. cbn [bind]. destruct (IH s1 I1) as (s2 & E2 & I2 & C2 & K2).
    exists s2. rewrite C1 in C2. split; [exact E2|]. split; [exact I2|]. split; [exact C2|].
    rewrite K2. exact K1.
Qed.

Lemma copy_spec : forall s, PyInv s ->
  exists s', py_copy s = Ok s' /\ PyInv s' /\ pcontents s' = pcontents s /\ tcap s' = tcap s.
Proof.
  intros s I. unfold py_copy.
  destruct (py_new_spec (pi_cap I)) as (s0 & E0 & I0 & K0 & C0 & _).
  rewrite E0. cbn [bind]. rewrite (items_spec None None I). cbn [bind].
  rewrite m_items_all.
  destruct (update_spec (pcontents s) I0) as (s1 & E1 & I1 & C1 & K1).
  exists s1. rewrite C0 in C1. rewrite m_insert_all_sorted in C1 by (apply PyInv_sorted; exact I).
  splits; auto. congruence.
Qed.

Lemma pop_spec : forall s z args, PyInv s -> length args <= 1 ->
  exists s', py_pop false s z args =
      Ok (s', match m_get (pcontents s) z with Some v => Some v | None => hd_error args end) /\
    PyInv s' /\ pcontents s' = m_remove (pcontents s) z /\ tcap s' = tcap s.
Proof.
  intros s z args I La. unfold py_pop.
  destruct (Nat.ltb_spec 1 (length args)); [lia|].
  rewrite (getitem_spec z I). cbn [bind].
  destruct (m_get (pcontents s) z) as [v|] eqn:G.
  - destruct (delitem_spec z I) as (s' & E & I' & C' & K' & _). rewrite G in E. cbn [is_some] in E.
    rewrite E. cbn [bind fst snd]. exists s'. auto.
  - exists s. splits; auto. symmetry. apply m_remove_notin.
    intros e He Hk. assert (Hs := PyInv_sorted I).
    assert (m_get (pcontents s) z <> None); [|congruence].
    clear G. revert Hs He. generalize (pcontents s). intros m. induction m as [|[k0 v0] m IHm]; intros Hs He; [destruct He|].
    cbn [m_get]. destruct He as [<-|He].
    + cbn [fst] in Hk. rewrite Hk, Z.eqb_refl. discriminate.
    + destruct (Z.eqb (kz k0) z); [discriminate|]. apply IHm; auto.
      apply Lib_m_sorted_cons_inv in Hs. apply Hs.
Qed.

Lemma popitem_spec : forall s, PyInv s ->
  exists s', py_popitem false s =
      Ok (s', match pcontents s with [] => None | e :: _ => Some e end) /\
    PyInv s' /\ pcontents s' = tl (pcontents s) /\ tcap s' = tcap s.
Proof.
  intros s I. unfold py_popitem. rewrite (len_spec I). cbn [bind].
  destruct (first_leaf_spec I) as (id & c & ks & vs & nx & Ef & Lv & (rest & Ec) & Hnil).
  destruct (pcontents s) as [|[k0 v0] m] eqn:Em.
  - cbn [length Nat.eqb]. exists s. rewrite Em. auto.
  - cbn [length Nat.eqb]. rewrite Ef.
    destruct ks as [|k ks']; [specialize (Hnil eq_refl); discriminate|].
    destruct vs as [|v vs']; [cbn in Lv; discriminate|].
    cbn [combine app] in Ec. inversion Ec; subst k0 v0 m. clear Ec.
    cbn [vec_get nth_error bind].
    destruct (delitem_spec (kz k) I) as (s' & E & I' & C' & K' & _).
    rewrite Em in E, C'. cbn [m_get] in E. rewrite Z.eqb_refl in E. cbn [is_some] in E.
    rewrite E. cbn [bind fst snd]. exists s'. rewrite m_remove_head in C'. cbn [tl]. auto.
Qed.

Lemma setdefault_spec : forall s k d, PyInv s ->
  exists s', py_setdefault s k d =
      Ok (s', match m_get (pcontents s) (kz k) with Some v => v | None => d end) /\
    PyInv s' /\ tcap s' = tcap s /\
    pcontents s' = match m_get (pcontents s) (kz k) with
                   | Some _ => pcontents s | None => m_insert (pcontents s) k d end.
Proof.
  intros s k d I. unfold py_setdefault. rewrite (getitem_spec (kz k) I). cbn [bind].
  destruct (m_get (pcontents s) (kz k)) as [v|].
  - exists s. auto.
  - destruct (setitem_spec k d I) as (s1 & E & I1 & C1 & K1 & _). rewrite E. cbn [bind].
    exists s1. auto.
Qed.

(* ---------------- one step ---------------- *)
Theorem step_refines : forall w aw o, world_rel w aw ->
  snd (step false w o) = snd (spec_step aw o) /\
  world_rel (fst (step false w o)) (fst (spec_step aw o)).
Proof.
  intros w aw o [Hcur F].
  pose proof (wlookup_rel (cur w) F) as Lk.
  replace (wlookup (amaps aw) (cur w)) with (wlookup (amaps aw) (acur aw)) in Lk by (rewrite Hcur; reflexivity).
  assert (Hstore : forall n s c m, PyInv s -> tcap s = c -> pcontents s = m ->
            world_rel (mkW (wstore (maps w) n s) n) (mkAW (wstore (amaps aw) n (c, m)) n)).
  { intros n s c m I Hc Hm. split; [reflexivity|]. apply wstore_rel; auto. }
  destruct o; cbn [step spec_step].
  all: try (* calls on the current map *)
    (destruct (wlookup (maps w) (cur w)) as [s|] eqn:Es;
     destruct (wlookup (amaps aw) (acur aw)) as [[c m]|] eqn:Ea; try contradiction;
     [destruct Lk as (I & Hc & Hm) | split; [reflexivity | split; assumption]]).
  - (* OSet *)
    destruct (setitem_spec k v I) as (s' & E & I' & C' & K' & _).
    rewrite (@wr_ok unit w _ s' tt); [|rewrite E; reflexivity]. cbn [fst snd].
    split; [reflexivity|]. rewrite Hcur. apply Hstore; congruence.
  - (* OGetItem *)
    rewrite (rd_ok w s _ (getitem_spec z I)). cbn [fst snd]. rewrite Hm.
    split; [reflexivity | split; assumption].
  - (* ODel *)
    destruct (delitem_spec z I) as (s' & E & I' & C' & K' & _).
    rewrite (wr_ok w _ E). rewrite Hm in *. cbn [fst snd].
    destruct (m_get m z) as [v0|] eqn:G; cbn [is_some fst snd].
    + split; [reflexivity|]. rewrite Hcur. apply Hstore; congruence.
    + split; [reflexivity|]. rewrite Hcur. apply Hstore; try congruence.
      rewrite C'. apply m_remove_notin. intros e He Hk.
      assert (Hs : m_sorted m) by (rewrite <- Hm; apply PyInv_sorted; exact I).
      clear - G He Hk Hs. induction m as [|[k0 v0] m IHm]; [destruct He|].
      cbn [m_get] in G. destruct He as [<-|He].
      * cbn [fst] in Hk. rewrite Hk, Z.eqb_refl in G. discriminate.
      * destruct (Z.eqb (kz k0) z); [discriminate|]. apply IHm; auto.
        apply Lib_m_sorted_cons_inv in Hs. apply Hs.
  - (* OGet *)
    rewrite (rd_ok w s _ (get_spec z (dflt d) I)). cbn [fst snd]. rewrite Hm.
    split; [reflexivity | split; assumption].
  - (* OContains *)
    rewrite (rd_ok w s _ (contains_spec z I)). cbn [fst snd]. rewrite Hm.
    split; [reflexivity | split; assumption].
  - (* OLen *)
    rewrite (rd_ok w s _ (len_spec I)). cbn [fst snd]. rewrite Hm.
    split; [reflexivity | split; assumption].
  - (* OBool *)
    rewrite (rd_ok w s _ (bool_spec I)). cbn [fst snd]. rewrite Hm.
    split; [reflexivity | split; assumption].
  - (* OPop *)
    destruct (Nat.ltb_spec 1 (length args)) as [Hl|Hl].
    + unfold wr, py_pop. destruct (Nat.ltb_spec 1 (length args)); [|lia]. cbn [exc_out fst snd].
      split; [reflexivity | split; assumption].
    + destruct (pop_spec z args I Hl) as (s' & E & I' & C' & K').
      rewrite (wr_ok w _ E). rewrite Hm in *. cbn [fst snd].
      destruct (m_get m z) as [v0|] eqn:G; cbn [fst snd].
      * split; [reflexivity|]. rewrite Hcur. apply Hstore; congruence.
      * split; [destruct (hd_error args); reflexivity|]. rewrite Hcur. apply Hstore; try congruence.
        rewrite C'. apply m_remove_notin. intros e He Hk.
        assert (Hs : m_sorted m) by (rewrite <- Hm; apply PyInv_sorted; exact I).
        clear - G He Hk Hs. induction m as [|[k0 v0] m IHm]; [destruct He|].
        cbn [m_get] in G. destruct He as [<-|He].
        -- cbn [fst] in Hk. rewrite Hk, Z.eqb_refl in G. discriminate.
        -- destruct (Z.eqb (kz k0) z); [discriminate|]. apply IHm; auto.
           apply Lib_m_sorted_cons_inv in Hs. apply Hs.
  - (* OPopItem *)
    destruct (popitem_spec I) as (s' & E & I' & C' & K').
    rewrite (wr_ok w _ E). rewrite Hm in *. cbn [fst snd].
    destruct m as [|[k0 v0] m']; cbn [fst snd tl] in *.
    + split; [reflexivity|]. rewrite Hcur. apply Hstore; congruence.
    + split; [reflexivity|]. rewrite Hcur. apply Hstore; congruence.
  - (* OSetDefault *)
    destruct (setdefault_spec k (dflt d) I) as (s' & E & I' & K' & C').
    rewrite (wr_ok w _ E). rewrite Hm in *. cbn [fst snd].
    destruct (m_get m (kz k)) as [v0|]; cbn [fst snd].
    + split; [reflexivity|]. rewrite Hcur. apply Hstore; congruence.
    + split; [reflexivity|]. rewrite Hcur. apply Hstore; congruence.
  - (* OUpdate *)
    destruct (update_spec l I) as (s' & E & I' & C' & K').
    rewrite (@wr_ok unit w _ s' tt); [|rewrite E; reflexivity]. cbn [fst snd].
    split; [reflexivity|]. rewrite Hcur. apply Hstore; congruence.
  - (* OCopy *)
    destruct (copy_spec I) as (s' & E & I' & C' & K'). rewrite E. cbn [fst snd].
    split; [reflexivity|]. apply Hstore; congruence.
  - (* OUse *)
    pose proof (wlookup_rel name F) as Ln.
    destruct (wlookup (maps w) name) as [s|]; destruct (wlookup (amaps aw) name) as [[c m]|];
      try contradiction; cbn [fst snd];
      (split; [reflexivity | split; [first [reflexivity | assumption] | assumption]]).
  - (* OClear *)
    destruct (py_clear_spec I) as (I' & K' & C'). cbn [fst snd].
    split; [reflexivity|]. rewrite Hcur. apply Hstore; congruence.
  - (* OItems *)
    rewrite (rd_ok w s _ (items_spec a b I)). cbn [fst snd]. rewrite Hm.
    split; [reflexivity | split; assumption].
  - (* OKeys *)
    rewrite (rd_ok w s _ (keys_spec a b I)). cbn [fst snd]. rewrite Hm.
    split; [reflexivity | split; assumption].
  - (* OValues *)
    rewrite (rd_ok w s _ (values_spec a b I)). cbn [fst snd]. rewrite Hm.
    split; [reflexivity | split; assumption].
  - (* ORange *)
    unfold py_range. rewrite (rd_ok w s _ (items_spec a b I)). cbn [fst snd]. rewrite Hm.
    split; [reflexivity | split; assumption].
  - (* ONew *)
    destruct (Nat.ltb_spec c 4) as [Hlt|Hge].
    + rewrite (py_new_rejects Hlt). cbn [exc_out fst snd]. split; [reflexivity | split; assumption].
    + destruct (py_new_spec Hge) as (s0 & E0 & I0 & K0 & C0 & _). rewrite E0. cbn [fst snd].
      split; [reflexivity|]. apply Hstore; auto.
  - (* OBulk *)
    destruct (Nat.ltb_spec c 4) as [Hlt|Hge].
    + unfold from_sorted_items. rewrite (py_new_rejects Hlt). cbn [bind exc_out fst snd].
      split; [reflexivity | split; assumption].
    + destruct (bulk_spec l Hge) as (s0 & E0 & I0 & K0 & C0). rewrite E0. cbn [fst snd].
      split; [reflexivity|]. apply Hstore; auto.
Qed.

(* ---------------- whole histories ---------------- *)
Theorem run_refines : forall ops w aw, world_rel w aw ->
  snd (run false w ops) = snd (spec_run aw ops) /\
  world_rel (fst (run false w ops)) (fst (spec_run aw ops)).
Proof.
  induction ops as [|o ops IH]; intros w aw R; cbn [run spec_run].
  - split; [reflexivity|exact R].
  - destruct (step_refines o R) as [Ho R1].
    destruct (step false w o) as [w1 x]. destruct (spec_step aw o) as [a1 y]. cbn [fst snd] in *.
    destruct (IH w1 a1 R1) as [Hos R2].
    destruct (run false w1 ops) as [w2 xs]. destruct (spec_run a1 ops) as [a2 ys]. cbn [fst snd] in *.
    split; [congruence|exact R2].
Qed.

Lemma world_rel_0 : world_rel w0 aw0.
Proof. split; [reflexivity|constructor]. Qed.

(* every history from the empty world *)
Theorem history_refines : forall ops,
  snd (run false w0 ops) = snd (spec_run aw0 ops) /\
  world_rel (fst (run false w0 ops)) (fst (spec_run aw0 ops)).
Proof. intros ops. apply run_refines. apply world_rel_0. Qed.

Theorem reachable_inv : forall ops n s,
  In (n, s) (maps (fst (run false w0 ops))) -> PyInv s.
Proof.
  intros ops n s Hin. destruct (history_refines ops) as [_ [_ F]].
  induction F as [|p q ms ams R F IH]; [destruct Hin|].
  destruct Hin as [->|Hin]; [apply R|auto].
Qed.

End Reach.
