(* Local (non-recursive) facts about the Python insert path: LeafNode.insert,
   _insert_into_leaf / LeafNode.split_and_insert ([py_ins_leaf]),
   BranchNode.insert_child_and_split_if_needed / BranchNode.split ([py_ins_branch]),
   and the effect of one insertion on the in-order list of leaf links ([links_step]). *)
From Coq Require Import List Arith ZArith NArith Lia Bool.
From BPT Require Import Common.Base Common.AMap Rust.Tree Rust.Readers Rust.InvDefs Rust.Lib
  Rust.TreeFactsI Rust.InsertLocal Py.Tree Py.Inv Py.Facts.
Import ListNotations.
Set Implicit Arguments.

(* ------------------------------------------------------------------ *)
(* binary search on the two halves of a key list *)

Lemma lb_firstn_le : forall ks z n, lb ks z <= n -> lb (firstn n ks) z = lb ks z.
Proof.
  induction ks as [|k ks IH]; intros z n H.
  - rewrite firstn_nil. reflexivity.
  - cbn [lb] in *. destruct (Z.ltb_spec (kz k) z) as [Hlt|Hge].
    + destruct n as [|n]; [lia|]. cbn [firstn lb].
      destruct (Z.ltb_spec (kz k) z); [|lia]. f_equal. apply IH. lia.
    + destruct n as [|n]; cbn [firstn lb]; [reflexivity|].
      destruct (Z.ltb_spec (kz k) z); [lia|reflexivity].
Qed.

Lemma lb_skipn_sub : forall n ks z, n <= lb ks z -> lb (skipn n ks) z = lb ks z - n.
Proof.
  induction n as [|n IH]; intros ks z H.
  - cbn [skipn]. lia.
  - destruct ks as [|k ks]; [cbn [lb] in H; lia|].
    cbn [lb] in *. destruct (Z.ltb_spec (kz k) z) as [Hlt|Hge]; [|lia].
    cbn [skipn]. rewrite IH by lia. lia.
Qed.

Lemma bfound_sub_false : forall ks l z, sorted_keys ks -> sorted_keys l ->
  (forall k, In k l -> In k ks) -> bfound ks z = false -> bfound l z = false.
Proof.
  intros ks l z Hs Hl Hsub Hf. destruct (bfound l z) eqn:E; [|reflexivity].
  apply (@bfound_true_iff l z Hl) in E. destruct E as (k & Hin & Hk).
  exfalso. exact (@bfound_false ks z Hs Hf k (Hsub k Hin) Hk).
Qed.

(* the test [key < new_leaf.keys[0]] of split_and_insert, in terms of the position *)
Lemma lt_mid_key_iff : forall ks z mid r0, sorted_keys ks -> bfound ks z = false ->
  nth_error ks mid = Some r0 -> Z.ltb z (kz r0) = Nat.leb (lb ks z) mid.
Proof.
  intros ks z mid r0 Hs Hf Hn.
  assert (Hm : mid < length ks) by (apply nth_error_Some; congruence).
  destruct (Nat.leb_spec (lb ks z) mid) as [Hle|Hgt].
  - assert (Hin : In r0 (skipn (lb ks z) ks)).
    { apply nth_error_In with (mid - lb ks z). rewrite nth_error_skipn_add.
      replace (lb ks z + (mid - lb ks z)) with mid by lia. exact Hn. }
    pose proof (@Lib.lb_skipn_ge ks z r0 Hs Hin) as Hge.
    pose proof (@bfound_false ks z Hs Hf r0 (nth_error_In _ _ Hn)) as Hne.
    destruct (Z.ltb_spec z (kz r0)); [reflexivity|lia].
  - assert (Hin : In r0 (firstn (lb ks z) ks)).
    { apply nth_error_In with mid. rewrite nth_error_firstn_lt by lia. exact Hn. }
    pose proof (@lb_firstn_lt ks z r0 Hin) as Hlt.
    destruct (Z.ltb_spec z (kz r0)); [lia|reflexivity].
Qed.

(* ------------------------------------------------------------------ *)
(* LeafNode.insert *)

Lemma leaf_insert_absent : forall ks vs k v, bfound ks (kz k) = false ->
  leaf_insert ks vs k v = Ok (insert_at (lb ks (kz k)) k ks, insert_at (lb ks (kz k)) v vs).
Proof. intros ks vs k v H. unfold leaf_insert. rewrite H. reflexivity. Qed.

Lemma vec_set_ok' : forall (A : Type) s i (x : A) l, i < length l -> vec_set s i x l = Ok (set_nth i x l).
Proof. intros A s i x l H. unfold vec_set. destruct (Nat.ltb_spec i (length l)); [reflexivity|lia]. Qed.

Lemma leaf_insert_present : forall ks vs k v, length vs = length ks -> bfound ks (kz k) = true ->
  leaf_insert ks vs k v = Ok (ks, set_nth (lb ks (kz k)) v vs).
Proof.
  intros ks vs k v L H. unfold leaf_insert. rewrite H.
  destruct (bfound_true _ _ H) as (k0 & Hk0 & _).
  assert (lb ks (kz k) < length ks) by (apply nth_error_Some; congruence).
  rewrite vec_set_ok' by lia. reflexivity.
Qed.

(* ------------------------------------------------------------------ *)
(* the leaf chain: one insertion leaves the in-order list of (id, next) pairs unchanged, or
   replaces one entry (id, nx) by (id, nid); (nid, nx), [nid] being the value of the id
   counter handed to the call; in that case the counter grew strictly ([nid < nid']) *)
Definition links_step (nid nid' : N) (L L' : list (N * N)) : Prop :=
  L' = L \/
  ((nid < nid')%N /\
   exists pre id nx post, L = pre ++ (id, nx) :: post /\ L' = pre ++ (id, nid) :: (nid, nx) :: post).

Lemma links_step_refl : forall nid nid' L, links_step nid nid' L L.
Proof. intros. left. reflexivity. Qed.

Lemma links_step_split : forall nid nid' id nx, (nid < nid')%N ->
  links_step nid nid' [(id, nx)] [(id, nid); (nid, nx)].
Proof.
  intros nid nid' id nx H. right. split; [exact H|]. exists [], id, nx, []. split; reflexivity.
Qed.

Lemma links_step_mono : forall nid nid1 nid2 L L', (nid1 <= nid2)%N ->
  links_step nid nid1 L L' -> links_step nid nid2 L L'.
Proof.
  intros nid nid1 nid2 L L' H [E|(Hlt & X)]; [left; exact E|]. right. split; [lia|exact X].
Qed.

Lemma links_step_frame : forall nid nid' L L' a b,
  links_step nid nid' L L' -> links_step nid nid' (a ++ L ++ b) (a ++ L' ++ b).
Proof.
  intros nid nid' L L' a b [E|(Hlt & pre & id & nx & post & E1 & E2)].
  - left. rewrite E. reflexivity.
  - right. split; [exact Hlt|]. exists (a ++ pre), id, nx, (post ++ b). subst L L'.
    repeat rewrite <- app_assoc. cbn [app]. split; reflexivity.
Qed.

Lemma links_step_ext : forall nid nid' L L', links_step nid nid' L L' -> links_ext L L'.
Proof.
  intros nid nid' L L' [E|(_ & pre & id & nx & post & E1 & E2)].
  - rewrite E. apply links_ext_refl.
  - subst L L'.
    change ((id, nx) :: post) with ([(id, nx)] ++ post).
    change ((id, nid) :: (nid, nx) :: post) with ([(id, nid); (nid, nx)] ++ post).
    apply links_ext_frame. apply links_ext_split.
Qed.

Lemma NoDup_insert_mid : forall (A : Type) (a : A) l1 l2,
  NoDup (l1 ++ l2) -> ~ In a (l1 ++ l2) -> NoDup (l1 ++ a :: l2).
Proof.
  induction l1 as [|x l1 IH]; intros l2 Hnd Hni; cbn [app] in *.
  - constructor; auto.
  - inversion Hnd as [|y l Hx Hnd']; subst. constructor.
    + intros Hin. apply in_app_or in Hin. destruct Hin as [Hin|[Hin|Hin]].
      * apply Hx. apply in_or_app. auto.
      * apply Hni. left. auto.
      * apply Hx. apply in_or_app. auto.
    + apply IH; auto. intros Hin. apply Hni. right. exact Hin.
Qed.

(* everything the state invariant says about the chain and the ids survives a step *)
Lemma links_step_inv : forall nid nid' L L' after,
  links_step nid nid' L L' -> (nid <= nid')%N -> nid <> NULL ->
  (forall id, In id (map fst L) -> (id < nid)%N /\ id <> NULL) ->
  NoDup (map fst L) -> links_ok L after ->
  links_ok L' after /\ NoDup (map fst L') /\
  (forall id, In id (map fst L') -> (id < nid')%N /\ id <> NULL) /\
  hd_error (map fst L') = hd_error (map fst L).
Proof.
  intros nid nid' L L' after St Hle Hnn Hb Hnd Hok.
  split.
  { pose proof (links_step_ext St) as X. specialize (X [] [] after).
    cbn [app] in X. rewrite !app_nil_r in X. auto. }
  destruct St as [E|(Hlt & pre & id & nx & post & E1 & E2)].
  - subst L'. split; [exact Hnd|]. split; [|reflexivity].
    intros id Hin. destruct (Hb id Hin). split; [lia|auto].
  - subst L L'. rewrite !map_app in *. cbn [map fst] in *.
    assert (Hfresh : ~ In nid (map fst pre ++ id :: map fst post)).
    { intros Hin. destruct (Hb nid Hin). lia. }
    split; [|split].
    + change (map fst pre ++ id :: nid :: map fst post)
        with (map fst pre ++ [id] ++ nid :: map fst post).
      rewrite app_assoc. apply NoDup_insert_mid; rewrite <- app_assoc; cbn [app]; auto.
    + intros x Hin. apply in_app_or in Hin.
      assert (Hx : x = nid \/ In x (map fst pre ++ id :: map fst post)).
      { destruct Hin as [Hin|[Hin|[Hin|Hin]]].
        - right. apply in_or_app. auto.
        - right. apply in_or_app. right. left. auto.
        - left. auto.
        - right. apply in_or_app. right. right. auto. }
      destruct Hx as [->|Hx]; [split; [lia|auto]|].
      destruct (Hb x Hx). split; [lia|auto].
    + destruct pre as [|[a b] pre]; reflexivity.
Qed.

(* ------------------------------------------------------------------ *)
(* results of the recursive insert *)
Definition pres_contents (ir : ins_res) : list (key * pyval) :=
  match ir with IDone t => contents t | ISplit t _ r => contents t ++ contents r end.
Definition pres_links (ir : ins_res) : list (N * N) :=
  match ir with IDone t => pleaf_links t | ISplit t _ r => pleaf_links t ++ pleaf_links r end.

Definition pres_ord_shape (c : nat) (isroot : bool) (h : nat) (lo hi : option Z) (ir : ins_res) : Prop :=
  match ir with
  | IDone t => ord lo hi t /\ pshape c isroot h t
  | ISplit t sep r =>
      ord lo (Some (kz sep)) t /\ ord (Some (kz sep)) hi r /\
      pshape c false h t /\ pshape c false h r /\
      lo_lt lo (kz sep) /\ hi_ok hi (kz sep)
  end.

Definition ptree_post (c : nat) (isroot : bool) (h : nat) (lo hi : option Z) (t : ptree)
           (k : key) (v : pyval) (nid nid' : N) (ir : ins_res) : Prop :=
  (nid <= nid')%N /\ (nid' = nid \/ nid' <> NULL) /\
  pres_ord_shape c isroot h lo hi ir /\
  pres_contents ir = m_insert (contents t) k v /\
  links_step nid nid' (pleaf_links t) (pres_links ir).

(* ------------------------------------------------------------------ *)
(* _insert_into_leaf on a full leaf: split first, then insert into the chosen half; the
   result is the cut of the (capacity+1)-element list at position p *)
Lemma py_ins_leaf_split_eq : forall nid id c ks (vs : list pyval) next k v,
  4 <= c -> length ks = c -> length vs = c -> sorted_keys ks -> bfound ks (kz k) = false ->
  let K := insert_at (lb ks (kz k)) k ks in
  let VV := insert_at (lb ks (kz k)) v vs in
  exists p sep,
    py_ins_leaf nid id c ks vs next k v =
      Ok (next_after nid,
          ISplit (PLeaf id c (firstn p K) (firstn p VV) nid) sep
                 (PLeaf nid c (skipn p K) (skipn p VV) next)) /\
    nth_error K p = Some sep /\ 0 < p /\
    (c - 1) / 2 <= p /\ p <= c /\ (c - 1) / 2 <= S c - p /\ S c - p <= c.
Proof.
  intros nid id c ks vs next k v Hc Lk Lv Hs Ef K VV.
  pose proof (lb_le_length ks (kz k)) as Hi.
  pose proof (Nat.div_mod c 2) as D1. pose proof (Nat.mod_upper_bound c 2) as D2.
  pose proof (Nat.div_mod (c - 1) 2) as D3. pose proof (Nat.mod_upper_bound (c - 1) 2) as D4.
  unfold py_ins_leaf. rewrite Ef, Lk.
  destruct (Nat.leb_spec c c) as [_|]; [|lia]. cbn [negb].
  set (mid := c / 2) in *. set (i := lb ks (kz k)) in *.
  destruct (nth_error ks mid) as [r0|] eqn:En; [|apply nth_error_None in En; lia].
  pose proof (skipn_nth_cons _ _ En) as Hsk. rewrite Hsk.
  rewrite (@lt_mid_key_iff ks (kz k) mid r0 Hs Ef En). fold i.
  destruct (Nat.leb_spec i mid) as [Hle|Hgt].
  - (* into the left half *)
    assert (Bl : bfound (firstn mid ks) (kz k) = false).
    { apply (@bfound_sub_false ks); auto; [apply sorted_keys_firstn; auto|].
      intros x Hx. eapply In_firstn; eauto. }
    rewrite leaf_insert_absent by exact Bl. cbn [bind fst snd].
    rewrite lb_firstn_le by (fold i; lia). fold i.
    exists (S mid), r0. split; [|split].
    + unfold K, VV. fold i. rewrite !firstn_S_insert_at, !skipn_S_insert_at by lia.
      rewrite Hsk. reflexivity.
    + unfold K. fold i. rewrite nth_error_insert_at_gt by lia. rewrite <- En. f_equal. lia.
    + lia.
  - (* into the right half *)
    assert (Br : bfound (r0 :: skipn (S mid) ks) (kz k) = false).
    { rewrite <- Hsk. apply (@bfound_sub_false ks); auto; [apply sorted_keys_skipn; auto|].
      intros x Hx. eapply In_skipn; eauto. }
    rewrite leaf_insert_absent by exact Br. cbn [bind fst snd].
    rewrite <- Hsk. rewrite lb_skipn_sub by (fold i; lia). fold i.
    exists mid, r0. split; [|split].
    + unfold K, VV. fold i. rewrite !firstn_insert_at_le, !skipn_insert_at_ge by lia.
      rewrite Hsk. destruct (i - mid) eqn:Ed; [lia|]. reflexivity.
    + unfold K. fold i. rewrite nth_error_insert_at_lt by lia. exact En.
    + lia.
Qed.

Lemma py_ins_leaf_spec : forall nid id ks vs next k v c isroot lo hi,
  4 <= c -> ord lo hi (PLeaf id c ks vs next) -> pshape c isroot 0 (PLeaf id c ks vs next) ->
  in_bounds lo hi k ->
  exists nid' ir, py_ins_leaf nid id c ks vs next k v = Ok (nid', ir) /\
    ptree_post c isroot 0 lo hi (PLeaf id c ks vs next) k v nid nid' ir.
Proof.
  intros nid id ks vs next k v c isroot lo hi Hc O Sh B.
  destruct (ord_leaf_inv O) as (Hs & F).
  destruct (pshape_leaf_inv Sh) as (_ & _ & Lv & Lc & Lmin).
  pose proof (lb_le_length ks (kz k)) as Hi.
  destruct (bfound ks (kz k)) eqn:Ef.
  - (* update in place *)
    destruct (bfound_true _ _ Ef) as (k0 & Hk0 & Hz).
    assert (lb ks (kz k) < length ks) by (apply nth_error_Some; congruence).
    exists nid, (IDone (PLeaf id c ks (set_nth (lb ks (kz k)) v vs) next)).
    split; [unfold py_ins_leaf; rewrite Ef, vec_set_ok' by lia; reflexivity|].
    split; [lia|]. split; [left; reflexivity|]. split; [|split]; cbn.
    + split; [constructor; auto|]. constructor; auto. rewrite length_set_nth; auto.
    + apply leaf_insert_existing; auto.
    + apply links_step_refl.
  - destruct (Nat.lt_ge_cases (length ks) c) as [Hlt|Hge].
    + (* plain insert *)
      exists nid, (IDone (PLeaf id c (insert_at (lb ks (kz k)) k ks)
                                (insert_at (lb ks (kz k)) v vs) next)).
      split.
      { unfold py_ins_leaf. rewrite Ef. destruct (Nat.leb_spec c (length ks)); [lia|].
        cbn [negb]. rewrite leaf_insert_absent by exact Ef. reflexivity. }
      split; [lia|]. split; [left; reflexivity|]. split; [|split]; cbn.
      * split.
        -- constructor; [apply sorted_keys_insert_at_lb; auto|apply Forall_insert_at; auto].
        -- constructor; rewrite ?length_insert_at by lia; try lia.
           intros E. specialize (Lmin E). lia.
      * apply leaf_insert_new; auto.
      * apply links_step_refl.
    + (* split *)
      assert (Lk : length ks = c) by lia.
      destruct (@py_ins_leaf_split_eq nid id c ks vs next k v Hc Lk (eq_trans Lv Lk) Hs Ef)
        as (p & sep & Eq & Hn & P0 & P1 & P2 & P3 & P4).
      cbv zeta in Eq, Hn.
      set (K := insert_at (lb ks (kz k)) k ks) in *.
      set (VV := insert_at (lb ks (kz k)) v vs) in *.
      assert (LK : length K = S c) by (unfold K; rewrite length_insert_at; lia).
      assert (LV : length VV = S c) by (unfold VV; rewrite length_insert_at; lia).
      assert (SK : sorted_keys K) by (apply sorted_keys_insert_at_lb; auto).
      assert (FK : Forall (in_bounds lo hi) K) by (apply Forall_insert_at; auto).
      eexists _, _. split; [exact Eq|].
      destruct (@leaf_split_at pyval lo hi K VV p sep id nid c nid next SK FK P0 Hn)
        as (O1 & O2 & O3 & O4).
      pose proof (next_after_gt nid) as Hgt.
      split; [lia|]. split; [right; apply next_after_not_null|]. split; [|split]; cbn.
      * repeat split; auto.
        -- constructor; rewrite ?firstn_length; try lia.
        -- constructor; rewrite ?skipn_length; try lia.
      * rewrite <- combine_firstn_skipn. apply leaf_insert_new; auto.
      * apply links_step_split. exact Hgt.
Qed.

(* ------------------------------------------------------------------ *)
(* BranchNode.insert_child_and_split_if_needed + BranchNode.split *)
Lemma py_ins_branch_eq : forall nid id c ks (cs1 : list ptree) ci sep newc,
  4 <= c -> ci <= length ks -> length cs1 = S (length ks) -> length ks <= c ->
  let ks2 := insert_at ci sep ks in
  let cs2 := insert_at (S ci) newc cs1 in
  let mid := S (length ks) / 2 in
  (S (length ks) < c ->
     py_ins_branch nid id c ks cs1 ci sep newc = Ok (nid, IDone (PBranch id c ks2 cs2))) /\
  (c <= S (length ks) -> exists p, nth_error ks2 mid = Some p /\
     py_ins_branch nid id c ks cs1 ci sep newc =
       Ok (next_after nid,
           ISplit (PBranch id c (firstn mid ks2) (firstn (S mid) cs2)) p
                  (PBranch nid c (skipn (S mid) ks2) (skipn (S mid) cs2)))).
Proof.
  intros nid id c ks cs1 ci sep newc Hc Hci Lc Lk ks2 cs2 mid.
  assert (L2 : length ks2 = S (length ks)) by (unfold ks2; apply length_insert_at; auto).
  unfold py_ins_branch. fold ks2 cs2. rewrite L2. fold mid. split.
  - intros Hlt. destruct (Nat.leb_spec c (S (length ks))); [lia|]. reflexivity.
  - intros Hge. destruct (Nat.leb_spec c (S (length ks))); [|lia]. cbn [negb].
    pose proof (Nat.div_mod (S (length ks)) 2) as D1.
    pose proof (Nat.mod_upper_bound (S (length ks)) 2) as D2. fold mid in D1.
    destruct (nth_error ks2 mid) as [p|] eqn:Ep; [|apply nth_error_None in Ep; lia].
    exists p. split; auto. rewrite (vec_get_ok _ _ _ Ep). reflexivity.
Qed.

(* sizes of the two halves of a branch split *)
Lemma branch_split_sizes : forall c n, 4 <= c -> (n = c \/ n = S c) ->
  0 < n / 2 /\ (c - 1) / 2 <= n / 2 /\ n / 2 <= c /\ n / 2 < n /\
  (c - 1) / 2 <= n - S (n / 2) /\ n - S (n / 2) <= c.
Proof.
  intros c n Hc Hn.
  pose proof (Nat.div_mod n 2). pose proof (Nat.mod_upper_bound n 2).
  pose proof (Nat.div_mod (c - 1) 2). pose proof (Nat.mod_upper_bound (c - 1) 2).
  lia.
Qed.
