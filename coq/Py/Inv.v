(* Invariant of the Python map model (definitions only).
   Ord    ([ord] of Rust/InvDefs.v, same routing rule: equal keys go right): node keys
          strictly ascending, every key of a subtree inside the half-open interval its
          ancestors' separators allow;
   Shape  ([pshape]): all leaves at depth h, |values| = |keys|, |children| = |keys|+1, no
          node holds more than [cap] keys, every non-root node holds at least
          (cap-1)/2 keys (written literally), a branch root has at least one key (two
          children), every node's capacity attribute equals the map's;
   Chain  ([chain_ok] of Rust/InvDefs.v): each in-order leaf's next is the id of the
          following leaf, the last one's is NULL (None);
   Ids    leaf ids pairwise distinct, different from NULL, below the id counter;
   Head   [self.leaves] is the first leaf in order;
   Cache  [_rightmost_leaf_cache] is None or an id that was handed out. *)
From BPT Require Import Common.Base Common.AMap Rust.Tree Rust.Readers Rust.InvDefs Py.Tree.
Set Implicit Arguments.

Definition pmin (cap : nat) : nat := (cap - 1) / 2.

Inductive pshape (cap : nat) : bool -> nat -> ptree -> Prop :=
| pshape_leaf (isroot : bool) id ks vs nx :
    length vs = length ks -> length ks <= cap ->
    (isroot = false -> (cap - 1) / 2 <= length ks) ->
    pshape cap isroot 0 (PLeaf id cap ks vs nx)
| pshape_branch (isroot : bool) h id ks cs :
    length cs = S (length ks) -> length ks <= cap ->
    (isroot = false -> (cap - 1) / 2 <= length ks) ->
    (isroot = true -> 1 <= length ks) ->
    (forall ch, In ch cs -> pshape cap false h ch) ->
    pshape cap isroot (S h) (PBranch id cap ks cs).

Notation pleaf_links := (@leaf_links pyval).
Notation pleaf_ids := (@leaf_ids pyval).

(* every leaf id of [t] is a handed-out object id *)
Definition ids_below (t : ptree) (n : N) : Prop :=
  forall id, In id (pleaf_ids t) -> (id < n)%N /\ id <> NULL.

Record PyInv (s : pstate) : Prop := mkPyInv {
  pi_cap : 4 <= tcap s;
  pi_ord : ord None None (troot s);
  pi_shape : exists h, pshape (tcap s) true h (troot s);
  pi_chain : chain_ok (troot s);
  pi_nodup : NoDup (pleaf_ids (troot s));
  pi_ids : ids_below (troot s) (tnext s);
  pi_next : tnext s <> NULL;
  pi_head : hd_error (pleaf_ids (troot s)) = Some (tleaves s);
  pi_cache : forall c, tcache s = Some c -> (c < tnext s)%N /\ c <> NULL }.

(* the [start, end) filter of items / keys / values / range; None = unbounded *)
Definition in_range (a b : option Z) (z : Z) : bool :=
  andb (match a with Some x => Z.leb x z | None => true end)
       (match b with Some y => Z.ltb z y | None => true end).

Definition m_items (m : amap pyval) (a b : option Z) : amap pyval :=
  filter (fun e => in_range a b (kz (fst e))) m.

Definition is_some (A : Type) (o : option A) : bool :=
  match o with Some _ => true | None => false end.
