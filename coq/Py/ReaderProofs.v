(* The read-only calls of the Python map model return what the abstract sorted association
   list [pcontents s] says, on every state satisfying [PyInv]. *)
From Coq Require Import List Arith ZArith NArith Lia Bool.
From BPT Require Import Common.Base Common.AMap Rust.Tree Rust.Readers Rust.InvDefs Rust.Lib
  Rust.TreeFactsI Py.Tree Py.Inv Py.Facts Py.LeafFacts Py.WalkFacts.
Import ListNotations.
Set Implicit Arguments.

(* ------------------------------------------------------------------ *)
(* descent *)

Lemma flat_map_contents_leaves : forall (cs : list ptree),
  flat_map (@contents pyval) (flat_map leaves_of cs) = flat_map (@contents pyval) cs.
Proof.
  induction cs as [|c cs IH]; [reflexivity|]. cbn [flat_map].
  rewrite flat_map_app, IH, <- contents_leaves. reflexivity.
Qed.

(* the leaf reached for [z]: everything in the leaves before it is smaller than z,
   everything in the leaves after it is greater (equal keys are routed right) *)
Lemma py_descend_spec : forall lo hi (t : ptree), ord lo hi t ->
  forall c r h, pshape c r h t -> forall fuel z, h < fuel ->
  exists L1 id ks vs nx L2,
    py_descend fuel t z = Ok (PLeaf id c ks vs nx) /\
    leaves_of t = L1 ++ PLeaf id c ks vs nx :: L2 /\
    sorted_keys ks /\ length vs = length ks /\
    (forall e, In e (flat_map (@contents pyval) L1) -> (kz (fst e) < z)%Z) /\
    (forall e, In e (flat_map (@contents pyval) L2) -> (z < kz (fst e))%Z).
Proof.
  induction 1 as [lo hi id c ks vs nx Hs F | lo hi id c ks cs Hs F Hc IH];
    intros c0 r h Sh fuel z Hf.
  - destruct (pshape_leaf_inv Sh) as (-> & -> & Lv & _).
    destruct fuel as [|fuel]; [lia|]. cbn [py_descend].
    exists [], id, ks, vs, nx, []. cbn [app flat_map]. repeat split; auto; intros e [].
  - pose proof (@ord_branch pyval lo hi id c ks cs Hs F Hc) as O.
    destruct (p_branch_contents_split z O Sh) as [Hlt Hgt].
    destruct (pshape_branch_inv Sh) as (h' & -> & -> & Lc & _ & _ & _ & Hsh).
    destruct fuel as [|fuel]; [lia|]. cbn [py_descend].
    rewrite Lc. cbn [Nat.eqb]. rewrite (find_child_index_ok ks cs z Lc).
    cbn [bind]. pose proof (child_index_le_length ks z) as Hci.
    set (ci := child_index ks z) in *.
    destruct (nth_error cs ci) as [ch|] eqn:Ech; [|apply nth_error_None in Ech; lia].
    unfold vec_get. rewrite Ech. cbn [bind].
    destruct (IH ci ch Ech c0 false h' (Hsh ch (nth_error_In _ _ Ech)) fuel z ltac:(lia))
      as (L1 & lid & lks & lvs & lnx & L2 & D & E & Sk & Lv & H1 & H2).
    exists (flat_map leaves_of (firstn ci cs) ++ L1), lid, lks, lvs, lnx,
           (L2 ++ flat_map leaves_of (skipn (S ci) cs)).
    split; [exact D|]. split.
    { cbn [leaves_of]. rewrite (flat_map_nth_split leaves_of ci cs Ech), E.
      rewrite <- !app_assoc. reflexivity. }
    split; [exact Sk|]. split; [exact Lv|]. split.
    + intros e He. rewrite flat_map_app in He. apply in_app_or in He. destruct He as [He|He].
      * rewrite flat_map_contents_leaves in He. auto.
      * auto.
    + intros e He. rewrite flat_map_app in He. apply in_app_or in He. destruct He as [He|He].
      * auto.
      * rewrite flat_map_contents_leaves in He. auto.
Qed.

(* ------------------------------------------------------------------ *)
(* state-level facts *)

Lemma PyInv_ids_not_null : forall s, PyInv s ->
  forall id, In id (pleaf_ids (troot s)) -> id <> NULL.
Proof. intros s I id Hin. exact (proj2 (pi_ids I id Hin)). Qed.

Lemma PyInv_head_id : forall s, PyInv s -> head_id (leaves_of (troot s)) = tleaves s.
Proof.
  intros s I. pose proof (pi_head I) as H. rewrite leaf_ids_leaves in H.
  destruct (leaves_of (troot s)) as [|l L]; cbn [map hd_error] in H; [discriminate|].
  cbn [head_id]. congruence.
Qed.

Lemma PyInv_leaves_wf : forall s, PyInv s -> Forall leaf_wf (leaves_of (troot s)).
Proof. intros s I. destruct (pi_shape I) as (h & Sh). exact (leaves_wf Sh). Qed.

Lemma pcontents_leaves : forall s, pcontents s = flat_map (@contents pyval) (leaves_of (troot s)).
Proof. intros s. unfold pcontents. apply contents_leaves. Qed.

Lemma leaf_of_spec : forall s z, PyInv s ->
  exists L1 id ks vs nx L2,
    leaf_of s z = Ok (PLeaf id (tcap s) ks vs nx) /\
    leaves_of (troot s) = L1 ++ PLeaf id (tcap s) ks vs nx :: L2 /\
    sorted_keys ks /\ length vs = length ks /\
    (forall e, In e (flat_map (@contents pyval) L1) -> (kz (fst e) < z)%Z) /\
    (forall e, In e (flat_map (@contents pyval) L2) -> (z < kz (fst e))%Z) /\
    pcontents s = flat_map (@contents pyval) L1 ++ combine ks vs ++ flat_map (@contents pyval) L2.
Proof.
  intros s z I. destruct (pi_shape I) as (h & Sh). unfold leaf_of.
  rewrite (pshape_height Sh).
  destruct (py_descend_spec (pi_ord I) Sh (fuel := S h) z ltac:(lia))
    as (L1 & id & ks & vs & nx & L2 & D & E & Sk & Lv & H1 & H2).
  exists L1, id, ks, vs, nx, L2. repeat (split; [assumption|]).
  rewrite pcontents_leaves, E, flat_map_app. cbn [flat_map contents]. reflexivity.
Qed.

Lemma leaf_of_get : forall s z, PyInv s ->
  exists id ks vs nx,
    leaf_of s z = Ok (PLeaf id (tcap s) ks vs nx) /\ length vs = length ks /\
    m_get (pcontents s) z = if bfound ks z then nth_error vs (lb ks z) else None.
Proof.
  intros s z I.
  destruct (leaf_of_spec z I) as (L1 & id & ks & vs & nx & L2 & D & E & Sk & Lv & H1 & H2 & C).
  exists id, ks, vs, nx. split; [exact D|]. split; [exact Lv|].
  rewrite C. rewrite m_get_app_r by exact H1. rewrite m_get_app_l by exact H2.
  apply leaf_get; assumption.
Qed.

Lemma bfound_nth_vs : forall ks (vs : list pyval) z, length vs = length ks -> bfound ks z = true ->
  exists v, nth_error vs (lb ks z) = Some v.
Proof.
  intros ks vs z Lv B. apply bfound_true in B. destruct B as (k & Hn & _).
  assert (lb ks z < length ks) by (apply nth_error_Some; congruence).
  destruct (nth_error vs (lb ks z)) as [v|] eqn:E; [eauto|].
  apply nth_error_None in E. lia.
Qed.

(* ------------------------------------------------------------------ *)
(* point lookups *)

Theorem py_get_spec : forall s z d, PyInv s ->
  py_get s z d = Ok (match m_get (pcontents s) z with Some v => v | None => d end).
Proof.
  intros s z d I. destruct (leaf_of_get z I) as (id & ks & vs & nx & D & Lv & G).
  unfold py_get. rewrite D. cbn [bind]. rewrite G.
  destruct (bfound ks z) eqn:B; [|reflexivity].
  destruct (bfound_nth_vs ks vs z Lv B) as (v & Hv). unfold vec_get. rewrite Hv. reflexivity.
Qed.

Theorem py_contains_spec : forall s z, PyInv s ->
  py_contains s z = Ok (is_some (m_get (pcontents s) z)).
Proof.
  intros s z I. destruct (leaf_of_get z I) as (id & ks & vs & nx & D & Lv & G).
  unfold py_contains. rewrite D. cbn [bind pkeys]. rewrite G.
  destruct (bfound ks z) eqn:B; [|reflexivity].
  destruct (bfound_nth_vs ks vs z Lv B) as (v & Hv). rewrite Hv. reflexivity.
Qed.

Theorem py_getitem_spec : forall s z, PyInv s -> py_getitem s z = Ok (m_get (pcontents s) z).
Proof.
  intros s z I. unfold py_getitem. rewrite (py_get_spec z PNone I), (py_contains_spec z I).
  cbn [bind]. destruct (m_get (pcontents s) z) as [[|v]|]; reflexivity.
Qed.

(* ------------------------------------------------------------------ *)
(* len, bool *)

Theorem py_len_spec : forall s, PyInv s -> py_len s = Ok (length (pcontents s)).
Proof.
  intros s I. unfold py_len, chain_fuel. rewrite <- (PyInv_head_id I).
  rewrite (@key_count_walk (troot s) (pi_nodup I) (pi_chain I) (PyInv_ids_not_null I)
             (leaves_of (troot s)) [] _ 0 eq_refl).
  - cbn [Nat.add]. rewrite (nkeys_contents (PyInv_leaves_wf I)), pcontents_leaves. reflexivity.
  - rewrite count_leaves_length. lia.
Qed.

Theorem py_bool_spec : forall s, PyInv s -> py_bool s = Ok (Nat.ltb 0 (length (pcontents s))).
Proof. intros s I. unfold py_bool. rewrite (py_len_spec I). reflexivity. Qed.

(* ------------------------------------------------------------------ *)
(* items / keys / values *)

Theorem py_items_spec : forall s a b, PyInv s -> py_items s a b = Ok (m_items (pcontents s) a b).
Proof.
  intros s a b I. unfold py_items, chain_fuel. destruct a as [x|].
  - destruct (leaf_of_spec x I) as (L1 & id & ks & vs & nx & L2 & D & E & Sk & Lv & H1 & H2 & C).
    rewrite D. cbn [bind fst snd pid pkeys].
    change id with (head_id (PLeaf id (tcap s) ks vs nx :: L2)) at 1.
    rewrite (@items_walk_spec (troot s) b (pi_nodup I) (pi_chain I) (PyInv_ids_not_null I)
               (PLeaf id (tcap s) ks vs nx :: L2) L1 _ (lb ks x) E).
    + f_equal. cbn [from_idx contents]. symmetry.
      pose proof (PyInv_sorted I) as Srt. rewrite C in *.
      rewrite <- (firstn_skipn (lb ks x) (combine ks vs)) at 1.
      rewrite <- app_assoc, app_assoc.
      rewrite <- (firstn_skipn (lb ks x) (combine ks vs)) in Srt.
      rewrite <- app_assoc, app_assoc in Srt.
      apply f_equal. apply m_items_split.
      * intros e He. apply in_app_or in He. destruct He as [He|He]; [auto|].
        rewrite <- combine_firstn' in He. destruct e as [k v]. apply in_combine_l in He.
        cbn [fst]. exact (@lb_firstn_lt ks x k He).
      * intros e He. apply in_app_or in He. destruct He as [He|He].
        -- rewrite <- combine_skipn in He. destruct e as [k v]. apply in_combine_l in He.
           cbn [fst]. exact (@lb_skipn_ge ks x k Sk He).
        -- specialize (H2 e He). lia.
      * eapply m_sorted_app_r; eauto.
    + pose proof (PyInv_leaves_wf I) as W. rewrite E in W. apply Forall_app in W. tauto.
    + rewrite count_leaves_length, E, app_length. lia.
  - cbn [bind fst snd]. rewrite <- (PyInv_head_id I).
    rewrite (@items_walk_spec (troot s) b (pi_nodup I) (pi_chain I) (PyInv_ids_not_null I)
               (leaves_of (troot s)) [] _ 0 eq_refl (PyInv_leaves_wf I)).
    + rewrite from_idx_0, <- pcontents_leaves, m_items_from_start; [reflexivity|].
      apply PyInv_sorted; assumption.
    + rewrite count_leaves_length. lia.
Qed.

Theorem py_keys_spec : forall s a b, PyInv s ->
  py_keys s a b = Ok (map fst (m_items (pcontents s) a b)).
Proof. intros s a b I. unfold py_keys. rewrite (py_items_spec a b I). reflexivity. Qed.

Theorem py_values_spec : forall s a b, PyInv s ->
  py_values s a b = Ok (map snd (m_items (pcontents s) a b)).
Proof. intros s a b I. unfold py_values. rewrite (py_items_spec a b I). reflexivity. Qed.

(* ------------------------------------------------------------------ *)
(* the head leaf, for popitem *)
Theorem py_first_leaf_spec : forall s, PyInv s ->
  exists id c ks vs nx, find_leaf (troot s) (tleaves s) = Some (PLeaf id c ks vs nx) /\
    length vs = length ks /\
    (exists rest, pcontents s = combine ks vs ++ rest) /\
    (ks = [] -> pcontents s = []).
Proof.
  intros s I. destruct (pi_shape I) as (h & Sh).
  pose proof (PyInv_head_id I) as Hh. pose proof (PyInv_leaves_wf I) as W.
  pose proof (pcontents_leaves s) as C.
  destruct (leaves_of (troot s)) as [|l rest] eqn:E; [exact (False_ind _ (leaves_of_nonempty Sh E))|].
  destruct (@walk_step (troot s) [] l rest (pi_nodup I) (pi_chain I) E)
    as (id & c & ks & vs & -> & F).
  cbn [head_id pid] in Hh. subst id. inversion W as [|x xs Wl _]; subst. cbn [leaf_wf] in Wl.
  exists (tleaves s), c, ks, vs, (head_id rest). split; [exact F|]. split; [exact Wl|].
  cbn [flat_map contents] in C. split; [eauto|]. intros ->.
  destruct (leaves_of_pshape Sh (PLeaf (tleaves s) c [] vs (head_id rest)))
    as (r' & S' & Hr'); [rewrite E; left; reflexivity|].
  destruct h as [|h].
  - destruct (pshape_0_leaf Sh) as (i0 & k0 & v0 & n0 & Er). rewrite Er in E. cbn [leaves_of] in E.
    assert (Hr : rest = []) by (inversion E; reflexivity).
    rewrite C, Hr. destruct vs; reflexivity.
  - rewrite (Hr' ltac:(discriminate)) in S'.
    destruct (pshape_leaf_inv S') as (_ & _ & _ & _ & Hmin). specialize (Hmin eq_refl).
    cbn [length] in Hmin. pose proof (pmin_facts (pi_cap I)). lia.
Qed.

(* the rightmost leaf, for the bulk-load cache *)
Theorem last_leaf_spec : forall s, PyInv s ->
  exists lid c ks vs front,
    last_leaf (chain_fuel s) (troot s) (tleaves s) = Ok lid /\
    leaves_of (troot s) = front ++ [PLeaf lid c ks vs NULL].
Proof.
  intros s I. destruct (pi_shape I) as (h & Sh).
  pose proof (PyInv_head_id I) as Hh.
  pose proof (count_leaves_length (troot s)) as CL.
  destruct (leaves_of (troot s)) as [|l rest] eqn:E; [exact (False_ind _ (leaves_of_nonempty Sh E))|].
  cbn [head_id] in Hh.
  pose proof (@last_leaf_walk (troot s) (pi_nodup I) (pi_chain I) (PyInv_ids_not_null I)
                rest l [] (chain_fuel s) E) as LW.
  unfold chain_fuel in LW at 1. rewrite CL in LW. cbn [length] in LW. specialize (LW ltac:(lia)).
  rewrite Hh in LW.
  assert (Hsplit : l :: rest = removelast (l :: rest) ++ [List.last rest l]).
  { rewrite (@app_removelast_last _ (l :: rest) l) at 1 by discriminate.
    f_equal. f_equal. destruct rest; reflexivity. }
  rewrite <- E in Hsplit.
  destruct (@last_leaf_next_null (troot s) _ _ (pi_chain I) Hsplit) as (id & c & ks & vs & El).
  rewrite El in LW, Hsplit. cbn [pid] in LW.
  exists id, c, ks, vs, (removelast (leaves_of (troot s))). split; [exact LW|].
  rewrite <- E. exact Hsplit.
Qed.

(* ------------------------------------------------------------------ *)
(* m_items with both endpoints unbounded is the whole map *)
Lemma m_items_all : forall m : amap pyval, m_items m None None = m.
Proof.
  intros m. unfold m_items. induction m as [|e m IH]; [reflexivity|].
  cbn [filter in_range andb]. f_equal. exact IH.
Qed.

(* ------------------------------------------------------------------ *)
(* Non-vacuity: a concrete three-level state (20 keys 10, 20, .., 200 at capacity 4, inserted
   in scrambled order with py_new / py_setitem ([py_update] is the fold of py_setitem);
   keys divisible by 30 hold None): root branch -> 2 branches -> 7 leaves. *)
Definition demo_items : list (key * pyval) :=
  map (fun z : Z => (mkKey (z * 10) (Z.to_N z),
                     if Z.eqb (z mod 3) 0 then PNone else PVal (z * 100)))
      [7; 3; 15; 1; 12; 20; 9; 5; 18; 2; 14; 11; 6; 19; 4; 16; 8; 13; 17; 10]%Z.
Definition demo_state : res pstate := do s <- py_new 4; py_update s demo_items.

Definition kv (z : Z) : key * pyval :=
  (mkKey (z * 10) (Z.to_N z), if Z.eqb (z mod 3) 0 then PNone else PVal (z * 100)).

Example demo_readers :
  (do s <- demo_state; Ok (height (troot s), count_leaves (troot s))) = Ok (2, 7) /\
  (do s <- demo_state; Ok (pcontents s)) =
    Ok (map kv [1;2;3;4;5;6;7;8;9;10;11;12;13;14;15;16;17;18;19;20]%Z) /\
  (* both endpoints present *)
  (do s <- demo_state; py_items s (Some 60%Z) (Some 100%Z)) = Ok (map kv [6;7;8;9]%Z) /\
  (* both endpoints absent *)
  (do s <- demo_state; py_items s (Some 55%Z) (Some 95%Z)) = Ok (map kv [6;7;8;9]%Z) /\
  (* inverted and empty intervals *)
  (do s <- demo_state; py_items s (Some 100%Z) (Some 50%Z)) = Ok [] /\
  (do s <- demo_state; py_items s (Some 70%Z) (Some 70%Z)) = Ok [] /\
  (* None endpoints *)
  (do s <- demo_state; py_items s None (Some 35%Z)) = Ok (map kv [1;2;3]%Z) /\
  (do s <- demo_state; py_items s (Some 170%Z) None) = Ok (map kv [17;18;19;20]%Z) /\
  (do s <- demo_state; py_items s (Some 1000%Z) None) = Ok [] /\
  (do s <- demo_state; py_items s None None) =
    Ok (map kv [1;2;3;4;5;6;7;8;9;10;11;12;13;14;15;16;17;18;19;20]%Z) /\
  (* the model agrees with the specification on these calls *)
  (do s <- demo_state; py_items s (Some 55%Z) (Some 95%Z)) =
    (do s <- demo_state; Ok (m_items (pcontents s) (Some 55%Z) (Some 95%Z))) /\
  (do s <- demo_state; py_keys s (Some 100%Z) (Some 50%Z)) =
    (do s <- demo_state; Ok (map fst (m_items (pcontents s) (Some 100%Z) (Some 50%Z)))) /\
  (do s <- demo_state; py_values s None (Some 35%Z)) = Ok [PVal 100; PVal 200; PNone] /\
  (* len, bool, and lookups of a key holding None / an absent key *)
  (do s <- demo_state; py_len s) = Ok 20 /\
  (do s <- demo_state; py_bool s) = Ok true /\
  (do s <- demo_state; py_getitem s 30%Z) = Ok (Some PNone) /\
  (do s <- demo_state; py_getitem s 35%Z) = Ok None /\
  (do s <- demo_state; py_get s 30%Z (PVal 1)) = Ok PNone /\
  (do s <- demo_state; py_get s 35%Z (PVal 1)) = Ok (PVal 1) /\
  (do s <- demo_state; py_contains s 30%Z) = Ok true /\
  (do s <- demo_state; last_leaf (chain_fuel s) (troot s) (tleaves s)) = Ok 8%N.
Proof. vm_compute. repeat split. Qed.
