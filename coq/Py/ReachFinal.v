(* Closing the development: the section hypotheses of Py/Reach.v and Py/BulkProofs.v are
   discharged with the theorems of Py/InsertProofs.v, Py/DeleteProofs.v, Py/ReaderProofs.v.
   Everything here is closed under the global context.  Also: the frame property of the
   world (a call changes only the map it is directed at), which is what "a copy is
   independent of the original" means for the model. *)
From Coq Require Import List Arith ZArith NArith Lia Bool.
From BPT Require Import Common.Base Common.AMap Rust.Tree Rust.Readers Rust.InvDefs Rust.Lib
  Py.Tree Py.Run Py.Inv Py.Facts Py.LeafFacts Py.Spec Py.NewProofs
  Py.InsertProofs Py.DeleteProofs Py.ReaderProofs Py.BulkProofs Py.Reach.
Import ListNotations.
Set Implicit Arguments.

(* ---------------- bulk load ---------------- *)
Theorem py_bulk_spec : forall l c, 4 <= c ->
  exists s, from_sorted_items l c = Ok s /\ PyInv s /\ tcap s = c /\
    pcontents s = m_insert_all [] l.
Proof. exact (from_sorted_items_spec py_setitem_spec last_leaf_spec). Qed.

Theorem py_bulk_sorted_spec : forall l c, sorted_pairs l -> 4 <= c ->
  exists s, from_sorted_items l c = Ok s /\ PyInv s /\ tcap s = c /\
    pcontents s = m_insert_all [] l.
Proof. exact (from_sorted_items_sorted_spec py_setitem_spec last_leaf_spec). Qed.

Theorem py_bulk_equals_incremental : forall l c, 4 <= c ->
  exists sb si, from_sorted_items l c = Ok sb /\
    (do s0 <- py_new c; py_update s0 l) = Ok si /\
    PyInv sb /\ PyInv si /\ pcontents sb = pcontents si.
Proof. exact (bulk_equals_incremental py_setitem_spec last_leaf_spec). Qed.

(* ---------------- compound dict API ---------------- *)
Theorem py_update_final : forall l s, PyInv s ->
  exists s', py_update s l = Ok s' /\ PyInv s' /\
    pcontents s' = m_insert_all (pcontents s) l /\ tcap s' = tcap s.
Proof. exact (update_spec py_setitem_spec). Qed.

Theorem py_copy_final : forall s, PyInv s ->
  exists s', py_copy s = Ok s' /\ PyInv s' /\ pcontents s' = pcontents s /\ tcap s' = tcap s.
Proof. exact (copy_spec py_setitem_spec py_items_spec). Qed.

Theorem py_pop_final : forall s z args, PyInv s -> length args <= 1 ->
  exists s', py_pop false s z args =
      Ok (s', match m_get (pcontents s) z with Some v => Some v | None => hd_error args end) /\
    PyInv s' /\ pcontents s' = m_remove (pcontents s) z /\ tcap s' = tcap s.
Proof. exact (pop_spec py_delitem_spec py_getitem_spec). Qed.

Theorem py_popitem_final : forall s, PyInv s ->
  exists s', py_popitem false s =
      Ok (s', match pcontents s with [] => None | e :: _ => Some e end) /\
    PyInv s' /\ pcontents s' = tl (pcontents s) /\ tcap s' = tcap s.
Proof. exact (popitem_spec py_delitem_spec py_len_spec py_first_leaf_spec). Qed.

Theorem py_setdefault_final : forall s k d, PyInv s ->
  exists s', py_setdefault s k d =
      Ok (s', match m_get (pcontents s) (kz k) with Some v => v | None => d end) /\
    PyInv s' /\ tcap s' = tcap s /\
    pcontents s' = match m_get (pcontents s) (kz k) with
                   | Some _ => pcontents s | None => m_insert (pcontents s) k d end.
Proof. exact (setdefault_spec py_setitem_spec py_getitem_spec). Qed.

(* ---------------- histories ---------------- *)
Theorem py_step_refines : forall w aw o, world_rel w aw ->
  snd (step false w o) = snd (spec_step aw o) /\
  world_rel (fst (step false w o)) (fst (spec_step aw o)).
Proof.
  exact (step_refines py_setitem_spec py_delitem_spec py_get_spec py_contains_spec
           py_getitem_spec py_len_spec py_bool_spec py_items_spec py_keys_spec py_values_spec
           py_first_leaf_spec py_bulk_spec).
Qed.

Theorem py_run_refines : forall ops w aw, world_rel w aw ->
  snd (run false w ops) = snd (spec_run aw ops) /\
  world_rel (fst (run false w ops)) (fst (spec_run aw ops)).
Proof.
  exact (run_refines py_setitem_spec py_delitem_spec py_get_spec py_contains_spec
           py_getitem_spec py_len_spec py_bool_spec py_items_spec py_keys_spec py_values_spec
           py_first_leaf_spec py_bulk_spec).
Qed.

Theorem py_history_refines : forall ops,
  snd (run false w0 ops) = snd (spec_run aw0 ops) /\
  world_rel (fst (run false w0 ops)) (fst (spec_run aw0 ops)).
Proof. intros ops. apply py_run_refines. apply world_rel_0. Qed.

Theorem py_reachable_inv : forall ops n s,
  In (n, s) (maps (fst (run false w0 ops))) -> PyInv s.
Proof.
  intros ops n s Hin. destruct (py_history_refines ops) as [_ [_ F]].
  induction F as [|p q ms ams R F IH]; [destruct Hin|].
  destruct Hin as [->|Hin]; [apply R|auto].
Qed.

(* the current map of a reached world *)
Theorem py_reachable_current : forall ops s,
  current (fst (run false w0 ops)) = Some s ->
  PyInv s /\ exists c m, wlookup (amaps (fst (spec_run aw0 ops))) (acur (fst (spec_run aw0 ops))) = Some (c, m) /\
                         tcap s = c /\ pcontents s = m.
Proof.
  intros ops s Hc. destruct (py_history_refines ops) as [_ [Hcur F]].
  unfold current in Hc. pose proof (wlookup_rel (cur (fst (run false w0 ops))) F) as L.
  rewrite Hc in L. rewrite <- Hcur.
  destruct (wlookup (amaps (fst (spec_run aw0 ops))) (cur (fst (run false w0 ops)))) as [[c m]|];
    [|contradiction].
  destruct L as (I & K & C). split; [exact I|]. exists c, m. auto.
Qed.

(* ---------------- frame: a call touches only the map it is directed at ---------------- *)
Definition op_target (w : world) (o : op) : N :=
  match o with
  | ONew n _ | OBulk n _ _ | OCopy n => n
  | _ => cur w
  end.

Lemma wlookup_wstore_other : forall (A : Type) (l : list (N * A)) n m (x : A), n <> m ->
  wlookup (wstore l m x) n = wlookup l n.
Proof.
  induction l as [|[a y] l IH]; intros n m x Hne; cbn [wstore wlookup].
  - destruct (N.eqb_spec m n); [congruence|reflexivity].
  - destruct (N.eqb_spec a m) as [E|E]; cbn [wlookup].
    + subst a. destruct (N.eqb_spec m n); [congruence|reflexivity].
    + destruct (N.eqb a n); [reflexivity|]. apply IH. exact Hne.
Qed.

Theorem step_frame : forall lg w o n, n <> op_target w o ->
  wlookup (maps (fst (step lg w o))) n = wlookup (maps w) n.
Proof.
  intros lg w o n Hne.
  assert (WR : forall (A : Type) (r : res (pstate * A)) (f : A -> out), n <> cur w ->
            wlookup (maps (fst (wr w r f))) n = wlookup (maps w) n).
  { intros A r f Hn. unfold wr. destruct r as [[s' a]| | |]; cbn [fst maps]; auto.
    apply wlookup_wstore_other. exact Hn. }
  assert (RD : forall (A : Type) s (r : res A) (f : A -> out),
            wlookup (maps (fst (rd w s r f))) n = wlookup (maps w) n).
  { intros A s r f. unfold rd. destruct r; reflexivity. }
  destruct o; cbn [step op_target] in *;
    try (destruct (wlookup (maps w) (cur w)) as [s|]; [|reflexivity]);
    try apply WR; try apply RD; auto.
  - (* OCopy *) destruct (py_copy s); cbn [fst maps]; auto. apply wlookup_wstore_other. exact Hne.
  - (* OUse *) destruct (wlookup (maps w) name); reflexivity.
  - (* OClear *) cbn [fst maps]. apply wlookup_wstore_other. exact Hne.
  - (* ONew *) destruct (py_new c); cbn [fst maps]; auto. apply wlookup_wstore_other. exact Hne.
  - (* OBulk *) destruct (from_sorted_items l c); cbn [fst maps]; auto.
    apply wlookup_wstore_other. exact Hne.
Qed.
