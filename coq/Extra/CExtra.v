(* Additional theorems about the C-extension model (C/*.v) asked for by the specification
   audit: clauses of properties C12/C13 that the pinned statements of Props/C12.v and
   Props/C13.v state weakly or only through the refinement theorem.
     - reachable_states_related, reachable_tree_invariant, reachable_iterators :
         the hypotheses (R, CInv, it_stamp <= modc, it_at) of the per-call theorems hold in
         every state reachable from the constructor;
     - capacity_stored_exactly : an accepted capacity is stored as given;
     - history_iteration_sorted : every keys()/items() answer of every history is sorted;
     - any_modification_then_next_raises, modc_monotone : any call that changes the entries
         raises the modification count, and next() on an older iterator then raises;
     - keys_items_whole_list : list(t.keys()) / list(t.items()) in one call;
     - wrapper_update_spec, wrapper_clear_spec, wrapper_copy_spec. *)
From Coq Require Import List ZArith NArith Bool Lia Arith.
From BPT Require Import Common.Base Common.AMap Rust.Tree C.Node C.Tree C.Run C.Abs C.PInv
  C.IterDefs C.Spec C.StepDefs C.StepCore C.StepWrap C.TreeProofs C.IterProofs C.StepAll C.Examples.
Import ListNotations.

(* ------------------------------------------------------------------ *)
(* reachable states *)

(* every state reachable from the constructor is related to the specification state *)
Theorem reachable_states_related : forall (capacity : Z) (ops : list op),
  R (fst (run (fst (st_init capacity)) ops)) (fst (spec_run (fst (a_init capacity)) ops)).
Proof.
  intros c ops. destruct (init_refines c) as (HR & _).
  destruct (run_refines ops HR) as (HR' & _). exact HR'.
Qed.

Theorem reachable_tree_invariant : forall (capacity : Z) (ops : list op) (t : ctree),
  let s := fst (run (fst (st_init capacity)) ops) in
  st_tree s = Some t \/ st_copy s = Some t -> CInv t.
Proof.
  intros c ops t s [H|H]; pose proof (reachable_states_related c ops) as HR; fold s in HR.
  - pose proof (r_tree HR) as Rt. rewrite H in Rt. unfold tree_rel in Rt.
    destruct (a_map _); [apply Rt|contradiction].
  - pose proof (r_copy HR) as Rt. rewrite H in Rt. unfold tree_rel in Rt.
    destruct (a_copy _); [apply Rt|contradiction].
Qed.

(* reachable iterators: stamp never ahead of the tree; a fresh one stands at a position *)
Theorem reachable_iterators : forall (capacity : Z) (ops : list op) (t : ctree) h it,
  let s := fst (run (fst (st_init capacity)) ops) in
  st_tree s = Some t -> it_lookup (st_iters s) h = Some it ->
  it_stamp it <= modc t /\
  (it_stamp it = modc t -> exists p, it_at (abs (root t)) (it_cur it) (it_idx it) p).
Proof.
  intros c ops t h it s Ht Hl. pose proof (reachable_states_related c ops) as HR; fold s in HR.
  pose proof (r_iters HR) as Ri. rewrite Ht in Ri.
  revert Hl. induction Ri as [|e ea l la [Hf Hr] F IH]; cbn [it_lookup]; [discriminate|].
  destruct e as [h' it']. destruct (Nat.eqb h h'); [|exact IH].
  intros E; inversion E; subst it'. cbn [snd] in Hr. destruct Hr as (_ & Hle & Hv & Hat).
  split; [exact Hle|]. intros Es. exists (ai_pos (snd ea)). apply Hat. rewrite Hv.
  apply Nat.eqb_eq. exact Es.
Qed.

(* an accepted capacity is stored as given *)
Theorem capacity_stored_exactly : forall (capacity : Z) (t : ctree), tree_init capacity = Some t ->
  Z.of_nat (tcap t) = capacity /\ ncap (root t) = tcap t /\ nk (root t) = 0 /\
  length (data (root t)) = 2 * tcap t.
Proof.
  intros c t E. unfold tree_init, MIN_CAPACITY, UINT16_MAX in E.
  destruct (Z.ltb_spec c 4); [discriminate|]. destruct (Z.ltb 65535 c); [discriminate|].
  inversion E; subst t; cbn. rewrite repeat_length. repeat split; lia.
Qed.

(* ------------------------------------------------------------------ *)
(* every keys()/items() answer of every history is strictly ascending *)
Definition sorted_answer (x : out) : Prop :=
  match x with
  | UKeys l => sorted_keys l
  | UItems l => m_sorted l
  | _ => True
  end.

Lemma step_sorted : forall s a o, R s a -> sorted_answer (snd (step s o)).
Proof.
  intros s a o HR. destruct (step_refines o HR) as (_ & E). rewrite E.
  pose proof (r_tree HR) as Rt. unfold tree_rel in Rt. unfold spec_step.
  destruct (a_map a) as [m|] eqn:Hm; [|exact I].
  destruct (st_tree s) as [t|]; [|contradiction]. destruct Rt as (Ic & Em).
  pose proof (CInv_sorted Ic) as Hs. rewrite Em in Hs.
  destruct o; cbn [snd sorted_answer]; auto;
    repeat match goal with |- context [match ?x with _ => _ end] => destruct x end;
    cbn [snd sorted_answer]; auto.
Qed.

Theorem history_iteration_sorted : forall (capacity : Z) (ops : list op),
  Forall sorted_answer (snd (run (fst (st_init capacity)) ops)).
Proof.
  intros c ops. destruct (init_refines c) as (HR & _). revert HR.
  generalize (fst (st_init c)) (fst (a_init c)). induction ops as [|o ops IH]; intros s a HR.
  - constructor.
  - cbn [run]. pose proof (step_sorted _ _ o HR) as H1. destruct (step_refines o HR) as (HR1 & _).
    destruct (step s o) as [s1 x]. cbn [fst snd] in *. specialize (IH _ _ HR1).
    destruct (run s1 ops) as [s2 xs]. cbn [snd] in *. constructor; auto.
Qed.

(* ------------------------------------------------------------------ *)
(* any call that changes the entries makes next() on an existing iterator raise *)
Lemma ai_lookup_invalidate : forall l h ai, ai_lookup l h = Some ai ->
  exists ai', ai_lookup (invalidate l) h = Some ai' /\ ai_valid ai' = false.
Proof.
  induction l as [|[h' x] l IH]; cbn; intros h ai E; [discriminate|].
  destruct (Nat.eqb h h'); [eexists; split; [reflexivity|reflexivity]|eauto].
Qed.

Lemma lookup_rel : forall t l la h it, iters_rel t l la -> it_lookup l h = Some it ->
  exists ai, ai_lookup la h = Some ai.
Proof.
  intros t l la h it F. induction F as [|e ea l la [Hf _] F IH]; cbn; [discriminate|].
  destruct e as [h1 i1], ea as [h2 i2]. cbn in Hf. subst h2.
  destruct (Nat.eqb h h1); eauto.
Qed.

(* spec level: a call that changes the mapping invalidates every iterator *)
Lemma spec_changed_invalidates : forall a o m m', o <> WSwap ->
  a_map a = Some m -> a_map (fst (spec_step a o)) = Some m' -> m' <> m ->
  a_iters (fst (spec_step a o)) = invalidate (a_iters a).
Proof.
  intros a o m m' Hsw Hm Hm' Hne. unfold spec_step in *. rewrite Hm in *.
  destruct o; cbn [fst] in *;
    repeat match goal with
    | H : context [match ?x with _ => _ end] |- _ => destruct x eqn:?; cbn [fst a_map modified] in H
    | |- context [match ?x with _ => _ end] => destruct x eqn:?; cbn [fst a_map modified]
    end; cbn [fst a_map a_iters modified] in *; try congruence; try reflexivity.
Qed.

Theorem any_modification_then_next_raises :
  forall (s : cstate) (a : astate) (o : op) (t t' : ctree) h it, R s a -> o <> WSwap ->
  st_tree s = Some t -> it_lookup (st_iters s) h = Some it ->
  st_tree (fst (step s o)) = Some t' -> tree_map t' <> tree_map t ->
  snd (step (fst (step s o)) (OItNext h)) = URuntimeError.
Proof.
  intros s a o t t' h it HR Hsw Ht Hl Ht' Hne.
  destruct (step_refines o HR) as (HR1 & _).
  destruct (step_refines (OItNext h) HR1) as (_ & E). rewrite E. clear E.
  pose proof (r_tree HR) as Rt. rewrite Ht in Rt. unfold tree_rel in Rt.
  destruct (a_map a) as [m|] eqn:Hm; [|contradiction]. destruct Rt as (_ & Em).
  pose proof (r_tree HR1) as Rt1. rewrite Ht' in Rt1. unfold tree_rel in Rt1.
  destruct (a_map (fst (spec_step a o))) as [m'|] eqn:Hm'; [|contradiction]. destruct Rt1 as (_ & Em').
  assert (Hi : a_iters (fst (spec_step a o)) = invalidate (a_iters a)).
  { eapply spec_changed_invalidates; eauto. congruence. }
  pose proof (r_iters HR) as Ri. rewrite Ht in Ri.
  destruct (lookup_rel _ _ _ _ _ Ri Hl) as (ai & Hai).
  destruct (ai_lookup_invalidate _ _ _ Hai) as (ai' & Hl' & Hv).
  unfold spec_step at 1. rewrite Hm'. rewrite Hi, Hl', Hv. reflexivity.
Qed.

(* ------------------------------------------------------------------ *)
(* wrapper methods: update / clear / copy *)

(* t.update(l): every pair assigned in order; the modification count grows iff l is not
   empty; reference counts follow the slots of the tree *)
Theorem wrapper_update_spec : forall l t rc, CInv t ->
  exists t' rc', w_update t rc l = Ok (t', rc') /\ CInv t' /\
    tree_map t' = m_update_all (tree_map t) l /\
    modc t <= modc t' /\ (l <> [] -> modc t < modc t') /\
    (forall o, rc_get rc' o =
       rc_get rc o + cnt (prefs (abs (root t'))) o - cnt (prefs (abs (root t))) o)%Z.
Proof. exact w_update_ok. Qed.

(* t.clear(): terminates within the fuel given by [step], leaves the empty mapping; an
   empty tree is left untouched (no modification), otherwise the modification count grows *)
Theorem wrapper_clear_spec : forall fuel t rc, CInv t -> length (tree_map t) < fuel ->
  exists t' rc', w_clear fuel t rc = Ok (t', rc') /\ CInv t' /\ tree_map t' = [] /\
    modc t <= modc t' /\ (tree_map t <> [] -> modc t < modc t') /\
    (tree_map t = [] -> t' = t /\ rc' = rc) /\
    (forall o, rc_get rc' o =
       rc_get rc o + cnt (prefs (abs (root t'))) o - cnt (prefs (abs (root t))) o)%Z.
Proof. exact w_clear_ok. Qed.

(* t.copy(): a new tree object with the same entries; every object stored in it gained
   one reference per slot; the source tree is not touched (it is not even an output) *)
Theorem wrapper_copy_spec : forall t rc, CInv t ->
  exists nt rc', w_copy t rc = Ok (Some nt, rc') /\ CInv nt /\ tree_map nt = tree_map t /\
    (forall o, rc_get rc' o = rc_get rc o + cnt (prefs (abs (root nt))) o)%Z.
Proof. exact w_copy_ok. Qed.

(* ------------------------------------------------------------------ *)
(* the modification count never decreases, and any call that changes the entries raises it *)
Lemma insert_modc : forall t rc k v t' rc', CInv t -> tree_insert t rc k v = Ok (t', rc') ->
  modc t < modc t'.
Proof.
  intros t rc k v t' rc' I E.
  destruct (@tree_insert_ok t rc k v I) as (t2 & rc2 & E2 & _ & _ & _ & Emod & _).
  rewrite E in E2. inversion E2; subst. lia.
Qed.

Lemma delitem_modc : forall t rc z t' rc' b, CInv t -> tree_delitem t rc z = Ok (t', rc', b) ->
  modc t <= modc t' /\ (tree_map t' <> tree_map t -> modc t < modc t').
Proof.
  intros t rc z t' rc' b I E. destruct (m_get (tree_map t) z) as [v|] eqn:Eg.
  - destruct (@tree_delitem_ok t rc z I) as (t2 & rc2 & b2 & E2 & _ & _ & Eb & _ & Emod & _).
    rewrite E in E2. inversion E2; subst. rewrite Eg in Emod. cbn [is_some] in Emod. lia.
  - destruct (@tree_delitem_absent t rc z I Eg) as (t2 & E2 & _ & _ & Emod & Em).
    rewrite E in E2. inversion E2; subst. split; [lia|]. intros H. congruence.
Qed.

Lemma update_modc : forall l t rc t' rc', CInv t -> w_update t rc l = Ok (t', rc') ->
  modc t <= modc t' /\ (tree_map t' <> tree_map t -> modc t < modc t').
Proof.
  intros l t rc t' rc' I E.
  destruct (@w_update_ok l t rc I) as (t2 & rc2 & E2 & _ & Em & Hle & Hlt & _).
  rewrite E in E2. inversion E2; subst. split; [exact Hle|]. intros H. apply Hlt. intros ->.
  apply H. exact Em.
Qed.

Lemma clear_modc : forall t rc t' rc', CInv t -> w_clear (S (size t)) t rc = Ok (t', rc') ->
  modc t <= modc t' /\ (tree_map t' <> tree_map t -> modc t < modc t').
Proof.
  intros t rc t' rc' I E.
  destruct (@w_clear_ok (S (size t)) t rc I) as (t2 & rc2 & E2 & _ & Em & Hle & Hlt & _).
  { rewrite (ci_size I). fold (tree_map t). lia. }
  rewrite E in E2. inversion E2; subst. split; [exact Hle|]. intros H. apply Hlt. intros Hn.
  apply H. congruence.
Qed.

Ltac crunch E :=
  repeat (cbn [bind fst snd] in E;
          match type of E with
          | context [bind ?x _] => destruct x eqn:?
          | context [match ?x with _ => _ end] => destruct x eqn:?
          end);
  cbn [bind fst snd] in E.

Theorem modc_monotone : forall (s : cstate) (a : astate) (o : op) (t t' : ctree), R s a -> o <> WSwap ->
  st_tree s = Some t -> st_tree (fst (step s o)) = Some t' ->
  modc t <= modc t' /\ (tree_map t' <> tree_map t -> modc t < modc t').
Proof.
  intros s a o t t' HR Hsw Ht Ht'.
  pose proof (r_tree HR) as Rt. rewrite Ht in Rt. unfold tree_rel in Rt.
  destruct (a_map a) as [m|]; [|contradiction]. destruct Rt as (I & _).
  assert (Hsame : st_tree s = Some t' ->
                  modc t <= modc t' /\ (tree_map t' <> tree_map t -> modc t < modc t')).
  { intros H. assert (t' = t) by congruence. subst t'. split; [lia|congruence]. }
  rewrite step_released in Ht'.
  destruct (step_res (released s) o) as [[s' x]| | |] eqn:E; cbn [fst] in Ht'; auto.
  unfold step_res, with_tree in E. cbn [released st_tree st_copy st_iters st_rc st_held] in E.
  rewrite Ht in E. rewrite ?release_nil in E.
  set (rc := release (st_rc s) (st_held s)) in *.
  destruct o; crunch E; try discriminate; try (exfalso; apply Hsw; reflexivity);
    inversion E; subst; clear E;
    repeat match goal with p : (_ * _)%type |- _ => destruct p end;
    cbn [set_tree st_tree fst snd] in Ht';
    try (solve [apply Hsame; congruence]);
    injection Ht' as Et'; subst t'.
  all: try match goal with H : tree_insert _ _ _ _ = Ok _ |- _ =>
             pose proof (insert_modc _ _ _ _ _ _ I H); split; [lia|intros _; lia] end.
  all: try match goal with H : tree_delitem _ _ _ = Ok _ |- _ => exact (delitem_modc _ _ _ _ _ _ I H) end.
  all: try match goal with H : w_update _ _ _ = Ok _ |- _ => exact (update_modc _ _ _ _ _ I H) end.
  all: try match goal with H : w_clear _ _ _ = Ok _ |- _ => exact (clear_modc _ _ _ _ I H) end.
Qed.

(* ------------------------------------------------------------------ *)
(* list(t.keys()) / list(t.items()) in one call: the whole entry list in order, nothing
   else in the state changes, the caller holds exactly one new reference to every key
   (and, for items(), to every value) handed out, and the reference count of every object
   is the count before the call, minus the previous result the caller dropped, plus the
   references handed out. *)
Definition items_refs (m : list (key * key)) : list obj := flat_map (fun e => [fst e; snd e]) m.

Lemma refs_of_items : forall l, refs_of (outs_of true l) = items_refs l.
Proof. induction l as [|[k v] l IH]; cbn; auto. do 2 f_equal. exact IH. Qed.

Theorem keys_items_whole_list : forall (s : cstate) (t : ctree),
  st_tree s = Some t -> CInv t ->
  (let s' := fst (step s OKeys) in
   snd (step s OKeys) = UKeys (map fst (tree_map t)) /\
   st_tree s' = Some t /\ st_copy s' = st_copy s /\ st_iters s' = st_iters s /\
   st_held s' = map fst (tree_map t) /\
   forall o, rc_get (st_rc s') o =
     (rc_get (st_rc s) o - cnt (map kid (st_held s)) o + cnt (map kid (st_held s')) o)%Z) /\
  (let s' := fst (step s OItems) in
   snd (step s OItems) = UItems (tree_map t) /\
   st_tree s' = Some t /\ st_copy s' = st_copy s /\ st_iters s' = st_iters s /\
   st_held s' = items_refs (tree_map t) /\
   forall o, rc_get (st_rc s') o =
     (rc_get (st_rc s) o - cnt (map kid (st_held s)) o + cnt (map kid (st_held s')) o)%Z).
Proof.
  intros s t Ht I. split.
  - destruct (@drain_all t (release (st_rc s) (st_held s)) false I) as (it & rc' & E & Ed & Hrc').
    rewrite step_released. unfold step_res, with_tree.
    cbn [released st_tree st_copy st_iters st_rc st_held]. rewrite Ht, ?release_nil.
    rewrite E. cbn [bind]. rewrite Ed. cbn [bind fst snd set_tree st_tree st_copy st_iters st_rc st_held].
    rewrite keys_of_outs, refs_of_keys. repeat split.
    intros o. rewrite Hrc', refs_of_keys, rc_get_release. reflexivity.
  - destruct (@drain_all t (release (st_rc s) (st_held s)) true I) as (it & rc' & E & Ed & Hrc').
    rewrite step_released. unfold step_res, with_tree.
    cbn [released st_tree st_copy st_iters st_rc st_held]. rewrite Ht, ?release_nil.
    rewrite E. cbn [bind]. rewrite Ed. cbn [bind fst snd set_tree st_tree st_copy st_iters st_rc st_held].
    rewrite items_of_outs, refs_of_items. repeat split.
    intros o. rewrite Hrc', refs_of_items, rc_get_release. reflexivity.
Qed.

(* the same from the relation R (every reachable state: reachable_states_related) *)
Corollary keys_items_whole_list_related : forall (s : cstate) (a : astate) (t : ctree),
  R s a -> st_tree s = Some t ->
  CInv t /\ a_map a = Some (tree_map t) /\
  snd (step s OKeys) = UKeys (map fst (tree_map t)) /\
  snd (step s OItems) = UItems (tree_map t) /\
  st_held (fst (step s OKeys)) = map fst (tree_map t) /\
  st_held (fst (step s OItems)) = items_refs (tree_map t).
Proof.
  intros s a t HR Ht. pose proof (r_tree HR) as Rt. rewrite Ht in Rt. unfold tree_rel in Rt.
  destruct (a_map a) as [m|]; [|contradiction]. destruct Rt as (I & Em).
  destruct (keys_items_whole_list s t Ht I) as ((K1 & _ & _ & _ & K2 & _) & (I1 & _ & _ & _ & I2 & _)).
  subst m. split; [exact I|]. repeat split; auto.
Qed.

Print Assumptions reachable_states_related.
Print Assumptions reachable_tree_invariant.
Print Assumptions reachable_iterators.
Print Assumptions capacity_stored_exactly.
Print Assumptions history_iteration_sorted.
Print Assumptions any_modification_then_next_raises.
Print Assumptions wrapper_update_spec.
Print Assumptions wrapper_clear_spec.
Print Assumptions wrapper_copy_spec.
Print Assumptions modc_monotone.
Print Assumptions keys_items_whole_list.
Print Assumptions keys_items_whole_list_related.
