(* C14, the missing link: every damage operator of Rust/Damage.v, applied at any position
   of the heap [flatten b] of any valid state b (Inv b /\ rooms b) where it has the
   documented damaging effect, is rejected by both validators, and try_insert /
   try_remove refuse.

   Structure:
     1. arena / heap update lemmas (a_set, upd_leaf, upd_branch);
     2. a heap-level recursion-depth bound [hdep] extracted from an accepting run of
        check_invariants, stable under the edits (no cycle can arise), which discharges
        the fuel side condition of Extra/RustExtra.v [damage_gives_false];
     3. reachability: leaf_at / branch_at positions are [hreach]able, and stay so;
     4. generic local damage lemmas leaf_damage / branch_damage / dangling_*;
     5. one corollary per damage operator, edit_<constructor>_rejected;
     6. the inductive [damaging] and the summary theorem damage_operators_rejected;
     7. non-vacuity examples. *)
From Coq Require Import List Arith ZArith NArith Lia Bool Permutation.
From BPT Require Import Common.Base Common.AMap Rust.Arena Rust.ArenaSpec Rust.ArenaProofs
  Rust.Tree Rust.Heap Rust.Readers Rust.Run Rust.InvDefs Rust.Repr Rust.Lib Rust.Bridge
  Rust.TreeFactsI Rust.ValidDefs Rust.Damage Rust.ValidSound Rust.ValidAccept Rust.ChainExact
  Rust.Walk Rust.Spec Rust.ReachDefs Props.Reachable Extra.RustExtra Extra.RustExtra2.
Import ListNotations.
Set Implicit Arguments.

(* ------------------------------------------------------------------ *)
(* 1. arena updates without the arena invariant *)
Section ArenaSet.
Variable T : Type.

Lemma DO_a_set_length : forall (a : arena T) id x,
  length (store (fst (a_set a id x))) = length (store a).
Proof.
  intros a id x. unfold a_set. destruct (N.eqb id NULL); [reflexivity|].
  destruct (andb _ _); [|reflexivity]. cbn [fst store]. apply length_set_nth.
Qed.

Lemma DO_a_set_mask : forall (a : arena T) id x, mask (fst (a_set a id x)) = mask a.
Proof.
  intros a id x. unfold a_set. destruct (N.eqb id NULL); [reflexivity|].
  destruct (andb _ _); reflexivity.
Qed.

Lemma DO_a_set_free : forall (a : arena T) id x, free (fst (a_set a id x)) = free a.
Proof.
  intros a id x. unfold a_set. destruct (N.eqb id NULL); [reflexivity|].
  destruct (andb _ _); reflexivity.
Qed.

Lemma DO_a_get_lt : forall (a : arena T) id y, a_get a id = Some y ->
  id <> NULL /\ N.to_nat id < length (store a) /\ mask_at a (N.to_nat id) = true.
Proof.
  intros a id y H. apply a_get_Some in H. destruct H as (H1 & H2 & H3).
  split; [exact H1|]. split.
  - apply nth_error_Some. congruence.
  - apply mask_at_true. exact H2.
Qed.

Lemma DO_a_set_same : forall (a : arena T) id x y, a_get a id = Some y ->
  a_get (fst (a_set a id x)) id = Some x.
Proof.
  intros a id x y H. destruct (DO_a_get_lt _ _ H) as (Hn & Hl & Hm).
  unfold a_set. apply N.eqb_neq in Hn. rewrite Hn. rewrite idx_lt by exact Hl.
  destruct (Nat.ltb_spec (N.to_nat id) (length (store a))) as [_|Hc]; [|lia].
  rewrite Hm. cbn [andb fst]. apply a_get_Some. cbn [store mask].
  split; [apply N.eqb_neq; exact Hn|]. split.
  - apply mask_at_true. exact Hm.
  - apply set_nth_same. exact Hl.
Qed.

Lemma DO_a_set_other : forall (a : arena T) id id' x, id' <> id ->
  a_get (fst (a_set a id x)) id' = a_get a id'.
Proof.
  intros a id id' x Hne. unfold a_set. destruct (N.eqb id NULL); [reflexivity|].
  destruct (Nat.ltb_spec (idx (length (store a)) id) (length (store a))) as [Hl|Hl];
    cbn [andb]; [|reflexivity].
  destruct (mask_at a (idx (length (store a)) id)); [|reflexivity].
  cbn [fst]. apply a_get_ext; cbn [store mask]; [|reflexivity].
  apply set_nth_other. apply idx_lt_iff in Hl. rewrite idx_lt by exact Hl.
  apply to_nat_neq. intro E. apply Hne. symmetry. exact E.
Qed.

Lemma DO_a_set_none : forall (a : arena T) id id' x, a_get a id' = None ->
  a_get (fst (a_set a id x)) id' = None.
Proof.
  intros a id id' x H. destruct (N.eq_dec id' id) as [->|Hne].
  - pose proof H as H0. unfold a_set. unfold a_get in H.
    destruct (N.eqb id NULL); [exact H0|].
    destruct (andb _ _) eqn:E; [|exact H0]. exfalso.
    apply andb_true_iff in E. destruct E as [E1 E2]. apply Nat.ltb_lt in E1.
    apply nth_error_None in H. lia.
  - rewrite DO_a_set_other by exact Hne. exact H.
Qed.

Lemma DO_dealloc : forall (dflt : T) (a : arena T) id y, a_get a id = Some y ->
  exists a', deallocate dflt a id = Ok (a', Some y) /\ a_get a' id = None /\
    (forall id', id' <> id -> a_get a' id' = a_get a id') /\
    length (store a') = length (store a).
Proof.
  intros dflt a id y H. pose proof H as H0. apply a_get_Some in H0. destruct H0 as (Hn & Hm & Hs).
  assert (Hlm : N.to_nat id < length (mask a)) by (apply nth_error_Some; congruence).
  assert (Hls : N.to_nat id < length (store a)) by (apply nth_error_Some; congruence).
  unfold deallocate. apply N.eqb_neq in Hn. rewrite Hn. rewrite idx_lt by exact Hlm.
  rewrite (proj2 (@mask_at_true T a (N.to_nat id)) Hm). cbn [negb].
  unfold vec_set, vec_get. rewrite (proj2 (Nat.ltb_lt _ _) Hlm). cbn [bind].
  rewrite Hs. cbn [bind]. rewrite (proj2 (Nat.ltb_lt _ _) Hls). cbn [bind].
  eexists. split; [reflexivity|]. split; [|split].
  - apply a_get_dead. cbn [mask]. rewrite set_nth_same by exact Hlm. discriminate.
  - intros id' Hne. apply a_get_ext; cbn [store mask]; apply set_nth_other;
      intro E; apply Hne; apply N2Nat.inj; symmetry; exact E.
  - cbn [store]. apply length_set_nth.
Qed.

End ArenaSet.

(* ------------------------------------------------------------------ *)
(* result-monad helpers *)
Lemma DO_all_res_ok : forall l : list (res bool),
  (forall r, In r l -> exists x, r = Ok x) -> exists x, all_res l = Ok x.
Proof.
  intros l H. unfold all_res.
  assert (G : forall (l : list (res bool)) acc, (exists a, acc = Ok a) ->
            (forall r, In r l -> exists x, r = Ok x) ->
            exists x, fold_left (fun (acc r : res bool) => do a <- acc; if (a : bool) then r else Ok false)
                        l acc = Ok x).
  { clear. induction l as [|r l IH]; intros acc Ha Hl; cbn [fold_left]; [exact Ha|].
    apply IH; [|intros; apply Hl; right; assumption].
    destruct Ha as [a ->]. cbn [bind]. destruct a; [apply Hl; left; reflexivity|eexists; reflexivity]. }
  apply G; [eexists; reflexivity|exact H].
Qed.

Lemma DO_concat_res_in : forall (A : Type) (l : list (res (list A))) xs x,
  concat_res l = Ok xs -> In x xs -> exists ys, In (Ok ys) l /\ In x ys.
Proof.
  intros A l xs x H Hin. apply CE_concat_res_ok in H. destruct H as (parts & -> & ->).
  apply in_concat in Hin. destruct Hin as (ys & Hy & Hx). exists ys. split; [|exact Hx].
  apply in_map. exact Hy.
Qed.

(* ------------------------------------------------------------------ *)
(* list / key helpers for the individual edits *)
Lemma DO_set_kz_same : forall ks i z k, nth_error ks i = Some k ->
  nth_error (set_kz i z ks) i = Some (mkKey z (kid k)).
Proof.
  intros ks i z k H. unfold set_kz. rewrite H. apply set_nth_same.
  apply nth_error_Some. congruence.
Qed.

Lemma DO_set_kz_other : forall ks i j z, j <> i -> nth_error (set_kz i z ks) j = nth_error ks j.
Proof.
  intros ks i j z H. unfold set_kz. destruct (nth_error ks i); [|reflexivity].
  apply set_nth_other. intro E. apply H. symmetry. exact E.
Qed.

Lemma DO_order_not_sorted : forall ks i j a b, nth_error ks i = Some a -> nth_error ks j = Some b ->
  i < j -> (kz b <= kz a)%Z -> ~ sorted_keys ks.
Proof.
  intros ks i j a b Ha Hb Hij Hz S. pose proof (@TreeFactsI.sorted_keys_nth_lt ks i j a b S Hij Ha Hb). lia.
Qed.

Lemma DO_dup_not_sorted : forall ks i j a b, nth_error ks i = Some a -> nth_error ks j = Some b ->
  i <> j -> kz a = kz b -> ~ sorted_keys ks.
Proof.
  intros ks i j a b Ha Hb Hij Hz. destruct (Nat.lt_ge_cases i j) as [H|H].
  - eapply DO_order_not_sorted; [exact Ha|exact Hb|exact H|lia].
  - eapply DO_order_not_sorted; [exact Hb|exact Ha|lia|lia].
Qed.

(* keys[i].z := z breaks the order as soon as some other key is on the wrong side of z *)
Lemma DO_set_kz_order : forall ks i z k j kj, nth_error ks i = Some k -> nth_error ks j = Some kj ->
  (j < i /\ (z <= kz kj)%Z) \/ (i < j /\ (kz kj <= z)%Z) -> ~ sorted_keys (set_kz i z ks).
Proof.
  intros ks i z k j kj Hi Hj [[Hlt Hz]|[Hlt Hz]].
  - eapply DO_order_not_sorted with (i := j) (j := i);
      [rewrite DO_set_kz_other by lia; exact Hj|apply DO_set_kz_same; exact Hi|exact Hlt|exact Hz].
  - eapply DO_order_not_sorted with (i := i) (j := j);
      [apply DO_set_kz_same; exact Hi|rewrite DO_set_kz_other by lia; exact Hj|exact Hlt|exact Hz].
Qed.

Lemma DO_set_kz_dup : forall ks i j k kj, nth_error ks i = Some k -> nth_error ks j = Some kj ->
  i <> j -> ~ sorted_keys (set_kz i (kz kj) ks).
Proof.
  intros ks i j k kj Hi Hj Hne.
  eapply DO_dup_not_sorted with (i := i) (j := j);
    [apply DO_set_kz_same; exact Hi|rewrite DO_set_kz_other by lia; exact Hj|exact Hne|reflexivity].
Qed.

Lemma DO_set_kz_bounds : forall ks i z k lo hi, nth_error ks i = Some k ->
  ~ (lo_ok lo z /\ hi_ok hi z) -> ~ Forall (in_bounds lo hi) (set_kz i z ks).
Proof.
  intros ks i z k lo hi Hi Hn F. rewrite Forall_forall in F.
  apply Hn. exact (F _ (nth_error_In _ _ (@DO_set_kz_same ks i z k Hi))).
Qed.

Lemma DO_removelast_length : forall (A : Type) (l : list A), l <> [] -> S (length (removelast l)) = length l.
Proof.
  intros A l H. destruct l as [|a l]; [congruence|].
  rewrite (app_removelast_last a H) at 2. rewrite app_length. cbn [length]. lia.
Qed.

Lemma DO_in_removelast : forall (A : Type) (l : list A) x, In x (removelast l) -> In x l.
Proof.
  intros A l x H. destruct l as [|a l]; [exact H|].
  rewrite (@app_removelast_last _ (a :: l) a) by discriminate. apply in_or_app. left. exact H.
Qed.

Lemma DO_in_firstn : forall (A : Type) n (l : list A) x, In x (firstn n l) -> In x l.
Proof. intros A n l x H. rewrite <- (firstn_skipn n l). apply in_or_app. left. exact H. Qed.

Lemma DO_last_opt_in : forall (A : Type) (l : list A) x, last_opt l = Some x -> In x l.
Proof.
  intros A l x H. unfold last_opt in H. apply in_rev. destruct (rev l) as [|y r]; [discriminate|].
  inversion H; subst. left. reflexivity.
Qed.

Lemma DO_last_opt_some : forall (A : Type) (l : list A), l <> [] -> exists x, last_opt l = Some x.
Proof.
  intros A l H. destruct (exists_last H) as (r & x & ->). exists x. apply last_opt_app.
Qed.

Lemma DO_snoc_not_sorted : forall ks k k', last_opt ks = Some k' -> (kz k <= kz k')%Z ->
  ~ sorted_keys (ks ++ [k]).
Proof.
  intros ks k k' Hl Hz S. apply sorted_keys_app in S. destruct S as (_ & _ & S).
  specialize (S k' k (DO_last_opt_in _ Hl) (or_introl eq_refl)). lia.
Qed.

(* ------------------------------------------------------------------ *)
Section DamageOps.
Variable V : Type.
Notation heap := (heap V).
Notation leaf := (leaf V).

(* what "rejected" means: both validators answer with an error, the checked mutators
   refuse with DataIntegrity *)
Definition rejected (h : heap) : Prop :=
  check_invariants h = Ok false /\ check_invariants_detailed h = Ok (Some E_TREE) /\
  (forall k v, hstep h (OTryInsert k v) = Some (UResOpt None (Some (DataIntegrity E_TREE)))) /\
  (forall z, hstep h (@OTryRemove V z) = Some (URes None (Some (DataIntegrity E_TREE)))).

Lemma rejected_weak : forall h, rejected h ->
  check_invariants h <> Ok true /\ check_invariants_detailed h <> Ok None.
Proof. intros h (H1 & H2 & _). rewrite H1, H2. split; discriminate. Qed.

(* ---------------- upd_leaf / upd_branch ---------------- *)
Lemma upd_leaf_root : forall (h : heap) id f, hroot (upd_leaf h id f) = hroot h.
Proof. intros h id f. unfold upd_leaf. destruct (get_leaf h id); reflexivity. Qed.
Lemma upd_leaf_cap : forall (h : heap) id f, hcap (upd_leaf h id f) = hcap h.
Proof. intros h id f. unfold upd_leaf. destruct (get_leaf h id); reflexivity. Qed.
Lemma upd_leaf_branches : forall (h : heap) id f, hbranches (upd_leaf h id f) = hbranches h.
Proof. intros h id f. unfold upd_leaf. destruct (get_leaf h id); reflexivity. Qed.
Lemma upd_leaf_get_branch : forall (h : heap) id f i, get_branch (upd_leaf h id f) i = get_branch h i.
Proof. intros. unfold get_branch. rewrite upd_leaf_branches. reflexivity. Qed.
Lemma upd_leaf_dfuel : forall (h : heap) id f, dfuel (upd_leaf h id f) = dfuel h.
Proof.
  intros h id f. unfold dfuel, nslots. rewrite upd_leaf_branches. unfold upd_leaf.
  destruct (get_leaf h id); [|reflexivity]. cbn [hleaves]. rewrite DO_a_set_length. reflexivity.
Qed.
Lemma upd_leaf_same : forall (h : heap) id f l, get_leaf h id = Some l ->
  get_leaf (upd_leaf h id f) id = Some (f l).
Proof.
  intros h id f l H. unfold upd_leaf. rewrite H. unfold get_leaf. cbn [hleaves].
  eapply DO_a_set_same. exact H.
Qed.

Lemma upd_branch_root : forall (h : heap) id f, hroot (upd_branch h id f) = hroot h.
Proof. intros h id f. unfold upd_branch. destruct (get_branch h id); reflexivity. Qed.
Lemma upd_branch_cap : forall (h : heap) id f, hcap (upd_branch h id f) = hcap h.
Proof. intros h id f. unfold upd_branch. destruct (get_branch h id); reflexivity. Qed.
Lemma upd_branch_leaves : forall (h : heap) id f, hleaves (upd_branch h id f) = hleaves h.
Proof. intros h id f. unfold upd_branch. destruct (get_branch h id); reflexivity. Qed.
Lemma upd_branch_get_leaf : forall (h : heap) id f i, get_leaf (upd_branch h id f) i = get_leaf h i.
Proof. intros. unfold get_leaf. rewrite upd_branch_leaves. reflexivity. Qed.
Lemma upd_branch_dfuel : forall (h : heap) id f, dfuel (upd_branch h id f) = dfuel h.
Proof.
  intros h id f. unfold dfuel, nslots. rewrite upd_branch_leaves. unfold upd_branch.
  destruct (get_branch h id); [|reflexivity]. cbn [hbranches]. rewrite DO_a_set_length. reflexivity.
Qed.
Lemma upd_branch_same : forall (h : heap) id f x, get_branch h id = Some x ->
  get_branch (upd_branch h id f) id = Some (f x).
Proof.
  intros h id f x H. unfold upd_branch. rewrite H. unfold get_branch. cbn [hbranches].
  eapply DO_a_set_same. exact H.
Qed.
Lemma upd_branch_other : forall (h : heap) id f i, i <> id ->
  get_branch (upd_branch h id f) i = get_branch h i.
Proof.
  intros h id f i H. unfold upd_branch. destruct (get_branch h id); [|reflexivity].
  unfold get_branch. cbn [hbranches]. apply DO_a_set_other. exact H.
Qed.
Lemma upd_branch_none : forall (h : heap) id f i, get_branch h i = None ->
  get_branch (upd_branch h id f) i = None.
Proof.
  intros h id f i H. unfold upd_branch. destruct (get_branch h id); [|exact H].
  unfold get_branch. cbn [hbranches]. apply DO_a_set_none. exact H.
Qed.

(* ------------------------------------------------------------------ *)
(* 2. recursion depth *)
Inductive hdep (h : heap) : nat -> nref -> Prop :=
| hd_leaf n id : hdep h n (RLeaf id)
| hd_none n id : get_branch h id = None -> hdep h n (RBranch id)
| hd_branch n id x : get_branch h id = Some x ->
    (forall c, In c (bkids x) -> hdep h n c) -> hdep h (S n) (RBranch id).

Lemma check_true_hdep : forall f (h : heap) r lo hi ir,
  check_node (S f) h r lo hi ir = Ok true -> hdep h f r.
Proof.
  induction f as [|f IH]; intros h r lo hi ir H.
  - destruct r as [id|id]; [apply hd_leaf|].
    cbn [check_node] in H. destruct (get_branch h id) as [x|] eqn:Eg; [|discriminate].
    exfalso.
    destruct (negb (Nat.eqb (S (length (bkeys x))) (length (bkids x)))); [discriminate|].
    destruct (negb (strictly_asc (bkeys x))); [discriminate|].
    destruct (Nat.ltb (hcap h) (length (bkeys x))); [discriminate|].
    destruct (andb _ _); [discriminate|].
    destruct (bkids x) as [|c0 l0] eqn:Ek; [discriminate|].
    pose proof (all_res_true _ H) as Hall.
    specialize (Hall _ (in_map _ _ _ (VS_in_combine_seq0 (c0 :: l0) 0 eq_refl))).
    cbn [fst snd] in Hall. destruct (child_bounds (bkeys x) lo hi 0). discriminate.
  - destruct r as [id|id]; [apply hd_leaf|].
    remember (S f) as f1 eqn:Ef1.
    cbn [check_node] in H. destruct (get_branch h id) as [x|] eqn:Eg; [|discriminate].
    destruct (negb (Nat.eqb (S (length (bkeys x))) (length (bkids x)))); [discriminate|].
    destruct (negb (strictly_asc (bkeys x))); [discriminate|].
    destruct (Nat.ltb (hcap h) (length (bkeys x))); [discriminate|].
    destruct (andb _ _); [discriminate|].
    assert (H' : all_res (map (fun ic : nat * nref =>
                  let '(lo', hi') := child_bounds (bkeys x) lo hi (fst ic) in
                  check_node f1 h (snd ic) lo' hi' false)
                  (combine (seq 0 (length (bkids x))) (bkids x))) = Ok true).
    { destruct (bkids x); [discriminate|exact H]. }
    clear H. subst f1. apply hd_branch with (x := x); [exact Eg|].
    intros c Hc. apply In_nth_error in Hc. destruct Hc as (i & Hi).
    pose proof (all_res_true _ H') as Hall.
    specialize (Hall _ (in_map _ _ _ (VS_in_combine_seq0 _ _ Hi))).
    cbn [fst snd] in Hall. destruct (child_bounds (bkeys x) lo hi i) as [lo' hi'].
    eapply IH. exact Hall.
Qed.

Lemma hdep_check_ok : forall (h : heap) n r, hdep h n r ->
  forall lo hi ir, exists x, check_node (S n) h r lo hi ir = Ok x.
Proof.
  intros h n r H. induction H as [n id|n id Hg|n id x Hg Hk IH]; intros lo hi ir.
  - cbn [check_node]. destruct (get_leaf h id); eexists; reflexivity.
  - cbn [check_node]. rewrite Hg. eexists; reflexivity.
  - remember (S n) as n1 eqn:En1. cbn [check_node]. rewrite Hg.
    destruct (negb _); [eexists; reflexivity|].
    destruct (negb _); [eexists; reflexivity|].
    destruct (Nat.ltb _ _); [eexists; reflexivity|].
    destruct (andb _ _); [eexists; reflexivity|].
    destruct (bkids x) as [|c0 l0] eqn:Ek; [eexists; reflexivity|]. rewrite <- Ek.
    apply DO_all_res_ok. intros r Hr. apply in_map_iff in Hr. destruct Hr as ([i c] & <- & Hin).
    apply VS_in_combine_seq_inv in Hin. destruct Hin as [_ Hn]. apply nth_error_In in Hn.
    cbn [fst snd]. destruct (child_bounds (bkeys x) lo hi i) as [lo' hi'].
    subst n1. apply IH. rewrite <- Ek. exact Hn.
Qed.

Lemma hdep_same_branches : forall (h h' : heap) n r,
  (forall i, get_branch h' i = get_branch h i) -> hdep h n r -> hdep h' n r.
Proof.
  intros h h' n r E H. induction H as [n id|n id Hg|n id x Hg Hk IH].
  - apply hd_leaf.
  - apply hd_none. rewrite E. exact Hg.
  - apply hd_branch with (x := x); [rewrite E; exact Hg|exact IH].
Qed.

(* the children of the rewritten branch are old children, leaves, or unallocated *)
Definition kids_tame (h : heap) (x x' : branch) : Prop :=
  forall c, In c (bkids x') ->
    In c (bkids x) \/ match c with RLeaf _ => True | RBranch i => get_branch h i = None end.

(* a heap h' that differs from h only in branch id0 *)
Lemma hdep_change_branch : forall (h h' : heap) id0 x0 n r,
  get_branch h id0 = Some x0 ->
  (forall i, i <> id0 -> get_branch h' i = get_branch h i) ->
  (get_branch h' id0 = None \/ exists x', get_branch h' id0 = Some x' /\ kids_tame h x0 x') ->
  hdep h n r -> hdep h' n r.
Proof.
  intros h h' id0 x0 n r Hg0 Ho Hs H. induction H as [n id|n id Hg|n id x Hg Hk IH].
  - apply hd_leaf.
  - apply hd_none. rewrite Ho; [exact Hg|]. intros ->. congruence.
  - destruct (N.eq_dec id id0) as [->|Hne].
    + rewrite Hg0 in Hg. inversion Hg; subst x0.
      destruct Hs as [Hs|(x' & Hs & Ht)]; [apply hd_none; exact Hs|].
      apply hd_branch with (x := x'); [exact Hs|].
      intros c Hc. destruct (Ht c Hc) as [Hin|Hd]; [apply IH; exact Hin|].
      destruct c as [i|i]; [apply hd_leaf|]. apply hd_none.
      rewrite Ho; [exact Hd|]. intros ->. congruence.
    + apply hd_branch with (x := x); [rewrite Ho by exact Hne; exact Hg|exact IH].
Qed.

Lemma hdep_upd_branch : forall (h : heap) id0 f x0 n r,
  get_branch h id0 = Some x0 -> kids_tame h x0 (f x0) ->
  hdep h n r -> hdep (upd_branch h id0 f) n r.
Proof.
  intros h id0 f x0 n r Hg0 Ht H. eapply hdep_change_branch; [exact Hg0| | |exact H].
  - intros i Hi. apply upd_branch_other. exact Hi.
  - right. exists (f x0). split; [apply upd_branch_same; exact Hg0|exact Ht].
Qed.

Lemma check_fuel_from_hdep : forall h : heap, hdep h (S (nslots h)) (hroot h) ->
  check_invariants h <> OutOfFuel.
Proof.
  intros h H. unfold check_invariants, dfuel.
  destruct (hdep_check_ok H None None true) as (x & E). rewrite E. discriminate.
Qed.

Lemma hdep_of_accept : forall h : heap, check_invariants h = Ok true ->
  hdep h (S (nslots h)) (hroot h).
Proof. intros h H. unfold check_invariants, dfuel in H. eapply check_true_hdep. exact H. Qed.

(* ------------------------------------------------------------------ *)
(* 3. reachability *)
Lemma hreach_true_root : forall (h : heap) r lo hi, hreach h r true lo hi ->
  r = hroot h /\ lo = None /\ hi = None.
Proof.
  intros h r lo hi H. remember true as ir eqn:E.
  destruct H; [auto|discriminate].
Qed.

Lemma hreach_transfer : forall (h h' : heap),
  hroot h' = hroot h -> (forall i, get_branch h' i = get_branch h i) ->
  forall r ir lo hi, hreach h r ir lo hi -> hreach h' r ir lo hi.
Proof.
  intros h h' Er Eb r ir lo hi H. induction H as [|id x ir lo hi i c H IH Hg Hn].
  - rewrite <- Er. apply hreach_root.
  - eapply hreach_child; [exact IH|rewrite Eb; exact Hg|exact Hn].
Qed.

(* when only branch id0 changes, id0 itself is still reachable (along the prefix of the old
   path up to its first visit of id0) *)
Lemma hreach_change_branch : forall (h h' : heap) id0 r ir lo hi,
  hroot h' = hroot h -> (forall i, i <> id0 -> get_branch h' i = get_branch h i) ->
  hreach h r ir lo hi ->
  hreach h' r ir lo hi \/ exists ir0 lo0 hi0, hreach h' (RBranch id0) ir0 lo0 hi0.
Proof.
  intros h h' id0 r ir lo hi Er Ho H. induction H as [|id x ir lo hi i c H IH Hg Hn].
  - left. rewrite <- Er. apply hreach_root.
  - destruct IH as [IH|IH]; [|right; exact IH].
    destruct (N.eq_dec id id0) as [->|Hne].
    + right. eauto.
    + left. eapply hreach_child; [exact IH|rewrite Ho by exact Hne; exact Hg|exact Hn].
Qed.

Lemma hreach_change_branch_self : forall (h h' : heap) id0 ir lo hi,
  hroot h' = hroot h -> (forall i, i <> id0 -> get_branch h' i = get_branch h i) ->
  hreach h (RBranch id0) ir lo hi ->
  exists ir0 lo0 hi0, hreach h' (RBranch id0) ir0 lo0 hi0.
Proof.
  intros h h' id0 ir lo hi Er Ho H.
  destruct (@hreach_change_branch h h' id0 _ _ _ _ Er Ho H) as [H'|H']; eauto.
Qed.

Lemma hreach_upd_branch_self : forall (h : heap) id0 f ir lo hi,
  hreach h (RBranch id0) ir lo hi ->
  exists ir0 lo0 hi0, hreach (upd_branch h id0 f) (RBranch id0) ir0 lo0 hi0.
Proof.
  intros h id0 f ir lo hi H. eapply hreach_change_branch_self; [apply upd_branch_root| |exact H].
  intros i Hi. apply upd_branch_other. exact Hi.
Qed.

(* the positions enumerated by collect_leaf_ids / collect_branch_ids are reachable *)
Lemma h_leaf_ids_reach : forall fuel (h : heap) r ir lo hi ids id,
  h_leaf_ids fuel h r = Ok ids -> In id ids -> hreach h r ir lo hi ->
  exists ir' lo' hi', hreach h (RLeaf id) ir' lo' hi'.
Proof.
  induction fuel as [|f IH]; intros h r ir lo hi ids id H Hin Hr; [discriminate|].
  cbn [h_leaf_ids] in H. destruct r as [i|i].
  - inversion H; subst ids. destruct Hin as [<-|[]]. eauto.
  - destruct (get_branch h i) as [x|] eqn:Eg; [|inversion H; subst; destruct Hin].
    destruct (DO_concat_res_in _ id H Hin) as (ys & Hy & Hx).
    apply in_map_iff in Hy. destruct Hy as (c & Hc & Hcin).
    apply In_nth_error in Hcin. destruct Hcin as (j & Hj).
    eapply IH; [exact Hc|exact Hx|]. eapply hreach_child; eauto.
Qed.

Lemma leaf_at_reach : forall (h : heap) p id, leaf_at h p = Some id ->
  exists ir lo hi, hreach h (RLeaf id) ir lo hi.
Proof.
  intros h p id H. unfold leaf_at in H.
  destruct (collect_leaf_ids h) as [ids| | |] eqn:E; try discriminate.
  apply nth_error_In in H. unfold collect_leaf_ids in E.
  eapply h_leaf_ids_reach; [exact E|exact H|apply hreach_root].
Qed.

Lemma h_branch_ids_reach : forall fuel (h : heap) r ir lo hi ids id,
  h_branch_ids fuel h r = Ok ids -> In id ids -> hreach h r ir lo hi ->
  exists ir' lo' hi', hreach h (RBranch id) ir' lo' hi'.
Proof.
  induction fuel as [|f IH]; intros h r ir lo hi ids id H Hin Hr; [discriminate|].
  cbn [h_branch_ids] in H. destruct r as [i|i].
  - inversion H; subst ids. destruct Hin.
  - destruct (get_branch h i) as [x|] eqn:Eg; [|inversion H; subst; destruct Hin].
    destruct (concat_res (map (h_branch_ids f h) (bkids x))) as [rest| | |] eqn:Ec;
      cbn [bind] in H; try discriminate.
    inversion H; subst ids. destruct Hin as [<-|Hin]; [eauto|].
    destruct (DO_concat_res_in _ id Ec Hin) as (ys & Hy & Hx).
    apply in_map_iff in Hy. destruct Hy as (c & Hc & Hcin).
    apply In_nth_error in Hcin. destruct Hcin as (j & Hj).
    eapply IH; [exact Hc|exact Hx|]. eapply hreach_child; eauto.
Qed.

Lemma branch_at_reach : forall (h : heap) p id, branch_at h p = Some id ->
  exists ir lo hi, hreach h (RBranch id) ir lo hi.
Proof.
  intros h p id H. unfold branch_at in H.
  destruct (collect_branch_ids h) as [ids| | |] eqn:E; try discriminate.
  apply nth_error_In in H. unfold collect_branch_ids in E.
  eapply h_branch_ids_reach; [exact E|exact H|apply hreach_root].
Qed.

(* ------------------------------------------------------------------ *)
(* 4. generic damage lemmas *)

(* heap level: a reachable node violating a documented condition, plus the depth bound *)
Lemma reject_core : forall (h : heap) r ir lo hi,
  hreach h r ir lo hi -> ~ node_ok h r ir lo hi -> hdep h (S (nslots h)) (hroot h) -> rejected h.
Proof.
  intros h r ir lo hi Hr Hn Hd.
  destruct (@damage_gives_false V _ _ _ _ _ Hr Hn (check_fuel_from_hdep Hd)) as [E1 E2].
  split; [exact E1|]. split; [exact E2|]. split.
  - intros k v. unfold hstep. rewrite E2. reflexivity.
  - intros z. unfold hstep. rewrite E2. reflexivity.
Qed.

(* ---------------- facts about a valid state ---------------- *)
Lemma valid_accept : forall b : bstate V, Inv b -> rooms b -> check_invariants (flatten b) = Ok true.
Proof. intros b I R. exact (check_node_complete I (flatten_heap_of I R)). Qed.

Lemma valid_hdep : forall b : bstate V, Inv b -> rooms b ->
  hdep (flatten b) (S (nslots (flatten b))) (hroot (flatten b)).
Proof. intros b I R. apply hdep_of_accept. apply valid_accept; assumption. Qed.

Lemma valid_hwf : forall (b : bstate V) r ir lo hi, Inv b -> rooms b ->
  hreach (flatten b) r ir lo hi -> hwf (flatten b) ir lo hi r.
Proof.
  intros b r ir lo hi I R H. eapply hwf_reach; [|exact H]. apply check_sound. apply valid_accept; assumption.
Qed.

(* what is known about the leaf / branch at a position of a valid state *)
Lemma valid_leaf_reach : forall (b : bstate V) id l ir lo hi, Inv b -> rooms b ->
  hreach (flatten b) (RLeaf id) ir lo hi -> get_leaf (flatten b) id = Some l ->
  length (lkeys l) = length (lvals l) /\ sorted_keys (lkeys l) /\ length (lkeys l) <= cap b /\
  (ir = false -> lcap l / 2 <= length (lkeys l)) /\ Forall (in_bounds lo hi) (lkeys l).
Proof.
  intros b id l ir lo hi I R Hr Hg. pose proof (valid_hwf I R Hr) as W.
  inversion W as [? ? ? ? l' Hg' H1 H2 H3 H4 H5|]; subst.
  rewrite Hg in Hg'. inversion Hg'; subst l'. auto.
Qed.

Lemma valid_leaf_at : forall (b : bstate V) p id, Inv b -> rooms b ->
  leaf_at (flatten b) p = Some id ->
  exists l ir lo hi, get_leaf (flatten b) id = Some l /\ hreach (flatten b) (RLeaf id) ir lo hi /\
    (ir = true -> ref_of (root b) = RLeaf id).
Proof.
  intros b p id I R H. destruct (leaf_at_reach _ _ H) as (ir & lo & hi & Hr).
  pose proof (valid_hwf I R Hr) as W.
  inversion W as [? ? ? ? l Hg _ _ _ _ _|]; subst.
  exists l, ir, lo, hi. split; [exact Hg|]. split; [exact Hr|].
  intros ->. apply hreach_true_root in Hr. destruct Hr as (Hr & _). symmetry. exact Hr.
Qed.

Lemma valid_leaf_facts : forall (b : bstate V) p id l, Inv b -> rooms b ->
  leaf_at (flatten b) p = Some id -> get_leaf (flatten b) id = Some l ->
  length (lkeys l) = length (lvals l) /\ sorted_keys (lkeys l) /\ length (lkeys l) <= cap b /\
  (ref_of (root b) <> RLeaf id -> lcap l / 2 <= length (lkeys l)).
Proof.
  intros b p id l I R H Hg. destruct (valid_leaf_at _ I R H) as (l' & ir & lo & hi & _ & Hr & Hroot).
  destruct (valid_leaf_reach I R Hr Hg) as (H1 & H2 & H3 & H4 & _).
  repeat (split; [assumption|]). intros Hne. apply H4. destruct ir; [|reflexivity].
  exfalso. apply Hne. apply Hroot. reflexivity.
Qed.

Lemma valid_branch_reach : forall (b : bstate V) id x ir lo hi, Inv b -> rooms b ->
  hreach (flatten b) (RBranch id) ir lo hi -> get_branch (flatten b) id = Some x ->
  length (bkids x) = S (length (bkeys x)) /\ sorted_keys (bkeys x) /\ length (bkeys x) <= cap b /\
  (ir = false -> bcap x / 2 <= length (bkeys x)).
Proof.
  intros b id x ir lo hi I R Hr Hg. pose proof (valid_hwf I R Hr) as W.
  inversion W as [|? ? ? ? x' Hg' H1 H2 H3 H4 H5]; subst.
  rewrite Hg in Hg'. inversion Hg'; subst x'. auto.
Qed.

Lemma valid_branch_at : forall (b : bstate V) p id, Inv b -> rooms b ->
  branch_at (flatten b) p = Some id ->
  exists x ir lo hi, get_branch (flatten b) id = Some x /\ hreach (flatten b) (RBranch id) ir lo hi /\
    (ir = true -> ref_of (root b) = RBranch id).
Proof.
  intros b p id I R H. destruct (branch_at_reach _ _ H) as (ir & lo & hi & Hr).
  pose proof (valid_hwf I R Hr) as W.
  inversion W as [|? ? ? ? x Hg _ _ _ _ _]; subst.
  exists x, ir, lo, hi. split; [exact Hg|]. split; [exact Hr|].
  intros ->. apply hreach_true_root in Hr. destruct Hr as (Hr & _). symmetry. exact Hr.
Qed.

Lemma valid_branch_facts : forall (b : bstate V) p id x, Inv b -> rooms b ->
  branch_at (flatten b) p = Some id -> get_branch (flatten b) id = Some x ->
  length (bkids x) = S (length (bkeys x)) /\ sorted_keys (bkeys x) /\ length (bkeys x) <= cap b /\
  (ref_of (root b) <> RBranch id -> bcap x / 2 <= length (bkeys x)).
Proof.
  intros b p id x I R H Hg. destruct (valid_branch_at _ I R H) as (x' & ir & lo & hi & _ & Hr & Hroot).
  destruct (valid_branch_reach I R Hr Hg) as (H1 & H2 & H3 & H4).
  repeat (split; [assumption|]). intros Hne. apply H4. destruct ir; [|reflexivity].
  exfalso. apply Hne. apply Hroot. reflexivity.
Qed.

(* ---------------- damage to a leaf ---------------- *)
(* one disjunct per documented kind; the interval is the one [hreach] hands to the leaf *)
Definition leaf_bad (b : bstate V) (id : N) (l' : leaf) : Prop :=
  ~ sorted_keys (lkeys l') \/                                  (* unsorted or duplicated keys *)
  length (lkeys l') <> length (lvals l') \/                    (* key and value counts differ *)
  cap b < length (lkeys l') \/                                 (* above capacity *)
  (ref_of (root b) <> RLeaf id /\ length (lkeys l') < lcap l' / 2) \/   (* non-root, below minimum *)
  (exists ir lo hi, hreach (flatten b) (RLeaf id) ir lo hi /\
     ~ Forall (in_bounds lo hi) (lkeys l')).                   (* key outside the parent's interval *)

Lemma upd_leaf_nslots : forall (h : heap) id f, nslots (upd_leaf h id f) = nslots h.
Proof. intros h id f. pose proof (upd_leaf_dfuel h id f) as E. unfold dfuel in E. lia. Qed.
Lemma upd_branch_nslots : forall (h : heap) id f, nslots (upd_branch h id f) = nslots h.
Proof. intros h id f. pose proof (upd_branch_dfuel h id f) as E. unfold dfuel in E. lia. Qed.

Lemma leaf_damage : forall (b : bstate V) p id l (f : leaf -> leaf),
  Inv b -> rooms b -> leaf_at (flatten b) p = Some id -> get_leaf (flatten b) id = Some l ->
  leaf_bad b id (f l) ->
  let h' := upd_leaf (flatten b) id f in
  check_invariants h' = Ok false /\ check_invariants_detailed h' = Ok (Some E_TREE) /\
  (forall k v, hstep h' (OTryInsert k v) = Some (UResOpt None (Some (DataIntegrity E_TREE)))) /\
  (forall z, hstep h' (@OTryRemove V z) = Some (URes None (Some (DataIntegrity E_TREE)))).
Proof.
  intros b p id l f I R Hat Hg Hbad h'. change (rejected h').
  set (h := flatten b) in *.
  assert (Htr : forall r ir lo hi, hreach h r ir lo hi -> hreach h' r ir lo hi).
  { apply hreach_transfer; [apply upd_leaf_root|intro i; apply upd_leaf_get_branch]. }
  assert (Hd : hdep h' (S (nslots h')) (hroot h')).
  { unfold h'. rewrite upd_leaf_nslots, upd_leaf_root.
    apply hdep_same_branches with (h := h); [intro i; apply upd_leaf_get_branch|].
    apply valid_hdep; assumption. }
  assert (Hg' : get_leaf h' id = Some (f l)) by (apply upd_leaf_same; exact Hg).
  assert (Hcap : hcap h' = cap b) by (unfold h'; rewrite upd_leaf_cap; reflexivity).
  destruct (valid_leaf_at _ I R Hat) as (l0 & ir & lo & hi & _ & Hr & Hroot).
  destruct Hbad as [B|[B|[B|[B|B]]]].
  - apply reject_core with (r := RLeaf id) (ir := ir) (lo := lo) (hi := hi); [apply Htr; exact Hr| |exact Hd].
    intros (l1 & E & N1 & _). rewrite Hg' in E. inversion E; subst l1. contradiction.
  - apply reject_core with (r := RLeaf id) (ir := ir) (lo := lo) (hi := hi); [apply Htr; exact Hr| |exact Hd].
    intros (l1 & E & _ & N1 & _). rewrite Hg' in E. inversion E; subst l1. contradiction.
  - apply reject_core with (r := RLeaf id) (ir := ir) (lo := lo) (hi := hi); [apply Htr; exact Hr| |exact Hd].
    intros (l1 & E & _ & _ & N1 & _). rewrite Hg' in E. inversion E; subst l1. rewrite Hcap in N1. lia.
  - destruct B as [Hne B].
    apply reject_core with (r := RLeaf id) (ir := ir) (lo := lo) (hi := hi); [apply Htr; exact Hr| |exact Hd].
    intros (l1 & E & _ & _ & _ & N1 & _). rewrite Hg' in E. inversion E; subst l1.
    destruct ir; [apply Hne; apply Hroot; reflexivity|]. specialize (N1 eq_refl). lia.
  - destruct B as (ir1 & lo1 & hi1 & Hr1 & B).
    apply reject_core with (r := RLeaf id) (ir := ir1) (lo := lo1) (hi := hi1); [apply Htr; exact Hr1| |exact Hd].
    intros (l1 & E & _ & _ & _ & _ & N1). rewrite Hg' in E. inversion E; subst l1. contradiction.
Qed.

Lemma on_leaf_damage : forall (b : bstate V) p id l (f : leaf -> leaf),
  Inv b -> rooms b -> leaf_at (flatten b) p = Some id -> get_leaf (flatten b) id = Some l ->
  leaf_bad b id (f l) -> rejected (on_leaf (flatten b) p f).
Proof.
  intros b p id l f I R Hat Hg Hbad. unfold on_leaf. rewrite Hat.
  exact (@leaf_damage b p id l f I R Hat Hg Hbad).
Qed.

(* ---------------- damage to a branch ---------------- *)
Definition branch_bad (b : bstate V) (id : N) (x' : branch) : Prop :=
  ~ sorted_keys (bkeys x') \/                                  (* unsorted or duplicated keys *)
  length (bkids x') <> S (length (bkeys x')) \/                (* child count <> key count + 1 *)
  cap b < length (bkeys x') \/                                 (* above capacity *)
  (ref_of (root b) <> RBranch id /\ length (bkeys x') < bcap x' / 2).   (* non-root, below minimum *)

Lemma branch_bad_not_ok : forall (b : bstate V) id x' (h' : heap) ir lo hi,
  hcap h' = cap b -> hroot h' = ref_of (root b) -> get_branch h' id = Some x' ->
  hreach h' (RBranch id) ir lo hi -> branch_bad b id x' -> ~ node_ok h' (RBranch id) ir lo hi.
Proof.
  intros b id x' h' ir lo hi Hcap Hroot Hg Hr Hbad (x1 & E & N1 & N2 & N3 & N4).
  rewrite Hg in E. inversion E; subst x1. destruct Hbad as [B|[B|[B|[Hne B]]]]; try contradiction.
  - rewrite Hcap in N3. lia.
  - destruct ir.
    + apply hreach_true_root in Hr. destruct Hr as (Hr & _). apply Hne. rewrite <- Hroot. symmetry. exact Hr.
    + specialize (N4 eq_refl). lia.
Qed.

(* unconditional: whatever the new children are, the validators do not accept *)
Lemma branch_damage_weak : forall (b : bstate V) p id x (f : branch -> branch),
  Inv b -> rooms b -> branch_at (flatten b) p = Some id -> get_branch (flatten b) id = Some x ->
  branch_bad b id (f x) ->
  let h' := upd_branch (flatten b) id f in
  check_invariants h' <> Ok true /\ check_invariants_detailed h' <> Ok None.
Proof.
  intros b p id x f I R Hat Hg Hbad h'.
  destruct (valid_branch_at _ I R Hat) as (x0 & ir & lo & hi & _ & Hr & _).
  destruct (hreach_upd_branch_self f Hr) as (ir0 & lo0 & hi0 & Hr').
  assert (Hn : ~ node_ok h' (RBranch id) ir0 lo0 hi0).
  { eapply branch_bad_not_ok; [| | |exact Hr'|exact Hbad].
    - unfold h'. rewrite upd_branch_cap. reflexivity.
    - unfold h'. rewrite upd_branch_root. reflexivity.
    - apply upd_branch_same. exact Hg. }
  split.
  - eapply damaged_rejected; [exact Hr'|exact Hn].
  - eapply detailed_rejects_damage; [exact Hr'|exact Hn].
Qed.

(* with tame children no cycle can arise: full rejection *)
Lemma branch_damage : forall (b : bstate V) p id x (f : branch -> branch),
  Inv b -> rooms b -> branch_at (flatten b) p = Some id -> get_branch (flatten b) id = Some x ->
  kids_tame (flatten b) x (f x) -> branch_bad b id (f x) ->
  let h' := upd_branch (flatten b) id f in
  check_invariants h' = Ok false /\ check_invariants_detailed h' = Ok (Some E_TREE) /\
  (forall k v, hstep h' (OTryInsert k v) = Some (UResOpt None (Some (DataIntegrity E_TREE)))) /\
  (forall z, hstep h' (@OTryRemove V z) = Some (URes None (Some (DataIntegrity E_TREE)))).
Proof.
  intros b p id x f I R Hat Hg Ht Hbad h'. change (rejected h').
  destruct (valid_branch_at _ I R Hat) as (x0 & ir & lo & hi & _ & Hr & _).
  destruct (hreach_upd_branch_self f Hr) as (ir0 & lo0 & hi0 & Hr').
  apply reject_core with (r := RBranch id) (ir := ir0) (lo := lo0) (hi := hi0); [exact Hr'| |].
  - eapply branch_bad_not_ok; [| | |exact Hr'|exact Hbad].
    + unfold h'. rewrite upd_branch_cap. reflexivity.
    + unfold h'. rewrite upd_branch_root. reflexivity.
    + apply upd_branch_same. exact Hg.
  - unfold h'. rewrite upd_branch_nslots, upd_branch_root.
    eapply hdep_upd_branch; [exact Hg|exact Ht|]. apply valid_hdep; assumption.
Qed.

Lemma on_branch_damage : forall (b : bstate V) p id x (f : branch -> branch),
  Inv b -> rooms b -> branch_at (flatten b) p = Some id -> get_branch (flatten b) id = Some x ->
  kids_tame (flatten b) x (f x) -> branch_bad b id (f x) -> rejected (on_branch (flatten b) p f).
Proof.
  intros b p id x f I R Hat Hg Ht Hbad. unfold on_branch. rewrite Hat.
  exact (@branch_damage b p id x f I R Hat Hg Ht Hbad).
Qed.

(* ---------------- dangling references ---------------- *)
Definition dangling (h : heap) (r : nref) : Prop :=
  match r with RLeaf i => get_leaf h i = None | RBranch i => get_branch h i = None end.

Lemma dangling_not_ok : forall (h : heap) r ir lo hi, dangling h r -> ~ node_ok h r ir lo hi.
Proof.
  intros h r ir lo hi D N0. destruct r as [i|i]; cbn [dangling node_ok] in *;
    destruct N0 as (y & E & _); congruence.
Qed.

(* heap level *)
Lemma dangling_ref_damage : forall (h : heap) r ir lo hi,
  hreach h r ir lo hi -> dangling h r ->
  check_invariants h <> Ok true /\ check_invariants_detailed h <> Ok None.
Proof.
  intros h r ir lo hi Hr D. split.
  - eapply damaged_rejected; [exact Hr|apply dangling_not_ok; exact D].
  - eapply detailed_rejects_damage; [exact Hr|apply dangling_not_ok; exact D].
Qed.

(* a child reference of the branch at position p redirected to an unallocated node *)
Lemma dangling_child_damage : forall (b : bstate V) p id x (f : branch -> branch) i c,
  Inv b -> rooms b -> branch_at (flatten b) p = Some id -> get_branch (flatten b) id = Some x ->
  kids_tame (flatten b) x (f x) -> nth_error (bkids (f x)) i = Some c -> dangling (flatten b) c ->
  rejected (upd_branch (flatten b) id f).
Proof.
  intros b p id x f i c I R Hat Hg Ht Hn D.
  destruct (valid_branch_at _ I R Hat) as (x0 & ir & lo & hi & _ & Hr & _).
  destruct (hreach_upd_branch_self f Hr) as (ir0 & lo0 & hi0 & Hr').
  pose proof (hreach_child i Hr' (@upd_branch_same _ _ f _ Hg) Hn) as Hc.
  eapply reject_core; [exact Hc| |].
  - apply dangling_not_ok. destruct c as [j|j]; cbn [dangling] in *.
    + rewrite upd_branch_get_leaf. exact D.
    + apply upd_branch_none. exact D.
  - rewrite upd_branch_nslots, upd_branch_root.
    eapply hdep_upd_branch; [exact Hg|exact Ht|]. apply valid_hdep; assumption.
Qed.

(* the root reference set to an unallocated node *)
Lemma dangling_root_damage : forall (h : heap) r, dangling h r ->
  rejected (mkHeap (hcap h) r (hleaves h) (hbranches h)).
Proof.
  intros h r D. set (h' := mkHeap (hcap h) r (hleaves h) (hbranches h)).
  assert (D' : dangling h' r) by (destruct r; exact D).
  apply reject_core with (r := r) (ir := true) (lo := None) (hi := None).
  - exact (hreach_root h').
  - apply dangling_not_ok. exact D'.
  - cbn [hroot h']. destruct r as [i|i]; [apply hd_leaf|apply hd_none; exact D'].
Qed.

(* ------------------------------------------------------------------ *)
(* 5. one corollary per damage operator.  Common hypotheses: b valid, position p holds
   leaf id with record l (resp. branch id with record x). *)

(* ---- leaf p: keys[i].z := z ---- *)
Theorem edit_ELeafKey_rejected : forall (b : bstate V) p i z id l, Inv b -> rooms b ->
  leaf_at (flatten b) p = Some id -> get_leaf (flatten b) id = Some l ->
  (~ sorted_keys (set_kz i z (lkeys l)) \/
   exists ir lo hi, hreach (flatten b) (RLeaf id) ir lo hi /\
     ~ Forall (in_bounds lo hi) (set_kz i z (lkeys l))) ->
  rejected (apply_edit (flatten b) (@ELeafKey V p i z)).
Proof.
  intros b p i z id l I R Hat Hg Hbad. cbn [apply_edit].
  eapply on_leaf_damage; [exact I|exact R|exact Hat|exact Hg|].
  unfold leaf_bad. cbn [lkeys lvals lcap]. destruct Hbad as [B|B]; [left; exact B|].
  right. right. right. right. exact B.
Qed.

(* concrete: some other key of the leaf ends up on the wrong side of z *)
Theorem edit_ELeafKey_order_rejected : forall (b : bstate V) p i z id l k j kj, Inv b -> rooms b ->
  leaf_at (flatten b) p = Some id -> get_leaf (flatten b) id = Some l ->
  nth_error (lkeys l) i = Some k -> nth_error (lkeys l) j = Some kj ->
  (j < i /\ (z <= kz kj)%Z) \/ (i < j /\ (kz kj <= z)%Z) ->
  rejected (apply_edit (flatten b) (@ELeafKey V p i z)).
Proof.
  intros b p i z id l k j kj I R Hat Hg Hi Hj Ho.
  eapply edit_ELeafKey_rejected; [exact I|exact R|exact Hat|exact Hg|].
  left. eapply DO_set_kz_order; eauto.
Qed.

(* concrete: z lies outside the interval the parent's separators allow *)
Theorem edit_ELeafKey_interval_rejected : forall (b : bstate V) p i z id l k ir lo hi, Inv b -> rooms b ->
  leaf_at (flatten b) p = Some id -> get_leaf (flatten b) id = Some l ->
  nth_error (lkeys l) i = Some k -> hreach (flatten b) (RLeaf id) ir lo hi ->
  ~ (lo_ok lo z /\ hi_ok hi z) ->
  rejected (apply_edit (flatten b) (@ELeafKey V p i z)).
Proof.
  intros b p i z id l k ir lo hi I R Hat Hg Hi Hr Hn.
  eapply edit_ELeafKey_rejected; [exact I|exact R|exact Hat|exact Hg|].
  right. exists ir, lo, hi. split; [exact Hr|]. eapply DO_set_kz_bounds; eauto.
Qed.

(* ---- leaf p: keys[i].z := keys[j].z (duplicate) ---- *)
Theorem edit_ELeafKeyCopy_rejected : forall (b : bstate V) p i j id l, Inv b -> rooms b ->
  leaf_at (flatten b) p = Some id -> get_leaf (flatten b) id = Some l ->
  i <> j -> i < length (lkeys l) -> j < length (lkeys l) ->
  rejected (apply_edit (flatten b) (@ELeafKeyCopy V p i j)).
Proof.
  intros b p i j id l I R Hat Hg Hne Hi Hj. cbn [apply_edit].
  destruct (nth_error (lkeys l) i) as [k|] eqn:Ei; [|apply nth_error_None in Ei; lia].
  destruct (nth_error (lkeys l) j) as [kj|] eqn:Ej; [|apply nth_error_None in Ej; lia].
  eapply on_leaf_damage; [exact I|exact R|exact Hat|exact Hg|].
  rewrite Ej. left. cbn [lkeys]. eapply DO_set_kz_dup; eauto.
Qed.

(* ---- leaf p: last key's z := z ---- *)
Theorem edit_ELeafLastKey_rejected : forall (b : bstate V) p z id l, Inv b -> rooms b ->
  leaf_at (flatten b) p = Some id -> get_leaf (flatten b) id = Some l ->
  (~ sorted_keys (set_kz (length (lkeys l) - 1) z (lkeys l)) \/
   exists ir lo hi, hreach (flatten b) (RLeaf id) ir lo hi /\
     ~ Forall (in_bounds lo hi) (set_kz (length (lkeys l) - 1) z (lkeys l))) ->
  rejected (apply_edit (flatten b) (@ELeafLastKey V p z)).
Proof.
  intros b p z id l I R Hat Hg Hbad. cbn [apply_edit].
  eapply on_leaf_damage; [exact I|exact R|exact Hat|exact Hg|].
  unfold leaf_bad. cbn [lkeys lvals lcap]. destruct Hbad as [B|B]; [left; exact B|].
  right. right. right. right. exact B.
Qed.

(* concrete: the new last key is not above the key before it *)
Theorem edit_ELeafLastKey_order_rejected : forall (b : bstate V) p z id l j kj, Inv b -> rooms b ->
  leaf_at (flatten b) p = Some id -> get_leaf (flatten b) id = Some l ->
  nth_error (lkeys l) j = Some kj -> j < length (lkeys l) - 1 -> (z <= kz kj)%Z ->
  rejected (apply_edit (flatten b) (@ELeafLastKey V p z)).
Proof.
  intros b p z id l j kj I R Hat Hg Hj Hlt Hz.
  eapply edit_ELeafLastKey_rejected; [exact I|exact R|exact Hat|exact Hg|].
  left. destruct (nth_error (lkeys l) (length (lkeys l) - 1)) as [k|] eqn:Ei;
    [|apply nth_error_None in Ei; lia].
  eapply DO_set_kz_order; [exact Ei|exact Hj|]. left. split; [exact Hlt|exact Hz].
Qed.

(* ---- leaf p: values.pop() ---- *)
Theorem edit_ELeafPopVal_rejected : forall (b : bstate V) p id l, Inv b -> rooms b ->
  leaf_at (flatten b) p = Some id -> get_leaf (flatten b) id = Some l ->
  lkeys l <> [] ->
  rejected (apply_edit (flatten b) (@ELeafPopVal V p)).
Proof.
  intros b p id l I R Hat Hg Hne. cbn [apply_edit].
  destruct (valid_leaf_facts _ I R Hat Hg) as (Hlen & _).
  eapply on_leaf_damage; [exact I|exact R|exact Hat|exact Hg|].
  right. left. cbn [lkeys lvals].
  assert (Hv : lvals l <> []).
  { intros E. rewrite E in Hlen. destruct (lkeys l); [congruence|discriminate]. }
  pose proof (DO_removelast_length Hv). lia.
Qed.

(* ---- leaf p: keys.pop() ---- *)
Theorem edit_ELeafPopKey_rejected : forall (b : bstate V) p id l, Inv b -> rooms b ->
  leaf_at (flatten b) p = Some id -> get_leaf (flatten b) id = Some l ->
  lkeys l <> [] ->
  rejected (apply_edit (flatten b) (@ELeafPopKey V p)).
Proof.
  intros b p id l I R Hat Hg Hne. cbn [apply_edit].
  destruct (valid_leaf_facts _ I R Hat Hg) as (Hlen & _).
  eapply on_leaf_damage; [exact I|exact R|exact Hat|exact Hg|].
  right. left. cbn [lkeys lvals]. pose proof (DO_removelast_length Hne). lia.
Qed.

(* ---- leaf p: push_key(k); push_value(v) ---- *)
Theorem edit_ELeafPush_rejected : forall (b : bstate V) p k v id l, Inv b -> rooms b ->
  leaf_at (flatten b) p = Some id -> get_leaf (flatten b) id = Some l ->
  (cap b <= length (lkeys l) \/                                  (* the leaf was full *)
   (exists k', last_opt (lkeys l) = Some k' /\ (kz k <= kz k')%Z) \/   (* order broken / duplicate *)
   (exists ir lo hi, hreach (flatten b) (RLeaf id) ir lo hi /\ ~ in_bounds lo hi k)) ->
  rejected (apply_edit (flatten b) (@ELeafPush V p k v)).
Proof.
  intros b p k v id l I R Hat Hg Hbad. cbn [apply_edit].
  eapply on_leaf_damage; [exact I|exact R|exact Hat|exact Hg|].
  unfold leaf_bad. cbn [lkeys lvals lcap]. destruct Hbad as [B|[B|B]].
  - right. right. left. rewrite app_length. cbn [length]. lia.
  - left. destruct B as (k' & Hl & Hz). eapply DO_snoc_not_sorted; eauto.
  - right. right. right. right. destruct B as (ir & lo & hi & Hr & Hn).
    exists ir, lo, hi. split; [exact Hr|]. intros F. apply Hn. rewrite Forall_forall in F.
    apply F. apply in_or_app. right. left. reflexivity.
Qed.

(* ---- leaf p: push_key(k) only ---- *)
Theorem edit_ELeafPushKey_rejected : forall (b : bstate V) p k id l, Inv b -> rooms b ->
  leaf_at (flatten b) p = Some id -> get_leaf (flatten b) id = Some l ->
  rejected (apply_edit (flatten b) (@ELeafPushKey V p k)).
Proof.
  intros b p k id l I R Hat Hg. cbn [apply_edit].
  destruct (valid_leaf_facts _ I R Hat Hg) as (Hlen & _).
  eapply on_leaf_damage; [exact I|exact R|exact Hat|exact Hg|].
  right. left. cbn [lkeys lvals]. rewrite app_length. cbn [length]. lia.
Qed.

(* ---- leaf p: push_value(v) only ---- *)
Theorem edit_ELeafPushVal_rejected : forall (b : bstate V) p v id l, Inv b -> rooms b ->
  leaf_at (flatten b) p = Some id -> get_leaf (flatten b) id = Some l ->
  rejected (apply_edit (flatten b) (@ELeafPushVal V p v)).
Proof.
  intros b p v id l I R Hat Hg. cbn [apply_edit].
  destruct (valid_leaf_facts _ I R Hat Hg) as (Hlen & _).
  eapply on_leaf_damage; [exact I|exact R|exact Hat|exact Hg|].
  right. left. cbn [lkeys lvals]. rewrite app_length. cbn [length]. lia.
Qed.

(* ---- leaf p: truncate keys and values to n ---- *)
Theorem edit_ELeafTrunc_rejected : forall (b : bstate V) p n id l, Inv b -> rooms b ->
  leaf_at (flatten b) p = Some id -> get_leaf (flatten b) id = Some l ->
  ref_of (root b) <> RLeaf id -> n < lcap l / 2 ->
  rejected (apply_edit (flatten b) (@ELeafTrunc V p n)).
Proof.
  intros b p n id l I R Hat Hg Hnr Hn. cbn [apply_edit].
  eapply on_leaf_damage; [exact I|exact R|exact Hat|exact Hg|].
  right. right. right. left. split; [exact Hnr|]. cbn [lkeys lcap].
  rewrite firstn_length. lia.
Qed.

(* ---- branch p: keys[i].z := z ---- *)
Lemma kids_tame_same : forall (h : heap) x x', bkids x' = bkids x -> kids_tame h x x'.
Proof. intros h x x' E c Hc. left. rewrite <- E. exact Hc. Qed.

Theorem edit_EBranchKey_rejected : forall (b : bstate V) p i z id x, Inv b -> rooms b ->
  branch_at (flatten b) p = Some id -> get_branch (flatten b) id = Some x ->
  ~ sorted_keys (set_kz i z (bkeys x)) ->
  rejected (apply_edit (flatten b) (@EBranchKey V p i z)).
Proof.
  intros b p i z id x I R Hat Hg Hbad. cbn [apply_edit].
  eapply on_branch_damage; [exact I|exact R|exact Hat|exact Hg| |].
  - apply kids_tame_same. reflexivity.
  - left. exact Hbad.
Qed.

Theorem edit_EBranchKey_order_rejected : forall (b : bstate V) p i z id x k j kj, Inv b -> rooms b ->
  branch_at (flatten b) p = Some id -> get_branch (flatten b) id = Some x ->
  nth_error (bkeys x) i = Some k -> nth_error (bkeys x) j = Some kj ->
  (j < i /\ (z <= kz kj)%Z) \/ (i < j /\ (kz kj <= z)%Z) ->
  rejected (apply_edit (flatten b) (@EBranchKey V p i z)).
Proof.
  intros b p i z id x k j kj I R Hat Hg Hi Hj Ho.
  eapply edit_EBranchKey_rejected; [exact I|exact R|exact Hat|exact Hg|].
  eapply DO_set_kz_order; eauto.
Qed.

(* ---- branch p: keys[i].z := keys[j].z ---- *)
Theorem edit_EBranchKeyCopy_rejected : forall (b : bstate V) p i j id x, Inv b -> rooms b ->
  branch_at (flatten b) p = Some id -> get_branch (flatten b) id = Some x ->
  i <> j -> i < length (bkeys x) -> j < length (bkeys x) ->
  rejected (apply_edit (flatten b) (@EBranchKeyCopy V p i j)).
Proof.
  intros b p i j id x I R Hat Hg Hne Hi Hj. cbn [apply_edit].
  destruct (nth_error (bkeys x) i) as [k|] eqn:Ei; [|apply nth_error_None in Ei; lia].
  destruct (nth_error (bkeys x) j) as [kj|] eqn:Ej; [|apply nth_error_None in Ej; lia].
  eapply on_branch_damage; [exact I|exact R|exact Hat|exact Hg| |].
  - rewrite Ej. apply kids_tame_same. reflexivity.
  - rewrite Ej. left. cbn [bkeys]. eapply DO_set_kz_dup; eauto.
Qed.

(* ---- branch p: keys truncated to n, children to n+1 ---- *)
Theorem edit_EBranchTrunc_rejected : forall (b : bstate V) p n id x, Inv b -> rooms b ->
  branch_at (flatten b) p = Some id -> get_branch (flatten b) id = Some x ->
  ref_of (root b) <> RBranch id -> n < bcap x / 2 ->
  rejected (apply_edit (flatten b) (@EBranchTrunc V p n)).
Proof.
  intros b p n id x I R Hat Hg Hnr Hn. cbn [apply_edit].
  eapply on_branch_damage; [exact I|exact R|exact Hat|exact Hg| |].
  - intros c Hc. left. cbn [bkids] in Hc. eapply DO_in_firstn. exact Hc.
  - right. right. right. split; [exact Hnr|]. cbn [bkeys bcap]. rewrite firstn_length. lia.
Qed.

(* ---- branch p: children.pop() ---- *)
Theorem edit_EBranchPopChild_rejected : forall (b : bstate V) p id x, Inv b -> rooms b ->
  branch_at (flatten b) p = Some id -> get_branch (flatten b) id = Some x ->
  rejected (apply_edit (flatten b) (@EBranchPopChild V p)).
Proof.
  intros b p id x I R Hat Hg. cbn [apply_edit].
  destruct (valid_branch_facts _ I R Hat Hg) as (Hlen & _).
  eapply on_branch_damage; [exact I|exact R|exact Hat|exact Hg| |].
  - intros c Hc. left. cbn [bkids] in Hc. apply DO_in_removelast. exact Hc.
  - right. left. cbn [bkeys bkids].
    assert (Hk : bkids x <> []) by (intros E; rewrite E in Hlen; discriminate).
    pose proof (DO_removelast_length Hk). lia.
Qed.

(* ---- branch p: children.push(last child) ---- *)
Lemma kids_tame_dup : forall (h : heap) x x',
  bkids x' = bkids x ++ match last_opt (bkids x) with Some c => [c] | None => [] end ->
  kids_tame h x x'.
Proof.
  intros h x x' E c Hc. left. rewrite E in Hc. apply in_app_or in Hc. destruct Hc as [Hc|Hc]; [exact Hc|].
  destruct (last_opt (bkids x)) as [c0|] eqn:El; [|destruct Hc].
  destruct Hc as [<-|[]]. apply DO_last_opt_in. exact El.
Qed.

Theorem edit_EBranchDupChild_rejected : forall (b : bstate V) p id x, Inv b -> rooms b ->
  branch_at (flatten b) p = Some id -> get_branch (flatten b) id = Some x ->
  rejected (apply_edit (flatten b) (@EBranchDupChild V p)).
Proof.
  intros b p id x I R Hat Hg. cbn [apply_edit].
  destruct (valid_branch_facts _ I R Hat Hg) as (Hlen & _).
  eapply on_branch_damage; [exact I|exact R|exact Hat|exact Hg| |].
  - apply kids_tame_dup. reflexivity.
  - right. left. cbn [bkeys bkids].
    assert (Hk : bkids x <> []) by (intros E; rewrite E in Hlen; discriminate).
    destruct (DO_last_opt_some Hk) as (c & El). rewrite El, app_length. cbn [length]. lia.
Qed.

(* ---- branch p: keys.push(k); children.push(last child) ---- *)
Theorem edit_EBranchPush_rejected : forall (b : bstate V) p k id x, Inv b -> rooms b ->
  branch_at (flatten b) p = Some id -> get_branch (flatten b) id = Some x ->
  (cap b <= length (bkeys x) \/
   exists k', last_opt (bkeys x) = Some k' /\ (kz k <= kz k')%Z) ->
  rejected (apply_edit (flatten b) (@EBranchPush V p k)).
Proof.
  intros b p k id x I R Hat Hg Hbad. cbn [apply_edit].
  eapply on_branch_damage; [exact I|exact R|exact Hat|exact Hg| |].
  - apply kids_tame_dup. reflexivity.
  - cbn [bkeys bkids bcap]. destruct Hbad as [B|(k' & Hl & Hz)].
    + right. right. left. cbn [bkeys]. rewrite app_length. cbn [length]. lia.
    + left. cbn [bkeys]. eapply DO_snoc_not_sorted; eauto.
Qed.

(* ---- branch p: children[i] := same kind, raw id that is not allocated ---- *)
Lemma DO_in_set_nth : forall (A : Type) i (r : A) l x, In x (set_nth i r l) -> x = r \/ In x l.
Proof.
  intros A. induction i as [|i IH]; intros r [|y l] x H; cbn [set_nth] in H; try (destruct H; fail).
  - destruct H as [<-|H]; [left; reflexivity|right; right; exact H].
  - destruct H as [<-|H]; [right; left; reflexivity|].
    destruct (IH _ _ _ H) as [E|E]; [left; exact E|right; right; exact E].
Qed.

Theorem edit_EBranchRef_rejected : forall (b : bstate V) p i id' id x c, Inv b -> rooms b ->
  branch_at (flatten b) p = Some id -> get_branch (flatten b) id = Some x ->
  nth_error (bkids x) i = Some c -> dangling (flatten b) (same_kind c id') ->
  rejected (apply_edit (flatten b) (@EBranchRef V p i id')).
Proof.
  intros b p i id' id x c I R Hat Hg Hn D. cbn [apply_edit]. unfold on_branch. rewrite Hat.
  eapply dangling_child_damage with (i := i) (c := same_kind c id');
    [exact I|exact R|exact Hat|exact Hg| | |exact D].
  - rewrite Hn. intros c' Hc'. cbn [bkids] in Hc'. apply DO_in_set_nth in Hc'.
    destruct Hc' as [->|Hc']; [|left; exact Hc']. right.
    destruct c as [j|j]; cbn [same_kind dangling] in *; [exact Logic.I|exact D].
  - rewrite Hn. cbn [bkids]. apply set_nth_same. apply nth_error_Some. congruence.
Qed.

(* ---- root := Leaf(id) | Branch(id), id not allocated ---- *)
Theorem edit_ERoot_rejected : forall (b : bstate V) (lk : bool) (id : N), Inv b -> rooms b ->
  dangling (flatten b) (if lk then RLeaf id else RBranch id) ->
  rejected (apply_edit (flatten b) (@ERoot V lk id)).
Proof.
  intros b lk id _ _ D. unfold apply_edit.
  exact (dangling_root_damage (flatten b) _ D).
Qed.

(* ---- deallocate_leaf(id of leaf p): the freed leaf is still referenced ---- *)
Theorem edit_EFreeLeaf_rejected : forall (b : bstate V) p id, Inv b -> rooms b ->
  leaf_at (flatten b) p = Some id ->
  rejected (apply_edit (flatten b) (@EFreeLeaf V p)).
Proof.
  intros b p id I R Hat. cbn [apply_edit]. rewrite Hat.
  destruct (valid_leaf_at _ I R Hat) as (l & ir & lo & hi & Hg & Hr & _).
  destruct (DO_dealloc (@dflt_leaf V) _ _ Hg) as (a' & Ed & Hnone & _ & Hlen).
  rewrite Ed. set (h := flatten b) in *.
  set (h' := mkHeap (hcap h) (hroot h) a' (hbranches h)).
  apply reject_core with (r := RLeaf id) (ir := ir) (lo := lo) (hi := hi).
  - apply hreach_transfer with (h := h); [reflexivity|reflexivity|exact Hr].
  - apply dangling_not_ok. exact Hnone.
  - assert (En : nslots h' = nslots h) by (unfold nslots, h'; cbn [hleaves hbranches]; rewrite Hlen; reflexivity).
    rewrite En. apply hdep_same_branches with (h := h); [reflexivity|].
    apply valid_hdep; assumption.
Qed.

(* ---- deallocate_branch(id of branch p): the freed branch is still referenced ---- *)
Theorem edit_EFreeBranch_rejected : forall (b : bstate V) p id, Inv b -> rooms b ->
  branch_at (flatten b) p = Some id ->
  rejected (apply_edit (flatten b) (@EFreeBranch V p)).
Proof.
  intros b p id I R Hat. cbn [apply_edit]. rewrite Hat.
  destruct (valid_branch_at _ I R Hat) as (x & ir & lo & hi & Hg & Hr & _).
  destruct (DO_dealloc dflt_branch _ _ Hg) as (a' & Ed & Hnone & Hoth & Hlen).
  rewrite Ed. set (h := flatten b) in *.
  set (h' := mkHeap (hcap h) (hroot h) (hleaves h) a').
  assert (Ho : forall i, i <> id -> get_branch h' i = get_branch h i) by (intros i Hi; apply Hoth; exact Hi).
  destruct (@hreach_change_branch_self h h' id _ _ _ eq_refl Ho Hr) as (ir0 & lo0 & hi0 & Hr').
  apply reject_core with (r := RBranch id) (ir := ir0) (lo := lo0) (hi := hi0).
  - exact Hr'.
  - apply dangling_not_ok. exact Hnone.
  - assert (En : nslots h' = nslots h) by (unfold nslots, h'; cbn [hleaves hbranches]; rewrite Hlen; reflexivity).
    rewrite En. apply hdep_change_branch with (h := h) (id0 := id) (x0 := x); [exact Hg|exact Ho|left; exact Hnone|].
    apply valid_hdep; assumption.
Qed.

(* ------------------------------------------------------------------ *)
(* 6. the damaging edits, one constructor per damage operator and documented effect,
   at every position of a state *)
Inductive damaging (b : bstate V) : edit V -> Prop :=
(* unsorted / duplicated keys, key outside the parent's interval *)
| dmg_leaf_key p i z id l :
    leaf_at (flatten b) p = Some id -> get_leaf (flatten b) id = Some l ->
    (~ sorted_keys (set_kz i z (lkeys l)) \/
     exists ir lo hi, hreach (flatten b) (RLeaf id) ir lo hi /\
       ~ Forall (in_bounds lo hi) (set_kz i z (lkeys l))) ->
    damaging b (@ELeafKey V p i z)
| dmg_leaf_key_copy p i j id l :
    leaf_at (flatten b) p = Some id -> get_leaf (flatten b) id = Some l ->
    i <> j -> i < length (lkeys l) -> j < length (lkeys l) ->
    damaging b (@ELeafKeyCopy V p i j)
| dmg_leaf_last_key p z id l :
    leaf_at (flatten b) p = Some id -> get_leaf (flatten b) id = Some l ->
    (~ sorted_keys (set_kz (length (lkeys l) - 1) z (lkeys l)) \/
     exists ir lo hi, hreach (flatten b) (RLeaf id) ir lo hi /\
       ~ Forall (in_bounds lo hi) (set_kz (length (lkeys l) - 1) z (lkeys l))) ->
    damaging b (@ELeafLastKey V p z)
(* key and value counts differ *)
| dmg_leaf_pop_val p id l :
    leaf_at (flatten b) p = Some id -> get_leaf (flatten b) id = Some l -> lkeys l <> [] ->
    damaging b (@ELeafPopVal V p)
| dmg_leaf_pop_key p id l :
    leaf_at (flatten b) p = Some id -> get_leaf (flatten b) id = Some l -> lkeys l <> [] ->
    damaging b (@ELeafPopKey V p)
| dmg_leaf_push_key p k id :
    leaf_at (flatten b) p = Some id -> damaging b (@ELeafPushKey V p k)
| dmg_leaf_push_val p v id :
    leaf_at (flatten b) p = Some id -> damaging b (@ELeafPushVal V p v)
(* above capacity, order, interval *)
| dmg_leaf_push p k v id l :
    leaf_at (flatten b) p = Some id -> get_leaf (flatten b) id = Some l ->
    (cap b <= length (lkeys l) \/
     (exists k', last_opt (lkeys l) = Some k' /\ (kz k <= kz k')%Z) \/
     (exists ir lo hi, hreach (flatten b) (RLeaf id) ir lo hi /\ ~ in_bounds lo hi k)) ->
    damaging b (@ELeafPush V p k v)
(* non-root node below minimum occupancy *)
| dmg_leaf_trunc p n id l :
    leaf_at (flatten b) p = Some id -> get_leaf (flatten b) id = Some l ->
    ref_of (root b) <> RLeaf id -> n < lcap l / 2 ->
    damaging b (@ELeafTrunc V p n)
(* branches *)
| dmg_branch_key p i z id x :
    branch_at (flatten b) p = Some id -> get_branch (flatten b) id = Some x ->
    ~ sorted_keys (set_kz i z (bkeys x)) ->
    damaging b (@EBranchKey V p i z)
| dmg_branch_key_copy p i j id x :
    branch_at (flatten b) p = Some id -> get_branch (flatten b) id = Some x ->
    i <> j -> i < length (bkeys x) -> j < length (bkeys x) ->
    damaging b (@EBranchKeyCopy V p i j)
| dmg_branch_trunc p n id x :
    branch_at (flatten b) p = Some id -> get_branch (flatten b) id = Some x ->
    ref_of (root b) <> RBranch id -> n < bcap x / 2 ->
    damaging b (@EBranchTrunc V p n)
(* child count <> key count + 1 *)
| dmg_branch_pop_child p id :
    branch_at (flatten b) p = Some id -> damaging b (@EBranchPopChild V p)
| dmg_branch_dup_child p id :
    branch_at (flatten b) p = Some id -> damaging b (@EBranchDupChild V p)
| dmg_branch_push p k id x :
    branch_at (flatten b) p = Some id -> get_branch (flatten b) id = Some x ->
    (cap b <= length (bkeys x) \/ exists k', last_opt (bkeys x) = Some k' /\ (kz k <= kz k')%Z) ->
    damaging b (@EBranchPush V p k)
(* references to nodes that are not allocated *)
| dmg_branch_ref p i id' id x c :
    branch_at (flatten b) p = Some id -> get_branch (flatten b) id = Some x ->
    nth_error (bkids x) i = Some c -> dangling (flatten b) (same_kind c id') ->
    damaging b (@EBranchRef V p i id')
| dmg_root (lk : bool) (id : N) :
    dangling (flatten b) (if lk then RLeaf id else RBranch id) ->
    damaging b (@ERoot V lk id)
| dmg_free_leaf p id :
    leaf_at (flatten b) p = Some id -> damaging b (@EFreeLeaf V p)
| dmg_free_branch p id :
    branch_at (flatten b) p = Some id -> damaging b (@EFreeBranch V p).

Theorem damage_operators_rejected_full : forall (b : bstate V) (e : edit V),
  Inv b -> rooms b -> damaging b e -> rejected (apply_edit (flatten b) e).
Proof.
  intros b e I R D. destruct D.
  - eapply edit_ELeafKey_rejected; eauto.
  - eapply edit_ELeafKeyCopy_rejected; eauto.
  - eapply edit_ELeafLastKey_rejected; eauto.
  - eapply edit_ELeafPopVal_rejected; eauto.
  - eapply edit_ELeafPopKey_rejected; eauto.
  - destruct (valid_leaf_at _ I R H) as (l & _ & _ & _ & Hg & _).
    eapply edit_ELeafPushKey_rejected; eauto.
  - destruct (valid_leaf_at _ I R H) as (l & _ & _ & _ & Hg & _).
    eapply edit_ELeafPushVal_rejected; eauto.
  - eapply edit_ELeafPush_rejected; eauto.
  - eapply edit_ELeafTrunc_rejected; eauto.
  - eapply edit_EBranchKey_rejected; eauto.
  - eapply edit_EBranchKeyCopy_rejected; eauto.
  - eapply edit_EBranchTrunc_rejected; eauto.
  - destruct (valid_branch_at _ I R H) as (x & _ & _ & _ & Hg & _).
    eapply edit_EBranchPopChild_rejected; eauto.
  - destruct (valid_branch_at _ I R H) as (x & _ & _ & _ & Hg & _).
    eapply edit_EBranchDupChild_rejected; eauto.
  - eapply edit_EBranchPush_rejected; eauto.
  - eapply edit_EBranchRef_rejected; eauto.
  - eapply edit_ERoot_rejected; eauto.
  - eapply edit_EFreeLeaf_rejected; eauto.
  - eapply edit_EFreeBranch_rejected; eauto.
Qed.

(* every valid state x every damage operator x every position where it damages *)
Theorem damage_operators_rejected : forall (b : bstate V) (e : edit V),
  Inv b -> rooms b -> damaging b e ->
  check_invariants (apply_edit (flatten b) e) <> Ok true /\
  check_invariants_detailed (apply_edit (flatten b) e) <> Ok None.
Proof.
  intros b e I R D. apply rejected_weak. apply damage_operators_rejected_full; assumption.
Qed.

(* the same in the words of the property: check_invariants() returns false, the detailed
   validator returns an error, try_insert and try_remove refuse with that error *)
Theorem damage_operators_refused : forall (b : bstate V) (e : edit V) k v z,
  Inv b -> rooms b -> damaging b e ->
  let h' := apply_edit (flatten b) e in
  check_invariants h' = Ok false /\ check_invariants_detailed h' = Ok (Some E_TREE) /\
  validate_for_operation h' = Ok (Some E_TREE) /\
  hstep h' (OTryInsert k v) = Some (UResOpt None (Some (DataIntegrity E_TREE))) /\
  hstep h' (@OTryRemove V z) = Some (URes None (Some (DataIntegrity E_TREE))).
Proof.
  intros b e k v z I R D h'.
  destruct (damage_operators_rejected_full I R D) as (H1 & H2 & H3 & H4).
  split; [exact H1|]. split; [exact H2|]. split; [exact H2|]. split; [apply H3|apply H4].
Qed.

(* ------------------------------------------------------------------ *)
(* 8. orphans: an allocated node that the tree does not reference.  check_invariants does
   not see it (it only walks the tree); the detailed validator counts the arenas. *)

Lemma hdep_mono : forall (h : heap) n r, hdep h n r -> forall m, n <= m -> hdep h m r.
Proof.
  intros h n r H. induction H as [n id|n id Hg|n id x Hg Hk IH]; intros m Hm.
  - apply hd_leaf.
  - apply hd_none. exact Hg.
  - destruct m as [|m]; [lia|]. apply hd_branch with (x := x); [exact Hg|].
    intros c Hc. apply IH; [exact Hc|lia].
Qed.

Lemma DO_concat_res_total : forall (A : Type) (l : list (res (list A))),
  (forall r, In r l -> exists x, r = Ok x) -> exists x, concat_res l = Ok x.
Proof.
  intros A l H. unfold concat_res. generalize (@nil A).
  induction l as [|r l IH]; intros acc; cbn [fold_left]; [eexists; reflexivity|].
  destruct (H r (or_introl eq_refl)) as (x & ->). cbn [bind].
  apply IH. intros r' Hr'. apply H. right. exact Hr'.
Qed.

Lemma h_leaf_ids_total : forall (h : heap) n r, hdep h n r -> exists l, h_leaf_ids (S n) h r = Ok l.
Proof.
  intros h n r H. induction H as [n id|n id Hg|n id x Hg Hk IH].
  - eexists; reflexivity.
  - cbn [h_leaf_ids]. rewrite Hg. eexists; reflexivity.
  - remember (S n) as n1. cbn [h_leaf_ids]. rewrite Hg. subst n1.
    apply DO_concat_res_total. intros r Hr. apply in_map_iff in Hr. destruct Hr as (c & <- & Hc).
    apply IH. exact Hc.
Qed.

Lemma h_branch_ids_total : forall (h : heap) n r, hdep h n r -> exists l, h_branch_ids (S n) h r = Ok l.
Proof.
  intros h n r H. induction H as [n id|n id Hg|n id x Hg Hk IH].
  - eexists; reflexivity.
  - cbn [h_branch_ids]. rewrite Hg. eexists; reflexivity.
  - remember (S n) as n1. cbn [h_branch_ids]. rewrite Hg. subst n1.
    destruct (@DO_concat_res_total _ (map (h_branch_ids (S n) h) (bkids x))) as (l & ->).
    + intros r Hr. apply in_map_iff in Hr. destruct Hr as (c & <- & Hc). apply IH. exact Hc.
    + cbn [bind]. eexists; reflexivity.
Qed.

(* walks that only visit reachable nodes agree on heaps that agree on reachable branches *)
Lemma h_leaf_ids_agree : forall (h h' : heap),
  (forall id ir lo hi, hreach h (RBranch id) ir lo hi -> get_branch h' id = get_branch h id) ->
  forall f r ir lo hi, hreach h r ir lo hi -> h_leaf_ids f h' r = h_leaf_ids f h r.
Proof.
  intros h h' Ha. induction f as [|f IH]; intros r ir lo hi Hr; [reflexivity|].
  cbn [h_leaf_ids]. destruct r as [id|id]; [reflexivity|].
  rewrite (Ha _ _ _ _ Hr). destruct (get_branch h id) as [x|] eqn:Eg; [|reflexivity].
  f_equal. apply map_ext_in. intros c Hc. apply In_nth_error in Hc. destruct Hc as (i & Hi).
  eapply IH. eapply hreach_child; eauto.
Qed.

Lemma h_branch_ids_agree : forall (h h' : heap),
  (forall id ir lo hi, hreach h (RBranch id) ir lo hi -> get_branch h' id = get_branch h id) ->
  forall f r ir lo hi, hreach h r ir lo hi -> h_branch_ids f h' r = h_branch_ids f h r.
Proof.
  intros h h' Ha. induction f as [|f IH]; intros r ir lo hi Hr; [reflexivity|].
  cbn [h_branch_ids]. destruct r as [id|id]; [reflexivity|].
  rewrite (Ha _ _ _ _ Hr). destruct (get_branch h id) as [x|] eqn:Eg; [|reflexivity].
  f_equal. f_equal. apply map_ext_in. intros c Hc. apply In_nth_error in Hc. destruct Hc as (i & Hi).
  eapply IH. eapply hreach_child; eauto.
Qed.

Lemma valid_arena_inv : forall b : bstate V, Inv b -> rooms b ->
  ArenaInv (hleaves (flatten b)) /\ small (hleaves (flatten b)) /\
  ArenaInv (hbranches (flatten b)) /\ small (hbranches (flatten b)).
Proof.
  intros b I R. pose proof (flatten_heap_of I R) as HO.
  destruct (inv_leaves I) as (_ & _ & ND1 & F1). destruct (inv_branches I) as (_ & _ & ND2 & F2).
  destruct R as [R1 R2]. unfold room in R1, R2. rewrite Nat.add_0_r in R1, R2.
  split; [|split; [|split]].
  - split; [|split].
    + rewrite (ho_llen HO), (ho_lmask HO). reflexivity.
    + rewrite (ho_lfree HO). exact ND1.
    + intros i. rewrite (ho_lfree HO), (ho_lmask HO). apply F1.
  - unfold small. rewrite (ho_llen HO). exact R1.
  - split; [|split].
    + rewrite (ho_blen HO), (ho_bmask HO). reflexivity.
    + rewrite (ho_bfree HO). exact ND2.
    + intros i. rewrite (ho_bfree HO), (ho_bmask HO). apply F2.
  - unfold small. rewrite (ho_blen HO). exact R2.
Qed.

Lemma valid_leaf_cap : forall (b : bstate V) id l, Inv b -> rooms b ->
  get_leaf (flatten b) id = Some l -> lcap l = cap b.
Proof.
  intros b id l I R Hg. pose proof (flatten_heap_of I R) as HO.
  destruct (ho_leaf_inv HO _ Hg) as (c & ks & vs & nx & -> & Hs).
  destruct (inv_shape I) as (hh & Sh).
  destruct (subtree_shape Hs Sh) as (r' & h' & Sl). apply shape_leaf_inv in Sl.
  cbn [lcap]. tauto.
Qed.

(* common core: h' has the root of the valid heap h, agrees with it on every allocated
   node, holds at least as many slots, and has one more allocated node *)
Lemma orphan_core : forall (b : bstate V) (h' : heap), Inv b -> rooms b ->
  hroot h' = hroot (flatten b) ->
  (forall id x, get_branch (flatten b) id = Some x -> get_branch h' id = Some x) ->
  (forall id l, get_leaf (flatten b) id = Some l -> get_leaf h' id = Some l) ->
  (forall id l, get_leaf h' id = Some l -> get_leaf (flatten b) id = Some l \/ 2 <= lcap l) ->
  nslots (flatten b) <= nslots h' ->
  ((exists id, a_contains (hleaves h') id = true /\ get_leaf (flatten b) id = None) \/
   (exists id, a_contains (hbranches h') id = true /\ get_branch (flatten b) id = None)) ->
  check_invariants_detailed h' <> Ok None.
Proof.
  intros b h' I R Er Hb Hl Hl' Hn Horph. set (h := flatten b) in *.
  assert (Ha : forall id ir lo hi, hreach h (RBranch id) ir lo hi -> get_branch h' id = get_branch h id).
  { intros id ir lo hi Hr. pose proof (valid_hwf I R Hr) as W.
    inversion W as [|? ? ? ? x Hg _ _ _ _ _]; subst.
    transitivity (Some x); [apply Hb; exact Hg|symmetry; exact Hg]. }
  assert (Hd : hdep h (S (nslots h')) (hroot h)).
  { eapply hdep_mono; [apply valid_hdep; assumption|]. fold h. lia. }
  destruct (h_leaf_ids_total Hd) as (tids & Et).
  destruct (h_branch_ids_total Hd) as (bids & Eb).
  assert (Et' : collect_leaf_ids h' = Ok tids).
  { unfold collect_leaf_ids, dfuel. rewrite Er.
    rewrite (@h_leaf_ids_agree h h' Ha _ _ _ _ _ (hreach_root h)). exact Et. }
  assert (Eb' : collect_branch_ids h' = Ok bids).
  { unfold collect_branch_ids, dfuel. rewrite Er.
    rewrite (@h_branch_ids_agree h h' Ha _ _ _ _ _ (hreach_root h)). exact Eb. }
  assert (Tl : forall id, In id tids -> exists l, get_leaf h id = Some l).
  { intros id Hin. destruct (h_leaf_ids_reach _ _ Et Hin (hreach_root h)) as (ir & lo & hi & Hr).
    pose proof (valid_hwf I R Hr) as W. inversion W as [? ? ? ? l Hg _ _ _ _ _|]; subst. eauto. }
  assert (Tb : forall id, In id bids -> exists x, get_branch h id = Some x).
  { intros id Hin. destruct (h_branch_ids_reach _ _ Eb Hin (hreach_root h)) as (ir & lo & hi & Hr).
    pose proof (valid_hwf I R Hr) as W. inversion W as [|? ? ? ? x Hg _ _ _ _ _]; subst. eauto. }
  apply (@orphan_rejected V h' tids bids Et' Eb').
  - intros id l Hin Hg. destruct (Hl' _ _ Hg) as [Hg0|Hc]; [|exact Hc].
    rewrite (@valid_leaf_cap b id l I R Hg0). pose proof (inv_cap I). lia.
  - destruct Horph as [(id & Hc & Hnone)|(id & Hc & Hnone)].
    + left. exists id. split; [exact Hc|]. intros Hin. destruct (Tl _ Hin) as (l & E). congruence.
    + right. exists id. split; [exact Hc|]. intros Hin. destruct (Tb _ Hin) as (x & E). congruence.
Qed.

Theorem edit_EOrphanLeaf_rejected : forall (b : bstate V), Inv b -> rooms b ->
  check_invariants_detailed (apply_edit (flatten b) (@EOrphanLeaf V)) <> Ok None.
Proof.
  intros b I R. cbn [apply_edit].
  destruct (valid_arena_inv I R) as (AI & Sm & _ & _).
  destruct (@allocate_spec _ _ (mkLeaf (hcap (flatten b)) [] [] NULL) AI Sm)
    as (a' & nid & Ea & Hne & Hold & Hnew & Hoth & _ & _ & _ & Hlen).
  rewrite Ea. set (h := flatten b) in *.
  apply (@orphan_core b (mkHeap (hcap h) (hroot h) a' (hbranches h)) I R).
  - reflexivity.
  - intros id x Hg. exact Hg.
  - intros id l Hg. unfold get_leaf. cbn [hleaves]. rewrite Hoth; [exact Hg|].
    intros ->. unfold get_leaf in Hg. fold h in Hg. congruence.
  - intros id l Hg. unfold get_leaf in Hg. cbn [hleaves] in Hg.
    destruct (N.eq_dec id nid) as [->|Hd].
    + rewrite Hnew in Hg. inversion Hg; subst l. right. cbn [lcap]. change (hcap h) with (cap b).
      pose proof (inv_cap I). lia.
    + left. rewrite Hoth in Hg by exact Hd. exact Hg.
  - unfold nslots. cbn [hleaves hbranches]. rewrite Hlen. subst h. destruct (free (hleaves (flatten b))); lia.
  - left. exists nid. split; [|exact Hold]. cbn [hleaves]. eapply a_get_contains. exact Hnew.
Qed.

Theorem edit_EOrphanBranch_rejected : forall (b : bstate V), Inv b -> rooms b ->
  check_invariants_detailed (apply_edit (flatten b) (@EOrphanBranch V)) <> Ok None.
Proof.
  intros b I R. cbn [apply_edit].
  destruct (valid_arena_inv I R) as (_ & _ & AI & Sm).
  destruct (@allocate_spec _ _ (mkBranch (hcap (flatten b)) [] []) AI Sm)
    as (a' & nid & Ea & Hne & Hold & Hnew & Hoth & _ & _ & _ & Hlen).
  rewrite Ea. set (h := flatten b) in *.
  apply (@orphan_core b (mkHeap (hcap h) (hroot h) (hleaves h) a') I R).
  - reflexivity.
  - intros id x Hg. unfold get_branch. cbn [hbranches]. rewrite Hoth; [exact Hg|].
    intros ->. unfold get_branch in Hg. fold h in Hg. congruence.
  - intros id l Hg. exact Hg.
  - intros id l Hg. left. exact Hg.
  - unfold nslots. cbn [hleaves hbranches]. rewrite Hlen. subst h. destruct (free (hbranches (flatten b))); lia.
  - right. exists nid. split; [|exact Hold]. cbn [hbranches]. eapply a_get_contains. exact Hnew.
Qed.

End DamageOps.

(* ------------------------------------------------------------------ *)
(* 7. non-vacuity: a reachable 3-level map (capacity 4, keys 1..20); for every class of
   damage a concrete edit satisfies [damaging], hence is rejected by the theorem *)
Module DamageOpsExamples.

Definition ex_ops : list (op Z) :=
  map (fun n => OInsert (mkKey (Z.of_nat n) 0%N) (Z.of_nat n)) (seq 1 20).

Definition ex_b : bstate Z := Eval vm_compute in
  match state_after 4 ex_ops with
  | Some b => b
  | None => mkB 0 (PLeaf 0%N 0 [] [] 0%N) (mkMeta [] []) (mkMeta [] [])
  end.

Lemma ex_b_reached : state_after 4 ex_ops = Some ex_b.
Proof. vm_compute. reflexivity. Qed.

Lemma ex_b_valid : Inv ex_b /\ rooms ex_b.
Proof.
  destruct (@reachable_state Z 4 ex_ops) as (b & E & I & R & _).
  - lia.
  - vm_compute. reflexivity.
  - rewrite ex_b_reached in E. inversion E; subst b. split; assumption.
Qed.

Example ex_three_levels : height (root ex_b) = 2.
Proof. vm_compute. reflexivity. Qed.

Example ex_positions :
  collect_leaf_ids (flatten ex_b) = Ok [0; 1; 2; 3; 4; 5; 6; 7; 8]%N /\
  collect_branch_ids (flatten ex_b) = Ok [2; 0; 1; 3]%N.
Proof. vm_compute. split; reflexivity. Qed.

Ltac by_vm := vm_compute; reflexivity.

(* the interval [3, 5) handed to leaf 1 (second child of branch 0, first child of root 2) *)
Lemma ex_reach_leaf1 : hreach (flatten ex_b) (RLeaf 1%N) false (Some 3%Z) (Some 5%Z).
Proof.
  pose (x2 := mkBranch 4 [mkKey 7 0%N; mkKey 13 0%N] [RBranch 0%N; RBranch 1%N; RBranch 3%N]).
  pose (x0 := mkBranch 4 [mkKey 3 0%N; mkKey 5 0%N] [RLeaf 0%N; RLeaf 1%N; RLeaf 2%N]).
  assert (G2 : get_branch (flatten ex_b) 2%N = Some x2) by by_vm.
  assert (G0 : get_branch (flatten ex_b) 0%N = Some x0) by by_vm.
  assert (H0 : hreach (flatten ex_b) (RBranch 0%N) false None (Some 7%Z)).
  { exact (@hreach_child Z (flatten ex_b) 2%N x2 true None None 0 (RBranch 0%N)
             (hreach_root (flatten ex_b)) G2 eq_refl). }
  exact (@hreach_child Z (flatten ex_b) 0%N x0 false None (Some 7%Z) 1 (RLeaf 1%N) H0 G0 eq_refl).
Qed.

(* keys unsorted *)
Example ex_dmg_leaf_key_unsorted : damaging ex_b (@ELeafKey Z 1 0 1000).
Proof.
  eapply dmg_leaf_key; [by_vm|by_vm|].
  left. cbn [lkeys]. eapply DO_set_kz_order with (j := 1); [reflexivity|reflexivity|].
  right. split; [lia|]. cbn [kz]. lia.
Qed.

(* key outside the interval allowed by the parent's separators (the leaf stays sorted) *)
Example ex_dmg_leaf_key_interval : damaging ex_b (@ELeafKey Z 1 1 100).
Proof.
  eapply dmg_leaf_key; [by_vm|by_vm|].
  right. exists false, (Some 3%Z), (Some 5%Z). split; [exact ex_reach_leaf1|].
  cbn [lkeys]. eapply DO_set_kz_bounds; [reflexivity|]. cbn [lo_ok hi_ok]. lia.
Qed.

(* duplicated keys *)
Example ex_dmg_leaf_key_copy : damaging ex_b (@ELeafKeyCopy Z 1 0 1).
Proof. eapply dmg_leaf_key_copy; [by_vm|by_vm|lia|cbn; lia|cbn; lia]. Qed.

Example ex_dmg_leaf_last_key : damaging ex_b (@ELeafLastKey Z 8 17).
Proof.
  eapply dmg_leaf_last_key; [by_vm|by_vm|].
  left. cbn [lkeys length Nat.sub]. eapply DO_set_kz_order with (j := 0); [reflexivity|reflexivity|].
  left. split; [lia|]. cbn [kz]. lia.
Qed.

(* key and value counts differ *)
Example ex_dmg_leaf_pop_val : damaging ex_b (@ELeafPopVal Z 0).
Proof. eapply dmg_leaf_pop_val; [by_vm|by_vm|cbn; discriminate]. Qed.

Example ex_dmg_leaf_pop_key : damaging ex_b (@ELeafPopKey Z 4).
Proof. eapply dmg_leaf_pop_key; [by_vm|by_vm|cbn; discriminate]. Qed.

Example ex_dmg_leaf_push_key : damaging ex_b (@ELeafPushKey Z 0 (mkKey 100 0%N)).
Proof. eapply dmg_leaf_push_key. by_vm. Qed.

Example ex_dmg_leaf_push_val : damaging ex_b (@ELeafPushVal Z 0 100%Z).
Proof. eapply dmg_leaf_push_val. by_vm. Qed.

(* above capacity: leaf 8 already holds cap = 4 keys *)
Example ex_dmg_leaf_push_full : damaging ex_b (@ELeafPush Z 8 (mkKey 21 0%N) 21%Z).
Proof. eapply dmg_leaf_push; [by_vm|by_vm|]. left. cbn. lia. Qed.

(* pushed key breaks the order *)
Example ex_dmg_leaf_push_order : damaging ex_b (@ELeafPush Z 0 (mkKey 2 0%N) 2%Z).
Proof.
  eapply dmg_leaf_push; [by_vm|by_vm|]. right. left. eexists. split; [by_vm|]. cbn [kz]. lia.
Qed.

(* non-root leaf below minimum occupancy *)
Example ex_dmg_leaf_trunc : damaging ex_b (@ELeafTrunc Z 1 1).
Proof. eapply dmg_leaf_trunc; [by_vm|by_vm|cbn; discriminate|cbn; lia]. Qed.

(* branches: unsorted, duplicated, below minimum, child count, above capacity *)
Example ex_dmg_branch_key : damaging ex_b (@EBranchKey Z 1 0 1000).
Proof.
  eapply dmg_branch_key; [by_vm|by_vm|].
  cbn [bkeys]. eapply DO_set_kz_order with (j := 1); [reflexivity|reflexivity|].
  right. split; [lia|]. cbn [kz]. lia.
Qed.

Example ex_dmg_branch_key_copy : damaging ex_b (@EBranchKeyCopy Z 0 0 1).
Proof. eapply dmg_branch_key_copy; [by_vm|by_vm|lia|cbn; lia|cbn; lia]. Qed.

Example ex_dmg_branch_trunc : damaging ex_b (@EBranchTrunc Z 1 1).
Proof. eapply dmg_branch_trunc; [by_vm|by_vm|cbn; discriminate|cbn; lia]. Qed.

Example ex_dmg_branch_pop_child : damaging ex_b (@EBranchPopChild Z 0).
Proof. eapply dmg_branch_pop_child. by_vm. Qed.

Example ex_dmg_branch_dup_child : damaging ex_b (@EBranchDupChild Z 2).
Proof. eapply dmg_branch_dup_child. by_vm. Qed.

Example ex_dmg_branch_push : damaging ex_b (@EBranchPush Z 1 (mkKey 4 0%N)).
Proof.
  eapply dmg_branch_push; [by_vm|by_vm|]. right. eexists. split; [by_vm|]. cbn [kz]. lia.
Qed.

(* references to nodes that are not allocated *)
Example ex_dmg_branch_ref_leaf : damaging ex_b (@EBranchRef Z 1 0 77%N).
Proof. eapply dmg_branch_ref; [by_vm|by_vm|by_vm|by_vm]. Qed.

Example ex_dmg_branch_ref_branch : damaging ex_b (@EBranchRef Z 0 1 77%N).
Proof. eapply dmg_branch_ref; [by_vm|by_vm|by_vm|by_vm]. Qed.

Example ex_dmg_root_leaf : damaging ex_b (@ERoot Z true 99%N).
Proof. apply dmg_root. by_vm. Qed.

Example ex_dmg_root_branch : damaging ex_b (@ERoot Z false NULL).
Proof. apply dmg_root. by_vm. Qed.

Example ex_dmg_free_leaf : damaging ex_b (@EFreeLeaf Z 2).
Proof. eapply dmg_free_leaf. by_vm. Qed.

Example ex_dmg_free_branch : damaging ex_b (@EFreeBranch Z 1).
Proof. eapply dmg_free_branch. by_vm. Qed.

(* hence, by the theorem (not by computation), each of them is rejected *)
Example ex_theorem_applies :
  rejected (apply_edit (flatten ex_b) (@ELeafKey Z 1 1 100)) /\
  rejected (apply_edit (flatten ex_b) (@EBranchRef Z 0 1 77%N)) /\
  rejected (apply_edit (flatten ex_b) (@EFreeBranch Z 1)).
Proof.
  destruct ex_b_valid as [I R].
  split; [|split]; apply damage_operators_rejected_full; try assumption.
  - exact ex_dmg_leaf_key_interval.
  - exact ex_dmg_branch_ref_branch.
  - exact ex_dmg_free_branch.
Qed.

(* orphans: rejected by the detailed validator, by theorem *)
Example ex_orphans_rejected :
  check_invariants_detailed (apply_edit (flatten ex_b) (@EOrphanLeaf Z)) <> Ok None /\
  check_invariants_detailed (apply_edit (flatten ex_b) (@EOrphanBranch Z)) <> Ok None.
Proof.
  destruct ex_b_valid as [I R].
  split; [apply edit_EOrphanLeaf_rejected|apply edit_EOrphanBranch_rejected]; assumption.
Qed.

(* and the transcribed validators, run on the edited heaps, agree *)
Example ex_computed :
  map (fun e => check_invariants (apply_edit (flatten ex_b) e))
    [@ELeafKey Z 1 1 100; @ELeafKeyCopy Z 1 0 1; @ELeafPush Z 8 (mkKey 21 0%N) 21%Z;
     @EBranchTrunc Z 1 1; @EBranchRef Z 0 1 77%N; @ERoot Z false NULL; @EFreeBranch Z 1]
  = repeat (Ok false) 7.
Proof. vm_compute. reflexivity. Qed.

End DamageOpsExamples.

Print Assumptions leaf_damage.
Print Assumptions branch_damage.
Print Assumptions branch_damage_weak.
Print Assumptions dangling_ref_damage.
Print Assumptions dangling_child_damage.
Print Assumptions dangling_root_damage.
Print Assumptions damage_operators_rejected_full.
Print Assumptions damage_operators_rejected.
Print Assumptions damage_operators_refused.
Print Assumptions edit_EOrphanLeaf_rejected.
Print Assumptions edit_EOrphanBranch_rejected.
Print Assumptions DamageOpsExamples.ex_theorem_applies.
