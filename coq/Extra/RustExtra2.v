(* Extra theorems from the spec audit (Rust model), part 2: new proofs. *)
From Coq Require Import List Arith ZArith NArith Lia Bool Permutation.
From BPT Require Import Common.Base Rust.Arena Rust.ArenaSpec Rust.ArenaProofs Common.AMap Rust.Tree Rust.Heap Rust.Readers Rust.Run
     Rust.InvDefs Rust.Repr Rust.Spec Rust.Lib Rust.ReachDefs Rust.ReachStep Rust.Reach Rust.ValidDefs Rust.Damage
     Rust.HeapOps Rust.HeapOpsSim Rust.NoUB Rust.Walk Rust.ValidAccept Rust.ValidSound Rust.MiscProofs
     Rust.Bridge Rust.ChainExact Rust.TreeFactsR Rust.ReadersGet Rust.ReadersRange Props.Reachable Extra.RustExtra.
Import ListNotations.

(* ------------------------------------------------------------------ *)
(* B5: no output of a reachable history reports an integrity error     *)
(* ------------------------------------------------------------------ *)
Definition out_fine {V} (x : out V) : Prop :=
  match x with
  | URes _ (Some (DataIntegrity _)) | UResOpt _ (Some (DataIntegrity _))
  | UResList _ (Some (DataIntegrity _)) | UResOptList _ (Some (DataIntegrity _)) => False
  | UValidate ci cid vfo => ci = true /\ cid = None /\ vfo = None
  | _ => True
  end.

Lemma spec_step_out_fine : forall (V : Type) (m : amap V) (o : op V), out_fine (snd (spec_step m o)).
Proof.
  intros V m o. destruct o; cbn [spec_step snd out_fine]; auto.
  - destruct (m_get m z); cbn; auto.
  - destruct (m_get m z); cbn; auto.
  - destruct (spec_get_many m zs); cbn; auto.
  - destruct (m_get m z); cbn; auto.
  - destruct (m_get m z); cbn; auto.
  - destruct (spec_batch m items); cbn; auto.
Qed.

Lemma lift_out_fine : forall (V A : Type) (r : res A) (f : A -> out V),
  (forall a, out_fine (f a)) -> out_fine (lift r f).
Proof. intros V A r f H. destruct r; cbn [lift out_fine]; auto. Qed.

Lemma step_out_fine : forall (V : Type) n (b : bstate V) (o : op V),
  Good n b -> fits (n + op_weight o) -> out_fine (snd (step b o)).
Proof.
  intros V n b o G F.
  destruct (abstract_op o) eqn:A.
  - pose proof (step_refines o G F A) as S.
    pose proof (@spec_step_out_fine V (contents (root b)) o) as H. rewrite S in H. exact H.
  - destruct o; try discriminate A; unfold step; cbn [snd]; apply lift_out_fine.
    + intros a; exact I.
    + intros [[lc cn] ls]; exact I.
Qed.

Lemma run_out_fine : forall (V : Type) (ops : list (op V)) n (b : bstate V),
  Good n b -> fits (n + ops_weight ops) -> forall x, In x (snd (run b ops)) -> out_fine x.
Proof.
  intros V. induction ops as [|o ops IH]; intros n b G F x Hx.
  - cbn in Hx. contradiction.
  - rewrite Reach.ops_weight_cons, Nat.add_assoc in F.
    assert (F1 : fits (n + op_weight o)) by (eapply fits_mono; [exact F|lia]).
    destruct (step_good o G F1) as (G1 & _ & _).
    destruct (run_cons b o ops) as [_ R2]. rewrite R2 in Hx. destruct Hx as [<-|Hx].
    + eapply step_out_fine; eassumption.
    + eapply IH; eassumption.
Qed.

Theorem outputs_never_integrity : forall (V:Type) c (ops:list (op V)), 4 <= c -> fits (ops_weight ops) ->
  exists b0, b_new V c = Some b0 /\ forall x, In x (snd (run b0 ops)) ->
    match x with
    | URes _ (Some (DataIntegrity _)) | UResOpt _ (Some (DataIntegrity _))
    | UResList _ (Some (DataIntegrity _)) | UResOptList _ (Some (DataIntegrity _)) => False
    | UValidate ci cid vfo => ci = true /\ cid = None /\ vfo = None
    | _ => True end.
Proof.
  intros V c ops Hc F. destruct (@new_good V c Hc) as (b0 & E & G & _).
  exists b0. split; [exact E|]. intros x Hx.
  exact (@run_out_fine V ops 0 b0 G F x Hx).
Qed.

(* ------------------------------------------------------------------ *)
(* B6: contents agree for histories with non-abstract read-only ops    *)
(* ------------------------------------------------------------------ *)
Lemma nonabstract_step_same : forall (V : Type) (b : bstate V) (o : op V),
  abstract_op o = false -> fst (step b o) = b /\ forall m, fst (spec_step m o) = m.
Proof. intros V b o A. destruct o; try discriminate A; split; reflexivity. Qed.

Lemma run_contents_all : forall (V : Type) (ops : list (op V)) n (b : bstate V),
  Good n b -> fits (n + ops_weight ops) ->
  fst (spec_run (contents (root b)) ops) = contents (root (fst (run b ops))) /\
  forall i o, nth_error ops i = Some o -> abstract_op o = true ->
    nth_error (snd (run b ops)) i = nth_error (snd (spec_run (contents (root b)) ops)) i.
Proof.
  intros V. induction ops as [|o ops IH]; intros n b G F.
  - split; [reflexivity|]. intros i o H. destruct i; discriminate H.
  - rewrite Reach.ops_weight_cons, Nat.add_assoc in F.
    assert (F1 : fits (n + op_weight o)) by (eapply fits_mono; [exact F|lia]).
    destruct (step_good o G F1) as (G1 & _ & _).
    destruct (IH _ _ G1 F) as [C1 N1].
    destruct (run_cons b o ops) as [R1 R2]. rewrite R1, R2, spec_run_cons. cbn [fst snd].
    assert (EQ : fst (spec_step (contents (root b)) o) = contents (root (fst (step b o)))).
    { destruct (abstract_op o) eqn:A.
      - rewrite (step_refines o G F1 A). reflexivity.
      - destruct (@nonabstract_step_same V b o A) as [S1 S2]. rewrite S1, S2. reflexivity. }
    rewrite EQ. split; [exact C1|].
    intros i o' Hi A. destruct i as [|i]; cbn [nth_error] in *.
    + inversion Hi; subst o'. rewrite (step_refines o G F1 A). reflexivity.
    + exact (N1 i o' Hi A).
Qed.

Theorem contents_agree_all_ops : forall (V : Type) (c : nat) (ops : list (op V)), 4 <= c -> fits (ops_weight ops) ->
  exists b0, b_new V c = Some b0 /\
    fst (spec_run [] ops) = contents (root (fst (run b0 ops))) /\
    forall i o, nth_error ops i = Some o -> abstract_op o = true ->
      nth_error (snd (run b0 ops)) i = nth_error (snd (spec_run [] ops)) i.
Proof.
  intros V c ops Hc F. destruct (@new_good V c Hc) as (b0 & E & G & _ & C).
  exists b0. split; [exact E|]. rewrite <- C. exact (@run_contents_all V ops 0 b0 G F).
Qed.


(* ------------------------------------------------------------------ *)
(* B2: the detailed validator never panics and never hits UB           *)
(* ------------------------------------------------------------------ *)
Definition np {A} (r : res A) : Prop := forall site, r <> Panic site.

Lemma np_ok : forall A (a : A), np (Ok a).
Proof. intros A a s; discriminate. Qed.
Lemma np_fuel : forall A, np (@OutOfFuel A).
Proof. intros A s; discriminate. Qed.
Lemma np_ub : forall A s, np (@UB A s).
Proof. intros A s s'; discriminate. Qed.
Lemma np_bind : forall A B (r : res A) (f : A -> res B),
  np r -> (forall a, np (f a)) -> np (bind r f).
Proof.
  intros A B r f Hr Hf. destruct r as [a|s| |s]; cbn [bind].
  - apply Hf.
  - exfalso. exact (Hr s eq_refl).
  - apply np_fuel.
  - apply np_ub.
Qed.

Lemma fold_np : forall A B (g : res A -> res B -> res A),
  (forall acc r, np acc -> np r -> np (g acc r)) ->
  forall l acc, np acc -> (forall r, In r l -> np r) -> np (fold_left g l acc).
Proof.
  intros A B g Hg l. induction l as [|x l IH]; intros acc Hacc Hl; cbn [fold_left].
  - exact Hacc.
  - apply IH.
    + apply Hg; [exact Hacc | apply Hl; left; reflexivity].
    + intros r Hr. apply Hl. right. exact Hr.
Qed.

Lemma in_map_np : forall X A (g : X -> res A) (l : list X),
  (forall x, np (g x)) -> forall r, In r (map g l) -> np r.
Proof.
  intros X A g l Hg r Hin. apply in_map_iff in Hin. destruct Hin as [x [Hx _]].
  subst r. apply Hg.
Qed.

Create HintDb np.
#[export] Hint Resolve np_ok np_fuel np_ub : np.

Ltac np_step :=
  first
    [ apply np_ok | apply np_fuel | apply np_ub
    | assumption
    | progress cbv beta zeta
    | match goal with
      | |- np (bind _ _) => apply np_bind; [ | intros ]
      end
    | solve [auto with np]
    | match goal with
      | |- np (match ?x with _ => _ end) => destruct x
      end ].
Ltac npt := repeat np_step.

Lemma sum_res_map_np : forall X (g : X -> res nat) l,
  (forall x, np (g x)) -> np (sum_res (map g l)).
Proof.
  intros X g l Hg. unfold sum_res. apply fold_np.
  - intros acc r Ha Hr. npt.
  - apply np_ok.
  - apply in_map_np. exact Hg.
Qed.
Lemma pair_sum_map_np : forall X (g : X -> res (nat * nat)) l init,
  (forall x, np (g x)) -> np (pair_sum (map g l) init).
Proof.
  intros X g l init Hg. unfold pair_sum. apply fold_np.
  - intros acc r Ha Hr. npt.
  - apply np_ok.
  - apply in_map_np. exact Hg.
Qed.
Lemma concat_res_map_np : forall X A (g : X -> res (list A)) l,
  (forall x, np (g x)) -> np (concat_res (map g l)).
Proof.
  intros X A g l Hg. unfold concat_res. apply fold_np.
  - intros acc r Ha Hr. npt.
  - apply np_ok.
  - apply in_map_np. exact Hg.
Qed.
#[export] Hint Resolve sum_res_map_np pair_sum_map_np concat_res_map_np : np.

Section NP.
Variable V : Type.

Lemma h_first_np : forall fuel (h : heap V) r, np (h_first fuel h r).
Proof. induction fuel as [|f IH]; intros h r; cbn [h_first]; npt. Qed.
Hint Resolve h_first_np : np.
Lemma get_first_leaf_id_np : forall (h : heap V), np (get_first_leaf_id h).
Proof. intros h. unfold get_first_leaf_id. npt. Qed.
Hint Resolve get_first_leaf_id_np : np.
Lemma h_len_np : forall fuel (h : heap V) r, np (h_len fuel h r).
Proof. induction fuel as [|f IH]; intros h r; cbn [h_len]; npt. Qed.
Hint Resolve h_len_np : np.
Lemma len_np : forall (h : heap V), np (len h).
Proof. intros h. unfold len. npt. Qed.
Hint Resolve len_np : np.
Lemma h_count_nodes_np : forall fuel (h : heap V) r, np (h_count_nodes fuel h r).
Proof. induction fuel as [|f IH]; intros h r; cbn [h_count_nodes]; npt. Qed.
Hint Resolve h_count_nodes_np : np.
Lemma count_nodes_in_tree_np : forall (h : heap V), np (count_nodes_in_tree h).
Proof. intros h. unfold count_nodes_in_tree. npt. Qed.
Hint Resolve count_nodes_in_tree_np : np.
Lemma h_leaf_ids_np : forall fuel (h : heap V) r, np (h_leaf_ids fuel h r).
Proof. induction fuel as [|f IH]; intros h r; cbn [h_leaf_ids]; npt. Qed.
Hint Resolve h_leaf_ids_np : np.
Lemma collect_leaf_ids_np : forall (h : heap V), np (collect_leaf_ids h).
Proof. intros h. unfold collect_leaf_ids. npt. Qed.
Hint Resolve collect_leaf_ids_np : np.
Lemma try_get_np : forall (s : iter V) (l : leaf V), np (try_get s l).
Proof. intros s l. unfold try_get. npt. Qed.
Hint Resolve try_get_np : np.
Lemma item_next_f_np : forall fuel (h : heap V) s, np (item_next_f fuel h s).
Proof. induction fuel as [|f IH]; intros h s; cbn [item_next_f]; npt. Qed.
Hint Resolve item_next_f_np : np.
Lemma item_next_np : forall (h : heap V) s, np (item_next h s).
Proof. intros h s. unfold item_next. npt. Qed.
Hint Resolve item_next_np : np.
Lemma item_new_np : forall (h : heap V), np (item_new h).
Proof. intros h. unfold item_new. npt. Qed.
Hint Resolve item_new_np : np.
Lemma collect_f_np : forall S' (next : S' -> res (S' * option (key * V))) fuel s,
  (forall s, np (next s)) -> np (collect_f next fuel s).
Proof.
  intros S' next fuel. induction fuel as [|f IH]; intros s Hn; cbn [collect_f]; npt.
Qed.
Lemma items_np : forall (h : heap V), np (items h).
Proof. intros h. unfold items. npt. apply collect_f_np. intros; npt. Qed.
Hint Resolve items_np : np.
Lemma keys_np : forall (h : heap V), np (keys h).
Proof. intros h. unfold keys. npt. Qed.
Hint Resolve keys_np : np.
Lemma chain_ids_np : forall fuel (h : heap V) cur, np (chain_ids fuel h cur).
Proof. induction fuel as [|f IH]; intros h cur; cbn [chain_ids]; npt. Qed.
Hint Resolve chain_ids_np : np.
Lemma check_invariants_np : forall (h : heap V), np (check_invariants h).
Proof.
  intros h s E. destruct (@check_total V h) as [[r E']|E']; rewrite E' in E; discriminate.
Qed.
Hint Resolve check_invariants_np : np.
Lemma check_invariants_detailed_np : forall (h : heap V), np (check_invariants_detailed h).
Proof. intros h. unfold check_invariants_detailed. npt. Qed.
End NP.

Theorem detailed_total : forall (V:Type) (h:heap V),
  (exists r, check_invariants_detailed h = Ok r) \/ check_invariants_detailed h = OutOfFuel.
Proof.
  intros V h. pose proof (@check_invariants_detailed_np V h) as P.
  pose proof (@check_invariants_detailed_no_ub V h) as U.
  destruct (check_invariants_detailed h) as [r|s| |s].
  - left. eexists. reflexivity.
  - exfalso. exact (P s eq_refl).
  - right. reflexivity.
  - exfalso. exact (U s eq_refl).
Qed.


(* ------------------------------------------------------------------ *)
(* B3: chain damage is refused by try_insert / try_remove              *)
(* ------------------------------------------------------------------ *)
Theorem chain_damage_refused : forall (V:Type) (h:heap V) tids fid cids k v z,
  collect_leaf_ids h = Ok tids -> get_first_leaf_id h = Ok fid ->
  chain_ids (S (S (length (store (hleaves h))))) h fid = Ok cids ->
  (forall id l, In id tids -> get_leaf h id = Some l -> 2 <= lcap l) ->
  cids <> tids -> check_invariants_detailed h <> OutOfFuel ->
  exists e, check_invariants_detailed h = Ok (Some e) /\
    hstep h (OTryInsert k v) = Some (UResOpt None (Some (DataIntegrity e))) /\
    hstep h (OTryRemove z) = Some (URes None (Some (DataIntegrity e))).
Proof.
  intros V h tids fid cids k v z Ht Hf Hc Hcap Hne Hfuel.
  pose proof (@ChainExact.chain_damage_rejected V h tids fid cids Ht Hf Hc Hcap Hne) as Hd.
  destruct (@detailed_total V h) as [[r E]|E]; [|contradiction].
  destruct r as [e|]; [|contradiction].
  exists e. split; [exact E|]. apply try_refuse_heap. exact E.
Qed.


(* ------------------------------------------------------------------ *)
(* B7: remove / insert keep every other entry                          *)
(* ------------------------------------------------------------------ *)
Theorem remove_keeps_other_entries : forall (V:Type) (m:AMap.amap V) z, m_sorted m ->
  forall e, In e (m_remove m z) <-> (In e m /\ kz (fst e) <> z).
Proof.
  intros V m z. induction m as [|[k' v'] m IH]; intros Hs e.
  - cbn. tauto.
  - apply Lib_m_sorted_cons_inv in Hs. destruct Hs as [Hs Hall].
    specialize (IH Hs e). cbn [m_remove].
    destruct (Z.eqb_spec (kz k') z) as [He|Hne].
    + split.
      * intros Hin. split; [right; exact Hin|]. specialize (Hall e Hin). lia.
      * intros [[<-|Hin] Hz]; [cbn [fst] in Hz; contradiction|exact Hin].
    + cbn [In]. split.
      * intros [<-|Hin]; [split; [left; reflexivity|exact Hne]|].
        apply IH in Hin. destruct Hin as [Hin Hz]. split; [right; exact Hin|exact Hz].
      * intros [[<-|Hin] Hz]; [left; reflexivity|]. right. apply IH. split; assumption.
Qed.

Theorem insert_keeps_other_entries : forall (V:Type) (m:AMap.amap V) k v, m_sorted m ->
  forall e, kz (fst e) <> kz k -> (In e (m_insert m k v) <-> In e m).
Proof.
  intros V m k v _ e Hne. induction m as [|[k' v'] m IH].
  - cbn. split; [|tauto]. intros [<-|[]]. cbn [fst] in Hne. contradiction.
  - cbn [m_insert]. destruct (Z.ltb (kz k) (kz k')).
    + cbn [In]. split; [|tauto]. intros [<-|H]; [cbn [fst] in Hne; contradiction|exact H].
    + destruct (Z.eqb_spec (kz k) (kz k')) as [He|Hn].
      * cbn [In]. split; (intros [<-|H]; [cbn [fst] in Hne; exfalso; lia|right; exact H]).
      * cbn [In]. rewrite IH. tauto.
Qed.


(* ------------------------------------------------------------------ *)
(* B1: the fast and range iterators are fused                          *)
(* ------------------------------------------------------------------ *)
Lemma fast_next_f_fused : forall (V : Type) (h : heap V) fuel s s',
  fast_next_f fuel h s = Ok (s', None) -> forall f', fast_next_f (S f') h s' = Ok (s', None).
Proof.
  intros V h. induction fuel as [|f IH]; intros s s' H f'; [discriminate|].
  cbn [fast_next_f] in H.
  destruct (f_fin s) eqn:Efin.
  - inversion H; subst s'. cbn [fast_next_f]. rewrite Efin. reflexivity.
  - destruct (f_leaf s) as [l|] eqn:El.
    + destruct (Nat.ltb (f_idx s) (length (lkeys l))) eqn:Elt.
      * destruct (nth_error (lkeys l) (f_idx s)) as [k|] eqn:Ek.
        -- destruct (nth_error (lvals l) (f_idx s)) as [v|] eqn:Ev; [discriminate|].
           inversion H; subst s'. cbn [fast_next_f]. rewrite Efin, El, Elt, Ek, Ev. reflexivity.
        -- inversion H; subst s'. cbn [fast_next_f]. rewrite Efin, El, Elt, Ek. reflexivity.
      * destruct (negb (N.eqb (lnext l) NULL)).
        -- exact (IH _ _ H f').
        -- inversion H; subst s'. reflexivity.
    + inversion H; subst s'. reflexivity.
Qed.

Theorem fast_iterator_fused : forall (V:Type) (h:heap V) s s',
  fast_next h s = Ok (s', None) -> fast_next h s' = Ok (s', None).
Proof.
  intros V h s s' H. unfold fast_next in *. unfold dfuel at 1.
  exact (@fast_next_f_fused V h _ s s' H _).
Qed.

Theorem range_iterator_fused : forall (V:Type) (h:heap V) s s',
  range_next h s = Ok (s', None) -> range_next h s' = Ok (s', None).
Proof.
  intros V h s s' H. unfold range_next in H.
  destruct (r_it s) as [it|] eqn:Eit.
  - destruct (item_next h it) as [[it1 item]| | |] eqn:En; cbn [bind] in H; try discriminate.
    destruct item as [[k v]|].
    + destruct (r_skip s).
      * destruct (r_first s) as [fk|]; [|discriminate].
        destruct (Z.eqb (kz k) (kz fk)); [|discriminate].
        destruct (item_next h it1) as [[it2 item2]| | |] eqn:En2; cbn [bind fst snd] in H; try discriminate.
        inversion H; subst s' item2. clear H.
        apply item_iterator_fused in En2.
        unfold range_next. cbn [r_it r_skip r_first]. rewrite En2. cbn [bind]. reflexivity.
      * discriminate.
    + inversion H; subst s'. clear H. apply item_iterator_fused in En.
      unfold range_next. cbn [r_it r_skip r_first]. rewrite En. cbn [bind]. reflexivity.
  - inversion H; subst s'. unfold range_next. rewrite Eit. reflexivity.
Qed.


(* ------------------------------------------------------------------ *)
(* B8: get_mut finds exactly what get finds                            *)
(* ------------------------------------------------------------------ *)
Lemma upd_false_same : forall (V : Type) fuel (t t' : ptree V) z v,
  upd fuel t z v = Ok (t', false) -> t' = t.
Proof.
  intros V. induction fuel as [|f IH]; intros t t' z v H; [discriminate|].
  destruct t as [id c ks vs nx|id c ks cs]; cbn [upd] in H.
  - destruct (bfound ks z).
    + destruct (Nat.ltb (lb ks z) (length vs)); inversion H; reflexivity.
    + inversion H; reflexivity.
  - destruct (nth_error cs (child_index ks z)) as [ch|] eqn:Ech.
    + destruct (upd f ch z v) as [[ch' ok]| | |] eqn:Eu; cbn [bind fst snd] in H; try discriminate.
      inversion H; subst ok. apply IH in Eu. subst ch'.
      rewrite (TreeFactsR.set_nth_same _ _ Ech). reflexivity.
    + inversion H; reflexivity.
Qed.

Theorem get_mut_finds_what_get_finds : forall (V:Type) n (b:bstate V) z v, Good n b -> fits (n + 1) ->
  exists b' ok, b_get_mut_write b z v = Ok (b', ok) /\
    h_get (flatten b) z = Ok (if ok then m_get (contents (root b)) z else None) /\
    (ok = false -> b' = b).
Proof.
  intros V n b z v G F.
  pose proof (Good_inv G) as I.
  pose proof (Good_heap _ G F) as HO.
  destruct (get_mut_write_inv z v I) as (b' & E & _).
  exists b', (match m_get (contents (root b)) z with Some _ => true | None => false end).
  split; [exact E|]. split.
  - rewrite (ReadersGet.h_get_spec z I HO). destruct (m_get (contents (root b)) z); reflexivity.
  - intros Hok. rewrite Hok in E. unfold b_get_mut_write in E.
    destruct (upd (S (height (root b))) (root b) z v) as [[t' ok]| | |] eqn:Eu; cbn [bind fst snd] in E;
      try discriminate.
    inversion E; subst ok. apply upd_false_same in Eu. subst t'. destruct b; reflexivity.
Qed.


(* ------------------------------------------------------------------ *)
(* B11: len counts the live handles                                    *)
(* ------------------------------------------------------------------ *)
Definition gtrue (o : option bool) : bool := match o with Some true => true | _ => false end.

Lemma count_true_filter_seq : forall (mk : list bool),
  count_true mk = length (filter (fun i => gtrue (nth_error mk i)) (seq 0 (length mk))).
Proof.
  intros mk. rewrite (ArenaProofs.filter_seq_length gtrue mk). unfold count_true.
  f_equal. apply filter_ext. intros []; reflexivity.
Qed.

Theorem len_counts_live : forall (T:Type) (a:arena T), ArenaInv a -> small a ->
  a_len a = length (filter (fun i => match a_get a (N.of_nat i) with Some _ => true | None => false end) (seq 0 (length (store a)))) /\
  a_free_count a = length (store a) - a_len a.
Proof.
  intros T a AI Sm. split.
  - destruct AI as (Hlen & _ & _). unfold a_len. rewrite count_true_filter_seq, <- Hlen.
    f_equal. apply filter_ext_in. intros i Hi. apply in_seq in Hi.
    destruct (ArenaProofs.of_nat_not_null (length (store a)) i Sm) as [Hnn _]; [lia|].
    rewrite ArenaProofs.a_get_eq. apply N.eqb_neq in Hnn. rewrite Hnn. rewrite Nat2N.id.
    unfold mask_at. destruct (nth_error (mask a) i) as [[]|]; cbn [gtrue]; try reflexivity.
    destruct (nth_error (store a) i) eqn:E; [reflexivity|]. apply nth_error_None in E. lia.
  - pose proof (@ArenaProofs.counts_spec T a AI) as H. lia.
Qed.


(* ------------------------------------------------------------------ *)
(* B4: orphans (allocated nodes not in the tree) are rejected          *)
(* ------------------------------------------------------------------ *)
Set Implicit Arguments.
Section ListAux.
Variables A B : Type.

Lemma NoDup_app_intro : forall (l1 l2 : list A),
  NoDup l1 -> NoDup l2 -> (forall x, In x l1 -> ~ In x l2) -> NoDup (l1 ++ l2).
Proof.
  induction l1 as [|a l1 IH]; intros l2 H1 H2 Hd; [exact H2|].
  cbn [app]. inversion H1 as [|a' l' Hn H1']; subst. constructor.
  - intros Hin. apply in_app_or in Hin. destruct Hin as [Hin|Hin]; [contradiction|].
    apply (Hd a); [left; reflexivity|exact Hin].
  - apply IH; auto. intros x Hx. apply Hd. right. exact Hx.
Qed.

Lemma NoDup_app_elim : forall (l1 l2 : list A), NoDup (l1 ++ l2) ->
  NoDup l1 /\ NoDup l2 /\ (forall x, In x l1 -> ~ In x l2).
Proof.
  induction l1 as [|a l1 IH]; intros l2 H.
  - cbn [app] in H. split; [constructor|]. split; [exact H|]. intros x [].
  - cbn [app] in H. inversion H as [|a' l' Hn H']; subst.
    destruct (IH l2 H') as (N1 & N2 & D). split; [|split; [exact N2|]].
    + constructor; [|exact N1]. intros Hin. apply Hn. apply in_or_app. left. exact Hin.
    + intros x [<-|Hx] Hx2; [apply Hn; apply in_or_app; right; exact Hx2|exact (D x Hx Hx2)].
Qed.

Lemma NoDup_concat_intro : forall (ls : list (list A)),
  (forall l, In l ls -> NoDup l) ->
  (forall i j a b x, i < j -> nth_error ls i = Some a -> nth_error ls j = Some b ->
     In x a -> In x b -> False) ->
  NoDup (concat ls).
Proof.
  induction ls as [|l ls IH]; intros Hn Hd; [constructor|].
  cbn [concat]. apply NoDup_app_intro.
  - apply Hn. left. reflexivity.
  - apply IH.
    + intros l' Hl'. apply Hn. right. exact Hl'.
    + intros i j a b x Hij Hi Hj. apply (Hd (S i) (S j) a b x); [lia|exact Hi|exact Hj].
  - intros x Hx Hc. apply in_concat in Hc. destruct Hc as (b & Hb & Hxb).
    apply In_nth_error in Hb. destruct Hb as (j & Hj).
    apply (Hd 0 (S j) l b x); [lia|reflexivity|exact Hj|exact Hx|exact Hxb].
Qed.

Lemma NoDup_concat_elim1 : forall (ls : list (list A)) l, NoDup (concat ls) -> In l ls -> NoDup l.
Proof.
  induction ls as [|l0 ls IH]; intros l H Hin; [destruct Hin|].
  cbn [concat] in H. apply NoDup_app_elim in H. destruct H as (N1 & N2 & _).
  destruct Hin as [<-|Hin]; [exact N1|exact (IH l N2 Hin)].
Qed.

Lemma NoDup_concat_elim_lt : forall (ls : list (list A)) i j a b x, NoDup (concat ls) ->
  i < j -> nth_error ls i = Some a -> nth_error ls j = Some b -> In x a -> In x b -> False.
Proof.
  induction ls as [|l0 ls IH]; intros i j a b x H Hij Hi Hj Ha Hb; [destruct i; discriminate|].
  cbn [concat] in H. apply NoDup_app_elim in H. destruct H as (N1 & N2 & D).
  destruct j as [|j]; [lia|]. cbn [nth_error] in Hj.
  destruct i as [|i]; cbn [nth_error] in Hi.
  - inversion Hi; subst a. apply (D x Ha). apply in_concat. exists b. split; [|exact Hb].
    eapply nth_error_In; exact Hj.
  - apply (IH i j a b x N2); auto; lia.
Qed.

Lemma NoDup_concat_elim2 : forall (ls : list (list A)) i j a b x, NoDup (concat ls) ->
  i <> j -> nth_error ls i = Some a -> nth_error ls j = Some b -> In x a -> In x b -> False.
Proof.
  intros ls i j a b x H Hij Hi Hj Ha Hb.
  destruct (Nat.lt_ge_cases i j) as [L|L].
  - exact (@NoDup_concat_elim_lt ls i j a b x H L Hi Hj Ha Hb).
  - assert (L' : j < i) by lia. exact (@NoDup_concat_elim_lt ls j i b a x H L' Hj Hi Hb Ha).
Qed.

Lemma length_in_concat : forall (ls : list (list A)) l, In l ls -> length l <= length (concat ls).
Proof.
  induction ls as [|l0 ls IH]; intros l Hin; [destruct Hin|].
  cbn [concat]. rewrite app_length. destruct Hin as [<-|Hin]; [lia|].
  specialize (IH l Hin). lia.
Qed.

Lemma NoDup_map_injective : forall (f : A -> B) l, (forall x y, f x = f y -> x = y) ->
  NoDup l -> NoDup (map f l).
Proof.
  intros f l Hf. induction l as [|a l IH]; intros H; [constructor|].
  inversion H as [|a' l' Hn H']; subst. cbn [map]. constructor; [|exact (IH H')].
  intros Hin. apply in_map_iff in Hin. destruct Hin as (y & Hy & Hin).
  apply Hf in Hy. subst y. contradiction.
Qed.
End ListAux.

(* two families of results computed from the same list of children *)
Lemma res_parts_rel : forall (X P1 P2 : Type) (R : P1 -> P2 -> Prop)
    (g1 : X -> res P1) (g2 : X -> res P2) cs p1 p2,
  map g1 cs = map (@Ok _) p1 -> map g2 cs = map (@Ok _) p2 ->
  (forall c a b, In c cs -> g1 c = Ok a -> g2 c = Ok b -> R a b) ->
  Forall2 R p1 p2.
Proof.
  intros X P1 P2 R g1 g2. induction cs as [|c cs IH]; intros p1 p2 H1 H2 HR.
  - destruct p1; [|discriminate]. destruct p2; [|discriminate]. constructor.
  - destruct p1 as [|a p1]; [discriminate|]. destruct p2 as [|b p2]; [discriminate|].
    cbn [map] in H1, H2. inversion H1. inversion H2. constructor.
    + apply (HR c); [left; reflexivity|assumption|assumption].
    + apply IH; auto. intros c' a' b' Hin. apply HR. right. exact Hin.
Qed.

Lemma Forall2_eq_eq : forall (A : Type) (l1 l2 : list A), Forall2 eq l1 l2 -> l1 = l2.
Proof. intros A l1 l2 H. induction H; [reflexivity|]. subst. reflexivity. Qed.

Lemma map_ok_nth_fwd : forall (A B : Type) (g : A -> res B) cs parts i c,
  map g cs = map (@Ok _) parts -> nth_error cs i = Some c ->
  exists p, nth_error parts i = Some p /\ g c = Ok p.
Proof.
  intros A B g cs parts i c E Hc.
  assert (H : nth_error (map (@Ok _) parts) i = Some (g c)).
  { rewrite <- E. rewrite nth_error_map, Hc. reflexivity. }
  rewrite nth_error_map in H. destruct (nth_error parts i) as [p|]; [|discriminate].
  cbn in H. inversion H. exists p. auto.
Qed.

Lemma pair_sum_inv : forall (l : list (res (nat * nat))) init r,
  pair_sum l init = Ok r ->
  exists parts, l = map (@Ok _) parts /\
    fst r = fst init + list_sum (map fst parts) /\ snd r = snd init + list_sum (map snd parts).
Proof.
  unfold pair_sum. induction l as [|x l IH]; intros init r H; cbn [fold_left] in H.
  - inversion H; subst r. exists []. cbn. split; [reflexivity|]. lia.
  - destruct x as [n| | |]; cbn [bind] in H.
    + apply IH in H. destruct H as (parts & -> & H1 & H2). exists (n :: parts).
      cbn [map fst snd] in *. split; [reflexivity|]. unfold list_sum in *. cbn [fold_right]. lia.
    + exfalso. clear IH. induction l as [|y l IHl]; cbn [fold_left] in H; [discriminate|].
      cbn [bind] in H. exact (IHl H).
    + exfalso. clear IH. induction l as [|y l IHl]; cbn [fold_left] in H; [discriminate|].
      cbn [bind] in H. exact (IHl H).
    + exfalso. clear IH. induction l as [|y l IHl]; cbn [fold_left] in H; [discriminate|].
      cbn [bind] in H. exact (IHl H).
Qed.

Lemma sum_fst_concat : forall (A : Type) (cp : list (nat * nat)) (lp : list (list A)),
  Forall2 (fun n l => fst n = length l) cp lp -> list_sum (map fst cp) = length (concat lp).
Proof.
  intros A cp lp H. induction H as [|n l cp lp Hn _ IH]; [reflexivity|].
  cbn [map concat]. rewrite app_length. unfold list_sum in *. cbn [fold_right]. lia.
Qed.
Lemma sum_snd_concat : forall (A : Type) (cp : list (nat * nat)) (lp : list (list A)),
  Forall2 (fun n l => snd n = length l) cp lp -> list_sum (map snd cp) = length (concat lp).
Proof.
  intros A cp lp H. induction H as [|n l cp lp Hn _ IH]; [reflexivity|].
  cbn [map concat]. rewrite app_length. unfold list_sum in *. cbn [fold_right]. lia.
Qed.

(* at most [a_len] distinct handles are live *)
Lemma contained_le_len : forall (T : Type) (a : arena T) l, NoDup l ->
  (forall id, In id l -> a_contains a id = true) -> length l <= a_len a.
Proof.
  intros T a l Hn Hc. unfold a_len. rewrite count_true_filter_seq.
  rewrite <- (map_length N.to_nat l). apply NoDup_incl_length.
  - apply NoDup_map_injective; [exact N2Nat.inj|exact Hn].
  - intros i Hi. apply in_map_iff in Hi. destruct Hi as (id & <- & Hin).
    specialize (Hc id Hin). rewrite ArenaProofs.contains_spec in Hc.
    destruct (a_get a id) as [x|] eqn:E; [|discriminate].
    apply ArenaProofs.a_get_Some in E. destruct E as (_ & Em & _).
    apply filter_In. split.
    + apply in_seq. assert (N.to_nat id < length (mask a)) by (apply nth_error_Some; congruence). lia.
    + rewrite Em. reflexivity.
Qed.

Lemma orphan_count : forall (T : Type) (a : arena T) l, NoDup l ->
  (forall id, In id l -> a_contains a id = true) -> length l = a_len a ->
  forall id, a_contains a id = true -> In id l.
Proof.
  intros T a l Hn Hc Hl id Hid.
  destruct (in_dec N.eq_dec id l) as [Hin|Hnin]; [exact Hin|exfalso].
  assert (H : length (id :: l) <= a_len a).
  { apply contained_le_len; [constructor; assumption|].
    intros x [<-|Hx]; [exact Hid|exact (Hc x Hx)]. }
  cbn [length] in H. lia.
Qed.

Section Orphans.
Variable V : Type.
Variable h : heap V.

Lemma li_det : forall f1 f2 r a b,
  h_leaf_ids f1 h r = Ok a -> h_leaf_ids f2 h r = Ok b -> a = b.
Proof.
  induction f1 as [|f1 IH]; intros f2 r a b H1 H2; [discriminate|].
  destruct f2 as [|f2]; [discriminate|]. cbn [h_leaf_ids] in H1, H2.
  destruct r as [id|id]; [congruence|].
  destruct (get_branch h id) as [x|]; [|congruence].
  apply CE_concat_res_ok in H1. destruct H1 as (p1 & M1 & ->).
  apply CE_concat_res_ok in H2. destruct H2 as (p2 & M2 & ->).
  f_equal. apply Forall2_eq_eq. eapply res_parts_rel; [exact M1|exact M2|].
  intros c a b _ Ha Hb. exact (IH _ _ _ _ Ha Hb).
Qed.

Lemma bi_inv : forall f id x bids, get_branch h id = Some x ->
  h_branch_ids (S f) h (RBranch id) = Ok bids ->
  exists bparts, map (h_branch_ids f h) (bkids x) = map (@Ok _) bparts /\ bids = id :: concat bparts.
Proof.
  intros f id x bids Hg H. cbn [h_branch_ids] in H. rewrite Hg in H.
  destruct (concat_res (map (h_branch_ids f h) (bkids x))) as [rest| | |] eqn:E; cbn [bind] in H;
    try discriminate.
  inversion H; subst bids. apply CE_concat_res_ok in E. destruct E as (bp & M & ->).
  exists bp. auto.
Qed.

Lemma bi_det : forall f1 f2 r a b,
  h_branch_ids f1 h r = Ok a -> h_branch_ids f2 h r = Ok b -> a = b.
Proof.
  induction f1 as [|f1 IH]; intros f2 r a b H1 H2; [discriminate|].
  destruct f2 as [|f2]; [discriminate|].
  destruct r as [id|id]; [cbn [h_branch_ids] in H1, H2; congruence|].
  destruct (get_branch h id) as [x|] eqn:Hg; [|cbn [h_branch_ids] in H1, H2; rewrite Hg in *; congruence].
  destruct (@bi_inv _ _ _ _ Hg H1) as (p1 & M1 & ->).
  destruct (@bi_inv _ _ _ _ Hg H2) as (p2 & M2 & ->).
  f_equal. f_equal. apply Forall2_eq_eq. eapply res_parts_rel; [exact M1|exact M2|].
  intros c a b _ Ha Hb. exact (IH _ _ _ _ Ha Hb).
Qed.

Definition NE (lids : list N) : Prop :=
  forall id l, In id lids -> get_leaf h id = Some l -> lkeys l <> [].

(* the part of a child in both families *)
Lemma child_parts : forall f (kids : list nref) bparts lparts i bp,
  map (h_branch_ids f h) kids = map (@Ok _) bparts ->
  map (h_leaf_ids f h) kids = map (@Ok _) lparts ->
  nth_error bparts i = Some bp ->
  exists c lp, nth_error kids i = Some c /\ h_branch_ids f h c = Ok bp /\
    nth_error lparts i = Some lp /\ h_leaf_ids f h c = Ok lp.
Proof.
  intros f kids bparts lparts i bp Mb Ml Hi.
  destruct (@CE_map_ok_nth _ _ _ _ _ _ _ Mb Hi) as (c & Hc & Hb).
  destruct (@map_ok_nth_fwd _ _ _ _ _ _ _ Ml Hc) as (lp & Hlp & Hl).
  exists c, lp. auto.
Qed.

Lemma NE_part : forall lparts lp, NE (concat lparts) -> In lp lparts -> NE lp.
Proof.
  intros lparts lp H Hin id l Hid. apply H. apply in_concat. exists lp. auto.
Qed.

(* every branch id listed below a well-formed node is an allocated branch whose own
   (heap-determined) lists of branch and leaf ids are embedded in those of the node *)
Lemma occ : forall fuel r ir lo hi lids bids,
  hwf h ir lo hi r -> h_leaf_ids fuel h r = Ok lids -> h_branch_ids fuel h r = Ok bids ->
  NE lids ->
  forall B, In B bids ->
  exists f' bl ll, h_branch_ids f' h (RBranch B) = Ok bl /\ length bl <= length bids /\
    h_leaf_ids f' h (RBranch B) = Ok ll /\ ll <> [] /\ incl ll lids /\ get_branch h B <> None.
Proof.
  induction fuel as [|f IH]; intros r ir lo hi lids bids Hw Hl Hb Hne B HB; [discriminate|].
  inversion Hw as [ir0 lo0 hi0 id0 l Hg Hlen Hs Hc Hocc Hbd
                  |ir0 lo0 hi0 id0 x Hg Hlen Hs Hc Hocc Hk]; subst.
  - cbn [h_branch_ids] in Hb. inversion Hb; subst bids. destruct HB.
  - destruct (leaf_ids_sorted _ Hw Hl Hne) as (Hck & _ & _).
    destruct (@bi_inv _ _ _ _ Hg Hb) as (bparts & Mb & ->).
    pose proof Hl as Hl0.
    cbn [h_leaf_ids] in Hl. rewrite Hg in Hl. apply CE_concat_res_ok in Hl.
    destruct Hl as (lparts & Ml & ->).
    destruct HB as [<-|HB].
    + exists (S f), (id0 :: concat bparts), (concat lparts).
      split; [exact Hb|]. split; [lia|]. split; [exact Hl0|]. split.
      * intros E. apply Hck. rewrite E. reflexivity.
      * split; [apply incl_refl|]. congruence.
    + apply in_concat in HB. destruct HB as (bp & Hbp & HB).
      pose proof Hbp as Hbp0.
      apply In_nth_error in Hbp. destruct Hbp as (i & Hi).
      destruct (@child_parts _ _ _ _ _ _ Mb Ml Hi) as (c & lp & Hci & Hcb & Hlp & Hcl).
      pose proof (nth_error_In _ _ Hlp) as Hlpin.
      destruct (IH c false _ _ lp bp (Hk i c Hci) Hcl Hcb (@NE_part _ _ Hne Hlpin) B HB)
        as (f' & bl & ll & E1 & E2 & E3 & E4 & E5 & E6).
      exists f', bl, ll. split; [exact E1|]. split.
      * pose proof (@length_in_concat _ _ _ Hbp0). cbn [length]. lia.
      * split; [exact E3|]. split; [exact E4|]. split; [|exact E6].
        intros a Ha. apply in_concat. exists lp. split; [exact Hlpin|exact (E5 a Ha)].
Qed.

Lemma bids_nodup : forall fuel r ir lo hi lids bids,
  hwf h ir lo hi r -> h_leaf_ids fuel h r = Ok lids -> h_branch_ids fuel h r = Ok bids ->
  NE lids -> NoDup lids -> NoDup bids.
Proof.
  induction fuel as [|f IH]; intros r ir lo hi lids bids Hw Hl Hb Hne Hnd; [discriminate|].
  inversion Hw as [ir0 lo0 hi0 id0 l Hg Hlen Hs Hc Hocc Hbd
                  |ir0 lo0 hi0 id0 x Hg Hlen Hs Hc Hocc Hk]; subst.
  - cbn [h_branch_ids] in Hb. inversion Hb; subst bids. constructor.
  - destruct (@bi_inv _ _ _ _ Hg Hb) as (bparts & Mb & ->).
    cbn [h_leaf_ids] in Hl. rewrite Hg in Hl. apply CE_concat_res_ok in Hl.
    destruct Hl as (lparts & Ml & ->).
    constructor.
    + (* the node itself does not occur below itself *)
      intros HB. apply in_concat in HB. destruct HB as (bp & Hbp & HB).
      pose proof Hbp as Hbp0.
      apply In_nth_error in Hbp. destruct Hbp as (i & Hi).
      destruct (@child_parts _ _ _ _ _ _ Mb Ml Hi) as (c & lp & Hci & Hcb & Hlp & Hcl).
      pose proof (nth_error_In _ _ Hlp) as Hlpin.
      destruct (@occ _ _ _ _ _ _ _ (Hk i c Hci) Hcl Hcb (@NE_part _ _ Hne Hlpin) id0 HB)
        as (f' & bl & ll & E1 & E2 & _).
      pose proof (@bi_det _ _ _ _ _ E1 Hb) as ->.
      pose proof (@length_in_concat _ _ _ Hbp0). cbn [length] in E2. lia.
    + apply NoDup_concat_intro.
      * intros bp Hbp. apply In_nth_error in Hbp. destruct Hbp as (i & Hi).
        destruct (@child_parts _ _ _ _ _ _ Mb Ml Hi) as (c & lp & Hci & Hcb & Hlp & Hcl).
        pose proof (nth_error_In _ _ Hlp) as Hlpin.
        apply (IH c false _ _ lp bp (Hk i c Hci) Hcl Hcb (@NE_part _ _ Hne Hlpin)).
        exact (@NoDup_concat_elim1 _ _ _ Hnd Hlpin).
      * intros i j bpi bpj B Hij Hi Hj HBi HBj.
        destruct (@child_parts _ _ _ _ _ _ Mb Ml Hi) as (ci & lpi & Hci & Hcbi & Hlpi & Hcli).
        destruct (@child_parts _ _ _ _ _ _ Mb Ml Hj) as (cj & lpj & Hcj & Hcbj & Hlpj & Hclj).
        pose proof (nth_error_In _ _ Hlpi) as Hini. pose proof (nth_error_In _ _ Hlpj) as Hinj.
        destruct (@occ _ _ _ _ _ _ _ (Hk i ci Hci) Hcli Hcbi (@NE_part _ _ Hne Hini) B HBi)
          as (f1 & bl1 & ll1 & _ & _ & L1 & N1 & I1 & _).
        destruct (@occ _ _ _ _ _ _ _ (Hk j cj Hcj) Hclj Hcbj (@NE_part _ _ Hne Hinj) B HBj)
          as (f2 & bl2 & ll2 & _ & _ & L2 & N2 & I2 & _).
        pose proof (@li_det _ _ _ _ _ L1 L2) as <-.
        destruct ll1 as [|a ll1]; [congruence|].
        apply (@NoDup_concat_elim2 _ lparts i j lpi lpj a Hnd); auto; try lia.
        -- apply I1. left. reflexivity.
        -- apply I2. left. reflexivity.
Qed.

(* strictly ascending concatenation of non-empty blocks: the blocks are distinct *)
Lemma sorted_blocks_nodup : forall ids, (forall id, In id ids -> keysof h id <> []) ->
  sorted_keys (chain_keys h ids) -> NoDup ids.
Proof.
  induction ids as [|a ids IH]; intros Hne Hs; [constructor|].
  unfold chain_keys in Hs. cbn [flat_map] in Hs. apply sorted_keys_app in Hs.
  destruct Hs as (_ & S2 & Hcross). constructor.
  - intros Hin. destruct (keysof h a) as [|k ks] eqn:Ek; [apply (Hne a); [left; reflexivity|exact Ek]|].
    assert (Hk : In k (flat_map (keysof h) ids)).
    { apply in_flat_map. exists a. split; [exact Hin|]. rewrite Ek. left. reflexivity. }
    specialize (Hcross k k (or_introl eq_refl) Hk). lia.
  - apply IH; [|exact S2]. intros id Hid. apply Hne. right. exact Hid.
Qed.

(* the recursive counter agrees with the lengths of the collected id lists *)
Lemma counts_lengths : forall fuel r n lids bids,
  h_count_nodes fuel h r = Ok n -> h_leaf_ids fuel h r = Ok lids -> h_branch_ids fuel h r = Ok bids ->
  fst n = length lids /\ snd n = length bids.
Proof.
  induction fuel as [|f IH]; intros r n lids bids Hn Hl Hb; [discriminate|].
  destruct r as [id|id].
  - cbn [h_count_nodes h_leaf_ids h_branch_ids] in *. inversion Hn; inversion Hl; inversion Hb. auto.
  - destruct (get_branch h id) as [x|] eqn:Hg.
    + destruct (@bi_inv _ _ _ _ Hg Hb) as (bparts & Mb & ->).
      cbn [h_leaf_ids h_count_nodes] in Hl, Hn. rewrite Hg in Hl, Hn.
      apply CE_concat_res_ok in Hl. destruct Hl as (lparts & Ml & ->).
      apply pair_sum_inv in Hn. destruct Hn as (cparts & Mc & F1 & F2). cbn [fst snd] in F1, F2.
      assert (All : forall c, In c (bkids x) -> exists a l b,
                h_count_nodes f h c = Ok a /\ h_leaf_ids f h c = Ok l /\ h_branch_ids f h c = Ok b).
      { intros c Hc. apply In_nth_error in Hc. destruct Hc as (i & Hi).
        destruct (@map_ok_nth_fwd _ _ _ _ _ _ _ Mc Hi) as (a & _ & Ha).
        destruct (@map_ok_nth_fwd _ _ _ _ _ _ _ Ml Hi) as (l & _ & Hl).
        destruct (@map_ok_nth_fwd _ _ _ _ _ _ _ Mb Hi) as (b & _ & Hb').
        exists a, l, b. auto. }
      rewrite F1, F2. cbn [length]. split.
      * cbn [Nat.add]. apply sum_fst_concat. eapply res_parts_rel; [exact Mc|exact Ml|].
        intros c a b Hc Ha Hb'. destruct (All c Hc) as (a' & l' & b' & _ & _ & Ebb).
        exact (proj1 (IH _ _ _ _ Ha Hb' Ebb)).
      * rewrite Nat.add_1_l. f_equal. apply sum_snd_concat. eapply res_parts_rel; [exact Mc|exact Mb|].
        intros c a b Hc Ha Hb'. destruct (All c Hc) as (a' & l' & b' & _ & Ell & _).
        exact (proj2 (IH _ _ _ _ Ha Ell Hb')).
    + cbn [h_count_nodes h_leaf_ids h_branch_ids] in *. rewrite Hg in *.
      inversion Hn; inversion Hl; inversion Hb. auto.
Qed.
End Orphans.
Unset Implicit Arguments.


Lemma a_get_contains : forall (T : Type) (a : arena T) id x, a_get a id = Some x -> a_contains a id = true.
Proof. intros T a id x H. rewrite ArenaProofs.contains_spec, H. reflexivity. Qed.

Lemma a_get_contains' : forall (T : Type) (a : arena T) id, a_get a id <> None -> a_contains a id = true.
Proof.
  intros T a id H. destruct (a_get a id) as [x|] eqn:E; [|congruence].
  exact (a_get_contains T a id x E).
Qed.

Lemma tree_ids_exact : forall (V : Type) (h : heap V) tids bids,
  check_invariants_detailed h = Ok None ->
  collect_leaf_ids h = Ok tids -> collect_branch_ids h = Ok bids ->
  (forall id l, In id tids -> get_leaf h id = Some l -> 2 <= lcap l) ->
  (NoDup tids /\ (forall id, In id tids -> a_contains (hleaves h) id = true) /\
   length tids = a_len (hleaves h)) /\
  (NoDup bids /\ (forall id, In id bids -> a_contains (hbranches h) id = true) /\
   length bids = a_len (hbranches h)).
Proof.
  intros V h tids bids Hd Ht Hb Hcap.
  destruct (detailed_sound h Hd) as (Hw & _ & (nl & nb & Hcnt & Hnl & Hnb) & _).
  unfold collect_leaf_ids in Ht. unfold collect_branch_ids in Hb. unfold count_nodes_in_tree in Hcnt.
  destruct (hroot h) as [rid|rid] eqn:Er.
  - unfold dfuel in Ht, Hb. cbn [h_leaf_ids h_branch_ids] in Ht, Hb.
    inversion Ht; subst tids. inversion Hb; subst bids. inversion Hcnt as [[Hc1 Hc2]].
    inversion Hw as [ir0 lo0 hi0 id0 l Hg Hlen Hs Hc Hocc Hbd|]; subst.
    split; split.
    + constructor; [intros []|constructor].
    + split; [|cbn [length]; lia]. intros id [<-|[]]. exact (a_get_contains _ _ _ _ Hg).
    + constructor.
    + split; [intros id []|cbn [length]; lia].
  - destruct (@counts_lengths V h _ _ _ _ _ Hcnt Ht Hb) as [L1 L2]. cbn [fst snd] in L1, L2.
    pose proof (leaf_ids_alloc _ Hw Ht) as Hal.
    assert (Hne : NE h tids).
    { intros id l Hin G. destruct (Hal id Hin) as (l' & G' & _ & O).
      rewrite G in G'. inversion G'; subst l'.
      assert (Ho : lcap l / 2 <= length (lkeys l)) by (apply O; intros _; eauto).
      pose proof (Hcap id l Hin G) as H2.
      pose proof (Nat.div_mod (lcap l) 2) as Hdm. pose proof (Nat.mod_upper_bound (lcap l) 2) as Hmu.
      destruct (lkeys l); [cbn [length] in Ho; lia|discriminate]. }
    destruct (leaf_ids_sorted _ Hw Ht Hne) as (_ & Hst & _).
    assert (Hnd : NoDup tids).
    { apply (@sorted_blocks_nodup V h); [|exact Hst]. intros id Hin.
      destruct (Hal id Hin) as (l & G & _). unfold keysof. rewrite G. exact (Hne id l Hin G). }
    split; split.
    + exact Hnd.
    + split; [|lia]. intros id Hin. destruct (Hal id Hin) as (l & G & _).
      exact (a_get_contains _ _ _ _ G).
    + exact (@bids_nodup V h _ _ _ _ _ _ _ Hw Ht Hb Hne Hnd).
    + split; [|lia]. intros id Hin.
      destruct (@occ V h _ _ _ _ _ _ _ Hw Ht Hb Hne id Hin) as (_ & _ & _ & _ & _ & _ & _ & _ & G).
      apply a_get_contains'. exact G.
Qed.

Theorem orphan_rejected : forall (V:Type) (h:heap V) tids bids,
  collect_leaf_ids h = Ok tids -> collect_branch_ids h = Ok bids ->
  (forall id l, In id tids -> get_leaf h id = Some l -> 2 <= lcap l) ->
  ((exists id, a_contains (hleaves h) id = true /\ ~ In id tids) \/
   (exists id, a_contains (hbranches h) id = true /\ ~ In id bids)) ->
  check_invariants_detailed h <> Ok None.
Proof.
  intros V h tids bids Ht Hb Hcap Horph Hd.
  destruct (tree_ids_exact V h tids bids Hd Ht Hb Hcap) as [(N1 & C1 & L1) (N2 & C2 & L2)].
  destruct Horph as [(id & Hc & Hn)|(id & Hc & Hn)]; apply Hn.
  - exact (@orphan_count _ _ _ N1 C1 L1 id Hc).
  - exact (@orphan_count _ _ _ N2 C2 L2 id Hc).
Qed.


(* ------------------------------------------------------------------ *)
(* B10: a range iterator advanced n times                              *)
(* ------------------------------------------------------------------ *)
Section TakeCollect.
Variables (V S' : Type).
Variable next : S' -> res (S' * option (key * V)).
Hypothesis fused : forall s s', next s = Ok (s', None) -> next s' = Ok (s', None).

Lemma take_fused : forall n s, next s = Ok (s, None) -> take_n next n s = Ok (s, repeat None n).
Proof.
  induction n as [|n IH]; intros s H; [reflexivity|].
  cbn [take_n]. rewrite H. cbn [bind]. rewrite (IH s H). cbn [bind fst snd repeat]. reflexivity.
Qed.

Lemma take_of_collect : forall fuel s T, collect_f next fuel s = Ok T ->
  forall n, exists s', take_n next n s = Ok (s', map Some (firstn n T) ++ repeat None (n - length T)).
Proof.
  induction fuel as [|f IH]; intros s T H n; [discriminate|].
  destruct n as [|n]; [exists s; reflexivity|].
  cbn [collect_f] in H. cbn [take_n].
  destruct (next s) as [[s1 item]| | |] eqn:En; cbn [bind snd fst] in H; try discriminate.
  cbn [bind]. destruct item as [kv|].
  - destruct (collect_f next f s1) as [rest| | |] eqn:Ec; cbn [bind] in H; try discriminate.
    inversion H; subst T. destruct (IH s1 rest Ec n) as (s' & E). rewrite E.
    cbn [bind fst snd]. exists s'. reflexivity.
  - inversion H; subst T. rewrite (take_fused n s1 (fused _ _ En)). cbn [bind fst snd].
    exists s1. cbn [firstn map app length]. rewrite Nat.sub_0_r. reflexivity.
Qed.
End TakeCollect.

Theorem range_partial_and_exhausted : forall (V : Type) (c : nat) (ops : list (op V)) (lo hi : bound) (n : nat),
  4 <= c -> fits (ops_weight ops) ->
  exists b it s', state_after c ops = Some b /\ range (flatten b) lo hi = Ok it /\
    let R := filter (fun e => within lo hi (kz (fst e))) (contents (root b)) in
    take_n (range_next (flatten b)) n it
    = Ok (s', map Some (firstn n R) ++ repeat None (n - length R)).
Proof.
  intros V c ops lo hi n Hc F.
  destruct (@reachable_state V c ops Hc F) as (b & E & I & _ & HO & _).
  pose proof (ReadersRange.range_spec I HO lo hi) as HR. unfold range_collect in HR.
  destruct (range (flatten b) lo hi) as [it| | |] eqn:Er; cbn [bind] in HR; try discriminate.
  destruct (@take_of_collect V _ (range_next (flatten b)) (@range_iterator_fused V (flatten b)) _ _ _ HR n)
    as (s' & Et).
  exists b, it, s'. split; [exact E|]. split; [exact Er|]. exact Et.
Qed.


(* ------------------------------------------------------------------ *)
(* B9: the arena-level mutators never reach UB                         *)
(* ------------------------------------------------------------------ *)
Create HintDb nu.
#[export] Hint Resolve no_ub_ok no_ub_panic no_ub_fuel : nu.
Ltac nu_step :=
  first
    [ apply no_ub_ok | apply no_ub_panic | apply no_ub_fuel
    | assumption
    | progress cbv beta zeta
    | match goal with
      | |- no_ub (bind _ _) => apply no_ub_bind; [ | intros ]
      end
    | solve [auto with nu]
    | match goal with
      | |- no_ub (match ?x with _ => _ end) => destruct x
      end ].
Ltac nu := repeat nu_step.

#[export] Hint Resolve vec_insert_no_ub vec_remove_no_ub vec_set_no_ub vec_get_no_ub
     vec_split_off_no_ub usub_no_ub find_leaf_no_ub : nu.

Lemma arena_id_of_index_no_ub : forall i, no_ub (Arena.id_of_index i).
Proof. intros i. unfold Arena.id_of_index. nu. Qed.
#[export] Hint Resolve arena_id_of_index_no_ub : nu.
Lemma allocate_no_ub : forall (T : Type) (a : arena T) x, no_ub (allocate a x).
Proof. intros T a x. unfold allocate. nu. Qed.
Lemma deallocate_no_ub : forall (T : Type) (d : T) (a : arena T) id, no_ub (deallocate d a id).
Proof. intros T d a id. unfold deallocate. nu. Qed.
#[export] Hint Resolve allocate_no_ub deallocate_no_ub : nu.

Section ArenaNoUB.
Variable V : Type.
Lemma alloc_leaf_no_ub : forall (h : heap V) l, no_ub (alloc_leaf h l).
Proof. intros h l. unfold alloc_leaf. nu. Qed.
Hint Resolve alloc_leaf_no_ub : nu.
Lemma alloc_branch_no_ub : forall (h : heap V) x, no_ub (alloc_branch h x).
Proof. intros h x. unfold alloc_branch. nu. Qed.
Hint Resolve alloc_branch_no_ub : nu.
Lemma dealloc_leaf_no_ub : forall (h : heap V) id, no_ub (dealloc_leaf h id).
Proof. intros h id. unfold dealloc_leaf. nu. Qed.
Hint Resolve dealloc_leaf_no_ub : nu.
Lemma dealloc_branch_no_ub : forall (h : heap V) id, no_ub (dealloc_branch h id).
Proof. intros h id. unfold dealloc_branch. nu. Qed.
Hint Resolve dealloc_branch_no_ub : nu.
Lemma insert_into_leaf_A_no_ub : forall (h : heap V) id k v, no_ub (insert_into_leaf_A h id k v).
Proof. intros h id k v. unfold insert_into_leaf_A. nu. Qed.
Hint Resolve insert_into_leaf_A_no_ub : nu.
Lemma realize_A_no_ub : forall (h : heap V) orig d, no_ub (realize_A h orig d).
Proof. intros h orig d. unfold realize_A. nu. Qed.
Hint Resolve realize_A_no_ub : nu.
Lemma branch_insert_child_no_ub : forall (x : branch) ci sep newc, no_ub (branch_insert_child x ci sep newc).
Proof. intros x ci sep newc. unfold branch_insert_child. nu. Qed.
Hint Resolve branch_insert_child_no_ub : nu.
Lemma ins_A_no_ub : forall fuel (h : heap V) r k v, no_ub (ins_A fuel h r k v).
Proof. induction fuel as [|f IH]; intros h r k v; cbn [ins_A]; nu. Qed.
Hint Resolve ins_A_no_ub : nu.
Lemma insert_A_no_ub : forall (h : heap V) k v, no_ub (insert_A h k v).
Proof. intros h k v. unfold insert_A. nu. Qed.
Hint Resolve insert_A_no_ub : nu.
Lemma borrow_from_left_leaf_A_no_ub : forall (h : heap V) b ci l c, no_ub (borrow_from_left_leaf_A h b ci l c).
Proof. intros h b ci l c. unfold borrow_from_left_leaf_A. nu. Qed.
Hint Resolve borrow_from_left_leaf_A_no_ub : nu.
Lemma borrow_from_right_leaf_A_no_ub : forall (h : heap V) b ci c r, no_ub (borrow_from_right_leaf_A h b ci c r).
Proof. intros h b ci c r. unfold borrow_from_right_leaf_A. nu. Qed.
Hint Resolve borrow_from_right_leaf_A_no_ub : nu.
Lemma merge_with_left_leaf_A_no_ub : forall (h : heap V) b ci l c, no_ub (merge_with_left_leaf_A h b ci l c).
Proof. intros h b ci l c. unfold merge_with_left_leaf_A. nu. Qed.
Hint Resolve merge_with_left_leaf_A_no_ub : nu.
Lemma merge_with_right_leaf_A_no_ub : forall (h : heap V) b ci c r, no_ub (merge_with_right_leaf_A h b ci c r).
Proof. intros h b ci c r. unfold merge_with_right_leaf_A. nu. Qed.
Hint Resolve merge_with_right_leaf_A_no_ub : nu.
Lemma child_leaf_id_A_no_ub : forall (h : heap V) p ci, no_ub (child_leaf_id_A h p ci).
Proof. intros h p ci. unfold child_leaf_id_A. nu. Qed.
Hint Resolve child_leaf_id_A_no_ub : nu.
Lemma rebalance_leaf_A_no_ub : forall (h : heap V) p ci li ri, no_ub (rebalance_leaf_A h p ci li ri).
Proof. intros h p ci li ri. unfold rebalance_leaf_A. nu. Qed.
Hint Resolve rebalance_leaf_A_no_ub : nu.
Lemma borrow_from_left_branch_A_no_ub : forall (h : heap V) p ci l c sep, no_ub (borrow_from_left_branch_A h p ci l c sep).
Proof. intros h p ci l c sep. unfold borrow_from_left_branch_A. nu. Qed.
Hint Resolve borrow_from_left_branch_A_no_ub : nu.
Lemma borrow_from_right_branch_A_no_ub : forall (h : heap V) p ci c r sep, no_ub (borrow_from_right_branch_A h p ci c r sep).
Proof. intros h p ci c r sep. unfold borrow_from_right_branch_A. nu. Qed.
Hint Resolve borrow_from_right_branch_A_no_ub : nu.
Lemma merge_with_left_branch_A_no_ub : forall (h : heap V) p ci, no_ub (merge_with_left_branch_A h p ci).
Proof. intros h p ci. unfold merge_with_left_branch_A. nu. Qed.
Hint Resolve merge_with_left_branch_A_no_ub : nu.
Lemma merge_with_right_branch_A_no_ub : forall (h : heap V) p ci, no_ub (merge_with_right_branch_A h p ci).
Proof. intros h p ci. unfold merge_with_right_branch_A. nu. Qed.
Hint Resolve merge_with_right_branch_A_no_ub : nu.
Lemma rebalance_branch_A_no_ub : forall (h : heap V) p ci li ri, no_ub (rebalance_branch_A h p ci li ri).
Proof. intros h p ci li ri. unfold rebalance_branch_A. nu. Qed.
Hint Resolve rebalance_branch_A_no_ub : nu.
Lemma rebalance_child_A_no_ub : forall (h : heap V) p ci, no_ub (rebalance_child_A h p ci).
Proof. intros h p ci. unfold rebalance_child_A. nu. Qed.
Hint Resolve rebalance_child_A_no_ub : nu.
Lemma rem_A_no_ub : forall fuel (h : heap V) r z, no_ub (rem_A fuel h r z).
Proof. induction fuel as [|f IH]; intros h r z; cbn [rem_A]; nu. Qed.
Hint Resolve rem_A_no_ub : nu.
Lemma create_empty_root_leaf_A_no_ub : forall (h : heap V), no_ub (create_empty_root_leaf_A h).
Proof. intros h. unfold create_empty_root_leaf_A. nu. Qed.
Hint Resolve create_empty_root_leaf_A_no_ub : nu.
Lemma collapse_A_no_ub : forall fuel (h : heap V), no_ub (collapse_A fuel h).
Proof. induction fuel as [|f IH]; intros h; cbn [collapse_A]; nu. Qed.
Hint Resolve collapse_A_no_ub : nu.
Lemma remove_A_no_ub : forall (h : heap V) z, no_ub (remove_A h z).
Proof. intros h z. unfold remove_A. nu. Qed.
Hint Resolve remove_A_no_ub : nu.
Lemma get_mut_write_A_no_ub : forall (h : heap V) z v, no_ub (get_mut_write_A h z v).
Proof. intros h z v. unfold get_mut_write_A. nu. Qed.
Hint Resolve get_mut_write_A_no_ub : nu.
End ArenaNoUB.

Theorem arena_mutators_total : forall (V:Type) (h:heap V) k v z,
  no_ub (insert_A h k v) /\ no_ub (remove_A h z) /\ no_ub (get_mut_write_A h z v).
Proof.
  intros V h k v z. split; [|split].
  - apply insert_A_no_ub.
  - apply remove_A_no_ub.
  - apply get_mut_write_A_no_ub.
Qed.

Print Assumptions outputs_never_integrity.
Print Assumptions contents_agree_all_ops.
Print Assumptions detailed_total.
Print Assumptions chain_damage_refused.
Print Assumptions remove_keeps_other_entries.
Print Assumptions insert_keeps_other_entries.
Print Assumptions fast_iterator_fused.
Print Assumptions range_iterator_fused.
Print Assumptions get_mut_finds_what_get_finds.
Print Assumptions len_counts_live.
Print Assumptions orphan_rejected.
Print Assumptions range_partial_and_exhausted.
Print Assumptions arena_mutators_total.
