(* Extra theorems from the spec audit (Rust model), part 2: new proofs. *)
From Coq Require Import List Arith ZArith NArith Lia Bool Permutation.
From BPT Require Import Common.Base Rust.Arena Rust.ArenaSpec Rust.ArenaProofs Common.AMap Rust.Tree Rust.Heap Rust.Readers Rust.Run
     Rust.InvDefs Rust.Repr Rust.Spec Rust.Lib Rust.ReachDefs Rust.ReachStep Rust.Reach Rust.ValidDefs Rust.Damage
     Rust.HeapOps Rust.HeapOpsSim Rust.NoUB Rust.Walk Rust.ValidAccept Rust.ValidSound Rust.MiscProofs
     Rust.Bridge Rust.ChainExact Rust.TreeFactsR Rust.ReadersGet Props.Reachable Extra.RustExtra.
Import ListNotations.

(* ------------------------------------------------------------------ *)
(* B5: no output of a reachable history reports an integrity error     *)
(* ------------------------------------------------------------------ *)
Definition out_fine {V} (x : out V) : Prop :=
  match x with
  | URes _ (Some (DataIntegrity _)) | UResOpt _ (Some (DataIntegrity _))
  | UResList _ (Some (DataIntegrity _)) | UResOptList _ (Some (DataIntegrity _)) => False
  | UValidate ci cid vfo => ci = true /\ cid = None /\ vfo = None
  | _ => True
  end.

Lemma spec_step_out_fine : forall (V : Type) (m : amap V) (o : op V), out_fine (snd (spec_step m o)).
Proof.
  intros V m o. destruct o; cbn [spec_step snd out_fine]; auto.
  - destruct (m_get m z); cbn; auto.
  - destruct (m_get m z); cbn; auto.
  - destruct (spec_get_many m zs); cbn; auto.
  - destruct (m_get m z); cbn; auto.
  - destruct (m_get m z); cbn; auto.
  - destruct (spec_batch m items); cbn; auto.
Qed.

Lemma lift_out_fine : forall (V A : Type) (r : res A) (f : A -> out V),
  (forall a, out_fine (f a)) -> out_fine (lift r f).
Proof. intros V A r f H. destruct r; cbn [lift out_fine]; auto. Qed.

Lemma step_out_fine : forall (V : Type) n (b : bstate V) (o : op V),
  Good n b -> fits (n + op_weight o) -> out_fine (snd (step b o)).
Proof.
  intros V n b o G F.
  destruct (abstract_op o) eqn:A.
  - pose proof (step_refines o G F A) as S.
    pose proof (@spec_step_out_fine V (contents (root b)) o) as H. rewrite S in H. exact H.
  - destruct o; try discriminate A; unfold step; cbn [snd]; apply lift_out_fine.
    + intros a; exact I.
    + intros [[lc cn] ls]; exact I.
Qed.

Lemma run_out_fine : forall (V : Type) (ops : list (op V)) n (b : bstate V),
  Good n b -> fits (n + ops_weight ops) -> forall x, In x (snd (run b ops)) -> out_fine x.
Proof.
  intros V. induction ops as [|o ops IH]; intros n b G F x Hx.
  - cbn in Hx. contradiction.
  - rewrite Reach.ops_weight_cons, Nat.add_assoc in F.
    assert (F1 : fits (n + op_weight o)) by (eapply fits_mono; [exact F|lia]).
    destruct (step_good o G F1) as (G1 & _ & _).
    destruct (run_cons b o ops) as [_ R2]. rewrite R2 in Hx. destruct Hx as [<-|Hx].
    + eapply step_out_fine; eassumption.
    + eapply IH; eassumption.
Qed.

Theorem outputs_never_integrity : forall (V:Type) c (ops:list (op V)), 4 <= c -> fits (ops_weight ops) ->
  exists b0, b_new V c = Some b0 /\ forall x, In x (snd (run b0 ops)) ->
    match x with
    | URes _ (Some (DataIntegrity _)) | UResOpt _ (Some (DataIntegrity _))
    | UResList _ (Some (DataIntegrity _)) | UResOptList _ (Some (DataIntegrity _)) => False
    | UValidate ci cid vfo => ci = true /\ cid = None /\ vfo = None
    | _ => True end.
Proof.
  intros V c ops Hc F. destruct (@new_good V c Hc) as (b0 & E & G & _).
  exists b0. split; [exact E|]. intros x Hx.
  exact (@run_out_fine V ops 0 b0 G F x Hx).
Qed.

(* ------------------------------------------------------------------ *)
(* B6: contents agree for histories with non-abstract read-only ops    *)
(* ------------------------------------------------------------------ *)
Lemma nonabstract_step_same : forall (V : Type) (b : bstate V) (o : op V),
  abstract_op o = false -> fst (step b o) = b /\ forall m, fst (spec_step m o) = m.
Proof. intros V b o A. destruct o; try discriminate A; split; reflexivity. Qed.

Lemma run_contents_all : forall (V : Type) (ops : list (op V)) n (b : bstate V),
  Good n b -> fits (n + ops_weight ops) ->
  fst (spec_run (contents (root b)) ops) = contents (root (fst (run b ops))) /\
  forall i o, nth_error ops i = Some o -> abstract_op o = true ->
    nth_error (snd (run b ops)) i = nth_error (snd (spec_run (contents (root b)) ops)) i.
Proof.
  intros V. induction ops as [|o ops IH]; intros n b G F.
  - split; [reflexivity|]. intros i o H. destruct i; discriminate H.
  - rewrite Reach.ops_weight_cons, Nat.add_assoc in F.
    assert (F1 : fits (n + op_weight o)) by (eapply fits_mono; [exact F|lia]).
    destruct (step_good o G F1) as (G1 & _ & _).
    destruct (IH _ _ G1 F) as [C1 N1].
    destruct (run_cons b o ops) as [R1 R2]. rewrite R1, R2, spec_run_cons. cbn [fst snd].
    assert (EQ : fst (spec_step (contents (root b)) o) = contents (root (fst (step b o)))).
    { destruct (abstract_op o) eqn:A.
      - rewrite (step_refines o G F1 A). reflexivity.
      - destruct (@nonabstract_step_same V b o A) as [S1 S2]. rewrite S1, S2. reflexivity. }
    rewrite EQ. split; [exact C1|].
    intros i o' Hi A. destruct i as [|i]; cbn [nth_error] in *.
    + inversion Hi; subst o'. rewrite (step_refines o G F1 A). reflexivity.
    + exact (N1 i o' Hi A).
Qed.

Theorem contents_agree_all_ops : forall (V : Type) (c : nat) (ops : list (op V)), 4 <= c -> fits (ops_weight ops) ->
  exists b0, b_new V c = Some b0 /\
    fst (spec_run [] ops) = contents (root (fst (run b0 ops))) /\
    forall i o, nth_error ops i = Some o -> abstract_op o = true ->
      nth_error (snd (run b0 ops)) i = nth_error (snd (spec_run [] ops)) i.
Proof.
  intros V c ops Hc F. destruct (@new_good V c Hc) as (b0 & E & G & _ & C).
  exists b0. split; [exact E|]. rewrite <- C. exact (@run_contents_all V ops 0 b0 G F).
Qed.


(* ------------------------------------------------------------------ *)
(* B2: the detailed validator never panics and never hits UB           *)
(* ------------------------------------------------------------------ *)
Definition np {A} (r : res A) : Prop := forall site, r <> Panic site.

Lemma np_ok : forall A (a : A), np (Ok a).
Proof. intros A a s; discriminate. Qed.
Lemma np_fuel : forall A, np (@OutOfFuel A).
Proof. intros A s; discriminate. Qed.
Lemma np_ub : forall A s, np (@UB A s).
Proof. intros A s s'; discriminate. Qed.
Lemma np_bind : forall A B (r : res A) (f : A -> res B),
  np r -> (forall a, np (f a)) -> np (bind r f).
Proof.
  intros A B r f Hr Hf. destruct r as [a|s| |s]; cbn [bind].
  - apply Hf.
  - exfalso. exact (Hr s eq_refl).
  - apply np_fuel.
  - apply np_ub.
Qed.

Lemma fold_np : forall A B (g : res A -> res B -> res A),
  (forall acc r, np acc -> np r -> np (g acc r)) ->
  forall l acc, np acc -> (forall r, In r l -> np r) -> np (fold_left g l acc).
Proof.
  intros A B g Hg l. induction l as [|x l IH]; intros acc Hacc Hl; cbn [fold_left].
  - exact Hacc.
  - apply IH.
    + apply Hg; [exact Hacc | apply Hl; left; reflexivity].
    + intros r Hr. apply Hl. right. exact Hr.
Qed.

Lemma in_map_np : forall X A (g : X -> res A) (l : list X),
  (forall x, np (g x)) -> forall r, In r (map g l) -> np r.
Proof.
  intros X A g l Hg r Hin. apply in_map_iff in Hin. destruct Hin as [x [Hx _]].
  subst r. apply Hg.
Qed.

Create HintDb np.
#[export] Hint Resolve np_ok np_fuel np_ub : np.

Ltac np_step :=
  first
    [ apply np_ok | apply np_fuel | apply np_ub
    | assumption
    | progress cbv beta zeta
    | match goal with
      | |- np (bind _ _) => apply np_bind; [ | intros ]
      end
    | solve [auto with np]
    | match goal with
      | |- np (match ?x with _ => _ end) => destruct x
      end ].
Ltac npt := repeat np_step.

Lemma sum_res_map_np : forall X (g : X -> res nat) l,
  (forall x, np (g x)) -> np (sum_res (map g l)).
Proof.
  intros X g l Hg. unfold sum_res. apply fold_np.
  - intros acc r Ha Hr. npt.
  - apply np_ok.
  - apply in_map_np. exact Hg.
Qed.
Lemma pair_sum_map_np : forall X (g : X -> res (nat * nat)) l init,
  (forall x, np (g x)) -> np (pair_sum (map g l) init).
Proof.
  intros X g l init Hg. unfold pair_sum. apply fold_np.
  - intros acc r Ha Hr. npt.
  - apply np_ok.
  - apply in_map_np. exact Hg.
Qed.
Lemma concat_res_map_np : forall X A (g : X -> res (list A)) l,
  (forall x, np (g x)) -> np (concat_res (map g l)).
Proof.
  intros X A g l Hg. unfold concat_res. apply fold_np.
  - intros acc r Ha Hr. npt.
  - apply np_ok.
  - apply in_map_np. exact Hg.
Qed.
#[export] Hint Resolve sum_res_map_np pair_sum_map_np concat_res_map_np : np.

Section NP.
Variable V : Type.

Lemma h_first_np : forall fuel (h : heap V) r, np (h_first fuel h r).
Proof. induction fuel as [|f IH]; intros h r; cbn [h_first]; npt. Qed.
Hint Resolve h_first_np : np.
Lemma get_first_leaf_id_np : forall (h : heap V), np (get_first_leaf_id h).
Proof. intros h. unfold get_first_leaf_id. npt. Qed.
Hint Resolve get_first_leaf_id_np : np.
Lemma h_len_np : forall fuel (h : heap V) r, np (h_len fuel h r).
Proof. induction fuel as [|f IH]; intros h r; cbn [h_len]; npt. Qed.
Hint Resolve h_len_np : np.
Lemma len_np : forall (h : heap V), np (len h).
Proof. intros h. unfold len. npt. Qed.
Hint Resolve len_np : np.
Lemma h_count_nodes_np : forall fuel (h : heap V) r, np (h_count_nodes fuel h r).
Proof. induction fuel as [|f IH]; intros h r; cbn [h_count_nodes]; npt. Qed.
Hint Resolve h_count_nodes_np : np.
Lemma count_nodes_in_tree_np : forall (h : heap V), np (count_nodes_in_tree h).
Proof. intros h. unfold count_nodes_in_tree. npt. Qed.
Hint Resolve count_nodes_in_tree_np : np.
Lemma h_leaf_ids_np : forall fuel (h : heap V) r, np (h_leaf_ids fuel h r).
Proof. induction fuel as [|f IH]; intros h r; cbn [h_leaf_ids]; npt. Qed.
Hint Resolve h_leaf_ids_np : np.
Lemma collect_leaf_ids_np : forall (h : heap V), np (collect_leaf_ids h).
Proof. intros h. unfold collect_leaf_ids. npt. Qed.
Hint Resolve collect_leaf_ids_np : np.
Lemma try_get_np : forall (s : iter V) (l : leaf V), np (try_get s l).
Proof. intros s l. unfold try_get. npt. Qed.
Hint Resolve try_get_np : np.
Lemma item_next_f_np : forall fuel (h : heap V) s, np (item_next_f fuel h s).
Proof. induction fuel as [|f IH]; intros h s; cbn [item_next_f]; npt. Qed.
Hint Resolve item_next_f_np : np.
Lemma item_next_np : forall (h : heap V) s, np (item_next h s).
Proof. intros h s. unfold item_next. npt. Qed.
Hint Resolve item_next_np : np.
Lemma item_new_np : forall (h : heap V), np (item_new h).
Proof. intros h. unfold item_new. npt. Qed.
Hint Resolve item_new_np : np.
Lemma collect_f_np : forall S' (next : S' -> res (S' * option (key * V))) fuel s,
  (forall s, np (next s)) -> np (collect_f next fuel s).
Proof.
  intros S' next fuel. induction fuel as [|f IH]; intros s Hn; cbn [collect_f]; npt.
Qed.
Lemma items_np : forall (h : heap V), np (items h).
Proof. intros h. unfold items. npt. apply collect_f_np. intros; npt. Qed.
Hint Resolve items_np : np.
Lemma keys_np : forall (h : heap V), np (keys h).
Proof. intros h. unfold keys. npt. Qed.
Hint Resolve keys_np : np.
Lemma chain_ids_np : forall fuel (h : heap V) cur, np (chain_ids fuel h cur).
Proof. induction fuel as [|f IH]; intros h cur; cbn [chain_ids]; npt. Qed.
Hint Resolve chain_ids_np : np.
Lemma check_invariants_np : forall (h : heap V), np (check_invariants h).
Proof.
  intros h s E. destruct (@check_total V h) as [[r E']|E']; rewrite E' in E; discriminate.
Qed.
Hint Resolve check_invariants_np : np.
Lemma check_invariants_detailed_np : forall (h : heap V), np (check_invariants_detailed h).
Proof. intros h. unfold check_invariants_detailed. npt. Qed.
End NP.

Theorem detailed_total : forall (V:Type) (h:heap V),
  (exists r, check_invariants_detailed h = Ok r) \/ check_invariants_detailed h = OutOfFuel.
Proof.
  intros V h. pose proof (@check_invariants_detailed_np V h) as P.
  pose proof (@check_invariants_detailed_no_ub V h) as U.
  destruct (check_invariants_detailed h) as [r|s| |s].
  - left. eexists. reflexivity.
  - exfalso. exact (P s eq_refl).
  - right. reflexivity.
  - exfalso. exact (U s eq_refl).
Qed.


(* ------------------------------------------------------------------ *)
(* B3: chain damage is refused by try_insert / try_remove              *)
(* ------------------------------------------------------------------ *)
Theorem chain_damage_refused : forall (V:Type) (h:heap V) tids fid cids k v z,
  collect_leaf_ids h = Ok tids -> get_first_leaf_id h = Ok fid ->
  chain_ids (S (S (length (store (hleaves h))))) h fid = Ok cids ->
  (forall id l, In id tids -> get_leaf h id = Some l -> 2 <= lcap l) ->
  cids <> tids -> check_invariants_detailed h <> OutOfFuel ->
  exists e, check_invariants_detailed h = Ok (Some e) /\
    hstep h (OTryInsert k v) = Some (UResOpt None (Some (DataIntegrity e))) /\
    hstep h (OTryRemove z) = Some (URes None (Some (DataIntegrity e))).
Proof.
  intros V h tids fid cids k v z Ht Hf Hc Hcap Hne Hfuel.
  pose proof (@ChainExact.chain_damage_rejected V h tids fid cids Ht Hf Hc Hcap Hne) as Hd.
  destruct (@detailed_total V h) as [[r E]|E]; [|contradiction].
  destruct r as [e|]; [|contradiction].
  exists e. split; [exact E|]. apply try_refuse_heap. exact E.
Qed.


(* ------------------------------------------------------------------ *)
(* B7: remove / insert keep every other entry                          *)
(* ------------------------------------------------------------------ *)
Theorem remove_keeps_other_entries : forall (V:Type) (m:AMap.amap V) z, m_sorted m ->
  forall e, In e (m_remove m z) <-> (In e m /\ kz (fst e) <> z).
Proof.
  intros V m z. induction m as [|[k' v'] m IH]; intros Hs e.
  - cbn. tauto.
  - apply Lib_m_sorted_cons_inv in Hs. destruct Hs as [Hs Hall].
    specialize (IH Hs e). cbn [m_remove].
    destruct (Z.eqb_spec (kz k') z) as [He|Hne].
    + split.
      * intros Hin. split; [right; exact Hin|]. specialize (Hall e Hin). lia.
      * intros [[<-|Hin] Hz]; [cbn [fst] in Hz; contradiction|exact Hin].
    + cbn [In]. split.
      * intros [<-|Hin]; [split; [left; reflexivity|exact Hne]|].
        apply IH in Hin. destruct Hin as [Hin Hz]. split; [right; exact Hin|exact Hz].
      * intros [[<-|Hin] Hz]; [left; reflexivity|]. right. apply IH. split; assumption.
Qed.

Theorem insert_keeps_other_entries : forall (V:Type) (m:AMap.amap V) k v, m_sorted m ->
  forall e, kz (fst e) <> kz k -> (In e (m_insert m k v) <-> In e m).
Proof.
  intros V m k v _ e Hne. induction m as [|[k' v'] m IH].
  - cbn. split; [|tauto]. intros [<-|[]]. cbn [fst] in Hne. contradiction.
  - cbn [m_insert]. destruct (Z.ltb (kz k) (kz k')).
    + cbn [In]. split; [|tauto]. intros [<-|H]; [cbn [fst] in Hne; contradiction|exact H].
    + destruct (Z.eqb_spec (kz k) (kz k')) as [He|Hn].
      * cbn [In]. split; (intros [<-|H]; [cbn [fst] in Hne; exfalso; lia|right; exact H]).
      * cbn [In]. rewrite IH. tauto.
Qed.


(* ------------------------------------------------------------------ *)
(* B1: the fast and range iterators are fused                          *)
(* ------------------------------------------------------------------ *)
Lemma fast_next_f_fused : forall (V : Type) (h : heap V) fuel s s',
  fast_next_f fuel h s = Ok (s', None) -> forall f', fast_next_f (S f') h s' = Ok (s', None).
Proof.
  intros V h. induction fuel as [|f IH]; intros s s' H f'; [discriminate|].
  cbn [fast_next_f] in H.
  destruct (f_fin s) eqn:Efin.
  - inversion H; subst s'. cbn [fast_next_f]. rewrite Efin. reflexivity.
  - destruct (f_leaf s) as [l|] eqn:El.
    + destruct (Nat.ltb (f_idx s) (length (lkeys l))) eqn:Elt.
      * destruct (nth_error (lkeys l) (f_idx s)) as [k|] eqn:Ek.
        -- destruct (nth_error (lvals l) (f_idx s)) as [v|] eqn:Ev; [discriminate|].
           inversion H; subst s'. cbn [fast_next_f]. rewrite Efin, El, Elt, Ek, Ev. reflexivity.
        -- inversion H; subst s'. cbn [fast_next_f]. rewrite Efin, El, Elt, Ek. reflexivity.
      * destruct (negb (N.eqb (lnext l) NULL)).
        -- exact (IH _ _ H f').
        -- inversion H; subst s'. reflexivity.
    + inversion H; subst s'. reflexivity.
Qed.

Theorem fast_iterator_fused : forall (V:Type) (h:heap V) s s',
  fast_next h s = Ok (s', None) -> fast_next h s' = Ok (s', None).
Proof.
  intros V h s s' H. unfold fast_next in *. unfold dfuel at 1.
  exact (@fast_next_f_fused V h _ s s' H _).
Qed.

Theorem range_iterator_fused : forall (V:Type) (h:heap V) s s',
  range_next h s = Ok (s', None) -> range_next h s' = Ok (s', None).
Proof.
  intros V h s s' H. unfold range_next in H.
  destruct (r_it s) as [it|] eqn:Eit.
  - destruct (item_next h it) as [[it1 item]| | |] eqn:En; cbn [bind] in H; try discriminate.
    destruct item as [[k v]|].
    + destruct (r_skip s).
      * destruct (r_first s) as [fk|]; [|discriminate].
        destruct (Z.eqb (kz k) (kz fk)); [|discriminate].
        destruct (item_next h it1) as [[it2 item2]| | |] eqn:En2; cbn [bind fst snd] in H; try discriminate.
        inversion H; subst s' item2. clear H.
        apply item_iterator_fused in En2.
        unfold range_next. cbn [r_it r_skip r_first]. rewrite En2. cbn [bind]. reflexivity.
      * discriminate.
    + inversion H; subst s'. clear H. apply item_iterator_fused in En.
      unfold range_next. cbn [r_it r_skip r_first]. rewrite En. cbn [bind]. reflexivity.
  - inversion H; subst s'. unfold range_next. rewrite Eit. reflexivity.
Qed.


(* ------------------------------------------------------------------ *)
(* B8: get_mut finds exactly what get finds                            *)
(* ------------------------------------------------------------------ *)
Lemma upd_false_same : forall (V : Type) fuel (t t' : ptree V) z v,
  upd fuel t z v = Ok (t', false) -> t' = t.
Proof.
  intros V. induction fuel as [|f IH]; intros t t' z v H; [discriminate|].
  destruct t as [id c ks vs nx|id c ks cs]; cbn [upd] in H.
  - destruct (bfound ks z).
    + destruct (Nat.ltb (lb ks z) (length vs)); inversion H; reflexivity.
    + inversion H; reflexivity.
  - destruct (nth_error cs (child_index ks z)) as [ch|] eqn:Ech.
    + destruct (upd f ch z v) as [[ch' ok]| | |] eqn:Eu; cbn [bind fst snd] in H; try discriminate.
      inversion H; subst ok. apply IH in Eu. subst ch'.
      rewrite (TreeFactsR.set_nth_same _ _ Ech). reflexivity.
    + inversion H; reflexivity.
Qed.

Theorem get_mut_finds_what_get_finds : forall (V:Type) n (b:bstate V) z v, Good n b -> fits (n + 1) ->
  exists b' ok, b_get_mut_write b z v = Ok (b', ok) /\
    h_get (flatten b) z = Ok (if ok then m_get (contents (root b)) z else None) /\
    (ok = false -> b' = b).
Proof.
  intros V n b z v G F.
  pose proof (Good_inv G) as I.
  pose proof (Good_heap _ G F) as HO.
  destruct (get_mut_write_inv z v I) as (b' & E & _).
  exists b', (match m_get (contents (root b)) z with Some _ => true | None => false end).
  split; [exact E|]. split.
  - rewrite (ReadersGet.h_get_spec z I HO). destruct (m_get (contents (root b)) z); reflexivity.
  - intros Hok. rewrite Hok in E. unfold b_get_mut_write in E.
    destruct (upd (S (height (root b))) (root b) z v) as [[t' ok]| | |] eqn:Eu; cbn [bind fst snd] in E;
      try discriminate.
    inversion E; subst ok. apply upd_false_same in Eu. subst t'. destruct b; reflexivity.
Qed.


(* ------------------------------------------------------------------ *)
(* B11: len counts the live handles                                    *)
(* ------------------------------------------------------------------ *)
Definition gtrue (o : option bool) : bool := match o with Some true => true | _ => false end.

Lemma count_true_filter_seq : forall (mk : list bool),
  count_true mk = length (filter (fun i => gtrue (nth_error mk i)) (seq 0 (length mk))).
Proof.
  intros mk. rewrite (ArenaProofs.filter_seq_length gtrue mk). unfold count_true.
  f_equal. apply filter_ext. intros []; reflexivity.
Qed.

Theorem len_counts_live : forall (T:Type) (a:arena T), ArenaInv a -> small a ->
  a_len a = length (filter (fun i => match a_get a (N.of_nat i) with Some _ => true | None => false end) (seq 0 (length (store a)))) /\
  a_free_count a = length (store a) - a_len a.
Proof.
  intros T a AI Sm. split.
  - destruct AI as (Hlen & _ & _). unfold a_len. rewrite count_true_filter_seq, <- Hlen.
    f_equal. apply filter_ext_in. intros i Hi. apply in_seq in Hi.
    destruct (ArenaProofs.of_nat_not_null (length (store a)) i Sm) as [Hnn _]; [lia|].
    rewrite ArenaProofs.a_get_eq. apply N.eqb_neq in Hnn. rewrite Hnn. rewrite Nat2N.id.
    unfold mask_at. destruct (nth_error (mask a) i) as [[]|]; cbn [gtrue]; try reflexivity.
    destruct (nth_error (store a) i) eqn:E; [reflexivity|]. apply nth_error_None in E. lia.
  - pose proof (@ArenaProofs.counts_spec T a AI) as H. lia.
Qed.

Print Assumptions outputs_never_integrity.
Print Assumptions contents_agree_all_ops.
Print Assumptions detailed_total.
Print Assumptions chain_damage_refused.
Print Assumptions remove_keeps_other_entries.
Print Assumptions insert_keeps_other_entries.
Print Assumptions fast_iterator_fused.
Print Assumptions range_iterator_fused.
Print Assumptions get_mut_finds_what_get_finds.
Print Assumptions len_counts_live.
