(* Additional theorems about the pure-Python map model (Py/*.v) asked for by the
   specification audit: clauses of properties C07/C08/C09 that the pinned statements of
   Props/C07.v, C08.v, C09.v state weakly or not at all.
     - empty_or_inverted_interval_all : items/range/keys/values of [x, y) with y <= x;
     - contains_spec : membership;
     - ord_in_words : the ordering invariant unfolded into its three clauses;
     - chain_ids, chain_visits_leaves_in_order : following [next] from [self.leaves]
       visits exactly the leaves of the tree, in order;
     - popitem_keeps_capacity;
     - len_frames / legacy_len_frames : call-depth instrumentation of len (see the comment
       at that section for what it does and does not claim). *)
From Coq Require Import List Arith ZArith NArith Lia Bool.
From BPT Require Import Common.Base Common.AMap Rust.Tree Rust.Readers Rust.InvDefs
  Py.Tree Py.Run Py.Inv Py.Facts Py.LeafFacts Py.WalkFacts Py.Spec Py.NewProofs Py.ReaderProofs
  Py.ReachFinal Py.Corollaries.
Import ListNotations.

(* ------------------------------------------------------------------ *)
(* empty or inverted interval, all four readers *)
Theorem empty_or_inverted_interval_all : forall s x y, PyInv s -> (y <= x)%Z ->
  py_items s (Some x) (Some y) = Ok [] /\ py_range s (Some x) (Some y) = Ok [] /\
  py_keys s (Some x) (Some y) = Ok [] /\ py_values s (Some x) (Some y) = Ok [].
Proof.
  intros s x y I H. pose proof (@empty_or_inverted_interval s x y I H) as E.
  unfold py_range, py_keys, py_values. rewrite E. repeat split.
Qed.

(* membership *)
Theorem contains_spec : forall s z, PyInv s -> py_contains s z = Ok (is_some (m_get (pcontents s) z)).
Proof. exact py_contains_spec. Qed.

(* the ordering invariant in words: node keys strictly ascending; every entry of the
   subtree within (lo, hi); for a branch, the entries of child i are below separator i (the
   one to its right) and at or above separator i-1 (the one to its left) *)
Theorem ord_in_words : forall lo hi (t : ptree) c r h, ord lo hi t -> pshape c r h t ->
  sorted_keys (pkeys t) /\
  Forall (fun e => in_bounds lo hi (fst e)) (contents t) /\
  match t with
  | PLeaf _ _ _ _ _ => True
  | PBranch _ _ ks cs => forall i ch, nth_error cs i = Some ch ->
       forall e, In e (contents ch) ->
         (forall sp, nth_error ks i = Some sp -> (kz (fst e) < kz sp)%Z) /\
         (forall sp, 0 < i -> nth_error ks (i - 1) = Some sp -> (kz sp <= kz (fst e))%Z)
  end.
Proof.
  intros lo hi t c r h O Sh. split; [|split].
  - inversion O; subst; assumption.
  - eapply p_ord_contents_bounds; eauto.
  - inversion O as [|lo' hi' id c' ks cs Hs F Hc]; subst; [exact I|].
    intros i ch Hi e He. specialize (Hc i ch Hi).
    inversion Sh as [|r' h' id' ks' cs' L1 L2 L3 L4 Hsh]; subst.
    assert (Hin : In ch cs) by (eapply nth_error_In; eauto).
    pose proof (p_ord_contents_bounds Hc (Hsh ch Hin)) as B.
    rewrite Forall_forall in B. specialize (B e He). destruct B as [Bl Bh].
    unfold child_bounds in *. cbn [fst snd] in *. split.
    + intros sp Hsp. assert (i <> length ks).
      { intro. subst i. assert (nth_error ks (length ks) = None) by (apply nth_error_None; lia). congruence. }
      apply Nat.eqb_neq in H. rewrite H in Bh. rewrite Hsp in Bh. exact Bh.
    + intros sp Hp Hsp. assert (Hn : Nat.eqb i 0 = false) by (apply Nat.eqb_neq; lia).
      rewrite Hn in Bl. rewrite Hsp in Bl. exact Bl.
Qed.

(* ------------------------------------------------------------------ *)
(* the chain walk as a walker: the ids met when following [next] from [cur] *)
Fixpoint chain_ids (fuel : nat) (t : ptree) (cur : N) : res (list N) :=
  if N.eqb cur NULL then Ok [] else
  match fuel with
  | O => OutOfFuel
  | S f =>
      match find_leaf t cur with
      | Some (PLeaf _ _ _ _ nx) => do r <- chain_ids f t nx; Ok (cur :: r)
      | _ => UB 1
      end
  end.

Lemma chain_ids_walk : forall (t : ptree),
  NoDup (pleaf_ids t) -> chain_ok t -> (forall id, In id (pleaf_ids t) -> id <> NULL) ->
  forall L2 L1 fuel, leaves_of t = L1 ++ L2 -> length L2 <= fuel ->
  chain_ids fuel t (head_id L2) = Ok (map (@pid pyval) L2).
Proof.
  intros t ND CO NN. induction L2 as [|l L2 IH]; intros L1 fuel E Hf.
  - cbn [head_id]. destruct fuel; cbn [chain_ids]; rewrite N.eqb_refl; reflexivity.
  - pose proof (@head_id_not_null t L1 (l :: L2) NN E ltac:(discriminate)) as Hnn.
    destruct (@walk_step t L1 l L2 ND CO E) as (id & c & ks & vs & -> & F).
    cbn [head_id pid] in *. cbn [length] in Hf. destruct fuel as [|fuel]; [lia|].
    cbn [chain_ids]. destruct (N.eqb_spec id NULL) as [Ei|_]; [congruence|].
    rewrite F. rewrite (IH (L1 ++ [PLeaf id c ks vs (head_id L2)]) fuel).
    + reflexivity.
    + rewrite <- app_assoc. exact E.
    + lia.
Qed.

Theorem chain_visits_leaves_in_order : forall s, PyInv s ->
  chain_ids (chain_fuel s) (troot s) (tleaves s) = Ok (pleaf_ids (troot s)).
Proof.
  intros s I. unfold chain_fuel. rewrite <- (PyInv_head_id I), leaf_ids_leaves.
  apply (@chain_ids_walk (troot s) (pi_nodup I) (pi_chain I) (PyInv_ids_not_null I)
           (leaves_of (troot s)) []); [reflexivity|].
  rewrite count_leaves_length. lia.
Qed.

(* ------------------------------------------------------------------ *)
(* popitem: the statement of C07_popitem_removes_smallest, plus: the capacity is kept
   (in both cases: an entry removed, or KeyError on the empty map) *)
Theorem popitem_keeps_capacity : forall s, PyInv s ->
  exists s', py_popitem false s = Ok (s', hd_error (pcontents s)) /\ PyInv s' /\
    pcontents s' = tl (pcontents s) /\
    (forall e e', hd_error (pcontents s) = Some e -> In e' (pcontents s') ->
       (kz (fst e) < kz (fst e'))%Z) /\
    tcap s' = tcap s.
Proof.
  intros s I. destruct (py_popitem_final I) as (s' & E & I' & C' & K').
  destruct (popitem_removes_smallest I) as (s2 & E2 & _ & _ & Hlt).
  assert (s2 = s') by (rewrite E in E2; destruct (pcontents s); cbn in E2; congruence). subst s2.
  exists s'. split; [|split; [exact I'|split; [exact C'|split; [exact Hlt|exact K']]]].
  rewrite E. destruct (pcontents s); reflexivity.
Qed.

(* ------------------------------------------------------------------ *)
(* len for any number of entries: call-depth instrumentation.

   WHAT THIS IS.  The functions below are GHOST INSTRUMENTATION written for these theorems;
   they are not extracted and the correspondence check never runs them.  They count the
   maximal number of simultaneously active frames of LeafNode.key_count during one call of
   len(map):
     [key_count_i] is the model's [key_count] (Py/Tree.v, the `while node is not None` loop
        of the code as it stands) with a second component carried along unchanged: a loop
        iteration does not open a frame, so the depth stays the one of the single call;
        [key_count_i_erase] shows that forgetting the component gives back [key_count]
        itself, i.e. the instrumentation does not alter the modelled computation;
     [legacy_key_count] transcribes the historical body
            return len(self) + (0 if self.next is None else self.next.key_count())
        one frame per leaf of the chain; it computes the same count
        ([legacy_key_count_spec]) with a depth equal to the number of leaves.
   WHAT TIES IT TO THE CODE.  Only the structure of [key_count] (iterative, accumulator):
   that the Python method is the loop and not the recursion is established by the
   transcription and by the correspondence check, which exercises len on maps with
   thousands of leaves (beyond the interpreter's recursion limit).  The theorems here say:
   the modelled loop needs depth 1 whatever the size, while the recursive variant needs a
   depth that grows without bound (so no fixed recursion limit suffices). *)
Fixpoint key_count_i (fuel : nat) (t : ptree) (cur : N) (acc : nat) (depth : nat) : res (nat * nat) :=
  if N.eqb cur NULL then Ok (acc, depth) else
  match fuel with
  | O => OutOfFuel
  | S f =>
      match find_leaf t cur with
      | Some (PLeaf _ _ ks _ nx) => key_count_i f t nx (acc + length ks) depth   (* same frame *)
      | _ => UB 1
      end
  end.

Lemma key_count_i_erase : forall fuel t cur acc depth,
  key_count_i fuel t cur acc depth = (do n <- key_count fuel t cur acc; Ok (n, depth)).
Proof.
  induction fuel as [|f IH]; intros t cur acc depth; cbn [key_count_i key_count].
  - destruct (N.eqb cur NULL); reflexivity.
  - destruct (N.eqb cur NULL); [reflexivity|].
    destruct (find_leaf t cur) as [[id c ks vs nx|id c ks cs]|]; try reflexivity. apply IH.
Qed.

(* len(map) = self.leaves.key_count(): one call, depth 1 *)
Definition len_frames (s : pstate) : res nat :=
  do r <- key_count_i (chain_fuel s) (troot s) (tleaves s) 0 1; Ok (snd r).

Theorem len_frames_constant : forall s, PyInv s -> len_frames s = Ok 1.
Proof.
  intros s I. unfold len_frames. rewrite key_count_i_erase.
  change (key_count (chain_fuel s) (troot s) (tleaves s) 0) with (py_len s).
  rewrite (py_len_spec I). reflexivity.
Qed.

(* the historical recursive body, called on the leaf object [cur] (never None):
   (count, frames) *)
Fixpoint legacy_key_count (fuel : nat) (t : ptree) (cur : N) : res (nat * nat) :=
  match fuel with
  | O => OutOfFuel
  | S f =>
      match find_leaf t cur with
      | Some (PLeaf _ _ ks _ nx) =>
          if N.eqb nx NULL then Ok (length ks, 1)
          else do r <- legacy_key_count f t nx; Ok (length ks + fst r, S (snd r))
      | _ => UB 1
      end
  end.

Definition legacy_len_frames (s : pstate) : res nat :=
  do r <- legacy_key_count (chain_fuel s) (troot s) (tleaves s); Ok (snd r).

Lemma legacy_key_count_walk : forall (t : ptree),
  NoDup (pleaf_ids t) -> chain_ok t -> (forall id, In id (pleaf_ids t) -> id <> NULL) ->
  forall L2 l L1 fuel, leaves_of t = L1 ++ l :: L2 -> length (l :: L2) <= fuel ->
  legacy_key_count fuel t (pid l) = Ok (nkeys (l :: L2), length (l :: L2)).
Proof.
  intros t ND CO NN. induction L2 as [|l2 L2 IH]; intros l L1 fuel E Hf.
  - destruct (@walk_step t L1 l [] ND CO E) as (id & c & ks & vs & -> & F).
    cbn [head_id pid] in *. cbn [length] in Hf. destruct fuel as [|fuel]; [lia|].
    cbn [legacy_key_count]. rewrite F. rewrite N.eqb_refl.
    unfold nkeys. cbn [map list_sum fold_right pkeys length]. rewrite Nat.add_0_r. reflexivity.
  - pose proof (@head_id_not_null t (L1 ++ [l]) (l2 :: L2) NN) as Hnn.
    rewrite <- app_assoc in Hnn. specialize (Hnn E ltac:(discriminate)).
    destruct (@walk_step t L1 l (l2 :: L2) ND CO E) as (id & c & ks & vs & -> & F).
    cbn [head_id pid] in *. cbn [length] in Hf. destruct fuel as [|fuel]; [lia|].
    cbn [legacy_key_count]. rewrite F.
    destruct (N.eqb_spec (pid l2) NULL) as [Ei|_]; [congruence|].
    rewrite (IH l2 (L1 ++ [PLeaf id c ks vs (pid l2)]) fuel).
    + cbn [bind fst snd]. unfold nkeys. cbn [map list_sum fold_right pkeys length]. reflexivity.
    + rewrite <- app_assoc. exact E.
    + cbn [length]. lia.
Qed.

(* the recursive variant computes the same count, with one frame per leaf *)
Theorem legacy_key_count_spec : forall s, PyInv s ->
  legacy_key_count (chain_fuel s) (troot s) (tleaves s) =
    Ok (length (pcontents s), count_leaves (troot s)).
Proof.
  intros s I. pose proof (PyInv_head_id I) as Hh. pose proof (PyInv_leaves_wf I) as W.
  pose proof (pcontents_leaves s) as C. pose proof (count_leaves_length (troot s)) as CL.
  unfold chain_fuel. rewrite CL.
  destruct (leaves_of (troot s)) as [|l L] eqn:E.
  - destruct (pi_shape I) as (h & Sh). exfalso. exact (leaves_of_nonempty Sh E).
  - cbn [head_id] in Hh. rewrite <- Hh.
    rewrite (@legacy_key_count_walk (troot s) (pi_nodup I) (pi_chain I) (PyInv_ids_not_null I)
               L l [] (S (length (l :: L))) E ltac:(lia)).
    rewrite (nkeys_contents W), C. reflexivity.
Qed.

Theorem legacy_len_frames_leaves : forall s, PyInv s ->
  legacy_len_frames s = Ok (count_leaves (troot s)).
Proof. intros s I. unfold legacy_len_frames. rewrite (legacy_key_count_spec s I). reflexivity. Qed.

(* a leaf holds at most [capacity] keys: many entries force many leaves *)
Lemma contents_le_leaves : forall s, PyInv s ->
  length (pcontents s) <= tcap s * count_leaves (troot s).
Proof.
  intros s I. destruct (pi_shape I) as (h & Sh).
  rewrite pcontents_leaves, <- (nkeys_contents (PyInv_leaves_wf I)), count_leaves_length.
  pose proof (leaves_of_pshape Sh) as LP. revert LP.
  generalize (leaves_of (troot s)). induction l as [|l L IH]; intros LP.
  - unfold nkeys. cbn. lia.
  - unfold nkeys in *. cbn [map list_sum fold_right length].
    change (fold_right Nat.add 0 (map (fun l0 : ptree => length (pkeys l0)) L))
      with (list_sum (map (fun l0 : ptree => length (pkeys l0)) L)).
    assert (IH' : list_sum (map (fun l0 : ptree => length (pkeys l0)) L) <= tcap s * length L).
    { apply IH. intros x Hx. apply LP. right. exact Hx. }
    destruct (LP l (or_introl eq_refl)) as (r' & S' & _).
    destruct (pshape_0_leaf S') as (id & ks & vs & nx & ->).
    destruct (pshape_leaf_inv S') as (_ & _ & _ & Hk & _). cbn [pkeys]. nia.
Qed.

(* maps with any number of entries exist: insert n-1, n-2, .., 0 *)
Fixpoint desc_items (n : nat) : list (key * pyval) :=
  match n with
  | O => []
  | S j => (mkKey (Z.of_nat j) 0%N, PNone) :: desc_items j
  end.

Lemma insert_desc_length : forall n (m : amap pyval),
  match m with [] => True | (k, _) :: _ => (Z.of_nat n <= kz k)%Z end ->
  length (m_insert_all m (desc_items n)) = length m + n.
Proof.
  induction n as [|j IH]; intros m Hm; cbn [desc_items m_insert_all]; [lia|].
  assert (E : m_insert m (mkKey (Z.of_nat j) 0%N) PNone = (mkKey (Z.of_nat j) 0%N, PNone) :: m).
  { destruct m as [|[k v] m]; [reflexivity|]. cbn [m_insert kz].
    destruct (Z.ltb_spec (Z.of_nat j) (kz k)); [reflexivity|lia]. }
  rewrite E, IH; cbn [length kz]; lia.
Qed.

Theorem legacy_len_frames_unbounded : forall n, exists s m,
  PyInv s /\ legacy_len_frames s = Ok m /\ n <= m.
Proof.
  intros n. destruct (@py_new_spec 4 ltac:(lia)) as (s0 & _ & I0 & K0 & C0 & _).
  destruct (@py_update_final (desc_items (4 * n)) s0 I0) as (s & _ & I & C & K).
  exists s, (count_leaves (troot s)). split; [exact I|]. split; [apply legacy_len_frames_leaves; exact I|].
  pose proof (contents_le_leaves s I) as H. rewrite C, C0, K, K0 in H.
  rewrite insert_desc_length in H by exact Logic.I. cbn [length] in H. lia.
Qed.

(* ... while the modelled (iterative) len needs one frame on those same maps *)
Corollary len_frames_vs_legacy : forall n, exists s m,
  PyInv s /\ len_frames s = Ok 1 /\ py_len s = Ok (length (pcontents s)) /\
  legacy_len_frames s = Ok m /\ n <= m.
Proof.
  intros n. destruct (legacy_len_frames_unbounded n) as (s & m & I & E & H).
  exists s, m. split; [exact I|]. split; [exact (len_frames_constant s I)|].
  split; [exact (py_len_spec I)|]. split; [exact E|exact H].
Qed.

Print Assumptions empty_or_inverted_interval_all.
Print Assumptions contains_spec.
Print Assumptions ord_in_words.
Print Assumptions chain_visits_leaves_in_order.
Print Assumptions popitem_keeps_capacity.
Print Assumptions len_frames_constant.
Print Assumptions legacy_key_count_spec.
Print Assumptions legacy_len_frames_leaves.
Print Assumptions legacy_len_frames_unbounded.
Print Assumptions len_frames_vs_legacy.
