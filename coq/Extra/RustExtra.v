(* Extra theorems from the spec audit (Rust model), part 1: copied auditor proofs. *)
From BPT Require Import Common.Base Common.AMap Rust.Arena Rust.Tree Rust.Heap Rust.Readers Rust.Run
     Rust.InvDefs Rust.Repr Rust.Spec Rust.ReachDefs Rust.ReachStep Rust.Reach Rust.ValidDefs Rust.Damage Rust.HeapOps Rust.HeapOpsSim
     Rust.NoUB Rust.Walk Rust.ValidAccept Rust.ValidSound Rust.MiscProofs Rust.Bridge Props.Reachable.

Theorem reachable_states_good : forall (V : Type) (c : nat) (ops : list (op V)), 4 <= c -> fits (ops_weight ops) ->
  exists b, state_after c ops = Some b /\ Good (ops_weight ops) b.
Proof.
  intros V c ops Hc F. destruct (@new_good V c Hc) as (b0 & E & G & _).
  destruct (@run_good V ops 0 b0 G F) as (G' & _).
  unfold state_after. rewrite E. eexists. split; [reflexivity|exact G'].
Qed.

Theorem reachable_states_have_room : forall (V : Type) (c : nat) (ops : list (op V)), 4 <= c -> fits (ops_weight ops + 1) ->
  exists b, state_after c ops = Some b /\ Inv b /\ rooms b /\
    room (lmeta b) 1 /\ room (bmeta b) (height (root b) + 2).
Proof.
  intros V c ops Hc F.
  assert (F0 : fits (ops_weight ops)) by (eapply fits_mono; [exact F|lia]).
  destruct (@reachable_states_good V c ops Hc F0) as (b & E & G). exists b. split; [exact E|].
  split; [exact (Good_inv G)|]. split; [exact (Good_rooms _ G F)|].
  split; [exact (Good_room_l _ G F)|exact (Good_room_b _ G F)].
Qed.

Theorem arena_level_on_reachable : forall (V : Type) (c : nat) (ops : list (op V)) (o : op V), 4 <= c -> fits (ops_weight ops + 1) ->
  exists b, state_after c ops = Some b /\
    match mut_A (flatten b) o with
    | Some r => r = Ok (flatten (fst (step b o)), snd (step b o))
    | None => True
    end.
Proof.
  intros V c ops o Hc F. destruct (@reachable_states_have_room V c ops Hc F) as (b & E & I & R & RL & RB).
  exists b. split; [exact E|]. apply mut_A_sim; assumption.
Qed.

Theorem chain_walk_visits_leaves : forall (V : Type) (c : nat) (ops : list (op V)), 4 <= c -> fits (ops_weight ops) ->
  exists b fid, state_after c ops = Some b /\ get_first_leaf_id (flatten b) = Ok (Some fid) /\
    chain_ids (S (S (length (store (hleaves (flatten b)))))) (flatten b) (Some fid) = Ok (leaf_ids (root b)) /\
    repr (flatten b) (root b).
Proof.
  intros V c ops Hc F. destruct (@reachable_state V c ops Hc F) as (b & E & I & R & HO & _).
  destruct (chain_spec I HO) as (id & A & B). exists b, id. repeat split; try assumption.
  - apply (ho_repr HO). - apply (ho_repr HO).
Qed.

Theorem item_iterator_fused : forall (V : Type) (h : heap V) s s',
  item_next h s = Ok (s', None) -> item_next h s' = Ok (s', None).
Proof.
  intros V h. unfold item_next. generalize (dfuel h) at 1. intros fuel.
  induction fuel as [|f IH]; intros s s' H; [discriminate|].
  cbn [item_next_f] in H.
  destruct (it_leaf s) as [l|] eqn:El.
  - destruct (try_get s l) as [[s1 item]| | |] eqn:Et; cbn [bind] in H; try discriminate.
    destruct item as [kv|]; [inversion H|].
    destruct (advance h s1) as [s2 ok] eqn:Ea. destruct ok.
    + apply IH in H. exact H.
    + inversion H; subst s2. clear H.
      unfold advance in Ea. destruct (it_leaf s1) as [l1|] eqn:El1.
      * destruct (N.eqb (lnext l1) NULL).
        -- inversion Ea; subst s'. unfold dfuel. cbn. reflexivity.
        -- inversion Ea as [[E1 E2]]. destruct (get_leaf h (lnext l1)); [discriminate|].
           unfold dfuel. cbn. reflexivity.
      * inversion Ea; subst s'. unfold dfuel. cbn [item_next_f]. rewrite El1. reflexivity.
  - inversion H; subst s'. unfold dfuel. cbn [item_next_f]. rewrite El. reflexivity.
Qed.

Definition okf {A} (r : res A) : Prop := (exists a, r = Ok a) \/ r = OutOfFuel.

Lemma all_res_okf : forall (l : list (res bool)) acc, okf acc -> (forall r, In r l -> okf r) ->
  okf (fold_left (fun (acc r : res bool) => do a <- acc; if (a : bool) then r else Ok false) l acc).
Proof.
  induction l as [|r l IH]; intros acc Ha Hl; cbn [fold_left]; [exact Ha|].
  apply IH; [|intros; apply Hl; right; assumption].
  destruct Ha as [[a ->]| ->]; cbn [bind].
  - destruct a; [apply Hl; left; reflexivity|left; eexists; reflexivity].
  - right; reflexivity.
Qed.

Lemma check_node_okf : forall (V : Type) fuel (h : heap V) r lo hi isroot, okf (check_node fuel h r lo hi isroot).
Proof.
  intros V. induction fuel as [|f IH]; intros h r lo hi isroot; cbn [check_node]; [right; reflexivity|].
  destruct r as [id|id].
  - destruct (get_leaf h id); left; eexists; reflexivity.
  - destruct (get_branch h id) as [b|]; [|left; eexists; reflexivity].
    repeat (match goal with |- okf (if ?c then _ else _) => destruct c; [left; eexists; reflexivity|] end).
    unfold all_res. apply all_res_okf; [left; eexists; reflexivity|].
    intros r Hr. apply in_map_iff in Hr. destruct Hr as ([i c] & <- & _).
    destruct (child_bounds (bkeys b) lo hi (fst (i, c))). apply IH.
Qed.

Theorem check_total : forall (V : Type) (h : heap V),
  (exists r, check_invariants h = Ok r) \/ check_invariants h = OutOfFuel.
Proof. intros. apply check_node_okf. Qed.

Theorem damage_gives_false : forall (V : Type) (h : heap V) r isroot lo hi,
  hreach h r isroot lo hi -> ~ node_ok h r isroot lo hi -> check_invariants h <> OutOfFuel ->
  check_invariants h = Ok false /\ check_invariants_detailed h = Ok (Some E_TREE).
Proof.
  intros V h r isroot lo hi HR HN HF.
  pose proof (@damaged_rejected V _ _ _ _ _ HR HN) as D.
  destruct (@check_total V h) as [[x E]|E]; [|contradiction].
  destruct x; [contradiction|]. split; [exact E|].
  unfold check_invariants_detailed. rewrite E. reflexivity.
Qed.

Theorem damage_refused_unchanged : forall (V : Type) (b : bstate V) r isroot lo hi k v z,
  hreach (flatten b) r isroot lo hi -> ~ node_ok (flatten b) r isroot lo hi ->
  check_invariants (flatten b) <> OutOfFuel ->
  try_insert b k v = Ok (b, None, Some (DataIntegrity E_TREE)) /\
  try_remove b z = Ok (b, None, Some (DataIntegrity E_TREE)).
Proof.
  intros V b r isroot lo hi k v z HR HN HF.
  destruct (@damage_gives_false V _ _ _ _ _ HR HN HF) as [_ E]. apply try_refuse_state. exact E.
Qed.

Theorem default_capacity_accepted : forall (V : Type), exists b, b_new V DEFAULT_CAPACITY = Some b /\ Inv b /\ contents (root b) = [].
Proof.
  intros V. destruct (@new_inv V DEFAULT_CAPACITY) as (b & E & I & _ & C & _); [unfold DEFAULT_CAPACITY; lia|].
  exists b. auto.
Qed.

Theorem batch_is_iterated_insert : forall (V : Type) (items : list (key * V)) (m : AMap.amap V),
  let r := spec_run m (map (fun kv => OInsert (fst kv) (snd kv)) items) in
  fst (spec_batch m items) = fst r /\ map (@UOpt V) (snd (spec_batch m items)) = snd r.
Proof.
  intros V. induction items as [|[k v] items IH]; intros m; cbv zeta.
  - cbn. auto.
  - cbn [map fst snd spec_run spec_step spec_batch].
    specialize (IH (m_insert m k v)). cbv zeta in IH.
    destruct (spec_batch (m_insert m k v) items) as [m' outs].
    destruct (spec_run (m_insert m k v) (map (fun kv => OInsert (fst kv) (snd kv)) items)) as [m2 xs].
    cbn [fst snd map] in *. destruct IH as [-> <-]. auto.
Qed.

Print Assumptions reachable_states_good.
Print Assumptions reachable_states_have_room.
Print Assumptions arena_level_on_reachable.
Print Assumptions chain_walk_visits_leaves.
Print Assumptions item_iterator_fused.
Print Assumptions check_total.
Print Assumptions damage_gives_false.
Print Assumptions damage_refused_unchanged.
Print Assumptions default_capacity_accepted.
Print Assumptions batch_is_iterated_insert.
