(* C16, strengthened specification.  The abstract machine of Rust/ArenaSpec.v ([sp]) is
   too permissive in one rule: [sp_compact] only says that the items after compact are a
   permutation of the items before; it says nothing about the HANDLES of the new state
   (duplicates and NULL would be allowed by the rule), and [sp_run] does not carry any
   well-formedness of the abstract state through the intermediate states.

   This file defines the machine [sp_step2] / [sp_run2]: the same rules, with the compact
   rule strengthened (new handles pairwise distinct, non-null, exactly the numbers
   0..n-1, assigned in the order of the old handles), proves
     - that every rule preserves [wf_spec] (handles pairwise distinct and non-null), so
       that EVERY intermediate state of EVERY [sp_run2] execution from a well-formed
       state is well-formed -- a fact about the specification alone;
     - that [sp_run2] is a restriction of [sp_run];
     - that every history of the concrete arena refines [sp_run2], with [wf_spec], the
       representation relation [R] and [ArenaInv] at every intermediate state of one and
       the same abstract execution;
     - the corollary "allocate never returns NULL or a live handle", compactions
       included.
   Nothing in Rust/ArenaSpec.v or Rust/ArenaProofs.v is modified. *)
From BPT Require Import Common.Base Rust.Arena Rust.ArenaSpec Rust.ArenaProofs.
From Coq Require Import Permutation.
Set Implicit Arguments.

(* ------------------------------------------------------------------ *)
(* generic list facts *)
Lemma skipn_nth_cons : forall (A : Type) (l : list A) k x,
  nth_error l k = Some x -> skipn k l = x :: skipn (S k) l.
Proof.
  induction l as [|y l IH]; intros [|k] x H; cbn [nth_error] in H; try discriminate.
  - inversion H. reflexivity.
  - cbn [skipn]. rewrite (IH k x H). reflexivity.
Qed.

Lemma skipn_cons_nth : forall (A : Type) (l : list A) k x r,
  skipn k l = x :: r -> nth_error l k = Some x.
Proof.
  induction l as [|y l IH]; intros [|k] x r H; cbn [skipn] in H; try discriminate.
  - inversion H. reflexivity.
  - cbn [nth_error]. apply (IH k x r H).
Qed.

Lemma count_true_firstn_le : forall mk j, count_true (firstn j mk) <= count_true mk.
Proof.
  induction mk as [|b mk IH]; intros [|j]; cbn [firstn]; try (cbn; lia).
  rewrite !count_true_cons. specialize (IH j). lia.
Qed.

Lemma count_true_firstn_lt : forall mk j,
  nth_error mk j = Some true -> count_true (firstn j mk) < count_true mk.
Proof.
  induction mk as [|b mk IH]; intros [|j] H; cbn [nth_error] in H; try discriminate.
  - inversion H; subst. cbn [firstn]. rewrite count_true_cons. cbn. lia.
  - cbn [firstn]. rewrite !count_true_cons. specialize (IH j H). lia.
Qed.

Section Spec2.
Variable T : Type.
Variable dflt : T.

(* ------------------------------------------------------------------ *)
(* association lists *)
Lemma assoc_none_notin : forall (l : list (N * T)) h,
  assoc l h = None <-> ~ In h (map fst l).
Proof.
  induction l as [|[k v] l IH]; intros h; cbn [assoc map fst In].
  - split; [intros _ [] | reflexivity].
  - destruct (N.eqb_spec k h) as [->|Hne].
    + split; [discriminate | intros H; exfalso; apply H; left; reflexivity].
    + rewrite IH. split; [intros H [E|Hin]; [contradiction | auto] | auto].
Qed.

Lemma assoc_some_in : forall (l : list (N * T)) h x,
  assoc l h = Some x -> In h (map fst l).
Proof.
  intros l h x E. destruct (in_dec N.eq_dec h (map fst l)) as [Hin|Hnin]; auto.
  apply assoc_none_notin in Hnin. congruence.
Qed.

Lemma in_assoc_some : forall (l : list (N * T)) h,
  In h (map fst l) -> assoc l h <> None.
Proof. intros l h Hin E. apply assoc_none_notin in E. contradiction. Qed.

(* number of live handles below h: the position of h in the sorted list of handles *)
Definition rank (l : list (N * T)) (h : N) : nat :=
  length (filter (fun p => N.ltb (fst p) h) l).

(* ------------------------------------------------------------------ *)
(* the strengthened machine *)
Definition wf_spec (m : amap T) : Prop :=
  NoDup (map fst (live m)) /\ ~ In NULL (map fst (live m)).

Inductive sp_step2 : amap T -> aop T -> aout T -> amap T -> Prop :=
| sp2_alloc m x h m' :
    h <> NULL -> assoc (live m) h = None ->
    assoc (live m') h = Some x ->
    (forall h', h' <> h -> assoc (live m') h' = assoc (live m) h') ->
    length (live m') = S (length (live m)) ->
    reusable m' = pred (reusable m) ->
    sp_step2 m (AAlloc x) (OId T h) m'
| sp2_rel_live m o h x m' :
    release_op o = Some h -> assoc (live m) h = Some x ->
    assoc (live m') h = None ->
    (forall h', h' <> h -> assoc (live m') h' = assoc (live m) h') ->
    S (length (live m')) = length (live m) ->
    reusable m' = S (reusable m) ->
    sp_step2 m o (release_out o (Some x)) m'
| sp2_rel_dead m o h :
    release_op o = Some h -> assoc (live m) h = None ->
    sp_step2 m o (release_out o None) m
| sp2_get m h : sp_step2 m (AGet T h) (OItem (assoc (live m) h)) m
| sp2_set_live m h x m' :
    assoc (live m) h <> None ->
    assoc (live m') h = Some x ->
    (forall h', h' <> h -> assoc (live m') h' = assoc (live m) h') ->
    length (live m') = length (live m) -> reusable m' = reusable m ->
    sp_step2 m (ASet h x) (OBool T true) m'
| sp2_set_dead m h x : assoc (live m) h = None -> sp_step2 m (ASet h x) (OBool T false) m
| sp2_has m h : sp_step2 m (AHas T h) (OBool T (is_some (assoc (live m) h))) m
| sp2_len m : sp_step2 m (ALen T) (ONat T (length (live m))) m
| sp2_alloc_count m : sp_step2 m (AAllocCount T) (ONat T (length (live m))) m
| sp2_is_empty m : sp_step2 m (AIsEmpty T) (OBool T (Nat.eqb (length (live m)) 0)) m
| sp2_free_count m : sp_step2 m (AFreeCount T) (ONat T (reusable m)) m
| sp2_stats m : sp_step2 m (AStats T) (OStats T (length (live m)) (reusable m)) m
| sp2_clear m : sp_step2 m (AClear T) (OUnit T) (mkAmap [] 0)
(* compact: same items, nothing reusable (as in [sp_compact]), and in addition: the new
   handles are pairwise distinct, non-null, all below the number n of live handles
   (hence exactly 0..n-1), and the item that was stored under the old handle h is now
   stored under the handle "number of old live handles below h" (the renumbering is
   monotone: it keeps the order of the old handles) *)
| sp2_compact m m' :
    Permutation (map snd (live m')) (map snd (live m)) -> reusable m' = 0 ->
    NoDup (map fst (live m')) ->
    ~ In NULL (map fst (live m')) ->
    (forall h', In h' (map fst (live m')) -> (h' < N.of_nat (length (live m)))%N) ->
    (forall h x, assoc (live m) h = Some x ->
                 assoc (live m') (N.of_nat (rank (live m) h)) = Some x) ->
    sp_step2 m (ACompact T) (OUnit T) m'.

Inductive sp_run2 : amap T -> list (aop T) -> list (aout T) -> amap T -> Prop :=
| sr2_nil m : sp_run2 m [] [] m
| sr2_cons m o out m1 ops outs m2 :
    sp_step2 m o out m1 -> sp_run2 m1 ops outs m2 ->
    sp_run2 m (o :: ops) (out :: outs) m2.

(* ------------------------------------------------------------------ *)
(* 1. the new machine is a restriction of the old one, and differs only in compact *)
Theorem sp_step2_refines_sp : forall m o out m', sp_step2 m o out m' -> sp m o out m'.
Proof.
  intros m o out m' H. destruct H.
  - apply sp_alloc; assumption.
  - apply sp_rel_live with (h := h); assumption.
  - apply sp_rel_dead with (h := h); assumption.
  - apply sp_get.
  - apply sp_set_live; assumption.
  - apply sp_set_dead; assumption.
  - apply sp_has.
  - apply sp_len.
  - apply sp_alloc_count.
  - apply sp_is_empty.
  - apply sp_free_count.
  - apply sp_stats.
  - apply sp_clear.
  - apply sp_compact; assumption.
Qed.

Theorem sp_run2_refines_sp_run : forall m ops outs m',
  sp_run2 m ops outs m' -> sp_run m ops outs m'.
Proof.
  intros m ops outs m' H. induction H as [m | m o out m1 ops outs m2 Hs _ IH].
  - constructor.
  - apply sr_cons with (m1 := m1); [apply sp_step2_refines_sp; exact Hs | exact IH].
Qed.

Lemma sp_not_compact_sp_step2 : forall m o out m',
  sp m o out m' -> o <> ACompact T -> sp_step2 m o out m'.
Proof.
  intros m o out m' H Hne. destruct H.
  - apply sp2_alloc; assumption.
  - apply sp2_rel_live with (h := h); assumption.
  - apply sp2_rel_dead with (h := h); assumption.
  - apply sp2_get.
  - apply sp2_set_live; assumption.
  - apply sp2_set_dead; assumption.
  - apply sp2_has.
  - apply sp2_len.
  - apply sp2_alloc_count.
  - apply sp2_is_empty.
  - apply sp2_free_count.
  - apply sp2_stats.
  - apply sp2_clear.
  - contradiction.
Qed.

(* ------------------------------------------------------------------ *)
(* 2. every rule preserves well-formedness *)
Lemma keys_incl : forall (l l' : list (N * T)),
  (forall k, assoc l k <> None -> assoc l' k <> None) ->
  incl (map fst l) (map fst l').
Proof.
  intros l l' H k Hin. apply in_assoc_some in Hin. apply H in Hin.
  destruct (assoc l' k) as [x|] eqn:E; [| contradiction].
  apply (assoc_some_in l' k E).
Qed.

Lemma null_preserved : forall (l l' : list (N * T)),
  ~ In NULL (map fst l) -> assoc l' NULL = assoc l NULL -> ~ In NULL (map fst l').
Proof.
  intros l l' Hn E. apply assoc_none_notin. rewrite E. apply assoc_none_notin. exact Hn.
Qed.

Theorem sp_step2_wf : forall m o x m', wf_spec m -> sp_step2 m o x m' -> wf_spec m'.
Proof.
  intros m o out m' (Hnd & Hnn) H.
  destruct H as [m x h m' Hne Hfresh Hnew Hoth Hlen Hreu
                | m o h x m' Ho Hlive Hgone Hoth Hlen Hreu
                | m o h Ho Hdead | m h
                | m h x m' Hlive Hnew Hoth Hlen Hreu
                | m h x Hdead | m h | m | m | m | m | m | m
                | m m' Hperm Hreu Hnd' Hnn' Hrange Hrank];
    try (split; assumption).
  - (* allocate *)
    split.
    + apply (@NoDup_incl_NoDup N (h :: map fst (live m))).
      * constructor; [apply assoc_none_notin; exact Hfresh | exact Hnd].
      * cbn [length]. rewrite !map_length. lia.
      * intros k [<-|Hin]; [apply (assoc_some_in _ _ Hnew) |].
        destruct (N.eq_dec k h) as [->|Hk]; [apply (assoc_some_in _ _ Hnew) |].
        apply in_assoc_some in Hin. rewrite <- (Hoth k Hk) in Hin.
        destruct (assoc (live m') k) as [y|] eqn:E; [| contradiction].
        apply (assoc_some_in _ _ E).
    + apply (null_preserved (live m) (live m') Hnn). apply Hoth. congruence.
  - (* release of a live handle *)
    split.
    + assert (Hnd2 : NoDup (h :: map fst (live m'))).
      { apply (@NoDup_incl_NoDup N (map fst (live m))); [exact Hnd | |].
        - cbn [length]. rewrite !map_length. lia.
        - intros k Hin. destruct (N.eq_dec k h) as [->|Hk]; [left; reflexivity |].
          right. apply in_assoc_some in Hin. rewrite <- (Hoth k Hk) in Hin.
          destruct (assoc (live m') k) as [y|] eqn:E; [| contradiction].
          apply (assoc_some_in _ _ E). }
      inversion Hnd2; assumption.
    + destruct (N.eq_dec NULL h) as [<-|Hk].
      * apply assoc_none_notin. exact Hgone.
      * apply (null_preserved (live m) (live m') Hnn). apply Hoth. exact Hk.
  - (* set on a live handle *)
    split.
    + apply (@NoDup_incl_NoDup N (map fst (live m))); [exact Hnd | |].
      * rewrite !map_length. lia.
      * intros k Hin. destruct (N.eq_dec k h) as [->|Hk]; [apply (assoc_some_in _ _ Hnew) |].
        apply in_assoc_some in Hin. rewrite <- (Hoth k Hk) in Hin.
        destruct (assoc (live m') k) as [y|] eqn:E; [| contradiction].
        apply (assoc_some_in _ _ E).
    + destruct (N.eq_dec NULL h) as [<-|Hk].
      * exfalso. apply Hlive. apply assoc_none_notin. exact Hnn.
      * apply (null_preserved (live m) (live m') Hnn). apply Hoth. exact Hk.
  - (* clear *)
    split; cbn [live map]; [constructor | intros []].
Qed.


(* the intermediate states of any execution of the specification are well-formed: for
   every k the execution splits into a run of the first k steps reaching a well-formed
   state mk and a run of the remaining steps from mk *)
Theorem sp_run2_wf : forall m ops outs m',
  wf_spec m -> sp_run2 m ops outs m' -> wf_spec m'.
Proof.
  intros m ops outs m' Hwf H. induction H as [m | m o out m1 ops outs m2 Hs _ IH]; auto.
  apply IH. apply (sp_step2_wf Hwf Hs).
Qed.

Theorem sp_run2_prefix_wf : forall m ops outs m',
  wf_spec m -> sp_run2 m ops outs m' ->
  forall k, exists mk,
    sp_run2 m (firstn k ops) (firstn k outs) mk /\
    sp_run2 mk (skipn k ops) (skipn k outs) m' /\ wf_spec mk.
Proof.
  intros m ops outs m' Hwf H. revert Hwf.
  induction H as [m | m o out m1 ops outs m2 Hs Hr IH]; intros Hwf k.
  - exists m. destruct k; cbn [firstn skipn]; repeat split; try constructor; apply Hwf.
  - destruct k as [|k].
    + exists m. cbn [firstn skipn].
      split; [constructor | split; [apply sr2_cons with (m1 := m1); assumption | exact Hwf]].
    + destruct (IH (sp_step2_wf Hwf Hs) k) as (mk & H1 & H2 & H3).
      exists mk. cbn [firstn skipn].
      split; [apply sr2_cons with (m1 := m1); assumption | split; assumption].
Qed.

(* an allocate step anywhere in an execution of the specification returns a handle that
   is not null and not among the (pairwise distinct) live handles of the state before
   the step, and that is live afterwards *)
Theorem sp_run2_alloc_fresh : forall m ops outs m',
  wf_spec m -> sp_run2 m ops outs m' ->
  forall k x, nth_error ops k = Some (AAlloc x) ->
  exists h mk mk1,
    nth_error outs k = Some (OId T h) /\
    sp_run2 m (firstn k ops) (firstn k outs) mk /\
    sp_step2 mk (AAlloc x) (OId T h) mk1 /\
    sp_run2 mk1 (skipn (S k) ops) (skipn (S k) outs) m' /\
    wf_spec mk /\ wf_spec mk1 /\
    h <> NULL /\ ~ In h (map fst (live mk)) /\ assoc (live mk1) h = Some x.
Proof.
  intros m ops outs m' Hwf Hrun k x Hk.
  destruct (sp_run2_prefix_wf Hwf Hrun k) as (mk & H1 & H2 & H3).
  rewrite (skipn_nth_cons ops k Hk) in H2.
  inversion H2 as [| ? ? out mk1 ? outs' ? Hs Hr Em Eo Eout Em2]; subst.
  assert (Hout : exists h, out = OId T h).
  { inversion Hs; subst; try discriminate; eauto. }
  destruct Hout as (h & ->).
  exists h, mk, mk1.
  assert (Hnth : nth_error outs k = Some (OId T h))
    by (apply (skipn_cons_nth outs k (eq_sym Eout))).
  split; [exact Hnth |]. split; [exact H1 |]. split; [exact Hs |].
  split.
  { rewrite (skipn_nth_cons outs k Hnth) in Eout.
    assert (E' : outs' = skipn (S k) outs) by congruence. rewrite <- E'. exact Hr. }
  split; [exact H3 |]. split; [apply (sp_step2_wf H3 Hs) |].
  inversion Hs as [? x0 h0 ? Hne Hfresh Hnew Hoth Hlen Hreu | | | | | | | | | | | | |]; subst.
  split; [exact Hne |]. split; [apply assoc_none_notin; exact Hfresh | exact Hnew].
Qed.

(* ------------------------------------------------------------------ *)
(* 3. the concrete arena refines the strengthened machine *)
Lemma R_wf : forall (a : arena T) m, R a m -> wf_spec m.
Proof.
  intros a m (Hnd & Hget & _). split; [exact Hnd |].
  apply assoc_none_notin. rewrite <- Hget. apply get_null.
Qed.

Lemma rank_perm : forall (l l' : list (N * T)) h,
  Permutation l l' -> rank l h = rank l' h.
Proof.
  intros l l' h H. unfold rank.
  induction H as [| p l l' _ IH | p q l | l1 l2 l3 _ IH1 _ IH2]; cbn [filter]; auto.
  - destruct (N.ltb (fst p) h); cbn [length]; lia.
  - destruct (N.ltb (fst p) h), (N.ltb (fst q) h); reflexivity.
  - lia.
Qed.

Lemma rank_live_pairs : forall (st : list T) mk s h,
  length st = length mk ->
  rank (live_pairs T s st mk) h = count_true (firstn (N.to_nat h - s) mk).
Proof.
  unfold rank.
  induction st as [|x st IH]; intros [|b mk] s h Hlen; cbn [length] in Hlen;
    try discriminate.
  - cbn [live_pairs filter length]. destruct (N.to_nat h - s); reflexivity.
  - assert (Hlen' : length st = length mk) by lia.
    specialize (IH mk (S s) h Hlen').
    destruct (Nat.lt_ge_cases s (N.to_nat h)) as [Hlt|Hge].
    + replace (N.to_nat h - s) with (S (N.to_nat h - S s)) by lia.
      cbn [firstn]. rewrite count_true_cons. destruct b; cbn [live_pairs].
      * cbn [filter fst]. destruct (N.ltb_spec (N.of_nat s) h) as [_|Hc]; [| lia].
        cbn [length]. rewrite IH. reflexivity.
      * rewrite IH. reflexivity.
    + replace (N.to_nat h - s) with 0 by lia.
      replace (N.to_nat h - S s) with 0 in IH by lia. cbn [firstn] in *.
      destruct b; cbn [live_pairs].
      * cbn [filter fst]. destruct (N.ltb_spec (N.of_nat s) h) as [Hc|_]; [lia |].
        exact IH.
      * exact IH.
Qed.

Lemma nth_live_items : forall (st : list T) mk j x,
  nth_error mk j = Some true -> nth_error st j = Some x ->
  nth_error (live_items st mk) (count_true (firstn j mk)) = Some x.
Proof.
  induction st as [|y st IH]; intros [|b mk] j x Hm Hs; destruct j as [|j];
    cbn [nth_error] in Hm, Hs; try discriminate.
  - inversion Hm; subst. cbn [firstn live_items]. exact Hs.
  - cbn [firstn live_items]. rewrite count_true_cons.
    destruct b; cbn [Nat.add nth_error]; apply IH; assumption.
Qed.

Lemma compact_refines2 : forall (a : arena T) m, ArenaInv a -> small a -> R a m ->
  sp_step2 m (ACompact T) (OUnit T) (abs T (a_compact a)) /\
  R (a_compact a) (abs T (a_compact a)) /\ ArenaInv (a_compact a) /\
  length (store (a_compact a)) <= length (store a).
Proof.
  intros a m Hinv Hsm HR. pose proof Hinv as (Hlen' & _).
  pose proof HR as (Hnd & Hget & Hreu).
  destruct (compact_spec T a Hlen') as (Hinv' & Hst & _ & _ & Hgetc).
  assert (Hle : length (store (a_compact a)) <= length (store a))
    by (rewrite Hst; apply live_items_length_le).
  assert (Hsm' : small (a_compact a)) by (unfold small, NULL in *; lia).
  pose proof (R_abs T (a_compact a) Hsm') as HR'.
  pose proof (live_pairs_perm T a m Hsm HR) as Hperm.
  pose proof (len_card T a m Hinv Hsm HR) as Hcard.
  split; [| split; [exact HR' | split; [exact Hinv' | exact Hle]]].
  apply sp2_compact.
  - unfold abs. cbn [live]. rewrite map_snd_live_pairs. unfold a_compact at 1 2.
    cbn [store mask]. rewrite live_items_trues.
    rewrite <- (map_snd_live_pairs T (store a) (mask a) 0).
    apply Permutation_map. exact Hperm.
  - reflexivity.
  - apply (proj1 (R_wf HR')).
  - apply (proj2 (R_wf HR')).
  - intros h' Hin. unfold abs in Hin. cbn [live] in Hin.
    apply in_map_iff in Hin. destruct Hin as ([k y] & Ek & Hin). cbn [fst] in Ek. subst k.
    apply in_live_pairs in Hin. destruct Hin as (j & -> & Hj & _).
    assert (Hlt : j < length (store (a_compact a))) by (apply nth_error_Some; congruence).
    rewrite Hst, <- (len_live_items T a Hlen'), Hcard in Hlt. cbn [Nat.add]. lia.
  - intros h x Hx. destruct HR' as (_ & Hget' & _). rewrite <- Hget'.
    rewrite <- Hget in Hx. apply a_get_Some in Hx. destruct Hx as (Hne & Hmk & Hsx).
    rewrite <- (rank_perm h Hperm), (rank_live_pairs (store a) (mask a) 0 h Hlen').
    rewrite Nat.sub_0_r. rewrite Hgetc.
    pose proof (count_true_firstn_lt (mask a) (N.to_nat h) Hmk) as Hlt.
    fold (a_len a) in Hlt. rewrite (len_live_items T a Hlen'), <- Hst in Hlt.
    destruct (N.eqb_spec (N.of_nat (count_true (firstn (N.to_nat h) (mask a)))) NULL)
      as [E|_].
    + exfalso. unfold small in Hsm'. rewrite <- E in Hsm'. lia.
    + apply nth_live_items; assumption.
Qed.

Theorem step_refines2 : forall (a : arena T) m o, ArenaInv a -> R a m ->
  (N.of_nat (S (length (store a))) < NULL)%N ->
  exists m', sp_step2 m o (snd (astep dflt a o)) m' /\ R (fst (astep dflt a o)) m' /\
    ArenaInv (fst (astep dflt a o)) /\ snd (astep dflt a o) <> OPanic T /\
    length (store (fst (astep dflt a o))) <= S (length (store a)).
Proof.
  intros a m o Hinv HR Hb.
  pose proof (step_refines T dflt a m o Hinv HR Hb) as Hold.
  destruct o as [x|h|h|h|h|h x|h| | | | | | |];
    try (destruct Hold as (m' & Hsp & Hrest);
         exists m'; split; [apply sp_not_compact_sp_step2; [exact Hsp | discriminate]
                           | exact Hrest]).
  assert (Hsm : small a) by (unfold small, NULL in *; lia).
  destruct (compact_refines2 Hinv Hsm HR) as (Hs & HR' & Hinv' & Hle).
  exists (abs T (a_compact a)). cbn [astep fst snd].
  split; [exact Hs | split; [exact HR' | split; [exact Hinv' |]]].
  split; [discriminate | lia].
Qed.

(* histories: one abstract execution, and at every cut point k of it the abstract state
   is well-formed and represents the concrete arena reached by the first k calls *)
Theorem arena_refines2 : forall ops (a : arena T) m, ArenaInv a -> R a m ->
  (N.of_nat (length (store a) + length ops) < NULL)%N ->
  exists m', sp_run2 m ops (snd (arun dflt a ops)) m' /\ R (fst (arun dflt a ops)) m' /\
    ArenaInv (fst (arun dflt a ops)) /\ ~ In (OPanic T) (snd (arun dflt a ops)) /\
    forall k, exists mk,
      sp_run2 m (firstn k ops) (firstn k (snd (arun dflt a ops))) mk /\
      sp_run2 mk (skipn k ops) (skipn k (snd (arun dflt a ops))) m' /\
      wf_spec mk /\ R (fst (arun dflt a (firstn k ops))) mk /\
      ArenaInv (fst (arun dflt a (firstn k ops))).
Proof.
  induction ops as [|o ops IH]; intros a m Hinv HR Hb.
  - cbn [arun fst snd]. exists m.
    split; [constructor | split; [exact HR | split; [exact Hinv | split; [intros [] |]]]].
    intros k. exists m. destruct k; cbn [firstn skipn arun fst];
      (split; [constructor | split; [constructor | split; [apply (R_wf HR) | auto]]]).
  - cbn [length] in Hb.
    assert (Hb1 : (N.of_nat (S (length (store a))) < NULL)%N)
      by (unfold NULL in *; lia).
    destruct (@step_refines2 a m o Hinv HR Hb1) as (m1 & Hsp & HR1 & Hinv1 & Hnp & Hle).
    cbn [arun]. destruct (astep dflt a o) as [a1 out] eqn:Estep. cbn [fst snd] in *.
    assert (Hb2 : (N.of_nat (length (store a1) + length ops) < NULL)%N)
      by (unfold NULL in *; lia).
    destruct (IH a1 m1 Hinv1 HR1 Hb2) as (m2 & Hrun & HR2 & Hinv2 & Hnp2 & Hpre).
    exists m2.
    assert (Hfull : sp_run2 m (o :: ops) (out :: snd (arun dflt a1 ops)) m2)
      by (apply sr2_cons with (m1 := m1); assumption).
    destruct (arun dflt a1 ops) as [a2 outs] eqn:Erun. cbn [fst snd] in *.
    split; [exact Hfull | split; [exact HR2 | split; [exact Hinv2 | split]]].
    + intros [E | Hin]; [apply Hnp; exact E | apply Hnp2; exact Hin].
    + intros [|k].
      * exists m. cbn [firstn skipn arun fst].
        split; [constructor | split; [exact Hfull | split; [apply (R_wf HR) | auto]]].
      * destruct (Hpre k) as (mk & H1 & H2 & H3 & H4 & H5).
        exists mk. cbn [firstn skipn arun]. rewrite Estep.
        destruct (arun dflt a1 (firstn k ops)) as [ak outsk]. cbn [fst] in *.
        split; [apply sr2_cons with (m1 := m1); assumption |].
        split; [exact H2 | split; [exact H3 | split; assumption]].
Qed.

End Spec2.

(* ------------------------------------------------------------------ *)
(* 4. the pinned statements *)

(* C16_history_refines_handle_map with [sp_run] replaced by the strengthened machine,
   plus: for every k the SAME abstract execution splits after k steps at a state mk
   that is well-formed (handles pairwise distinct and non-null), represents the concrete
   arena reached by the first k calls, and that arena satisfies its invariant. *)
Theorem history_refines_handle_map2 :
  forall (T : Type) (dflt : T) (ops : list (aop T)),
    (N.of_nat (length ops) < NULL)%N ->
    exists m',
      sp_run2 (mkAmap [] 0) ops (snd (arun dflt a_new ops)) m' /\
      R (fst (arun dflt a_new ops)) m' /\
      ArenaInv (fst (arun dflt a_new ops)) /\
      ~ In (OPanic T) (snd (arun dflt a_new ops)) /\
      forall k, exists mk,
        sp_run2 (mkAmap [] 0) (firstn k ops) (firstn k (snd (arun dflt a_new ops))) mk /\
        sp_run2 mk (skipn k ops) (skipn k (snd (arun dflt a_new ops))) m' /\
        wf_spec mk /\ R (fst (arun dflt a_new (firstn k ops))) mk /\
        ArenaInv (fst (arun dflt a_new (firstn k ops))).
Proof.
  intros T dflt ops H.
  apply arena_refines2; [apply inv_new | apply R_new | exact H].
Qed.

(* In any history of arena calls (fewer than 2^32-1 of them) on a fresh arena, whatever
   came before -- compactions included -- the k-th call, if it is an allocate, returns a
   handle h that is not NULL, for which the arena answered "dead" just before the call,
   and that is not among the pairwise distinct, non-null live handles of the abstract
   state mk reached by the first k calls (mk represents the concrete arena at that
   point, and the abstract machine takes the allocate step from mk). *)
Theorem allocate_never_returns_live_or_null2 :
  forall (T : Type) (dflt : T) (ops : list (aop T)) (k : nat) (x : T),
    (N.of_nat (length ops) < NULL)%N ->
    nth_error ops k = Some (AAlloc x) ->
    exists h mk mk1,
      nth_error (snd (arun dflt a_new ops)) k = Some (OId T h) /\
      sp_run2 (mkAmap [] 0) (firstn k ops) (firstn k (snd (arun dflt a_new ops))) mk /\
      sp_step2 mk (AAlloc x) (OId T h) mk1 /\
      wf_spec mk /\ R (fst (arun dflt a_new (firstn k ops))) mk /\
      h <> NULL /\ ~ In h (map fst (live mk)) /\
      a_get (fst (arun dflt a_new (firstn k ops))) h = None /\
      assoc (live mk1) h = Some x /\ wf_spec mk1.
Proof.
  intros T dflt ops k x Hb Hk.
  destruct (history_refines_handle_map2 dflt ops Hb) as (m' & _ & _ & _ & _ & Hpre).
  destruct (Hpre k) as (mk & H1 & H2 & Hwf & HR & _).
  set (outs := snd (arun dflt a_new ops)) in *.
  rewrite (skipn_nth_cons ops k Hk) in H2.
  inversion H2 as [| ? ? out mk1 ? outs' ? Hs Hr Em Eo Eout Em2]; subst.
  assert (Hout : exists h, out = OId T h).
  { inversion Hs; subst; try discriminate; eauto. }
  destruct Hout as (h & ->).
  exists h, mk, mk1.
  split; [apply (skipn_cons_nth outs k (eq_sym Eout)) |].
  split; [exact H1 |]. split; [exact Hs |]. split; [exact Hwf |]. split; [exact HR |].
  inversion Hs as [? x0 h0 ? Hne Hfresh Hnew Hoth Hlen Hreu | | | | | | | | | | | | |]; subst.
  split; [exact Hne |]. split; [apply assoc_none_notin; exact Hfresh |].
  split; [destruct HR as (_ & Hget & _); rewrite Hget; exact Hfresh |].
  split; [exact Hnew | apply (sp_step2_wf Hwf Hs)].
Qed.

(* after compact the handles are pairwise distinct, non-null and exactly 0..n-1: a
   consequence of the specification alone *)
Theorem sp_step2_compact_handles : forall (T : Type) (m m' : amap T) out,
  wf_spec m -> sp_step2 m (ACompact T) out m' ->
  length (live m') = length (live m) /\
  NoDup (map fst (live m')) /\ ~ In NULL (map fst (live m')) /\
  (forall h, In h (map fst (live m')) <-> (h < N.of_nat (length (live m)))%N).
Proof.
  intros T m m' out Hwf Hs.
  inversion Hs as [| | | | | | | | | | | | | ? ? Hperm Hreu Hnd Hnn Hrange Hrank]; subst;
    try discriminate.
  assert (Hlen : length (live m') = length (live m)).
  { rewrite <- (map_length snd (live m')), <- (map_length snd (live m)).
    apply Permutation_length. exact Hperm. }
  split; [exact Hlen | split; [exact Hnd | split; [exact Hnn |]]].
  intros h. split; [apply Hrange |]. intros Hlt.
  (* the n distinct handles all lie in {0..n-1}: pigeonhole *)
  set (n := length (live m)) in *.
  assert (Hincl : incl (map fst (live m')) (map N.of_nat (seq 0 n))).
  { intros k Hk. apply Hrange in Hk. apply in_map_iff. exists (N.to_nat k).
    split; [apply N2Nat.id | apply in_seq; lia]. }
  assert (Hincl' : incl (map N.of_nat (seq 0 n)) (map fst (live m'))).
  { apply NoDup_length_incl; [exact Hnd | | exact Hincl].
    rewrite !map_length, seq_length. lia. }
  apply Hincl'. apply in_map_iff. exists (N.to_nat h).
  split; [apply N2Nat.id | apply in_seq; lia].
Qed.

(* the strengthening is strict: the old rule accepts a compact step whose new state
   stores both items under the null handle; the new rule rejects it *)
Example sp_compact_was_too_weak : forall (T : Type) (x y : T),
  sp (mkAmap [(0%N, x); (1%N, y)] 0) (ACompact T) (OUnit T)
     (mkAmap [(NULL, x); (NULL, y)] 0) /\
  ~ sp_step2 (mkAmap [(0%N, x); (1%N, y)] 0) (ACompact T) (OUnit T)
             (mkAmap [(NULL, x); (NULL, y)] 0).
Proof.
  intros T x y. split.
  - apply sp_compact; [apply Permutation_refl | reflexivity].
  - intros Hs.
    inversion Hs as [| | | | | | | | | | | | | ? ? Hperm Hreu Hnd Hnn Hrange Hrank]; subst.
    apply Hnn. left. reflexivity.
Qed.

Print Assumptions sp_step2_wf.
Print Assumptions sp_run2_prefix_wf.
Print Assumptions sp_run2_refines_sp_run.
Print Assumptions sp_run2_alloc_fresh.
Print Assumptions step_refines2.
Print Assumptions history_refines_handle_map2.
Print Assumptions allocate_never_returns_live_or_null2.
Print Assumptions sp_step2_compact_handles.
