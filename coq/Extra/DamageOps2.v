(* C14, the cases Extra/DamageOps.v left open:
     1. EBranchPushLeaf on a full branch (the edit that builds an otherwise VALID overfull
        branch: fresh leaf allocated and linked into the chain, separator = its first key);
     2. EBranchKey edits that keep the branch itself sorted and within capacity but push a
        key of a descendant outside the NEW interval (at any depth below the branch; the
        bottom-level case, where the witness leaf is a direct child, is a corollary);
     3. the summary over [damaging2] = [damaging] + the two new cases;
     4. non-vacuity examples on reachable states. *)
From Coq Require Import List Arith ZArith NArith Lia Bool Permutation.
From BPT Require Import Common.Base Common.AMap Rust.Arena Rust.ArenaSpec Rust.ArenaProofs
  Rust.Tree Rust.Heap Rust.Readers Rust.Run Rust.InvDefs Rust.Repr Rust.Lib Rust.Bridge
  Rust.TreeFactsI Rust.ValidDefs Rust.Damage Rust.ValidSound Rust.ValidAccept Rust.ChainExact
  Rust.Walk Rust.Spec Rust.ReachDefs Props.Reachable Extra.RustExtra Extra.RustExtra2
  Extra.DamageOps.
Import ListNotations.
Set Implicit Arguments.

(* ------------------------------------------------------------------ *)
(* key-list helpers *)
Lemma D2_set_kz_length : forall i z ks, length (set_kz i z ks) = length ks.
Proof.
  intros i z ks. unfold set_kz. destruct (nth_error ks i); [apply length_set_nth|reflexivity].
Qed.

(* the interval handed to child i ends at the rewritten separator ... *)
Lemma D2_cb_snd_set : forall ks i z ki lo hi, nth_error ks i = Some ki ->
  snd (child_bounds (set_kz i z ks) lo hi i) = Some z.
Proof.
  intros ks i z ki lo hi H. unfold child_bounds. cbn [snd]. rewrite D2_set_kz_length.
  assert (Hl : i < length ks) by (apply nth_error_Some; congruence).
  destruct (Nat.eqb_spec i (length ks)) as [E|_]; [lia|].
  rewrite (@DO_set_kz_same ks i z ki H). reflexivity.
Qed.

(* ... and the one handed to child i+1 starts there *)
Lemma D2_cb_fst_set : forall ks i z ki lo hi, nth_error ks i = Some ki ->
  fst (child_bounds (set_kz i z ks) lo hi (S i)) = Some z.
Proof.
  intros ks i z ki lo hi H. unfold child_bounds. cbn [fst Nat.eqb].
  replace (S i - 1) with i by lia.
  rewrite (@DO_set_kz_same ks i z ki H). reflexivity.
Qed.

Lemma D2_half_pos : forall c, 4 <= c -> 2 <= c / 2.
Proof.
  intros c H. pose proof (Nat.div_mod c 2). pose proof (Nat.mod_upper_bound c 2). lia.
Qed.

(* ------------------------------------------------------------------ *)
Section DamageOps2.
Variable V : Type.
Notation heap := (heap V).
Notation leaf := (leaf V).
Notation ptree := (ptree V).

(* a leaf holding a key outside the interval it is reached with is not node_ok *)
Lemma leaf_key_outside_not_ok : forall (h : heap) lid l ir lo hi k,
  get_leaf h lid = Some l -> In k (lkeys l) -> ~ in_bounds lo hi k ->
  ~ node_ok h (RLeaf lid) ir lo hi.
Proof.
  intros h lid l ir lo hi k Hg Hin Hn (l1 & E & _ & _ & _ & _ & F).
  rewrite Hg in E. inversion E; subst l1. rewrite Forall_forall in F. apply Hn. apply F. exact Hin.
Qed.

(* ------------------------------------------------------------------ *)
(* 1. EBranchPushLeaf *)

Lemma valid_kid_leaf : forall (b : bstate V) id x lid ir lo hi, Inv b -> rooms b ->
  hreach (flatten b) (RBranch id) ir lo hi -> get_branch (flatten b) id = Some x ->
  In (RLeaf lid) (bkids x) -> exists l, get_leaf (flatten b) lid = Some l.
Proof.
  intros b id x lid ir lo hi I R Hr Hg Hin. apply In_nth_error in Hin. destruct Hin as (j & Hj).
  pose proof (hreach_child j Hr Hg Hj) as Hc. pose proof (valid_hwf I R Hc) as W.
  inversion W as [? ? ? ? l Hgl _ _ _ _ _|]; subst. eauto.
Qed.

Definition pl_relink (nid : N) (l' : leaf) : leaf := mkLeaf (lcap l') (lkeys l') (lvals l') nid.
Definition pl_push (k : key) (nid : N) (b' : branch) : branch :=
  mkBranch (bcap b') (bkeys b' ++ [k]) (bkids b' ++ [RLeaf nid]).

(* on a valid state the edit always takes effect: the last child is an allocated leaf and
   the allocation succeeds (rooms b keeps the arena below the id bound) *)
Lemma push_leaf_unfold : forall (b : bstate V) p bid x lid k ks' vs, Inv b -> rooms b ->
  branch_at (flatten b) p = Some bid -> get_branch (flatten b) bid = Some x ->
  last_opt (bkids x) = Some (RLeaf lid) ->
  exists l a nid,
    get_leaf (flatten b) lid = Some l /\
    allocate (hleaves (flatten b)) (mkLeaf (cap b) (k :: ks') vs (lnext l)) = Ok (a, nid) /\
    length (store (hleaves (flatten b))) <= length (store a) /\
    apply_edit (flatten b) (EBranchPushLeaf p (k :: ks') vs) =
      upd_branch (upd_leaf (mkHeap (cap b) (hroot (flatten b)) a (hbranches (flatten b)))
                           lid (pl_relink nid))
                 bid (pl_push k nid).
Proof.
  intros b p bid x lid k ks' vs I R Hat Hg Hl.
  destruct (valid_branch_at _ I R Hat) as (x0 & ir & lo & hi & _ & Hr & _).
  destruct (@valid_kid_leaf b bid x lid ir lo hi I R Hr Hg (DO_last_opt_in _ Hl)) as (l & Hgl).
  destruct (valid_arena_inv I R) as (AI & Sm & _ & _).
  destruct (@allocate_spec _ _ (mkLeaf (cap b) (k :: ks') vs (lnext l)) AI Sm)
    as (a & nid & Ea & _ & _ & _ & _ & _ & _ & _ & Hlen).
  exists l, a, nid. split; [exact Hgl|]. split; [exact Ea|]. split.
  - rewrite Hlen. destruct (free (hleaves (flatten b))); lia.
  - cbn [apply_edit]. rewrite Hat, Hg, Hl, Hgl. change (hcap (flatten b)) with (cap b).
    rewrite Ea. reflexivity.
Qed.

Theorem edit_EBranchPushLeaf_rejected_full : forall (b : bstate V) p bid x ks vs,
  Inv b -> rooms b -> branch_at (flatten b) p = Some bid -> get_branch (flatten b) bid = Some x ->
  (exists lid, last_opt (bkids x) = Some (RLeaf lid)) -> ks <> [] ->
  cap b <= length (bkeys x) ->
  rejected (apply_edit (flatten b) (EBranchPushLeaf p ks vs)).
Proof.
  intros b p bid x ks vs I R Hat Hg (lid & Hl) Hks Hfull.
  destruct ks as [|k ks']; [congruence|].
  destruct (@push_leaf_unfold b p bid x lid k ks' vs I R Hat Hg Hl) as (l & a & nid & Hgl & _ & Hlen & ->).
  set (h := flatten b) in *.
  set (h1 := mkHeap (cap b) (hroot h) a (hbranches h)).
  set (h2 := upd_leaf h1 lid (pl_relink nid)).
  set (h3 := upd_branch h2 bid (pl_push k nid)).
  assert (B2 : forall i, get_branch h2 i = get_branch h i).
  { intros i. unfold h2. rewrite upd_leaf_get_branch. reflexivity. }
  assert (Hg3 : get_branch h3 bid = Some (pl_push k nid x)).
  { apply upd_branch_same. rewrite B2. exact Hg. }
  assert (Ho : forall i, i <> bid -> get_branch h3 i = get_branch h i).
  { intros i Hi. unfold h3. rewrite upd_branch_other by exact Hi. apply B2. }
  assert (Er : hroot h3 = hroot h).
  { unfold h3, h2. rewrite upd_branch_root, upd_leaf_root. reflexivity. }
  assert (Ec : hcap h3 = cap b).
  { unfold h3, h2. rewrite upd_branch_cap, upd_leaf_cap. reflexivity. }
  assert (En : nslots h <= nslots h3).
  { unfold h3, h2. rewrite upd_branch_nslots, upd_leaf_nslots. unfold nslots, h1.
    cbn [hleaves hbranches]. lia. }
  destruct (valid_branch_at _ I R Hat) as (x0 & ir & lo & hi & _ & Hr & _).
  destruct (@hreach_change_branch_self V h h3 bid _ _ _ Er Ho Hr) as (ir0 & lo0 & hi0 & Hr3).
  apply reject_core with (r := RBranch bid) (ir := ir0) (lo := lo0) (hi := hi0); [exact Hr3| |].
  - eapply branch_bad_not_ok; [exact Ec|exact Er|exact Hg3|exact Hr3|].
    right. right. left. cbn [pl_push bkeys]. rewrite app_length. cbn [length]. lia.
  - rewrite Er. apply hdep_change_branch with (h := h) (id0 := bid) (x0 := x);
      [exact Hg|exact Ho| |].
    + right. exists (pl_push k nid x). split; [exact Hg3|]. intros c Hc. cbn [pl_push bkids] in Hc.
      apply in_app_or in Hc. destruct Hc as [Hc|[<-|[]]]; [left; exact Hc|right; exact Logic.I].
    + eapply hdep_mono; [apply valid_hdep; assumption|]. fold h. lia.
Qed.

(* the statement as asked for *)
Theorem edit_EBranchPushLeaf_rejected : forall (b : bstate V) p bid x ks vs,
  Inv b -> rooms b -> branch_at (flatten b) p = Some bid -> get_branch (flatten b) bid = Some x ->
  (exists lid, last_opt (bkids x) = Some (RLeaf lid)) -> ks <> [] ->
  cap b <= length (bkeys x) ->
  check_invariants (apply_edit (flatten b) (EBranchPushLeaf p ks vs)) <> Ok true /\
  check_invariants_detailed (apply_edit (flatten b) (EBranchPushLeaf p ks vs)) <> Ok None.
Proof.
  intros. apply rejected_weak. eapply edit_EBranchPushLeaf_rejected_full; eassumption.
Qed.

(* ------------------------------------------------------------------ *)
(* 2. EBranchKey: a descendant's key falls outside the new interval *)

Definition bk_edit (i : nat) (z : Z) (x : branch) : branch :=
  mkBranch (bcap x) (set_kz i z (bkeys x)) (bkids x).

Lemma branchkey_unfold : forall (h : heap) p i z id, branch_at h p = Some id ->
  apply_edit h (@EBranchKey V p i z) = upd_branch h id (bk_edit i z).
Proof. intros h p i z id H. cbn [apply_edit]. unfold on_branch. rewrite H. reflexivity. Qed.

(* every child of the rewritten branch is reached with the interval computed from the
   rewritten separators *)
Lemma branchkey_child : forall (b : bstate V) p i z id x j c, Inv b -> rooms b ->
  branch_at (flatten b) p = Some id -> get_branch (flatten b) id = Some x ->
  nth_error (bkids x) j = Some c ->
  exists lo0 hi0,
    hreach (upd_branch (flatten b) id (bk_edit i z)) c false
      (fst (child_bounds (set_kz i z (bkeys x)) lo0 hi0 j))
      (snd (child_bounds (set_kz i z (bkeys x)) lo0 hi0 j)).
Proof.
  intros b p i z id x j c I R Hat Hg Hj.
  destruct (valid_branch_at _ I R Hat) as (x0 & ir & lo & hi & _ & Hr & _).
  destruct (hreach_upd_branch_self (bk_edit i z) Hr) as (ir0 & lo0 & hi0 & Hr').
  exists lo0, hi0.
  exact (hreach_child j Hr' (@upd_branch_same _ _ _ (bk_edit i z) _ Hg) Hj).
Qed.

(* a leaf reached in the edited heap with an interval that excludes one of its keys *)
Lemma branchkey_finish : forall (b : bstate V) p i z id x lid l ir lo hi k, Inv b -> rooms b ->
  branch_at (flatten b) p = Some id -> get_branch (flatten b) id = Some x ->
  hreach (upd_branch (flatten b) id (bk_edit i z)) (RLeaf lid) ir lo hi ->
  get_leaf (flatten b) lid = Some l -> In k (lkeys l) -> ~ in_bounds lo hi k ->
  rejected (apply_edit (flatten b) (@EBranchKey V p i z)).
Proof.
  intros b p i z id x lid l ir lo hi k I R Hat Hg Hr Hgl Hin Hn.
  rewrite (@branchkey_unfold (flatten b) p i z id Hat).
  apply reject_core with (r := RLeaf lid) (ir := ir) (lo := lo) (hi := hi); [exact Hr| |].
  - eapply leaf_key_outside_not_ok; [|exact Hin|exact Hn]. rewrite upd_branch_get_leaf. exact Hgl.
  - rewrite upd_branch_nslots, upd_branch_root.
    eapply hdep_upd_branch; [exact Hg| |apply valid_hdep; assumption].
    apply kids_tame_same. reflexivity.
Qed.

(* 2a. bottom-level branch: the witness leaf is child i (holding a key >= z) or child i+1
   (holding a key < z) of the branch itself.  No hypothesis on the rewritten separator
   list is needed: whether or not it stays sorted, the leaf is checked against it. *)
Theorem edit_EBranchKey_bottom_interval_rejected : forall (b : bstate V) p i z id x ki lid l k,
  Inv b -> rooms b -> branch_at (flatten b) p = Some id -> get_branch (flatten b) id = Some x ->
  nth_error (bkeys x) i = Some ki ->
  get_leaf (flatten b) lid = Some l -> In k (lkeys l) ->
  ((nth_error (bkids x) i = Some (RLeaf lid) /\ (z <= kz k)%Z) \/
   (nth_error (bkids x) (S i) = Some (RLeaf lid) /\ (kz k < z)%Z)) ->
  rejected (apply_edit (flatten b) (@EBranchKey V p i z)).
Proof.
  intros b p i z id x ki lid l k I R Hat Hg Hki Hgl Hin [[Hc Hz]|[Hc Hz]].
  - destruct (@branchkey_child b p i z id x i _ I R Hat Hg Hc) as (lo0 & hi0 & Hr).
    rewrite (@D2_cb_snd_set (bkeys x) i z ki lo0 hi0 Hki) in Hr.
    eapply branchkey_finish; [exact I|exact R|exact Hat|exact Hg|exact Hr|exact Hgl|exact Hin|].
    intros [_ H]. cbn [hi_ok] in H. lia.
  - destruct (@branchkey_child b p i z id x (S i) _ I R Hat Hg Hc) as (lo0 & hi0 & Hr).
    rewrite (@D2_cb_fst_set (bkeys x) i z ki lo0 hi0 Hki) in Hr.
    eapply branchkey_finish; [exact I|exact R|exact Hat|exact Hg|exact Hr|exact Hgl|exact Hin|].
    intros [H _]. cbn [lo_ok] in H. lia.
Qed.

(* 2b. any depth.  Tree-level facts: the keys of a subtree, its rightmost / leftmost leaf *)
Definition tkey (t : ptree) (k : key) : Prop :=
  exists id c ks vs nx, subtree (PLeaf id c ks vs nx) t /\ In k ks.

Lemma tkey_leaf : forall id c ks (vs : list V) nx k, tkey (PLeaf id c ks vs nx) k <-> In k ks.
Proof.
  intros id c ks vs nx k. split.
  - intros (id' & c' & ks' & vs' & nx' & Hs & Hin). inversion Hs; subst. exact Hin.
  - intros Hin. exists id, c, ks, vs, nx. split; [apply sub_refl|exact Hin].
Qed.

Lemma tkey_branch : forall id c ks (cs : list ptree) k,
  tkey (PBranch id c ks cs) k <-> exists ch, In ch cs /\ tkey ch k.
Proof.
  intros id c ks cs k. split.
  - intros (id' & c' & ks' & vs' & nx' & Hs & Hin). inversion Hs; subst.
    exists ch. split; [assumption|]. exists id', c', ks', vs', nx'. split; assumption.
  - intros (ch & Hch & (id' & c' & ks' & vs' & nx' & Hs & Hin)).
    exists id', c', ks', vs', nx'. split; [eapply sub_child; eauto|exact Hin].
Qed.

Lemma ord_tkey_bounds : forall lo hi (t : ptree), ord lo hi t ->
  forall c r hh, shape c r hh t -> forall k, tkey t k -> in_bounds lo hi k.
Proof.
  induction 1 as [lo hi id c ks vs nx Hs F | lo hi id c ks cs Hs F Hc IH]; intros c0 r hh Sh k Hk.
  - apply tkey_leaf in Hk. rewrite Forall_forall in F. auto.
  - apply tkey_branch in Hk. destruct Hk as (ch & Hch & Hk).
    apply shape_branch_inv in Sh. destruct Sh as (h' & _ & _ & Hlen & _ & _ & _ & Hsh).
    pose proof Hch as Hch'. apply In_nth_error in Hch'. destruct Hch' as (j & Hj).
    assert (Hle : j <= length ks).
    { assert (j < length cs) by (apply nth_error_Some; congruence). lia. }
    pose proof (IH j ch Hj _ _ _ (Hsh ch Hch) k Hk) as B.
    destruct (@child_bounds_within ks lo hi j F Hle).
    eapply in_bounds_widen; eauto.
Qed.

(* the rightmost leaf of a subtree inherits the upper bound of the subtree and holds its
   largest key *)
Lemma rightmost_reach : forall (h' : heap) (t : ptree) c hh lo hi,
  4 <= c -> ord lo hi t -> shape c false hh t -> repr h' t ->
  forall ir lo' hi', hreach h' (ref_of t) ir lo' hi' ->
  exists rid rl ir1 lo1, hreach h' (RLeaf rid) ir1 lo1 hi' /\ get_leaf h' rid = Some rl /\
    (exists k0, In k0 (lkeys rl)) /\ (forall k', In k' (lkeys rl) -> tkey t k') /\
    (forall k, tkey t k -> exists k', In k' (lkeys rl) /\ (kz k <= kz k')%Z).
Proof.
  intros h' t.
  induction t as [id c0 ks vs nx | id c0 ks cs IH] using (@ptree_ind' V);
    intros c hh lo hi Hc O Sh Rp ir lo' hi' Hr.
  - apply shape_leaf_inv in Sh. destruct Sh as (_ & -> & Hlen & _ & Hmin). specialize (Hmin eq_refl).
    exists id, (mkLeaf c ks vs nx), ir, lo'. split; [exact Hr|].
    split; [apply (proj1 Rp); apply sub_refl|]. cbn [lkeys]. split; [|split].
    + destruct ks as [|k0 ks]; [|exists k0; left; reflexivity].
      pose proof (D2_half_pos Hc). cbn [length] in Hmin. lia.
    + intros k' Hk'. apply tkey_leaf. exact Hk'.
    + intros k Hk. apply tkey_leaf in Hk. exists k. split; [exact Hk|lia].
  - apply shape_branch_inv in Sh. destruct Sh as (h1 & _ & -> & Hlen & _ & _ & _ & Hsh).
    apply ord_branch_inv in O. destruct O as (Hs & F & Hoc).
    destruct (nth_error cs (length ks)) as [tl|] eqn:El; [|apply nth_error_None in El; lia].
    pose proof (nth_error_In _ _ El) as Hin.
    rewrite Forall_forall in IH.
    assert (Hgb : get_branch h' id = Some (mkBranch c ks (map (@ref_of V) cs)))
      by (apply (proj2 Rp); apply sub_refl).
    pose proof (hreach_child (length ks) Hr Hgb (map_nth_error (@ref_of V) _ _ El)) as Hrl.
    cbn [bkeys] in Hrl.
    assert (Esnd : snd (child_bounds ks lo' hi' (length ks)) = hi').
    { unfold child_bounds. cbn [snd]. rewrite Nat.eqb_refl. reflexivity. }
    rewrite Esnd in Hrl.
    assert (Rl : repr h' tl) by (eapply repr_child; eauto).
    destruct (IH tl Hin c h1 _ _ Hc (Hoc _ _ El) (Hsh _ Hin) Rl _ _ _ Hrl)
      as (rid & rl & ir1 & lo1 & Hrr & Hgr & (k0 & Hk0) & Hsub & Hmax).
    exists rid, rl, ir1, lo1. split; [exact Hrr|]. split; [exact Hgr|]. split; [eauto|]. split.
    + intros k' Hk'. apply tkey_branch. exists tl. split; [exact Hin|apply Hsub; exact Hk'].
    + intros k Hk. apply tkey_branch in Hk. destruct Hk as (ch & Hch & Hk).
      apply In_nth_error in Hch. destruct Hch as (j & Hj).
      assert (Hjl : j < length cs) by (apply nth_error_Some; congruence).
      destruct (Nat.eq_dec j (length ks)) as [->|Hne].
      * rewrite El in Hj. inversion Hj; subst ch. apply Hmax. exact Hk.
      * exists k0. split; [exact Hk0|].
        pose proof (ord_tkey_bounds (Hoc _ _ Hj) (Hsh _ (nth_error_In _ _ Hj)) Hk) as [_ B1].
        pose proof (ord_tkey_bounds (Hoc _ _ El) (Hsh _ Hin) (Hsub _ Hk0)) as [B2 _].
        unfold child_bounds in B1, B2. cbn [fst snd] in B1, B2.
        destruct (Nat.eqb_spec j (length ks)) as [E|_]; [lia|].
        destruct (Nat.eqb_spec (length ks) 0) as [E|_]; [lia|].
        destruct (nth_error ks j) as [kj|] eqn:Ej; [|apply nth_error_None in Ej; lia].
        destruct (nth_error ks (length ks - 1)) as [kl|] eqn:Ekl; [|apply nth_error_None in Ekl; lia].
        cbn [hi_ok lo_ok] in B1, B2.
        assert (Hjk : j <= length ks - 1) by lia.
        pose proof (@sorted_keys_nth_le ks j (length ks - 1) kj kl Hs Hjk Ej Ekl). lia.
Qed.

(* the leftmost leaf inherits the lower bound and holds the smallest key *)
Lemma leftmost_reach : forall (h' : heap) (t : ptree) c hh lo hi,
  4 <= c -> ord lo hi t -> shape c false hh t -> repr h' t ->
  forall ir lo' hi', hreach h' (ref_of t) ir lo' hi' ->
  exists rid rl ir1 hi1, hreach h' (RLeaf rid) ir1 lo' hi1 /\ get_leaf h' rid = Some rl /\
    (exists k0, In k0 (lkeys rl)) /\ (forall k', In k' (lkeys rl) -> tkey t k') /\
    (forall k, tkey t k -> exists k', In k' (lkeys rl) /\ (kz k' <= kz k)%Z).
Proof.
  intros h' t.
  induction t as [id c0 ks vs nx | id c0 ks cs IH] using (@ptree_ind' V);
    intros c hh lo hi Hc O Sh Rp ir lo' hi' Hr.
  - apply shape_leaf_inv in Sh. destruct Sh as (_ & -> & Hlen & _ & Hmin). specialize (Hmin eq_refl).
    exists id, (mkLeaf c ks vs nx), ir, hi'. split; [exact Hr|].
    split; [apply (proj1 Rp); apply sub_refl|]. cbn [lkeys]. split; [|split].
    + destruct ks as [|k0 ks]; [|exists k0; left; reflexivity].
      pose proof (D2_half_pos Hc). cbn [length] in Hmin. lia.
    + intros k' Hk'. apply tkey_leaf. exact Hk'.
    + intros k Hk. apply tkey_leaf in Hk. exists k. split; [exact Hk|lia].
  - apply shape_branch_inv in Sh. destruct Sh as (h1 & _ & -> & Hlen & _ & _ & _ & Hsh).
    apply ord_branch_inv in O. destruct O as (Hs & F & Hoc).
    destruct (nth_error cs 0) as [tf|] eqn:El; [|apply nth_error_None in El; lia].
    pose proof (nth_error_In _ _ El) as Hin.
    rewrite Forall_forall in IH.
    assert (Hgb : get_branch h' id = Some (mkBranch c ks (map (@ref_of V) cs)))
      by (apply (proj2 Rp); apply sub_refl).
    pose proof (hreach_child 0 Hr Hgb (map_nth_error (@ref_of V) _ _ El)) as Hrl.
    cbn [bkeys] in Hrl.
    assert (Efst : fst (child_bounds ks lo' hi' 0) = lo') by reflexivity.
    rewrite Efst in Hrl.
    assert (Rl : repr h' tf) by (eapply repr_child; eauto).
    destruct (IH tf Hin c h1 _ _ Hc (Hoc _ _ El) (Hsh _ Hin) Rl _ _ _ Hrl)
      as (rid & rl & ir1 & hi1 & Hrr & Hgr & (k0 & Hk0) & Hsub & Hmin).
    exists rid, rl, ir1, hi1. split; [exact Hrr|]. split; [exact Hgr|]. split; [eauto|]. split.
    + intros k' Hk'. apply tkey_branch. exists tf. split; [exact Hin|apply Hsub; exact Hk'].
    + intros k Hk. apply tkey_branch in Hk. destruct Hk as (ch & Hch & Hk).
      apply In_nth_error in Hch. destruct Hch as (j & Hj).
      assert (Hjl : j < length cs) by (apply nth_error_Some; congruence).
      destruct (Nat.eq_dec j 0) as [->|Hne].
      * rewrite El in Hj. inversion Hj; subst ch. apply Hmin. exact Hk.
      * exists k0. split; [exact Hk0|].
        pose proof (ord_tkey_bounds (Hoc _ _ Hj) (Hsh _ (nth_error_In _ _ Hj)) Hk) as [B1 _].
        pose proof (ord_tkey_bounds (Hoc _ _ El) (Hsh _ Hin) (Hsub _ Hk0)) as [_ B2].
        unfold child_bounds in B1, B2. cbn [fst snd] in B1, B2.
        destruct (Nat.eqb_spec j 0) as [E|_]; [lia|].
        destruct (Nat.eqb_spec 0 (length ks)) as [E|_]; [lia|].
        destruct (nth_error ks (j - 1)) as [kj|] eqn:Ej; [|apply nth_error_None in Ej; lia].
        destruct (nth_error ks 0) as [kf|] eqn:Ekf; [|apply nth_error_None in Ekf; lia].
        cbn [hi_ok lo_ok] in B1, B2.
        assert (Hjk : 0 <= j - 1) by lia.
        pose proof (@sorted_keys_nth_le ks 0 (j - 1) kf kj Hs Hjk Ekf Ej). lia.
Qed.

(* heap level: leaf lid lies below reference r *)
Inductive hbelow (h : heap) : nref -> N -> Prop :=
| hb_leaf lid : hbelow h (RLeaf lid) lid
| hb_branch j y c lid : get_branch h j = Some y -> In c (bkids y) -> hbelow h c lid ->
    hbelow h (RBranch j) lid.

Lemma hbelow_subtree : forall (h : heap) r lid, hbelow h r lid ->
  forall t : ptree, r = ref_of t -> repr h t ->
  exists c ks vs nx, subtree (PLeaf lid c ks vs nx) t.
Proof.
  induction 1 as [lid | j y c lid Hg Hin Hb IH]; intros t E Rp.
  - destruct t as [id c ks vs nx|id c ks cs]; [|discriminate]. cbn [ref_of] in E.
    inversion E; subst. do 4 eexists. apply sub_refl.
  - destruct t as [id c0 ks vs nx|id c0 ks cs]; [discriminate|]. cbn [ref_of] in E.
    inversion E; subst j.
    rewrite (proj2 Rp _ _ _ _ (sub_refl _)) in Hg. inversion Hg; subst y. cbn [bkids] in Hin.
    apply in_map_iff in Hin. destruct Hin as (ch & <- & Hch).
    assert (Rc : repr h ch) by (eapply repr_child; eauto).
    destruct (IH ch eq_refl Rc) as (c1 & ks1 & vs1 & nx1 & Hs).
    exists c1, ks1, vs1, nx1. eapply sub_child; eauto.
Qed.

Lemma subtree_ord : forall (s t : ptree), subtree s t ->
  forall lo hi, ord lo hi t -> exists lo' hi', ord lo' hi' s.
Proof.
  induction 1 as [t | s id c ks cs ch Hin Hs IH]; intros lo hi O.
  - eauto.
  - apply ord_branch_inv in O. destruct O as (_ & _ & Hoc).
    apply In_nth_error in Hin. destruct Hin as (j & Hj). eapply IH. exact (Hoc _ _ Hj).
Qed.

Lemma subtree_nodup_branch_ids : forall (s t : ptree), subtree s t ->
  NoDup (branch_ids t) -> NoDup (branch_ids s).
Proof.
  induction 1 as [t | s id c ks cs ch Hin Hs IH]; intros ND; [exact ND|].
  apply IH. cbn [branch_ids] in ND. inversion ND; subst.
  eapply NoDup_flat_map_in; eauto.
Qed.

(* the tree node behind an allocated branch of a valid state *)
Lemma valid_branch_tree : forall (b : bstate V) id x, Inv b -> rooms b ->
  get_branch (flatten b) id = Some x ->
  exists c ks cs, x = mkBranch c ks (map (@ref_of V) cs) /\
    subtree (PBranch id c ks cs) (root b) /\
    ~ In id (flat_map (@branch_ids V) cs) /\
    (forall ch, In ch cs ->
       (exists lo hi, ord lo hi ch) /\ (exists hh, shape (cap b) false hh ch) /\
       repr (flatten b) ch).
Proof.
  intros b id x I R Hg. pose proof (flatten_heap_of I R) as HO.
  destruct (ho_branch_inv HO _ Hg) as (c & ks & cs & -> & Hs).
  exists c, ks, cs. split; [reflexivity|]. split; [exact Hs|]. split.
  - destruct (inv_branches I) as (ND & _).
    pose proof (subtree_nodup_branch_ids Hs ND) as ND'. cbn [branch_ids] in ND'.
    inversion ND'; subst. assumption.
  - intros ch Hch.
    assert (Hsc : subtree ch (root b)).
    { eapply subtree_trans; [|exact Hs]. eapply sub_child; [exact Hch|apply sub_refl]. }
    split; [|split].
    + eapply subtree_ord; [exact Hsc|exact (inv_ord I)].
    + destruct (inv_shape I) as (hh & Sh).
      destruct (subtree_shape Hs Sh) as (r' & h' & Sb).
      apply shape_branch_inv in Sb. destruct Sb as (h1 & _ & _ & _ & _ & _ & _ & Hsh).
      exists h1. apply Hsh. exact Hch.
    + eapply repr_subtree; [exact (ho_repr HO)|exact Hsc].
Qed.

(* a subtree that does not contain branch id is represented unchanged after the edit *)
Lemma repr_upd_branch_avoid : forall (h : heap) id f (t : ptree),
  repr h t -> ~ In id (branch_ids t) -> repr (upd_branch h id f) t.
Proof.
  intros h id f t [RL RB] Hn. split.
  - intros i c ks vs nx Hs. rewrite upd_branch_get_leaf. apply RL. exact Hs.
  - intros i c ks cs Hs. rewrite upd_branch_other; [apply RB; exact Hs|].
    intros ->. apply Hn. apply branch_ids_subtree. eauto.
Qed.

(* the witness of the theorem, brought to tree level *)
Lemma deep_common : forall (b : bstate V) i z id x j c lid l k, Inv b -> rooms b ->
  get_branch (flatten b) id = Some x -> nth_error (bkids x) j = Some c ->
  hbelow (flatten b) c lid -> get_leaf (flatten b) lid = Some l -> In k (lkeys l) ->
  exists (tj : ptree) lo hi hh, c = ref_of tj /\ tkey tj k /\ ord lo hi tj /\
    shape (cap b) false hh tj /\ repr (upd_branch (flatten b) id (bk_edit i z)) tj.
Proof.
  intros b i z id x j c lid l k I R Hg Hj Hb Hgl Hin.
  destruct (@valid_branch_tree b id x I R Hg) as (c0 & ks & cs & -> & Hs & Hni & Hch).
  cbn [bkids] in Hj. rewrite nth_error_map' in Hj.
  destruct (nth_error cs j) as [tj|] eqn:Ej; [|discriminate]. cbn [option_map] in Hj.
  inversion Hj; subst c. pose proof (nth_error_In _ _ Ej) as Htj.
  destruct (Hch tj Htj) as ((lo & hi & O) & (hh & Sh) & Rp).
  exists tj, lo, hi, hh. split; [reflexivity|]. split; [|split; [exact O|split; [exact Sh|]]].
  - destruct (@hbelow_subtree (flatten b) (ref_of tj) lid Hb tj eq_refl Rp) as (c1 & ks1 & vs1 & nx1 & Hsl).
    rewrite (proj1 Rp _ _ _ _ _ Hsl) in Hgl. inversion Hgl; subst l. cbn [lkeys] in Hin.
    exists lid, c1, ks1, vs1, nx1. split; [exact Hsl|exact Hin].
  - apply repr_upd_branch_avoid; [exact Rp|]. intros Hi. apply Hni.
    apply in_flat_map. exists tj. split; [exact Htj|exact Hi].
Qed.

(* branch p (at any level): keys[i].z := z, while some leaf below child i holds a key >= z,
   or some leaf below child i+1 holds a key < z.  The rightmost leaf below child i is then
   reached with upper bound z but holds a key >= z (resp. the leftmost leaf below child
   i+1 is reached with lower bound z but holds a key < z). *)
Theorem edit_EBranchKey_interval_rejected : forall (b : bstate V) p i z id x ki c lid l k,
  Inv b -> rooms b -> branch_at (flatten b) p = Some id -> get_branch (flatten b) id = Some x ->
  nth_error (bkeys x) i = Some ki ->
  hbelow (flatten b) c lid -> get_leaf (flatten b) lid = Some l -> In k (lkeys l) ->
  ((nth_error (bkids x) i = Some c /\ (z <= kz k)%Z) \/
   (nth_error (bkids x) (S i) = Some c /\ (kz k < z)%Z)) ->
  rejected (apply_edit (flatten b) (@EBranchKey V p i z)).
Proof.
  intros b p i z id x ki c lid l k I R Hat Hg Hki Hb Hgl Hin [[Hc Hz]|[Hc Hz]].
  - destruct (@deep_common b i z id x i c lid l k I R Hg Hc Hb Hgl Hin)
      as (tj & lo & hi & hh & -> & Hk & O & Sh & Rp).
    destruct (@branchkey_child b p i z id x i _ I R Hat Hg Hc) as (lo0 & hi0 & Hr).
    rewrite (@D2_cb_snd_set (bkeys x) i z ki lo0 hi0 Hki) in Hr.
    destruct (rightmost_reach (inv_cap I) O Sh Rp Hr)
      as (rid & rl & ir1 & lo1 & Hrr & Hgr & _ & _ & Hmax).
    destruct (Hmax k Hk) as (k' & Hk' & Hle).
    rewrite upd_branch_get_leaf in Hgr.
    eapply branchkey_finish; [exact I|exact R|exact Hat|exact Hg|exact Hrr|exact Hgr|exact Hk'|].
    intros [_ H]. cbn [hi_ok] in H. lia.
  - destruct (@deep_common b i z id x (S i) c lid l k I R Hg Hc Hb Hgl Hin)
      as (tj & lo & hi & hh & -> & Hk & O & Sh & Rp).
    destruct (@branchkey_child b p i z id x (S i) _ I R Hat Hg Hc) as (lo0 & hi0 & Hr).
    rewrite (@D2_cb_fst_set (bkeys x) i z ki lo0 hi0 Hki) in Hr.
    destruct (leftmost_reach (inv_cap I) O Sh Rp Hr)
      as (rid & rl & ir1 & hi1 & Hrr & Hgr & _ & _ & Hmin).
    destruct (Hmin k Hk) as (k' & Hk' & Hle).
    rewrite upd_branch_get_leaf in Hgr.
    eapply branchkey_finish; [exact I|exact R|exact Hat|exact Hg|exact Hrr|exact Hgr|exact Hk'|].
    intros [H _]. cbn [lo_ok] in H. lia.
Qed.

(* ------------------------------------------------------------------ *)
(* 3. summary *)
Inductive damaging_new (b : bstate V) : edit V -> Prop :=
(* a full branch is given one more (fresh, well-formed, chained) leaf child *)
| dmg_branch_push_leaf p bid x lid ks vs :
    branch_at (flatten b) p = Some bid -> get_branch (flatten b) bid = Some x ->
    last_opt (bkids x) = Some (RLeaf lid) -> ks <> [] -> cap b <= length (bkeys x) ->
    damaging_new b (EBranchPushLeaf p ks vs)
(* a separator is moved across a key of the subtree on one of its sides *)
| dmg_branch_key_interval p i z id x ki c lid l k :
    branch_at (flatten b) p = Some id -> get_branch (flatten b) id = Some x ->
    nth_error (bkeys x) i = Some ki ->
    hbelow (flatten b) c lid -> get_leaf (flatten b) lid = Some l -> In k (lkeys l) ->
    ((nth_error (bkids x) i = Some c /\ (z <= kz k)%Z) \/
     (nth_error (bkids x) (S i) = Some c /\ (kz k < z)%Z)) ->
    damaging_new b (@EBranchKey V p i z).

Definition damaging2 (b : bstate V) (e : edit V) : Prop := damaging b e \/ damaging_new b e.

Theorem damage_operators_rejected2_full : forall (b : bstate V) (e : edit V),
  Inv b -> rooms b -> damaging2 b e -> rejected (apply_edit (flatten b) e).
Proof.
  intros b e I R [D|D].
  - apply damage_operators_rejected_full; assumption.
  - destruct D.
    + eapply edit_EBranchPushLeaf_rejected_full; eauto.
    + eapply edit_EBranchKey_interval_rejected; eauto.
Qed.

Theorem damage_operators_rejected2 : forall (b : bstate V) (e : edit V),
  Inv b -> rooms b -> damaging2 b e ->
  check_invariants (apply_edit (flatten b) e) <> Ok true /\
  check_invariants_detailed (apply_edit (flatten b) e) <> Ok None.
Proof.
  intros b e I R D. apply rejected_weak. apply damage_operators_rejected2_full; assumption.
Qed.

Theorem damage_operators_refused2 : forall (b : bstate V) (e : edit V) k v z,
  Inv b -> rooms b -> damaging2 b e ->
  let h' := apply_edit (flatten b) e in
  check_invariants h' = Ok false /\ check_invariants_detailed h' = Ok (Some E_TREE) /\
  validate_for_operation h' = Ok (Some E_TREE) /\
  hstep h' (OTryInsert k v) = Some (UResOpt None (Some (DataIntegrity E_TREE))) /\
  hstep h' (@OTryRemove V z) = Some (URes None (Some (DataIntegrity E_TREE))).
Proof.
  intros b e k v z I R D h'.
  destruct (damage_operators_rejected2_full I R D) as (H1 & H2 & H3 & H4).
  split; [exact H1|]. split; [exact H2|]. split; [exact H2|]. split; [apply H3|apply H4].
Qed.

End DamageOps2.

(* ------------------------------------------------------------------ *)
(* 4. non-vacuity *)
Module DamageOps2Examples.
Import DamageOpsExamples.

Ltac by_vm := vm_compute; reflexivity.

(* ---- case 1: capacity 4, keys 1..17: the bottom branch 1 (position 2) holds 4 keys,
   its last child is leaf 7 = [15; 16; 17] ---- *)
Definition ex17_ops : list (op Z) :=
  map (fun n => OInsert (mkKey (Z.of_nat n) 0%N) (Z.of_nat n)) (seq 1 17).

Definition ex17_b : bstate Z := Eval vm_compute in
  match state_after 4 ex17_ops with
  | Some b => b
  | None => mkB 0 (PLeaf 0%N 0 [] [] 0%N) (mkMeta [] []) (mkMeta [] [])
  end.

Lemma ex17_b_reached : state_after 4 ex17_ops = Some ex17_b.
Proof. vm_compute. reflexivity. Qed.

Lemma ex17_b_valid : Inv ex17_b /\ rooms ex17_b.
Proof.
  destruct (@reachable_state Z 4 ex17_ops) as (b & E & I & R & _).
  - lia.
  - vm_compute. reflexivity.
  - rewrite ex17_b_reached in E. inversion E; subst b. split; assumption.
Qed.

Example ex17_positions :
  collect_branch_ids (flatten ex17_b) = Ok [2; 0; 1]%N /\
  get_branch (flatten ex17_b) 1%N =
    Some (mkBranch 4 [mkKey 9 0%N; mkKey 11 0%N; mkKey 13 0%N; mkKey 15 0%N]
                   [RLeaf 3%N; RLeaf 4%N; RLeaf 5%N; RLeaf 6%N; RLeaf 7%N]).
Proof. split; by_vm. Qed.

(* the pushed leaf [18; 19] is itself well formed, sorted after leaf 7, within the root's
   interval [7, +oo), and properly chained: only the capacity of branch 1 is exceeded *)
Definition ex17_edit : edit Z :=
  EBranchPushLeaf 2 [mkKey 18 0%N; mkKey 19 0%N] [18%Z; 19%Z].

Example ex_dmg_branch_push_leaf : damaging2 ex17_b ex17_edit.
Proof.
  right. eapply dmg_branch_push_leaf with (lid := 7%N); [by_vm|by_vm|by_vm|discriminate|].
  cbn [bkeys length cap ex17_b]. lia.
Qed.

(* the edit took effect: branch 1 now has 5 keys and 6 children, the new leaf 8 follows
   leaf 7 in the chain *)
Example ex17_edit_effect :
  get_branch (apply_edit (flatten ex17_b) ex17_edit) 1%N =
    Some (mkBranch 4 [mkKey 9 0%N; mkKey 11 0%N; mkKey 13 0%N; mkKey 15 0%N; mkKey 18 0%N]
                   [RLeaf 3%N; RLeaf 4%N; RLeaf 5%N; RLeaf 6%N; RLeaf 7%N; RLeaf 8%N]) /\
  option_map (@lnext Z) (get_leaf (apply_edit (flatten ex17_b) ex17_edit) 7%N) = Some 8%N /\
  get_leaf (apply_edit (flatten ex17_b) ex17_edit) 8%N =
    Some (mkLeaf 4 [mkKey 18 0%N; mkKey 19 0%N] [18%Z; 19%Z] NULL).
Proof. split; [|split]; by_vm. Qed.

Example ex17_theorem_applies : rejected (apply_edit (flatten ex17_b) ex17_edit).
Proof.
  destruct ex17_b_valid as [I R]. apply damage_operators_rejected2_full; try assumption.
  exact ex_dmg_branch_push_leaf.
Qed.

Example ex17_computed :
  check_invariants (apply_edit (flatten ex17_b) ex17_edit) = Ok false /\
  check_invariants_detailed (apply_edit (flatten ex17_b) ex17_edit) = Ok (Some E_TREE).
Proof. split; by_vm. Qed.

(* ---- case 2 on ex_b (capacity 4, keys 1..20, three levels):
     root 2 = keys [7; 13], children branches 0, 1, 3;
     branch 0 (position 1) = keys [3; 5], children leaves 0 = [1; 2], 1 = [3; 4], 2 = [5; 6];
     branch 1 (position 2) = keys [9; 11], first child leaf 3 = [7; 8] ---- *)

(* the rewritten separator lists stay strictly ascending, so these edits are not covered
   by [dmg_branch_key] *)
Example ex_branch_key_still_sorted :
  map (fun e : nat * nat * Z =>
         let '(p, i, z) := e in
         match branch_at (flatten ex_b) p with
         | Some id => match get_branch (flatten ex_b) id with
                      | Some x => strictly_asc (set_kz i z (bkeys x))
                      | None => false end
         | None => false end)
      [(1, 0, 2%Z); (1, 0, 4%Z); (0, 0, 6%Z); (0, 0, 8%Z)]
  = [true; true; true; true].
Proof. by_vm. Qed.

(* bottom level, left side: separator 3 -> 2, but leaf 0 (child 0) holds key 2 *)
Example ex_dmg_branch_key_bottom_left : damaging2 ex_b (@EBranchKey Z 1 0 2).
Proof.
  right. eapply dmg_branch_key_interval with (c := RLeaf 0%N) (lid := 0%N) (k := mkKey 2 0%N);
    [by_vm|by_vm|by_vm|apply hb_leaf|by_vm| |].
  - cbn [lkeys]. right. left. reflexivity.
  - left. split; [by_vm|cbn [kz]; lia].
Qed.

(* bottom level, right side: separator 3 -> 4, but leaf 1 (child 1) holds key 3 *)
Example ex_dmg_branch_key_bottom_right : damaging2 ex_b (@EBranchKey Z 1 0 4).
Proof.
  right. eapply dmg_branch_key_interval with (c := RLeaf 1%N) (lid := 1%N) (k := mkKey 3 0%N);
    [by_vm|by_vm|by_vm|apply hb_leaf|by_vm| |].
  - cbn [lkeys]. left. reflexivity.
  - right. split; [by_vm|cbn [kz]; lia].
Qed.

(* two levels up, left side: root separator 7 -> 6, but leaf 2 below branch 0 holds key 6 *)
Example ex_dmg_branch_key_deep_left : damaging2 ex_b (@EBranchKey Z 0 0 6).
Proof.
  right. eapply dmg_branch_key_interval with (c := RBranch 0%N) (lid := 2%N) (k := mkKey 6 0%N);
    [by_vm|by_vm|by_vm| |by_vm| |].
  - eapply hb_branch with (c := RLeaf 2%N); [by_vm| |apply hb_leaf].
    cbn [bkids]. right. right. left. reflexivity.
  - cbn [lkeys]. right. left. reflexivity.
  - left. split; [by_vm|cbn [kz]; lia].
Qed.

(* two levels up, right side: root separator 7 -> 8, but leaf 3 below branch 1 holds key 7 *)
Example ex_dmg_branch_key_deep_right : damaging2 ex_b (@EBranchKey Z 0 0 8).
Proof.
  right. eapply dmg_branch_key_interval with (c := RBranch 1%N) (lid := 3%N) (k := mkKey 7 0%N);
    [by_vm|by_vm|by_vm| |by_vm| |].
  - eapply hb_branch with (c := RLeaf 3%N); [by_vm| |apply hb_leaf].
    cbn [bkids]. left. reflexivity.
  - cbn [lkeys]. left. reflexivity.
  - right. split; [by_vm|cbn [kz]; lia].
Qed.

(* the bottom-level theorem applies directly *)
Example ex_bottom_theorem_applies : rejected (apply_edit (flatten ex_b) (@EBranchKey Z 1 0 2)).
Proof.
  destruct ex_b_valid as [I R].
  eapply edit_EBranchKey_bottom_interval_rejected
    with (id := 0%N) (lid := 0%N) (ki := mkKey 3 0%N) (k := mkKey 2 0%N);
    [exact I|exact R|by_vm|by_vm|by_vm|by_vm| |].
  - cbn [lkeys]. right. left. reflexivity.
  - left. split; [by_vm|cbn [kz]; lia].
Qed.

Example ex_theorem_applies2 :
  rejected (apply_edit (flatten ex_b) (@EBranchKey Z 1 0 2)) /\
  rejected (apply_edit (flatten ex_b) (@EBranchKey Z 1 0 4)) /\
  rejected (apply_edit (flatten ex_b) (@EBranchKey Z 0 0 6)) /\
  rejected (apply_edit (flatten ex_b) (@EBranchKey Z 0 0 8)).
Proof.
  destruct ex_b_valid as [I R].
  split; [|split; [|split]]; apply damage_operators_rejected2_full; try assumption.
  - exact ex_dmg_branch_key_bottom_left.
  - exact ex_dmg_branch_key_bottom_right.
  - exact ex_dmg_branch_key_deep_left.
  - exact ex_dmg_branch_key_deep_right.
Qed.

(* and the transcribed validators, run on the edited heaps, agree *)
Example ex_computed2 :
  map (fun e => check_invariants (apply_edit (flatten ex_b) e))
    [@EBranchKey Z 1 0 2; @EBranchKey Z 1 0 4; @EBranchKey Z 0 0 6; @EBranchKey Z 0 0 8]
  = repeat (Ok false) 4.
Proof. by_vm. Qed.

End DamageOps2Examples.

Print Assumptions edit_EBranchPushLeaf_rejected_full.
Print Assumptions edit_EBranchPushLeaf_rejected.
Print Assumptions edit_EBranchKey_bottom_interval_rejected.
Print Assumptions edit_EBranchKey_interval_rejected.
Print Assumptions damage_operators_rejected2_full.
Print Assumptions damage_operators_rejected2.
Print Assumptions damage_operators_refused2.
Print Assumptions DamageOps2Examples.ex17_theorem_applies.
Print Assumptions DamageOps2Examples.ex_theorem_applies2.
