(* HISTORIES OF ANY LENGTH.
   The history theorems of Rust/Reach.v (run_good, run_refines, reachable_inv,
   refines_amap) and Props/Reachable.v (reachable_state) are stated under
   [fits (ops_weight ops)], which counts EVERY call -- readers included -- and so limits a
   history to about 2.1e9 calls although the real limit of the data structure is the number
   of arena slots (32-bit ids, NULL = 2^32-1).  Here the same conclusions are proved under
   [run_small], a hypothesis about the SIZE OF THE STATES the history goes through: before
   every call the current contents and arenas, plus what the call can add, stay below the
   model bound.  The number of calls is not bounded: after any small history, any number of
   reader calls (more than 2^32 of them included) is still a small history.

   size_of: the task text proposed max(|contents|, |leaf mask|, |branch mask|).  [Good n b]
   (Rust/ReachDefs.v) allows the masks one slot more than the contents bound
   (|mask| <= S n; the empty map already owns one leaf slot), so with that definition the
   old hypothesis would NOT imply the new one at the very edge of the bound (witness: a
   single OBatchInsert of 2^31-6 items on the empty map: weight 2^31-5 fits, but
   1 + (2^31-5) does not).  [size_of] therefore counts the masks minus one; it is exactly the
   least n with [Good n b] ([Good_iff_size]). *)
From Coq Require Import List Arith ZArith NArith Lia Bool.
From BPT Require Import Common.Base Common.AMap Rust.Arena Rust.Tree Rust.Heap Rust.Readers Rust.Run
     Rust.InvDefs Rust.Repr Rust.Spec Rust.MiscProofs Rust.ReachDefs Rust.ReachStep Rust.Reach.
Import ListNotations.
Set Implicit Arguments.

Section AnyLength.
Variable V : Type.

(* ------------------------------------------------------------------ *)
(* 1. definitions *)

Definition size_of (b : bstate V) : nat :=
  Nat.max (length (contents (root b)))
          (Nat.max (pred (length (m_mask (lmeta b)))) (pred (length (m_mask (bmeta b))))).

(* the current state is small enough for the next call *)
Definition step_small (b : bstate V) (o : op V) : Prop := fits (size_of b + op_weight o).

(* every state along the history is small enough for the call made on it *)
Fixpoint run_small (b : bstate V) (ops : list (op V)) : Prop :=
  match ops with
  | [] => True
  | o :: r => step_small b o /\ run_small (fst (step b o)) r
  end.

(* calls that never change the map *)
Definition is_reader (o : op V) : bool :=
  match o with
  | OInsert _ _ | ORemove _ | OGetMutWrite _ _ | OClear | ORemoveItem _
  | OTryInsert _ _ | OTryRemove _ | OBatchInsert _ => false
  | _ => true
  end.

(* ------------------------------------------------------------------ *)
(* 2. size_of is the least Good bound *)

Lemma Good_iff_size : forall n (b : bstate V), Good n b <-> Inv b /\ size_of b <= n.
Proof.
  intros n b. unfold Good, size_of. split.
  - intros (I & L1 & L2 & L3). split; [exact I|]. lia.
  - intros (I & L). split; [exact I|]. lia.
Qed.

Lemma Good_size : forall (b : bstate V), Inv b -> Good (size_of b) b.
Proof. intros b I. apply Good_iff_size. split; [exact I|lia]. Qed.

Lemma Good_size_le : forall n (b : bstate V), Good n b -> size_of b <= n.
Proof. intros n b G. apply Good_iff_size in G. tauto. Qed.

Lemma size_new : forall c (b0 : bstate V), b_new V c = Some b0 -> size_of b0 = 0.
Proof.
  intros c b0 E. unfold b_new in E. destruct (Nat.ltb c MIN_CAPACITY); [discriminate E|].
  inversion E; subst b0. reflexivity.
Qed.

Lemma new_some_good : forall c (b0 : bstate V), b_new V c = Some b0 ->
  4 <= c /\ Good 0 b0 /\ cap b0 = c /\ contents (root b0) = [].
Proof.
  intros c b0 E.
  assert (Hc : 4 <= c).
  { destruct (Nat.lt_ge_cases c 4) as [H|H]; [|exact H].
    apply (new_rejects V) in H. rewrite H in E. discriminate E. }
  split; [exact Hc|].
  destruct (@new_good V c Hc) as (b0' & E' & G & Hcap & C).
  rewrite E in E'. inversion E'; subst b0'. auto.
Qed.

(* ------------------------------------------------------------------ *)
(* 3. one step, then histories *)

Lemma step_small_all : forall (b : bstate V) (o : op V),
  Inv b -> step_small b o ->
  Good (size_of b + op_weight o) (fst (step b o)) /\
  out_is_error (snd (step b o)) = false /\
  cap (fst (step b o)) = cap b /\
  (abstract_op o = true ->
     spec_step (contents (root b)) o = (contents (root (fst (step b o))), snd (step b o))).
Proof.
  intros b o I F. pose proof (Good_size I) as G.
  destruct (step_all o G F) as (H1 & H2 & H3 & H4 & _). auto.
Qed.

(* the general form: from any state that is Good and within the bound *)
Lemma run_small_from : forall ops n (b : bstate V),
  Good n b -> fits n -> run_small b ops ->
  let b' := fst (run b ops) in
  Inv b' /\ rooms b' /\ heap_of b' (flatten b') /\ cap b' = cap b /\
  (forall x, In x (snd (run b ops)) -> out_is_error x = false) /\
  (forallb (@abstract_op V) ops = true ->
     snd (run b ops) = snd (spec_run (contents (root b)) ops) /\
     contents (root b') = fst (spec_run (contents (root b)) ops)).
Proof.
  induction ops as [|o ops IH]; intros n b G F RS; cbv zeta.
  - cbn [run fst snd spec_run].
    assert (F0 : fits (n + 0)) by (rewrite Nat.add_0_r; exact F).
    split; [exact (Good_inv G)|]. split; [exact (@Good_rooms V n 0 b G F0)|].
    split; [exact (@Good_heap V n 0 b G F0)|]. split; [reflexivity|].
    split; [intros x []|]. intros _. split; reflexivity.
  - destruct RS as [S1 RS].
    destruct (step_small_all (Good_inv G) S1) as (G1 & E1 & C1 & R1).
    specialize (IH _ _ G1 S1 RS). cbv zeta in IH.
    destruct IH as (I2 & Ro2 & H2 & C2 & NE2 & A2).
    destruct (run_cons b o ops) as [Rf Rs]. rewrite Rf, Rs.
    split; [exact I2|]. split; [exact Ro2|]. split; [exact H2|].
    split; [rewrite C2; exact C1|].
    split.
    + intros x [Hx|Hx]; [subst x; exact E1|exact (NE2 x Hx)].
    + intros A. cbn [forallb] in A. apply andb_true_iff in A. destruct A as [Ao Ar].
      specialize (R1 Ao). destruct (A2 Ar) as [A2a A2b].
      rewrite spec_run_cons. cbn [fst snd]. rewrite R1. cbn [fst snd].
      split; [rewrite A2a; reflexivity|exact A2b].
Qed.

Lemma fits_0 : fits 0.
Proof. unfold fits, NULL. cbn [N.of_nat]. lia. Qed.

Theorem run_any_length : forall c (b0 : bstate V) ops,
  b_new V c = Some b0 -> run_small b0 ops ->
  let b := fst (run b0 ops) in
  Inv b /\ rooms b /\ heap_of b (flatten b) /\ cap b = c /\
  (forall x, In x (snd (run b0 ops)) -> out_is_error x = false) /\
  (forallb (@abstract_op V) ops = true ->
     snd (run b0 ops) = snd (spec_run [] ops) /\
     contents (root b) = fst (spec_run [] ops)).
Proof.
  intros c b0 ops E RS. cbv zeta.
  destruct (@new_some_good c b0 E) as (_ & G & Hcap & C).
  destruct (@run_small_from ops 0 b0 G fits_0 RS) as (I & Ro & H & Cp & NE & A).
  rewrite C in A. rewrite Hcap in Cp. auto 10.
Qed.

(* ------------------------------------------------------------------ *)
(* 4. readers never change the state, so any number of them may follow *)

Lemma readers_never_grow : forall (b : bstate V) (o : op V),
  is_reader o = true -> fst (step b o) = b.
Proof. intros b o R. destruct o; try discriminate R; reflexivity. Qed.

Lemma reader_weight : forall (o : op V), is_reader o = true -> op_weight o = 1.
Proof. intros o R. destruct o; try discriminate R; reflexivity. Qed.

Lemma run_small_readers : forall reads (b : bstate V),
  forallb is_reader reads = true -> (forall o, In o reads -> step_small b o) ->
  run_small b reads.
Proof.
  induction reads as [|o reads IH]; intros b R S; cbn [run_small]; [exact I|].
  cbn [forallb] in R. apply andb_true_iff in R. destruct R as [Ro Rr].
  split; [apply S; left; reflexivity|].
  rewrite (readers_never_grow b o Ro). apply IH; [exact Rr|].
  intros o' Ho'. apply S. right. exact Ho'.
Qed.

Lemma run_small_app : forall ops (b : bstate V) ops',
  run_small b ops -> run_small (fst (run b ops)) ops' -> run_small b (ops ++ ops').
Proof.
  induction ops as [|o ops IH]; intros b ops' R1 R2.
  - exact R2.
  - cbn [app run_small] in *. destruct R1 as [S1 R1]. split; [exact S1|].
    destruct (run_cons b o ops) as [Rf _]. rewrite Rf in R2. apply IH; assumption.
Qed.

Lemma run_small_app_inv : forall ops (b : bstate V) ops',
  run_small b (ops ++ ops') -> run_small b ops /\ run_small (fst (run b ops)) ops'.
Proof.
  induction ops as [|o ops IH]; intros b ops' R.
  - split; [exact I|exact R].
  - cbn [app run_small] in R. destruct R as [S1 R]. destruct (IH _ _ R) as [Ra Rb].
    destruct (run_cons b o ops) as [Rf _]. rewrite Rf. cbn [run_small]. auto.
Qed.

Theorem any_number_of_reads : forall c (b0 : bstate V) ops reads,
  b_new V c = Some b0 -> run_small b0 ops -> forallb is_reader reads = true ->
  (forall o, In o reads -> step_small (fst (run b0 ops)) o) ->
  run_small b0 (ops ++ reads).
Proof.
  intros c b0 ops reads _ RS R S. apply run_small_app; [exact RS|].
  apply run_small_readers; assumption.
Qed.

(* after any small history, ANY number n of get calls -- n > 2^32 included -- is again a
   small history, so [run_any_length] applies to it *)
Corollary three_billion_gets : forall c (b0 : bstate V) ops z n,
  b_new V c = Some b0 -> run_small b0 ops -> step_small (fst (run b0 ops)) (OGet z) ->
  run_small b0 (ops ++ repeat (OGet z) n).
Proof.
  intros c b0 ops z n E RS S. apply (@any_number_of_reads c b0 ops (repeat (OGet z) n) E RS).
  - induction n as [|n IH]; [reflexivity|exact IH].
  - intros o Ho. apply repeat_spec in Ho. subst o. exact S.
Qed.

(* a reader state is always small enough for one more reader call when it was small enough
   for the call that produced it: the bound on the state is all that is needed *)
Lemma reader_small_of_fits : forall (b : bstate V) (o : op V),
  is_reader o = true -> fits (S (size_of b)) -> step_small b o.
Proof.
  intros b o R F. unfold step_small. rewrite (reader_weight o R), Nat.add_1_r. exact F.
Qed.

(* ------------------------------------------------------------------ *)
(* 5. the old hypothesis implies the new one *)

Lemma fits_run_small_from : forall ops n (b : bstate V),
  Good n b -> fits (n + ops_weight ops) -> run_small b ops.
Proof.
  induction ops as [|o ops IH]; intros n b G F; cbn [run_small]; [exact I|].
  rewrite ops_weight_cons, Nat.add_assoc in F.
  assert (F1 : fits (n + op_weight o)) by (eapply fits_mono; [exact F|lia]).
  split.
  - unfold step_small. eapply fits_mono; [exact F1|]. pose proof (Good_size_le G). lia.
  - destruct (step_good o G F1) as (G1 & _ & _). exact (IH _ _ G1 F).
Qed.

Theorem fits_implies_run_small : forall c (b0 : bstate V) ops,
  4 <= c -> b_new V c = Some b0 -> fits (ops_weight ops) -> run_small b0 ops.
Proof.
  intros c b0 ops _ E F. destruct (@new_some_good c b0 E) as (_ & G & _).
  exact (@fits_run_small_from ops 0 b0 G F).
Qed.

(* ------------------------------------------------------------------ *)
(* 6. the new hypothesis is strictly weaker: histories outside the old bound *)

Lemma ops_weight_repeat_get : forall z n, ops_weight (repeat (@OGet V z) n) = n.
Proof.
  intros z n. induction n as [|n IH]; [reflexivity|].
  cbn [repeat]. rewrite ops_weight_cons, IH. reflexivity.
Qed.

Lemma length_run_outputs : forall ops (b : bstate V), length (snd (run b ops)) = length ops.
Proof.
  induction ops as [|o ops IH]; intros b; [reflexivity|].
  destruct (run_cons b o ops) as [_ Rs]. rewrite Rs. cbn [length]. rewrite IH. reflexivity.
Qed.

(* any number of get calls on the empty map is a small history; every call is answered
   (no panic / fuel / UB) exactly as the reference map answers it *)
Lemma gets_on_new : forall c (b0 : bstate V) z n,
  b_new V c = Some b0 ->
  run_small b0 (repeat (@OGet V z) n) /\
  Inv (fst (run b0 (repeat (@OGet V z) n))) /\
  (forall x, In x (snd (run b0 (repeat (@OGet V z) n))) -> out_is_error x = false) /\
  snd (run b0 (repeat (@OGet V z) n)) = snd (spec_run [] (repeat (@OGet V z) n)) /\
  length (snd (run b0 (repeat (@OGet V z) n))) = n.
Proof.
  intros c b0 z n E.
  assert (RS : run_small b0 (repeat (@OGet V z) n)).
  { apply (@three_billion_gets c b0 [] z n E I).
    cbn [run fst]. unfold step_small. rewrite (@size_new c b0 E). cbn [op_weight Nat.add].
    unfold fits, NULL. cbn [N.of_nat]. lia. }
  split; [exact RS|].
  destruct (@run_any_length c b0 (repeat (@OGet V z) n) E RS) as (I1 & _ & _ & _ & NE & A).
  split; [exact I1|]. split; [exact NE|].
  assert (Ab : forallb (@abstract_op V) (repeat (@OGet V z) n) = true).
  { clear. induction n as [|n IH]; [reflexivity|exact IH]. }
  destruct (A Ab) as [A1 _]. split; [exact A1|].
  rewrite length_run_outputs. apply repeat_length.
Qed.

Lemma two_pow_32_not_fits : ~ fits (N.to_nat 4294967296).
Proof. unfold fits. rewrite N2Nat.id. unfold NULL. lia. Qed.

(* 2^32 get calls on the empty map: outside the old bound [fits], inside the new one *)
Theorem beyond_old_bound : forall c (b0 : bstate V) z,
  b_new V c = Some b0 ->
  let ops := repeat (@OGet V z) (N.to_nat 4294967296) in
  ~ fits (ops_weight ops) /\ run_small b0 ops /\
  Inv (fst (run b0 ops)) /\
  (forall x, In x (snd (run b0 ops)) -> out_is_error x = false) /\
  snd (run b0 ops) = snd (spec_run [] ops) /\
  length (snd (run b0 ops)) = N.to_nat 4294967296.
Proof.
  intros c b0 z E. cbv zeta. split.
  - rewrite ops_weight_repeat_get. exact two_pow_32_not_fits.
  - exact (@gets_on_new c b0 z (N.to_nat 4294967296) E).
Qed.

End AnyLength.

Print Assumptions run_any_length.
Print Assumptions readers_never_grow.
Print Assumptions any_number_of_reads.
Print Assumptions three_billion_gets.
Print Assumptions fits_implies_run_small.
Print Assumptions beyond_old_bound.
